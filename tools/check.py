#!/usr/bin/env python3
"""Single entry point of every check:   check.py Cxx [--tier quick|thorough] [--replay file]

Skeleton (DESIGN.md §2.1): build /repo's tree (hooks on) -> regenerate lean/Gen -> lake build the
model, driver and the property's proof module -> audit (forbidden constructs, #print axioms,
leanchecker in the thorough tier) -> correspondence streams (real code vs compiled Lean model,
bit-exact, plus an independent oracle on the real outputs) -> verdict -> evidence/Cxx.json.
"""
import argparse, hashlib, json, os, re, sys, time

sys.path.insert(0, os.path.dirname(os.path.abspath(__file__)))
import vlib  # noqa: E402
from props import PROPS  # noqa: E402

VERIF = vlib.VERIF


def load_known():
    p = os.path.join(VERIF, "known_findings.json")
    if not os.path.exists(p):
        return []
    return json.load(open(p)).get("findings", [])


def known_match(known, pid, stream, opline, what=""):
    head = opline.split("|")[0] if opline else ""
    for k in known:
        if k.get("status") != "open" or pid not in k.get("properties", [k.get("property")]):
            continue
        key = k.get("key", {})
        if key.get("stream") and key["stream"] != stream:
            continue
        if key.get("op_regex") and not re.search(key["op_regex"], head):
            continue
        if key.get("what_regex") and not re.search(key["what_regex"], what):
            continue
        return k
    return None


def main():
    ap = argparse.ArgumentParser()
    ap.add_argument("prop")
    ap.add_argument("--tier", default=os.environ.get("VERIF_TIER", "quick"))
    ap.add_argument("--replay", default=None)
    args = ap.parse_args()
    pid = args.prop
    tier = args.tier if args.tier in ("quick", "thorough") else "quick"
    seed = int(os.environ.get("VERIF_SEED", "1") or 1)
    P = PROPS[pid]
    t0 = time.time()
    known = load_known()
    notes = []
    violations = []  # dicts: kind, detail, replay payload
    known_hits = []

    if args.replay:
        rp = json.load(open(args.replay))
        seed = rp.get("seed", seed)
        tier = rp.get("tier", tier)
        print(f"replaying {args.replay}: stream={rp.get('stream')} seed={seed} tier={tier} case={rp.get('case_index')}")

    # 1. build ---------------------------------------------------------------------------------
    variants = P.get("variants", {"plain": None})
    libs = {}
    for v in variants:
        out, ok, log = vlib.build_lib(v)
        if not ok:
            print(f"ERROR: /repo does not build ({v}):\n{log[:3000]}")
            sys.exit(2)
        exe, ok, log = vlib.build_harness(out, v)
        if not ok:
            print(f"ERROR: harness does not build against /repo ({v}):\n{log[:3000]}")
            violations.append(dict(kind="harness-build", detail="the correspondence harness no longer compiles against /repo's headers: " + log[:1500]))
            exe = None
        libs[v] = (out, exe)

    # 2. generated facts + lake build ----------------------------------------------------------
    gen_err = None
    import gen_facts
    with vlib.Lock("gen"):
        try:
            # the driver imports Gen.Caches and Gen.CSrc, so these are always regenerated
            gres = gen_facts.generate(sorted(set(["caches", "csrc"] + list(P.get("gen", [])))), libs["plain"][0])
            uns = (gres.get("csrc") or {}).get("unsupported") or {}
            if uns and "csrc" in P.get("gen", []):
                # the source uses a construct outside the translated subset: the translator-based tie is broken for
                # the properties that own it (the functions become stub terms, so their theorems fail as well)
                gen_err = "c2lean: not translated: " + "; ".join(f"{k}: {v[:200]}" for k, v in uns.items())
        except Exception as e:  # extraction itself failed: the tie is broken
            gen_err = f"{type(e).__name__}: {e}"
    ok_model, log_model = vlib.lake_build(["Spq", "spqdriver"])
    if not ok_model:
        print("ERROR: model/driver do not build:\n" + log_model[-3000:])
        sys.exit(2)
    module = P["module"]
    modules = [module] + list(P.get("extra_modules", []))
    ok_proof, log_proof = vlib.lake_build(modules)
    thms = []
    thm_module = {}
    for mm in modules:
        for t in vlib.theorems_in(os.path.join(vlib.LEAN, mm.replace(".", "/") + ".lean")):
            thms.append(t)
            thm_module[t] = mm
    obligations = len(thms)
    discharged = 0
    # a property theorem that disappears (deleted, renamed, moved out of the obligation files) is a broken obligation:
    # tools/expected_theorems.json is the committed list (regenerate with tools/mkexpected.py when theorems are added)
    expected_missing = []
    try:
        exp = json.load(open(os.path.join(VERIF, "tools", "expected_theorems.json"))).get(pid, [])
        expected_missing = [t for t in exp if t not in set(thms)]
    except Exception as e:
        expected_missing = [f"(expected_theorems.json unreadable: {e})"]
    axiom_report = {}
    broken_theorems = []
    if gen_err:
        broken_theorems.append(("Gen extraction", gen_err))
    for t in expected_missing:
        broken_theorems.append((t, "property theorem listed in tools/expected_theorems.json is no longer among the obligations of this check"))
    if ok_proof:
        axiom_report = {}
        for mm in modules:
            rep, raw = vlib.audit_axioms(mm, [t for t in thms if thm_module[t] == mm])
            axiom_report.update(rep)
        for t in thms:
            ax = axiom_report.get(t)
            if ax is None:
                broken_theorems.append((t, "no #print axioms output"))
            elif not set(ax) <= vlib.ALLOWED_AXIOMS:
                broken_theorems.append((t, "axioms " + ", ".join(ax)))
            else:
                discharged += 1
    else:
        errs = re.findall(r"error: ([^\n]*\n(?:[^\n]*\n){0,6})", log_proof)
        broken_theorems.append((module, "lake build failed: " + ("".join(errs)[:3000] or log_proof[-3000:])))
    hits = vlib.grep_forbidden()
    for h in hits:
        broken_theorems.append((f"{h[0]}:{h[1]}", "forbidden construct: " + h[2]))
    lc = None
    if tier == "thorough" and ok_proof:
        lc = True
        for mm in modules:
            okc, outc = vlib.leanchecker(mm)
            lc = lc and okc
            if not okc:
                broken_theorems.append((mm, "leanchecker rejected: " + outc[-1500:]))

    # 3. correspondence ------------------------------------------------------------------------
    stream_results = []
    other_tags = {}
    samples = []
    total_cases = 0
    distinct = set()
    nontrivial = 0
    dist = {}
    streams = P["streams"][tier]
    if args.replay and rp.get("stream"):
        streams = [s for s in streams if s[0] == rp["stream"]] or [(rp["stream"], rp.get("variant", "plain"))]
    for (stream, variant) in streams:
        out, exe = libs.get(variant, (None, None))
        if exe is None:
            continue
        r = vlib.run_stream(exe, stream, seed, tier, pid)
        stream_results.append(r)
        pre = r["prefix"]
        if r["harness_rc"] != 0:
            # sanitizer abort or crash of the real code: a failing input exists (last op line written)
            last = None
            try:
                with open(pre + ".ops") as f:
                    for line in f:
                        last = line
            except Exception:
                pass
            what = f"harness exit {r['harness_rc']} ({variant} build): " + r["harness_err"][-1500:]
            k = known_match(known, pid, stream, last or "", what)
            if k:
                known_hits.append((k, what[:200]))
            else:
                violations.append(dict(kind="impl-fault", stream=stream, variant=variant, detail=what, op=vlib.clip(last), found_input=True))
            continue
        if r.get("model_rc", 0) != 0:
            # the executable model itself failed on this stream: the correspondence is broken
            violations.append(dict(kind="correspondence", stream=stream, variant=variant, found_input=False,
                                   detail="model driver crashed: " + (r.get("model_err", "") or "")[-1500:]))
            continue
        total_cases += r["cases"]
        for k2, v2 in r["meta"].items():
            dist[f"{stream}.{k2}"] = v2
        # distinct / non-trivial counting + samples
        with open(pre + ".ops") as fo, open(pre + ".real") as fr:
            for i, (lo, lr) in enumerate(zip(fo, fr)):
                hsh = hashlib.blake2b(lo.encode(), digest_size=8).digest()
                if hsh in distinct:
                    continue
                distinct.add(hsh)
                pin = lo.split("|", 1)[1].strip() if "|" in lo else ""
                pout = lr.strip()
                if pout[:2] in ("1 ", "0 "):
                    pout = pout[2:]
                if lo.startswith("ca nop"):
                    nontrivial += 1 if len(lo.split()) > 2 else 0   # oracle-only case with its own descriptor
                elif pin != pout and pout != "":
                    nontrivial += 1
                if i % max(1, r["cases"] // 3) == 0 and len(samples) < 12:
                    samples.append({"stream": stream, "op": vlib.clip(lo.strip(), 300), "real": vlib.clip(lr.strip(), 200)})
        for (n, verdict) in r["oracle_fails"]:
            # oracle verdicts are tagged with the property whose statement they test ("FAIL C02 …"); a failure of
            # another property's statement is not a violation of this one (it is reported by that property's check)
            segs = [sg.strip() for sg in verdict.split(" ;; ")]
            mine = []
            for sg in segs:
                mtag = re.match(r"FAIL (C\d\d)\b", sg)
                if mtag and mtag.group(1) != pid and mtag.group(1) not in P.get("also_tags", []):
                    other_tags[mtag.group(1)] = other_tags.get(mtag.group(1), 0) + 1
                else:
                    mine.append(sg)
            if not mine:
                continue
            verdict = " ;; ".join(mine)
            op = vlib.get_line(pre + ".ops", n)
            k = known_match(known, pid, stream, op or "", verdict)
            if k:
                known_hits.append((k, verdict[:200]))
                continue
            violations.append(dict(kind="oracle", stream=stream, variant=variant, case_index=n, detail=verdict, op=vlib.clip(op, 20000),
                                   real=vlib.clip(vlib.get_line(pre + ".real", n), 20000), found_input=True))
        for n in r["disagreements"]:
            if any(v.get("case_index") == n and v.get("stream") == stream for v in violations):
                continue
            op = vlib.get_line(pre + ".ops", n)
            verdict = vlib.get_line(pre + ".oracle", n)
            k = known_match(known, pid, stream, op or "", "model-disagreement")
            if k:
                known_hits.append((k, "model-disagreement"))
                continue
            violations.append(dict(kind="correspondence", stream=stream, variant=variant, case_index=n, oracle=verdict,
                                   detail="model and implementation disagree", op=vlib.clip(op, 20000),
                                   real=vlib.clip(vlib.get_line(pre + ".real", n), 20000),
                                   model=vlib.clip(vlib.get_line(pre + ".model", n), 20000), found_input=False))

    if args.replay and rp.get("case_index") and stream_results:
        r0 = stream_results[0]
        n0 = rp["case_index"]
        print(f"--- replayed case {n0} of stream {r0['stream']} (seed {seed}, tier {tier}) ---")
        print("op    :", vlib.clip(vlib.get_line(r0["prefix"] + ".ops", n0), 600))
        print("real  :", vlib.clip(vlib.get_line(r0["prefix"] + ".real", n0), 400))
        print("model :", vlib.clip(vlib.get_line(r0["prefix"] + ".model", n0), 400))
        print("oracle:", vlib.get_line(r0["prefix"] + ".oracle", n0))

    # 4. proof obligations broken -> search for a failing input --------------------------------
    for (t, why) in broken_theorems:
        violations.append(dict(kind="proof", theorem=t, detail=why, found_input=False))
    need_search = violations and not any(v.get("found_input") for v in violations) and not args.replay
    if need_search and tier == "quick":
        # failing-input search: thorough streams with the oracles on, two seeds
        for s2 in (seed, seed + 1):
            for (stream, variant) in P["streams"]["thorough"]:
                out, exe = libs.get(variant, (None, None))
                if exe is None:
                    continue
                r = vlib.run_stream(exe, stream, s2, "thorough", pid + "search", timeout=1500)
                if r["harness_rc"] != 0:
                    violations.insert(0, dict(kind="impl-fault", stream=stream, variant=variant, seed=s2, tier="thorough",
                                              detail=f"harness exit {r['harness_rc']}: " + r["harness_err"][-1500:], found_input=True))
                    break
                fails2 = [(n, v) for (n, v) in r["oracle_fails"]
                          if any((not re.match(r"FAIL (C\d\d)\b", sg.strip())) or re.match(r"FAIL (C\d\d)\b", sg.strip()).group(1) == pid for sg in v.split(" ;; "))]
                if fails2:
                    n, verdict = fails2[0]
                    op = vlib.get_line(r["prefix"] + ".ops", n)
                    if known_match(known, pid, stream, op or "", verdict):
                        continue
                    violations.insert(0, dict(kind="oracle", stream=stream, variant=variant, seed=s2, tier="thorough", case_index=n, detail=verdict,
                                              op=vlib.clip(op, 20000), real=vlib.clip(vlib.get_line(r["prefix"] + ".real", n), 20000), found_input=True))
                    break
            if any(v.get("found_input") for v in violations):
                break

    # 5. verdict -------------------------------------------------------------------------------
    by_id = {}
    for (k, w) in known_hits:
        by_id.setdefault(k.get("id", json.dumps(k, sort_keys=True)), (k, []))[1].append(w)
    for fid, (kk, ws) in sorted(by_id.items()):
        print(f"KNOWN-FINDING: property={pid} {fid}: {kk.get('what', '')} [{len(ws)} matching case(s) this run, e.g. {ws[0][:160]}]")
    rc = 0
    if violations:
        rc = 1
        os.makedirs(os.path.join(VERIF, "replays"), exist_ok=True)
        found = [v for v in violations if v.get("found_input")]
        lead = found[0] if found else violations[0]
        path = os.path.join(VERIF, "replays", f"{pid}-{seed}-{tier}.json")
        payload = dict(property=pid, seed=lead.get("seed", seed), tier=lead.get("tier", tier), stream=lead.get("stream"), variant=lead.get("variant"),
                       case_index=lead.get("case_index"), lead=lead, all=violations[:20],
                       broken_obligations=[dict(theorem=t, why=w) for (t, w) in broken_theorems],
                       how_to_replay=f"python3 tools/check.py {pid} --replay {path}")
        vlib.write_json(path, payload)
        suffix = "" if found else " no-failing-input-found"
        print(f"detail: {lead.get('kind')}: {vlib.clip(str(lead.get('detail')), 600)}")
        print(f"VIOLATION property={pid} replay={path}{suffix}")

    # 6. evidence ------------------------------------------------------------------------------
    ev = dict(
        property_id=pid, tier=tier, seed=seed, level="proof",
        coverage=dict(
            obligations=max(obligations, 1), discharged=discharged,
            checker_cmd=f"cd lean && lake build {' '.join(modules)} && lake env lean <#print axioms on each theorem>" + (" && lake env leanchecker <each module>" if tier == "thorough" else ""),
            trusted_base=["Lean 4.33 kernel", "axioms propext, Classical.choice, Quot.sound only (audited per theorem this run)",
                          "no native_decide / bv_decide / sorry (grep audited this run)",
                          "hand-written Lean model tied to /repo by the correspondence streams below (differential execution, bit-exact)",
                          "gcc -O2 build of /repo's working tree with -DSPQLIOS_VERIF"] + P.get("trusted_base", []),
            theorems=thms, axioms={t: axiom_report.get(t) for t in thms},
            leanchecker=lc,
            traces_validated_against_impl=total_cases,
            evaluations=total_cases, distinct_nontrivial=nontrivial,
            rule="cases are generated by harness streams " + ", ".join(s for s, _ in P["streams"][tier]) +
                 "; distinct = distinct op lines (hash), non-trivial = the real code's output payload differs from the input payload",
            samples=samples or [{"note": "no correspondence case ran"}],
            distribution=dist, oracle_failures_of_other_properties=other_tags,
            streams=[dict(stream=r["stream"], cases=r["cases"], disagreements=r.get("n_disagree", 0), oracle_fail=r.get("n_oracle_fail", 0),
                          harness_s=round(r.get("harness_s", 0), 2), model_s=round(r.get("model_s", 0), 2)) for r in stream_results],
            proved=P.get("proved", ""), not_proved=P.get("not_proved", ""),
        ),
        assumptions=P.get("assumptions", []),
        wall_s=round(time.time() - t0, 2),
        violations=len(violations),
    )
    vlib.write_json(os.path.join(VERIF, "evidence", f"{pid}.json"), ev)
    # the replay file carries every line that matters; the raw stream files can be hundreds of MB
    vlib.cleanup_work(pid, tier)
    print(f"{pid} {tier}: theorems {discharged}/{obligations}, correspondence cases {total_cases} (non-trivial {nontrivial}), "
          f"violations {len(violations)}, known {len(known_hits)}, {ev['wall_s']}s")
    sys.exit(rc)


if __name__ == "__main__":
    main()
