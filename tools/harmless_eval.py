#!/usr/bin/env python3
"""Evaluate behaviour-preserving rewrites produced by independent agents:
     harmless_eval.py <srcroot with v1..vN/patch.diff + meta.json> <idprefix> [--checks C01,C02,...]
   For each patch: scratch worktree build + the 238 tests (must pass), then apply to /repo, run the quick checks (all 18 by
   default), undo, regenerate the Gen files and restore the clean-tree evidence.  A VIOLATION line that names a concrete
   failing input on such a patch is a false alarm of the machinery; `no-failing-input-found` is the expected report when a
   proof obligation or the correspondence breaks on a harmless rewrite.  Results are stored in /verif/seeded/<id>/meta.json."""
import json, os, shutil, subprocess, sys, time

sys.path.insert(0, os.path.dirname(os.path.abspath(__file__)))
import seed_eval as se

VERIF = se.VERIF
ALL = ["C%02d" % i for i in range(1, 19)]


def main():
    root, prefix = os.path.abspath(sys.argv[1]), sys.argv[2]
    checks = ALL
    if "--checks" in sys.argv:
        checks = sys.argv[sys.argv.index("--checks") + 1].split(",")
    for v in sorted(os.listdir(root)):
        src = os.path.join(root, v)
        if not os.path.exists(os.path.join(src, "patch.diff")):
            continue
        sid = f"{prefix}-{v}"
        meta = json.load(open(os.path.join(src, "meta.json")))
        rec = dict(meta)
        rec["kind"] = "harmless"
        rec["evaluated_at"] = time.ctime()
        se.ensure_wt()
        rc, out = se.sh(["git", "apply", os.path.join(src, "patch.diff")], cwd=se.WT)
        rec["patch_applies"] = rc == 0
        ok_b, ok_t, log = se.build_and_test()
        se.sh(["git", "checkout", "--", "."], cwd=se.WT)
        rec["patched"] = dict(builds=ok_b, tests_pass=ok_t)
        rec["confirmed"] = bool(rc == 0 and ok_b and ok_t)
        results = {}
        if rec["confirmed"]:
            st = subprocess.run(["git", "-C", se.REPO, "status", "--porcelain", "--untracked-files=no"], capture_output=True, text=True).stdout.strip()
            assert st == "", "/repo has local modifications: " + st
            evbak = "/tmp/seval/evidence.bak"
            shutil.rmtree(evbak, ignore_errors=True)
            shutil.copytree(os.path.join(VERIF, "evidence"), evbak)
            se.sh(["git", "-C", se.REPO, "apply", os.path.join(src, "patch.diff")])
            try:
                for c in checks:
                    t = time.time()
                    rc2, out2 = se.sh(["python3", os.path.join(VERIF, "tools", "check.py"), c, "--tier", "quick"], cwd=VERIF, timeout=5400)
                    lines = [l for l in out2.splitlines() if l.startswith("VIOLATION") or l.startswith("detail:")]
                    viol = [l for l in lines if l.startswith("VIOLATION")]
                    results[c] = dict(rc=rc2, alarm=bool(viol), with_input=bool(viol) and not any("no-failing-input-found" in l for l in viol),
                                      lines=[l[:300] for l in lines], wall_s=round(time.time() - t, 1))
            finally:
                se.sh(["git", "-C", se.REPO, "checkout", "--", "."])
                se.sh(["python3", os.path.join(VERIF, "tools", "gen_facts.py")], cwd=VERIF)
                for f in os.listdir(evbak):
                    shutil.copy(os.path.join(evbak, f), os.path.join(VERIF, "evidence", f))
                shutil.rmtree(evbak, ignore_errors=True)
        rec["checks_run"] = results
        dst = os.path.join(VERIF, "seeded", sid)
        os.makedirs(dst, exist_ok=True)
        for f in os.listdir(src):
            if os.path.isfile(os.path.join(src, f)) and os.path.getsize(os.path.join(src, f)) < 200000:
                shutil.copy(os.path.join(src, f), os.path.join(dst, f))
        json.dump(rec, open(os.path.join(dst, "meta.json"), "w"), indent=1)
        alarms = {c: ("INPUT" if r["with_input"] else "no-input") for c, r in results.items() if r["alarm"]}
        print(sid, "confirmed" if rec["confirmed"] else "NOT-CONFIRMED", "alarms:", alarms or "none", "|", meta.get("summary", "")[:100], flush=True)
        for c, r in results.items():
            if r["alarm"]:
                for l in r["lines"][:3]:
                    print("    ", c, l[:260], flush=True)
    # the driver binary was rebuilt from patched Gen files on the way: rebuild it for the clean tree
    se.sh("lake build spqdriver", cwd=os.path.join(VERIF, "lean"))


if __name__ == "__main__":
    main()
