#!/usr/bin/env python3
"""Gen/Dispatch.lean: which kernel every constructor (and the module function table) installs under each
CPU-feature mask and dimension — read from the LIVE objects of the library built from /repo (C07)."""
import os, re, subprocess, sys
VERIF = os.path.dirname(os.path.dirname(os.path.abspath(__file__)))
REPO = os.environ.get("VERIF_REPO", "/repo")
sys.path.insert(0, os.path.join(VERIF, "tools"))
from gen_facts import write_if_changed, GEN, lean_str, lean_list

CTORS = [
    ("new_reim_fft_precomp", "new_reim_fft_precomp(m, 0)", 1),
    ("new_reim_ifft_precomp", "new_reim_ifft_precomp(m, 0)", 1),
    ("new_reim_fftvec_mul_precomp", "new_reim_fftvec_mul_precomp(m)", 1),
    ("new_reim_fftvec_addmul_precomp", "new_reim_fftvec_addmul_precomp(m)", 1),
    ("new_reim_from_znx64_precomp", "new_reim_from_znx64_precomp(m, 50)", 1),
    ("new_reim_to_znx64_precomp/50", "new_reim_to_znx64_precomp(m, 4.0, 50)", 1),
    ("new_reim_to_znx64_precomp/51", "new_reim_to_znx64_precomp(m, 4.0, 51)", 1),
    ("new_reim_to_znx64_precomp/52", "new_reim_to_znx64_precomp(m, 4.0, 52)", 1),
    ("new_reim_to_znx64_precomp/63", "new_reim_to_znx64_precomp(m, 4.0, 63)", 1),
    ("new_reim_to_tnx_precomp", "new_reim_to_tnx_precomp(m, 2.0, 18)", 1),
    ("new_cplx_fft_precomp", "new_cplx_fft_precomp(m, 0)", 1),
    ("new_cplx_ifft_precomp", "new_cplx_ifft_precomp(m, 0)", 1),
    ("new_cplx_fftvec_mul_precomp", "new_cplx_fftvec_mul_precomp(m)", 1),
    ("new_cplx_fftvec_addmul_precomp", "new_cplx_fftvec_addmul_precomp(m)", 1),
    ("new_cplx_from_znx32_precomp", "new_cplx_from_znx32_precomp(m)", 1),
    ("new_cplx_from_tnx32_precomp", "new_cplx_from_tnx32_precomp(m)", 1),
    ("new_cplx_to_tnx32_precomp/18", "new_cplx_to_tnx32_precomp(m, 2.0, 18)", 1),
    ("new_cplx_to_tnx32_precomp/19", "new_cplx_to_tnx32_precomp(m, 2.0, 19)", 1),
    ("new_reim4_from_cplx_precomp", "new_reim4_from_cplx_precomp(m)", 4),
    ("new_reim4_to_cplx_precomp", "new_reim4_to_cplx_precomp(m)", 4),
    ("new_reim4_fftvec_mul_precomp", "new_reim4_fftvec_mul_precomp(m)", 4),
    ("new_reim4_fftvec_addmul_precomp", "new_reim4_fftvec_addmul_precomp(m)", 4),
]
# masks: (disable_avx2, disable_fma, disable_avx512)
MASKS = [(0, 0, 0), (1, 1, 1), (1, 0, 0), (0, 1, 0), (0, 0, 1)]


def generate(libdir):
    lib = os.path.join(libdir, "libspq.a")
    nm = subprocess.run(["nm", "--defined-only", lib], capture_output=True, text=True).stdout
    syms = sorted({l.split()[2] for l in nm.splitlines() if len(l.split()) == 3 and l.split()[1] == "T"})
    # names of the module function-table fields, from the private header
    hdr = open(os.path.join(REPO, "spqlios/arithmetic/vec_znx_arithmetic_private.h")).read()
    body = re.search(r"struct module_virtual_functions_t\s*\{(.*?)\};", hdr, re.S).group(1)
    body = re.sub(r"//[^\n]*", "", body)
    fields = re.findall(r"\*\s*(\w+)\s*;", body)
    src = ['#include <stdio.h>', '#include <string.h>', '#include <stdlib.h>', '#include <inttypes.h>',
           '#include "spqlios/arithmetic/vec_znx_arithmetic_private.h"', '#include "spqlios/reim/reim_fft.h"',
           '#include "spqlios/cplx/cplx_fft.h"', '#include "spqlios/reim4/reim4_fftvec_public.h"']
    src.append("struct S { const char* n; void* p; };")
    for s in syms:
        src.append(f"extern char {s}[];") if False else None
    # addresses via asm-level symbol references (avoids needing prototypes)
    for s in syms:
        src.append(f'extern void SYM_{s}(void) __asm__("{s}");')
    src.append("static struct S tab[] = {" + ",".join(f'{{"{s}", (void*)&SYM_{s}}}' for s in syms) + "};")
    src.append("static const char* nameof(void* p){ if(!p) return \"NULL\"; for (unsigned i=0;i<sizeof(tab)/sizeof(tab[0]);i++) if (tab[i].p==p) return tab[i].n; return \"UNKNOWN\"; }")
    src.append("static const char* fields[] = {" + ",".join(f'"{f}"' for f in fields) + "};")
    src.append("int main(){")
    src.append(f"  int masks[{len(MASKS)}][3] = {{" + ",".join("{%d,%d,%d}" % m for m in MASKS) + "};")
    src.append(f"  for (int k=0;k<{len(MASKS)};k++) {{ spqlios_verif_set_cpu_mask(masks[k][0],masks[k][1],masks[k][2]);")
    src.append("    for (uint32_t lg=0; lg<=16; lg++) { uint32_t m = 1u<<lg;")
    for name, call, minm in CTORS:
        src.append(f'      if (m >= {minm}) {{ void* t = (void*){call}; printf("{name} %d %u %s\\n", k, lg, nameof(*(void**)t)); free(t); }}')
    src.append("    }")
    src.append("    for (uint32_t lg=1; lg<=16; lg++) { for (int ty=0; ty<2; ty++) { if (ty==1 && masks[k][0]) continue;")
    src.append("      MODULE* mod = new_module_info((uint64_t)1<<lg, ty==0?FFT64:NTT120); void** f=(void**)&mod->func;")
    src.append(f'      for (unsigned i=0;i<{len(fields)};i++) printf("module%d.%s %d %u %s\\n", ty, fields[i], k, lg, nameof(f[i]));')
    src.append("      if (ty==0) { printf(\"module0.p_conv %d %u %s\\n\", k, lg, nameof(*(void**)mod->mod.fft64.p_conv));")
    src.append("        printf(\"module0.p_fft %d %u %s\\n\", k, lg, nameof(*(void**)mod->mod.fft64.p_fft));")
    src.append("        printf(\"module0.p_ifft %d %u %s\\n\", k, lg, nameof(*(void**)mod->mod.fft64.p_ifft));")
    src.append("        printf(\"module0.p_reim_to_znx %d %u %s\\n\", k, lg, nameof(*(void**)mod->mod.fft64.p_reim_to_znx));")
    src.append("        printf(\"module0.p_addmul %d %u %s\\n\", k, lg, nameof(*(void**)mod->mod.fft64.p_addmul));")
    src.append("        printf(\"module0.mul_fft %d %u %s\\n\", k, lg, nameof(*(void**)mod->mod.fft64.mul_fft)); }")
    src.append("      delete_module_info(mod); } }")
    src.append("  }")
    src.append("  return 0; }")
    cpath = os.path.join(libdir, "dispatch_stub.c")
    exe = os.path.join(libdir, "dispatch_stub")
    open(cpath, "w").write("\n".join(x for x in src if x))
    r = subprocess.run(["gcc", "-O0", "-w", "-DSPQLIOS_VERIF", "-DNDEBUG", "-I" + REPO, cpath, lib, "-lm", "-o", exe], capture_output=True, text=True)
    if r.returncode != 0:
        raise RuntimeError("dispatch stub does not compile: " + r.stderr[:3000])
    out = subprocess.run([exe], capture_output=True, text=True, timeout=600)
    if out.returncode != 0:
        raise RuntimeError("dispatch stub failed: " + out.stderr[:2000])
    groups = {}
    for line in out.stdout.splitlines():
        c, k, lg, inst = line.split()
        groups.setdefault((c, int(k), inst), []).append(int(lg))
    rows = sorted(groups.items())
    lines = ["/- GENERATED by tools/gen_dispatch.py from the library built from /repo's current tree.",
             "   row = (constructor or module<type>.<field>, mask index, installed function, log2 of the dimensions it was installed for)",
             "   masks (disable avx2, fma, avx512): " + str(MASKS) + " -/",
             "namespace Gen.Dispatch", "", "def rows : List (String × Nat × String × List Nat) := ["]
    lines.append(",\n".join(f"  ({lean_str(c)}, {k}, {lean_str(inst)}, {lean_list(lgs)})" for (c, k, inst), lgs in rows))
    lines += ["]", "", "end Gen.Dispatch", ""]
    write_if_changed(os.path.join(GEN, "Dispatch.lean"), "\n".join(lines))
    return dict(rows=len(rows))


if __name__ == "__main__":
    import build_repo
    out, ok, log = build_repo.build("plain")
    print(generate(out))
