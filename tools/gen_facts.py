#!/usr/bin/env python3
"""G — generated facts: a translator for *data*.  Everything here is re-extracted from /repo's current
source tree / freshly built objects on every run and written to lean/Gen/*.lean (only when the content
changed, so that lake does not rebuild needlessly).  The theorems that consume these files are re-checked
by `lake build` on every run.

modules:
  globals  -> Gen/Globals.lean : mutable static-storage variables (TLS flag), which function references
                                 them, direct call graph, indirect-call sites, address-taken functions,
                                 API roots parsed from the public headers            (C12, C15, C18)
  caches   -> Gen/Caches.lean  : structure of every *_simple convenience function parsed from the C
                                 source: static table, slot expression, re-init guard, init arguments (C15, C12)
  dispatch -> Gen/Dispatch.lean: which kernel every constructor installs under each CPU-feature mask  (C07)
  tmpbytes -> Gen/TmpBytes.lean: live *_tmp_bytes / bytes_of_* values over a shape box               (C11)
  q120 / q120ntt : delegated to tools/gen_q120.py / tools/gen_q120ntt.py when present
  csrc     -> Gen/CSrc.lean    : the C source of the coefficient kernels translated into terms of the deep-embedded
                                 IR Spq.CIR by tools/c2lean.py (clang JSON AST)                    (C05 C08 C09)
"""
import glob, json, os, re, subprocess, sys

VERIF = os.path.dirname(os.path.dirname(os.path.abspath(__file__)))
REPO = os.environ.get("VERIF_REPO", "/repo")
GEN = os.path.join(VERIF, "lean", "Gen")
ALL = ["globals", "caches", "dispatch", "tmpbytes", "q120", "q120ntt", "csrc"]


def write_if_changed(path, content):
    os.makedirs(os.path.dirname(path), exist_ok=True)
    if os.path.exists(path) and open(path).read() == content:
        return False
    with open(path + ".tmp", "w") as f:
        f.write(content)
    os.rename(path + ".tmp", path)
    return True


def lean_str(s):
    return '"' + s.replace("\\", "\\\\").replace('"', '\\"') + '"'


def lean_list(xs, f=str):
    return "[" + ", ".join(f(x) for x in xs) + "]"


# ------------------------------------------------------------------------------------------------
# globals
MUT_SECTIONS = (".bss", ".data", ".tbss", ".tdata")


def is_mut_section(sec):
    if sec.startswith(".data.rel.ro") or sec.startswith(".rodata"):
        return False
    return any(sec == s or sec.startswith(s + ".") for s in MUT_SECTIONS)


def parse_object(path):
    """returns dict(funcs={name:{calls:set, refs:set, indirect:bool}}, addr_taken=set, globals={name:(sec,tls)})"""
    obj = os.path.basename(path)
    t = subprocess.run(["objdump", "-t", path], capture_output=True, text=True).stdout
    syms = []  # (section, value, size, name)
    functions = set()
    for line in t.splitlines():
        m = re.match(r"^([0-9a-f]{16})\s+(.{7})\s+(\S+)\s+([0-9a-f]{16})\s+(.*)$", line)
        if not m:
            continue
        val, flags, sec, size, name = int(m.group(1), 16), m.group(2), m.group(3), int(m.group(4), 16), m.group(5).strip()
        name = re.sub(r"^\.(hidden|protected|internal)\s+", "", name)
        if "F" in flags:
            functions.add(name)
        if "O" in flags or (is_mut_section(sec) and "d" not in flags and name and not name.startswith(".")):
            syms.append((sec, val, size, name, flags[0] in "gu!" or flags[1] == "w"))
    globs = {}
    extern_visible = {}   # name -> key, for mutable objects with external linkage (referenced from other translation units)
    for sec, val, size, name, ext in syms:
        if is_mut_section(sec):
            globs[f"{obj}:{name}"] = (sec, sec.startswith(".tbss") or sec.startswith(".tdata"))
            if ext:
                extern_visible[name] = f"{obj}:{name}"

    def sym_at(sec, off):
        best = None
        for s, v, sz, n, _e in syms:
            if s == sec and v <= off < v + max(sz, 1):
                best = n
        return best

    d = subprocess.run(["objdump", "-dr", "--no-show-raw-insn", path], capture_output=True, text=True).stdout
    funcs = {}
    cur = None
    last_insn = ""
    addr_taken = set()
    pending = []   # PC-relative relocations against a mutable section, waiting for the address of the next instruction
    unresolved = []

    def resolve_pending(next_addr):
        for (fn, raddr, rtype, base, addend) in pending:
            # S + A - P with P = relocation address; the CPU adds the address of the NEXT instruction, so the referenced
            # byte is at  addend + (next_addr - raddr)  (this is addend + 4 only when no immediate follows the displacement)
            off = addend + (next_addr - raddr) if next_addr is not None else addend + 4
            n = sym_at(base, off)
            if n is None:
                unresolved.append(f"{obj}:{fn}: {rtype} {base}{addend:+#x} -> offset {off:#x} hits no symbol")
                n = base
            funcs[fn]["refs"].add(f"{obj}:{n}")
        pending.clear()

    for line in d.splitlines():
        m = re.match(r"^[0-9a-f]+ <([^>]+)>:$", line)
        if m:
            resolve_pending(None)
            cur = m.group(1)
            funcs.setdefault(cur, dict(calls=set(), refs=set(), indirect=False, extrefs=set()))
            continue
        if cur is None:
            continue
        m = re.match(r"^\s+([0-9a-f]+):\s+(R_X86_64_\w+)\s+(\S+)", line)
        if m:
            raddr, rtype, target = int(m.group(1), 16), m.group(2), m.group(3)
            tm = re.match(r"^(.*?)([+-]0x[0-9a-f]+)?$", target)
            base, add = tm.group(1), tm.group(2)
            addend = int(add, 16) if add else 0
            mnem = last_insn.split()[0] if last_insn.split() else ""
            is_call = mnem.startswith("call") or mnem.startswith("j")
            if is_mut_section(base):
                if "PC32" in rtype or "PLT32" in rtype or "GOTPCREL" in rtype:
                    pending.append((cur, raddr, rtype, base, addend))
                else:
                    n = sym_at(base, addend)
                    if n is None:
                        unresolved.append(f"{obj}:{cur}: {rtype} {base}{addend:+#x} hits no symbol")
                        n = base
                    funcs[cur]["refs"].add(f"{obj}:{n}")
            elif f"{obj}:{base}" in globs:
                funcs[cur]["refs"].add(f"{obj}:{base}")
            elif base in functions or rtype in ("R_X86_64_PLT32",) or (is_call and not base.startswith(".")):
                if is_call:
                    funcs[cur]["calls"].add(base)
                else:
                    addr_taken.add(base)
                    funcs[cur]["extrefs"].add(base)
            elif not base.startswith("."):
                # reference to an external symbol that is not called: a function address, or a data object defined in
                # ANOTHER translation unit (resolved against the global symbols of all objects in gen_globals)
                addr_taken.add(base)
                funcs[cur]["extrefs"].add(base)
            continue
        m = re.match(r"^\s+([0-9a-f]+):\s+(.*)$", line)
        if m:
            resolve_pending(int(m.group(1), 16))
            last_insn = m.group(2).strip()
            parts = last_insn.split()
            if parts and (parts[0].startswith("call") or parts[0] == "jmp") and len(parts) > 1 and parts[1].startswith("*"):
                funcs[cur]["indirect"] = True
            # direct call / jump to a function of the SAME translation unit: resolved by the assembler, no relocation
            dm = re.match(r"^(call\w*|j\w+)\s+[0-9a-f]+ <([^>+]+)(\+0x[0-9a-f]+)?>", last_insn)
            if dm and dm.group(2) != cur:
                funcs[cur]["calls"].add(dm.group(2))
    resolve_pending(None)
    if unresolved:
        raise RuntimeError("globals extraction: unresolved references to mutable sections: " + "; ".join(unresolved[:5]))
    # function addresses stored in data sections (tables of function pointers)
    r = subprocess.run(["objdump", "-r", path], capture_output=True, text=True).stdout
    sec = None
    for line in r.splitlines():
        m = re.match(r"^RELOCATION RECORDS FOR \[(.*)\]:", line)
        if m:
            sec = m.group(1)
            continue
        m = re.match(r"^[0-9a-f]+\s+(R_X86_64_\w+)\s+(\S+)", line)
        if m and sec and not sec.startswith(".text") and not sec.startswith(".debug") and not sec.startswith(".eh_frame"):
            base = re.sub(r"[+-]0x[0-9a-f]+$", "", m.group(2))
            if not base.startswith("."):
                addr_taken.add(base)
    return dict(funcs=funcs, addr_taken=addr_taken, globals=globs, extern_visible=extern_visible)


def api_roots():
    """exported entry points that take a shared object: first parameter `[const] MODULE*` or `[const] *_PRECOMP*`"""
    roots, simple = set(), set()
    hdrs = []
    for pat in ("spqlios/arithmetic/vec_znx_arithmetic.h", "spqlios/reim/reim_fft.h", "spqlios/cplx/cplx_fft.h",
                "spqlios/q120/q120_arithmetic.h", "spqlios/q120/q120_ntt.h", "spqlios/reim4/reim4_fftvec_public.h"):
        p = os.path.join(REPO, pat)
        if os.path.exists(p):
            hdrs.append(p)
    for h in hdrs:
        src = open(h).read()
        src = re.sub(r"/\*.*?\*/", "", src, flags=re.S)
        src = re.sub(r"//[^\n]*", "", src)
        for m in re.finditer(r"EXPORT\s+[\w\s\*]+?\b(\w+)\s*\(([^;{]*?)\)\s*;", src, flags=re.S):
            name, params = m.group(1), m.group(2)
            first = params.split(",")[0].strip()
            if name.endswith("_simple"):
                simple.add(name)
            elif re.match(r"^(const\s+)?(MODULE|\w+_PRECOMP|\w+_precomp)\s*\*", first):
                # also non-const: the q120 product kernels take their precomputation through a non-const pointer
                roots.add(name)
    return sorted(roots), sorted(simple)


def gen_globals(libdir):
    objs = sorted(glob.glob(os.path.join(libdir, "*.o")))
    funcs, addr_taken, globs, extern_visible = {}, set(), {}, {}
    for o in objs:
        if os.path.basename(o).startswith("hobj"):
            continue
        r = parse_object(o)
        for k, v in r["funcs"].items():
            f = funcs.setdefault(k, dict(calls=set(), refs=set(), indirect=False, extrefs=set()))
            f["calls"] |= v["calls"]
            f["refs"] |= v["refs"]
            f["indirect"] |= v["indirect"]
            f["extrefs"] |= v.get("extrefs", set())
        addr_taken |= r["addr_taken"]
        globs.update(r["globals"])
        extern_visible.update(r["extern_visible"])
    # references to mutable objects defined in another translation unit (GOT / absolute relocations against the symbol name)
    for k, f in funcs.items():
        for base in f["extrefs"]:
            if base in extern_visible:
                f["refs"].add(extern_visible[base])
    # GCC may split functions into f.cold / f.part.N: fold them into the parent
    for k in list(funcs):
        base = re.sub(r"\.(cold|part\.\d+|constprop\.\d+|isra\.\d+)(\..*)?$", "", k)
        if base != k:
            f = funcs.setdefault(base, dict(calls=set(), refs=set(), indirect=False, extrefs=set()))
            f["calls"] |= funcs[k]["calls"]
            f["refs"] |= funcs[k]["refs"]
            f["indirect"] |= funcs[k]["indirect"]
    names = sorted(funcs)
    fid = {n: i for i, n in enumerate(names)}
    gnames = sorted(globs)
    gid = {n: i for i, n in enumerate(gnames)}
    roots, simple = api_roots()
    hook = [g for g in gnames if ":spqlios_verif_" in g]
    out = ["/- GENERATED by tools/gen_facts.py (globals) from the objects built from /repo's current tree. -/",
           "namespace Gen.Globals", ""]
    out.append("/-- function names (index = id) -/")
    out.append("def funcs : List String := " + lean_list(names, lean_str))
    out.append("/-- mutable static-storage objects: (object:symbol, isTLS, isVerifHook) -/")
    out.append("def globals : List (String × Bool × Bool) := " + lean_list(gnames, lambda g: f"({lean_str(g)}, {'true' if globs[g][1] else 'false'}, {'true' if g in hook else 'false'})"))
    out.append("/-- direct call edges: caller ↦ callees (library-internal) -/")
    out.append("def calls : List (Nat × List Nat) := " + lean_list([n for n in names if any(c in fid for c in funcs[n]['calls'])],
                                                                 lambda n: f"({fid[n]}, {lean_list(sorted(fid[c] for c in funcs[n]['calls'] if c in fid))})"))
    out.append("/-- functions containing an indirect call or jump -/")
    out.append("def indirect : List Nat := " + lean_list([fid[n] for n in names if funcs[n]["indirect"]]))
    out.append("/-- functions whose address is taken somewhere (possible targets of indirect calls) -/")
    out.append("def addrTaken : List Nat := " + lean_list(sorted(fid[n] for n in addr_taken if n in fid)))
    out.append("/-- function ↦ mutable globals it references -/")
    out.append("def refs : List (Nat × List Nat) := " + lean_list([n for n in names if funcs[n]["refs"]],
                                                                lambda n: f"({fid[n]}, {lean_list(sorted(gid[g] for g in funcs[n]['refs']))})"))
    out.append("/-- exported entry points taking a shared `const MODULE*` / `const *_PRECOMP*` (parsed from the public headers) -/")
    out.append("def apiRoots : List Nat := " + lean_list([fid[r] for r in roots if r in fid]))
    out.append("def apiRootNames : List String := " + lean_list([r for r in roots if r in fid], lean_str))
    out.append("/-- the `*_simple` convenience entry points -/")
    out.append("def simpleRoots : List Nat := " + lean_list([fid[r] for r in simple if r in fid]))
    out.append("def simpleRootNames : List String := " + lean_list([r for r in simple if r in fid], lean_str))
    out += ["", "end Gen.Globals", ""]
    write_if_changed(os.path.join(GEN, "Globals.lean"), "\n".join(out))
    return dict(nfuncs=len(names), nglobals=len(gnames), roots=len(roots), simple=len(simple))


# ------------------------------------------------------------------------------------------------
# caches: structure of the *_simple functions, parsed from the C source
def strip_c_comments(src):
    src = re.sub(r"/\*.*?\*/", " ", src, flags=re.S)
    return re.sub(r"//[^\n]*", " ", src)


def extract_functions(src):
    """yields (name, params_text, body_text) for function definitions"""
    for m in re.finditer(r"\b(\w+)\s*\(([^()]*)\)\s*\{", src):
        name = m.group(1)
        if name in ("if", "for", "while", "switch", "sizeof", "return"):
            continue
        i = m.end()
        depth = 1
        while i < len(src) and depth:
            if src[i] == "{":
                depth += 1
            elif src[i] == "}":
                depth -= 1
            i += 1
        yield name, m.group(2), src[m.end():i - 1]



def match_close(src, i, open_ch, close_ch):
    """src[i] is open_ch; returns index just after the matching close"""
    depth = 0
    while i < len(src):
        if src[i] == open_ch:
            depth += 1
        elif src[i] == close_ch:
            depth -= 1
            if depth == 0:
                return i + 1
        i += 1
    return len(src)


def split_args(s):
    out, depth, cur = [], 0, ""
    for ch in s:
        if ch in "([":
            depth += 1
        elif ch in ")]":
            depth -= 1
        if ch == "," and depth == 0:
            out.append(cur)
            cur = ""
        else:
            cur += ch
    out.append(cur)
    return out


def find_guard(body):
    """the outermost `if (cond) stmt` whose stmt calls a constructor init_*/new_*: returns (cond, fn, args)"""
    for m in re.finditer(r"\bif\s*\(", body):
        ce = match_close(body, m.end() - 1, "(", ")")
        cond = body[m.end():ce - 1]
        j = ce
        while j < len(body) and body[j].isspace():
            j += 1
        if j < len(body) and body[j] == "{":
            se = match_close(body, j, "{", "}")
        else:
            se = body.find(";", j) + 1
        stmt = body[j:se]
        c = re.search(r"\b((?:init|new)_\w+)\s*\(", stmt)
        if c:
            ae = match_close(stmt, c.end() - 1, "(", ")")
            return cond, c.group(1), stmt[c.end():ae - 1]
    return None


def gen_caches():
    rows = []
    for path in sorted(glob.glob(os.path.join(REPO, "spqlios", "*", "*.c"))):
        src = strip_c_comments(open(path).read())
        for name, params, body in extract_functions(src):
            if "static" not in body:
                continue
            statics = re.findall(r"\bstatic\s+(__thread\s+)?(?:const\s+)?(?:struct\s+)?[\w\s\*]+?\b(\w+)\s*(\[[^\]]*\])?\s*(?:=[^;]*)?;", body)
            muts = []
            for m in re.finditer(r"\bstatic\s+((?:__thread\s+)?)((?:const\s+)?)((?:struct\s+)?[\w]+[\w\s\*]*?)\b(\w+)\s*(\[[^\]]*\])?\s*(=[^;]*)?;", body):
                tls, const, _ty, var, arr, _init = m.groups()
                if const.strip():
                    continue  # read-only constant table
                muts.append((var, bool(tls.strip()), bool(arr)))
            if not muts:
                continue
            pnames = [re.sub(r".*?(\w+)\s*$", r"\1", p.strip()) for p in params.split(",") if p.strip()]
            slot = bool(re.search(r"\+\s*log2m\s*\(\s*m\s*\)", body))
            # the re-initialisation guard: the first `if (...)` whose body calls init_/new_
            guard_params, init_args, init_fn = [], [], None
            found = find_guard(body)
            if found:
                cond, init_fn, args = found
                for p in pnames:
                    if re.search(r"(?:!=|==)\s*%s\b|\b%s\s*(?:!=|==)" % (re.escape(p), re.escape(p)), cond):
                        guard_params.append(p)
                for a in split_args(args):
                    a = a.strip()
                    if a in pnames:
                        init_args.append(a)
            rows.append(dict(name=name, file=os.path.relpath(path, REPO), tls=all(t for _, t, _ in muts), slot=slot,
                             guard=guard_params, init=init_args, params=pnames, init_fn=init_fn or "", nstatic=len(muts)))
    rows.sort(key=lambda r: r["name"])
    out = ["/- GENERATED by tools/gen_facts.py (caches): structure of every function of /repo that keeps mutable",
           "   function-local static state, parsed from the C source. -/", "namespace Gen.Caches", "",
           "structure Row where", "  name : String", "  tls : Bool", "  slotByM : Bool", "  guard : List String",
           "  initArgs : List String", "  params : List String", "  initFn : String", "  deriving Repr, DecidableEq", "",
           "def rows : List Row := ["]
    out.append(",\n".join(
        f"  {{ name := {lean_str(r['name'])}, tls := {'true' if r['tls'] else 'false'}, slotByM := {'true' if r['slot'] else 'false'}, "
        f"guard := {lean_list(r['guard'], lean_str)}, initArgs := {lean_list(r['init'], lean_str)}, params := {lean_list(r['params'], lean_str)}, initFn := {lean_str(r['init_fn'])} }}"
        for r in rows))
    out += ["]", "", "end Gen.Caches", ""]
    write_if_changed(os.path.join(GEN, "Caches.lean"), "\n".join(out))
    return dict(ncaches=len(rows))


# ------------------------------------------------------------------------------------------------
def generate(mods, libdir):
    res = {}
    for m in mods:
        if m == "globals":
            res[m] = gen_globals(libdir)
        elif m == "caches":
            res[m] = gen_caches()
        elif m == "dispatch":
            try:
                import gen_dispatch
            except ImportError as e:
                raise RuntimeError(f"generator module for '{m}' cannot be imported: {e}")
            res[m] = gen_dispatch.generate(libdir)
        elif m == "tmpbytes":
            try:
                import gen_tmpbytes
            except ImportError as e:
                raise RuntimeError(f"generator module for '{m}' cannot be imported: {e}")
            res[m] = gen_tmpbytes.generate(libdir)
        elif m == "q120":
            try:
                import gen_q120
            except ImportError as e:
                raise RuntimeError(f"generator module for '{m}' cannot be imported: {e}")
            res[m] = gen_q120.generate(libdir)
        elif m == "q120ntt":
            try:
                import gen_q120ntt
            except ImportError as e:
                raise RuntimeError(f"generator module for '{m}' cannot be imported: {e}")
            res[m] = gen_q120ntt.generate(libdir)
        elif m == "csrc":
            # C source of the coefficient kernels -> CIR terms (Gen/CSrc.lean).  A function with a construct the
            # translator does not handle becomes a stub term (the theorems about it then fail) and is listed in
            # res["csrc"]["unsupported"]
            import c2lean
            res[m] = c2lean.generate()
    return res


if __name__ == "__main__":
    sys.path.insert(0, os.path.join(VERIF, "tools"))
    import build_repo
    out, ok, log = build_repo.build("plain")
    print(generate(sys.argv[1:] or ALL, out))
