#!/usr/bin/env python3
"""Regression over the kept seeded defects: re-applies every confirmed patch and re-runs the quick check(s) that reported it when it was
   evaluated; prints the ones that are no longer reported.  Usage: seed_regress.py [idprefix …]"""
import json, os, subprocess, sys, glob, time
VERIF = os.path.dirname(os.path.dirname(os.path.abspath(__file__)))
pref = sys.argv[1:]
lost, kept, skipped = [], 0, 0
t0 = time.time()
for mp in sorted(glob.glob(os.path.join(VERIF, "seeded", "*", "meta.json"))):
    sid = os.path.basename(os.path.dirname(mp))
    if pref and not any(sid.startswith(p) for p in pref):
        continue
    m = json.load(open(mp))
    if m.get("kind") == "harmless" or not m.get("confirmed"):
        continue
    det = [c for c, r in m.get("checks_run", {}).items() if r.get("detected")]
    if not det:
        skipped += 1
        continue
    # the first detecting check is enough (prefer the property the defect was seeded for)
    c = m.get("property") if m.get("property") in det else det[0]
    r = subprocess.run(["python3", os.path.join(VERIF, "tools", "seed_eval.py"), os.path.dirname(mp), sid, "--recheck", "--checks", c],
                       capture_output=True, text=True, cwd=VERIF)
    ok = f'"{c}": true' in r.stdout
    if ok:
        kept += 1
    else:
        lost.append((sid, c))
    print(f"{sid} {c} {'still reported' if ok else 'NO LONGER REPORTED'}  [{int(time.time()-t0)}s]", flush=True)
print(f"still reported: {kept}; no longer reported: {lost}; never reported (not counted): {skipped}")
