#!/usr/bin/env python3
"""writes tools/expected_theorems.json: the property theorems that each check must find among its obligations.
   Run after theorems were intentionally added or renamed; check.py reports a theorem of this list that has disappeared."""
import json, os, sys
sys.path.insert(0, os.path.dirname(os.path.abspath(__file__)))
import vlib, props
out = {}
for pid, P in props.PROPS.items():
    names = []
    for mm in [P["module"]] + list(P.get("extra_modules", [])):
        names += vlib.theorems_in(os.path.join(vlib.LEAN, mm.replace(".", "/") + ".lean"))
    out[pid] = sorted(names)
json.dump(out, open(os.path.join(vlib.VERIF, "tools", "expected_theorems.json"), "w"), indent=0, sort_keys=True)
print({k: len(v) for k, v in out.items()})
