#!/usr/bin/env python3
"""Evaluate a seeded defect produced by an independent agent:
     seed_eval.py <srcdir with patch.diff, demo.*, run_demo.sh, meta.json> <seed id> [--checks C08,C13]
  1. scratch worktree of /repo (outside /repo and /verif), cmake build: test-suite and the demonstration on the
     unmodified tree (demo must pass), then with the patch (tests must still pass, demo must fail);
  2. apply the patch to /repo, run the quick checks of the property (and any extra ones), record which raise a
     VIOLATION, and undo the patch straight afterwards;
  3. store everything under /verif/seeded/<id>/ (patch.diff, demonstration, meta.json with what was run).
"""
import json, os, shutil, subprocess, sys, time

VERIF = os.path.dirname(os.path.dirname(os.path.abspath(__file__)))
REPO = "/repo"
WT = "/tmp/seval/wt"


def sh(cmd, cwd=None, timeout=3600):
    r = subprocess.run(cmd, cwd=cwd, shell=isinstance(cmd, str), capture_output=True, text=True, timeout=timeout)
    return r.returncode, (r.stdout or "") + (r.stderr or "")


def ensure_wt():
    if not os.path.exists(WT):
        os.makedirs(os.path.dirname(WT), exist_ok=True)
        sh(["git", "-C", REPO, "worktree", "prune"])
        rc, out = sh(["git", "-C", REPO, "worktree", "add", "--detach", WT, "HEAD"])
        assert rc == 0, out
    else:
        sh(["git", "checkout", "--", "."], cwd=WT)
        head = subprocess.run(["git", "-C", REPO, "rev-parse", "HEAD"], capture_output=True, text=True).stdout.strip()
        sh(["git", "checkout", "--detach", head], cwd=WT)
    if not os.path.exists(os.path.join(WT, "_build", "build.ninja")):
        rc, out = sh("cmake -G Ninja -B _build -DCMAKE_BUILD_TYPE=RelWithDebInfo . > /dev/null", cwd=WT)
        assert rc == 0, out


def build_and_test():
    rc, out = sh("cmake --build _build 2>&1 | tail -5", cwd=WT)
    ok_build = "FAILED" not in out and "error" not in out.lower()
    rc, out2 = sh("./_build/test/spqlios-test --gtest_brief=1 2>&1 | tail -4", cwd=WT, timeout=1800)
    passed = "PASSED  ] 238 tests" in out2 and "FAILED" not in out2
    return ok_build, passed, out[-500:] + out2[-500:]


def run_demo(src):
    rc, out = sh(["bash", os.path.join(src, "run_demo.sh"), WT], cwd=src, timeout=1800)
    return rc, out[-1500:]


def main():
    src = os.path.abspath(sys.argv[1])
    sid = sys.argv[2]
    meta = json.load(open(os.path.join(src, "meta.json")))
    prop = meta.get("property")
    checks = [prop]
    if "--checks" in sys.argv:
        checks = sys.argv[sys.argv.index("--checks") + 1].split(",")
    rec = dict(meta)
    rec["evaluated_at"] = time.ctime()
    recheck = "--recheck" in sys.argv and meta.get("confirmed")
    if not recheck:
        confirm(src, rec)
    run_checks(src, sid, rec, checks)


def confirm(src, rec):
    ensure_wt()
    ok_b, ok_t, log = build_and_test()
    rc0, d0 = run_demo(src)
    rec["baseline"] = dict(builds=ok_b, tests_pass=ok_t, demo_rc=rc0, demo_tail=d0[-400:])
    rc, out = sh(["git", "apply", os.path.join(src, "patch.diff")], cwd=WT)
    rec["patch_applies"] = rc == 0
    if rc != 0:
        rec["apply_error"] = out[-500:]
    ok_b, ok_t, log = build_and_test()
    rc1, d1 = run_demo(src)
    rec["patched"] = dict(builds=ok_b, tests_pass=ok_t, demo_rc=rc1, demo_tail=d1[-600:])
    sh(["git", "checkout", "--", "."], cwd=WT)
    rec["confirmed"] = bool(rec["baseline"]["tests_pass"] and rc0 == 0 and rec["patched"]["tests_pass"] and rc1 != 0 and rec["patch_applies"])


def run_checks(src, sid, rec, checks):
    # run my checks against it
    results = dict(rec.get("checks_run", {}))
    st = subprocess.run(["git", "-C", REPO, "status", "--porcelain", "--untracked-files=no"], capture_output=True, text=True).stdout.strip()
    assert st == "", "/repo has local modifications: " + st
    rc, out = sh(["git", "-C", REPO, "apply", os.path.join(src, "patch.diff")])
    # evidence files are rewritten by every run: keep the ones of the clean tree
    evbak = "/tmp/seval/evidence.bak"
    shutil.rmtree(evbak, ignore_errors=True)
    shutil.copytree(os.path.join(VERIF, "evidence"), evbak)
    try:
        if rc == 0:
            for c in checks:
                t = time.time()
                rc2, out2 = sh(["python3", os.path.join(VERIF, "tools", "check.py"), c, "--tier", "quick"], cwd=VERIF, timeout=3600)
                lines = [l for l in out2.splitlines() if l.startswith("VIOLATION") or l.startswith("detail:") or l.startswith("KNOWN") or l.startswith(c + " ")]
                results[c] = dict(rc=rc2, detected=(rc2 == 1 and any(l.startswith("VIOLATION") for l in lines)), lines=[l[:400] for l in lines], wall_s=round(time.time() - t, 1))
    finally:
        sh(["git", "-C", REPO, "checkout", "--", "."])
        # the Gen files were regenerated from the patched tree: bring them back to the clean tree
        sh(["python3", os.path.join(VERIF, "tools", "gen_facts.py")], cwd=VERIF)
        for f in os.listdir(evbak):
            shutil.copy(os.path.join(evbak, f), os.path.join(VERIF, "evidence", f))
        shutil.rmtree(evbak, ignore_errors=True)
    rec["checks_run"] = results
    dst = os.path.join(VERIF, "seeded", sid)
    os.makedirs(dst, exist_ok=True)
    for f in os.listdir(src):
        if os.path.abspath(src) != os.path.abspath(dst) and os.path.isfile(os.path.join(src, f)) and os.path.getsize(os.path.join(src, f)) < 200000:
            shutil.copy(os.path.join(src, f), os.path.join(dst, f))
    json.dump(rec, open(os.path.join(dst, "meta.json"), "w"), indent=1)
    print(json.dumps(dict(id=sid, confirmed=rec["confirmed"], baseline=rec["baseline"]["demo_rc"], patched=rec["patched"]["demo_rc"],
                          tests=rec["patched"]["tests_pass"], detected={c: r["detected"] for c, r in results.items()}), indent=1))
    results = {c: r for c, r in results.items() if c in checks}
    for c, r in results.items():
        for l in r["lines"]:
            print("   ", c, l[:300])


if __name__ == "__main__":
    main()
