#!/usr/bin/env python3
"""Detection self-test of the source tie (property Src): mutate the C source of a translated kernel in a
scratch copy of spqlios/coeffs/coeffs_arithmetic.c, regenerate lean/Gen/CSrc.lean with tools/c2lean.py and
rebuild SpqProofs.Properties.Src.  Semantic mutations must break the build; harmless rewrites are reported.

usage: python3 tools/src_selftest.py            (uses $VERIF_REPO or /repo as the pristine source; never writes there)
The generated file lean/Gen/CSrc.lean is restored from the pristine source at the end.
"""
import os, shutil, subprocess, sys, tempfile, time

VERIF = os.path.dirname(os.path.dirname(os.path.abspath(__file__)))
REPO = os.environ.get("VERIF_REPO", "/repo")
SRC = "spqlios/coeffs/coeffs_arithmetic.c"

# (id, kind, description, function the edit is made in, old text, new text, occurrence index inside the function)
CASES = [
    ("M1", "semantic", "znx_add_i64_ref: loop bound `i < nn` -> `i <= nn`", "znx_add_i64_ref",
     "i < nn", "i <= nn", 0),
    ("M2", "semantic", "znx_rotate_i64: `nma = nn - a` -> `nn - a - 1` (first branch)", "znx_rotate_i64",
     "uint64_t nma = nn - a;", "uint64_t nma = nn - a - 1;", 0),
    ("M3", "semantic", "znx_rotate_i64: sign of the wrapped part `-in[j - nma]` -> `in[j - nma]`", "znx_rotate_i64",
     "res[j] = -in[j - nma];", "res[j] = in[j - nma];", 0),
    ("M4", "semantic", "znx_automorphism_i64: `(a + p) & _2mn` -> `(a - p) & _2mn`", "znx_automorphism_i64",
     "a = (a + p) & _2mn;", "a = (a - p) & _2mn;", 0),
    ("M5", "semantic", "znx_copy_i64_ref: `sizeof(int64_t)` -> `sizeof(int32_t)`", "znx_copy_i64_ref",
     "nn * sizeof(int64_t)", "nn * sizeof(int32_t)", 0),
    ("M6", "semantic", "rnx_mul_xp_minus_one: `in[j + a] - in[j]` -> `in[j + a] + in[j]`", "rnx_mul_xp_minus_one",
     "res[j] = in[j + a] - in[j];", "res[j] = in[j + a] + in[j];", 0),
    ("M7", "semantic", "znx_rotate_i64: mask `2 * nn - 1` -> `nn - 1`", "znx_rotate_i64",
     "(-p) & (2 * nn - 1)", "(-p) & (nn - 1)", 0),
    ("M8", "semantic", "znx_negate_i64_ref: start index 0 -> 1", "znx_negate_i64_ref",
     "uint64_t i = 0", "uint64_t i = 1", 0),
    ("M9", "semantic", "znx_rotate_inplace_i64: `(new_j < nn) ? tmp1 : -tmp1` -> `(new_j <= nn) ? ...`", "znx_rotate_inplace_i64",
     "(new_j < nn) ? tmp1 : -tmp1", "(new_j <= nn) ? tmp1 : -tmp1", 0),
    ("M10", "semantic", "get_base_k_carry: `(x - digit) >> base_k` -> `(x + digit) >> base_k` (inlined into znx_normalize)",
     "get_base_k_carry", "(x - digit) >> base_k", "(x + digit) >> base_k", 0),
    ("M11", "semantic", "znx_normalize: second branch stores `digit` instead of `y`", "znx_normalize",
     "int64_t y = get_base_k_digit(digit_plus_cin, base_k);\n\n        out[i] = y;\n      }", "int64_t y = get_base_k_digit(digit_plus_cin, base_k);\n\n        out[i] = digit;\n      }", 0),
    ("M12", "semantic", "rnx_mul_xp_minus_one_inplace: `++nb_modif` -> `nb_modif += 2`", "rnx_mul_xp_minus_one_inplace",
     "++nb_modif;", "nb_modif += 2;", 0),
    ("H1", "harmless", "znx_rotate_i64: rename locals `nma` -> `n_minus_a`, `j` -> `jj`", "znx_rotate_i64",
     None, None, 0),
    ("H2", "harmless", "znx_automorphism_i64: swap the independent statements `res[0] = in[0];` and `uint64_t a = 0;`",
     "znx_automorphism_i64", "  res[0] = in[0];\n  uint64_t a = 0;", "  uint64_t a = 0;\n  res[0] = in[0];", 0),
    ("H3", "harmless", "znx_add_i64_ref: `++i` -> `i++`", "znx_add_i64_ref", "++i", "i++", 0),
    ("H4", "harmless", "znx_automorphism_i64: swap the declarations of `a` and `_2mn` (renumbers the slots)",
     "znx_automorphism_i64", "  uint64_t a = 0;\n  uint64_t _2mn = 2 * nn - 1;", "  uint64_t _2mn = 2 * nn - 1;\n  uint64_t a = 0;", 0),
    ("H5", "harmless", "znx_sub_i64_ref: `i < nn` -> `nn > i`", "znx_sub_i64_ref", "i < nn", "nn > i", 0),
]


def fn_span(text, fn):
    i = text.index(" " + fn + "(")
    j = text.index("{", i)
    depth, k = 0, j
    while True:
        if text[k] == "{":
            depth += 1
        elif text[k] == "}":
            depth -= 1
            if depth == 0:
                return i, k + 1
        k += 1


def mutate(text, case):
    cid, _, _, fn, old, new, occ = case
    a, b = fn_span(text, fn)
    body = text[a:b]
    if cid == "H1":
        import re
        body2 = re.sub(r"\bnma\b", "n_minus_a", body)
        body2 = re.sub(r"\bj\b", "jj", body2)
    else:
        assert body.count(old) > occ, f"{cid}: pattern not found in {fn}"
        parts = body.split(old)
        body2 = old.join(parts[:occ + 1]) + new + old.join(parts[occ + 1:])
    assert body2 != body
    return text[:a] + body2 + text[b:]


def run(cmd, env=None, cwd=None, timeout=1800):
    r = subprocess.run(cmd, capture_output=True, text=True, env=env, cwd=cwd, timeout=timeout)
    return r.returncode, (r.stdout or "") + (r.stderr or "")


def main():
    pristine = open(os.path.join(REPO, SRC)).read()
    scratch = tempfile.mkdtemp(prefix="srcselftest_")
    # a minimal source tree for clang: the C file, its header and the headers it includes
    shutil.copytree(os.path.join(REPO, "spqlios"), os.path.join(scratch, "spqlios"))
    env = dict(os.environ, VERIF_REPO=scratch)
    results = []
    only = sys.argv[1:]
    try:
        for case in CASES:
            if only and case[0] not in only:
                continue
            open(os.path.join(scratch, SRC), "w").write(mutate(pristine, case))
            rc_g, out_g = run([sys.executable, os.path.join(VERIF, "tools", "c2lean.py")], env=env)
            t0 = time.time()
            if rc_g != 0:
                verdict, detail = "translator-rejects", out_g.strip().splitlines()[-1]
            else:
                rc_b, out_b = run(["lake", "build", "SpqProofs.Properties.Src"], cwd=os.path.join(VERIF, "lean"))
                errs = [l for l in out_b.splitlines() if l.startswith("error:")]
                verdict = "build-fails" if rc_b != 0 else "build-passes"
                detail = (errs[0][:220] if errs else "")
            results.append((case[0], case[1], case[2], verdict, detail, time.time() - t0))
            print(f"{case[0]} [{case[1]}] {case[2]}\n    -> {verdict}  {detail}", flush=True)
    finally:
        open(os.path.join(scratch, SRC), "w").write(pristine)
        run([sys.executable, os.path.join(VERIF, "tools", "c2lean.py")], env=env)
        rc, out = run(["lake", "build", "SpqProofs.Properties.Src"], cwd=os.path.join(VERIF, "lean"))
        print("restored pristine Gen/CSrc.lean; build of SpqProofs.Properties.Src:", "ok" if rc == 0 else "FAILS")
        shutil.rmtree(scratch, ignore_errors=True)
    bad = [r for r in results if r[1] == "semantic" and r[3] == "build-passes"]
    print(f"semantic mutations detected: {sum(1 for r in results if r[1] == 'semantic' and r[3] != 'build-passes')}"
          f"/{sum(1 for r in results if r[1] == 'semantic')};  harmless rewrites surviving: "
          f"{sum(1 for r in results if r[1] == 'harmless' and r[3] == 'build-passes')}/{sum(1 for r in results if r[1] == 'harmless')}")
    sys.exit(1 if bad else 0)


if __name__ == "__main__":
    main()
