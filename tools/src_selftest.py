#!/usr/bin/env python3
"""Detection self-test of the source tie (Properties/Src*.lean, extra modules of C05/C07/C08/C09): mutate the C
source of a translated function in a scratch copy of /repo/spqlios (coeffs_arithmetic.c, arithmetic/vec_znx.c,
coeffs_arithmetic_avx.c), regenerate lean/Gen/CSrc.lean with tools/c2lean.py and rebuild the property module
that states the theorem of the mutated function.  Semantic mutations must break the build (or make the translator
report the function as unsupported, which check.py turns into a generator error); harmless rewrites are reported.

usage: python3 tools/src_selftest.py            (uses $VERIF_REPO or /repo as the pristine source; never writes there)
The generated file lean/Gen/CSrc.lean is restored from the pristine source at the end.
"""
import os, shutil, subprocess, sys, tempfile, time

VERIF = os.path.dirname(os.path.dirname(os.path.abspath(__file__)))
REPO = os.environ.get("VERIF_REPO", "/repo")
SRC = "spqlios/coeffs/coeffs_arithmetic.c"
SRC_VEC = "spqlios/arithmetic/vec_znx.c"
SRC_AVX = "spqlios/coeffs/coeffs_arithmetic_avx.c"
SRC_VECAVX = "spqlios/arithmetic/vec_znx_avx.c"
SRC_Q120REF = "spqlios/q120/q120_arithmetic_ref.c"
SRC_Q120SIMPLE = "spqlios/q120/q120_arithmetic_simple.c"
SRC_DFT = "spqlios/arithmetic/vec_znx_dft.c"
SRC_SVP = "spqlios/arithmetic/scalar_vector_product.c"
SRC_SMALL = "spqlios/arithmetic/znx_small.c"
SRC_VMP = "spqlios/arithmetic/vector_matrix_product.c"
SRC_FFTVEC = "spqlios/reim/reim_fftvec_addmul_ref.c"
SRC_REIM4 = "spqlios/reim4/reim4_arithmetic_ref.c"
ALL_SRCS = [SRC, SRC_VEC, SRC_AVX, SRC_VECAVX, SRC_Q120REF, SRC_Q120SIMPLE, SRC_DFT, SRC_SVP, SRC_SMALL, SRC_VMP, SRC_FFTVEC, SRC_REIM4]
# static helpers inlined into translated q120 functions: helper -> (source, property module of a function using it)
Q120_HELPERS = {"accum_mul_q120_bc": "SpqProofs.Properties.SrcQ120", "accum_to_q120b": "SpqProofs.Properties.SrcQ120"}

# property module holding the theorems of a function
def module_of(fn):
    if fn.startswith("reim4_"):
        return "SpqProofs.Properties.SrcReim4"
    if fn.startswith("reim_fftvec_"):
        return "SpqProofs.Properties.SrcFftvec"
    if fn.startswith("fft64_vmp_"):
        return "SpqProofs.Properties.SrcModVmp"
    if fn.startswith("fft64_"):
        return "SpqProofs.Properties.SrcMod"
    if fn in Q120_HELPERS:
        return Q120_HELPERS[fn]
    if fn.startswith("q120x2_vec_"):
        return "SpqProofs.Properties.SrcQ120X2"
    if fn.startswith("q120"):
        return "SpqProofs.Properties.SrcQ120"
    if fn.startswith("vec_znx_") and fn.endswith("_avx"):
        return "SpqProofs.Properties.SrcVecAvx"
    if fn.startswith("vec_znx_normalize"):
        return "SpqProofs.Properties.SrcVecNorm"
    if fn.startswith("vec_znx_"):
        return "SpqProofs.Properties.SrcVec"
    if fn.endswith("_avx"):
        return "SpqProofs.Properties.SrcAvx"
    if "automorphism_inplace" in fn:
        return "SpqProofs.Properties.SrcAutIn"
    if "normalize" in fn or "base_k" in fn:
        return "SpqProofs.Properties.SrcNorm"
    if any(k in fn for k in ("rotate", "mul_xp", "automorphism")):
        return "SpqProofs.Properties.SrcRot"
    return "SpqProofs.Properties.SrcElem"

def src_of(fn):
    if fn.startswith("reim4_"):
        return SRC_REIM4
    if fn.startswith("reim_fftvec_"):
        return SRC_FFTVEC
    if fn.startswith("fft64_vmp_"):
        return SRC_VMP
    if fn.startswith("fft64_vec_znx_"):
        return SRC_DFT
    if fn.startswith("fft64_svp_"):
        return SRC_SVP
    if fn.startswith("fft64_znx_small"):
        return SRC_SMALL
    if fn.startswith("q120") or fn in Q120_HELPERS:
        return SRC_Q120SIMPLE if fn.endswith("_simple") else SRC_Q120REF
    if fn.startswith("vec_znx_"):
        return SRC_VECAVX if fn.endswith("_avx") else SRC_VEC
    return SRC_AVX if fn.endswith("_avx") else SRC

ALL_MODULES = ["SpqProofs.Properties.SrcElem", "SpqProofs.Properties.SrcRot", "SpqProofs.Properties.SrcNorm",
               "SpqProofs.Properties.SrcVec", "SpqProofs.Properties.SrcAutIn", "SpqProofs.Properties.SrcAvx",
               "SpqProofs.Properties.SrcVecAvx", "SpqProofs.Properties.SrcVecNorm",
               "SpqProofs.Properties.SrcQ120", "SpqProofs.Properties.SrcQ120X2",
               "SpqProofs.Properties.SrcMod", "SpqProofs.Properties.SrcModVmp", "SpqProofs.Properties.SrcFftvec", "SpqProofs.Properties.SrcReim4"]

# (id, kind, description, function the edit is made in, old text, new text, occurrence index inside the function)
CASES = [
    ("M1", "semantic", "znx_add_i64_ref: loop bound `i < nn` -> `i <= nn`", "znx_add_i64_ref",
     "i < nn", "i <= nn", 0),
    ("M2", "semantic", "znx_rotate_i64: `nma = nn - a` -> `nn - a - 1` (first branch)", "znx_rotate_i64",
     "uint64_t nma = nn - a;", "uint64_t nma = nn - a - 1;", 0),
    ("M3", "semantic", "znx_rotate_i64: sign of the wrapped part `-in[j - nma]` -> `in[j - nma]`", "znx_rotate_i64",
     "res[j] = -in[j - nma];", "res[j] = in[j - nma];", 0),
    ("M4", "semantic", "znx_automorphism_i64: `(a + p) & _2mn` -> `(a - p) & _2mn`", "znx_automorphism_i64",
     "a = (a + p) & _2mn;", "a = (a - p) & _2mn;", 0),
    ("M5", "semantic", "znx_copy_i64_ref: `sizeof(int64_t)` -> `sizeof(int32_t)`", "znx_copy_i64_ref",
     "nn * sizeof(int64_t)", "nn * sizeof(int32_t)", 0),
    ("M6", "semantic", "rnx_mul_xp_minus_one: `in[j + a] - in[j]` -> `in[j + a] + in[j]`", "rnx_mul_xp_minus_one",
     "res[j] = in[j + a] - in[j];", "res[j] = in[j + a] + in[j];", 0),
    ("M7", "semantic", "znx_rotate_i64: mask `2 * nn - 1` -> `nn - 1`", "znx_rotate_i64",
     "(-p) & (2 * nn - 1)", "(-p) & (nn - 1)", 0),
    ("M8", "semantic", "znx_negate_i64_ref: start index 0 -> 1", "znx_negate_i64_ref",
     "uint64_t i = 0", "uint64_t i = 1", 0),
    ("M9", "semantic", "znx_rotate_inplace_i64: `(new_j < nn) ? tmp1 : -tmp1` -> `(new_j <= nn) ? ...`", "znx_rotate_inplace_i64",
     "(new_j < nn) ? tmp1 : -tmp1", "(new_j <= nn) ? tmp1 : -tmp1", 0),
    ("M10", "semantic", "get_base_k_carry: `(x - digit) >> base_k` -> `(x + digit) >> base_k` (inlined into znx_normalize)",
     "get_base_k_carry", "(x - digit) >> base_k", "(x + digit) >> base_k", 0),
    ("M11", "semantic", "znx_normalize: second branch stores `digit` instead of `y`", "znx_normalize",
     "int64_t y = get_base_k_digit(digit_plus_cin, base_k);\n\n        out[i] = y;\n      }", "int64_t y = get_base_k_digit(digit_plus_cin, base_k);\n\n        out[i] = digit;\n      }", 0),
    ("M12", "semantic", "rnx_mul_xp_minus_one_inplace: `++nb_modif` -> `nb_modif += 2`", "rnx_mul_xp_minus_one_inplace",
     "++nb_modif;", "nb_modif += 2;", 0),
    ("M13", "semantic", "znx_automorphism_inplace_i64: `j_start = (5 * j_start) & mask` -> `(3 * j_start) & mask`",
     "znx_automorphism_inplace_i64", "5 * j_start", "3 * j_start", 0),
    ("W1", "semantic", "vec_znx_add_ref: second branch copies from `b` instead of `a` (`a + i * a_sl` -> `b + i * b_sl`)",
     "vec_znx_add_ref", "znx_copy_i64_ref(nn, res + i * res_sl, a + i * a_sl);", "znx_copy_i64_ref(nn, res + i * res_sl, b + i * b_sl);", 0),
    ("W2", "semantic", "vec_znx_rotate_ref: result limb pointer uses the source stride (`res + i * res_sl` -> `res + i * a_sl`)",
     "vec_znx_rotate_ref", "int64_t* res_ptr = res + i * res_sl;", "int64_t* res_ptr = res + i * a_sl;", 0),
    ("W3", "semantic", "vec_znx_negate_ref: zero-extension loop starts one limb late", "vec_znx_negate_ref",
     "uint64_t i = smin; i < res_size", "uint64_t i = smin + 1; i < res_size", 0),
    ("A1", "semantic", "znx_add_i64_avx: the 256-bit loop subtracts (`_mm256_add_epi64` -> `_mm256_sub_epi64`)",
     "znx_add_i64_avx", "_mm256_add_epi64(", "_mm256_sub_epi64(", 0),
    ("A2", "semantic", "znx_sub_i64_avx: `nn <= 2` -> `nn <= 4` (nn = 4 handled by one 128-bit store)",
     "znx_sub_i64_avx", "nn <= 2", "nn <= 4", 0),
    ("A3", "semantic", "znx_negate_i64_avx: 256-bit loop computes `1 - a` (`_mm256_set1_epi64x(0)` -> `(1)`)",
     "znx_negate_i64_avx", "_mm256_set1_epi64x(0)", "_mm256_set1_epi64x(1)", 0),
    ("A4", "semantic", "znx_negate_i64_avx: `++aa` dropped from the loop (source pointer never advances)",
     "znx_negate_i64_avx", "      ++rr;\n      ++aa;", "      ++rr;", 0),
    ("W4", "semantic", "vec_znx_sub_avx: the tail `res = -b` copies instead (`znx_negate_i64_avx` -> `znx_copy_i64_avx`)",
     "vec_znx_sub_avx", "znx_negate_i64_avx(nn, res + i * res_sl, b + i * b_sl);", "znx_copy_i64_avx(nn, res + i * res_sl, b + i * b_sl);", 0),
    ("W5", "semantic", "vec_znx_add_avx: first loop bound `i < sum_idx` -> `i < copy_idx`", "vec_znx_add_avx",
     "i < sum_idx", "i < copy_idx", 0),
    ("W6", "semantic", "vec_znx_normalize_base2k_ref: normalising loop stops one limb early (`i >= 1` -> `i >= 2`)",
     "vec_znx_normalize_base2k_ref", "for (; i >= 1; --i)", "for (; i >= 2; --i)", 0),
    ("W7", "semantic", "vec_znx_normalize_base2k_ref: the carry-only pass forgets `cin = cout;`",
     "vec_znx_normalize_base2k_ref", "znx_normalize(nn, log2_base2k, 0x0, cout, a + i * a_sl, cin);\n    cin = cout;", "znx_normalize(nn, log2_base2k, 0x0, cout, a + i * a_sl, cin);", 0),
    ("W8", "semantic", "vec_znx_normalize_base2k_tmp_bytes_ref: `sizeof(int64_t)` -> `sizeof(int32_t)`",
     "vec_znx_normalize_base2k_tmp_bytes_ref", "sizeof(int64_t)", "sizeof(int32_t)", 0),
    ("Q1", "semantic", "q120_vec_mat1col_product_baa_ref: `acc2[j] += t >> H` -> `t >> (H + 1)`",
     "q120_vec_mat1col_product_baa_ref", "acc2[j] += t >> H;", "acc2[j] += t >> (H + 1);", 0),
    ("Q2", "semantic", "q120_vec_mat1col_product_baa_ref: recombination uses `h_pow_red[0]` for every prime",
     "q120_vec_mat1col_product_baa_ref", "precomp->h_pow_red[j];", "precomp->h_pow_red[0];", 0),
    ("Q3", "semantic", "accum_mul_q120_bc (inlined): `y_hi = y_layc[2 * i + 1]` -> `y_layc[2 * i]`",
     "accum_mul_q120_bc", "uint64_t y_hi = y_layc[2 * i + 1];", "uint64_t y_hi = y_layc[2 * i];", 0),
    ("Q4", "semantic", "accum_to_q120b (inlined): `s2h_pow_red[k]` and `s2l_pow_red[k]` swapped in the first product",
     "accum_to_q120b", "t += s2l * precomp->s2l_pow_red[k];", "t += s2l * precomp->s2h_pow_red[k];", 0),
    ("Q5", "semantic", "q120x2_vec_mat2cols_product_bbc_ref: third accumulator reads column `y_ptr[i][3]` instead of `[2]`",
     "q120x2_vec_mat2cols_product_bbc_ref", "accum_mul_q120_bc(s[2], x_ptr[i][0], y_ptr[i][2]);",
     "accum_mul_q120_bc(s[2], x_ptr[i][0], y_ptr[i][3]);", 0),
    ("Q6", "semantic", "q120x2b_save_1blk_to_q120b_ref: `out[8 * blk + i]` -> `out[4 * blk + i]`",
     "q120x2b_save_1blk_to_q120b_ref", "out[8 * blk + i] = in[i];", "out[4 * blk + i] = in[i];", 0),
    ("Q7", "semantic", "q120x2_extract_1blk_from_contiguous_q120b_ref: row stride `in += 4 * nn` -> `in += 8 * nn`",
     "q120x2_extract_1blk_from_contiguous_q120b_ref", "in += 4 * nn;", "in += 8 * nn;", 0),
    ("Q8", "semantic", "q120_add_ccc_simple: word 5 reduced modulo Q4 instead of Q3",
     "q120_add_ccc_simple", "(uint64_t)y_u32[i + 5]) % Q3);", "(uint64_t)y_u32[i + 5]) % Q4);", 0),
    ("Q9", "semantic", "q120_c_from_b_simple: `<< 32` -> `<< 31` in the second word of prime 2",
     "q120_c_from_b_simple", "((uint64_t)res_u32[j + 2] << 32) % Q2;", "((uint64_t)res_u32[j + 2] << 31) % Q2;", 0),
    ("Q10", "semantic", "q120_b_from_znx64_simple: `OQ[2]` -> `OQ[3]` in lane 2",
     "q120_b_from_znx64_simple", "res_u64[i + 2] = xj_lo + (xj_hi ? OQ[2] : 0);", "res_u64[i + 2] = xj_lo + (xj_hi ? OQ[3] : 0);", 0),
    ("Q11", "semantic", "q120_add_bbb_simple: `<< 33` -> `<< 34` for y in lane 1 (the sum may wrap)",
     "q120_add_bbb_simple", "y_u64[i + 1] % ((uint64_t)Q2 << 33);", "y_u64[i + 1] % ((uint64_t)Q2 << 34);", 0),
    ("Q12", "semantic", "q120_vec_mat1col_product_bbb_ref: loop bound `4 * ell` -> `4 * ell + 4` (reads one element too many)",
     "q120_vec_mat1col_product_bbb_ref", "i < 4 * ell;", "i < 4 * ell + 4;", 0),
    ("D1", "semantic", "fft64_vec_znx_dft: source limb `a + i * a_sl` -> `a + i * nn` (ignores the stride)",
     "fft64_vec_znx_dft", "a + i * a_sl", "a + i * nn", 0),
    ("D2", "semantic", "fft64_vec_znx_idft: the copy is done when `res == a_dft` instead of `!=`",
     "fft64_vec_znx_idft", "if ((double*)res != (double*)a_dft)", "if ((double*)res == (double*)a_dft)", 0),
    ("D3", "semantic", "fft64_vec_znx_idft_tmp_a: the zero extension clears `res_size * nn` cells instead of `(res_size - smin) * nn`",
     "fft64_vec_znx_idft_tmp_a", "memset(tres + smin * nn, 0, (res_size - smin) * nn * sizeof(double));",
     "memset(tres + smin * nn, 0, res_size * nn * sizeof(double));", 0),
    ("D4", "semantic", "fft64_svp_apply_dft_ref: `reim_fftvec_mul(.., res_ptr, res_ptr, dppol)` -> `(.., res_ptr, dppol, dppol)`",
     "fft64_svp_apply_dft_ref", "res_ptr, res_ptr, dppol);", "res_ptr, dppol, dppol);", 0),
    ("D5", "semantic", "fft64_znx_small_single_product: `fftb = tmp + nn` -> `tmp + 2 * nn`",
     "fft64_znx_small_single_product", "((double*)tmp) + nn;", "((double*)tmp) + 2 * nn;", 0),
    ("D6", "semantic", "fft64_svp_prepare_ref: `reim_fft` is given the inverse tables `p_ifft` (a C compiler only warns)",
     "fft64_svp_prepare_ref", "reim_fft(module->mod.fft64.p_fft, (double*)ppol);",
     "reim_fft(module->mod.fft64.p_ifft, (double*)ppol);", 0),
    ("V1", "semantic", "fft64_vmp_prepare_contiguous_ref: column-pair stride `(2 * nrows)` -> `nrows`",
     "fft64_vmp_prepare_contiguous_ref", "(col_i / 2) * (2 * nrows) * 8", "(col_i / 2) * nrows * 8", 0),
    ("V2", "semantic", "fft64_vmp_prepare_contiguous_ref: block loop `blk_i < m / 4` -> `blk_i <= m / 4`",
     "fft64_vmp_prepare_contiguous_ref", "blk_i < m / 4", "blk_i <= m / 4", 0),
    ("V3", "semantic", "fft64_vmp_apply_dft_to_dft_ref: second save of a pair reads `mat2cols_output` instead of `+ 8`",
     "fft64_vmp_apply_dft_to_dft_ref", "vec_output + (col_i + 1) * nn, mat2cols_output + 8);",
     "vec_output + (col_i + 1) * nn, mat2cols_output);", 0),
    ("V4", "semantic", "fft64_vmp_apply_dft_to_dft_ref: lone last column test `ncols == col_max` -> `!=`",
     "fft64_vmp_apply_dft_to_dft_ref", "if (ncols == col_max)", "if (ncols != col_max)", 0),
    ("V5", "semantic", "fft64_vmp_apply_dft_to_dft_ref (nn < 8): accumulation starts at row 0 instead of row 1",
     "fft64_vmp_apply_dft_to_dft_ref", "for (uint64_t row_i = 1; row_i < row_max; row_i++)",
     "for (uint64_t row_i = 0; row_i < row_max; row_i++)", 0),
    ("V6", "semantic", "fft64_vmp_apply_dft_ref: scratch of the inner call starts `rows` cells (not `rows * nn`) into tmp_space",
     "fft64_vmp_apply_dft_ref", "(uint8_t*)tmp_space + rows * nn * sizeof(double);",
     "(uint8_t*)tmp_space + rows * sizeof(double);", 0),
    ("F1", "semantic", "reim_fftvec_mul_ref: real part `-` -> `+`", "reim_fftvec_mul_ref",
     "a[i] * b[i] - a[i + m] * b[i + m]", "a[i] * b[i] + a[i + m] * b[i + m]", 0),
    ("F2", "semantic", "reim_fftvec_addmul_ref: `r[i + m] += im` -> `r[i + m] = im`", "reim_fftvec_addmul_ref",
     "r[i + m] += im;", "r[i + m] = im;", 0),
    ("F3", "semantic", "reim_fftvec_mul_ref: store of the real part moved before the imaginary part is computed (wrong for r == a / r == b)",
     "reim_fftvec_mul_ref", "    double im = a[i] * b[i + m] + a[i + m] * b[i];\n    r[i] = re;",
     "    r[i] = re;\n    double im = a[i] * b[i + m] + a[i + m] * b[i];", 0),
    ("F4", "semantic", "reim_fftvec_addmul_ref: loop bound `i < m` -> `i + 1 < m`", "reim_fftvec_addmul_ref",
     "i < m", "i + 1 < m", 0),
    ("R1", "semantic", "reim4_extract_1blk_from_reim_ref: imaginary half `src_ptr += m` -> `src_ptr += m + 1`", "reim4_extract_1blk_from_reim_ref",
     "src_ptr += m;", "src_ptr += m + 1;", 0),
    ("H12", "harmless", "reim_fftvec_mul_ref: `++i` -> `i++`", "reim_fftvec_mul_ref", "++i", "i++", 0),
    ("H11", "harmless", "fft64_vec_znx_dft: `i++` -> `++i`", "fft64_vec_znx_dft", "i++", "++i", 0),
    ("H10", "harmless", "q120_add_bbb_simple: `i += 4` -> `i = i + 4`", "q120_add_bbb_simple", "i += 4", "i = i + 4", 0),
    ("H1", "harmless", "znx_rotate_i64: rename locals `nma` -> `n_minus_a`, `j` -> `jj`", "znx_rotate_i64",
     None, None, 0),
    ("H2", "harmless", "znx_automorphism_i64: swap the independent statements `res[0] = in[0];` and `uint64_t a = 0;`",
     "znx_automorphism_i64", "  res[0] = in[0];\n  uint64_t a = 0;", "  uint64_t a = 0;\n  res[0] = in[0];", 0),
    ("H3", "harmless", "znx_add_i64_ref: `++i` -> `i++`", "znx_add_i64_ref", "++i", "i++", 0),
    ("H4", "harmless", "znx_automorphism_i64: swap the declarations of `a` and `_2mn` (renumbers the slots)",
     "znx_automorphism_i64", "  uint64_t a = 0;\n  uint64_t _2mn = 2 * nn - 1;", "  uint64_t _2mn = 2 * nn - 1;\n  uint64_t a = 0;", 0),
    ("H5", "harmless", "znx_sub_i64_ref: `i < nn` -> `nn > i`", "znx_sub_i64_ref", "i < nn", "nn > i", 0),
    ("H6", "harmless", "znx_add_i64_avx: swap the independent `++aa;` and `++bb;`", "znx_add_i64_avx",
     "      ++aa;\n      ++bb;", "      ++bb;\n      ++aa;", 0),
    ("H8", "harmless", "vec_znx_negate_avx: `++i` -> `i++` in the first loop", "vec_znx_negate_avx", "++i", "i++", 0),
    ("H9", "harmless", "vec_znx_normalize_base2k_ref: zero-extension loop `++i` -> `i++`", "vec_znx_normalize_base2k_ref",
     "++i", "i++", 0),
    ("H7", "harmless", "vec_znx_copy_ref: `++i` -> `i++` in the first loop", "vec_znx_copy_ref", "++i", "i++", 0),
]


# translator probes: synthetic functions appended to a source file; the translator must REJECT them (constructs the IR
# would mistranslate).  (id, description, source file, function name, C text, expected fragment of the message)
PROBES = [
    ("P1", "double used as a truth value", SRC, "probe_bool_f64",
     "void probe_bool_f64(uint64_t nn, double* res, const double* a) {\n  for (uint64_t i = 0; i < nn; ++i) {\n    if (a[i]) res[i] = a[i];\n  }\n}\n",
     "truth value"),
    ("P2", "pointer cast that changes the element type (double* -> int64_t*)", SRC, "probe_ptr_cast",
     "void probe_ptr_cast(uint64_t nn, int64_t* res, const double* a) {\n  memcpy(res, (const int64_t*)a, nn * sizeof(int64_t));\n}\n",
     "changes the element type"),
    ("P3", "a*b + c on doubles in a file compiled with -mfma", SRC_AVX, "probe_fma",
     "void probe_fma(uint64_t nn, double* res, const double* a, const double* b) {\n  for (uint64_t i = 0; i < nn; ++i) {\n    res[i] = a[i] * b[i] + res[i];\n  }\n}\n",
     "fused"),
]


def fn_span(text, fn):
    i = text.index(" " + fn + "(")
    j = text.index("{", i)
    depth, k = 0, j
    while True:
        if text[k] == "{":
            depth += 1
        elif text[k] == "}":
            depth -= 1
            if depth == 0:
                return i, k + 1
        k += 1


def mutate(text, case):
    cid, _, _, fn, old, new, occ = case
    a, b = fn_span(text, fn)
    body = text[a:b]
    if cid == "H1":
        import re
        body2 = re.sub(r"\bnma\b", "n_minus_a", body)
        body2 = re.sub(r"\bj\b", "jj", body2)
    else:
        assert body.count(old) > occ, f"{cid}: pattern not found in {fn}"
        parts = body.split(old)
        body2 = old.join(parts[:occ + 1]) + new + old.join(parts[occ + 1:])
    assert body2 != body
    return text[:a] + body2 + text[b:]


def run(cmd, env=None, cwd=None, timeout=1800):
    r = subprocess.run(cmd, capture_output=True, text=True, env=env, cwd=cwd, timeout=timeout)
    return r.returncode, (r.stdout or "") + (r.stderr or "")


def main():
    pristine = {f: open(os.path.join(REPO, f)).read() for f in ALL_SRCS}
    scratch = tempfile.mkdtemp(prefix="srcselftest_")
    # a minimal source tree for clang: the C files, their headers and the headers they include
    shutil.copytree(os.path.join(REPO, "spqlios"), os.path.join(scratch, "spqlios"))
    env = dict(os.environ, VERIF_REPO=scratch)
    results = []
    only = sys.argv[1:]
    try:
        for case in CASES:
            if only and case[0] not in only:
                continue
            fn = case[3]
            src, mod = src_of(fn), module_of(fn)
            for f in ALL_SRCS:
                open(os.path.join(scratch, f), "w").write(pristine[f])
            open(os.path.join(scratch, src), "w").write(mutate(pristine[src], case))
            rc_g, out_g = run([sys.executable, os.path.join(VERIF, "tools", "c2lean.py")], env=env)
            t0 = time.time()
            if rc_g != 0:
                verdict, detail = "translator-rejects", out_g.strip().splitlines()[-1]
            elif "'unsupported': {}" not in out_g:
                # per-function stub (body .skip): check.py reports a generator error for the properties using csrc
                verdict, detail = "translator-rejects", out_g.strip().splitlines()[-1][:220]
            else:
                rc_b, out_b = run(["lake", "build", mod], cwd=os.path.join(VERIF, "lean"))
                errs = [l for l in out_b.splitlines() if l.startswith("error:")]
                verdict = "build-fails" if rc_b != 0 else "build-passes"
                detail = (errs[0][:220] if errs else "")
            results.append((case[0], case[1], case[2], verdict, detail, time.time() - t0))
            print(f"{case[0]} [{case[1]}] {case[2]}\n    -> {verdict} ({mod.split('.')[-1]}, {time.time() - t0:.0f}s)  {detail}", flush=True)
        # translator probes
        probe_bad = []
        for pid, desc, src, fname, ctext, frag in PROBES:
            if only and pid not in only:
                continue
            for f in ALL_SRCS:
                open(os.path.join(scratch, f), "w").write(pristine[f])
            open(os.path.join(scratch, src), "a").write("\n" + ctext)
            rc_g, out_g = run([sys.executable, os.path.join(VERIF, "tools", "c2lean.py"), fname], env=env)
            rejected = (rc_g != 0 or fname + "'" in out_g and "'unsupported': {}" not in out_g) and frag in out_g
            print(f"{pid} [probe] {desc}\n    -> {'rejected' if rejected else 'ACCEPTED'}  {out_g.strip().splitlines()[-1][:200]}", flush=True)
            if not rejected:
                probe_bad.append(pid)
        results.append(("probes", "probe", "", "ok" if not probe_bad else "build-passes", ",".join(probe_bad), 0))
    finally:
        for f in ALL_SRCS:
            open(os.path.join(scratch, f), "w").write(pristine[f])
        run([sys.executable, os.path.join(VERIF, "tools", "c2lean.py")], env=env)
        rc, out = run(["lake", "build"] + ALL_MODULES, cwd=os.path.join(VERIF, "lean"))
        print("restored pristine Gen/CSrc.lean; build of the Src* property modules:", "ok" if rc == 0 else "FAILS")
        shutil.rmtree(scratch, ignore_errors=True)
    bad = [r for r in results if r[1] in ("semantic", "probe") and r[3] == "build-passes"]
    print(f"semantic mutations detected: {sum(1 for r in results if r[1] == 'semantic' and r[3] != 'build-passes')}"
          f"/{sum(1 for r in results if r[1] == 'semantic')};  harmless rewrites surviving: "
          f"{sum(1 for r in results if r[1] == 'harmless' and r[3] == 'build-passes')}/{sum(1 for r in results if r[1] == 'harmless')}")
    sys.exit(1 if bad else 0)


if __name__ == "__main__":
    main()
