#!/usr/bin/env python3
"""Generates the Lean proofs of the two q120x2 b*c kernels (G accumulation groups) from the proof pattern of
q120_vec_mat1col_product_bbc_ref.  usage: gen_x2.py {1|2} > file.lean"""
import sys

W = "18446744073709551616"


def gen(cols):
    G = 2 if cols == 1 else 4
    fn = "q120x2_vec_mat1col_product_bbc_ref" if cols == 1 else "q120x2_vec_mat2cols_product_bbc_ref"
    model = "x2Col1Ref" if cols == 1 else "x2Col2Ref"
    terms = "x2Col1Terms" if cols == 1 else "x2Col2Terms"
    yrow = 8 if cols == 1 else 16          # cells per row of y
    NS = 16 * G
    xs, ys, rs = 1 + NS, 3 + NS, 5 + NS
    isl = 7 + NS
    tb = [isl + 1 + 8 * g for g in range(G)]
    fb = [isl + 1 + 8 * G + 6 * g for g in range(G)]
    xb = [g % 2 for g in range(G)]         # block of x used by group g
    L = []
    A = L.append

    def xi(g, j):      # cell of x read by group g, lane j (j: string or int)
        c = 4 * xb[g]
        return f"8 * n + {j}" if c == 0 else f"8 * n + {c} + {j}"

    def yi(g, j):
        c = 4 * g
        return f"{yrow} * n + {j}" if c == 0 else f"{yrow} * n + {c} + {j}"

    def xim(g, j):     # same with n - 1
        return xi(g, j).replace("* n", "* (n - 1)")

    def yim(g, j):
        return yi(g, j).replace("* n", "* (n - 1)")
    if G == 4:
        A("set_option maxHeartbeats 2000000 in   -- one declaration for the whole kernel: 4 inlined accumulation loops + 4 recombinations")
    A("set_option linter.unusedSimpArgs false in")
    A(f"theorem src_{fn}_eq_model (P : BbcPrecomp) (hh : P.h < 64)")
    A("    (ell : Nat) (hell : ell < 576460752303423488) (mem : Mem) (pc r x y : Nat) (X Y : Array Nat)")
    A("    (hpc : buf mem pc = natBuf (bbcCells P)) (hrp : r ≠ pc)")
    A(f"    (hr : (buf mem r).size = {4 * G}) (hx : buf mem x = natBuf X) (hX : X.size = 8 * ell)")
    A("    (hXb : ∀ i, X.getD i 0 < 18446744073709551616)")
    A(f"    (hy : buf mem y = natBuf Y) (hY : Y.size = {yrow} * ell) (hYb : ∀ i, Y.getD i 0 < 18446744073709551616) :")
    A("    ∀ fuel, ell + 4 ≤ fuel →")
    A(f"      run fuel Gen.CSrc.{fn} [(ell : Int)]")
    A("          [some (pc, 0), some (r, 0), some (x, 0), some (y, 0)] mem")
    A(f"        = .ok (mem.setIfInBounds r (natBuf ({model} P ell X Y))) := by")
    A("  intro fuel hf")
    A(f"  let F : Nat → Nat → Nat × Nat := fun n r => ({terms} n X Y r).foldl bbcRefStep (0, 0)")
    for g in range(G):
        for j in range(4):
            r = 4 * g + j
            A(f"  have F_succ{r} : ∀ n, F (n + 1) {r} = bbcRefStep (F n {r}) (X.getD ({xi(g, j)}) 0, "
              f"Y.getD ({yi(g, j)}) 0) := by")
            A(f"    intro n")
            A(f"    simp only [F, {terms}, laneTerms_succ, List.foldl_append, List.foldl_cons, List.foldl_nil]")
            A(f"    first | done | rfl")
    A(f"  cir_enter Gen.CSrc.{fn}")
    A("  have pp0 : ∀ env v, ptrAt [some (pc, 0), some (r, 0), some (x, 0), some (y, 0)] env (.param 0) ((v : Nat) : Int)")
    A("      = .ok (some (pc, 0 + v)) := fun env v => ptrAt_param _ env 0 pc 0 v rfl")
    A("  have pp0z : ∀ env, ptrAt [some (pc, 0), some (r, 0), some (x, 0), some (y, 0)] env (.param 0) 0 = .ok (some (pc, 0)) :=")
    A("    fun env => ptrAt_param_zero _ env 0 pc 0 rfl")
    for i, nm in ((1, "r"), (2, "x"), (3, "y")):
        A(f"  have pp{i} : ∀ env, ptrAt [some (pc, 0), some (r, 0), some (x, 0), some (y, 0)] env (.param {i}) 0 = .ok (some ({nm}, 0)) :=")
        A(f"    fun env => ptrAt_param_zero _ env {i} {nm} 0 rfl")
    A("  have hsh : (0 : Int) ≤ (P.h : Int) ∧ (P.h : Int) < 64 := by omega")
    A(f"  have e0 : (0 : Int) % {W} = 0 := by decide")
    A(f"  have e1 : (1 : Int) % {W} = 1 := by decide")
    A(f"  have e2 : (2 : Int) % {W} = 2 := by decide")
    A("  repeat (first | cirq_simp | simp only [pp1, pp2, pp3, encPtr_some, e0])")
    A("  let zt : List Int := [0, 0, 0, 0, 0, 0, 0, 0]")
    A("  let zf : List Int := [0, 0, 0, 0, 0, 0]")
    # environment builder
    srow = []
    for g in range(G):
        for k in range(4):
            srow += [f"(((s {4 * g + k}).1 : Nat) : Int)", f"(((s {4 * g + k}).2 : Nat) : Int)"]
        srow += ["0"] * 8
    Ts = " ".join(f"T{g}" for g in range(G))
    Fs = " ".join(f"U{g}" for g in range(G))
    A(f"  let envOf : (Nat → Nat × Nat) → Int → {'List Int → ' * (2 * G)}List Int := fun s i {Ts} {Fs} =>")
    A("    [(ell : Int), " + ", ".join(srow) + ",")
    A("      (x : Int), ((0 : Nat) : Int), (y : Int), ((0 : Nat) : Int), (r : Int), ((0 : Nat) : Int), i] ++ "
      + " ++ ".join(f"T{g}" for g in range(G)) + " ++ " + " ++ ".join(f"U{g}" for g in range(G)))
    for g in range(G):
        A(f"  let told{g} : Nat → List Int := fun n => if n = 0 then zt else")
        A(f"    ((4 : Nat) : Int) :: bbcTemps (X.getD ({xim(g, 3)}) 0) (Y.getD ({yim(g, 3)}) 0)")
        A(f"  let tnew{g} : Nat → List Int := fun n =>")
        A(f"    ((4 : Nat) : Int) :: bbcTemps (X.getD ({xi(g, 3)}) 0) (Y.getD ({yi(g, 3)}) 0)")
    zfs = " ".join(["zf"] * G)
    A(f"  let So : Nat → State := fun n => ⟨envOf (F n) (n : Int) " + " ".join(f"(told{g} n)" for g in range(G))
      + f" {zfs}, mem⟩")
    A("  rw [exec_for_range _ _ _ _ _ _ So 0 ell 4 (Nat.zero_le _) ?hi0 ?hc ?hs ?hx fuel (by omega)]")
    A("  case hi0 => intro f; rfl")
    A("  case hc =>")
    A("    intro n _ hn")
    A("    simp only [So, envOf, List.cons_append]")
    A("    cir_simp")
    A("    exact ok_decide_true (by omega)")
    A("  case hx =>")
    A("    simp only [So, envOf, List.cons_append]")
    A("    cir_simp")
    A("    exact ok_decide_false (by omega)")
    A("  case hs =>")
    A("    intro n _ hn f hf4")
    for g in range(G):
        os_ = " ".join(f"o{g}{i}" for i in range(8))
        A(f"    obtain ⟨{', '.join(f'o{g}{i}' for i in range(8))}, hto{g}⟩ : ∃ {os_} : Int, told{g} n = [{', '.join(f'o{g}{i}' for i in range(8))}] := by")
        A(f"      simp only [told{g}, zt]")
        A("      split")
        A("      · exact ⟨_, _, _, _, _, _, _, _, rfl⟩")
        A("      · exact ⟨_, _, _, _, _, _, _, _, rfl⟩")
    A("    simp only [exec_seq]")
    # group loops
    for g in range(G):
        prevT = " ".join(f"(tnew{q} n)" for q in range(g))
        nextT = " ".join(f"(told{q} n)" for q in range(g + 1, G))
        A(f"    -- group {g}: s[{g}] += x[i][{xb[g]}] * y[i][{g}]")
        A(f"    let tj{g} : Nat → List Int := fun j => (j : Int) :: (if j = 0 then (told{g} n).tail else")
        A(f"      bbcTemps (X.getD ({xi(g, '(j - 1)')}) 0) (Y.getD ({yi(g, '(j - 1)')}) 0))")
        A(f"    let Si{g} : Nat → State := fun j =>")
        A(f"      ⟨envOf (fun q => if q < {4 * g} + j then F (n + 1) q else F n q) (n : Int) {prevT} (tj{g} j) {nextT} {zfs}, mem⟩")
        A(f"    rw [exec_for_range _ _ _ _ _ _ Si{g} 0 4 0 (Nat.zero_le _) ?hi0 ?hc ?hs ?hx f (by omega)]")
        A("    case hi0 =>")
        A("      intro f")
        prev = "So" if g == 0 else f"Si{g - 1}"
        A(f"      simp only [{prev}, Si{g}, envOf, tj{g}, " + ", ".join(f"hto{q}" for q in range(G))
          + ", List.cons_append, List.nil_append, zf"
          + (f", tj{g - 1}" if g > 0 else "") + "".join(f", tnew{q}" for q in range(G)) + ", bbcTemps]")
        A("      cir_simp")
        A("      simp (config := { decide := true }) only [Nat.not_lt_zero, if_false, if_true, Nat.add_zero, List.tail_cons,"
          " Nat.reduceAdd, Nat.reduceSub, Nat.reduceLT, e0]")
        A("      first | done | rfl")
        A("    case hc =>")
        A("      intro j _ hj")
        A(f"      simp only [Si{g}, envOf, tj{g}, List.cons_append, List.nil_append" + "".join(f", tnew{q}, hto{q}" for q in range(G)) + ", bbcTemps]")
        A("      cir_simp")
        A("      exact ok_decide_true (by omega)")
        A("    case hx =>")
        A(f"      simp only [Si{g}, envOf, tj{g}, List.cons_append, List.nil_append" + "".join(f", tnew{q}, hto{q}" for q in range(G)) + ", bbcTemps]")
        A("      cir_simp")
        A("      exact ok_decide_false (by decide)")
        A("    case hs =>")
        A("      intro j _ hj f _")
        A("      have hjj : j = 0 ∨ j = 1 ∨ j = 2 ∨ j = 3 := by omega")
        xo, yo = 8 * xb[g], 8 * g           # u32 offsets of the block inside the row
        xbase = f"(n : Int) * 16 % {W}" if xo == 0 else f"((n : Int) * 16 % {W} + {xo}) % {W}"
        ybase = f"(n : Int) * {2 * yrow} % {W}" if yo == 0 else f"((n : Int) * {2 * yrow} % {W} + {yo}) % {W}"
        A(f"      have hxlo : ({xbase} + 2 * (j : Int) % {W}) % {W}")
        A(f"          = ((2 * ({xi(g, 'j')}) : Nat) : Int) := by omega")
        A(f"      have hxhi : ({xbase} + (2 * (j : Int) % {W} + 1) % {W}) % {W}")
        A(f"          = ((2 * ({xi(g, 'j')}) + 1 : Nat) : Int) := by omega")
        A(f"      have hylo : ({ybase} + 2 * (j : Int) % {W}) % {W}")
        A(f"          = ((2 * ({yi(g, 'j')}) : Nat) : Int) := by omega")
        A(f"      have hyhi : ({ybase} + (2 * (j : Int) % {W} + 1) % {W}) % {W}")
        A(f"          = ((2 * ({yi(g, 'j')}) + 1 : Nat) : Int) := by omega")
        if g == 0:
            A(f"      have hto_lo : (2 * (j : Int) % {W}).toNat = 2 * j := by omega")
            A(f"      have hto_hi : ((2 * (j : Int) % {W} + 1) % {W}).toNat = 2 * j + 1 := by omega")
        else:
            A(f"      have hto_lo : (({16 * g} + 2 * (j : Int) % {W}) % {W}).toNat = {16 * g} + 2 * j := by omega")
            A(f"      have hto_hi : (({16 * g} + (2 * (j : Int) % {W} + 1) % {W}) % {W}).toNat = {16 * g} + 2 * j + 1 := by omega")
        A(f"      have hlx : loadCell mem (some (x, {xi(g, 'j')})) 0 = .ok ((X.getD ({xi(g, 'j')}) 0 : Nat) : Int) :=")
        A("        pload_natBuf mem x X _ hx (by omega)")
        A(f"      have hly : loadCell mem (some (y, {yi(g, 'j')})) 0 = .ok ((Y.getD ({yi(g, 'j')}) 0 : Nat) : Int) :=")
        A("        pload_natBuf mem y Y _ hy (by omega)")
        A(f"      have htd : ∃ t1 t2 t3 t4 t5 t6 t7 : Int, tj{g} j = [(j : Int), t1, t2, t3, t4, t5, t6, t7] := by")
        A(f"        simp only [tj{g}, hto{g}, List.tail_cons]")
        A("        split")
        A("        · exact ⟨_, _, _, _, _, _, _, rfl⟩")
        A("        · exact ⟨_, _, _, _, _, _, _, rfl⟩")
        A("      obtain ⟨t1, t2, t3, t4, t5, t6, t7, htj⟩ := htd")
        A(f"      have htj1 : tj{g} (j + 1) = ((j + 1 : Nat) : Int) :: bbcTemps (X.getD ({xi(g, 'j')}) 0) (Y.getD ({yi(g, 'j')}) 0) := by")
        A(f"        simp only [tj{g}, Nat.add_one_ne_zero, if_false, Nat.add_sub_cancel]")
        A("      rcases hjj with rfl | rfl | rfl | rfl")
        A("      all_goals (")
        A(f"        simp only [Si{g}, envOf, htj, htj1, List.cons_append, List.nil_append, zf"
          + "".join(f", tnew{q}, hto{q}" for q in range(G)) + ", bbcTemps]")
        A("        simp (config := { decide := true }) only [if_true, if_false, Nat.reduceSub, Nat.reduceAdd, Nat.add_zero, Nat.reduceLT]")
        A("        repeat (first")
        A("          | cirqx [e1, e2, hxlo, hxhi, hylo, hyhi, hlx, hly, natCast_not_neg, even_div2, even_mod2, odd_div2, odd_mod2,")
        A("              half32_lo, half32_hi _ (hXb _), half32_hi _ (hYb _), wrap_lo32, wrap_hi32 _ (hXb _), wrap_hi32 _ (hYb _),")
        A("              hto_lo, hto_hi, Nat.reduceMul, and_mask32]")
        A(f"          | rw [ptrAt_pvar_nat _ _ {xs} x 0 _ _ rfl rfl rfl]")
        A(f"          | rw [ptrAt_pvar_nat _ _ {ys} y 0 _ _ rfl rfl rfl])")
        A("        simp only [" + ", ".join(f"F_succ{4 * g + j}" for j in range(4))
          + ", bbcRefStep, bbcTemps, inc_cast0, inc_cast1, inc_cast2, inc_cast3, Nat.add_zero, List.cons_append, List.nil_append]")
        A("        first | done | rfl)")
        if g < G - 1:
            A("    simp only [seqK_norm, exec_seq]")
    # end of the outer body: inc
    A(f"    simp only [Si{G - 1}, So, envOf, tj{G - 1}, " + ", ".join(f"tnew{q}, told{q}" for q in range(G))
      + ", List.cons_append, List.nil_append]")
    A("    cirq_simp")
    A("    simp (config := { decide := true }) only [if_true, if_false, Nat.reduceSub, Nat.reduceAdd, Nat.add_one_ne_zero,")
    A("      Nat.add_sub_cancel, Nat.reduceLT]")
    A(f"    have e4 : ((n : Int) + 1) % {W} = ((n + 1 : Nat) : Int) := by omega")
    A("    rw [e4]")
    A("    first | done | rfl")

    # ---------------- accum_to_q120b blocks
    A("  -- accum_to_q120b")
    A(f"  let gf : Nat → Int := fun q => ((bbcRefFinal P (q % 4) (F ell q) : Nat) : Int)")
    A(f"  have hfin : mem.setIfInBounds r (natBuf ({model} P ell X Y)) = fillMem mem r gf {4 * G} := by")
    A(f"    rw [fillMem_all _ _ _ _ hr, natBuf_eq_ofFn _ {4 * G} gf (by simp [{model}])")
    A(f"      (fun i hi => by simp [{model}, bbcRefLane, Array.getD, hi, gf, F])]")
    A("  rw [hfin]")
    A("  have hload0 : ∀ m', buf m' pc = natBuf (bbcCells P) → loadCell m' (some (pc, 0)) 0 = .ok ((P.h : Nat) : Int) :=")
    A("    fun m' h' => pload_natBuf m' pc _ 0 h' (by simp [bbcCells])")
    A("  simp only [So, envOf, zf, zt, seqK_norm, List.cons_append, List.nil_append"
      + "".join(f", told{q}" for q in range(G)) + "]")
    for g in range(G):
        A(f"  have htd{g} : ∃ t0 t1 t2 t3 t4 t5 t6 t7 : Int,")
        A(f"      (if ell = 0 then [0, 0, 0, 0, 0, 0, 0, 0] else ((4 : Nat) : Int) :: bbcTemps (X.getD ({xim(g, 3).replace('(n - 1)', '(ell - 1)')}) 0)")
        A(f"        (Y.getD ({yim(g, 3).replace('(n - 1)', '(ell - 1)')}) 0)) = [t0, t1, t2, t3, t4, t5, t6, t7] := by")
        A("    split")
        A("    · exact ⟨_, _, _, _, _, _, _, _, rfl⟩")
        A("    · exact ⟨_, _, _, _, _, _, _, _, rfl⟩")
        A(f"  obtain ⟨a{g}0, a{g}1, a{g}2, a{g}3, a{g}4, a{g}5, a{g}6, a{g}7, htd{g}'⟩ := htd{g}")
        A(f"  rw [htd{g}']")
    A("  simp only [List.cons_append, List.nil_append, exec_seq]")
    A("  conv => lhs; rw [show mem = fillMem mem r gf 0 from (set_fill_zero mem r gf).symm]")
    srow2 = []
    for g in range(G):
        for k in range(4):
            srow2 += [f"(((F ell {4 * g + k}).1 : Nat) : Int)", f"(((F ell {4 * g + k}).2 : Nat) : Int)"]
        srow2 += ["0"] * 8
    tmps = ", ".join(f"a{g}{i}" for g in range(G) for i in range(8))
    A("  let hpcm : ∀ k, buf (fillMem mem r gf k) pc = natBuf (bbcCells P) := fun k => by")
    A("    rw [buf_set_ne mem r pc _ (Ne.symm hrp)]; exact hpc")
    for g in range(G):
        A(f"  -- result {g}")
        donef = " ++ ".join(f"([(P.h : Int), ((2 ^ P.h - 1 : Nat) : Int), ((4 : Nat) : Int)] ++ bbcFin P 3 (F ell {4 * q + 3}))"
                            for q in range(g))
        todo = " ++ ".join("[0, 0, 0, 0, 0, 0]" for q in range(g + 1, G))
        A(f"  let finT{g} : Nat → List Int := fun j => if j = 0 then [0, 0, 0] else bbcFin P (j - 1) (F ell ({4 * g} + (j - 1)))")
        A(f"  let Sf{g} : Nat → State := fun j =>")
        A("    ⟨[(ell : Int), " + ", ".join(srow2) + ",")
        A("      (x : Int), ((0 : Nat) : Int), (y : Int), ((0 : Nat) : Int), (r : Int), ((0 : Nat) : Int), (ell : Int), "
          + tmps + "]")
        A("      " + (f"++ {donef} " if donef else "") + f"++ ([(P.h : Int), ((2 ^ P.h - 1 : Nat) : Int), (j : Int)] ++ finT{g} j)"
          + (f" ++ {todo}" if todo else "") + f", fillMem mem r gf ({4 * g} + j)⟩")
        if g > 0:
            A(f"  simp only [Sf{g - 1}, finT{g - 1}, List.cons_append, List.nil_append, bbcFin]")
            A("  simp (config := { decide := true }) only [if_true, if_false, Nat.reduceSub, Nat.reduceAdd, List.cons_append, List.nil_append]")
        A(f"  cirqx [pp0z, hload0 _ (hpcm _), if_pos hsh, mask_cast2 P.h hh, List.cons_append, List.nil_append]")
        A(f"  rw [exec_for_range _ _ _ _ _ _ Sf{g} 0 4 0 (Nat.zero_le _) ?hi0 ?hc ?hs ?hx fuel (by omega)]")
        A("  case hi0 =>")
        A("    intro f")
        A(f"    simp only [Sf{g}, finT{g}" + (f", Sf{g - 1}, finT{g - 1}" if g else "") + ", List.cons_append, List.nil_append, bbcFin]")
        A("    cirq_simp")
        A("    simp (config := { decide := true }) only [if_true, if_false, Nat.reduceSub, Nat.reduceAdd, Nat.add_zero, e0]")
        A("    first | done | rfl")
        A("  case hc =>")
        A("    intro j _ hj")
        A(f"    simp only [Sf{g}, bbcFin, List.cons_append, List.nil_append]")
        A("    cir_simp")
        A("    exact ok_decide_true (by omega)")
        A("  case hx =>")
        A(f"    simp only [Sf{g}, bbcFin, List.cons_append, List.nil_append]")
        A("    cir_simp")
        A("    exact ok_decide_false (by decide)")
        A("  case hs =>")
        A("    intro j _ hj f _")
        A("    have hjj : j = 0 ∨ j = 1 ∨ j = 2 ∨ j = 3 := by omega")
        A(f"    have hix1 : ((1 : Int) + (j : Int)) % {W} = ((1 + j : Nat) : Int) := by omega")
        A(f"    have hix5 : ((5 : Int) + (j : Int)) % {W} = ((5 + j : Nat) : Int) := by omega")
        if g == 0:
            A(f"    have hto_lo : (2 * (j : Int) % {W}).toNat = 2 * j := by omega")
            A(f"    have hto_hi : ((2 * (j : Int) % {W} + 1) % {W}).toNat = 2 * j + 1 := by omega")
            A(f"    have hst : (j : Int) = ((j : Nat) : Int) := rfl")
        else:
            A(f"    have hto_lo : (({16 * g} + 2 * (j : Int) % {W}) % {W}).toNat = {16 * g} + 2 * j := by omega")
            A(f"    have hto_hi : (({16 * g} + (2 * (j : Int) % {W} + 1) % {W}) % {W}).toNat = {16 * g} + 2 * j + 1 := by omega")
            A(f"    have hst : (({4 * g} : Int) + (j : Int)) % {W} = (({4 * g} + j : Nat) : Int) := by omega")
        A(f"    have hld : ∀ c : Nat, c + 4 ≤ 9 → loadCell (fillMem mem r gf ({4 * g} + j)) (some (pc, c + j)) 0")
        A("        = .ok (((bbcCells P).getD (c + j) 0 : Nat) : Int) := by")
        A("      intro c hc")
        A("      rw [pload_other mem r pc _ _ (Ne.symm hrp) (by rw [hpc]; simp [bbcCells]; omega), hpc, getD_natBuf]")
        A(f"    have hft : ∃ u0 u1 u2 : Int, finT{g} j = [u0, u1, u2] := by")
        A(f"      simp only [finT{g}]")
        A("      split")
        A("      · exact ⟨_, _, _, rfl⟩")
        A("      · exact ⟨_, _, _, rfl⟩")
        A("    obtain ⟨u0, u1, u2, hfj⟩ := hft")
        A(f"    have hfj1 : finT{g} (j + 1) = bbcFin P j (F ell ({4 * g} + j)) := by")
        A(f"      simp only [finT{g}, Nat.add_one_ne_zero, if_false, Nat.add_sub_cancel]")
        A("    rcases hjj with rfl | rfl | rfl | rfl")
        A("    all_goals (")
        A(f"      simp only [Sf{g}, hfj, hfj1, bbcFin, List.cons_append, List.nil_append]")
        A("      repeat (first")
        A("        | cirqx [e1, e2, if_pos hsh, pp0, hix1, hix5, hst, shr_cast2, Nat.and_two_pow_sub_one_eq_mod, hto_lo, hto_hi,")
        A("            Nat.reduceMul, hld 1 (by decide), hld 5 (by decide)]")
        A(f"        | rw [ptrAt_pvar_nat _ _ {rs} r 0 _ _ rfl rfl rfl])")
        A("      rw [pstore_fill mem r gf _ _ (by omega) (by rfl)]")
        A("      cirqx [inc_cast0, inc_cast1, inc_cast2, inc_cast3]")
        A("      first | done | rfl)")
        if g < G - 1:
            A("  simp only [seqK_norm]")
    A("  rfl")
    return "\n".join(L), G, fn, model, fb, rs, NS, tb


if __name__ == "__main__":
    text, *_ = gen(int(sys.argv[1]))
    print(text)
