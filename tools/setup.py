#!/usr/bin/env python3
"""setup_cmd: build everything the checks need from files on disk (offline)."""
import os, sys, time
sys.path.insert(0, os.path.dirname(os.path.abspath(__file__)))
import vlib

t = time.time()
out, ok, log = vlib.build_lib("plain")
print("repo lib:", out, ok, log[:500])
if not ok:
    sys.exit(1)
exe, ok, log = vlib.build_harness(out, "plain")
print("harness:", exe, ok, log[:2000])
if not ok:
    sys.exit(1)
try:
    import gen_facts
    gen_facts.generate(gen_facts.ALL, out)
except ImportError:
    pass
ok, log = vlib.lake_build(["Spq", "spqdriver", "SpqProofs"])
print("lake:", ok, log[-3000:] if not ok else "")
print(f"setup {time.time()-t:.1f}s")
sys.exit(0 if ok else 1)
