#!/usr/bin/env python3
"""(re)writes MANIFEST.json from tools/props.py so that the two never drift"""
import json, os, sys
sys.path.insert(0, os.path.dirname(os.path.abspath(__file__)))
from props import PROPS
VERIF = os.path.dirname(os.path.dirname(os.path.abspath(__file__)))
ALL = [f"C{i:02d}" for i in range(1, 19)]
NA_REASON = "not claimed yet: the check for this property is still being built (model/proofs staged, see DESIGN.md §5); nothing is asserted about it"
man = {
    "version": 1,
    "setup_cmd": "python3 tools/setup.py",
    "hooks": {
        "guard": "SPQLIOS_VERIF",
        "enable": "tools/build_repo.py compiles every source listed in spqlios/CMakeLists.txt with the project's per-file ISA flags plus -DSPQLIOS_VERIF (out of tree, under /verif/.build)",
        "baseline_off_cmd": "cmake -G Ninja -B /repo/_build -S /repo && cmake --build /repo/_build && ctest --test-dir /repo/_build -j8 --timeout 900",
        "source_commits": ["8467dbe", "2e2bcd8"],
        "add_only": True,
    },
    "engines": [
        {"name": "lean-model", "path": "lean/Spq", "kind_free_text": "executable Lean 4 model of the library (core only) + compiled line-protocol driver"},
        {"name": "lean-proofs", "path": "lean/SpqProofs", "kind_free_text": "property theorems (Lean 4 kernel-checked; single Mathlib modules)", "serves_properties": sorted(PROPS)},
        {"name": "gen-facts", "path": "tools/gen_facts.py", "kind_free_text": "translator for data: constants/tables/metadata/call graph/cache structure extracted from /repo into lean/Gen on every run"},
        {"name": "c-harness", "path": "harness", "kind_free_text": "C++ harness driving the real library in-process; independent oracles; feeds the model driver"},
    ],
    "checks": [],
    "not_applicable": [],
    "notes": "Every check: python3 tools/check.py Cxx --tier quick|thorough. Technique family: machine-checked proof in Lean 4 over an executable model, tied to /repo by regenerated facts (lean/Gen) and bit-exact correspondence streams. See DESIGN.md.",
}
for pid in ALL:
    if pid in PROPS:
        P = PROPS[pid]
        man["checks"].append({
            "property_id": pid,
            "quick_cmd": f"python3 tools/check.py {pid} --tier quick",
            "thorough_cmd": f"python3 tools/check.py {pid} --tier thorough",
            "evidence_file": f"evidence/{pid}.json",
            "replay_cmd_template": f"python3 tools/check.py {pid} --replay {{path}}",
            "engine": "lean-proofs",
            "level_claimed": {"category": "proof", "text": P["level_text"], "design_ref": P.get("design_ref", "DESIGN.md §5")},
            "level_note": "trusted: Lean 4.33 kernel; axioms propext/Classical.choice/Quot.sound only (audited every run); hand-written model tied to the code by differential correspondence (bounded by generator quality) and regenerated facts; NOT proved: " + P.get("not_proved", ""),
            "technique": P.get("technique", "Lean 4 proof over an executable model + model/code correspondence"),
        })
    else:
        man["not_applicable"].append({"property_id": pid, "reason": NA_REASON})
json.dump(man, open(os.path.join(VERIF, "MANIFEST.json"), "w"), indent=1)
print("checks:", [c["property_id"] for c in man["checks"]])
