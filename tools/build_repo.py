#!/usr/bin/env python3
"""Build /repo's current working tree out-of-tree into /verif/.build/<treehash>-<variant>/libspq.a.

The source list and per-file ISA flags are parsed from spqlios/CMakeLists.txt, so added files are
picked up.  Builds are cached by a hash over the content of every file below spqlios/ plus the
flags; a lock file serialises concurrent checks.  Variants:
  plain : gcc -O2 -DNDEBUG -DSPQLIOS_VERIF            (what the test-suite build computes + hooks)
  asan  : gcc -O1 -g -fsanitize=address,undefined     (+ hooks)
  tsan  : gcc -O1 -g -fsanitize=thread                (+ hooks)
"""
import fcntl, hashlib, os, re, shutil, subprocess, sys, time
from concurrent.futures import ThreadPoolExecutor

VERIF = os.path.dirname(os.path.dirname(os.path.abspath(__file__)))
REPO = os.environ.get("VERIF_REPO", "/repo")
BUILD_ROOT = os.path.join(VERIF, ".build")

VARIANTS = {
    "plain": ["-O2", "-DNDEBUG"],
    "asan": ["-O1", "-g", "-fsanitize=address,bounds", "-fno-sanitize-recover=bounds", "-fno-omit-frame-pointer", "-DNDEBUG"],
    "tsan": ["-O1", "-g", "-fsanitize=thread", "-DNDEBUG"],
}
COMMON = ["-fPIC", "-std=gnu11", "-DSPQLIOS_VERIF", "-w"]


def parse_cmake(repo):
    txt = open(os.path.join(repo, "spqlios", "CMakeLists.txt")).read()
    sets = {}
    for m in re.finditer(r"set\((\w+)\s+([^)]*)\)", txt):
        name, body = m.group(1), m.group(2)
        body = re.sub(r"#[^\n]*", "", body)
        sets[name] = [t for t in body.split() if not t.startswith("${")]
    flags = {}
    for m in re.finditer(r"set_source_files_properties\(\$\{(\w+)\}\s+PROPERTIES\s+COMPILE_OPTIONS\s+\"([^\"]*)\"\)", txt):
        flags[m.group(1)] = m.group(2).split(";")
    groups = ["SRCS_GENERIC", "SRCS_X86", "SRCS_FMA_C", "SRCS_FMA_ASM", "SRCS_AVX2", "SRCS_AVX512"]
    out = []
    seen = set()
    for g in groups:
        for f in sets.get(g, []):
            if f in seen or not (f.endswith(".c") or f.endswith(".s")):
                continue
            seen.add(f)
            out.append((f, flags.get(g, [])))
    return out


def tree_hash(repo, extra=""):
    h = hashlib.sha256()
    root = os.path.join(repo, "spqlios")
    for d, dirs, files in sorted(os.walk(root)):
        dirs.sort()
        for f in sorted(files):
            p = os.path.join(d, f)
            h.update(os.path.relpath(p, root).encode())
            h.update(b"\0")
            with open(p, "rb") as fh:
                h.update(fh.read())
            h.update(b"\0")
    h.update(extra.encode())
    return h.hexdigest()[:16]


def build(variant="plain", repo=REPO, extra_defs=(), quiet=True):
    """returns (libdir, ok, log)"""
    vflags = VARIANTS[variant] + list(extra_defs)
    th = tree_hash(repo, " ".join(vflags + COMMON))
    out = os.path.join(BUILD_ROOT, f"{th}-{variant}")
    os.makedirs(BUILD_ROOT, exist_ok=True)
    lock = open(os.path.join(BUILD_ROOT, ".lock"), "w")
    fcntl.flock(lock, fcntl.LOCK_EX)
    try:
        lib = os.path.join(out, "libspq.a")
        if os.path.exists(lib) and os.path.exists(os.path.join(out, ".done")):
            return out, True, "cached"
        shutil.rmtree(out, ignore_errors=True)
        os.makedirs(out)
        srcs = parse_cmake(repo)
        cmds = []
        for f, fl in srcs:
            o = os.path.join(out, f.replace("/", "_") + ".o")
            cmds.append((["gcc"] + vflags + COMMON + fl + ["-c", os.path.join(repo, "spqlios", f), "-o", o], o))
        logs = []

        def run(c):
            r = subprocess.run(c[0], capture_output=True, text=True)
            return r.returncode, r.stderr

        with ThreadPoolExecutor(16) as ex:
            res = list(ex.map(run, cmds))
        bad = [(c, r) for c, r in zip(cmds, res) if r[0] != 0]
        if bad:
            return out, False, "\n".join(" ".join(c[0]) + "\n" + r[1] for c, r in bad)
        r = subprocess.run(["ar", "rcs", lib] + [c[1] for c in cmds], capture_output=True, text=True)
        if r.returncode != 0:
            return out, False, r.stderr
        open(os.path.join(out, ".done"), "w").write(time.ctime())
        prune(keep=out)
        return out, True, "built"
    finally:
        fcntl.flock(lock, fcntl.LOCK_UN)
        lock.close()


def prune(keep, max_dirs=8):
    """keep disk use bounded: drop the oldest cached builds"""
    ds = [os.path.join(BUILD_ROOT, d) for d in os.listdir(BUILD_ROOT) if os.path.isdir(os.path.join(BUILD_ROOT, d))]
    ds.sort(key=lambda d: os.path.getmtime(d))
    while len(ds) > max_dirs:
        d = ds.pop(0)
        if d != keep:
            shutil.rmtree(d, ignore_errors=True)


if __name__ == "__main__":
    v = sys.argv[1] if len(sys.argv) > 1 else "plain"
    t = time.time()
    out, ok, log = build(v)
    print(out, ok, log[:4000], f"{time.time()-t:.1f}s")
    sys.exit(0 if ok else 1)
