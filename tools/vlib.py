#!/usr/bin/env python3
"""Shared machinery of the checks: builds, Lean project, axiom audit, correspondence runs, evidence."""
import fcntl, glob, hashlib, json, os, re, shutil, subprocess, sys, time

VERIF = os.path.dirname(os.path.dirname(os.path.abspath(__file__)))
REPO = os.environ.get("VERIF_REPO", "/repo")
LEAN = os.path.join(VERIF, "lean")
HARN = os.path.join(VERIF, "harness")
WORK = os.path.join(VERIF, ".build", "work")
sys.path.insert(0, os.path.join(VERIF, "tools"))
import build_repo  # noqa: E402

ALLOWED_AXIOMS = {"propext", "Classical.choice", "Quot.sound"}
FORBIDDEN = re.compile(r"\bsorry\b|\badmit\b|^\s*axiom\s|native_decide|bv_decide|implemented_by|\bunsafe\s|maxHeartbeats\s+0|@\[extern|skipKernelTC|debug\.")


class Lock:
    def __init__(self, name):
        os.makedirs(os.path.join(VERIF, ".build"), exist_ok=True)
        self.path = os.path.join(VERIF, ".build", name + ".lock")

    def __enter__(self):
        self.f = open(self.path, "w")
        fcntl.flock(self.f, fcntl.LOCK_EX)
        return self

    def __exit__(self, *a):
        fcntl.flock(self.f, fcntl.LOCK_UN)
        self.f.close()


def sh(cmd, cwd=None, timeout=None, env=None, stdin=None, stdout=None):
    return subprocess.run(cmd, cwd=cwd, capture_output=(stdout is None), text=True, timeout=timeout, env=env, stdin=stdin, stdout=stdout)


# ----------------------------------------------------------------------------------------------
# repo library + harness
def build_lib(variant="plain", extra_defs=()):
    out, ok, log = build_repo.build(variant, REPO, extra_defs)
    return out, ok, log


def harness_hash(libdir, variant):
    h = hashlib.sha256()
    for f in sorted(glob.glob(os.path.join(HARN, "*.cpp")) + glob.glob(os.path.join(HARN, "*.h"))):
        h.update(open(f, "rb").read())
    h.update(libdir.encode())
    h.update(variant.encode())
    return h.hexdigest()[:16]


def build_harness(libdir, variant="plain"):
    """compile harness/*.cpp against the library in libdir; returns (binary, ok, log)"""
    hh = harness_hash(libdir, variant)
    exe = os.path.join(libdir, f"spqh-{hh}")
    with Lock("harness"):
        if os.path.exists(exe):
            return exe, True, "cached"
        flags = {"plain": ["-O1", "-g"],
                 "asan": ["-O1", "-g", "-fsanitize=address,bounds", "-fno-sanitize-recover=bounds", "-fno-omit-frame-pointer"],
                 "tsan": ["-O1", "-g", "-fsanitize=thread"]}[variant]
        srcs = sorted(glob.glob(os.path.join(HARN, "*.cpp")))
        objs = []
        procs = []
        odir = os.path.join(libdir, f"hobj-{hh}")
        os.makedirs(odir, exist_ok=True)
        for s in srcs:
            o = os.path.join(odir, os.path.basename(s) + ".o")
            objs.append(o)
            procs.append(subprocess.Popen(["g++"] + flags + ["-std=gnu++17", "-w", "-I" + REPO, "-I" + HARN, "-DSPQLIOS_VERIF", "-DNDEBUG", "-mavx2", "-mfma", "-c", s, "-o", o],
                                          stdout=subprocess.PIPE, stderr=subprocess.STDOUT, text=True))
        log = ""
        ok = True
        for p in procs:
            o, _ = p.communicate()
            if p.returncode != 0:
                ok = False
                log += o
        if not ok:
            return exe, False, log
        r = sh(["g++"] + flags + objs + [os.path.join(libdir, "libspq.a"), "-lm", "-lquadmath", "-lpthread", "-o", exe + ".tmp"])
        if r.returncode != 0:
            return exe, False, r.stdout + r.stderr
        os.rename(exe + ".tmp", exe)
        shutil.rmtree(odir, ignore_errors=True)
        # disk: older harness binaries / object directories of this library build are not needed any more
        for f in os.listdir(libdir):
            q = os.path.join(libdir, f)
            if (f.startswith("spqh-") or f.startswith("hobj-")) and q != exe:
                shutil.rmtree(q, ignore_errors=True) if os.path.isdir(q) else os.unlink(q)
        return exe, True, "built"


# ----------------------------------------------------------------------------------------------
# Lean
def lake_build(targets, timeout=3000):
    with Lock("lake"):
        r = sh(["lake", "build"] + list(targets), cwd=LEAN, timeout=timeout)
    return r.returncode == 0, (r.stdout or "") + (r.stderr or "")


def driver_path():
    return os.path.join(LEAN, ".lake", "build", "bin", "spqdriver")


def strip_comments(src):
    # remove /- ... -/ (nested) and -- line comments
    out = []
    i, depth, n = 0, 0, len(src)
    while i < n:
        if src.startswith("/-", i):
            depth += 1
            i += 2
        elif depth and src.startswith("-/", i):
            depth -= 1
            i += 2
        elif depth:
            if src[i] == "\n":
                out.append("\n")
            i += 1
        elif src.startswith("--", i):
            while i < n and src[i] != "\n":
                i += 1
        else:
            out.append(src[i])
            i += 1
    return "".join(out)


def lean_files():
    fs = []
    for root in ("Spq", "SpqProofs", "Gen"):
        for d, _, files in os.walk(os.path.join(LEAN, root)):
            fs += [os.path.join(d, f) for f in files if f.endswith(".lean")]
    fs.append(os.path.join(LEAN, "Main.lean"))
    return sorted(fs)


def grep_forbidden():
    """returns list of (file, line, text) hits of forbidden constructs outside comments"""
    hits = []
    for f in lean_files():
        src = strip_comments(open(f).read())
        for ln, line in enumerate(src.split("\n"), 1):
            if FORBIDDEN.search(line):
                hits.append((os.path.relpath(f, LEAN), ln, line.strip()))
    return hits


def theorems_in(module_file):
    src = strip_comments(open(module_file).read())
    names = []
    ns = []
    for line in src.split("\n"):
        m = re.match(r"\s*namespace\s+(\S+)", line)
        if m:
            ns.append(m.group(1))
            continue
        m = re.match(r"\s*end\s+(\S+)", line)
        if m and ns and ns[-1] == m.group(1):
            ns.pop()
            continue
        m = re.match(r"\s*(?:@\[[^\]]*\]\s*)?(?:private\s+|protected\s+)?theorem\s+(\S+)", line)
        if m:
            nm = m.group(1)
            names.append(nm[len("_root_."):] if nm.startswith("_root_.") else ".".join(ns + [nm]))
    return names


def audit_axioms(module, names):
    """#print axioms on every theorem; returns dict name -> list of axioms (or None if failed), raw output"""
    os.makedirs(WORK, exist_ok=True)
    path = os.path.join(WORK, f"audit_{module.replace('.', '_')}_{os.getpid()}.lean")
    with open(path, "w") as f:
        f.write(f"import {module}\n")
        for n in names:
            f.write(f"#print axioms {n}\n")
    r = sh(["lake", "env", "lean", path], cwd=LEAN, timeout=900)
    out = (r.stdout or "") + (r.stderr or "")
    os.unlink(path)
    res = {}
    # outputs: "'name' depends on axioms: [a, b]"  or "'name' does not depend on any axioms"
    for m in re.finditer(r"'([^']+)' depends on axioms: \[([^\]]*)\]", out, re.S):
        res[m.group(1)] = [a.strip() for a in m.group(2).replace("\n", " ").split(",") if a.strip()]
    for m in re.finditer(r"'([^']+)' does not depend on any axioms", out):
        res[m.group(1)] = []
    return res, out


def leanchecker(module):
    r = sh(["lake", "env", "leanchecker", module], cwd=LEAN, timeout=1800)
    return r.returncode == 0, (r.stdout or "") + (r.stderr or "")


# ----------------------------------------------------------------------------------------------
# correspondence
def run_stream(exe, stream, seed, tier, tag, timeout=3000, env=None):
    """runs harness stream and the model driver, compares.  Returns dict."""
    os.makedirs(WORK, exist_ok=True)
    pre = os.path.join(WORK, f"{tag}_{stream}_{seed}_{tier}")
    for ext in (".ops", ".real", ".oracle", ".meta", ".model"):
        if os.path.exists(pre + ext):
            os.unlink(pre + ext)
    t0 = time.time()
    e = dict(os.environ)
    # LeakSanitizer only for the object-lifetime streams (the other streams keep modules cached on purpose)
    e["ASAN_OPTIONS"] = ("detect_leaks=1" if stream.startswith("mem_") else "detect_leaks=0") + ":abort_on_error=0:exitcode=99"
    e["UBSAN_OPTIONS"] = "halt_on_error=1:exitcode=98:print_stacktrace=1"
    e["TSAN_OPTIONS"] = "exitcode=97:halt_on_error=0"
    if env:
        e.update(env)
    r = sh([exe, stream, pre, str(seed), tier], timeout=timeout, env=e)
    res = {"stream": stream, "seed": seed, "tier": tier, "prefix": pre, "harness_rc": r.returncode,
           "harness_err": (r.stderr or "")[-6000:], "cases": 0, "disagreements": [], "oracle_fails": [], "meta": {}}
    res["harness_s"] = time.time() - t0
    if r.returncode != 0:
        return res
    try:
        res["meta"] = json.load(open(pre + ".meta"))
    except Exception:
        pass
    t1 = time.time()
    with open(pre + ".ops") as fin, open(pre + ".model", "w") as fout:
        d = subprocess.run([driver_path()], stdin=fin, stdout=fout, stderr=subprocess.PIPE, text=True, timeout=timeout)
    res["model_rc"] = d.returncode
    res["model_err"] = (d.stderr or "")[-2000:]
    res["model_s"] = time.time() - t1
    n = 0
    with open(pre + ".real") as fr, open(pre + ".model") as fm, open(pre + ".oracle") as fo:
        while True:
            lr = fr.readline()
            lm = fm.readline()
            lo = fo.readline()
            if not lr and not lm:
                break
            n += 1
            if lr.strip() != lm.strip():
                if len(res["disagreements"]) < 20:
                    res["disagreements"].append(n)
                res["n_disagree"] = res.get("n_disagree", 0) + 1
            lo = lo.strip()
            if not lo and lr:
                lo = "FAIL harness wrote no verdict for this case (missing endcase)"
            if lo and lo != "ok" and lo != "na":
                if len(res["oracle_fails"]) < 20:
                    res["oracle_fails"].append((n, lo))
                res["n_oracle_fail"] = res.get("n_oracle_fail", 0) + 1
    res["cases"] = n
    return res


def get_line(path, n):
    with open(path) as f:
        for i, line in enumerate(f, 1):
            if i == n:
                return line.rstrip("\n")
    return None


def clip(s, n=4000):
    if s is None:
        return None
    return s if len(s) <= n else s[:n] + f" …[{len(s)-n} more chars]"


def write_json(path, obj):
    os.makedirs(os.path.dirname(path), exist_ok=True)
    tmp = path + ".tmp"
    with open(tmp, "w") as f:
        json.dump(obj, f, indent=1)
    os.rename(tmp, path)


def cleanup_work(tag, tier):
    """remove the raw stream files of this check (prefix <tag>_ and <tag>search_) from the scratch directory"""
    try:
        for f in os.listdir(WORK):
            if (f.startswith(tag + "_") and f"_{tier}." in f) or f.startswith(tag + "search_"):
                try:
                    os.unlink(os.path.join(WORK, f))
                except OSError:
                    pass
    except OSError:
        pass
