#!/bin/bash
# usage: seed_batch.sh <srcroot e.g. /tmp/m2C09/out> <idprefix e.g. R2-C09> <checks>
for d in $1/v*; do v=$(basename $d); python3 /verif/tools/seed_eval.py $d $2-$v --checks $3 2>&1 | python3 -c "
import sys,json
t=sys.stdin.read()
i=t.find('{'); j=t.find('\n}')+2
try:
    d=json.loads(t[i:j]); print(d['id'],'confirmed' if d['confirmed'] else 'NOT-CONFIRMED(b=%s p=%s t=%s)'%(d['baseline'],d['patched'],d['tests']), d['detected'])
except Exception as e: print('ERR',t[-800:])
for l in t[j:].splitlines():
    if 'detail' in l: print('    ',l.strip()[:200])
"; done
