"""Per-property configuration of the checks (streams, proof module, generated facts, notes)."""

COMMON_ASSUME = [
    "the hand-written Lean model is tied to the code only by the correspondence streams (differential execution bounded by generator quality) and, where listed, by facts regenerated from the source on every run",
    "compiler (gcc -O2) and the project's per-file ISA flags are part of the modelled object",
]

PROPS = {
    "C03": dict(
        title="NTT120 transform is an exact, invertible negacyclic transform on all 64-bit data",
        module="SpqProofs.Properties.C03",
        gen=["q120ntt"],
        streams=dict(quick=[("qn_tables", "plain"), ("qn_ntt", "plain"), ("md_ntt", "plain")],
                     thorough=[("qn_tables", "plain"), ("qn_ntt", "plain"), ("qn_stages", "plain"), ("md_ntt", "plain")]),
        proved="mixed level-by-level/block schedule = plain level schedule for every split; under a kernel-checked no-wrap certificate on the metadata extracted from the live precomputation, every output lane equals the exact transform in ZMod q_j for every 64-bit input, n = 2^k <= 2^16; intt(ntt x) = x mod q_j; linearity; output j = evaluation at w^(2 brev(j)+1); pointwise products invert to the negacyclic convolution",
        not_proved="module-level dft/idft (int64 -> residues -> CRT lift) is covered by the md_ntt stream with an exact int64/int128 oracle and by the C10 conversion theorems, not yet composed into one theorem; the 4 AVX2 lanes are modelled as 4 independent scalar lanes (tied by the streams)",
        level_text="Lean 4 theorems (refinement to the exact ZMod transform, round trip, evaluation and convolution) over a model whose per-level metadata is regenerated from the live precomputation every run; raw-lane bit-exact correspondence for n = 1..65536 on worst-case lane patterns",
        design_ref="DESIGN.md §5 C03",
        technique="Lean 4 proof (level induction, ZMod refinement) + kernel-decided certificate on regenerated metadata + correspondence",
        assumptions=COMMON_ASSUME + ["real powomega tables = model tables (qn_tables stream, exhaustive per n)", "Gen/Q120Meta re-extracted every run"],
    ),
    "C05": dict(
        title="Base-2^k normalization yields the unique balanced digit expansion",
        module="SpqProofs.Properties.C05",
        streams=dict(quick=[("kz_norm", "plain"), ("vz_norm", "plain")], thorough=[("kz_norm", "plain"), ("vz_norm", "plain"), ("vz_box", "plain")]),
        proved="digit/carry = balanced residue / exact quotient (all k in [1,62], |x|,|cin| <= 2^62, no wrap); per-coefficient chain = balancedDigits (existence, value identity, uniqueness); heap-level normalize_spec for all nn, k, limb counts incl. 0, strides, in place or disjoint, frame, bounds flag; big and range variants",
        not_proved="nothing of the statement is left unproved at model level; the 8 argument shapes of znx_normalize are one model function (the shapes differ only in what is stored) — tied by the kz_norm stream over all shapes and aliasing patterns",
        level_text="Lean 4 theorems: balanced base-2^k expansion (value, range, uniqueness) for every k, limb count and stride; model tied to the code by exhaustive small boxes and boundary carry chains, bit-exact",
        design_ref="DESIGN.md §5 C05",
    ),
    "C08": dict(
        title="vec_znx size/stride semantics",
        module="SpqProofs.Properties.C08",
        streams=dict(quick=[("vz_box", "plain")], thorough=[("vz_box", "plain")]),
        proved="value + frame + bounds-flag theorems for zero/copy/negate/add/sub/rotate/automorphism and the big wrappers, for all nn, limb counts incl. 0, strides >= nn, offsets, heap contents, aliased or disjoint sources; int64 zero-extension corollaries",
        not_proved="AVX lane chunking is modelled as the same per-limb function (tied by the correspondence on the avx variants and the generic/AVX dispatch masks)",
        level_text="Lean 4 theorems over the heap model of vec_znx: value, frame and bounds for all sizes (incl. 0), strides, dimensions and contents; model tied to /repo by bit-exact whole-arena differential runs (canary padding, all size orderings, both module types and dispatch masks)",
        design_ref="DESIGN.md §5 C08",
    ),
    "C09": dict(
        title="Rotation, automorphism and (X^p-1) product are the ring maps for every p",
        module="SpqProofs.Properties.C09",
        streams=dict(quick=[("kz_probe", "plain"), ("vz_box", "plain")], thorough=[("kz_probe", "plain"), ("vz_box", "plain"), ("md_prog", "plain")]),
        proved="rotate/mulxp/automorphism (out of place) equal the closed coefficient formulas of X^p·a, X^p·a − a, a(X^p) for every nn, every p in Z (automorphism: nn = 2^t, odd p; result independent of prior output); in-place rotation and (X^p−1) equal the out-of-place maps for EVERY nn and p with the model's fuel proved sufficient; in-place automorphism equals the out-of-place one for every nn = 2^t (t ≤ 64: the C contract) and odd p, via (Z/2^t)^× = <−1>×<5>; composition laws (additive / multiplicative mod 2N)",
        not_proved="the bridge from the closed coefficient formulas to Mathlib's AdjoinRoot (X^N+1) is not formalised (the formulas are the textbook ones); double-precision variants are the same polymorphic definitions (tied by the probe stream on integer-valued doubles)",
        level_text="Lean 4 theorems for all N and all p, including the in-place cycle-leader walks (termination proved) and the 2-adic orbit structure of the in-place automorphism; exhaustive injective-probe correspondence with the real int64 and double kernels",
        design_ref="DESIGN.md §5 C09",
        technique="Lean 4 proof (orbit/induction arguments, Mathlib ZMod units) + exhaustive probe correspondence",
    ),
    "C11": dict(
        title="Memory contract: declared extents and *_tmp_bytes scratch are never exceeded",
        module="SpqProofs.Properties.C11",
        gen=["tmpbytes"],
        variants={"plain": None, "asan": None},
        streams=dict(quick=[("mem_pairs", "asan"), ("vz_box", "asan"), ("vz_norm", "asan"), ("kz_probe", "asan"), ("kz_norm", "asan"), ("ca_prog", "asan"), ("md_prod", "asan"), ("md_vmp", "asan"), ("md_ntt", "asan")],
                     thorough=[("mem_pairs", "asan"), ("vz_box", "asan"), ("vz_norm", "asan"), ("kz_probe", "asan"), ("kz_norm", "asan"), ("ca_prog", "asan"), ("md_prod", "asan"), ("md_vmp", "asan"), ("md_ntt", "asan")]),
        proved="index logic of every limb-vector operation: declared extents inside the heap imply no out-of-bounds access of the model (all shapes incl. zero limb counts), frame theorems (C18) bound the writes, scratch of the normalisation = one carry limb = *_tmp_bytes; Gen obligation: size formulas = live *_tmp_bytes / bytes_of_* values",
        not_proved="runtime residue observed by ASan/UBSan-bounds/LSan on exactly-sized heap buffers, not proved: accesses inside float kernels and asm leaves, alloc/free pairing of new_*/delete_*, alignment, allocator overflow abort; DFT/SVP/VMP entry points are covered by the sanitizer streams only until the module-level model lands",
        level_text="Lean 4 theorems for the index logic (bounds flag, frame, scratch size) + kernel-decided size-formula obligation on live values; the memory-safety residue is tied by sanitizer builds on exact-size buffers (partial)",
        design_ref="DESIGN.md §5 C11",
        technique="Lean 4 proof of the index logic + regenerated size facts; sanitizer-instrumented correspondence",
    ),
    "C12": dict(
        title="Shared modules and precomputed tables are safe for concurrent use",
        module="SpqProofs.Properties.C12",
        gen=["globals", "caches"],
        variants={"plain": None, "tsan": None},
        streams=dict(quick=[("mt_module", "plain"), ("mt_module", "tsan"), ("ca_prog", "plain")],
                     thorough=[("mt_module", "plain"), ("mt_module", "tsan"), ("ca_prog", "plain")]),
        proved="(1) read-only threads: for every interleaving the shared memory is unchanged and every thread observes what it observes solo; (2) Gen obligation re-decided by the kernel on every run: the call-graph closure (indirect calls over-approximated) of every exported const MODULE*/const *_PRECOMP* entry point references no shared mutable global; (3) warm-up: a *_simple call after a completed call with the same key performs no write to its cache",
        not_proved="real weak-memory interleavings, compiler reordering and the first-use race of the *_simple functions are runtime behaviour: exhibited by the ThreadSanitizer stream (16 threads, fresh and warmed-up), not by a theorem; extraction of the call graph / global references from the object files is trusted",
        level_text="Lean 4 theorem over sequentially consistent interleavings + kernel-decided obligation on the call graph and global-reference sets extracted from the freshly built objects; TSan and per-thread-vs-solo bitwise streams tie it to the real code (partial: runtime memory model not modelled)",
        design_ref="DESIGN.md §5 C12",
        technique="Lean 4 proof (interleaving induction) + kernel-decided reachability over extracted call graph; TSan correspondence",
    ),
    "C15": dict(
        title="Results depend only on arguments: no hidden state, history or alignment",
        module="SpqProofs.Properties.C15",
        gen=["globals", "caches"],
        streams=dict(quick=[("ca_prog", "plain"), ("ca_irrelevant", "plain"), ("vz_box", "plain"), ("md_prod", "plain"), ("md_vmp", "plain")],
                     thorough=[("ca_prog", "plain"), ("ca_irrelevant", "plain"), ("vz_box", "plain"), ("vz_norm", "plain"), ("md_prod", "plain"), ("md_vmp", "plain")]),
        proved="history independence of every function with function-local static state (structure extracted from the C source each run): after any call sequence the table in use was built with the call's own values of every table-relevant constructor argument; Gen obligations: every constructor argument is in the cache key, every function referencing mutable static storage is a modelled cache; purity of the limb-vector operations (outputs depend on source cells only)",
        not_proved="which constructor arguments are table-irrelevant is declared by hand (4 entries) and validated by byte-comparing tables (stream ca_irrelevant); buffer alignment independence is checked by the streams only (all loads are unaligned loads)",
        level_text="Lean 4 invariant proof over the cache state machine whose per-function structure is re-extracted from the C source on every run, plus kernel-decided obligations; rebuild events and outputs compared with the real code over random call programs",
        design_ref="DESIGN.md §5 C15",
        technique="Lean 4 proof (state-machine invariant) over a model regenerated from source + correspondence",
    ),
    "C13": dict(
        title="Supported in-place calls give the same result as out-of-place calls",
        module="SpqProofs.Properties.C13",
        streams=dict(quick=[("vz_box", "plain"), ("kz_probe", "plain"), ("vz_norm", "plain"), ("md_prod", "plain"), ("alias_mul", "plain"), ("md_prog", "plain")],
                     thorough=[("vz_box", "plain"), ("kz_probe", "plain"), ("vz_norm", "plain"), ("md_prod", "plain"), ("alias_mul", "plain"), ("md_prog", "plain")]),
        proved="call-independence theorems: an aliased call (res==a or res==b, same stride) and a call with separate buffers on the same source data give identical output cells, for add/sub/copy/negate/rotate/automorphism and the big variants, all limb counts (res_size != aliased size included)",
        not_proved="the inverse DFT in place and pointwise products with r==a are float kernels: covered by the module-level streams (bit-exact), theorem staged with the FFT model",
        level_text="Lean 4 theorems: aliased call = separate-buffer call on identical data for every shape; in-place kernels tied to the real code by the exhaustive probe stream",
        design_ref="DESIGN.md §5 C13",
    ),
    "C17": dict(
        title="Block layouts and complex-vector kernels are faithful and mutually inverse",
        level_text="Lean 4 theorems: layout maps cell by cell with frame for every m/blk/rows/stride, exact-arithmetic equality of every kernel (ref, avx2/fma, sse, avx512 orders) with the complex definition for every length, standard-model error bounds for the accumulating products; bit-exact correspondence on all variants",
        design_ref="DESIGN.md §5 C17",
        module="SpqProofs.Properties.C17",
        variants={"plain": None},
        streams=dict(quick=[("r4_layout", "plain"), ("r4_arith", "plain")],
                     thorough=[("r4_layout", "plain"), ("r4_arith", "plain")]),
        proved="layout: extract/save/from_cplx/to_cplx cell-by-cell values + frame for every m, blk < m/4, row count incl. 0, stride; "
               "save/extract mutually inverse; to_cplx(from_cplx x) = x on all 2m doubles; AVX/FMA layout variants equal to the reference ones. "
               "arithmetic (exact, any commutative ring): reim4 add/mul/add_mul, 1- and 2-column dot products (ref and avx2 operation orders), "
               "windowed convolution (= sum over all index pairs i+j=k, every window incl. empty), fftvec mul/addmul on reim4, reim and cplx layouts "
               "(ref, fma, sse, avx512) equal the complex-arithmetic definition for every length incl. 0; SIMD = reference in exact arithmetic. "
               "rounding (standard model, unit roundoff u): 1-column dot product in reference and AVX2 order and the convolution window are within "
               "((1+u)^(n+2)-1)*sum(|a c|+|b d|) of the exact sums",
        not_proved="that binary64 (Spq.F64) satisfies the standard model on the inputs at hand (no overflow/underflow) is not proved: the rounding "
                   "bound is tied to the real code by the r4_arith oracle ((n+2)*2^-52*sum|u||v| against long double) and the bit-exact model; "
                   "no error theorem for the 2-column products and the pointwise fftvec kernels (2-3 roundings each); "
                   "partial overlap of source and destination is not modelled",
        assumptions=COMMON_ASSUME,
    ),
    "C18": dict(
        title="Read-only operands are never modified",
        module="SpqProofs.Properties.C18",
        streams=dict(quick=[("vz_box", "plain"), ("vz_norm", "plain"), ("md_prod", "plain"), ("md_vmp", "plain"), ("md_ntt", "plain")],
                     thorough=[("vz_box", "plain"), ("vz_norm", "plain"), ("md_prod", "plain"), ("md_vmp", "plain"), ("md_ntt", "plain")]),
        proved="unconditional frame theorems: only the nn cells of the first rsz output limbs can change (any offsets, strides, overlap); hence every source cell not aliased with the output, including stride padding, is unchanged",
        not_proved="module tables / prepared objects of the DFT, SVP and VMP paths are covered by the module-level streams (byte snapshots), not yet by theorems",
        level_text="Lean 4 frame theorems for every vec_znx operation with no hypotheses on offsets/strides; whole-arena byte comparison against the real code",
        design_ref="DESIGN.md §5 C18",
    ),
}

for _p in PROPS.values():
    _p.setdefault("variants", {"plain": None})
    _p.setdefault("assumptions", COMMON_ASSUME)
