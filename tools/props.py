"""Per-property configuration of the checks (streams, proof module, generated facts, notes)."""

COMMON_ASSUME = [
    "the hand-written Lean model is tied to the code only by the correspondence streams (differential execution bounded by generator quality) and, where listed, by facts regenerated from the source on every run",
    "compiler (gcc -O2) and the project's per-file ISA flags are part of the modelled object",
]

PROPS = {
    "C01": dict(
        title="FFT64 negacyclic product is exact within the documented precision budget",
        module="SpqProofs.Properties.C01",
        extra_modules=["SpqProofs.Properties.Closed", "SpqProofs.Properties.C01Err", "SpqProofs.Properties.ErrWitness", "SpqProofs.Properties.BridgeFft"],
        streams=dict(quick=[("md_model", "plain"), ("md_prod", "plain"), ("md_prog", "plain"), ("md_vmp", "plain"), ("ff_tables", "plain"), ("huge_span", "plain")],
                     thorough=[("md_model", "plain"), ("md_prod", "plain"), ("md_prog", "plain"), ("md_vmp", "plain"), ("ff_tables", "plain"), ("huge_span", "plain")]),
        proved="exact-arithmetic part (product_exact_arith, rows_zero) on the module-level model instantiated with a commutative ring: "
               "eval_nmul (evaluation at any z with z^N = -1 is multiplicative for the negacyclic coefficient formula, every N, every commutative ring); "
               "reim_eval (N = 2m real coefficients at z with z^m = i = the m complex numbers a_k + i a_{k+m}); "
               "small_product_exact (fft64_znx_small_single_product = nmul as integer arrays, every nn = 2m >= 2, both mul flavours) and "
               "svp_exact / rows_zero (svp_prepare + svp_apply_dft + vec_znx_idft: limb i < min(rsz, asz) = pol * vec_i, all other output limbs exactly zero, "
               "all limb counts incl. 0, all strides) under the explicit hypotheses H1-H4 on the abstract conversion/FFT pieces (ExactDft) and the dispatch "
               "invariants (ExactArith: FMA pointwise kernels only when 4 | m); hypotheses shown satisfiable (Gaussian integers, nn = 2) NON-VACUITY (Properties/ErrWitness.lean): at N = 8 (m = 4, K = R, zeta = exp(i pi/8)) with the library's ACTUAL stored twiddle patterns and the configuration it installs on this host, every hypothesis of reim_fft_err / reim_ifft_err, small_product_err / _exact, vmp_exact (2x1) and roundtrip_exact (CfgOk, 3.5u accuracy of both tables proved from rational enclosures of cos/sin(pi/8), flags by evaluation, budget) is discharged on concrete integer inputs and the conclusions are evaluated (witness_*_k2); not covered by a witness: the cplx-layout error theorems, svp_err / vmp_err and the C16Err2 budgets; the table patterns and the configuration in the witness are literals read from the library once, not regenerated per run.",
        not_proved="END-TO-END BINARY64 (Properties/C01Err.lean, about the bit-exactly validated model function smallProduct (Cfg.parts c)): every output "
                   "coefficient is an integer within E' + 1/2 of the exact negacyclic product with E' = 12*log2(N)*2^-53*(|a|_1 |b|_2 + |a|_2 |b|_1) for N <= 131072, "
                   "and the result IS the exact product whenever E' < 1/2 (small_product_err_partial, small_product_exact_f64_partial, _prop_partial with the "
                   "property's own preconditions; same per row for svp_prepare + svp_apply_dft + idft). PROVED CONSTANT 12, NOT THE PROPERTY'S 8: the composition of "
                   "C06Err's per-transform bound (1+8u)^k - 1 over two forward and one inverse transform is tight at (3/2)*8; 8 would need a per-level constant "
                   "<= 16/3 u, which the measured twiddle error 3.11u does not allow by this route; the property's E (constant 8) is checked on every run by the "
                   "md_prod oracle (__int128 schoolbook). Remaining explicit hypotheses: twiddle accuracy 3.5u of both tables (measured every run by ff_tables, "
                   "libm not proved) and PipeOk = no overflow / no inexact underflow in the flagged run (not discharged from the magnitude box). "
                   "H1-H4 of Properties/C01.lean are discharged in Properties/Closed.lean for the real network in exact arithmetic. Zero rows of the SVP pipeline in "
                   "binary64: proved (C02Err.svp_zero_rows_f64); the overflow half of PipeOk is discharged from the magnitude box (C02Err.no_overflow_of_box, small_product_exact_f64_noovf_partial): only the underflow side condition remains",
        level_text="Lean 4 theorems (exact arithmetic, all N, all limb shapes) over the bit-exactly validated module model, unconditional for the real FFT network (Closed); "
                   "end-to-end binary64 rounding budget and exactness theorem with constant 12 instead of the property's 8 (partial), the property's constant by differential oracle",
        design_ref="DESIGN.md §5 C01",
        technique="Lean 4 proof (polynomial evaluation homomorphism, exact ring instance of the polymorphic model) + bit-exact correspondence of the binary64 instance",
        assumptions=COMMON_ASSUME + ["H1-H4 (ExactDft) for the exact-arithmetic instance: discharged by C06/C14, not in this file",
                                     "binary64 instance Cfg.parts = real library (md_model stream, bit-exact, both dispatch masks)"],
    ),
    "C02": dict(
        title="Vector-matrix product (VMP) equals the naive polynomial product for all shapes",
        module="SpqProofs.Properties.C02",
        extra_modules=["SpqProofs.Properties.Closed", "SpqProofs.Properties.C02Err", "SpqProofs.Properties.ErrWitness", "SpqProofs.Properties.BridgeFft"],
        streams=dict(quick=[("md_model", "plain"), ("md_vmp", "plain"), ("md_prog", "plain"), ("ff_tables", "plain")],
                     thorough=[("md_model", "plain"), ("md_vmp", "plain"), ("md_prog", "plain"), ("ff_tables", "plain")]),
        proved="vmp_layout (layout_inverse): for ANY fft/fromZnx, in exact arithmetic, vmp_apply_dft_to_dft(vmp_prepare(M)) column j < min(ncols, rsz), "
               "complex t = sum_{i < min(nrows, asz)} adft_i[t] * fft(M[i][j])[t], columns >= min(ncols, rsz) exactly zero, output size rsz*nn; both prepared "
               "layouts (nn >= 8: reim4 blocks, column pairs, lone last column, last computed column half of a pair; nn < 8: column-major), both vmpAvx flavours, "
               "mul/addmul ref and fma, every nrows, ncols, asz, rsz >= 0; vmp_exact: under H1-H4 the inverse DFT of vmp_apply_dft is column j = "
               "sum_i a_i * M[i][j] in Z[X]/(X^nn+1), other limbs zero; vmp_apply_dft_eq: vmp_apply_dft = vmp_apply_dft_to_dft o vec_znx_dft as arrays for "
               "any carrier (binary64 included) and any prepared matrix (apply reads only min(nrows, asz) rows) NON-VACUITY (Properties/ErrWitness.lean): at N = 8 (m = 4, K = R, zeta = exp(i pi/8)) with the library's ACTUAL stored twiddle patterns and the configuration it installs on this host, every hypothesis of reim_fft_err / reim_ifft_err, small_product_err / _exact, vmp_exact (2x1) and roundtrip_exact (CfgOk, 3.5u accuracy of both tables proved from rational enclosures of cos/sin(pi/8), flags by evaluation, budget) is discharged on concrete integer inputs and the conclusions are evaluated (witness_*_k2); not covered by a witness: the cplx-layout error theorems, svp_err / vmp_err and the C16Err2 budgets; the table patterns and the configuration in the witness are literals read from the library once, not regenerated per run.",
        not_proved="BINARY64 (Properties/C02Err.lean, about the bit-exactly validated model functions): every coefficient of column j of idft(vmp_apply_dft(prepare M)) is an integer "
                   "within E_sum + 1/2 of the exact sum_i a_i*M[i][j], E_sum = (12 log2(N) + 2n + 3) 2^-53 sum_i (|a_i|_1 |M_ij|_2 + |a_i|_2 |M_ij|_1), n = min(nrows, a_size): the C01Err "
                   "budget per row (constant 12, not the property's 8: hence _partial) plus an explicit accumulation term; exact integer result when E_sum < 1/2 (vmp_exact_f64_partial); "
                   "columns >= min(ncols, res_size) exactly zero in binary64, unconditionally (vmp_zero_cols_f64); dot-product kernels (ref/avx2, 1 and 2 columns, nn<8 chain) with "
                   "gamma(n) = (1+u)^(2n+2)-1; prepare/apply layout for an arbitrary arithmetic record (vmp_layout_f64); no overflow from the magnitude box (vmp_no_overflow_of_box). "
                   "Remaining explicit hypotheses: twiddle accuracy 3.5u and |stored twiddle| <= 1 (measured by ff_tables, libm not proved), and the underflow side condition of the "
                   "flagged run. H1-H4 discharged in Closed (vmp_closed). Scratch-space split of vmp_apply_dft (tmp_space offsets) is not modelled at heap level (C11 sanitizer stream)",
        level_text="Lean 4 theorems: address arithmetic of prepare/apply for every shape and both layouts (unconditional in exact arithmetic), exact product "
                   "unconditional for the real network (Closed); binary64 summed rounding budget and exactness with constant 12 instead of 8 (partial); bit-exact correspondence of the binary64 instance on shape boxes incl. sizes 0",
        design_ref="DESIGN.md §5 C02",
        technique="Lean 4 proof (slot-injectivity of the prepared layout, loop invariants over the block/column/row loops) + bit-exact correspondence",
        assumptions=COMMON_ASSUME + ["H1-H4 (ExactDft) for vmp_exact only; vmp_layout and vmp_apply_dft_eq need no FFT hypothesis",
                                     "binary64 instance Cfg.parts = real library (md_model stream)"],
    ),
    "C03": dict(
        title="NTT120 transform is an exact, invertible negacyclic transform on all 64-bit data",
        module="SpqProofs.Properties.C03",
        extra_modules=["SpqProofs.Properties.C03Mod"],
        gen=["q120ntt", "q120"],
        streams=dict(quick=[("qn_tables", "plain"), ("qn_ntt", "plain"), ("md_ntt", "plain"), ("mn_model", "plain")],
                     thorough=[("qn_tables", "plain"), ("qn_ntt", "plain"), ("qn_stages", "plain"), ("md_ntt", "plain"), ("mn_model", "plain")]),
        proved="mixed level-by-level/block schedule = plain level schedule for every split; under a kernel-checked no-wrap certificate on the metadata extracted from the live precomputation, every output lane equals the exact transform in ZMod q_j for every 64-bit input, n = 2^k <= 2^16; intt(ntt x) = x mod q_j; linearity; output j = evaluation at w^(2 brev(j)+1); pointwise products invert to the negacyclic convolution",
        not_proved="module level now proved (Properties/C03Mod.lean, model Spq.ModuleNtt tied bit-exactly by stream mn_model): ntt120 vec_znx_dft -> vec_znx_idft / _tmp_a / in place returns every int64 limb vector exactly, zero-extended or truncated, for every k <= 16, limb counts and strides (ntt120_dft_idft_roundtrip, _tmp_a_, _inplace_); in place = out of place for any tables and buffer content; the DFT limb is the vector of evaluations mod each prime and products in DFT space lift to the exact negacyclic product whenever it fits the centred range (ntt120_dft_product_is_negacyclic). Remaining: the 4 AVX2 lanes are modelled as 4 independent scalar lanes (tied by the streams); the NTT120 module has no svp/vmp entries, so the product theorem is not attached to an API call; _tmp_a with res == a_dft and the content of tmp after the call are outside the model",
        level_text="Lean 4 theorems (refinement to the exact ZMod transform, round trip, evaluation and convolution) over a model whose per-level metadata is regenerated from the live precomputation every run; raw-lane bit-exact correspondence for n = 1..65536 on worst-case lane patterns",
        design_ref="DESIGN.md §5 C03",
        technique="Lean 4 proof (level induction, ZMod refinement) + kernel-decided certificate on regenerated metadata + correspondence",
        assumptions=COMMON_ASSUME + ["real powomega tables = model tables (qn_tables stream, exhaustive per n)", "Gen/Q120Meta re-extracted every run"],
    ),
    "C04": dict(
        title="q120 lazy modular arithmetic never wraps 64 bits on any in-range operand",
        module="SpqProofs.Properties.C04",
        gen=["q120", "q120ntt"],
        streams=dict(quick=[("qn_stages", "plain"), ("qn_ntt", "plain"), ("q1_prod", "plain"), ("cv_naive", "plain")],
                     thorough=[("qn_stages", "plain"), ("qn_ntt", "plain"), ("q1_prod", "plain"), ("qn_ntt", "asan"), ("q1_prod", "asan"), ("cv_naive", "plain")]),
        variants={"plain": None, "asan": None},
        proved="symbolic soundness of the per-level exact-interval certificate (any metadata, any number of levels) and of the two-accumulator product kernels (any length <= N under decidable bound predicates); kernel-decided on the metadata / split points / primes / MAX_ELL read back from the live objects every run: NTT and iNTT never wrap for n = 2^1..2^16 on arbitrary 64-bit lanes and are congruent to the exact transform; products are exact modulo each prime (the accumulator and 32-bit-operand invariants are lemmas in C04Products, exported through the congruence theorems, not separate property statements) for ell <= 10000 on every in-layout operand, every mul_epu32 operand fits 32 bits, AVX2 = reference word for word",
        not_proved="the 4 AVX2 lanes are modelled as 4 independent scalar lanes and the reference j-inner loop as lane-wise folds (tied bit-exactly by the streams on worst-case operands and by per-stage maxima in qn_stages); 29/31-bit prime builds are informational only (agent D confirmed on the real code that the 31-bit set breaks the AVX2 a*a kernel and makes baaAvxOK fail)",
        level_text="Lean 4 theorems (certificate soundness by induction on the level list; accumulator invariants by induction on the terms) + kernel-decided obligations on constants regenerated from the live library every run; raw-lane bit-exact correspondence on extremal operands and per-stage maxima",
        design_ref="DESIGN.md §5 C04",
        technique="Lean 4 proof + kernel-decided certificate on regenerated facts + correspondence",
    ),
    "C05": dict(
        title="Base-2^k normalization yields the unique balanced digit expansion",
        module="SpqProofs.Properties.C05",
        variants={"plain": None, "asan": None},
        extra_modules=["SpqProofs.Properties.SrcNorm", "SpqProofs.Properties.SrcVecNorm"],
        gen=["csrc"],   # tools/c2lean.py: spqlios/coeffs/coeffs_arithmetic.c -> lean/Gen/CSrc.lean (clang JSON AST -> Spq.CIR terms)
        streams=dict(quick=[("kz_norm", "plain"), ("vz_norm", "plain"), ("cs_norm", "plain"), ("cs_vnorm", "plain")], thorough=[("kz_norm", "plain"), ("vz_norm", "plain"), ("vz_box", "plain"), ("cs_norm", "plain"), ("cs_norm", "asan"), ("cs_vnorm", "plain"), ("cs_vnorm", "asan")]),
        proved="digit/carry = balanced residue / exact quotient (all k in [1,62], |x|,|cin| <= 2^62, no wrap); per-coefficient chain = balancedDigits (existence, value identity, uniqueness); heap-level normalize_spec for all nn, k, limb counts incl. 0, strides, in place or disjoint, frame, bounds flag; big and range variants SOURCE TIE (Properties/SrcNorm.lean): the C source of znx_normalize (helpers inlined), translated on every run, is proved equal to the model function in its six pointer shapes for every nn, 1 <= k <= 63, exact-size buffers and any exact aliasing of out/carry_out with in/carry_in (out != carry_out). WRAPPER (Properties/SrcVecNorm.lean): the C source of vec_znx_normalize_base2k_ref (early returns, pointer locals, signed downward loops calling the generated znx_normalize term with null / limb / scratch pointers, zero extension), translated on every run, simulates VecZnx.normalize on an arena: the final arena is the model heap except for the nn-cell scratch window (1 <= k <= 63, per-limb identical-or-disjoint windows, scratch disjoint from all limbs), no out-of-bounds access from the declared extents; vec_znx_normalize_base2k_tmp_bytes_ref = 8*nn.",
        not_proved="nothing of the statement is left unproved at model level; the argument shapes of znx_normalize are one model function (the shapes differ only in what is stored): six shapes are proved equal to the translated source (SrcNorm), all shapes and aliasing patterns are run by the kz_norm stream; SrcVecNorm needs nn < 2^61 and limb counts < 2^63",
        level_text="Lean 4 theorems: balanced base-2^k expansion (value, range, uniqueness) for every k, limb count and stride; model tied to the code by exhaustive small boxes and boundary carry chains, bit-exact",
        design_ref="DESIGN.md §5 C05",
    ),
    "C06": dict(
        title="reim/cplx FFT and iFFT equal the mathematical transform, in documented order",
        module="SpqProofs.Properties.C06",
        extra_modules=["SpqProofs.Properties.Numerics", "SpqProofs.Properties.C06Err", "SpqProofs.Properties.ErrWitness"],
        streams=dict(quick=[("ff_fft", "plain"), ("ff_cfft", "plain"), ("ff_crafted", "plain"), ("ff_ccrafted", "plain"), ("ff_tables", "plain"), ("cv_naive", "plain")],
                     thorough=[("ff_fft", "plain"), ("ff_cfft", "plain"), ("ff_crafted", "plain"), ("ff_ccrafted", "plain"), ("ff_tables", "plain"), ("cv_naive", "plain")]),
        proved="exact arithmetic, every m = 2^k (all k), reim and cplx layouts, reference and FMA/assembly schedules alike (the same network code as the bit-exact model, instantiated with a commutative ring with I^2=-1, zeta^m=I and the exact table = transcription of the fill_* functions): forward output j = evaluation of the input polynomial at zeta^(1+4*bitrev_k(j)); the inverse applied to exact evaluations returns m times the coefficients; ifft o fft = m.id for any pairing of implementations NON-VACUITY (Properties/ErrWitness.lean): at N = 8 (m = 4, K = R, zeta = exp(i pi/8)) with the library's ACTUAL stored twiddle patterns and the configuration it installs on this host, every hypothesis of reim_fft_err / reim_ifft_err, small_product_err / _exact, vmp_exact (2x1) and roundtrip_exact (CfgOk, 3.5u accuracy of both tables proved from rational enclosures of cos/sin(pi/8), flags by evaluation, budget) is discharged on concrete integer inputs and the conclusions are evaluated (witness_*_k2); not covered by a witness: the cplx-layout error theorems, svp_err / vmp_err and the C16Err2 budgets; the table patterns and the configuration in the witness are literals read from the library once, not regenerated per run.",
        not_proved="rounding bound: PROVED (C06Err) for all four binary64 drivers - reim and cplx layout, forward and inverse, reference and FMA/assembly schedules, every m = 2^k: sum |out_j - exact_j|^2 <= ((1+8u)^k - 1)^2 sum |exact_j|^2, and <= (8 log2(2m) u)^2 for m <= 65536, under two explicit hypotheses: stored twiddles within 3.5*2^-53 of the exact roots (libm cos/sin accuracy is measured on every run, <= 3.11*2^-53 on all 571288 entries, not proved) and no overflow / inexact underflow in any intermediate operation (flags of the flagged run; the statement is false in the underflow range, stream class 'tiny'); the hand-written assembly is tied by bit-exact streams only; read-only tables: covered by C18/C15",
        level_text="Lean 4 theorems for the exact-arithmetic FFT/iFFT network of every size and both layouts, and the binary64 rounding bound of the property for the reim and cplx forward and inverse transforms; bit-exact differential streams against reference C, AVX2/FMA C and the assembly leaves for every m = 1..65536 with a __float128 evaluation oracle and the property's 2-norm bound; real drivers also run on crafted small-dyadic tables (signed-zero sensitivity); all table entries checked against quad-precision cos/sin",
        design_ref="DESIGN.md §5 C06",
    ),
    "C07": dict(
        title="Accelerated kernels compute the same function as their reference kernels",
        module="SpqProofs.Properties.C07",
        extra_modules=["SpqProofs.Properties.Cover", "SpqProofs.Properties.SrcAvx", "SpqProofs.Properties.SrcVecAvx"],
        gen=["dispatch", "csrc"],
        streams=dict(quick=[("vz_box", "plain"), ("r4_layout", "plain"), ("r4_arith", "plain"), ("q1_prod", "plain"), ("ff_fft", "plain"), ("md_model", "plain"), ("md_prod", "plain"), ("md_vmp", "plain"), ("cv_rnx", "plain"), ("cv_cplxvec", "plain"), ("big_align", "plain"), ("cs_avx", "plain"), ("cs_vavx", "plain")],
                     thorough=[("vz_box", "plain"), ("r4_layout", "plain"), ("r4_arith", "plain"), ("q1_prod", "plain"), ("ff_fft", "plain"), ("md_model", "plain"), ("md_prod", "plain"), ("md_vmp", "plain"), ("cv_rnx", "plain"), ("cv_cplxvec", "plain"), ("big_align", "plain"), ("cs_avx", "plain"), ("cs_vavx", "plain")]),
        proved="Gen obligation: every kernel the live library installs (every constructor and module-table entry, 5 CPU masks, m = 2^0..2^16) belongs to its listed equivalence class; SOURCE TIE (Properties/SrcAvx.lean, SrcVecAvx.lean): the C source of znx_add/sub/negate_i64_avx and of vec_znx_add/sub/negate_avx, translated on every run with the AVX2 intrinsics as 4x64 / 2x64 lane primitives, is proved equal to the model AND to the generated term of the reference kernel / wrapper for every nn the kernel accepts (nn = 1, 2 or a positive multiple of 4), exact aliasing or disjoint buffers, no out-of-bounds access (streams cs_avx, cs_vavx validate translator + interpreter against the compiled code); the older hand model Spq.CoeffsAvx theorems (znx_*_avx_eq_ref) are kept; family theorems imported: reim4/reim/cplx products ref = avx2/fma/sse/avx512 in exact arithmetic and layout kernels equal (C17), q120 AVX2 = reference word for word (theorems of C10/C04, which are obligations of those checks, not of this one)",
        not_proved="float kernels of different variants differ by rounding: each variant is tied bit-exactly to its own model and to the exact-arithmetic definition, not to each other; AVX-512 FFT (cplx_fft_avx512) is not reached by any constructor on this dispatch table and is not modelled",
        level_text="kernel-decided dispatch-closure obligation on the table read back from the live library + Lean equivalence theorems per kernel family + pairwise bit-exact correspondence under both dispatch masks",
        design_ref="DESIGN.md §5 C07",
        technique="Lean 4 proof + kernel-decided obligation on regenerated dispatch facts + correspondence",
    ),
    "C08": dict(
        title="vec_znx size/stride semantics",
        module="SpqProofs.Properties.C08",
        variants={"plain": None, "asan": None},
        extra_modules=["SpqProofs.Properties.SrcElem", "SpqProofs.Properties.SrcVec"],
        gen=["csrc"],   # tools/c2lean.py: spqlios/coeffs/coeffs_arithmetic.c -> lean/Gen/CSrc.lean (clang JSON AST -> Spq.CIR terms)
        streams=dict(quick=[("vz_box", "plain"), ("cs_elem", "plain"), ("huge_span", "plain"), ("cs_vec", "plain")], thorough=[("vz_box", "plain"), ("cs_elem", "plain"), ("cs_elem", "asan"), ("huge_span", "plain"), ("cs_vec", "plain"), ("cs_vec", "asan")]),
        proved="value + frame + bounds-flag theorems for zero/copy/negate/add/sub/rotate/automorphism and the big wrappers, for all nn, limb counts incl. 0, strides >= nn, offsets, heap contents, aliased or disjoint sources; int64 zero-extension corollaries SOURCE TIE (Properties/SrcElem.lean): the C source of znx_add/sub/negate/copy/zero_i64_ref, translated on every run by tools/c2lean.py into a deep-embedded term, is proved equal to the model function for every nn and any aliasing, with no out-of-bounds access. WRAPPERS (Properties/SrcVec.lean): the C source of vec_znx_zero/copy/negate/add/sub/rotate/automorphism_ref (loops over limbs, per-limb pointer-equality tests selecting the in-place kernels, calls of the generated kernel terms with p + i*sl pointers, zero extension), translated on every run, is proved equal to the HEAP model VecZnx.* that the theorems of this file are about, on an arena with windows (offset, stride), for all nn < 2^61, limb counts incl. 0 and strides, per-limb identical-or-disjoint windows (under partial overlap of a result limb with a source limb the model does not describe the code); rotate/automorphism: nn = 2^t, automorphism odd p; with no out-of-bounds access (composes with the *_no_fault / *_spec theorems above).",
        not_proved="AVX lane chunking: proved from the translated source for add/sub/negate (SrcVecAvx, an obligation of C07); the other AVX paths are tied by the correspondence on the avx variants and the dispatch masks",
        level_text="Lean 4 theorems over the heap model of vec_znx: value, frame and bounds for all sizes (incl. 0), strides, dimensions and contents; model tied to /repo by bit-exact whole-arena differential runs (canary padding, all size orderings, both module types and dispatch masks)",
        design_ref="DESIGN.md §5 C08",
    ),
    "C09": dict(
        title="Rotation, automorphism and (X^p-1) product are the ring maps for every p",
        module="SpqProofs.Properties.C09",
        variants={"plain": None, "asan": None},
        extra_modules=["SpqProofs.Properties.SrcRot", "SpqProofs.Properties.Bridge", "SpqProofs.Properties.SrcAutIn"],
        gen=["csrc"],   # tools/c2lean.py: spqlios/coeffs/coeffs_arithmetic.c -> lean/Gen/CSrc.lean (clang JSON AST -> Spq.CIR terms)
        streams=dict(quick=[("kz_probe", "plain"), ("kz_f64", "plain"), ("vz_box", "plain"), ("cs_rot", "plain")], thorough=[("kz_probe", "plain"), ("kz_f64", "plain"), ("vz_box", "plain"), ("md_prog", "plain"), ("cs_rot", "plain"), ("cs_rot", "asan")]),
        proved="rotate/mulxp/automorphism (out of place) equal the closed coefficient formulas of X^p·a, X^p·a − a, a(X^p) for every nn, every p in Z (automorphism: nn = 2^t, odd p; result independent of prior output); in-place rotation and (X^p−1) equal the out-of-place maps for EVERY nn and p with the model's fuel proved sufficient; in-place automorphism equals the out-of-place one for every nn = 2^t (t ≤ 64: the C contract) and odd p, via (Z/2^t)^× = <−1>×<5>; composition laws (additive / multiplicative mod 2N) SOURCE TIE (Properties/SrcRot.lean): the C source of znx/rnx rotate, mul_xp_minus_one, automorphism (out of place) and of the in-place rotate / mul_xp_minus_one cycle walks, translated on every run, is proved equal to the model functions for nn = 2^t, every p (termination of the do-while walks proved). Properties/SrcAutIn.lean: the C source of znx_automorphism_inplace_i64 / rnx_automorphism_inplace_f64 (the five-way per-level case split and paired orbit walks), translated on every run, equals Coeffs.automorphismInplace for nn = 2^t (t <= 62), odd p, with termination (fuel 3nn+64) and no out-of-bounds access: all 17 translated kernels now have a for-all theorem.",
        not_proved="the closed coefficient formulas of rotation / automorphism / X^p-1 are tied to Mathlib's AdjoinRoot (X^N+1) in Properties/Bridge.lean (an obligation of this check); double-precision variants are the same polymorphic definitions; their C source is proved equal to the model in SrcRot / SrcAutIn (cells as opaque patterns) and they run in the probe streams",
        level_text="Lean 4 theorems for all N and all p, including the in-place cycle-leader walks (termination proved) and the 2-adic orbit structure of the in-place automorphism; exhaustive injective-probe correspondence with the real int64 and double kernels",
        design_ref="DESIGN.md §5 C09",
        technique="Lean 4 proof (orbit/induction arguments, Mathlib ZMod units) + exhaustive probe correspondence",
    ),
    "C10": dict(
        title="q120 products and layout conversions are exact modulo the 120-bit modulus",
        level_text="Lean 4 theorems: every product kernel (reference and AVX2) exact modulo each prime for all ell <= 10000 and all in-layout operands under kernel-decided bound predicates on constants read back from the live precomputations; conversions congruent; centred CRT lift unique; int64 round trip; bit-exact correspondence on extremal operands",
        design_ref="DESIGN.md §5 C10",
        module="SpqProofs.Properties.C10",
        extra_modules=["SpqProofs.Properties.SrcQ120", "SpqProofs.Properties.SrcQ120X2"],
        variants={"plain": None},
        gen=["q120", "csrc"],   # tools/gen_q120.py: lean/Gen/Q120Consts.lean + lean/Gen/ProdPrecomp.lean
        streams=dict(quick=[("cs_q120", "plain"), ("q1_prod", "plain"), ("q1_conv", "plain"), ("cv_q120old", "plain"), ("huge_span", "plain")],
                     thorough=[("cs_q120", "plain"), ("q1_prod", "plain"), ("q1_conv", "plain"), ("cv_q120old", "plain"), ("huge_span", "plain")]),
        proved="for the constants extracted from the code this run (primes, CRT constants, MAX_ELL, live product precomputations): "
               "every q120 product kernel (a*a, b*b, b*c, x2 one/two columns; reference and AVX2) returns lanes congruent to the exact dot "
               "product modulo each prime for all ell <= MAX_ELL and all operands of the layout (b: any 64-bit lane), with no 64-bit wrap and no "
               "mul_epu32 truncation, ref == avx2 bit for bit; int64->b, int64->c, b->c, b+b, c+c are congruent/exact for all inputs; b->int128 is "
               "the unique centered representative mod Q (no __int128 overflow); int64->b->int128 is the identity on all int64; block "
               "extract/save are mutually inverse for every block index. SOURCE TIE (Properties/SrcQ120.lean, SrcQ120X2.lean): the C source of "
               "the REFERENCE kernels q120_vec_mat1col_product_baa/bbb/bbc_ref, q120x2_vec_mat1col/mat2cols_product_bbc_ref, the three block "
               "extract/save functions and q120_b_from_znx64/c_from_b/add_bbb/add_ccc_simple, translated on every run by tools/c2lean.py "
               "(local arrays, uint32 views of 64-bit cells, inlined static helpers, the precomputation struct as a buffer of cells), is proved "
               "equal to the model functions of lean/Spq/Q120.lean these theorems are about, for every ell / nn (0 included, ell < 2^59), all operand "
               "words and EVERY precomputation content with h < 64, exact-size buffers, result buffer different from the precomputation buffer, with no out-of-bounds access; the stream cs_q120 "
               "runs the generated terms against the compiled functions on the LIVE precomputation objects",
        not_proved="the model is lane-wise (one fold per output lane): for the REFERENCE kernels this is now a theorem about the translated C source, "
                   "for the AVX2 kernels it is tied by the bit-exact streams q1_prod/q1_conv; q120_b_to_znx128_simple (__int128) and q120_c_from_znx64_simple (signed %) are not translated; the floating-point search choosing the split point h is not modelled (its result "
                   "is extracted from the live precomp object and checked by the decidable predicates); _avx block extract/save variants and "
                   "q120x2_extract_1blk_from_q120c_ref (an alias) are not streamed",
        assumptions=COMMON_ASSUME + ["little-endian uint32 view of uint64 lanes (x86-64)"],
    ),
    "C11": dict(
        title="Memory contract: declared extents and *_tmp_bytes scratch are never exceeded",
        module="SpqProofs.Properties.C11",
        also_tags=["C18"],   # frame verdicts of mh_arena (a write outside result and scratch) are memory-contract violations too
        extra_modules=["SpqProofs.Properties.ModHeap", "SpqProofs.Properties.SrcMod", "SpqProofs.Properties.SrcModVmp"],
        gen=["tmpbytes", "csrc"],   # csrc: tools/c2lean.py translates vec_znx_dft.c / scalar_vector_product.c / znx_small.c / vector_matrix_product.c (addressing only)
        variants={"plain": None, "asan": None},
        streams=dict(quick=[("mem_pairs", "asan"), ("vz_box", "asan"), ("vz_norm", "asan"), ("kz_probe", "asan"), ("kz_norm", "asan"), ("ca_prog", "asan"), ("md_prod", "asan"), ("md_vmp", "asan"), ("md_ntt", "asan"), ("cv_misc", "asan"), ("cv_rnx", "asan"), ("cv_cplxvec", "asan"), ("ca_small", "asan"), ("big_align", "asan"), ("cv_misc", "plain"), ("mh_arena", "plain"), ("cs_mod", "plain"), ("mh_arena", "asan"), ("small_stack", "plain"), ("huge_span", "plain"), ("ca_bigdim", "asan")],
                     thorough=[("mem_pairs", "asan"), ("vz_box", "asan"), ("vz_norm", "asan"), ("kz_probe", "asan"), ("kz_norm", "asan"), ("ca_prog", "asan"), ("md_prod", "asan"), ("md_vmp", "asan"), ("md_ntt", "asan"), ("cv_misc", "asan"), ("cv_rnx", "asan"), ("cv_cplxvec", "asan"), ("ca_small", "asan"), ("big_align", "asan"), ("cv_misc", "plain"), ("mh_arena", "plain"), ("cs_mod", "plain"), ("mh_arena", "asan"), ("small_stack", "plain"), ("huge_span", "plain"), ("ca_bigdim", "asan")]),
        proved="index logic of every limb-vector operation: declared extents inside the heap imply no out-of-bounds access of the model (all shapes incl. zero limb counts), frame theorems (C18) bound the writes, scratch of the normalisation = one carry limb = *_tmp_bytes; Gen obligation: size formulas = live *_tmp_bytes / bytes_of_* values over a shape box (nn in {2,4,8,16,64,4096,65536}, sizes in {0,1,2,5}) MODULE LAYER (Properties/ModHeap.lean, heap-level model Spq.ModuleHeap tied bit-exactly by stream mh_arena): for vec_znx_dft, vec_znx_idft (in place or not), idft_tmp_a, svp_prepare, svp_apply_dft, znx_small_single_product, vmp_prepare_contiguous, vmp_apply_dft_to_dft and vmp_apply_dft, for all nn, limb counts incl. 0, strides and matrix shapes: when the caller provides the regions of the C contract and exactly *_tmp_bytes(shape) bytes of scratch (formulas of Spq.TmpBytes = live values, Gen obligation), no access leaves the declared regions (ok flag kept), incl. the tmp_space split of vmp_apply_dft and the accumulator/extraction buffers of apply_dft_to_dft. SOURCE TIE OF THE MODULE LAYER (Properties/SrcMod.lean, SrcModVmp.lean): the C source of fft64_vec_znx_dft / idft / idft_tmp_a, fft64_svp_prepare_ref / svp_apply_dft_ref, fft64_znx_small_single_product, fft64_vmp_prepare_contiguous_ref, fft64_vmp_apply_dft_to_dft_ref and fft64_vmp_apply_dft_ref (addressing, loops, scratch split; the arithmetic kernels reached through the module's function pointers are opaque calls whose semantics is the kernel record of Spq.ModuleHeap), translated on every run, is proved equal to the Spq.ModuleHeap entry points whenever the model run is fault-free - so the ModHeap theorems (no access outside the declared regions and *_tmp_bytes, frame, in place = out of place) are about what the source says; stream cs_mod runs the generated terms against the real entry points.",
        not_proved="runtime residue observed by ASan/UBSan-bounds/LSan on exactly-sized heap buffers, not proved: accesses inside float kernels and asm leaves, alloc/free pairing of new_*/delete_*, alignment, allocator overflow abort; inside the float kernels (conversion, fft, products) accesses are over-approximated to the whole limb/block they are given; the SOURCE tie of the module layer covers the _ref entry points only: on an AVX2 host the dispatch installs fft64_vmp_*_avx / fft64_svp_apply_dft_avx, whose source is textually the _ref source with other kernel names and is tied by the streams (mh_arena, cs_mod compare the dispatched functions) but not translated; the SrcMod / SrcModVmp theorems hold for one arena of fewer than 2^61 cells, the codec with enc 0 = 0, module->m = nn/2 and a fault-free model run, and are not composed into one corollary with the ModHeap theorems; the reim4 kernels are direct calls (not through the module tables), and the footprints of the opaque kernels in Spq.ModSem (whole limb / block) are assumptions about those kernels",
        level_text="Lean 4 theorems for the index logic (bounds flag, frame, scratch size) + kernel-decided size-formula obligation on live values; the memory-safety residue is tied by sanitizer builds on exact-size buffers (partial)",
        design_ref="DESIGN.md §5 C11",
        technique="Lean 4 proof of the index logic + regenerated size facts; sanitizer-instrumented correspondence",
    ),
    "C12": dict(
        title="Shared modules and precomputed tables are safe for concurrent use",
        module="SpqProofs.Properties.C12",
        extra_modules=["SpqProofs.Properties.C12Warm"],
        gen=["globals", "caches"],
        variants={"plain": None, "tsan": None},
        streams=dict(quick=[("mt_module", "plain"), ("mt_module", "tsan"), ("ca_prog", "plain")],
                     thorough=[("mt_module", "plain"), ("mt_module", "tsan"), ("ca_prog", "plain")]),
        proved="(1) read-only threads: for every interleaving the shared memory is unchanged and every thread observes what it observes solo; (2) Gen obligation re-decided by the kernel on every run: the call-graph closure (indirect calls over-approximated) of every exported const MODULE*/const *_PRECOMP* entry point references no shared mutable global; (3) warm-up: a *_simple call after a completed call with the same key performs no write to its cache; (4) shared_caches_keyed_by_dimension_only: every convenience cache that is not thread-local is keyed by the dimension alone (kernel-decided on the extracted structure), which is what the warm-up protocol needs; (5) Properties/C12Warm.lean, for every extracted cache that is not thread-local: Warm D (one completed call per dimension of D, any history of calls with power-of-two dimensions) is preserved by every step, and every later call with m in D and ARBITRARY other arguments rebuilds nothing, writes no slot, leaves the cache state unchanged and uses the table built for its m (warmup_no_shared_write, _seq, warmup_from_history); lifted to threads whose atomic actions are convenience calls executed by the real step (warmup_schedule_indep: every schedule leaves the shared cache unchanged, per-thread observations = solo); thread-local caches work on a per-thread object (tls_rows_private, tls_schedule_indep)",
        not_proved="real weak-memory interleavings, compiler reordering and the first-use race of the *_simple functions are runtime behaviour: exhibited by the ThreadSanitizer stream (16 threads, fresh and warmed-up), not by a theorem; extraction of the call graph / global references from the object files is trusted; SCOPE of obligation (2): static-storage objects only - a write through the const MODULE* / const *_PRECOMP* pointer into the heap object itself (lazily filled field, cast-away const) is excluded by no theorem, only by the TSan stream and the byte snapshots of C18; the q120 product kernels take a non-const precomp pointer and are roots since the extraction also accepts non-const *_precomp first parameters; mt_module exercises the module-level entry points, the big-coefficient wrappers, prepare/apply, and every table-based kernel family (fftvec products, conversions, FFT/iFFT, q120 products and NTT) on shared objects, not every exported function; a convenience call is one atomic action in the thread model of C12Warm (two threads inside the warm-up call of the same dimension are outside it: TSan stream); the call-graph extraction does not follow pointers to globals stored in data tables",
        level_text="Lean 4 theorem over sequentially consistent interleavings + kernel-decided obligation on the call graph and global-reference sets extracted from the freshly built objects; TSan and per-thread-vs-solo bitwise streams tie it to the real code (partial: runtime memory model not modelled)",
        design_ref="DESIGN.md §5 C12",
        technique="Lean 4 proof (interleaving induction) + kernel-decided reachability over extracted call graph; TSan correspondence",
    ),
    "C14": dict(
        title="Numeric layout conversions are exact or correctly rounded on their whole domain",
        level_text="Lean 4 theorems on the bit-exact soft-float model (verified pack/decode theory: RNE, exactness, magic-constant additions, rint, quotient by 2^j) for every conversion and variant, all m, including the repaired wide double->int64 kernel (D7) on |x/d| < 2^52 and its exactness up to 2^63; bit-exact correspondence at and around every domain boundary",
        design_ref="DESIGN.md §5 C14",
        module="SpqProofs.Properties.C14",
        gen=["dispatch"],   # C14Sel.to_znx64_constructor_matches_library
        extra_modules=["SpqProofs.Properties.Cover", "SpqProofs.Properties.C14Sel"],
        variants={"plain": None},
        streams=dict(quick=[("f6_conv", "plain"), ("cv_conv32", "plain")], thorough=[("f6_conv", "plain"), ("cv_conv32", "plain")]),
        proved="on the bit-exact soft-float model, for every m (through the loop / shuffle structure of each kernel), every divisor 2^j with finite table constants and every input pattern in the stated magnitude domain: from_znx64 exact (cast and add-2^51/or/sub trick, |x|<2^50); to_znx64 ref (|x/d|<2^63) and bnd50 (|x/d|<2^50) within 1/2 of x/d; cplx_from_znx32 / cplx_from_tnx32 exact for every int32 (ref and AVX2 shuffle kernel); cplx_to_tnx32 ref and AVX2 = round(x*2^32/d) mod 2^32 for |x/d|<2^18; reim_to_tnx ref = avx bit-for-bit and x/d - integer within 2^(L-51), result in [-1/2,1/2), for every log2overhead L<=48 with the table recomputed by the model of the constructor; to_znx64_bnd63 / to_znx64_bnd63_wide: the repaired wide kernel (D7) within 1/2 of x/d for |x/d| < 2^52, ties included, and exact up to 2^63; the pre-repair kernel is kept as bnd63OffsetOld with its kernel-checked counterexample at x = pred(d/2); to_tnx_basic_ref_partial (rint form, exact x/d - n, under a no-underflow hypothesis) Properties/C14Sel.lean: to_znx64_selection (which kernel init_reim_to_znx64_precomp installs, from the model of the constructor), to_znx64_constructor_matches_library (Gen obligation: that model selects the kernel the LIVE library installed, for every row of the regenerated dispatch table with bounds 50/51/52/63 (as generated: 5 CPU masks, m = 2^0..2^16; the theorem itself only guarantees the floor of one reference and one 14-dimension AVX row per bound)) and to_znx64_dispatch (constructor + selected kernel within 1/2 of x/d in one statement for m < 2^32, -1020 <= j <= 971, finite input with |x/d| < 2^min(log2bound, 52); the (2m) % 4 = 0 side condition is derived).",
        not_proved="Inf/NaN inputs are not modelled by Spq.F64 (excluded by the magnitude bounds or by explicit finiteness hypotheses); log2overhead 49..52 are outside the property; to_tnx_basic_ref below the underflow threshold of the quotient (error <= 2^-1075, inside the tolerance) is not covered (_partial); the reim int32 conversions are NOT_IMPLEMENTED stubs in the library (Cover.reim32_all_entry_points_abort)",
        assumptions=COMMON_ASSUME + ["divisor/2., 1./divisor and 2^32/divisor are compiled as IEEE divisions or exact multiplications (bit-identical for powers of two)"],
    ),
    "C15": dict(
        title="Results depend only on arguments: no hidden state, history or alignment",
        module="SpqProofs.Properties.C15",
        extra_modules=["SpqProofs.Properties.ModHeap"],
        gen=["globals", "caches"],
        streams=dict(quick=[("ca_prog", "plain"), ("ca_irrelevant", "plain"), ("vz_box", "plain"), ("md_prod", "plain"), ("md_vmp", "plain"), ("ca_small", "plain"), ("big_align", "plain"), ("cv_misc", "plain"), ("env_state", "plain"), ("ca_bigdim", "plain")],
                     thorough=[("ca_prog", "plain"), ("ca_irrelevant", "plain"), ("vz_box", "plain"), ("vz_norm", "plain"), ("md_prod", "plain"), ("md_vmp", "plain"), ("ca_small", "plain"), ("big_align", "plain"), ("cv_misc", "plain"), ("env_state", "plain"), ("ca_bigdim", "plain")]),
        proved="history independence of every function with function-local static state (structure extracted from the C source each run): after any call sequence the table in use was built with the call's own values of every table-relevant constructor argument; Gen obligations: every constructor argument is in the cache key, every function referencing mutable static storage is a modelled cache; purity shown for add (add_pure) and, through the C08/C13 spec theorems, for the other limb-vector operations (outputs depend on source cells only) Module layer: the ModHeap theorems (obligations of this check too) give the result region of every FFT64 entry point as a function of the source regions only, independent of the previous content of output and scratch. extraction_nonvacuous: the extraction found at least 15 caches and 15 functions with static state.",
        not_proved="which constructor arguments are table-irrelevant is declared by hand (4 entries) and validated by byte-comparing tables (stream ca_irrelevant); buffer alignment independence is checked by the streams only (all loads are unaligned loads)",
        level_text="Lean 4 invariant proof over the cache state machine whose per-function structure is re-extracted from the C source on every run, plus kernel-decided obligations; rebuild events and outputs compared with the real code over random call programs",
        design_ref="DESIGN.md §5 C15",
        technique="Lean 4 proof (state-machine invariant) over a model regenerated from source + correspondence",
    ),
    "C13": dict(
        title="Supported in-place calls give the same result as out-of-place calls",
        module="SpqProofs.Properties.C13",
        extra_modules=["SpqProofs.Properties.ModHeap", "SpqProofs.Properties.C05", "SpqProofs.Properties.C13Ok"],
        streams=dict(quick=[("vz_box", "plain"), ("kz_probe", "plain"), ("vz_norm", "plain"), ("md_prod", "plain"), ("alias_mul", "plain"), ("md_prog", "plain"), ("md_ntt", "plain"), ("mn_model", "plain"), ("mh_arena", "plain")],
                     thorough=[("vz_box", "plain"), ("kz_probe", "plain"), ("vz_norm", "plain"), ("md_prod", "plain"), ("alias_mul", "plain"), ("md_prog", "plain"), ("md_ntt", "plain"), ("mn_model", "plain"), ("mh_arena", "plain")]),
        proved="call-independence theorems: an aliased call (res==a or res==b, same stride) and a call with separate buffers on the same source data give identical output cells, for add/sub/copy/negate/rotate/automorphism and the big variants, all limb counts (res_size != aliased size included) MODULE LAYER (Properties/ModHeap.lean): vec_znx_idft in place (res == a_dft) = out of place for every (res_size, a_size), any module configuration (vec_znx_idft_inplace_eq_outofplace); znx_small_single_product tolerates res overlapping a and b. Normalization in place (res == a, same stride): C05.normalize_spec (an obligation of this check too) accepts a = res and gives the same digits and frame as the out-of-place call, under the C05 magnitude domain (|a| <= 2^62, 1 <= k <= 62). Properties/C13Ok.lean: the same call-independence theorems including the ok flag (both the aliased and the separate-buffer call are fault-free under the C08 in-bounds hypotheses) for add/sub/copy/negate/rotate/automorphism and the big variants.",
        not_proved="pointwise products with r==a / r==b at kernel level are covered by the alias_mul stream (bit-exact), not by a theorem (the functional kernel models have no aliasing)",
        level_text="Lean 4 theorems: aliased call = separate-buffer call on identical data for every shape; in-place kernels tied to the real code by the exhaustive probe stream",
        design_ref="DESIGN.md §5 C13",
    ),
    "C16": dict(
        title="Pipelines of API calls compute the corresponding expression in Z[X]/(X^N+1)",
        module="SpqProofs.Properties.C16",
        extra_modules=["SpqProofs.Properties.Closed", "SpqProofs.Properties.C16Err", "SpqProofs.Properties.Bridge", "SpqProofs.Properties.ErrWitness", "SpqProofs.Properties.BridgeFft", "SpqProofs.Properties.C16Err2", "SpqProofs.Properties.ErrWitness2"],
        streams=dict(quick=[("md_prog", "plain"), ("vz_box", "plain"), ("ff_tables", "plain")],
                     thorough=[("md_prog", "plain"), ("vz_box", "plain"), ("ff_tables", "plain")]),
        proved="coefficient-space fragment, complete: for every layout (N = 2^t, strides >= N, pairwise disjoint variables inside one int64 heap), every straight-line program of add/sub/negate/copy/rotate/automorphism/normalize calls (any length, destination equal to a source or not, any limb counts incl. 0) and every input, if the exact interpreter stays in budget (every stored coefficient fits int64; |normalize input| <= 2^62, k in [1,62]; odd automorphism index) then the heap after running the model of vec_znx.c holds, limb by limb, the exact expression in Z[X]/(X^N+1) (pointwise +-, X^p*a, a(X^p) = sum a_i X^(ip), balanced base-2^k digits), all other cells (padding, other variables) are unchanged and no access was out of bounds (coeff_prog_refines, coeff_prog_output; per-call *_sim derived from the C08/C09/C05 specs). Mixed programs (dft, svp_prepare/apply, vmp_prepare/apply, idft, small product on a second store of opaque objects): prog_refines_partial proves the refinement for every module and every program relative to the record DftOpsSound of per-function exactness facts (dft_exact, svp_exact, vmp_exact, dft_idft_exact, small_product_exact = the C01/C02 theorems) - heap reads with strides, stores, frames, interplay with coefficient-space calls and validity of opaque objects as inputs of later calls are proved; DftOpsSound is shown inhabited (identity-transform module) BINARY64 (Properties/C16Err.lean): the program interpreter run with the binary64 module instance Cfg.parts produces exactly the integer limbs of the exact interpreter for every well-typed program (all ten ops incl. vmp_apply_dft_to_dft) whose DFT-space steps satisfy their per-operation budget (round trip dft->idft: 17 log2(N) u |a|_2 < 1/2; svp / small product: C01Err budget; vmp: C02Err budget) and whose vmp_apply_dft_to_dft reads a raw dft output (SingleProductDepth, decidable): prog_refines_f64_partial, prog_output_f64_partial, dftOpsSound_f64 (a definition: the DftOpsSound record instantiated for the library module), f64_agrees_with_exact_network_partial. The stream md_prog now also sends every program to the Lean program model (driver family pg) and compares the final heap and every DFT variable bit for bit. NON-VACUITY (Properties/ErrWitness.lean): at N = 8 (m = 4, K = R, zeta = exp(i pi/8)) with the library's ACTUAL stored twiddle patterns and the configuration it installs on this host, every hypothesis of reim_fft_err / reim_ifft_err, small_product_err / _exact, vmp_exact (2x1) and roundtrip_exact (CfgOk, 3.5u accuracy of both tables proved from rational enclosures of cos/sin(pi/8), flags by evaluation, budget) is discharged on concrete integer inputs and the conclusions are evaluated (witness_*_k2); not covered by a witness: the cplx-layout error theorems, svp_err / vmp_err and the C16Err2 budgets; the table patterns and the configuration in the witness are literals read from the library once, not regenerated per run. Properties/C16Err2.lean removes the SingleProductDepth restriction: with a metric invariant (per-limb 2-norm distance delta of a DFT variable from the exact transform, propagated through svp / vmp / vmp_apply_dft_to_dft by explicit formulas) prog_refines_f64_metric_partial / prog_output_f64_metric_partial hold for EVERY OpD program, product chains of any depth (example at N = 2; Properties/ErrWitness2.lean: a product of a product at N = 8 over R with the library's real tables, every C16Err2 budget discharged, exact result (exA8*exB8)*exC8).",
        not_proved="DftOpsSound is instantiated for the real FFT network in exact arithmetic (Closed: dftOpsSound_network, prog_refines_closed, incl. products of products) and for the library binary64 module (C16Err: dftOpsSound_f64). What remains for binary64: the per-operation budgets carry the proved constants (12 / 17 instead of the property 8 / 16), twiddle accuracy and the underflow side condition are hypotheses, the per-operation flags of a product fed into a product (C16Err2) are stated on the concrete binary64 operand. NTT120 big-coefficient programs (int128 limbs) are not in the program model (module-level theorems in C03Mod; md_prog stream). Properties/Bridge.lean (an obligation of this check) ties the rotation/automorphism formulas and the NTT-side product formula Q120Ntt.nmul to Mathlib AdjoinRoot (X^N+1); Properties/BridgeFft.lean does the same for the FFT-side formulas Spq.nmul / isum / Prog.polyMul / vmpVal used by C01/C02/Closed/C16; vmp_apply_dft_to_dft in place (d = a) is excluded by the precondition (the library re-reads a row it has overwritten for N < 8); ErrWitness2 discharges the budgets of the vmp_apply_dft_to_dft and idft steps of a chain, not of svp_metric / vmp_metric / the whole-program theorem at N = 8",
        level_text="Lean 4 refinement theorem (simulation by induction on the program) for the whole coefficient-space fragment over the heap model of vec_znx.c; DFT-space extension proved relative to an explicit record of per-function exactness hypotheses; random well-typed programs over the real library (both dispatch masks, aliasing, shapes) checked against an independent 128-bit exact interpreter",
        design_ref="DESIGN.md §5 C16",
        technique="Lean 4 proof (generic simulation theorem + per-call lemmas from C08/C09/C05 specifications) + differential program-level correspondence",
        assumptions=COMMON_ASSUME + ["per-call models = the code: vz_box stream (C08/C09/C05 ties)", "DFT-space calls: DftOpsSound (C01/C02) for the module in use"],
    ),
    "C17": dict(
        title="Block layouts and complex-vector kernels are faithful and mutually inverse",
        level_text="Lean 4 theorems: layout maps cell by cell with frame for every m/blk/rows/stride, exact-arithmetic equality of every kernel (ref, avx2/fma, sse, avx512 orders) with the complex definition for every length, standard-model error bounds for the accumulating products; bit-exact correspondence on all variants",
        design_ref="DESIGN.md §5 C17",
        module="SpqProofs.Properties.C17",
        extra_modules=["SpqProofs.Properties.Numerics"],
        variants={"plain": None},
        streams=dict(quick=[("r4_layout", "plain"), ("r4_arith", "plain")],
                     thorough=[("r4_layout", "plain"), ("r4_arith", "plain")]),
        proved="layout: extract/save/from_cplx/to_cplx cell-by-cell values + frame for every m, blk < m/4, row count incl. 0, stride; "
               "save/extract mutually inverse; to_cplx(from_cplx x) = x on all 2m doubles; AVX/FMA layout variants equal to the reference ones. "
               "arithmetic (exact, any commutative ring): reim4 add/mul/add_mul, 1- and 2-column dot products (ref and avx2 operation orders), "
               "windowed convolution (= sum over all index pairs i+j=k, every window incl. empty), fftvec mul/addmul on reim4, reim and cplx layouts "
               "(ref, fma, sse, avx512) equal the complex-arithmetic definition for every length incl. 0; SIMD = reference in exact arithmetic. "
               "rounding (standard model, unit roundoff u): 1-column dot product in reference and AVX2 order and the convolution window are within "
               "((1+u)^(n+2)-1)*sum(|a c|+|b d|) of the exact sums",
        not_proved="that Spq.F64 satisfies the standard model is proved from its definition (Numerics: f64_*_std, dot_err_f64_ref/avx2 and _box forms, obligations of this check) under explicit finiteness / no-overflow hypotheses; underflow is excluded by hypothesis: the rounding "
                   "bound is tied to the real code by the r4_arith oracle ((n+2)*2^-52*sum|u||v| against long double) and the bit-exact model; "
                   "no error theorem for the 2-column products and the pointwise fftvec kernels (2-3 roundings each); "
                   "partial overlap of source and destination is not modelled",
        assumptions=COMMON_ASSUME,
    ),
    "C18": dict(
        title="Read-only operands are never modified",
        module="SpqProofs.Properties.C18",
        extra_modules=["SpqProofs.Properties.ModHeap", "SpqProofs.Properties.C05"],
        streams=dict(quick=[("vz_box", "plain"), ("vz_norm", "plain"), ("md_prod", "plain"), ("md_vmp", "plain"), ("md_ntt", "plain"), ("mn_model", "plain"), ("mh_arena", "plain"), ("huge_span", "plain")],
                     thorough=[("vz_box", "plain"), ("vz_norm", "plain"), ("md_prod", "plain"), ("md_vmp", "plain"), ("md_ntt", "plain"), ("mn_model", "plain"), ("mh_arena", "plain"), ("huge_span", "plain")]),
        proved="unconditional frame theorems: only the nn cells of the first rsz output limbs can change (any offsets, strides, overlap); hence every source cell not aliased with the output, including stride padding, is unchanged MODULE LAYER (Properties/ModHeap.lean): for the nine FFT64 entry points every arena cell outside the result region and the declared scratch is unchanged (sources, prepared scalars/matrices, stride padding); idft_tmp_a: frame = result + the used limbs of its DFT source (the documented exception). Normalization: C05.normalize_spec (an obligation of this check too) includes the frame (only the nn cells of the first res_size output limbs change); it carries the C05 magnitude hypotheses, unlike the other frame theorems.",
        not_proved="module tables are parameters of the functional kernels in the model (immutable by construction): that the C kernels do not write them is covered by the byte-snapshot streams (ModSnap), not by a theorem",
        level_text="Lean 4 frame theorems for every vec_znx operation with no hypotheses on offsets/strides; whole-arena byte comparison against the real code",
        design_ref="DESIGN.md §5 C18",
    ),
}

for _p in PROPS.values():
    _p.setdefault("variants", {"plain": None})
    _p.setdefault("assumptions", COMMON_ASSUME)
