"""Per-property configuration of the checks (streams, proof module, generated facts, notes)."""

COMMON_ASSUME = [
    "the hand-written Lean model is tied to the code only by the correspondence streams (differential execution bounded by generator quality) and, where listed, by facts regenerated from the source on every run",
    "compiler (gcc -O2) and the project's per-file ISA flags are part of the modelled object",
]

PROPS = {
    "C05": dict(
        title="Base-2^k normalization yields the unique balanced digit expansion",
        module="SpqProofs.Properties.C05",
        streams=dict(quick=[("kz_norm", "plain"), ("vz_norm", "plain")], thorough=[("kz_norm", "plain"), ("vz_norm", "plain"), ("vz_box", "plain")]),
        proved="digit/carry = balanced residue / exact quotient (all k in [1,62], |x|,|cin| <= 2^62, no wrap); per-coefficient chain = balancedDigits (existence, value identity, uniqueness); heap-level normalize_spec for all nn, k, limb counts incl. 0, strides, in place or disjoint, frame, bounds flag; big and range variants",
        not_proved="nothing of the statement is left unproved at model level; the 8 argument shapes of znx_normalize are one model function (the shapes differ only in what is stored) — tied by the kz_norm stream over all shapes and aliasing patterns",
        level_text="Lean 4 theorems: balanced base-2^k expansion (value, range, uniqueness) for every k, limb count and stride; model tied to the code by exhaustive small boxes and boundary carry chains, bit-exact",
        design_ref="DESIGN.md §5 C05",
    ),
    "C08": dict(
        title="vec_znx size/stride semantics",
        module="SpqProofs.Properties.C08",
        streams=dict(quick=[("vz_box", "plain")], thorough=[("vz_box", "plain")]),
        proved="value + frame + bounds-flag theorems for zero/copy/negate/add/sub/rotate/automorphism and the big wrappers, for all nn, limb counts incl. 0, strides >= nn, offsets, heap contents, aliased or disjoint sources; int64 zero-extension corollaries",
        not_proved="AVX lane chunking is modelled as the same per-limb function (tied by the correspondence on the avx variants and the generic/AVX dispatch masks)",
        level_text="Lean 4 theorems over the heap model of vec_znx: value, frame and bounds for all sizes (incl. 0), strides, dimensions and contents; model tied to /repo by bit-exact whole-arena differential runs (canary padding, all size orderings, both module types and dispatch masks)",
        design_ref="DESIGN.md §5 C08",
    ),
    "C13": dict(
        title="Supported in-place calls give the same result as out-of-place calls",
        module="SpqProofs.Properties.C13",
        streams=dict(quick=[("vz_box", "plain"), ("kz_probe", "plain"), ("vz_norm", "plain")], thorough=[("vz_box", "plain"), ("kz_probe", "plain"), ("vz_norm", "plain")]),
        proved="call-independence theorems: an aliased call (res==a or res==b, same stride) and a call with separate buffers on the same source data give identical output cells, for add/sub/copy/negate/rotate/automorphism and the big variants, all limb counts (res_size != aliased size included)",
        not_proved="the inverse DFT in place and pointwise products with r==a are float kernels: covered by the module-level streams (bit-exact), theorem staged with the FFT model",
        level_text="Lean 4 theorems: aliased call = separate-buffer call on identical data for every shape; in-place kernels tied to the real code by the exhaustive probe stream",
        design_ref="DESIGN.md §5 C13",
    ),
    "C18": dict(
        title="Read-only operands are never modified",
        module="SpqProofs.Properties.C18",
        streams=dict(quick=[("vz_box", "plain"), ("vz_norm", "plain")], thorough=[("vz_box", "plain"), ("vz_norm", "plain")]),
        proved="unconditional frame theorems: only the nn cells of the first rsz output limbs can change (any offsets, strides, overlap); hence every source cell not aliased with the output, including stride padding, is unchanged",
        not_proved="module tables / prepared objects of the DFT, SVP and VMP paths are covered by the module-level streams (byte snapshots), not yet by theorems",
        level_text="Lean 4 frame theorems for every vec_znx operation with no hypotheses on offsets/strides; whole-arena byte comparison against the real code",
        design_ref="DESIGN.md §5 C18",
    ),
}

for _p in PROPS.values():
    _p.setdefault("variants", {"plain": None})
    _p.setdefault("assumptions", COMMON_ASSUME)
