"""Per-property configuration of the checks (streams, proof module, generated facts, notes)."""

COMMON_ASSUME = [
    "the hand-written Lean model is tied to the code only by the correspondence streams (differential execution bounded by generator quality)",
    "compiler (gcc -O2) and the project's per-file ISA flags are part of the modelled object",
]

PROPS = {
    "C08": dict(
        module="SpqProofs.Properties.C08",
        variants={"plain": None},
        streams=dict(quick=[("vz_box", "plain")], thorough=[("vz_box", "plain")]),
        proved="value + frame + bounds-flag theorems for every vec_znx size/stride operation, for all nn, limb counts incl. 0, strides >= nn, offsets, heap contents, aliased or disjoint sources",
        not_proved="AVX lane chunking is modelled as the same per-limb function (tied by the correspondence on avx variants)",
        assumptions=COMMON_ASSUME,
    ),
}
