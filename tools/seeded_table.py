#!/usr/bin/env python3
"""rewrites §14 of DESIGN.md (between the markers) from seeded/*/meta.json"""
import json, os, glob
VERIF = os.path.dirname(os.path.dirname(os.path.abspath(__file__)))
rows = []
harmless = []
for d in sorted(glob.glob(os.path.join(VERIF, "seeded", "*"))):
    mp = os.path.join(d, "meta.json")
    if not os.path.exists(mp):
        continue
    m = json.load(open(mp))
    sid = os.path.basename(d)
    det = m.get("checks_run", {})
    if m.get("kind") == "harmless":
        alarms = ", ".join(f"{c}: {'FAILING INPUT CLAIMED' if r.get('with_input') else 'no-failing-input-found'}" for c, r in sorted(det.items()) if r.get("alarm"))
        harmless.append((sid, m.get("summary", "")[:200].replace("|", "/"), ", ".join(m.get("files_changed", []))[:120], "yes" if m.get("confirmed") else "no",
                         str(len(det)), alarms or "none"))
        continue
    caught = ", ".join(f"{c}: {'caught' if r['detected'] else 'MISSED'}" for c, r in sorted(det.items()))
    how = ""
    for c, r in det.items():
        for l in r.get("lines", []):
            if l.startswith("detail:"):
                how = l[len("detail:"):].strip().split(":")[0]
                break
    rows.append((sid, m.get("property"), m.get("summary", "")[:150].replace("|", "/"), m.get("needs_to_manifest", "")[:170].replace("|", "/"),
                 "yes" if m.get("confirmed") else "no", caught, how, (m.get("note") or m.get("notes") or "").replace("|", "/")))
out = ["<!-- SEEDED-BEGIN -->", "", "| id | property | change | needs to manifest | confirmed (tests pass, demo fails only with it) | quick check | first signal | note |", "|---|---|---|---|---|---|---|---|"]
for r in rows:
    out.append("| " + " | ".join(str(x) for x in r) + " |")
out += ["", "**Behaviour-preserving rewrites** (written by independent agents told to change the source WITHOUT changing behaviour; evaluated by `tools/harmless_eval.py` against all 18 quick checks: an alarm that names a failing input would be a false alarm; `no-failing-input-found` is the specified report when a proof obligation or the correspondence breaks on a harmless rewrite):", "",
        "| id | rewrite | files | tests pass | checks run | alarms |", "|---|---|---|---|---|---|"]
for r in harmless:
    out.append("| " + " | ".join(r) + " |")
out += ["", f"{len(rows)} seeded defects kept; {sum(1 for r in rows if 'MISSED' not in r[5] and r[5])} caught by the quick check of their property as it stands now.", "<!-- SEEDED-END -->"]
p = os.path.join(VERIF, "DESIGN.md")
s = open(p).read()
block = "\n".join(out)
if "<!-- SEEDED-BEGIN -->" in s:
    i = s.index("<!-- SEEDED-BEGIN -->")
    j = s.index("<!-- SEEDED-END -->") + len("<!-- SEEDED-END -->")
    s = s[:i] + block + s[j:]
else:
    s += "\n\n## 14. Seeded defects: which check catches which change\n\nEach defect below was written by an independent agent that saw only the text of one property and its own scratch worktree\nof /repo (nothing of /verif).  `tools/seed_eval.py` confirmed in a scratch worktree that the unmodified tree passes the agent's\ndemonstration, that with the patch the 239-test baseline still passes and the demonstration fails, then applied the patch to /repo, ran\nthe quick check(s) and undid it.  `note` records checks that had to be strengthened because the first run missed the change.\n\n" + block + "\n"
open(p, "w").write(s)
print(len(rows), "rows")
