#!/usr/bin/env python3
"""c2lean: translate C functions of spqlios/coeffs/coeffs_arithmetic.c into terms of the deep-embedded IR
`Spq.CIR` (lean/Spq/CIR.lean) -> lean/Gen/CSrc.lean (generated on every run, never committed).

The C source is parsed by clang (`clang-14 -Xclang -ast-dump=json -fsyntax-only`, same -D/-std flags as the
library build); this script walks the JSON AST of each requested function and emits one `Spq.CIR.Fn`.
Every construct that is not explicitly handled aborts the generation with a message naming the construct
(exit code 2) -- nothing is skipped silently.

What the translation relies on (trusted base of the source tie, together with Spq/CIR.lean):
  * clang's AST is a faithful parse of the C source, with every implicit conversion made explicit as an
    ImplicitCastExpr node and every expression annotated with its (desugared) type;
  * LP64 type sizes: unsigned long = u64, long = i64, int = i32, unsigned int = u32, double = f64;
  * expressions of the accepted subset have no side effects: `=`, `op=`, `++`, `--` and calls are accepted
    only where their value is discarded (statement position, for-init, for-increment, comma operands there);
  * every C declaration gets its own slot (no recursion, so re-entering a block just re-initialises it);
    declarations without initialiser are rejected;
  * pointer parameters are never modified and only used as `p[e]`, as memcpy/memset arguments, or compared
    with 0; `memcpy`/`memset` are the C library functions (modelled as IR primitives with byte counts);
    `memcpy(p, p, n)` (identical ranges: undefined behaviour in ISO C) is a no-op in the IR, partially
    overlapping ranges are reported (`Err.overlap`);
  * REJECTED although they look harmless, because the IR would compute something else than the compiled code:
    a `double` used as a truth value (`if (x)`, `!x`, `x && y`, `x ? a : b`: the IR tests the bit pattern, wrong
    for -0.0); a pointer cast that changes the element type (f64 cells are bit patterns in [0, 2^64), i64 cells
    signed values) other than `uint8_t* -> int64_t*` for scratch bytes, casts from the opaque q120 element types
    and the precomputation structs, integer elements to `__m256i*` / `__m128i*`, u64 <-> u32 views; a double
    multiplication feeding `+` / `-` in a file compiled with -mfma (the compiler may fuse: one rounding);
  * (q120 sources) local arrays live in consecutive slots and are only indexed with bounds checks; `static const`
    locals are ordinary initialised locals; calls of `static inline` helpers in statement position are inlined
    (arguments without side effects substituted for the parameters); a precomputation struct parameter is a buffer
    of 64-bit cells laid out as the C struct (field offsets computed from the struct definition: every field is an
    8-byte scalar or an array of them); pointer arithmetic / indices are computed in uint64 (a valid C object cannot
    make them wrap); `uint32_t` views of a 64-bit cell are little endian.
  * (reim pointwise products: reim/reim_fftvec_addmul_ref.c, a file compiled WITHOUT -mfma) the precomputation object
    (`struct reim_mul_precomp` / `reim_addmul_precomp`) is a struct parameter whose function-pointer field occupies one
    cell that has no name in the IR (any read of it is rejected) and whose `int64_t m` is cell 1; double `*`, `+`, `-`
    are the separately rounded binary64 operations on bit patterns; `r[i] += x` is load, add, store.
  * (FFT64 module layer: vec_znx_dft.c, scalar_vector_product.c, znx_small.c, vector_matrix_product.c -- ADDRESSING only)
    - a `const MODULE*` parameter is the scalar `module->nn`, plus a second scalar `module->m` in the functions that
      read it or pass the module to one that does (no invariant between the two is assumed);
    - the arithmetic kernels (EXT_KERNELS: reim_from_znx64, reim_fft, reim_ifft, reim_to_znx64, reim_fftvec_mul,
      reim_fftvec_addmul, reim4_*_ref) become `Stmt.extcall name scalars pointers`; their object argument must be
      `module->mod.fft64.<the field of that kernel>` of this function's module (e.g. `reim_fft` given `p_ifft` is
      rejected) and is dropped: the kernel semantics is the `ExtSem` parameter of the interpreter;
    - VEC_ZNX_DFT / VEC_ZNX_BIG / SVP_PPOL / VMP_PMAT are blobs of 64-bit cells (only reached through casts to
      double* / int64_t*); scratch bytes (`uint8_t*`) may be cast to `int64_t*` or `double*`;
    - `memset(p + k, v, n)` / `memcpy` on pointer EXPRESSIONS are the same IR statements wrapped in a one-statement
      callee (`.call (.memset 0 ty (.var 0) (.var 1)) 2 [v, n] [(p, k)]`);
    - `p + x + y` is one offset `x + y` computed in uint64; `bytep + E * 8` (syntactic factor 8 or sizeof of an 8-byte
      type) is the cell offset `(E * 8) >> 3` (exact, also when `E * 8` wraps); unsigned `x / 2^k` with a literal
      divisor is `x >> k`.
  * (q120 AVX2 product kernels, q120_arithmetic_avx2.c) a `__m256i` LOCAL is 4 consecutive uint64 slots; only LANE-WISE
    intrinsics are accepted and applied lane by lane with their documented semantics (see `vlane`: setzero, set1_epi64x,
    loadu_si256, storeu_si256 of a vector local, add_epi64, and_si256, srli_epi64, mul_epu32 = exact product of the low
    32 bits); shuffles / blends / permutes / anything else are rejected; the `(int)` conversion of a uint64_t shift count
    is dropped (counts >= 64 are `Err.ub` either way: the IR is only stricter).
"""
import json
import re, os, subprocess, sys

VERIF = os.path.dirname(os.path.dirname(os.path.abspath(__file__)))
REPO = os.environ.get("VERIF_REPO", "/repo")
SRC = "spqlios/coeffs/coeffs_arithmetic.c"
# every file a target function (or a function it calls) may be defined in
SRCS = [SRC, "spqlios/arithmetic/vec_znx.c", "spqlios/coeffs/coeffs_arithmetic_avx.c", "spqlios/arithmetic/vec_znx_avx.c",
        "spqlios/q120/q120_arithmetic_ref.c", "spqlios/q120/q120_arithmetic_simple.c",
        "spqlios/arithmetic/vec_znx_dft.c", "spqlios/arithmetic/scalar_vector_product.c", "spqlios/arithmetic/znx_small.c",
        "spqlios/arithmetic/vector_matrix_product.c", "spqlios/q120/q120_arithmetic_avx2.c",
        "spqlios/reim/reim_fftvec_addmul_ref.c", "spqlios/reim4/reim4_arithmetic_ref.c"]
# per-file ISA flags (as in spqlios/CMakeLists.txt): the intrinsics need their target features to parse
EXTRA_CFLAGS = {"spqlios/coeffs/coeffs_arithmetic_avx.c": ["-mavx2", "-mfma"],
                "spqlios/arithmetic/vec_znx_avx.c": ["-mavx2", "-mfma"],
                "spqlios/q120/q120_arithmetic_avx2.c": ["-mavx2"]}
# vector types: number of 64-bit cells
VEC_CELLS = {"__m256i": 4, "__m256i_u": 4, "__m128i": 2, "__m128i_u": 2}
# intrinsics modelled as IR primitives on lanes of 64-bit cells
VEC_BIN = {"_mm256_add_epi64": ("vadd", 4), "_mm256_sub_epi64": ("vsub", 4), "_mm_add_epi64": ("vadd", 2), "_mm_sub_epi64": ("vsub", 2)}
VEC_LOAD = {"_mm256_loadu_si256": 4, "_mm_loadu_si128": 2}
VEC_STORE = {"_mm256_storeu_si256": 4, "_mm_storeu_si128": 2}
VEC_SET1 = {"_mm256_set1_epi64x": 4, "_mm_set1_epi64x": 2}
CLANG = os.environ.get("VERIF_CLANG", "clang-14")
CFLAGS = ["-std=gnu11", "-DSPQLIOS_VERIF", "-DNDEBUG"]

# target functions, in order (names as they are in the source)
TARGETS = [
    "znx_add_i64_ref", "znx_sub_i64_ref", "znx_negate_i64_ref", "znx_copy_i64_ref", "znx_zero_i64_ref",
    "znx_rotate_i64", "znx_mul_xp_minus_one", "znx_automorphism_i64",
    "rnx_rotate_f64", "rnx_mul_xp_minus_one", "rnx_automorphism_f64",
    "znx_rotate_inplace_i64", "rnx_rotate_inplace_f64", "rnx_mul_xp_minus_one_inplace",
    "znx_automorphism_inplace_i64", "rnx_automorphism_inplace_f64", "znx_normalize",
    # limb-vector wrappers of spqlios/arithmetic/vec_znx.c (they call the kernels above)
    "vec_znx_zero_ref", "vec_znx_copy_ref", "vec_znx_negate_ref", "vec_znx_add_ref", "vec_znx_sub_ref",
    "vec_znx_rotate_ref", "vec_znx_automorphism_ref", "vec_znx_normalize_base2k_ref",
    "vec_znx_normalize_base2k_tmp_bytes_ref",
    # integer AVX2 twins of spqlios/coeffs/coeffs_arithmetic_avx.c
    "znx_add_i64_avx", "znx_sub_i64_avx", "znx_negate_i64_avx",
    # limb-vector wrappers of spqlios/arithmetic/vec_znx_avx.c (they call the AVX kernels; copy / zero are the ref kernels)
    "vec_znx_add_avx", "vec_znx_sub_avx", "vec_znx_negate_avx",
    # q120 reference arithmetic (spqlios/q120/q120_arithmetic_ref.c, q120_arithmetic_simple.c)
    "q120_vec_mat1col_product_baa_ref", "q120_vec_mat1col_product_bbb_ref", "q120_vec_mat1col_product_bbc_ref",
    "q120x2_vec_mat1col_product_bbc_ref", "q120x2_vec_mat2cols_product_bbc_ref",
    "q120x2_extract_1blk_from_q120b_ref", "q120x2_extract_1blk_from_contiguous_q120b_ref", "q120x2b_save_1blk_to_q120b_ref",
    "q120_add_bbb_simple", "q120_add_ccc_simple", "q120_c_from_b_simple", "q120_b_from_znx64_simple",
    # addressing of the FFT64 module layer (arithmetic kernels = opaque `extcall`s)
    "fft64_vec_znx_dft", "fft64_vec_znx_idft", "fft64_vec_znx_idft_tmp_a",
    "fft64_svp_prepare_ref", "fft64_svp_apply_dft_ref", "fft64_znx_small_single_product",
    "fft64_vmp_prepare_contiguous_ref", "fft64_vmp_apply_dft_to_dft_ref", "fft64_vmp_apply_dft_ref",
    # q120 AVX2 product kernels (spqlios/q120/q120_arithmetic_avx2.c): `__m256i` locals are 4 uint64 slots, the
    # lane-wise intrinsics are applied lane by lane
    "q120_vec_mat1col_product_baa_avx2", "q120_vec_mat1col_product_bbb_avx2", "q120_vec_mat1col_product_bbc_avx2",
    # binary64 pointwise product kernels (spqlios/reim/reim_fftvec_addmul_ref.c, compiled without -mfma: separate
    # multiplications and additions); the precomputation object is a struct parameter whose cell 1 is `m`
    "reim_fftvec_mul_ref", "reim_fftvec_addmul_ref",
    # reference reim4 block kernels (spqlios/reim4/reim4_arithmetic_ref.c).  Translated as functions of their own; inside
    # the module-layer functions above the same names stay opaque `extcall`s (EXT_KERNELS)
    "reim4_extract_1blk_from_reim_ref", "reim4_save_1blk_to_reim_ref", "reim4_extract_1blk_from_contiguous_reim_ref",
]

# opaque kernels of the module layer: name -> (argument kinds, field of `module->mod.fft64` the object argument must be)
#   'o' the precomputation object (dropped: the kernel semantics is a parameter of the interpreter, already specialised
#   to the module), 's' uint64 scalar, 'p' pointer (cells)
EXT_KERNELS = {
    "reim_from_znx64": ("opp", "p_conv"), "reim_fft": ("op", "p_fft"), "reim_ifft": ("op", "p_ifft"),
    "reim_to_znx64": ("opp", "p_reim_to_znx"), "reim_fftvec_mul": ("oppp", "mul_fft"),
    "reim_fftvec_addmul": ("oppp", "p_addmul"),
    "reim4_extract_1blk_from_reim_ref": ("sspp", None), "reim4_extract_1blk_from_contiguous_reim_ref": ("ssspp", None),
    "reim4_vec_mat2cols_product_ref": ("sppp", None), "reim4_vec_mat1col_product_ref": ("sppp", None),
    "reim4_save_1blk_to_reim_ref": ("sspp", None),
}

RET_TYMAP = {"uint64_t": "u64", "int64_t": "i64", "unsigned long": "u64", "long": "i64"}
TYMAP = {"unsigned long": "u64", "long": "i64", "int": "i32", "unsigned int": "u32", "double": "f64",
         "unsigned long long": "u64", "long long": "i64"}
RANGE = {"u64": (0, 2**64 - 1), "i64": (-2**63, 2**63 - 1), "u32": (0, 2**32 - 1), "i32": (-2**31, 2**31 - 1)}
SIZEOF = {"u64": 8, "i64": 8, "u32": 4, "i32": 4, "f64": 8, "u8": 1, "v4": 32, "v2": 16}
ARITH = {"+": "add", "-": "sub", "*": "mul", "&": "band", "|": "bor", "^": "bxor", "<<": "shl", ">>": "shr", "%": "mod"}
CMP = {"<": "lt", "<=": "le", ">": "gt", ">=": "ge", "==": "eq", "!=": "ne"}


class Unsupported(Exception):
    pass


def where(n):
    line = n.get("_line")
    return f"line {line}" if line else "line ?"


def annotate_lines(n, cur=None):
    """clang prints a line number only where it changes: propagate it in document order"""
    if isinstance(n, dict) and n:
        for key in ("loc", "range"):
            v = n.get(key)
            if isinstance(v, dict):
                for sub in (v, v.get("begin", {}), v.get("expansionLoc", {}), v.get("spellingLoc", {})):
                    if isinstance(sub, dict) and "line" in sub and not sub.get("includedFrom") and "file" not in sub:
                        cur = sub["line"]
                        break
                else:
                    continue
                break
        n["_line"] = cur
        for c in n.get("inner", []):
            cur = annotate_lines(c, cur) or cur
        return cur
    return cur


def qual(n):
    t = n.get("type", {})
    return t.get("desugaredQualType", t.get("qualType", "?"))


def strip_cv(q):
    toks = [t for t in q.split() if t not in ("const",)]
    if "volatile" in toks or "restrict" in toks:
        raise Unsupported(f"qualifier in type '{q}'")
    return " ".join(toks)


def scalar_ty(n, what="expression"):
    q = strip_cv(qual(n))
    if q not in TYMAP:
        raise Unsupported(f"{what} of type '{q}' at {where(n)}")
    return TYMAP[q]


def strip_ptr_const(q):
    """`T *const` -> `T *` (a const pointer variable is still a pointer)"""
    q = q.strip()
    while q.endswith("const") and "*" in q and q[:-5].rstrip().endswith("*"):
        q = q[:-5].rstrip()
    return q


def ptr_elem_ty(q):
    q = strip_ptr_const(q)
    if not q.endswith("*"):
        return None
    e = strip_cv(q[:-1].strip())
    if e in ("uint8_t", "unsigned char"):
        return "u8"
    if e in VEC_CELLS:
        return "v%d" % VEC_CELLS[e]
    e = {"int64_t": "long", "uint64_t": "unsigned long", "int32_t": "int", "uint32_t": "unsigned int"}.get(e, e)
    if e not in TYMAP:
        raise Unsupported(f"pointer to '{e}'")
    return TYMAP[e]



# ------------------------------------------------------------------ generalised pointers / arrays (q120 sources)
# opaque element types: only ever used through a cast to `uint64_t*` / `uint32_t*` (a blob of 64-bit cells)
OPAQUE_ELEMS = {"q120a", "q120b", "q120c", "q120x2b", "q120x2c",
                "struct _q120a", "struct _q120b", "struct _q120c", "struct _q120x2b", "struct _q120x2c",
                # objects of the FFT64 module layer: blobs of 64-bit cells, only reached through casts to double* / int64_t*
                "VEC_ZNX_DFT", "VEC_ZNX_BIG", "SVP_PPOL", "VMP_PMAT",
                "struct vec_znx_dft_t", "struct vec_znx_bigcoeff_t", "struct svp_ppol_t", "struct vmp_pmat_t"}
ELEM_NAMES = {"uint64_t": "u64", "unsigned long": "u64", "unsigned long long": "u64", "int64_t": "i64", "long": "i64",
              "long long": "i64", "uint32_t": "u32", "unsigned int": "u32", "double": "f64"}
_STRUCTS = {}
# precomputation objects of the reim pointwise products: typedef / struct tag -> record name (no leading underscore)
REIM_PRECOMP_ELEMS = {"REIM_FFTVEC_MUL_PRECOMP": "reim_mul_precomp", "struct reim_mul_precomp": "reim_mul_precomp",
                      "REIM_FFTVEC_ADDMUL_PRECOMP": "reim_addmul_precomp", "struct reim_addmul_precomp": "reim_addmul_precomp"}


def norm_elem(e):
    e = " ".join(t for t in e.split() if t != "const")
    if e in ELEM_NAMES:
        return ELEM_NAMES[e]
    if e in OPAQUE_ELEMS:
        return "opaque"
    if e.startswith("q120_mat1col_product_") or e.startswith("struct _q120_mat1col_product_"):
        return "struct:" + e.replace("struct _", "")
    if e in REIM_PRECOMP_ELEMS:
        return "struct:" + REIM_PRECOMP_ELEMS[e]
    raise Unsupported(f"element type '{e}'")


def parse_ctype(q):
    """type string of a pointer / array / scalar: ('ptr', elem, dims of the pointee) | ('arr', elem, dims) |
    ('scalar', elem, [])"""
    q = q.strip()
    m = re.match(r"^(.*?)\(\*\s*(?:const)?\s*\)((?:\[\d+\])+)$", q)
    if m:
        return ("ptr", norm_elem(m.group(1)), [int(x) for x in re.findall(r"\[(\d+)\]", m.group(2))])
    m = re.match(r"^([^\[\(\*]*?)((?:\[\d+\])+)$", q)
    if m:
        return ("arr", norm_elem(m.group(1)), [int(x) for x in re.findall(r"\[(\d+)\]", m.group(2))])
    q2 = strip_ptr_const(q)
    if q2.endswith("*"):
        inner = q2[:-1].strip()
        if inner.endswith("*"):
            raise Unsupported(f"pointer to pointer '{q}'")
        return ("ptr", norm_elem(inner), [])
    return ("scalar", norm_elem(q), [])


def prod(xs):
    r = 1
    for x in xs:
        r *= x
    return r


def is_ptr_or_arrptr(q):
    q = q.strip()
    return strip_ptr_const(q).endswith("*") or re.search(r"\(\*\s*(?:const)?\s*\)(?:\[\d+\])+$", q) is not None


def is_array_type(q):
    return re.match(r"^[^\[\(\*]*?(?:\[\d+\])+$", q.strip()) is not None


def load_struct(name):
    """cell offsets of the fields of a precomputation struct (all fields are 8-byte scalars or arrays of them)"""
    if name in _STRUCTS:
        return _STRUCTS[name]
    found = None
    # the q120 records carry a leading underscore (`struct _q120_mat1col_product_baa_precomp`), the reim ones do not
    for rec, src in [(r, s) for r in ("_" + name, name) for s in SRCS]:
        if found:
            break
        path = os.path.join(REPO, src)
        if not os.path.exists(path):
            continue
        cmd = [CLANG] + CFLAGS + EXTRA_CFLAGS.get(src, []) + ["-I" + REPO, "-fsyntax-only", "-Xclang", "-ast-dump=json",
                                                              "-Xclang", f"-ast-dump-filter={rec}", path]
        r = subprocess.run(cmd, capture_output=True, text=True)
        if r.returncode != 0:
            continue
        dec = json.JSONDecoder()
        t, i = r.stdout, 0
        while True:
            while i < len(t) and t[i].isspace():
                i += 1
            if i >= len(t):
                break
            d, i = dec.raw_decode(t, i)
            if d.get("kind") == "RecordDecl" and d.get("name") == rec and d.get("completeDefinition"):
                found = d
    if not found:
        raise Unsupported(f"struct '{name}': definition not found")
    off, fields = 0, {}
    for f in found.get("inner", []):
        if f.get("kind") != "FieldDecl":
            continue
        fq = f.get("type", {}).get("desugaredQualType", qual(f))
        if re.search(r"\(\*\)\s*\(", fq):
            # function-pointer field (`FFTVEC_MUL_FUNC function`): one 8-byte cell that is never read; it gets no entry
            # in `fields`, so any access to it is rejected (`elem_lv` / `pv`: unknown field -> Unsupported)
            off += 1
            continue
        kind, elem, dims = parse_ctype(qual(f))
        if kind == "ptr" or elem not in ("u64", "i64", "f64"):
            raise Unsupported(f"struct '{name}': field '{f.get('name')}' is not made of 8-byte scalars")
        n = prod(dims) if kind == "arr" else 1
        fields[f["name"]] = (off, n)
        off += n
    _STRUCTS[name] = fields
    return fields


def oadd(a, b):
    """sum of two offsets (python int = literal, str = IR expression of type u64)"""
    if isinstance(a, int) and isinstance(b, int):
        return a + b
    if a == 0:
        return b
    if b == 0:
        return a
    return f"(.bin .add .u64 {ostr(a)} {ostr(b)})"


def omul(a, c):
    if isinstance(a, int):
        return a * c
    if c == 1:
        return a
    return f"(.bin .mul .u64 {a} (.lit {c}))"


def ostr(a):
    return f"(.lit {a})" if isinstance(a, int) else a

def needs_module_m(n):
    """does the function read `module->m`, or call an already translated function that takes it?"""
    if isinstance(n, dict):
        if n.get("kind") == "MemberExpr" and n.get("name") == "m" and n.get("isArrow"):
            b = n["inner"][0]
            while b.get("kind") in ("ParenExpr", "ImplicitCastExpr"):
                b = b["inner"][0]
            q = b.get("type", {}).get("qualType", "")
            if "MODULE" in q or "module_info_t" in q:
                return True
        if n.get("kind") == "CallExpr":
            c = n["inner"][0]
            while c.get("kind") in ("ImplicitCastExpr", "ParenExpr"):
                c = c["inner"][0]
            f = REGISTRY.get(c.get("referencedDecl", {}).get("name"))
            if f is not None and ("M",) in f.params:
                return True
        return any(needs_module_m(c) for c in n.get("inner", []))
    return False


class FnTranslator:
    def __init__(self, name, decl):
        self.name = name
        self.decl = decl
        self.slots = {}      # decl id -> slot
        self.slot_names = []
        self.slot_ty = {}
        self.ptrs = {}       # decl id -> pointer index
        self.ptr_names = []
        self.ptr_ty = []
        self.scalars = []
        self.ret_slot = None     # slot of the result of a value-returning function
        self.ret_ty = None
        self.byte_ptrs = set()   # decl ids of `uint8_t*` parameters (usable only through a cast to `int64_t*`)
        self.pslots = {}     # decl id of a pointer local -> first of its two slots
        self.params = []     # kinds of the parameters in C order: ("s", ty) | ("p", ty) | ("m",)
        self.module_ids = set()   # decl ids of `const MODULE*` parameters (slot holds module->nn)
        self.module_m_ids = set()  # … of those whose next slot holds module->m (functions that read it, or pass the module
                                   # to a function that does)
        self.calls = []      # names of the translated functions this one calls
        self.inline = []     # stack of {param decl id -> translated argument} for inlined expression functions
        self.inline_depth = 0
        # generalised pointers (q120 sources)
        self.arrays = {}     # decl id of a local array -> (first slot, number of slots)
        self.pslot_elem = {}  # decl id of a pointer local declared through the general path -> element kind
        self.param_elem = {}  # pointer index -> 'opaque' | 'struct:<name>' (parameters registered through the general path)
        self.vecs = {}       # decl id of a `__m256i` local -> first of its 4 slots

    def err(self, n, msg):
        raise Unsupported(f"{self.name}: {msg} [{n.get('kind')}] at {where(n)}")

    def new_slot(self, n):
        s = len(self.slot_names)
        self.slots[n["id"]] = s
        self.slot_names.append(n.get("name", "?"))
        self.slot_ty[s] = scalar_ty(n, "variable")
        return s

    # ------------------------------------------------------------------ expressions
    def ptr_ref(self, n):
        """n must denote the (r)value of a pointer parameter; returns its index"""
        k = n.get("kind")
        if k in ("ImplicitCastExpr", "CStyleCastExpr") and n.get("castKind") == "BitCast":
            self.check_ptr_cast(n, n["inner"][0])
            return self.ptr_ref(n["inner"][0])
        if k == "ImplicitCastExpr" and n.get("castKind") in ("LValueToRValue", "NoOp"):
            return self.ptr_ref(n["inner"][0])
        if k == "ParenExpr":
            return self.ptr_ref(n["inner"][0])
        if k == "DeclRefExpr":
            rid = n["referencedDecl"]["id"]
            if rid in self.ptrs and rid not in self.byte_ptrs:
                return self.ptrs[rid]
        self.err(n, "pointer expression that is not a (64-bit element) pointer parameter")

    def check_ptr_cast(self, n, c):
        """pointer BitCast `c -> n`: the cells of different element types have different representations (f64 = bit
        pattern in [0, 2^64), i64 = signed value, u64 = value in [0, 2^64)), so a cast may not change the element type.
        Accepted: to `void*` (memcpy / memset arguments), from an opaque q120 element or a precomputation struct,
        `uint8_t* -> int64_t*` / `double*` (scratch bytes used as cells), an integer element to a vector type, between the unsigned views u64 / u32."""
        def elem(q):
            q = strip_ptr_const(q).strip()
            if not q.endswith("*") and "(*" not in q:
                self.err(n, f"pointer cast involving the non-pointer type '{q}'")
            base = re.sub(r"\(\*\s*(?:const)?\s*\)(?:\[\d+\])+$", "", q)
            base = base[:-1].strip() if base.endswith("*") else base.strip()
            base = " ".join(t for t in base.split() if t != "const")
            if base == "void":
                return "void"
            if base in ("uint8_t", "unsigned char"):
                return "u8"
            if base in VEC_CELLS:
                return "vec"
            try:
                return norm_elem(base)
            except Unsupported:
                self.err(n, f"pointer cast involving '{base}'")
        to, frm = elem(qual(n)), elem(qual(c))
        ok = (to == frm or to == "void" or frm == "opaque" or frm.startswith("struct:") or to == "opaque"
              or (frm == "u8" and to in ("i64", "f64")) or (to == "vec" and frm in ("i64", "u64", "vec"))
              or {to, frm} <= {"u64", "u32"})
        if not ok:
            self.err(n, f"pointer cast that changes the element type ({frm} -> {to})")

    def bool_operand(self, n, what):
        """operand used as a truth value: a `double` is rejected (the IR tests `pattern != 0`, wrong for -0.0)"""
        if not self.is_ptr(n) and scalar_ty(n, what) == "f64":
            self.err(n, f"double used as a truth value ({what})")

    def cond(self, n):
        self.bool_operand(n, "condition")
        return self.expr(n)

    def fma_hazard(self, n, a, b):
        """`x*y + z` on doubles in a file compiled with -mfma: the compiler may fuse (one rounding), the IR would round
        twice"""
        flags = EXTRA_CFLAGS.get(self.decl.get("_src", ""), [])
        if "-mfma" not in flags:
            return
        for c in (a, b):
            while c.get("kind") in ("ParenExpr", "ImplicitCastExpr") and c.get("castKind", "NoOp") in ("NoOp", "LValueToRValue"):
                c = c["inner"][0]
            if c.get("kind") == "BinaryOperator" and c.get("opcode") == "*" and scalar_ty(c, "operand") == "f64":
                self.err(n, "double multiplication feeding an addition in a file compiled with -mfma (possible fused multiply-add)")

    def is_null_const(self, n):
        if n.get("kind") == "ImplicitCastExpr" and n.get("castKind") == "NullToPointer":
            c = n["inner"][0]
            while c.get("kind") == "ParenExpr":
                c = c["inner"][0]
            return c.get("kind") == "IntegerLiteral" and int(c["value"]) == 0
        return False

    def is_ptr(self, n):
        return is_ptr_or_arrptr(qual(n))

    def old_style_base(self, base):
        """`p[i]` with `p` a pointer parameter registered with an 8-byte scalar element type (original path)"""
        c = base
        while c.get("kind") in ("ParenExpr", "ImplicitCastExpr") and c.get("castKind", "NoOp") in ("NoOp", "LValueToRValue"):
            c = c["inner"][0]
        if c.get("kind") != "DeclRefExpr":
            return False
        rid = c["referencedDecl"]["id"]
        return rid in self.ptrs and self.ptrs[rid] not in self.param_elem and not (self.inline and rid in self.inline[-1])

    def expr(self, n):
        k = n.get("kind")
        if k == "ParenExpr":
            return self.expr(n["inner"][0])
        if k == "IntegerLiteral":
            t = scalar_ty(n, "literal")
            v = int(n["value"])
            lo, hi = RANGE[t]
            if not (lo <= v <= hi):
                self.err(n, f"literal {v} outside the range of {t}")
            return f"(.lit {v})" if v >= 0 else f"(.lit ({v}))"
        if k == "UnaryExprOrTypeTraitExpr":
            if n.get("name") != "sizeof" or "argType" not in n:
                self.err(n, "type trait other than sizeof(type)")
            q = strip_cv(n["argType"].get("desugaredQualType", n["argType"].get("qualType")))
            if q not in TYMAP:
                self.err(n, f"sizeof({q})")
            return f"(.lit {SIZEOF[TYMAP[q]]})"
        if k in ("ImplicitCastExpr", "CStyleCastExpr"):
            ck = n.get("castKind")
            c = n["inner"][0]
            if ck == "LValueToRValue":
                return self.lvalue_read(c)
            if ck == "NoOp":
                return self.expr(c)
            if ck == "IntegralCast":
                t = scalar_ty(n, "cast")
                if t == "f64" or scalar_ty(c, "cast operand") == "f64":
                    self.err(n, "cast involving double")
                return f"(.cast .{t} {self.expr(c)})"
            if (ck == "IntegralToFloating" and scalar_ty(n, "cast") == "f64" and c.get("kind") == "IntegerLiteral"
                    and int(c["value"]) == 0):
                return "(.lit 0)"       # `(double)0`: the binary64 pattern of +0.0 is 0 (the only conversion accepted)
            self.err(n, f"cast kind {ck}")
        if k == "UnaryOperator":
            op = n["opcode"]
            if op in ("-", "~", "!"):
                c = n["inner"][0]
                if op == "!":
                    self.bool_operand(c, "operand of !")
                t = scalar_ty(c, "operand")
                if op != "!" and scalar_ty(n, "result") != t:
                    self.err(n, "unary operator whose result type differs from its operand type")
                return f"(.un .{ {'-': 'neg', '~': 'bnot', '!': 'lnot'}[op] } .{t} {self.expr(c)})"
            if op == "+":
                return self.expr(n["inner"][0])
            self.err(n, f"unary operator '{op}' in expression position")
        if k == "BinaryOperator":
            op = n["opcode"]
            a, b = n["inner"]
            if op == "<" and self.is_ptr(a) and self.is_ptr(b):
                pa, pb = self.pexpr(a), self.pexpr(b)
                return f"(.ptrLt {pa[0]} {pa[1]} {pb[0]} {pb[1]})"
            if op in CMP and (self.is_ptr(a) or self.is_ptr(b)):
                if op not in ("==", "!="):
                    self.err(n, "pointer ordering comparison other than <")
                pa, pb = self.pexpr(a), self.pexpr(b)
                if pb == (".null", "(.lit 0)") and pa[0].startswith("(.param ") and pa[1] == "(.lit 0)":
                    e = f"(.isNull {pa[0][len('(.param '):-1]})"
                elif pa == (".null", "(.lit 0)") and pb[0].startswith("(.param ") and pb[1] == "(.lit 0)":
                    e = f"(.isNull {pb[0][len('(.param '):-1]})"
                else:
                    e = f"(.ptrEq {pa[0]} {pa[1]} {pb[0]} {pb[1]})"
                return e if op == "==" else f"(.un .lnot .i32 {e})"
            if op == "/":
                # unsigned `x / 2^k` with a literal divisor: exactly `x >> k`
                t = scalar_ty(n, "result")
                d = b
                while d.get("kind") in ("ParenExpr", "ImplicitCastExpr") and d.get("castKind", "IntegralCast") == "IntegralCast":
                    d = d["inner"][0]
                if (t in ("u64", "u32") and scalar_ty(a, "operand") == t and scalar_ty(b, "operand") == t
                        and d.get("kind") == "IntegerLiteral" and int(d["value"]) > 0
                        and int(d["value"]) & (int(d["value"]) - 1) == 0):
                    return f"(.bin .shr .{t} {self.expr(a)} (.lit {int(d['value']).bit_length() - 1}))"
                self.err(n, "division other than an unsigned division by a literal power of two")
            if op in ARITH:
                t = scalar_ty(n, "result")
                ta, tb = scalar_ty(a, "operand"), scalar_ty(b, "operand")
                if op in ("<<", ">>"):
                    if ta != t:
                        self.err(n, "shift whose result type differs from the left operand type")
                    if t == "f64" or tb == "f64":
                        self.err(n, "shift of double")
                elif not (ta == t and tb == t):
                    self.err(n, f"operands {ta},{tb} do not have the result type {t}")
                if op in ("|", "^") and t not in ("u64", "u32"):
                    self.err(n, f"bitwise '{op}' on the signed type {t}")
                if op == "&" and t not in ("u64", "u32", "i64", "i32"):
                    self.err(n, f"bitwise '&' on the type {t}")
                if op == "%" and t not in ("u64", "u32"):
                    self.err(n, f"'%' on the type {t} (only unsigned operands are supported)")
                if t == "f64" and op in ("+", "-"):
                    self.fma_hazard(n, a, b)
                return f"(.bin .{ARITH[op]} .{t} {self.expr(a)} {self.expr(b)})"
            if op in CMP:
                ta, tb = scalar_ty(a, "operand"), scalar_ty(b, "operand")
                if ta != tb:
                    self.err(n, f"comparison of {ta} with {tb}")
                if ta == "f64":
                    self.err(n, "comparison of doubles")
                return f"(.bin .{CMP[op]} .{ta} {self.expr(a)} {self.expr(b)})"
            if op in ("&&", "||"):
                self.bool_operand(a, f"operand of {op}")
                self.bool_operand(b, f"operand of {op}")
            if op == "&&":
                return f"(.land {self.expr(a)} {self.expr(b)})"
            if op == "||":
                return f"(.lor {self.expr(a)} {self.expr(b)})"
            self.err(n, f"binary operator '{op}' in expression position")
        if k == "CallExpr":
            return self.inline_call(n)
        if k == "MemberExpr":
            self.err(n, "member access outside an rvalue read")
        if k == "ConditionalOperator":
            c, a, b = n["inner"]
            self.bool_operand(c, "condition of ?:")
            if scalar_ty(a, "operand") != scalar_ty(b, "operand"):
                self.err(n, "?: with operands of different types")
            return f"(.cond {self.expr(c)} {self.expr(a)} {self.expr(b)})"
        self.err(n, "expression")

    def inline_call(self, n):
        """call of a function of the same file whose body is `{ return e; }` over scalar parameters: the
        (side-effect free) arguments are substituted for the parameters in `e`"""
        callee = n["inner"][0]
        while callee.get("kind") in ("ImplicitCastExpr", "ParenExpr"):
            callee = callee["inner"][0]
        fname = callee.get("referencedDecl", {}).get("name")
        if callee.get("kind") != "DeclRefExpr" or not fname:
            self.err(n, "indirect call")
        if self.inline_depth > 8:
            self.err(n, "inlining too deep (recursion?)")
        try:
            d = load_ast(fname)
        except Unsupported as e:
            self.err(n, f"call of '{fname}' ({e})")
        params = [c for c in d["inner"] if c.get("kind") == "ParmVarDecl"]
        bodies = [c for c in d["inner"] if c.get("kind") == "CompoundStmt"]
        args = n["inner"][1:]
        if len(params) != len(args) or len(bodies) != 1:
            self.err(n, f"call of '{fname}': arity")
        stmts = bodies[0].get("inner", [])
        if len(stmts) != 1 or stmts[0].get("kind") != "ReturnStmt" or len(stmts[0].get("inner", [])) != 1:
            self.err(n, f"call of '{fname}' whose body is not a single `return e;`")
        sub = {}
        for prm, arg in zip(params, args):
            if self.is_ptr(prm):
                self.err(n, f"call of '{fname}' with a pointer parameter")
            if scalar_ty(prm, "parameter") != scalar_ty(arg, "argument"):
                self.err(n, f"call of '{fname}': argument type differs from the parameter type")
            sub[prm["id"]] = self.expr(arg)      # translated in the caller's context
        ret = stmts[0]["inner"][0]
        if scalar_ty(ret, "return value") != scalar_ty(n, "call"):
            self.err(n, f"call of '{fname}': return expression type differs from the call type")
        self.inline.append(sub)
        self.inline_depth += 1
        try:
            saved_name = self.name
            self.name = f"{saved_name} (inlined {fname})"
            return self.expr(ret)
        finally:
            self.name = saved_name
            self.inline.pop()
            self.inline_depth -= 1

    def pexpr(self, n, cast8=False):
        """a pointer-valued expression: returns (base, offset expression in cells)"""
        k = n.get("kind")
        if k == "ParenExpr":
            return self.pexpr(n["inner"][0], cast8)
        if self.is_null_const(n):
            return (".null", "(.lit 0)")
        if k in ("ImplicitCastExpr", "CStyleCastExpr"):
            ck = n.get("castKind")
            c = n["inner"][0]
            if ck == "NoOp":
                return self.pexpr(c, cast8)
            if ck == "BitCast":
                # `(int64_t*)tmp_space` with `uint8_t* tmp_space`: the byte pointer is used as a cell pointer
                self.check_ptr_cast(n, c)
                if strip_cv(strip_ptr_const(qual(n))[:-1].strip()) == "void":
                    return self.pexpr(c, True)      # argument of a `void*` parameter: the same cells
                try:
                    to = ptr_elem_ty(qual(n))
                except Unsupported:
                    if parse_ctype(qual(n))[1] != "opaque":
                        raise
                    to = "u64"                      # cast to an opaque module object: the same cells
                if SIZEOF[to] % 8 != 0:
                    self.err(n, "pointer cast to an element type that is not a whole number of 64-bit cells")
                return self.pexpr(c, True)
            if ck == "LValueToRValue":
                while c.get("kind") == "ParenExpr":
                    c = c["inner"][0]
                if c.get("kind") == "DeclRefExpr":
                    rid = c["referencedDecl"]["id"]
                    if rid in self.ptrs:
                        if rid in self.byte_ptrs and not cast8:
                            self.err(c, "byte pointer used without a cast to a 64-bit element pointer")
                        return (f"(.param {self.ptrs[rid]})", "(.lit 0)")
                    if rid in self.pslots:
                        return (f"(.pvar {self.pslots[rid]})", "(.lit 0)")
                self.err(c, "pointer value that is not a pointer parameter or pointer local")
            self.err(n, f"pointer cast kind {ck}")
        if k == "BinaryOperator" and n["opcode"] == "+":
            a, b = n["inner"]
            if self.is_ptr(b) and not self.is_ptr(a):
                a, b = b, a
            if not self.is_ptr(a) or self.is_ptr(b):
                self.err(n, "pointer addition form")
            base, off = self.pexpr(a, cast8)
            if scalar_ty(b, "pointer offset") == "f64":
                self.err(n, "non-integer pointer offset")
            lit = b
            while lit.get("kind") in ("ParenExpr", "ImplicitCastExpr") and lit.get("castKind", "IntegralCast") == "IntegralCast":
                lit = lit["inner"][0]
            nonneg_lit = lit.get("kind") == "IntegerLiteral" and int(lit["value"]) >= 0
            if (off != "(.lit 0)" or ptr_elem_ty(qual(a)) == "u8") and scalar_ty(b, "pointer offset") != "u64" and not nonneg_lit:
                self.err(n, "nested / byte pointer arithmetic with an offset that is not a uint64_t")
            if ptr_elem_ty(qual(a)) == "u8":
                # `bytep + E * 8` (or `E * sizeof(double)`): a whole number of cells; the cell offset is the byte
                # offset shifted right by 3 (exact: the byte offset is a multiple of 8 also after wrapping)
                m = b
                while m.get("kind") == "ParenExpr":
                    m = m["inner"][0]
                eight = False
                if m.get("kind") == "BinaryOperator" and m.get("opcode") == "*":
                    for f_ in m["inner"]:
                        while f_.get("kind") in ("ParenExpr", "ImplicitCastExpr") and f_.get("castKind", "IntegralCast") == "IntegralCast":
                            f_ = f_["inner"][0]
                        if f_.get("kind") == "IntegerLiteral" and int(f_["value"]) == 8:
                            eight = True
                        if f_.get("kind") == "UnaryExprOrTypeTraitExpr" and self.expr(f_) == "(.lit 8)":
                            eight = True
                if not eight:
                    self.err(n, "byte pointer plus an offset that is not syntactically a multiple of 8")
                o2 = f"(.bin .shr .u64 {self.expr(b)} (.lit 3))"
            elif SIZEOF[ptr_elem_ty(qual(a))] != 8:
                self.err(n, "arithmetic on a pointer whose element is not 8 bytes wide (only ++/-- is supported there)")
            else:
                o2 = f"(.lit {int(lit['value'])})" if nonneg_lit else self.expr(b)
            if off == "(.lit 0)":
                return (base, o2)
            # `p + x + y`: one offset, added in uint64 (as the address computation does)
            return (base, f"(.bin .add .u64 {off} {o2})")
        self.err(n, "pointer expression")


    # ------------------------------------------------------------------ generalised pointer values
    # A pointer value is {"k": "mem", "base": PBase string, "off": offset, "unit": 8 | 4} (offset counted in
    # `unit`-byte elements from the cell-aligned base) or {"k": "slots", "base": first slot, "len": n, "off": offset}
    # (a local array); offsets are python ints (literals) or IR expressions of type u64.
    def gidx(self, n):
        c = n
        while c.get("kind") in ("ParenExpr", "ImplicitCastExpr") and c.get("castKind", "IntegralCast") in ("IntegralCast", "NoOp"):
            c = c["inner"][0]
        if c.get("kind") == "IntegerLiteral":
            v = int(c["value"])
            if v < 0:
                self.err(n, "negative literal index")
            return v
        t = scalar_ty(n, "index")
        if t == "f64":
            self.err(n, "non-integer index")
        e = self.expr(n)
        return e if t == "u64" else f"(.cast .u64 {e})"

    def struct_of(self, n):
        """n: pointer rvalue to a precomputation struct -> (pointer index, struct name)"""
        c = n
        while c.get("kind") in ("ParenExpr", "ImplicitCastExpr") and c.get("castKind", "NoOp") in ("NoOp", "LValueToRValue"):
            c = c["inner"][0]
        if c.get("kind") == "DeclRefExpr":
            rid = c["referencedDecl"]["id"]
            if self.inline and rid in self.inline[-1] and isinstance(self.inline[-1][rid], dict) \
                    and self.inline[-1][rid].get("k") == "struct":
                return self.inline[-1][rid]["p"], self.inline[-1][rid]["name"]
            if rid in self.ptrs and self.param_elem.get(self.ptrs[rid], "").startswith("struct:"):
                return self.ptrs[rid], self.param_elem[self.ptrs[rid]][len("struct:"):]
        self.err(n, "struct pointer that is not a precomputation parameter")

    def retarget(self, n, p, q):
        """pointer value `p` seen through the pointer type `q`"""
        kind, elem, _ = parse_ctype(q)
        if kind != "ptr":
            self.err(n, "cast to a non-pointer type")
        if elem == "opaque" or elem.startswith("struct:"):
            return p
        unit = 4 if elem == "u32" else 8
        if p["k"] == "slots":
            if unit != 8:
                self.err(n, "local array seen through a 32-bit pointer")
            return p
        if p["unit"] == unit:
            return p
        if p["unit"] == 8 and unit == 4:
            return dict(p, unit=4, off=omul(p["off"], 2))
        if isinstance(p["off"], int) and p["off"] % 2 == 0:
            return dict(p, unit=8, off=p["off"] // 2)
        self.err(n, "cast of a 32-bit element pointer with a non-constant offset to a 64-bit element pointer")

    def pv(self, n):
        """pointer-valued rvalue, or lvalue of array type -> pointer value of its first element"""
        k = n.get("kind")
        if k == "ParenExpr":
            return self.pv(n["inner"][0])
        if self.is_null_const(n):
            return {"k": "mem", "base": ".null", "off": 0, "unit": 8}
        if k in ("ImplicitCastExpr", "CStyleCastExpr"):
            ck = n.get("castKind")
            c = n["inner"][0]
            if ck in ("NoOp", "ArrayToPointerDecay"):
                return self.pv(c)
            if ck == "BitCast":
                self.check_ptr_cast(n, c)
                return self.retarget(n, self.pv(c), qual(n))
            if ck == "LValueToRValue":
                while c.get("kind") == "ParenExpr":
                    c = c["inner"][0]
                if c.get("kind") == "DeclRefExpr":
                    rid = c["referencedDecl"]["id"]
                    if self.inline and rid in self.inline[-1]:
                        v = self.inline[-1][rid]
                        if isinstance(v, dict) and v.get("k") in ("mem", "slots"):
                            return dict(v)
                        self.err(c, "inlined parameter used as a pointer")
                    if rid in self.ptrs:
                        pi = self.ptrs[rid]
                        if rid in self.byte_ptrs:
                            self.err(c, "byte pointer in a general pointer expression")
                        kind, elem, dims = parse_ctype(qual(c))
                        return {"k": "mem", "base": f"(.param {pi})", "off": 0, "unit": 4 if elem == "u32" else 8}
                    if rid in self.pslots:
                        elem = self.pslot_elem.get(rid, "u64")
                        return {"k": "mem", "base": f"(.pvar {self.pslots[rid]})", "off": 0, "unit": 4 if elem == "u32" else 8}
                self.err(c, "pointer value that is not a pointer parameter or pointer local")
            self.err(n, f"pointer cast kind {ck}")
        if k == "DeclRefExpr":     # lvalue of array type
            rid = n["referencedDecl"]["id"]
            if self.inline and rid in self.inline[-1]:
                v = self.inline[-1][rid]
                if isinstance(v, dict) and v.get("k") in ("mem", "slots"):
                    return dict(v)
            if rid in self.arrays:
                b, ln = self.arrays[rid]
                return {"k": "slots", "base": b, "len": ln, "off": 0}
            self.err(n, "array that is not a local array")
        if k == "MemberExpr":      # array field of a precomputation struct
            if not n.get("isArrow"):
                self.err(n, "member access with '.'")
            pi, sname = self.struct_of(n["inner"][0])
            fields = load_struct(sname)
            if n.get("name") not in fields:
                self.err(n, f"unknown field '{n.get('name')}'")
            return {"k": "mem", "base": f"(.param {pi})", "off": fields[n["name"]][0], "unit": 8}
        if k == "ArraySubscriptExpr":   # element that is itself an array (row of a 2-d array / array pointer)
            base, idx = n["inner"]
            p = self.pv(base)
            kind, elem, dims = parse_ctype(qual(n))
            stride = prod(dims) if kind == "arr" else 1
            return dict(p, off=oadd(p["off"], omul(self.gidx(idx), stride)))
        if k == "BinaryOperator" and n["opcode"] == "+":
            a, b = n["inner"]
            if is_ptr_or_arrptr(qual(b)) and not is_ptr_or_arrptr(qual(a)):
                a, b = b, a
            p = self.pv(a)
            kind, elem, dims = parse_ctype(qual(a))
            return dict(p, off=oadd(p["off"], omul(self.gidx(b), prod(dims))))
        self.err(n, "pointer expression (general form)")

    def elem_lv(self, c):
        """scalar lvalue `a[i]` / `p->f`: pointer value of the element and its scalar type"""
        k = c.get("kind")
        if k == "ArraySubscriptExpr":
            base, idx = c["inner"]
            p = self.pv(base)
            et = scalar_ty(c, "element")
            if p["k"] == "mem" and ((p["unit"] == 4) != (et in ("u32",))):
                self.err(c, "element width differs from the pointer's element width")
            if et not in ("u64", "i64", "u32", "f64"):     # f64: an 8-byte cell holding the binary64 pattern
                self.err(c, f"element type {et}")
            if p["k"] == "slots" and et != "u64":
                self.err(c, "local array of a type other than uint64_t")
            return dict(p, off=oadd(p["off"], self.gidx(idx))), et
        if k == "MemberExpr":
            if not c.get("isArrow"):
                self.err(c, "member access with '.'")
            pi, sname = self.struct_of(c["inner"][0])
            fields = load_struct(sname)
            if c.get("name") not in fields or fields[c["name"]][1] != 1:
                self.err(c, f"scalar field '{c.get('name')}'")
            return {"k": "mem", "base": f"(.param {pi})", "off": fields[c["name"]][0], "unit": 8}, scalar_ty(c, "field")
        self.err(c, "element lvalue")

    def read_elem(self, p):
        if p["k"] == "slots":
            return f"(.avar {p['base']} {p['len']} {ostr(p['off'])})"
        if p["unit"] == 4:
            return f"(.pload32 {p['base']} {ostr(p['off'])})"
        return f"(.pload {p['base']} {ostr(p['off'])})"

    def write_elem(self, p, e):
        if p["k"] == "slots":
            return ("aset", p["base"], p["len"], ostr(p["off"]), e)
        if p["unit"] == 4:
            return ("pstore32", p["base"], ostr(p["off"]), e)
        return ("pstore", p["base"], ostr(p["off"]), e)

    def flat_init(self, n, dims):
        """initialiser list of an array with dimensions `dims`, flattened, missing elements = 0"""
        total = prod(dims)
        if n is None or n.get("kind") == "ImplicitValueInitExpr":
            return ["(.lit 0)"] * total
        if n.get("kind") != "InitListExpr":
            self.err(n, "array initialiser")
        out = []
        for c in n.get("inner", []):
            if len(dims) == 1:
                out.append(self.expr(c))
            else:
                out += self.flat_init(c, dims[1:])
        if len(out) > total:
            self.err(n, "too many initialisers")
        return out + ["(.lit 0)"] * (total - len(out))

    def inline_stmt_call(self, n, fname):
        """call, as a statement, of a `static inline` helper of the same file: its body is translated in place with
        the (side-effect free) arguments substituted for the parameters"""
        if self.inline_depth > 8:
            self.err(n, "inlining too deep (recursion?)")
        try:
            d = load_ast(fname)
        except Unsupported as e:
            self.err(n, f"call of '{fname}' ({e})")
        params = [c for c in d["inner"] if c.get("kind") == "ParmVarDecl"]
        bodies = [c for c in d["inner"] if c.get("kind") == "CompoundStmt"]
        args = n["inner"][1:]
        if len(params) != len(args) or len(bodies) != 1:
            self.err(n, f"call of '{fname}': arity")
        if d["type"]["qualType"].split("(")[0].strip() != "void":
            self.err(n, f"call of the non-void function '{fname}' as a statement")
        sub = {}
        for prm, arg in zip(params, args):
            q = qual(prm)
            if is_ptr_or_arrptr(q):
                kind, elem, dims = parse_ctype(q)
                if elem.startswith("struct:"):
                    pi, sname = self.struct_of(arg)
                    sub[prm["id"]] = {"k": "struct", "p": pi, "name": sname}
                else:
                    sub[prm["id"]] = self.retarget(arg, self.pv(arg), q)
            else:
                if scalar_ty(prm, "parameter") != scalar_ty(arg, "argument"):
                    self.err(n, f"call of '{fname}': argument type differs from the parameter type")
                e = self.expr(arg)
                if any(t in e for t in (".load", ".pload", ".avar")):
                    self.err(n, f"call of '{fname}': a scalar argument that reads memory is substituted by name in the inlined body")
                sub[prm["id"]] = e
        self.inline.append(sub)
        self.inline_depth += 1
        saved_name, saved_ret = self.name, self.ret_slot
        try:
            self.name = f"{saved_name} (inlined {fname})"
            self.no_return = getattr(self, "no_return", 0) + 1
            return self.stmt(bodies[0]) or ("skip",)
        finally:
            self.no_return -= 1
            self.name = saved_name
            self.inline.pop()
            self.inline_depth -= 1

    def callee_name(self, n):
        callee = n["inner"][0]
        while callee.get("kind") in ("ImplicitCastExpr", "ParenExpr"):
            callee = callee["inner"][0]
        return callee.get("referencedDecl", {}).get("name")

    def vexpr(self, n):
        """a vector-valued expression (`__m256i` / `__m128i`): returns (IR string, lanes)"""
        k = n.get("kind")
        if k == "ParenExpr":
            return self.vexpr(n["inner"][0])
        if k == "ImplicitCastExpr" and n.get("castKind") == "NoOp":
            return self.vexpr(n["inner"][0])
        if k == "CallExpr":
            fname = self.callee_name(n)
            args = n["inner"][1:]
            if fname in VEC_LOAD and len(args) == 1:
                b, o = self.pexpr(args[0])
                return (f"(.vload {VEC_LOAD[fname]} {b} {o})", VEC_LOAD[fname])
            if fname in VEC_BIN and len(args) == 2:
                op, lanes = VEC_BIN[fname]
                (x, lx), (y, ly) = self.vexpr(args[0]), self.vexpr(args[1])
                if lx != lanes or ly != lanes:
                    self.err(n, f"'{fname}' on vectors of the wrong width")
                return (f"(.{op} {x} {y})", lanes)
            if fname in VEC_SET1 and len(args) == 1:
                if scalar_ty(args[0], "broadcast value") != "i64":
                    self.err(n, f"'{fname}' argument type")
                return (f"(.vset1 {VEC_SET1[fname]} {self.expr(args[0])})", VEC_SET1[fname])
            self.err(n, f"vector intrinsic '{fname}'")
        self.err(n, "vector expression")

    # ---- `__m256i` LOCALS, scalarised: a vector local is 4 consecutive uint64 slots; only LANE-WISE intrinsics are
    # accepted (lane k of the result depends on lane k of the operands only), so assigning the 4 slots one after the
    # other is the parallel assignment.  Semantics of the intrinsics (Intel Intrinsics Guide), per 64-bit lane:
    #   _mm256_setzero_si256() = 0;  _mm256_set1_epi64x(a) = a (as a 64-bit pattern);  _mm256_loadu_si256(p) = p[k];
    #   _mm256_add_epi64 = wrapping +;  _mm256_and_si256 = &;  _mm256_mul_epu32(a,b) = (a & 0xFFFFFFFF) * (b & 0xFFFFFFFF)
    #   (exact, < 2^64);  _mm256_srli_epi64(a, n) = a >> n (the IR reports `Err.ub` for n >= 64, where the
    #   instruction returns 0; a `uint64_t` count is used without its conversion to `int`, see `vlane`);  _mm256_storeu_si256(p, v): p[k] = v[k].
    def is_vec256(self, n):
        return strip_cv(n.get("type", {}).get("qualType", "")) == "__m256i"

    def vec_local(self, n):
        c = n
        while c.get("kind") in ("ParenExpr", "ImplicitCastExpr") and c.get("castKind", "NoOp") in ("NoOp", "LValueToRValue"):
            c = c["inner"][0]
        if c.get("kind") == "DeclRefExpr" and c["referencedDecl"]["id"] in self.vecs:
            return self.vecs[c["referencedDecl"]["id"]]
        return None

    def vptr(self, n):
        """pointer argument of a vector load / store: (base, offset in cells)"""
        try:
            return self.pexpr(n)
        except Unsupported:
            c = n
            while c.get("kind") in ("ParenExpr", "ImplicitCastExpr", "CStyleCastExpr") and c.get("castKind", "NoOp") in ("NoOp", "BitCast"):
                if c.get("castKind") == "BitCast":
                    self.check_ptr_cast(c, c["inner"][0])
                c = c["inner"][0]
            pvv = self.pv(c)
            if pvv["k"] != "mem" or pvv["unit"] != 8:
                self.err(n, "vector load / store through a pointer that is not a pointer to 64-bit cells")
            return (pvv["base"], ostr(pvv["off"]))

    def vlane(self, n, k):
        """lane `k` (a uint64 expression) of a `__m256i` expression"""
        b = self.vec_local(n)
        if b is not None:
            return f"(.var {b + k})"
        kind = n.get("kind")
        if kind == "ParenExpr" or (kind == "ImplicitCastExpr" and n.get("castKind") == "NoOp"):
            return self.vlane(n["inner"][0], k)
        if kind == "CallExpr":
            fname = self.callee_name(n)
            args = n["inner"][1:]
            if fname == "_mm256_setzero_si256" and not args:
                return "(.lit 0)"
            if fname == "_mm256_set1_epi64x" and len(args) == 1:
                if scalar_ty(args[0], "broadcast value") != "i64":
                    self.err(n, f"'{fname}' argument type")
                return f"(.cast .u64 {self.expr(args[0])})"
            if fname == "_mm256_loadu_si256" and len(args) == 1:
                base, off = self.vptr(args[0])
                return f"(.pload {base} {'(.lit %d)' % k if off == '(.lit 0)' else '(.bin .add .u64 %s (.lit %d))' % (off, k)})"
            if fname in ("_mm256_add_epi64", "_mm256_and_si256") and len(args) == 2:
                op = "add" if fname == "_mm256_add_epi64" else "band"
                return f"(.bin .{op} .u64 {self.vlane(args[0], k)} {self.vlane(args[1], k)})"
            if fname == "_mm256_mul_epu32" and len(args) == 2:
                lo = lambda e: f"(.bin .band .u64 {e} (.lit 4294967295))"
                return f"(.bin .mul .u64 {lo(self.vlane(args[0], k))} {lo(self.vlane(args[1], k))})"
            if fname == "_mm256_srli_epi64" and len(args) == 2:
                if scalar_ty(args[1], "shift count") != "i32":
                    self.err(n, f"'{fname}' count type")
                cnt = args[1]
                # `(int)H` with `uint64_t H`: the count is passed WITHOUT the conversion to int.  Counts >= 64 are
                # `Err.ub` in the IR either way the conversion goes (2^31 <= H would convert to a negative or small int,
                # for which the instruction shifts by another amount: the IR is stricter there, never different)
                if cnt.get("kind") == "ImplicitCastExpr" and cnt.get("castKind") == "IntegralCast" \
                        and scalar_ty(cnt["inner"][0], "shift count") in ("u64", "u32"):
                    cnt = cnt["inner"][0]
                return f"(.bin .shr .u64 {self.vlane(args[0], k)} {self.expr(cnt)})"
            self.err(n, f"vector intrinsic '{fname}' (not modelled lane-wise)")
        self.err(n, "vector expression")

    def lvalue_read(self, c):
        while c.get("kind") == "ParenExpr":
            c = c["inner"][0]
        k = c.get("kind")
        if k == "MemberExpr":
            base = c["inner"][0]
            while base.get("kind") in ("ParenExpr", "ImplicitCastExpr"):
                base = base["inner"][0]
            if (c.get("name") == "nn" and c.get("isArrow") and base.get("kind") == "DeclRefExpr"
                    and base["referencedDecl"]["id"] in self.module_ids):
                return f"(.var {self.slots[base['referencedDecl']['id']]})"
            if (c.get("name") == "m" and c.get("isArrow") and base.get("kind") == "DeclRefExpr"
                    and base["referencedDecl"]["id"] in self.module_m_ids):
                return f"(.var {self.slots[base['referencedDecl']['id']] + 1})"
            p, _ = self.elem_lv(c)      # scalar field of a precomputation struct
            return self.read_elem(p)
        if k == "DeclRefExpr":
            rid = c["referencedDecl"]["id"]
            if self.inline and rid in self.inline[-1]:
                if not isinstance(self.inline[-1][rid], str):
                    self.err(c, "pointer parameter of an inlined function read as a scalar")
                return self.inline[-1][rid]
            if rid in self.slots and rid not in self.module_ids:
                return f"(.var {self.slots[rid]})"
            self.err(c, f"read of '{c['referencedDecl'].get('name')}' which is not a scalar parameter/local")
        if k == "ArraySubscriptExpr":
            if self.old_style_base(c["inner"][0]):
                p, i = self.subscript(c)
                return f"(.load {p} {i})"
            p, _ = self.elem_lv(c)
            return self.read_elem(p)
        self.err(c, "lvalue")

    def subscript(self, c):
        base, idx = c["inner"]
        p = self.ptr_ref(base)
        et = scalar_ty(c, "element")
        if et != self.ptr_ty[p]:
            self.err(c, "element type differs from the pointer's element type")
        if SIZEOF[et] != 8:
            self.err(c, "element size other than 8 bytes")
        if scalar_ty(idx, "index") == "f64":
            self.err(c, "non-integer index")
        return p, self.expr(idx)

    # ------------------------------------------------------------------ statements
    @staticmethod
    def seq(stmts):
        stmts = [s for s in stmts if s is not None]
        if not stmts:
            return ("skip",)
        r = stmts[-1]
        for s in reversed(stmts[:-1]):
            r = ("seq", s, r)
        return r

    def assign_to(self, lhs, rhs_of):
        """lhs: lvalue node; rhs_of(read_expr) -> expression string; returns a statement"""
        while lhs.get("kind") == "ParenExpr":
            lhs = lhs["inner"][0]
        k = lhs.get("kind")
        if k == "DeclRefExpr":
            rid = lhs["referencedDecl"]["id"]
            if rid not in self.slots:
                self.err(lhs, f"assignment to '{lhs['referencedDecl'].get('name')}' which is not a scalar parameter/local")
            s = self.slots[rid]
            return ("assign", s, rhs_of(f"(.var {s})"))
        if k == "ArraySubscriptExpr":
            if self.old_style_base(lhs["inner"][0]):
                p, i = self.subscript(lhs)
                return ("store", p, i, rhs_of(f"(.load {p} {i})"))
            p, _ = self.elem_lv(lhs)
            return self.write_elem(p, rhs_of(self.read_elem(p)))
        self.err(lhs, "assignment target")

    def effect(self, n):
        """an expression evaluated for its side effect only"""
        k = n.get("kind")
        if k == "ParenExpr":
            return self.effect(n["inner"][0])
        if k == "BinaryOperator" and n["opcode"] == "=" and self.is_vec256(n["inner"][0]):
            vb = self.vec_local(n["inner"][0])
            if vb is None:
                self.err(n, "assignment to a vector that is not a vector local")
            return self.seq([("assign", vb + i, self.vlane(n["inner"][1], i)) for i in range(4)])
        if k == "BinaryOperator" and n["opcode"] == "=" and self.is_ptr(n["inner"][0]):
            lhs, rhs = n["inner"]
            while lhs.get("kind") == "ParenExpr":
                lhs = lhs["inner"][0]
            if lhs.get("kind") != "DeclRefExpr" or lhs["referencedDecl"]["id"] not in self.pslots:
                self.err(n, "assignment to a pointer that is not a pointer local")
            b, o = self.pexpr(rhs)
            return ("passign", self.pslots[lhs["referencedDecl"]["id"]], b, o)
        if k == "BinaryOperator" and n["opcode"] == "=":
            lhs, rhs = n["inner"]
            if scalar_ty(lhs, "assignment") != scalar_ty(rhs, "assignment"):
                self.err(n, "assignment whose right side does not have the type of the left side")
            r = self.expr(rhs)
            return self.assign_to(lhs, lambda _rd: r)
        if k == "BinaryOperator" and n["opcode"] == ",":
            return self.seq([self.effect(c) for c in n["inner"]])
        if k == "CompoundAssignOperator" and n["opcode"] == "+=" and self.is_ptr(n["inner"][0]):
            lhs, rhs = n["inner"]
            while lhs.get("kind") == "ParenExpr":
                lhs = lhs["inner"][0]
            if lhs.get("kind") != "DeclRefExpr" or lhs["referencedDecl"]["id"] not in self.pslots:
                self.err(n, "+= on a pointer that is not a pointer local")
            kind, elem, dims = parse_ctype(qual(lhs))
            if elem not in ("u64", "i64", "f64"):
                self.err(n, "+= on a pointer whose element is not 8 bytes wide")
            s0 = self.pslots[lhs["referencedDecl"]["id"]]
            return ("passign", s0, f"(.pvar {s0})", ostr(omul(self.gidx(rhs), prod(dims))))
        if k == "CompoundAssignOperator":
            op = n["opcode"][:-1]
            if op not in ARITH:
                self.err(n, f"compound assignment '{n['opcode']}'")
            lhs, rhs = n["inner"]
            tl = scalar_ty(lhs, "assignment")
            tc = TYMAP.get(strip_cv(n["computeLHSType"].get("desugaredQualType", n["computeLHSType"]["qualType"])))
            tr = TYMAP.get(strip_cv(n["computeResultType"].get("desugaredQualType", n["computeResultType"]["qualType"])))
            if tc is None or tr is None or tc != tr:
                self.err(n, "compound assignment with unusual computation types")
            if op in ("<<", ">>"):
                if "f64" in (tc, scalar_ty(rhs, "operand")):
                    self.err(n, "shift of double")
            elif scalar_ty(rhs, "operand") != tc:
                self.err(n, "compound assignment operand type")
            if op in ("&", "|", "^") and tc not in ("u64", "u32"):
                self.err(n, f"bitwise '{op}' on the signed type {tc}")
            if op == "%" and tc not in ("u64", "u32"):
                self.err(n, f"'%=' on the type {tc}")
            if "f64" in (tl, tc) and tl != tc:
                self.err(n, "compound assignment mixing double and integer")
            if tc == "f64" and op in ("+", "-"):
                self.fma_hazard(n, lhs, rhs)
            r = self.expr(rhs)

            def rhs_of(rd):
                a = rd if tc == tl else f"(.cast .{tc} {rd})"
                e = f"(.bin .{ARITH[op]} .{tc} {a} {r})"
                return e if tc == tl else f"(.cast .{tl} {e})"
            return self.assign_to(lhs, rhs_of)
        if k == "UnaryOperator" and n["opcode"] in ("++", "--") and self.is_ptr(n["inner"][0]):
            c = n["inner"][0]
            while c.get("kind") == "ParenExpr":
                c = c["inner"][0]
            if c.get("kind") != "DeclRefExpr" or c["referencedDecl"]["id"] not in self.pslots:
                self.err(n, "++/-- on a pointer that is not a pointer local")
            if SIZEOF[ptr_elem_ty(qual(c))] % 8 != 0:
                self.err(n, "++ on a pointer whose element is not a whole number of 8-byte cells")
            cells = SIZEOF[ptr_elem_ty(qual(c))] // 8
            s0 = self.pslots[c["referencedDecl"]["id"]]
            if n["opcode"] == "--":
                self.err(n, "-- on a pointer")
            return ("passign", s0, f"(.pvar {s0})", f"(.lit {cells})")
        if k == "UnaryOperator" and n["opcode"] in ("++", "--"):
            c = n["inner"][0]
            t = scalar_ty(c, "operand")
            if t == "f64":
                self.err(n, "++/-- on double")
            op = "add" if n["opcode"] == "++" else "sub"
            return self.assign_to(c, lambda rd: f"(.bin .{op} .{t} {rd} (.lit 1))")
        if k == "CallExpr":
            callee = n["inner"][0]
            while callee.get("kind") in ("ImplicitCastExpr", "ParenExpr"):
                callee = callee["inner"][0]
            fname = callee.get("referencedDecl", {}).get("name")
            args = n["inner"][1:]
            if fname == "memcpy" and len(args) == 3:
                if scalar_ty(args[2], "byte count") != "u64":
                    self.err(n, "memcpy byte count type")
                try:
                    d, s = self.ptr_ref(args[0]), self.ptr_ref(args[1])
                except Unsupported:
                    # destination / source are pointer expressions: the same `memcpy` statement on the two pointer
                    # parameters of a one-statement callee (body `.memcpy 0 1 (.var 0)`)
                    (bd, od), (bs, os_) = self.pexpr(args[0]), self.pexpr(args[1])
                    return ("rawcall", "(.memcpy 0 1 (.var 0))", 1, [self.expr(args[2])], [f"({bd}, {od})", f"({bs}, {os_})"])
                return ("memcpy", d, s, self.expr(args[2]))
            if fname == "memset" and len(args) == 3:
                if scalar_ty(args[2], "byte count") != "u64" or scalar_ty(args[1], "value") != "i32":
                    self.err(n, "memset argument types")
                try:
                    d = self.ptr_ref(args[0])
                except Unsupported:
                    # `memset(p + k, v, n)`: the `memset` statement on the pointer parameter of a one-statement callee
                    a0 = args[0]
                    while a0.get("kind") in ("ImplicitCastExpr", "ParenExpr") and a0.get("castKind", "BitCast") in ("BitCast", "NoOp"):
                        a0 = a0["inner"][0]
                    et = ptr_elem_ty(qual(a0))
                    if et not in ("i64", "u64", "f64"):
                        self.err(n, "memset through a pointer whose element is not 8 bytes wide")
                    bd, od = self.pexpr(args[0])
                    return ("rawcall", f"(.memset 0 .{et} (.var 0) (.var 1))", 2,
                            [f"(.cast .u64 {self.expr(args[1])})", self.expr(args[2])], [f"({bd}, {od})"])
                return ("memset", d, self.ptr_ty[d], self.expr(args[1]), self.expr(args[2]))
            if fname in EXT_KERNELS:
                kinds, field = EXT_KERNELS[fname]
                if len(args) != len(kinds):
                    self.err(n, f"call of the kernel '{fname}': arity")
                sargs, pargs = [], []
                for kd, arg in zip(kinds, args):
                    if kd == "o":
                        # must be `module->mod.fft64.<field>` of this function's module parameter
                        a = arg
                        path = []
                        while a.get("kind") in ("ImplicitCastExpr", "ParenExpr", "MemberExpr"):
                            if a.get("kind") == "MemberExpr":
                                path.append(a.get("name"))
                            a = a["inner"][0]
                        if (a.get("kind") != "DeclRefExpr" or a["referencedDecl"]["id"] not in self.module_ids
                                or path != [field, "fft64", "mod"]):
                            self.err(n, f"call of the kernel '{fname}': its object is not module->mod.fft64.{field}")
                    elif kd == "s":
                        if scalar_ty(arg, "argument") != "u64":
                            self.err(n, f"call of the kernel '{fname}': scalar argument type")
                        sargs.append(self.expr(arg))
                    else:
                        b, o = self.pexpr(arg)
                        pargs.append(f"({b}, {o})")
                return ("extcall", fname, sargs, pargs)
            if fname == "_mm256_storeu_si256" and len(args) == 2 and self.vec_local(args[1]) is not None:
                vb = self.vec_local(args[1])
                b, o = self.vptr(args[0])
                return self.seq([("pstore", b, "(.lit %d)" % k if o == "(.lit 0)" else "(.bin .add .u64 %s (.lit %d))" % (o, k),
                                  f"(.var {vb + k})") for k in range(4)])
            if fname in VEC_STORE and len(args) == 2:
                b, o = self.pexpr(args[0])
                v, lanes = self.vexpr(args[1])
                if lanes != VEC_STORE[fname]:
                    self.err(n, f"'{fname}' of a vector of the wrong width")
                return ("vstore", lanes, b, o, v)
            if fname in REGISTRY:
                callee = REGISTRY[fname]
                if callee is None:
                    self.err(n, f"call of '{fname}', which could not be translated")
                if len(args) != len(callee.params):
                    self.err(n, f"call of '{fname}': arity")
                sargs, pargs = [], []
                for kind, arg in zip(callee.params, args):
                    if kind[0] in ("m", "M"):
                        a = arg
                        while a.get("kind") in ("ParenExpr", "ImplicitCastExpr"):
                            a = a["inner"][0]
                        if a.get("kind") != "DeclRefExpr" or a["referencedDecl"]["id"] not in self.module_ids:
                            self.err(n, f"call of '{fname}': module argument is not this function's module parameter")
                        sargs.append(f"(.var {self.slots[a['referencedDecl']['id']]})")
                        if kind[0] == "M":
                            if a["referencedDecl"]["id"] not in self.module_m_ids:
                                self.err(n, f"call of '{fname}': internal: module->m not available")
                            sargs.append(f"(.var {self.slots[a['referencedDecl']['id']] + 1})")
                    elif kind[0] == "s":
                        if scalar_ty(arg, "argument") != kind[1]:
                            self.err(n, f"call of '{fname}': scalar argument type")
                        sargs.append(self.expr(arg))
                    else:
                        b, o = self.pexpr(arg)
                        pargs.append(f"({b}, {o})")
                self.calls.append(fname)
                return ("call", fname, sargs, pargs)
            if fname and fname not in TARGETS:
                return self.inline_stmt_call(n, fname)
            self.err(n, f"call of '{fname}'")
        if k == "CStyleCastExpr" and n.get("castKind") == "ToVoid":
            c = n["inner"][0]
            while c.get("kind") == "ParenExpr":
                c = c["inner"][0]
            if c.get("kind") == "IntegerLiteral":   # `assert(...)` under NDEBUG
                return None
            self.err(n, "cast to void of a non-literal")
        self.err(n, "expression statement")

    def stmt(self, n):
        if not n:   # `{}` placeholder of clang for an absent for-init / for-inc
            return None
        k = n.get("kind")
        if k == "CompoundStmt":
            return self.seq([self.stmt(c) for c in n.get("inner", [])])
        if k == "NullStmt":
            return None
        if k == "DeclStmt":
            out = []
            for d in n["inner"]:
                if d.get("kind") != "VarDecl":
                    self.err(d, "declaration")
                if d.get("tls") or (d.get("storageClass") and not (
                        d.get("storageClass") == "static" and d["type"]["qualType"].strip().startswith("const"))):
                    # `static const T x = …` is an ordinary initialised local for the function's behaviour
                    self.err(d, "declaration with a storage class")
                if "init" not in d or not d.get("inner"):
                    self.err(d, f"declaration of '{d.get('name')}' without initialiser")
                if self.is_vec256(d):
                    exprs = [c for c in d["inner"] if not c.get("kind", "").endswith("Comment")]
                    if len(exprs) != 1:
                        self.err(d, "vector declaration with unexpected children")
                    vals = [self.vlane(exprs[0], i) for i in range(4)]
                    b0 = len(self.slot_names)
                    for i in range(4):
                        self.slot_names.append(f"{d.get('name', '?')}[{i}]")
                        self.slot_ty[b0 + i] = "u64"
                    self.vecs[d["id"]] = b0
                    out += [("assign", b0 + i, v) for i, v in enumerate(vals)]
                    continue
                if is_array_type(qual(d)):
                    # local array: consecutive slots, every element initialised at the declaration
                    kind, elem, dims = parse_ctype(qual(d))
                    if elem != "u64":
                        self.err(d, "local array of a type other than uint64_t")
                    exprs = [c for c in d["inner"] if not c.get("kind", "").endswith("Comment")]
                    if len(exprs) != 1:
                        self.err(d, "array declaration with unexpected children")
                    vals = self.flat_init(exprs[0], dims)
                    b0 = len(self.slot_names)
                    for i in range(prod(dims)):
                        self.slot_names.append(f"{d.get('name', '?')}[{i}]")
                        self.slot_ty[b0 + i] = "u64"
                    self.arrays[d["id"]] = (b0, prod(dims))
                    out += [("assign", b0 + i, v) for i, v in enumerate(vals)]
                    continue
                if self.is_ptr(d):
                    exprs = [c for c in d["inner"] if not c.get("kind", "").endswith("Comment")]
                    if "init" not in d or len(exprs) != 1:
                        self.err(d, f"pointer declaration of '{d.get('name')}' without initialiser")
                    opaque_local = False
                    try:
                        opaque_local = parse_ctype(qual(d))[1] == "opaque" and not parse_ctype(qual(d))[2]
                    except Unsupported:
                        pass
                    try:
                        if opaque_local:
                            b, o = self.pexpr(exprs[0], True)     # `VEC_ZNX_DFT* a_dft = (VEC_ZNX_DFT*)tmp_space;`
                        elif strip_cv(strip_ptr_const(qual(d))[:-1].strip()) in ("uint8_t", "unsigned char"):
                            b, o = self.pexpr(exprs[0], True)     # byte pointer local: scratch, passed on as is
                        else:
                            if SIZEOF.get(ptr_elem_ty(qual(d)), 1) % 8 != 0:
                                raise Unsupported("general path")
                            b, o = self.pexpr(exprs[0])
                    except Unsupported:
                        if opaque_local:
                            raise
                        # general path: element `uint32_t`, pointers to arrays, opaque sources
                        kind, elem, dims = parse_ctype(qual(d))
                        if elem not in ("u64", "i64", "u32"):
                            self.err(d, f"pointer local to '{elem}'")
                        pvv = self.retarget(d, self.pv(exprs[0]), qual(d))
                        if pvv["k"] != "mem":
                            self.err(d, "pointer local bound to a local array")
                        off = pvv["off"]
                        if pvv["unit"] == 4:
                            if not (isinstance(off, int) and off % 2 == 0):
                                self.err(d, "32-bit element pointer local that is not known to be cell aligned")
                            off = off // 2
                        b, o = pvv["base"], ostr(off)
                        self.pslot_elem[d["id"]] = elem
                    s0 = len(self.slot_names)
                    self.pslots[d["id"]] = s0
                    self.slot_names += [d.get("name", "?") + ".buf", d.get("name", "?") + ".off"]
                    self.slot_ty[s0] = "ptr"
                    self.slot_ty[s0 + 1] = "ptr"
                    out.append(("passign", s0, b, o))
                    continue
                exprs = [c for c in d["inner"] if not c.get("kind", "").endswith("Comment")]
                if len(exprs) != 1:
                    self.err(d, "declaration with unexpected children")
                init = exprs[0]
                if scalar_ty(d, "variable") != scalar_ty(init, "initialiser"):
                    self.err(d, "initialiser whose type differs from the variable's type")
                r = self.expr(init)      # translated before the slot exists: `T x = x;` is rejected
                out.append(("assign", self.new_slot(d), r))
            return self.seq(out)
        if k == "IfStmt":
            inner = n["inner"]
            if len(inner) not in (2, 3) or any(x in n for x in ("hasInit", "hasVar")):
                self.err(n, "if statement form")
            c = self.cond(inner[0])
            t = self.stmt(inner[1]) or ("skip",)
            e = (self.stmt(inner[2]) if len(inner) == 3 else None) or ("skip",)
            return ("ite", c, t, e)
        if k == "ForStmt":
            init, condvar, cond, inc, body = n["inner"]
            if condvar:
                self.err(n, "for statement with a condition variable")
            i = (self.stmt(init) if init.get("kind") == "DeclStmt" else self.effect(init)) if init else None
            c = self.cond(cond) if cond else "(.lit 1)"
            b = self.stmt(body) or ("skip",)      # body before inc: slots are numbered in source order
            s = self.effect(inc) if inc else None
            return ("for", i or ("skip",), c, s or ("skip",), b)
        if k == "WhileStmt":
            if len(n["inner"]) != 2:
                self.err(n, "while statement form")
            c = self.cond(n["inner"][0])
            return ("while", c, self.stmt(n["inner"][1]) or ("skip",))
        if k == "DoStmt":
            b = self.stmt(n["inner"][0]) or ("skip",)
            return ("doWhile", b, self.cond(n["inner"][1]))
        if k == "ReturnStmt":
            if getattr(self, "no_return", 0):
                self.err(n, "return inside an inlined function")
            if n.get("inner"):
                # value-returning function: the value goes to the dedicated result slot (`Fn.ret`)
                if self.ret_slot is None or len(n["inner"]) != 1:
                    self.err(n, "return with a value")
                return ("seq", ("assign", self.ret_slot, f"(.cast .{self.ret_ty} {self.expr(n['inner'][0])})"), ("ret",))
            if self.ret_slot is not None:
                self.err(n, "return without a value in a value-returning function")
            return ("ret",)
        if k == "ContinueStmt":
            return ("cont",)
        if k in ("BinaryOperator", "CompoundAssignOperator", "UnaryOperator", "CallExpr", "ParenExpr", "CStyleCastExpr"):
            return self.effect(n)
        self.err(n, "statement")

    # ------------------------------------------------------------------ function
    def general_param(self, c, q):
        """pointer parameter to an opaque q120 element or to a precomputation struct: a buffer of 64-bit cells"""
        try:
            kind, elem, dims = parse_ctype(strip_ptr_const(q))
        except Unsupported:
            return False
        if kind != "ptr" or dims or not (elem == "opaque" or elem.startswith("struct:")):
            return False
        if elem.startswith("struct:"):
            load_struct(elem[len("struct:"):])
        pi = len(self.ptr_names)
        self.ptrs[c["id"]] = pi
        self.ptr_names.append(c.get("name", "?"))
        self.ptr_ty.append("u64")
        self.param_elem[pi] = elem
        self.params.append(("p", "u64"))
        return True

    def translate(self):
        body = None
        for c in self.decl.get("inner", []):
            k = c.get("kind")
            if k == "ParmVarDecl":
                q = qual(c)
                if strip_cv(q).replace(" ", "") in ("MODULE*", "structmodule_info_t*"):
                    # `const MODULE* module`: only `module->nn` is read; the parameter is the scalar nn
                    if self.slot_names and len(self.slot_names) != len(self.scalars):
                        self.err(c, "internal: parameter after local")
                    s = len(self.slot_names)
                    self.slots[c["id"]] = s
                    self.slot_names.append(c.get("name", "?") + "->nn")
                    self.slot_ty[s] = "u64"
                    self.scalars.append("u64")
                    self.module_ids.add(c["id"])
                    if needs_module_m(self.decl):
                        # `module->m` is read (here or in a callee): a second scalar right after `module->nn`
                        self.slot_names.append(c.get("name", "?") + "->m")
                        self.slot_ty[s + 1] = "u64"
                        self.scalars.append("u64")
                        self.module_m_ids.add(c["id"])
                        self.params.append(("M",))
                    else:
                        self.params.append(("m",))
                elif strip_ptr_const(q).endswith("*") and self.general_param(c, q):
                    pass
                elif strip_ptr_const(q).endswith("*"):
                    et = ptr_elem_ty(q)
                    if et == "u8":
                        self.byte_ptrs.add(c["id"])
                        et = "i64"     # scratch bytes, used only as int64 cells (checked at every use)
                    if SIZEOF[et] != 8:
                        self.err(c, "pointer to an element that is not 8 bytes wide")
                    self.ptrs[c["id"]] = len(self.ptr_names)
                    self.ptr_names.append(c.get("name", "?"))
                    self.ptr_ty.append(et)
                    self.params.append(("p", et))
                else:
                    if self.slot_names and len(self.slot_names) != len(self.scalars):
                        self.err(c, "internal: parameter after local")
                    self.new_slot(c)
                    self.scalars.append(scalar_ty(c, "parameter"))
                    self.params.append(("s", scalar_ty(c, "parameter")))
            elif k == "CompoundStmt":
                body = c
            elif k in ("FullComment", "AlwaysInlineAttr", "VisibilityAttr"):
                continue
            else:
                self.err(c, "function child")
        if body is None:
            raise Unsupported(f"{self.name}: no body")
        rt = self.decl["type"]["qualType"].split("(")[0].strip()
        if rt != "void":
            if rt not in RET_TYMAP:
                raise Unsupported(f"{self.name}: return type '{rt}'")
            # scalar result: one more slot right after the scalar parameters
            self.ret_ty = RET_TYMAP[rt]
            self.ret_slot = len(self.slot_names)
            self.slot_names.append("<result>")
            self.slot_ty[self.ret_slot] = self.ret_ty
        return self.stmt(body) or ("skip",)


def render(s, ind):
    pad = " " * ind
    k = s[0]
    if k in ("skip", "ret", "cont"):
        return f"{pad}.{k}"
    if k == "assign":
        return f"{pad}.assign {s[1]} {s[2]}"
    if k == "store":
        return f"{pad}.store {s[1]} {s[2]} {s[3]}"
    if k == "memcpy":
        return f"{pad}.memcpy {s[1]} {s[2]} {s[3]}"
    if k == "memset":
        return f"{pad}.memset {s[1]} .{s[2]} {s[3]} {s[4]}"
    if k == "vstore":
        return f"{pad}.vstore {s[1]} {s[2]} {s[3]} {s[4]}"
    if k == "passign":
        return f"{pad}.passign {s[1]} {s[2]} {s[3]}"
    if k in ("pstore", "pstore32"):
        return f"{pad}.{k} {s[1]} {s[2]} {s[3]}"
    if k == "aset":
        return f"{pad}.aset {s[1]} {s[2]} {s[3]} {s[4]}"
    if k == "call":
        return (f"{pad}.call {s[1]}.body {s[1]}.nslots [{', '.join(s[2])}]\n{pad}  [{', '.join(s[3])}]")
    if k == "rawcall":
        return (f"{pad}.call {s[1]} {s[2]} [{', '.join(s[3])}]\n{pad}  [{', '.join(s[4])}]")
    if k == "extcall":
        return (f"{pad}.extcall \"{s[1]}\" [{', '.join(s[2])}]\n{pad}  [{', '.join(s[3])}]")
    if k == "seq":
        return f"{pad}.seq\n" + paren(s[1], ind + 2) + "\n" + paren(s[2], ind + 2)
    if k == "ite":
        return f"{pad}.ite {s[1]}\n" + paren(s[2], ind + 2) + "\n" + paren(s[3], ind + 2)
    if k == "while":
        return f"{pad}.while {s[1]}\n" + paren(s[2], ind + 2)
    if k == "doWhile":
        return f"{pad}.doWhile\n" + paren(s[1], ind + 2) + f"\n{pad}  {s[2]}"
    if k == "for":
        return f"{pad}.for\n" + paren(s[1], ind + 2) + f"\n{pad}  {s[2]}\n" + paren(s[3], ind + 2) + "\n" + paren(s[4], ind + 2)
    raise AssertionError(k)


def paren(s, ind):
    r = render(s, ind)
    pad = " " * ind
    if s[0] in ("skip", "ret", "cont"):
        return r
    return pad + "(" + r[len(pad):] + ")"


_AST_CACHE = {}


def load_ast(fn):
    if fn in _AST_CACHE:
        return _AST_CACHE[fn]
    found = []
    for src in SRCS:
        path = os.path.join(REPO, src)
        if not os.path.exists(path):
            continue
        cmd = [CLANG] + CFLAGS + EXTRA_CFLAGS.get(src, []) + ["-I" + REPO, "-fsyntax-only", "-Xclang", "-ast-dump=json", "-Xclang",
                                 f"-ast-dump-filter={fn}", path]
        r = subprocess.run(cmd, capture_output=True, text=True)
        if r.returncode != 0:
            raise Unsupported(f"clang failed on {src}: {r.stderr[-1500:]}")
        dec = json.JSONDecoder()
        s, i, docs = r.stdout, 0, []
        while True:
            while i < len(s) and s[i].isspace():
                i += 1
            if i >= len(s):
                break
            d, i = dec.raw_decode(s, i)
            docs.append(d)
        found += [(src, d) for d in docs if d.get("kind") == "FunctionDecl" and d.get("name") == fn
                  and any(c.get("kind") == "CompoundStmt" for c in d.get("inner", []))]
    if len(found) != 1:
        raise Unsupported(f"{fn}: {len(found)} definitions found in {', '.join(SRCS)}")
    annotate_lines(found[0][1])
    found[0][1]["_src"] = found[0][0]
    _AST_CACHE[fn] = found[0][1]
    return found[0][1]


REGISTRY = {}   # name -> FnTranslator of an already translated function (None: translation failed)


def sync_fp_flags():
    """Floating-point contraction depends on the per-file ISA flags of the real build, so they are READ from
    spqlios/CMakeLists.txt on every run (tools/build_repo.parse_cmake) instead of being trusted from EXTRA_CFLAGS:
    a translated file that the build compiles with -mfma / AVX-512 gets `-mfma` here (the rule `check_fma` then rejects
    every double product feeding an addition in it), and project-wide options that license contraction or value-changing
    optimisations anywhere (-march=, -mfma, -ffast-math, -Ofast, -ffp-contract=fast, -funsafe-math-optimizations in a
    CMakeLists.txt outside the per-file properties) are applied to every translated file."""
    sys.path.insert(0, os.path.join(VERIF, "tools"))
    from build_repo import parse_cmake
    per_file = {"spqlios/" + f: fl for f, fl in parse_cmake(REPO)}
    glob = False
    for cm in ("CMakeLists.txt", "spqlios/CMakeLists.txt"):
        path = os.path.join(REPO, cm)
        if not os.path.exists(path):
            continue
        txt = re.sub(r"#[^\n]*", "", open(path).read())
        txt = re.sub(r"set_source_files_properties\([^)]*\)", "", txt)
        if re.search(r"-march=|-mfma|-mavx512|-ffast-math|-Ofast|-ffp-contract=fast|-funsafe-math", txt):
            glob = True
    for src in SRCS:
        fl = per_file.get(src)
        if fl is None:
            raise Unsupported(f"{src} is not in the source lists of spqlios/CMakeLists.txt")
        if glob or any(x == "-mfma" or x.startswith("-mavx512") for x in fl):
            cur = EXTRA_CFLAGS.setdefault(src, [])
            if "-mfma" not in cur:
                cur.append("-mfma")


def translate_all(targets):
    REGISTRY.clear()
    sync_fp_flags()
    out = ["/- GENERATED by tools/c2lean.py from " + ", ".join(SRCS) + " (clang JSON AST) -- do not edit, never committed.",
           "   One `Spq.CIR.Fn` per C function; slots = scalar parameters, then locals in order of declaration. -/",
           "import Spq.CIR", "namespace Gen.CSrc", "open Spq.CIR", ""]
    names = []
    unsupported = {}
    for fn in targets:
        try:
            t = FnTranslator(fn, load_ast(fn))
            body = t.translate()
        except Unsupported as e:
            # keep the file (and the driver that imports it) buildable: a stub term with an empty body.  Every theorem
            # about this function fails on the stub, which is how the broken tie is reported for the property it belongs to
            unsupported[fn] = str(e)
            REGISTRY[fn] = None
            out.append(f"/-- `{fn}` : NOT TRANSLATED ({str(e)[:300].replace('-/', '- /')}) -/")
            out.append(f"def {fn} : Fn := {{ name := \"{fn}\", scalars := [], ptrs := [], nslots := 0, body := .skip }}")
            out.append("")
            names.append(fn)
            continue
        REGISTRY[fn] = t
        sig = t.decl["type"]["qualType"]
        out.append(f"/-- `{fn}` ({t.decl.get('_src')}) : `{sig}`")
        out.append("    slots: " + ", ".join(f"{i} {nm}:{t.slot_ty[i]}" for i, nm in enumerate(t.slot_names)))
        out.append("    pointers: " + ", ".join(f"{i} {nm}:{ty}" for i, (nm, ty) in enumerate(zip(t.ptr_names, t.ptr_ty))) + " -/")
        out.append(f"def {fn} : Fn :=")
        out.append(f"  {{ name := \"{fn}\", scalars := [{', '.join('.' + x for x in t.scalars)}], "
                   f"ptrs := [{', '.join('.' + x for x in t.ptr_ty)}], nslots := {len(t.slot_names)},"
                   + (f" ret := some {t.ret_slot}," if t.ret_slot is not None else ""))
        out.append("    body :=")
        out.append(render(body, 6) + " }")
        out.append("")
        names.append(fn)
    out.append("def all : List Fn := [" + ", ".join(names) + "]")
    out += ["", "end Gen.CSrc", ""]
    return "\n".join(out), names, unsupported


def generate(targets=None):
    sys.path.insert(0, os.path.join(VERIF, "tools"))
    from gen_facts import write_if_changed, GEN
    text, names, unsupported = translate_all(targets or TARGETS)
    changed = write_if_changed(os.path.join(GEN, "CSrc.lean"), text)
    return dict(functions=len(names), changed=changed, unsupported=unsupported)


if __name__ == "__main__":
    try:
        print(generate(sys.argv[1:] or None))
    except Unsupported as e:
        sys.stderr.write(f"c2lean: UNSUPPORTED: {e}\n")
        sys.exit(2)
