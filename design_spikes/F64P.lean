import Mathlib.Tactic.Ring
import Mathlib.Tactic.Linarith
import Mathlib.Tactic.Positivity
namespace F64P
/-! Spike for C14: `from_znx64` magic-constant trick is exact for |x| < 2^50, on a Nat-level model of binary64 patterns. -/

/-- value of a *positive normal* pattern with biased exponent `ex` (1..2046) and fraction `fr < 2^52`, as an
    integer multiple of 2^-1074:  (2^52+fr) * 2^(ex-1) -/
def mk (ex fr : Nat) : Nat := ex * 2^52 + fr          -- bit pattern (sign 0)
def exOf (b : Nat) : Nat := (b / 2^52) % 2^11
def frOf (b : Nat) : Nat := b % 2^52

theorem exOf_mk (ex fr : Nat) (hex : ex < 2^11) (hfr : fr < 2^52) : exOf (mk ex fr) = ex := by
  unfold exOf mk
  rw [Nat.mul_comm, Nat.mul_add_div (by positivity), Nat.div_eq_of_lt hfr, Nat.add_zero, Nat.mod_eq_of_lt hex]
theorem frOf_mk (ex fr : Nat) (hfr : fr < 2^52) : frOf (mk ex fr) = fr := by
  unfold frOf mk
  rw [Nat.mul_comm, Nat.mul_add_mod, Nat.mod_eq_of_lt hfr]

/-- the code: a = x + 2^51 (two's complement 64-bit), then OR with the bits of 2^52 (ex field 0x433), i.e.
    pattern `0x433<<52 | (a mod 2^52)` when a < 2^52.  Here x is given as an Int with |x| < 2^50. -/
def fromZnxBits (x : Int) : Nat := mk 0x433 (x + 2^51).toNat

/-- real value (as Int) encoded by a pattern with exponent field 0x433 (unit in the last place = 1) -/
def valAt433 (b : Nat) : Int := 2^52 + (frOf b : Int)

theorem from_znx64_exact (x : Int) (hx : -(2^50 : Int) < x ∧ x < 2^50) :
    exOf (fromZnxBits x) = 0x433 ∧ valAt433 (fromZnxBits x) - (3 * 2^51 : Int) = x := by
  have h0 : (0:Int) ≤ x + 2^51 := by omega
  have hlt : (x + 2^51).toNat < 2^52 := by omega
  constructor
  · exact exOf_mk _ _ (by norm_num) hlt
  · unfold valAt433 fromZnxBits
    rw [frOf_mk _ _ hlt, Int.toNat_of_nonneg h0]; ring
#print axioms from_znx64_exact
end F64P
