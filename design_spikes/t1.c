#include <stdio.h>
#include <stdlib.h>
#include <string.h>
#include <math.h>
#include "/repo/spqlios/arithmetic/vec_znx_arithmetic.h"
#include "/repo/spqlios/reim/reim_fft.h"
#include "/repo/spqlios/reim4/reim4_fftvec_public.h"
int main(int argc,char**argv){
  int t=atoi(argv[1]);
  MODULE* m=new_module_info(16,FFT64);
  if(t==1){ // normalize a_size=0
    int64_t* res=malloc(16*2*8); int64_t* a=malloc(8); uint8_t* tmp=malloc(vec_znx_normalize_base2k_tmp_bytes(m));
    vec_znx_normalize_base2k(m,10,res,2,16,a,0,16,tmp); printf("ok %ld\n",res[0]);
  }
  if(t==2){ // normalize res_size=0
    int64_t* res=malloc(8); int64_t* a=calloc(16*2,8); uint8_t* tmp=malloc(vec_znx_normalize_base2k_tmp_bytes(m));
    vec_znx_normalize_base2k(m,10,res,0,16,a,2,16,tmp); printf("ok\n");
  }
  if(t==3){ // to_tnx log2overhead=30
    REIM_TO_TNX_PRECOMP* p=new_reim_to_tnx_precomp(8,1.0,30);
    double x[16],r[16]; for(int i=0;i<16;i++) x[i]=1000.25+i; reim_to_tnx(p,r,x);
    for(int i=0;i<4;i++) printf("%g ",r[i]); printf("\n");
    REIM_TO_TNX_PRECOMP* q=new_reim_to_tnx_precomp(8,1.0,20); reim_to_tnx(q,r,x);
    for(int i=0;i<4;i++) printf("%g ",r[i]); printf("\n");
  }
  if(t==4){ // reim4_from_cplx
    int M=8; double a[16],r[16]; for(int i=0;i<16;i++){a[i]=i+1;r[i]=-1;}
    REIM4_FROM_CPLX_PRECOMP* p=new_reim4_from_cplx_precomp(M); reim4_from_cplx(p,r,a);
    for(int i=0;i<16;i++) printf("%g ",r[i]); printf("\n");
  }
  if(t==5){ // vmp res_size=0
    uint64_t nr=2,nc=2; VMP_PMAT* pm=new_vmp_pmat(m,nr,nc); int64_t* mat=calloc(16*4,8);
    uint8_t* tmp=malloc(vmp_prepare_contiguous_tmp_bytes(m,nr,nc)); vmp_prepare_contiguous(m,pm,mat,nr,nc,tmp);
    VEC_ZNX_DFT* res=new_vec_znx_dft(m,1); int64_t* a=calloc(16*2,8);
    uint8_t* tmp2=malloc(vmp_apply_dft_tmp_bytes(m,0,2,nr,nc));
    vmp_apply_dft(m,res,0,a,2,16,pm,nr,nc,tmp2); printf("ok\n");
  }
  return 0;
}
