import Mathlib.Tactic.Ring
import Mathlib.Tactic.Linarith
import Mathlib.Tactic.Positivity
namespace Lvl
/-! Spike for C04: one lazy multiplication `split_precompmul` never wraps and is congruent. -/

def W : Nat := 2^64
/-- `_mm256_mul_epu32` on one lane -/
def mulEpu32 (a b : Nat) : Nat := (a % 2^32) * (b % 2^32)
/-- packed twiddle word: low 32 bits = t, high 32 bits = t1 = (t * 2^h) % q -/
def pack (t t1 : Nat) : Nat := t1 * 2^32 + t
/-- the code: inp_low*po_low + (inp>>h)*(po>>32), all 64-bit wrapping -/
def splitMul (inp po h : Nat) : Nat :=
  (mulEpu32 (inp % 2^h) po + mulEpu32 (inp / 2^h) (po / 2^32)) % W

theorem splitMul_sound (q t h inp B : Nat)
    (hq : q < 2^31) (ht : t < q) (hh : h ≤ 32) (hB : inp < B) (hBh : B ≤ 2^(h+32)) (hq0 : 0 < q) :
    let t1 := (t * 2^h) % q
    let r := splitMul inp (pack t t1) h
    r = (inp % 2^h) * t + (inp / 2^h) * t1            -- no truncation, no wrap
    ∧ r % q = (inp * t) % q                           -- congruent to the exact product
    ∧ r < 2^h * q + (B / 2^h + 1) * q := by
  intro t1 r
  have ht1 : t1 < q := Nat.mod_lt _ hq0
  have h32 : (2:Nat)^h ≤ 2^32 := Nat.pow_le_pow_right (by norm_num) hh
  have hlo : inp % 2^h < 2^h := Nat.mod_lt _ (by positivity)
  have hhi : inp / 2^h < 2^32 := by
    rw [Nat.div_lt_iff_lt_mul (by positivity)]
    calc inp < B := hB
      _ ≤ 2^(h+32) := hBh
      _ = 2^32 * 2^h := by rw [pow_add]; ring
  have ht32 : t < 2^32 := by omega
  have ht132 : t1 < 2^32 := by omega
  have e1 : pack t t1 % 2^32 = t := by
    unfold pack; rw [Nat.mul_add_mod_of_lt ht32] 
  have e2 : pack t t1 / 2^32 = t1 := by
    unfold pack; rw [Nat.mul_comm, Nat.mul_add_div (by positivity), Nat.div_eq_of_lt ht32]; simp
  have key : r = (inp % 2^h) * t + (inp / 2^h) * t1 := by
    show splitMul inp (pack t t1) h = _
    unfold splitMul mulEpu32
    rw [e1, e2, Nat.mod_eq_of_lt (lt_of_lt_of_le hlo h32), Nat.mod_eq_of_lt hhi, Nat.mod_eq_of_lt ht132]
    apply Nat.mod_eq_of_lt
    have a1 : inp % 2^h * t < 2^32 * 2^31 := Nat.mul_lt_mul'' (lt_of_lt_of_le hlo h32) (by omega)
    have a2 : inp / 2^h * t1 < 2^32 * 2^31 := Nat.mul_lt_mul'' hhi (by omega)
    unfold W; omega
  refine ⟨key, ?_, ?_⟩
  · rw [key]
    -- inp = lo + hi*2^h ; hi*t1 ≡ hi*t*2^h
    have hsplit : inp = inp % 2^h + (inp / 2^h) * 2^h := by
      rw [Nat.mul_comm]; exact (Nat.mod_add_div inp (2^h)).symm
    have : (inp / 2^h * t1) % q = (inp / 2^h * (t * 2^h)) % q := by
      show (inp / 2^h * ((t * 2^h) % q)) % q = _
      rw [Nat.mul_mod, Nat.mod_mod, ← Nat.mul_mod]
    rw [Nat.add_mod, this, ← Nat.add_mod]
    congr 1
    conv_rhs => rw [hsplit]
    ring
  · rw [key]
    have b1 : inp % 2^h * t < 2^h * q := Nat.mul_lt_mul'' hlo ht
    have b2 : inp / 2^h * t1 < (B / 2^h + 1) * q := by
      apply Nat.mul_lt_mul'' _ ht1
      have : inp / 2^h ≤ B / 2^h := Nat.div_le_div_right (le_of_lt hB)
      omega
    omega
#print axioms splitMul_sound
end Lvl
