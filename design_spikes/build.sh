set -e
R=/repo/spqlios
GEN="commons.c commons_private.c coeffs/coeffs_arithmetic.c arithmetic/vec_znx.c arithmetic/vec_znx_dft.c arithmetic/vector_matrix_product.c cplx/cplx_common.c cplx/cplx_conversions.c cplx/cplx_fft_asserts.c cplx/cplx_fft_ref.c cplx/cplx_fftvec_ref.c cplx/cplx_ifft_ref.c cplx/spqlios_cplx_fft.c reim4/reim4_arithmetic_ref.c reim4/reim4_fftvec_addmul_ref.c reim4/reim4_fftvec_conv_ref.c reim/reim_conversions.c reim/reim_fft_ifft.c reim/reim_fft_ref.c reim/reim_fftvec_addmul_ref.c reim/reim_ifft_ref.c reim/reim_to_tnx_ref.c q120/q120_ntt.c q120/q120_arithmetic_ref.c q120/q120_arithmetic_simple.c arithmetic/scalar_vector_product.c arithmetic/vec_znx_big.c arithmetic/znx_small.c arithmetic/module_api.c reim/reim_execute.c cplx/cplx_execute.c reim4/reim4_execute.c"
FMA="arithmetic/vector_matrix_product_avx.c cplx/cplx_conversions_avx2_fma.c cplx/cplx_fft_avx2_fma.c cplx/cplx_fft_sse.c cplx/cplx_fftvec_avx2_fma.c cplx/cplx_ifft_avx2_fma.c reim4/reim4_arithmetic_avx2.c reim4/reim4_fftvec_conv_fma.c reim4/reim4_fftvec_addmul_fma.c reim/reim_conversions_avx.c reim/reim_fft4_avx_fma.c reim/reim_fft8_avx_fma.c reim/reim_ifft4_avx_fma.c reim/reim_ifft8_avx_fma.c reim/reim_fft_avx2.c reim/reim_ifft_avx2.c reim/reim_to_tnx_avx.c reim/reim_fftvec_addmul_fma.c cplx/cplx_fft16_avx_fma.s cplx/cplx_ifft16_avx_fma.s reim/reim_fft16_avx_fma.s reim/reim_ifft16_avx_fma.s"
AVX512="cplx/cplx_fft_avx512.c"
AVX2="arithmetic/vec_znx_avx.c coeffs/coeffs_arithmetic_avx.c arithmetic/vec_znx_dft_avx2.c q120/q120_arithmetic_avx2.c q120/q120_ntt_avx2.c"
CF="-O2 -g -DNDEBUG -fPIC -Wall $EXTRA"
for f in $GEN; do echo "gcc $CF -c $R/$f -o $(echo $f|tr / _).o"; done > cmds
for f in $FMA; do echo "gcc $CF -mfma -mavx -mavx2 -c $R/$f -o $(echo $f|tr / _).o"; done >> cmds
for f in $AVX512; do echo "gcc $CF -mfma -mavx512f -mavx512vl -mavx512dq -c $R/$f -o $(echo $f|tr / _).o"; done >> cmds
for f in $AVX2; do echo "gcc $CF -mbmi2 -mavx2 -c $R/$f -o $(echo $f|tr / _).o"; done >> cmds
xargs -P16 -I{} sh -c "{}" < cmds
ar rcs libspq.a *.o
