#include <stdio.h>
#include <stdlib.h>
#include <string.h>
#include "/repo/spqlios/arithmetic/vec_znx_arithmetic.h"
int main(){
  MODULE* m=new_module_info(4,FFT64);
  uint64_t nr=2,nc=2; VMP_PMAT* pm=new_vmp_pmat(m,nr,nc); int64_t mat[16]; for(int i=0;i<16;i++)mat[i]=i+1;
  uint8_t* tmp=malloc(vmp_prepare_contiguous_tmp_bytes(m,nr,nc)); vmp_prepare_contiguous(m,pm,mat,nr,nc,tmp);
  VEC_ZNX_DFT* res=new_vec_znx_dft(m,2); int64_t a[8]={0};
  uint64_t tb=vmp_apply_dft_tmp_bytes(m,2,0,nr,nc); printf("tmp_bytes=%lu\n",tb);
  double* tmp2=malloc(tb+64); for(int i=0;i<(tb+64)/8;i++) tmp2[i]=3.0;
  vmp_apply_dft(m,res,2,a,0,4,pm,nr,nc,(uint8_t*)tmp2);
  for(int i=0;i<8;i++) printf("%g ",((double*)res)[i]); printf("\n");
}
