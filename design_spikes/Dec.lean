namespace DecSpike
/-- modular exponentiation by squaring, structural on fuel -/
def powMod (b e q : Nat) : Nat → Nat
  | 0 => 1 % q
  | fuel+1 => if e = 0 then 1 % q else
      let h := powMod (b*b % q) (e/2) q fuel
      if e % 2 = 1 then b * h % q else h

def Q1 : Nat := 2^30 - 2*2^17 + 1
def OMEGA1 : Nat := 1070907127
theorem omega1_order : powMod OMEGA1 (2^16) Q1 64 = Q1 - 1 := by decide +kernel
theorem q_bound : 10000 * (2^42 - 1) + 10000 * ((2^64-1) / 2^42) * (2^42 % Q1) < 2^64 := by decide
#print axioms omega1_order
end DecSpike
