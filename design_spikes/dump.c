#include <stdio.h>
#include <inttypes.h>
#include "/repo/spqlios/q120/q120_ntt_private.h"
#include "/repo/spqlios/q120/q120_arithmetic.h"
#include "/repo/spqlios/q120/q120_arithmetic_private.h"
int main(){
  for(int inv=0;inv<2;inv++) for(uint64_t n=2;n<=65536;n*=2){
    q120_ntt_precomp* p= inv? q120_new_intt_bb_precomp(n): q120_new_ntt_bb_precomp(n);
    int L=0; for(uint64_t t=n;t>1;t/=2)L++;
    printf("%s n=%lu red(h=%lu mask=%lx cst=%lu,%lu,%lu,%lu) out_bs=%lu\n",inv?"intt":"ntt",n,p->reduc_metadata.h,p->reduc_metadata.mask,p->reduc_metadata.modulo_red_cst[0],p->reduc_metadata.modulo_red_cst[1],p->reduc_metadata.modulo_red_cst[2],p->reduc_metadata.modulo_red_cst[3],p->output_bit_size);
    for(int l=0;l<L+1;l++){ q120_ntt_step_precomp* s=p->level_metadata+l;
      printf("  L%d bs=%lu half=%lu reduce=%d q2bs0=%lu (q<<%d)\n",l,s->bs,s->half_bs,s->reduce,s->q2bs[0], s->q2bs[0]? __builtin_ctzll(s->q2bs[0]/ (s->q2bs[0] >> __builtin_ctzll(s->q2bs[0]))):0);}
    if(n>=8 && n<65536) {n= (n<32768)? 32768/1:n;} 
  }
  q120_mat1col_product_baa_precomp* a=q120_new_vec_mat1col_product_baa_precomp();
  q120_mat1col_product_bbb_precomp* b=q120_new_vec_mat1col_product_bbb_precomp();
  q120_mat1col_product_bbc_precomp* c=q120_new_vec_mat1col_product_bbc_precomp();
  printf("baa h=%lu red=%lu %lu %lu %lu\n",a->h,a->h_pow_red[0],a->h_pow_red[1],a->h_pow_red[2],a->h_pow_red[3]);
  printf("bbb h=%lu\n",b->h); printf("bbc h=%lu s2l=%lu s2h=%lu\n",c->h,c->s2l_pow_red[0],c->s2h_pow_red[0]);
}
