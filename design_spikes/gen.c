#include <stdio.h>
#include <stdint.h>
#include <string.h>
#include <math.h>
#include <stdlib.h>
static uint64_t s=88172645463325252ULL;
static uint64_t rnd(){ s^=s<<13; s^=s>>7; s^=s<<17; return s; }
static double fromb(uint64_t b){ double d; memcpy(&d,&b,8); return d; }
static uint64_t tob(double d){ uint64_t b; memcpy(&b,&d,8); return b; }
static uint64_t rdouble(){
  uint64_t r=rnd(); int mode=r%8; r=rnd();
  uint64_t sign=(r>>63)<<63; uint64_t frac=r&0xFFFFFFFFFFFFFULL; uint64_t ex;
  switch(mode){
    case 0: ex=1023+ (rnd()%10); break;
    case 1: ex=1023- (rnd()%60); break;
    case 2: ex=rnd()%3; break; // subnormal-ish
    case 3: ex=1+rnd()%2046; break;
    case 4: ex=1023+ (rnd()%64); frac &= ~((1ULL<<(rnd()%52))-1); break;
    case 5: return sign; // zero
    case 6: ex=1023+52+(rnd()%3); frac=(rnd()%16); break;
    default: ex=1000+(rnd()%50); break;
  }
  return sign|(ex<<52)|frac;
}
int main(int argc,char**argv){
  int n=atoi(argv[1]); FILE*fi=fopen(argv[2],"w"); FILE*fo=fopen(argv[3],"w");
  const char*ops[4]={"add","sub","mul","fma"};
  for(int i=0;i<n;i++){
    uint64_t a=rdouble(),b=rdouble(),c=rdouble(); int op=rnd()%4;
    if(op!=2 && rnd()%4==0){ // near-cancellation
      b=a^((rnd()%2)<<63); b+= (rnd()%5)-2; }
    double x=fromb(a),y=fromb(b),z=fromb(c),r;
    volatile double t;
    switch(op){case 0:t=x+y;break;case 1:t=x-y;break;case 2:t=x*y;break;default:t=fma(x,y,z);}
    r=t; if(!isfinite(r)||!isfinite(x)||!isfinite(y)||!isfinite(z)) {i--;continue;}
    fprintf(fi,"%s %lu %lu %lu\n",ops[op],a,b,c); fprintf(fo,"%lu\n",tob(r));
  }
  return 0;
}
