import Mathlib.Tactic.Ring
import Mathlib.Algebra.Ring.Basic
import Mathlib.Tactic.LinearCombination

namespace NttSpike
variable {R : Type} [CommRing R]

/-- twiddled difference -/
def tw (w : R) (lo hi : List R) : List R :=
  (List.zipWith (· - ·) lo hi).zipIdx.map fun (d, i) => d * w ^ i

def dif (w : R) : Nat → List R → List R
  | 0, xs => xs
  | k+1, xs =>
    let h := 2^k
    let lo := xs.take h; let hi := xs.drop h
    dif (w^2) k (List.zipWith (· + ·) lo hi) ++ dif (w^2) k (tw w lo hi)

def twm (v : R) (hi : List R) : List R := hi.zipIdx.map fun (d, i) => d * v ^ i

def dit (v : R) : Nat → List R → List R
  | 0, xs => xs
  | k+1, xs =>
    let h := 2^k
    let lo := dit (v^2) k (xs.take h); let hi := twm v (dit (v^2) k (xs.drop h))
    List.zipWith (· + ·) lo hi ++ List.zipWith (· - ·) lo hi

theorem dif_length (w : R) (k : Nat) (xs : List R) (h : xs.length = 2^k) : (dif w k xs).length = 2^k := by
  induction k generalizing w xs with
  | zero => simpa [dif] using h
  | succ k ih =>
    have h2 : 2^(k+1) = 2^k + 2^k := by ring
    simp only [dif]
    rw [List.length_append, ih, ih]
    · omega
    · simp [tw, h, h2]
    · simp [h, h2]

theorem roundtrip (w v : R) (hwv : w * v = 1) (k : Nat) (xs : List R) (h : xs.length = 2^k) :
    dit v k (dif w k xs) = xs.map (fun x => (2:R)^k * x) := by
  induction k generalizing w v xs with
  | zero => simp [dif, dit]
  | succ k ih =>
    have h2 : 2^(k+1) = 2^k + 2^k := by ring
    have hwv2 : w^2 * v^2 = 1 := by rw [← mul_pow, hwv, one_pow]
    simp only [dif, dit]
    have la : (List.zipWith (· + ·) (xs.take (2^k)) (xs.drop (2^k))).length = 2^k := by simp [h, h2]
    have lb : (tw w (xs.take (2^k)) (xs.drop (2^k))).length = 2^k := by simp [tw, h, h2]
    rw [List.take_left' (dif_length _ _ _ la), List.drop_left' (dif_length _ _ _ la)]
    rw [ih _ _ hwv2 _ la, ih _ _ hwv2 _ lb]
    -- now pointwise algebra
    apply List.ext_getElem
    · simp [twm, tw, h, h2]
    · intro i h1 h2'
      have hi : i < 2^k + 2^k := by rw [← h2, ← h]; simpa using h2'
      simp only [List.getElem_map]
      rw [List.getElem_append]
      split
      · rename_i hlt
        simp [twm, tw] at hlt ⊢
        have : w ^ i * v ^ i = 1 := by rw [← mul_pow, hwv, one_pow]
        linear_combination (2 ^ k * (xs[i] - xs[2 ^ k + i])) * this
      · rename_i hge
        simp [twm, tw] at hge ⊢
        have hxl : xs.length - 2^k = 2^k := by omega
        have hmin : min (2^k) (xs.length - 2^k) = 2^k := by rw [hxl]; simp
        have hik : 2^k ≤ i := by
          by_contra hc
          have := hge (by omega)
          omega
        simp only [hmin]
        have e : 2 ^ k + (i - 2 ^ k) = i := by omega
        have : w ^ (i - 2^k) * v ^ (i - 2^k) = 1 := by rw [← mul_pow, hwv, one_pow]
        simp only [e]
        linear_combination (-(2 ^ k) * (xs[i - 2^k] - xs[i])) * this

end NttSpike
#print axioms NttSpike.roundtrip
