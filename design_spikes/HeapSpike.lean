import Mathlib.Tactic.Linarith
namespace HeapSpike
/-! Spike for C08/C13: elementwise kernel on a flat heap, sequential stores,
    result correct when the output is disjoint from or exactly aliased with each input; frame. -/
abbrev Heap := Nat → Int          -- proof-level view (the executable model uses Array; tied by a get lemma)

def upd (h : Heap) (i : Nat) (v : Int) : Heap := fun j => if j = i then v else h j

/-- `for i<n: h[r+i] := f (h[a+i]) (h[b+i])`, stores performed in order -/
def zip2 (f : Int → Int → Int) (r a b : Nat) : Nat → Heap → Heap
  | 0, h => h
  | n+1, h => let h' := zip2 f r a b n h
              upd h' (r+n) (f (h' (a+n)) (h' (b+n)))

def okSrc (r s n : Nat) : Prop := s = r ∨ s + n ≤ r ∨ r + n ≤ s   -- exact alias or disjoint

theorem zip2_spec (f) (r a b n : Nat) (h : Heap) (ha : okSrc r a n) (hb : okSrc r b n) :
    (∀ i, i < n → zip2 f r a b n h (r+i) = f (h (a+i)) (h (b+i))) ∧
    (∀ j, (j < r ∨ r + n ≤ j) → zip2 f r a b n h j = h j) := by
  induction n with
  | zero => exact ⟨by intro i hi; omega, by intro j _; rfl⟩
  | succ n ih =>
    have ha' : okSrc r a n := by unfold okSrc at *; omega
    have hb' : okSrc r b n := by unfold okSrc at *; omega
    obtain ⟨ih1, ih2⟩ := ih ha' hb'
    -- cells a+n and b+n are untouched by the first n stores
    have ra : zip2 f r a b n h (a+n) = h (a+n) := by
      apply ih2; unfold okSrc at ha; omega
    have rb : zip2 f r a b n h (b+n) = h (b+n) := by
      apply ih2; unfold okSrc at hb; omega
    constructor
    · intro i hi
      simp only [zip2, upd]
      by_cases e : i = n
      · subst e; simp [ra, rb]
      · simp [e]; exact ih1 i (by omega)
    · intro j hj
      simp only [zip2, upd]
      have : j ≠ r + n := by omega
      simp [this]; exact ih2 j (by omega)
#print axioms zip2_spec
end HeapSpike
