import Mathlib.Tactic.Linarith
import Mathlib.Logic.Function.Iterate
namespace Walk
/-! Spike for C09.2: following one orbit of a permutation in place, carrying one value. -/
variable {α : Type}

def upd (f : Nat → α) (i : Nat) (v : α) : Nat → α := fun j => if j = i then v else f j

/-- the do-while body of `znx_rotate_inplace_i64`: `g j t` is `±t` depending on the source index -/
def walk (σ : Nat → Nat) (g : Nat → α → α) (j0 : Nat) : Nat → Nat → α → (Nat → α) → (Nat → α)
  | 0, _, _, f => f
  | fuel+1, j, t, f =>
    let nj := σ j
    let t2 := f nj
    let f' := upd f nj (g j t)
    if nj = j0 then f' else walk σ g j0 fuel nj t2 f'

/-- result: every cell `σ^(i+1) j0` receives `g` of the ORIGINAL content of `σ^i j0`; others unchanged -/
def target (σ : Nat → Nat) (g : Nat → α → α) (j0 L : Nat) (f0 : Nat → α) (x : Nat) (v : α) : Prop :=
  (∀ i, i < L → x = σ^[i+1] j0 → v = g (σ^[i] j0) (f0 (σ^[i] j0))) ∧
  ((∀ i, i < L → x ≠ σ^[i+1] j0) → v = f0 x)

theorem walk_spec (σ : Nat → Nat) (g : Nat → α → α) (j0 L : Nat) (f0 : Nat → α)
    (hL : 0 < L) (hret : σ^[L] j0 = j0)
    (hdist : ∀ i j, i < L → j < L → σ^[i] j0 = σ^[j] j0 → i = j) :
    -- generalised over the number s of steps already done
    ∀ (r s fuel : Nat) (f : Nat → α), s + r = L → 0 < r → r ≤ fuel →
      (∀ x, (∀ i, i < s → x = σ^[i+1] j0 → f x = g (σ^[i] j0) (f0 (σ^[i] j0))) ∧
            ((∀ i, i < s → x ≠ σ^[i+1] j0) → f x = f0 x)) →
      ∀ x, target σ g j0 L f0 x (walk σ g j0 fuel (σ^[s] j0) (f0 (σ^[s] j0)) f x) := by
  intro r
  induction r with
  | zero => intro s fuel f _ h0; omega
  | succ r ih =>
    intro s fuel f hs _ hfuel hinv x
    obtain ⟨fuel', rfl⟩ : ∃ k, fuel = k + 1 := ⟨fuel - 1, by omega⟩
    have hsL : s < L := by omega
    have hnj : σ (σ^[s] j0) = σ^[s+1] j0 := (Function.iterate_succ_apply' σ s j0).symm
    -- the cell about to be written still holds its original content
    have horig : f (σ^[s+1] j0) = f0 (σ^[s+1] j0) := by
      apply (hinv _).2
      intro i hi heq
      by_cases hlast : s + 1 = L
      · -- σ^[s+1] j0 = j0 = σ^[0] j0, and i+1 < L, so i+1 = 0: impossible
        have : σ^[i+1] j0 = σ^[0] j0 := by rw [← heq, hlast, hret]; rfl
        have := hdist (i+1) 0 (by omega) hL this
        omega
      · have := hdist (s+1) (i+1) (by omega) (by omega) heq
        omega
    simp only [walk, hnj]
    -- invariant after this step
    have hinv' : ∀ y, (∀ i, i < s+1 → y = σ^[i+1] j0 →
          upd f (σ^[s+1] j0) (g (σ^[s] j0) (f0 (σ^[s] j0))) y = g (σ^[i] j0) (f0 (σ^[i] j0))) ∧
        ((∀ i, i < s+1 → y ≠ σ^[i+1] j0) →
          upd f (σ^[s+1] j0) (g (σ^[s] j0) (f0 (σ^[s] j0))) y = f0 y) := by
      intro y
      constructor
      · intro i hi hy
        by_cases his : i = s
        · subst his; simp [upd, hy]
        · have hne : y ≠ σ^[s+1] j0 := by
            intro h
            have e : σ^[i+1] j0 = σ^[s+1] j0 := by rw [← hy, h]
            by_cases hlast : s + 1 = L
            · have : σ^[i+1] j0 = σ^[0] j0 := by rw [e, hlast, hret]; rfl
              have := hdist (i+1) 0 (by omega) hL this
              omega
            · have := hdist (i+1) (s+1) (by omega) (by omega) e
              omega
          simp only [upd, hne, if_false]
          exact (hinv y).1 i (by omega) hy
      · intro hy
        have hne : y ≠ σ^[s+1] j0 := hy s (by omega)
        simp only [upd, hne, if_false]
        exact (hinv y).2 (fun i hi => hy i (by omega))
    by_cases hend : σ^[s+1] j0 = j0
    · -- returned to the start: must be the last step
      have : s + 1 = L := by
        by_contra hne
        have : σ^[s+1] j0 = σ^[0] j0 := by rw [hend]; rfl
        have := hdist (s+1) 0 (by omega) hL this
        omega
      simp only [hend, if_true]
      have hr : r = 0 := by omega
      subst hr
      have hsL' : s + 1 = L := this
      rw [hend] at hinv'
      constructor
      · intro i hi hx
        exact (hinv' x).1 i (by omega) hx
      · intro hx
        exact (hinv' x).2 (fun i hi => hx i (by omega))
    · simp only [hend, if_false]
      have hr : 0 < r := by
        by_contra h
        have : s + 1 = L := by omega
        rw [this, hret] at hend; exact hend rfl
      rw [horig]
      exact ih (s+1) fuel' _ (by omega) hr (by omega) hinv' x
#print axioms walk_spec
end Walk
