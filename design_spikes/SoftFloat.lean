-- Spike: bit-exact IEEE-754 binary64 arithmetic on bit patterns
namespace SF

structure Dec where
  neg : Bool
  m   : Nat      -- mantissa
  e   : Int      -- value = (-1)^neg * m * 2^e
  deriving Repr

@[inline] def decode (b : UInt64) : Dec :=
  let neg := (b >>> 63) != 0
  let ex := ((b >>> 52) &&& 0x7FF).toNat
  let fr := (b &&& 0xFFFFFFFFFFFFF).toNat
  if ex == 0 then ⟨neg, fr, -1074⟩ else ⟨neg, fr + 2^52, (ex : Int) - 1075⟩

@[inline] def isFinite (b : UInt64) : Bool := ((b >>> 52) &&& 0x7FF) != 0x7FF

/-- round-to-nearest-even packing of (-1)^neg * M * 2^E -/
def pack (neg : Bool) (M : Nat) (E : Int) : UInt64 :=
  let s : UInt64 := if neg then 0x8000000000000000 else 0
  if M == 0 then s else
  let len := M.log2 + 1
  -- choose shift so that result has ≤53 bits and exponent ≥ -1074
  let sh0 : Int := (len : Int) - 53
  let e0 : Int := E + sh0
  let sh : Int := if e0 < -1074 then sh0 + (-1074 - e0) else sh0
  let e1 : Int := E + sh
  let q : Nat :=
    if sh ≤ 0 then M <<< sh.natAbs
    else
      let k := sh.toNat
      let q0 := M >>> k
      let r := M &&& ((1 <<< k) - 1)
      let half := 1 <<< (k - 1)
      if r > half || (r == half && q0 % 2 == 1) then q0 + 1 else q0
  -- q may be 2^53 after rounding
  let (q, e1) := if q == 2^53 then (2^52, e1 + 1) else (q, e1)
  if q < 2^52 then
    -- subnormal (e1 must be -1074) or zero
    s ||| q.toUInt64
  else
    let ex : Int := e1 + 1075
    if ex ≥ 2047 then s ||| 0x7FF0000000000000
    else s ||| (ex.toNat.toUInt64 <<< 52) ||| (q - 2^52).toUInt64

def toInt (d : Dec) : Int := if d.neg then -(d.m : Int) else d.m

/-- exact signed sum of two scaled integers then pack; `zneg` is sign of an exact-zero result -/
def packSigned (v : Int) (e : Int) (zneg : Bool) : UInt64 :=
  if v == 0 then (if zneg then 0x8000000000000000 else 0)
  else pack (v < 0) v.natAbs e

def add (a b : UInt64) : UInt64 :=
  let x := decode a; let y := decode b
  let e := min x.e y.e
  let v := toInt x * (2:Int)^((x.e - e).toNat) + toInt y * (2:Int)^((y.e - e).toNat)
  packSigned v e (x.neg && y.neg)

def neg (a : UInt64) : UInt64 := a ^^^ 0x8000000000000000
def sub (a b : UInt64) : UInt64 := add a (neg b)

def mul (a b : UInt64) : UInt64 :=
  let x := decode a; let y := decode b
  pack (x.neg != y.neg) (x.m * y.m) (x.e + y.e)

/-- fused a*b + c, one rounding -/
def fma (a b c : UInt64) : UInt64 :=
  let x := decode a; let y := decode b; let z := decode c
  let pe := x.e + y.e
  let pneg := x.neg != y.neg
  let pm : Int := if pneg then -((x.m * y.m : Nat) : Int) else ((x.m * y.m : Nat) : Int)
  let e := min pe z.e
  let v := pm * (2:Int)^((pe - e).toNat) + toInt z * (2:Int)^((z.e - e).toNat)
  packSigned v e (pneg && z.neg)

end SF
