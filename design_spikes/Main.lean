import Sp.SoftFloat
open SF
partial def loop (h : IO.FS.Stream) (n : Nat) : IO Nat := do
  let line ← h.getLine
  if line.isEmpty then return n
  match line.trimAscii.toString.splitOn " " with
  | [op, a, b, c] =>
    let a := a.toNat!.toUInt64; let b := b.toNat!.toUInt64; let c := c.toNat!.toUInt64
    let r := match op with
      | "add" => add a b | "sub" => sub a b | "mul" => mul a b | _ => fma a b c
    IO.println r.toNat
  | _ => IO.println "bad"
  loop h (n+1)
def main : IO Unit := do
  let _ ← loop (← IO.getStdin) 0
