import Spq.Mach
import Spq.Heap
import Spq.Coeffs
import Spq.VecZnx
import Spq.Drv.VecZnx
