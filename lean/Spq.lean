import Spq.Mach
import Spq.Heap
import Spq.Coeffs
import Spq.VecZnx
import Spq.Drv.VecZnx
import Spq.F64
import Spq.Caches
import Spq.Globals
