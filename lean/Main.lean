import Spq.Drv.VecZnx
import Spq.Drv.Q120
import Spq.Drv.Q120Ntt
import Spq.Drv.Conv
import Spq.Drv.Fft
import Spq.Drv.Reim4
import Spq.Drv.Module
import Spq.Drv.Cache
import Spq.Drv.Cover
import Spq.Drv.ModuleNtt
import Spq.Drv.CSrc
import Spq.Drv.ModuleHeap
import Spq.Drv.ModSrc
import Spq.Drv.Prog
/- Model driver: one operation per line in, one canonical result line out. -/
open Spq.Drv

def dispatch (toks : List String) : String :=
  let r : Option String :=
    match toks with
    | "vz" :: rest => handleVz rest
    | "kz" :: rest => handleKz rest
    | "kf" :: rest => handleKf rest
    | "q1" :: rest => handleQ1 rest
    | "qn" :: rest => handleQn rest
    | "f6" :: rest => handleF6 rest
    | "ff" :: rest => handleFf rest
    | "r4" :: rest => handleR4 rest
    | "md" :: rest => handleMd rest
    | "ca" :: rest => handleCa rest
    | "cv" :: rest => handleCv rest
    | "mn" :: rest => handleMn rest
    | "cs" :: rest => handleCs rest
    | "mh" :: rest => handleMh rest
    | "mhs" :: rest => handleMhs rest
    | "pg" :: rest => handlePg rest
    | _ => none
  r.getD "bad-op"

partial def loop (hin : IO.FS.Stream) (hout : IO.FS.Stream) : IO Unit := do
  let line ← hin.getLine
  if line.isEmpty then return ()
  let toks := (line.trimAscii.toString.splitOn " ").filter (· != "")
  hout.putStrLn (dispatch toks)
  loop hin hout

def main : IO Unit := do
  let hin ← IO.getStdin
  let hout ← IO.getStdout
  loop hin hout
