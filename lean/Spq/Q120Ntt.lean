/-
  Model of the q120 NTT / iNTT  (spqlios/q120/q120_ntt.c, q120_ntt_avx2.c).  Core Lean only.

  * One AVX2 register = 4 independent 64-bit lanes, lane j working modulo the prime q_j.  The model
    transforms ONE lane (`Array Nat`, values `< 2^64`); the driver runs it on the four lanes.
  * Every `_mm256_add_epi64` / `_mm256_sub_epi64` is an explicit `% 2^64`; `_mm256_mul_epu32` is
    `(a % 2^32) * (b % 2^32)`; `_mm256_and_si256(x, mask)` is `x &&& mask`; `_mm256_srli_epi64(x, h)` is `x >>> h`.
  * The per-level metadata (`q120_ntt_step_precomp`, `q120_ntt_reduc_step_precomp`) and the twiddle table
    (`powomega`) are INPUTS of the transform.  `tableFwd` / `tableInv` model the integer part of the
    precomputation (powers of omega, packing `(t1<<32)+t`); the floating-point bit-size bookkeeping
    (`bs`, `half_bs`, `reduce`) is not modelled: its results come from the real precomp object as data.
  * The schedule is the drivers': pre-twist pass, levels `nn = n, n/2, … > split` over the whole vector,
    then for every block of `split = min(n, CHANGE_MODE_N)` the levels `nn = split … 2`  (forward);
    block levels `2 … split`, whole-vector levels `2·split … n`, final twist by `omega^-i / n`  (inverse).
-/
namespace Spq.Q120Ntt

abbrev W64 : Nat := 18446744073709551616
abbrev W32 : Nat := 4294967296

/-- `_mm256_add_epi64` on one lane -/
@[inline] def add64 (a b : Nat) : Nat := (a + b) % W64
/-- `_mm256_sub_epi64` on one lane (operands `< 2^64`) -/
@[inline] def sub64 (a b : Nat) : Nat := (a + W64 - b) % W64
/-- `_mm256_mul_epu32` on one lane -/
@[inline] def mulEpu32 (a b : Nat) : Nat := (a % W32) * (b % W32)

/-- `split_precompmul_si256` on one lane -/
@[inline] def splitMul (inp po h mask : Nat) : Nat :=
  add64 (mulEpu32 (inp &&& mask) po) (mulEpu32 (inp >>> h) (po >>> 32))

/-- `q120_ntt_reduc_step_precomp`, one lane -/
structure Reduc where
  h : Nat
  mask : Nat
  cst : Nat
deriving Repr, Inhabited, DecidableEq

/-- `q120_ntt_step_precomp`, one lane (`h` = `half_bs`) -/
structure Level where
  bs : Nat
  h : Nat
  mask : Nat
  reduce : Bool
  q2bs : Nat
deriving Repr, Inhabited, DecidableEq

/-- `modq_red` on one lane -/
@[inline] def modqRed (R : Reduc) (x : Nat) : Nat :=
  add64 (x &&& R.mask) (mulEpu32 (x >>> R.h) R.cst)

@[inline] def redIf (R : Reduc) (b : Bool) (x : Nat) : Nat := if b then modqRed R x else x

/-! ### passes, as functions of the index (`f` reads the data, `tw` reads this level's slice of powomega) -/

/-- `ntt_iter_first` (`red = false`) / `ntt_iter_first_red` (`red = true`): `x_i := x_i * po_i` -/
def twistAt (L : Level) (R : Reduc) (red : Bool) (tw : Nat → Nat) (f : Nat → Nat) (i : Nat) : Nat :=
  splitMul (redIf R red (f i)) (tw i) L.h L.mask

/-- `ntt_iter` / `ntt_iter_red` (chosen by `L.reduce`): DIF butterflies on blocks of `nn`:
    `(a, b) ↦ (a + b, (a + q2bs - b) * po_{j-1})`, no multiplication at `j = 0` -/
def fwdAt (nn : Nat) (L : Level) (R : Reduc) (tw : Nat → Nat) (f : Nat → Nat) (i : Nat) : Nat :=
  let half := nn / 2
  let j := i % nn
  if j < half then
    add64 (redIf R L.reduce (f i)) (redIf R L.reduce (f (i + half)))
  else
    let a := redIf R L.reduce (f (i - half))
    let b := redIf R L.reduce (f i)
    let d := sub64 (add64 a L.q2bs) b
    if j = half then d else splitMul d (tw (j - half - 1)) L.h L.mask

/-- `intt_iter` / `intt_iter_red`: DIT butterflies on blocks of `nn`:
    `(a, b) ↦ (a + b*po_{j-1}, a + q2bs - b*po_{j-1})`, no multiplication at `j = 0` -/
def invAt (nn : Nat) (L : Level) (R : Reduc) (tw : Nat → Nat) (f : Nat → Nat) (i : Nat) : Nat :=
  let half := nn / 2
  let j := i % nn
  if j < half then
    let a := redIf R L.reduce (f i)
    let b := redIf R L.reduce (f (i + half))
    let bo := if j = 0 then b else splitMul b (tw (j - 1)) L.h L.mask
    add64 a bo
  else
    let a := redIf R L.reduce (f (i - half))
    let b := redIf R L.reduce (f i)
    let bo := if j = half then b else splitMul b (tw (j - half - 1)) L.h L.mask
    sub64 (add64 a L.q2bs) bo

/-! ### array layer -/

@[inline] def rd (x : Array Nat) (i : Nat) : Nat := x.getD i 0

/-- one pass over a vector: every output cell is a function of the input vector -/
@[inline] def pass (g : (Nat → Nat) → Nat → Nat) (x : Array Nat) : Array Nat :=
  Array.ofFn (n := x.size) fun i => g (rd x) i.val

/-- apply `g` separately to each consecutive block of `bsz` cells (`for (it = begin; it < end; it += split_nn)`) -/
def blocks (bsz : Nat) (g : Array Nat → Array Nat) (x : Array Nat) : Array Nat :=
  let ys : Array (Array Nat) :=
    Array.ofFn (n := x.size / bsz) fun b => g (x.extract (b.val * bsz) (b.val * bsz + bsz))
  Array.ofFn (n := x.size) fun i => rd (ys.getD (i.val / bsz) #[]) (i.val % bsz)

/-- one level of the schedule: block size, its metadata record, offset of its twiddles in the lane's table -/
structure Step where
  nn : Nat
  L : Level
  off : Nat
deriving Repr, Inhabited

/-- forward levels `nn = 2^k, …, 2`; the driver's `itData++` and `powomega += halfnn - 1` -/
def fwdSteps (levels : Array Level) : (k idx off : Nat) → List Step
  | 0, _, _ => []
  | k+1, idx, off => ⟨2^(k+1), levels.getD idx default, off⟩ :: fwdSteps levels k (idx+1) (off + (2^k - 1))

/-- inverse levels `nn = 2^(l+1), …` (`c` of them); `itData++`, `powomega += halfnn - 1` -/
def invSteps (levels : Array Level) : (c l off : Nat) → List Step
  | 0, _, _ => []
  | c+1, l, off => ⟨2^(l+1), levels.getD l default, off⟩ :: invSteps levels c (l+1) (off + (2^l - 1))

def fwdPass (R : Reduc) (tbl : Array Nat) (s : Step) (x : Array Nat) : Array Nat :=
  pass (fwdAt s.nn s.L R (fun t => rd tbl (s.off + t))) x
def invPass (R : Reduc) (tbl : Array Nat) (s : Step) (x : Array Nat) : Array Nat :=
  pass (invAt s.nn s.L R (fun t => rd tbl (s.off + t))) x

/-- log2 of CHANGE_MODE_N -/
def changeModeLog : Nat := 10

/-- `q120_ntt_bb_avx2` on one lane, `n = 2^k`, split point `2^ks` (`ks = min k changeModeLog` in the code) -/
def nttLaneS (ks k : Nat) (levels : Array Level) (R : Reduc) (tbl : Array Nat) (x : Array Nat) : Array Nat :=
  if k = 0 then x else
  let n := 2^k
  -- first iteration a_k.omega^k
  let x := pass (twistAt (levels.getD 0 default) R false (fun t => rd tbl t)) x
  let steps := fwdSteps levels k 1 n
  -- computations by level: nn = n … > split_nn
  let x := (steps.take (k - ks)).foldl (fun x s => fwdPass R tbl s x) x
  -- computations by memory block: nn = split_nn … 2 on each block
  blocks (2^ks) (fun b => (steps.drop (k - ks)).foldl (fun x s => fwdPass R tbl s x) b) x

def nttLane (k : Nat) := nttLaneS (min k changeModeLog) k

/-- `q120_intt_bb_avx2` on one lane -/
def inttLaneS (ks k : Nat) (levels : Array Level) (R : Reduc) (tbl : Array Nat) (x : Array Nat) : Array Nat :=
  if k = 0 then x else
  let steps := invSteps levels k 0 0
  -- computations by memory block: nn = 2 … split_nn on each block
  let x := blocks (2^ks) (fun b => (steps.take ks).foldl (fun x s => invPass R tbl s x) b) x
  -- computations by level: nn = 2*split_nn … n
  let x := (steps.drop ks).foldl (fun x s => invPass R tbl s x) x
  -- last iteration a_k . omega^-k . n^-1   (powomega now points after the k level slices, itData at level k)
  let Ll := levels.getD k default
  let off := 2^k - 1 - k
  pass (twistAt Ll R Ll.reduce (fun t => rd tbl (off + t))) x

def inttLane (k : Nat) := inttLaneS (min k changeModeLog) k

/-! ### integer part of the precomputation -/

/-- `modq_pow(x, n, q)` of q120_ntt.c (`n` is an `int64_t`, reduced mod `q-1`; square and multiply) -/
def modqPowAux (q : Nat) : (fuel : Nat) → (np valPow res : Nat) → Nat
  | 0, _, _, res => res
  | fuel+1, np, valPow, res =>
    if np = 0 then res else
      modqPowAux q fuel (np / 2) ((valPow * valPow) % q) (if np % 2 = 1 then (res * valPow) % q else res)

def modqPow (x : Nat) (e : Int) (q : Nat) : Nat :=
  let m : Int := (q : Int) - 1
  let np : Nat := ((e % m + m) % m).toNat
  modqPowAux q 64 np x 1

/-- `fill_omegas`: `omega_n = OMEGA^(2^16 / n) mod q` -/
def omegaN (q Ω k : Nat) : Nat := modqPow Ω ((2^16 / 2^k : Nat) : Int) q

/-- `[1, w, w^2, …]` mod `q`, `c` more entries appended to `acc` (same values as `modq_pow(w, i, q)`) -/
def powsAux (q w : Nat) : (c cur : Nat) → Array Nat → Array Nat
  | 0, _, acc => acc
  | c+1, cur, acc => powsAux q w c ((cur * w) % q) (acc.push cur)

def pows (q w n : Nat) : Array Nat := powsAux q w n 1 (Array.mkEmpty n)

/-- `t1 = (t << half_bs) % q;  (t1 << 32) + t`  on uint64 -/
@[inline] def packTw (q h t : Nat) : Nat := (((((t <<< h) % W64) % q) <<< 32) % W64 + t) % W64

/-- slice of one level: `powomega[i*m]`, `i = 1 .. halfnn-1`, `m = n/halfnn`; `n2 = 2n` -/
def levelSlice (q n2 : Nat) (pw : Array Nat) (s : Step) : Array Nat :=
  Array.ofFn (n := s.nn / 2 - 1) fun i => packTw q s.L.h (rd pw ((i.val + 1) * (n2 / s.nn)))

/-- one lane of the forward table: `n` twist words, then the slices of levels `nn = n … 4` -/
def tableFwd (q Ω k : Nat) (levels : Array Level) : Array Nat :=
  let n := 2^k
  let pw := pows q (omegaN q Ω k) n
  let first := Array.ofFn (n := n) fun i => packTw q (levels.getD 0 default).h (rd pw i.val)
  (fwdSteps levels k 1 n).foldl (fun acc s => acc ++ levelSlice q (2*n) pw s) first

/-- one lane of the inverse table: slices of levels `nn = 4 … n` (powers of `omega^-1`), then the `n` words
    `omega^-i * n^-1` -/
def tableInv (q Ω k : Nat) (levels : Array Level) : Array Nat :=
  let n := 2^k
  let wbar := modqPow (omegaN q Ω k) (-1) q
  let pw := pows q wbar n
  let invN := modqPow n (-1) q
  let body := (invSteps levels k 0 0).foldl (fun acc s => acc ++ levelSlice q (2*n) pw s) #[]
  body ++ Array.ofFn (n := n) fun i => packTw q (levels.getD k default).h ((rd pw i.val * invN) % q)

/-! ### per-stage maxima (stream `qn_stages`: the real level kernels are driven stage by stage) -/

def maxOf (x : Array Nat) : Nat := x.foldl max 0

/-- maxima after the twist and after every level of the forward transform (plain level-by-level schedule) -/
def nttStageMax (k : Nat) (levels : Array Level) (R : Reduc) (tbl : Array Nat) (x : Array Nat) : List Nat :=
  if k = 0 then [] else
  let x0 := pass (twistAt (levels.getD 0 default) R false (fun t => rd tbl t)) x
  let r := (fwdSteps levels k 1 (2^k)).foldl
    (fun (acc : Array Nat × List Nat) s => let y := fwdPass R tbl s acc.1; (y, maxOf y :: acc.2)) (x0, [maxOf x0])
  r.2.reverse

/-- maxima after every level and after the final twist of the inverse transform -/
def inttStageMax (k : Nat) (levels : Array Level) (R : Reduc) (tbl : Array Nat) (x : Array Nat) : List Nat :=
  if k = 0 then [] else
  let r := (invSteps levels k 0 0).foldl
    (fun (acc : Array Nat × List Nat) s => let y := invPass R tbl s acc.1; (y, maxOf y :: acc.2)) (x, [])
  let Ll := levels.getD k default
  let y := pass (twistAt Ll R Ll.reduce (fun t => rd tbl (2^k - 1 - k + t))) r.1
  (maxOf y :: r.2).reverse

end Spq.Q120Ntt
