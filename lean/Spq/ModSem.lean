/-
  The kernel calls of `Spq/ModuleHeap.lean` as the semantics of the opaque calls (`Stmt.extcall`) of the CIR
  interpreter: what the terms generated from the FFT64 module layer (`vec_znx_dft.c`, `scalar_vector_product.c`,
  `znx_small.c`, `vector_matrix_product.c`) are run with, in `SpqProofs/Properties/SrcMod*.lean` (theorems) and in
  the driver family `mhs` (stream `cs_mod`).  Core Lean only.
-/
import Spq.CIR
import Spq.ModuleHeap
namespace Spq.Src
open Spq Spq.CIR Heap ModuleHeap
variable {α : Type}

/-- a heap transformer applied to the arena held in buffer `B` (failure of any access: `Err.oob`) -/
def onArena (B : Nat) (k : Heap Int → Heap Int) (m : Mem) : R Mem :=
  if (k ⟨buf m B, true⟩).ok then .ok (m.setIfInBounds B (k ⟨buf m B, true⟩).mem) else .err .oob

/-- the kernel record: every opaque call of the module layer is the corresponding kernel call of
    `Spq/ModuleHeap.lean` (module parts `c`, cell codec `cd`) on the arena `B`; the pointer arguments must point
    into `B`.  The reim4 kernels are given `m` (checked to be `c.m`) and block / row counts as scalars.  `nrows`
    (row count of the prepared matrix: it sizes the region of the matrix the product kernels may READ in the model;
    the C kernels are only given the number of rows they use) is a parameter of the record. -/
def modSem (c : Module.Parts α) (cd : Cells Int α) (B : Nat) (nrows : Nat := 0) : ExtSem := fun name sc ps m =>
  match name, sc, ps with
  | "reim_from_znx64", [], [some (b1, dst), some (b2, src)] =>
    if b1 = B ∧ b2 = B then onArena B (kFromZnx c cd dst src) m else .err .unsupported
  | "reim_fft", [], [some (b1, p)] => if b1 = B then onArena B (kFft c cd p) m else .err .unsupported
  | "reim_ifft", [], [some (b1, p)] => if b1 = B then onArena B (kIfft c cd p) m else .err .unsupported
  | "reim_to_znx64", [], [some (b1, dst), some (b2, src)] =>
    if b1 = B ∧ b2 = B then onArena B (kToZnx c cd dst src) m else .err .unsupported
  | "reim_fftvec_mul", [], [some (b1, r), some (b2, a), some (b3, b)] =>
    if b1 = B ∧ b2 = B ∧ b3 = B then onArena B (kMul c cd r a b) m else .err .unsupported
  | "reim_fftvec_addmul", [], [some (b1, r), some (b2, a), some (b3, b)] =>
    if b1 = B ∧ b2 = B ∧ b3 = B then onArena B (kAddmul c cd r a b) m else .err .unsupported
  | "reim4_extract_1blk_from_reim_ref", [mm, blk], [some (b1, dst), some (b2, src)] =>
    if b1 = B ∧ b2 = B ∧ mm = (c.m : Int) ∧ 0 ≤ blk then onArena B (kExtract1 c cd blk.toNat dst src) m
    else .err .unsupported
  | "reim4_extract_1blk_from_contiguous_reim_ref", [mm, rows, blk], [some (b1, dst), some (b2, src)] =>
    if b1 = B ∧ b2 = B ∧ mm = (c.m : Int) ∧ 0 ≤ rows ∧ 0 ≤ blk then
      onArena B (kExtractRows c cd rows.toNat blk.toNat dst src) m
    else .err .unsupported
  | "reim4_vec_mat2cols_product_ref", [rows], [some (b1, out), some (b2, u), some (b3, v)] =>
    if b1 = B ∧ b2 = B ∧ b3 = B ∧ 0 ≤ rows then onArena B (kProd2 c cd rows.toNat nrows out u v) m
    else .err .unsupported
  | "reim4_vec_mat1col_product_ref", [rows], [some (b1, out), some (b2, u), some (b3, v)] =>
    if b1 = B ∧ b2 = B ∧ b3 = B ∧ 0 ≤ rows then onArena B (kProd1 c cd rows.toNat nrows out u v) m
    else .err .unsupported
  | "reim4_save_1blk_to_reim_ref", [mm, blk], [some (b1, dst), some (b2, src)] =>
    if b1 = B ∧ b2 = B ∧ mm = (c.m : Int) ∧ 0 ≤ blk then onArena B (kSave c cd blk.toNat dst src) m
    else .err .unsupported
  | _, _, _ => .err .unsupported

end Spq.Src
