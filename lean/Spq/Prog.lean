/-
  C16 — straight-line programs over the limb-vector API (core Lean only).

  * `Var`   : a variable is a region descriptor `(off, size, stride)` of ONE `Heap Int` (offsets and
              strides in 64-bit cells, `size` limbs of `nn` coefficients each).
  * `Op`    : the coefficient-space fragment (add/sub/negate/copy/rotate/automorphism/normalize); the
              destination may be one of the sources (in place) or a different variable.
  * `cstep` : implementation-level semantics = the heap model of `vec_znx.c` (`Spq.VecZnx`) with wrapping
              int64 arithmetic (`i64Ops`).
  * `astep` : abstract semantics on exact integers: a variable holds a vector of limbs, each limb a
              polynomial `Array Int` of length `nn`, read as an element of Z[X]/(X^nn+1); no wrap.
  * `WF`, `InBudget` : the hypotheses of the refinement theorem (`SpqProofs/Properties/C16.lean`);
              `WFb`, `InBudgetb`, `Rb` : executable checkers (sound: `SpqProofs/Lemmas/ProgCheck.lean`).
  * second layer `OpD` / `cstepD` / `astepD`: mixed programs with DFT-space calls (`Spq.Module`) on a store
              of opaque objects, and `DftOpsSound`, the record of what the refinement theorem assumes about them.
              `vmpDD` = `vmp_apply_dft_to_dft`, the call that consumes a `VEC_ZNX_DFT` and produces another one; the
              abstract state carries the static tag `raw` ("last written by `vec_znx_dft` of a vector of `asz` limbs").
-/
import Spq.VecZnx
import Spq.Module
namespace Spq
namespace Prog

/-! ### generic straight-line execution -/

/-- run a straight-line program with a given one-step semantics -/
def run {σ ω : Type} (step : ω → σ → σ) (ops : List ω) (s : σ) : σ := ops.foldl (fun s o => step o s) s

/-- `pre` holds before every step of the run from `s` -/
def Guarded {σ ω : Type} (pre : ω → σ → Prop) (step : ω → σ → σ) : List ω → σ → Prop
  | [], _ => True
  | o :: ops, s => pre o s ∧ Guarded pre step ops (step o s)

/-! ### variables and abstract values -/

/-- region descriptor: limb `i < size` occupies cells `off + i*stride .. off + i*stride + nn - 1` -/
structure Var where
  off : Nat
  size : Nat
  stride : Nat
deriving DecidableEq, Repr

/-- abstract value of a variable: vector of limbs (index 0 = most significant, as in the C API), each limb
    the coefficient array of a polynomial; entries are exact integers -/
abbrev Val := Array (Array Int)

/-- coefficient `c` of limb `i` -/
def Val.coef (x : Val) (i c : Nat) : Int := (x.getD i #[]).getD c 0

/-- the value with `sz` limbs of `nn` coefficients given by `f` (this is where results are truncated to the
    destination's limb count) -/
def Val.mk (nn sz : Nat) (f : Nat → Nat → Int) : Val :=
  Array.ofFn (n := sz) fun i => Array.ofFn (n := nn) fun c => f i.val c.val

abbrev Env := Var → Val

def Env.set (env : Env) (d : Var) (x : Val) : Env := fun v => if v = d then x else env v

/-- coefficient function of limb `i` of the zero-extension of variable `a` -/
def ext (env : Env) (a : Var) (i : Nat) : Nat → Int :=
  fun c => if i < a.size then (env a).coef i c else 0

/-! ### polynomial maps of Z[X]/(X^nn+1) on coefficient functions (only indices `< nn` are read) -/

/-- coefficient `k` of `X^p · a`:  `± a[(k-p) mod nn]`, minus iff `(k-p) mod 2nn ≥ nn` -/
def polyRot (nn : Nat) (p : Int) (a : Nat → Int) (k : Nat) : Int :=
  let src := (((k : Int) - p) % (nn : Int)).toNat
  if (((k : Int) - p) % (2 * nn : Nat)).toNat < nn then a src else - a src

/-- `Σ_{i<n} f i` -/
def sumTo : Nat → (Nat → Int) → Int
  | 0, _ => 0
  | n + 1, f => sumTo n f + f n

/-- contribution of the monomial `a_i X^(i·p)` to coefficient `k` (with `X^(nn+k) = -X^k`) -/
def autTerm (nn : Nat) (p : Int) (a : Nat → Int) (k i : Nat) : Int :=
  let e := (((i : Int) * p) % (2 * nn : Nat)).toNat
  if e = k then a i else if e = k + nn then - a i else 0

/-- coefficient `k` of `a(X^p) = Σ_i a_i X^(i·p)` in Z[X]/(X^nn+1) (any `p`) -/
def polyAut (nn : Nat) (p : Int) (a : Nat → Int) (k : Nat) : Int := sumTo nn (autTerm nn p a k)

/-! ### balanced base-2^k digits (exact integers; limb 0 = most significant) -/

/-- representative of `x mod 2^k` in `[-2^(k-1), 2^(k-1))` -/
def balDigit (k : Nat) (x : Int) : Int := (x + 2 ^ (k - 1)) % 2 ^ k - 2 ^ (k - 1)
/-- `(x - balDigit k x) / 2^k` -/
def balCarry (k : Nat) (x : Int) : Int := (x + 2 ^ (k - 1)) / 2 ^ k

/-- digits and carry out of the most significant limb, processed from the least significant limb -/
def balancedDigits (k : Nat) : List Int → List Int × Int
  | [] => ([], 0)
  | a :: as =>
    let r := balancedDigits k as
    (balDigit k (a + r.2) :: r.1, balCarry k (a + r.2))

/-- all limbs of coefficient `c` of variable `a`, most significant first -/
def coefLimbs (env : Env) (a : Var) (c : Nat) : List Int := (List.range a.size).map fun j => (env a).coef j c

/-! ### operations -/

inductive Op where
  | add (d a b : Var)
  | sub (d a b : Var)
  | negate (d a : Var)
  | copy (d a : Var)
  | rotate (p : Int) (d a : Var)
  | automorphism (p : Int) (d a : Var)
  | normalize (k : Nat) (d a : Var)
deriving DecidableEq, Repr

def Op.dst : Op → Var
  | .add d _ _ | .sub d _ _ | .negate d _ | .copy d _ | .rotate _ d _ | .automorphism _ d _
  | .normalize _ d _ => d

def Op.srcs : Op → List Var
  | .add _ a b | .sub _ a b => [a, b]
  | .negate _ a | .copy _ a | .rotate _ _ a | .automorphism _ _ a | .normalize _ _ a => [a]

/-- implementation-level step: the heap model of `vec_znx.c` on wrapping int64 -/
def cstep (nn : Nat) : Op → Heap Int → Heap Int
  | .add d a b, h => VecZnx.add i64Ops nn h d.off d.size d.stride a.off a.size a.stride b.off b.size b.stride
  | .sub d a b, h => VecZnx.sub i64Ops nn h d.off d.size d.stride a.off a.size a.stride b.off b.size b.stride
  | .negate d a, h => VecZnx.negate i64Ops nn h d.off d.size d.stride a.off a.size a.stride
  | .copy d a, h => VecZnx.copy i64Ops nn h d.off d.size d.stride a.off a.size a.stride
  | .rotate p d a, h => VecZnx.rotate i64Ops nn p h d.off d.size d.stride a.off a.size a.stride
  | .automorphism p d a, h => VecZnx.automorphism i64Ops nn p h d.off d.size d.stride a.off a.size a.stride
  | .normalize k d a, h => VecZnx.normalize nn k h d.off d.size d.stride a.off a.size a.stride

/-- the abstract result of an operation, as a coefficient function `limb → coefficient → Int` on the
    zero-extended sources -/
def aval (nn : Nat) (env : Env) : Op → Nat → Nat → Int
  | .add _ a b => fun i c => ext env a i c + ext env b i c
  | .sub _ a b => fun i c => ext env a i c - ext env b i c
  | .negate _ a => fun i c => - ext env a i c
  | .copy _ a => fun i c => ext env a i c
  | .rotate p _ a => fun i c => polyRot nn p (ext env a i) c
  | .automorphism p _ a => fun i c => polyAut nn p (ext env a i) c
  | .normalize k _ a => fun i c =>
      if i < a.size then (balancedDigits k (coefLimbs env a c)).1.getD i 0 else 0

/-- abstract step: exact integer semantics, result truncated to the destination's limb count -/
def astep (nn : Nat) (op : Op) (env : Env) : Env :=
  env.set op.dst (Val.mk nn op.dst.size (aval nn env op))

/-! ### hypotheses of the refinement theorem -/

/-- the layout: `nn = 2^t`, strides `≥ nn`, every limb of every variable inside the heap of `hsz` cells,
    distinct variables occupy pairwise disjoint cells -/
structure WF (nn hsz : Nat) (vars : List Var) : Prop where
  pow2 : ∃ t, nn = 2 ^ t
  stride : ∀ v, v ∈ vars → nn ≤ v.stride
  inb : ∀ v, v ∈ vars → ∀ i, i < v.size → v.off + i * v.stride + nn ≤ hsz
  disj : ∀ v, v ∈ vars → ∀ w, w ∈ vars → v ≠ w → ∀ i j, i < v.size → j < w.size →
    v.off + i * v.stride + nn ≤ w.off + j * w.stride ∨ w.off + j * w.stride + nn ≤ v.off + i * v.stride

/-- static well-formedness of one call: operands are declared variables; `automorphism` takes an odd `p`
    (and `nn ≤ 2^64`, the range of the C loop counter, when in place); `normalize` takes `k ∈ [1,62]` -/
def OpOK (nn : Nat) (vars : List Var) (op : Op) : Prop :=
  op.dst ∈ vars ∧ (∀ a, a ∈ op.srcs → a ∈ vars) ∧
  match op with
  | .automorphism p d a => p % 2 = 1 ∧ (d = a → nn ≤ 18446744073709551616)
  | .normalize k _ _ => 1 ≤ k ∧ k ≤ 62
  | _ => True

/-- the value fits an int64 cell -/
def I64 (x : Int) : Prop := -9223372036854775808 ≤ x ∧ x < 9223372036854775808
/-- `|x| ≤ 2^62` -/
def B62 (x : Int) : Prop := -4611686018427387904 ≤ x ∧ x ≤ 4611686018427387904

/-- precision budget of one call, on the abstract environment: every coefficient the call stores is an
    int64 value, and the input of `normalize` is bounded by `2^62` -/
def OpBudget (nn : Nat) (op : Op) (env : Env) : Prop :=
  (∀ i c, i < op.dst.size → c < nn → I64 (aval nn env op i c)) ∧
  match op with
  | .normalize _ _ a => ∀ i c, i < a.size → c < nn → B62 ((env a).coef i c)
  | _ => True

def OpPre (nn : Nat) (vars : List Var) (op : Op) (env : Env) : Prop := OpOK nn vars op ∧ OpBudget nn op env

/-- the abstract run is well-formed and stays inside the budget at every step -/
def InBudget (nn : Nat) (vars : List Var) (ops : List Op) (env : Env) : Prop :=
  Guarded (OpPre nn vars) (astep nn) ops env

/-- abstraction relation: the heap has `hsz` cells, no access so far was out of bounds, and every
    coefficient of every limb of every declared variable holds the abstract value -/
def R (nn hsz : Nat) (vars : List Var) (env : Env) (h : Heap Int) : Prop :=
  h.mem.size = hsz ∧ h.ok = true ∧
  ∀ v, v ∈ vars → ∀ i c, i < v.size → c < nn →
    h.mem[v.off + i * v.stride + c]? = some ((env v).coef i c)

/-- read a variable back from the heap (for the examples and the driver) -/
def readVar (nn : Nat) (h : Heap Int) (v : Var) : Val :=
  Val.mk nn v.size fun i c => h.mem.getD (v.off + i * v.stride + c) 0

/-! ### executable versions of the hypotheses (sound by `SpqProofs/Lemmas/ProgCheck.lean`) -/

instance (x : Int) : Decidable (I64 x) := by unfold I64; exact inferInstance
instance (x : Int) : Decidable (B62 x) := by unfold B62; exact inferInstance

def allLt (n : Nat) (p : Nat → Bool) : Bool := (List.range n).all p

def WFb (nn hsz : Nat) (vars : List Var) : Bool :=
  (nn == 2 ^ nn.log2) &&
  vars.all (fun v => decide (nn ≤ v.stride) &&
    allLt v.size fun i => decide (v.off + i * v.stride + nn ≤ hsz)) &&
  vars.all (fun v => vars.all fun w => decide (v = w) ||
    allLt v.size fun i => allLt w.size fun j =>
      decide (v.off + i * v.stride + nn ≤ w.off + j * w.stride ∨ w.off + j * w.stride + nn ≤ v.off + i * v.stride))

def OpOKb (nn : Nat) (vars : List Var) (op : Op) : Bool :=
  decide (op.dst ∈ vars) && op.srcs.all (fun a => decide (a ∈ vars)) &&
  match op with
  | .automorphism p d a => decide (p % 2 = 1) && (decide (d ≠ a) || decide (nn ≤ 18446744073709551616))
  | .normalize k _ _ => decide (1 ≤ k) && decide (k ≤ 62)
  | _ => true

def OpBudgetb (nn : Nat) (op : Op) (env : Env) : Bool :=
  (allLt op.dst.size fun i => allLt nn fun c => decide (I64 (aval nn env op i c))) &&
  match op with
  | .normalize _ _ a => allLt a.size fun i => allLt nn fun c => decide (B62 ((env a).coef i c))
  | _ => true

def InBudgetb (nn : Nat) (vars : List Var) : List Op → Env → Bool
  | [], _ => true
  | op :: ops, env => OpOKb nn vars op && OpBudgetb nn op env && InBudgetb nn vars ops (astep nn op env)

def Rb (nn hsz : Nat) (vars : List Var) (env : Env) (h : Heap Int) : Bool :=
  (h.mem.size == hsz) && h.ok &&
  vars.all fun v => allLt v.size fun i => allLt nn fun c =>
    h.mem[v.off + i * v.stride + c]? == some ((env v).coef i c)

/-! ## DFT-space layer: mixed programs (`vec_znx_dft`, `svp_*`, `vmp_*`, `vec_znx_idft`, small product)

  A second store holds the opaque objects (`VEC_ZNX_DFT`, `SVP_PPOL`, `VMP_PMAT`); the implementation-level
  step applies the module-level model `Spq.Module` (polymorphic in the DFT-space carrier `α`: binary64
  patterns for execution, an exact ring for the exact-arithmetic theorems) to the limbs read from the heap.
  The abstract value of an opaque object is the vector of integer polynomials it is the transform of. -/

/-- `VEC_ZNX_DFT` variable: `size` limbs -/
structure DVar where
  id : Nat
  size : Nat
deriving DecidableEq, Repr

/-- `VMP_PMAT` variable -/
structure MVar where
  id : Nat
  nrows : Nat
  ncols : Nat
deriving DecidableEq, Repr

inductive OpD where
  | coeff (op : Op)
  /-- `vec_znx_dft(d, a)` -/
  | dft (d : DVar) (a : Var)
  /-- `svp_prepare(s, a)`: `a` a single polynomial (limb 0 of the variable) -/
  | svpPrepare (s : Nat) (a : Var)
  /-- `svp_apply_dft(d, s, a)` -/
  | svp (d : DVar) (s : Nat) (a : Var)
  /-- `vmp_prepare_contiguous(m, a)`: `a` holds the `nrows × ncols` polynomials row-major, stride `nn` -/
  | vmpPrepare (m : MVar) (a : Var)
  /-- `vmp_apply_dft(d, a, m)` -/
  | vmp (d : DVar) (a : Var) (m : MVar)
  /-- `vmp_apply_dft_to_dft(d, a, m)`: `a` a `VEC_ZNX_DFT` variable -/
  | vmpDD (d a : DVar) (m : MVar)
  /-- `vec_znx_idft(d, a)`: `d` is a `VEC_ZNX_BIG` (int64 limbs, stride `nn`) living in the heap -/
  | idft (d : Var) (a : DVar)
  /-- `znx_small_single_product(d, a, b)` on limb 0 of `a`, `b`; `d` has one limb -/
  | smallProduct (d a b : Var)
deriving Repr

/-- implementation-level state -/
structure CState (α : Type) where
  heap : Heap Int
  dvec : DVar → Array α
  ppol : Nat → Array α
  pmat : MVar → Array α

/-- abstract state; an opaque object that was never written holds `none`.  `raw v = some asz` is a STATIC tag (it
    depends on the program text only): the last write to the `VEC_ZNX_DFT` variable `v` was `vec_znx_dft(v, a)` with
    `a.size = asz` — the object is a raw transform, not a product -/
structure AState where
  env : Env
  dvec : DVar → Option Val
  ppol : Nat → Option (Array Int)
  pmat : MVar → Option Val
  raw : DVar → Option Nat

def upd {κ β : Type} [DecidableEq κ] (f : κ → β) (k : κ) (v : β) : κ → β := fun j => if j = k then v else f j

/-- the cells `off .. off + size*stride` of a variable as the flat array the C function receives -/
def flat (h : Heap Int) (a : Var) : Array Int :=
  Array.ofFn (n := a.size * a.stride) fun j => h.mem.getD (a.off + j.val) 0

/-- `sz` limbs of `nn` coefficients given by `f`, stride `nn` (the canonical flat array of an abstract vector) -/
def flatOf (nn sz : Nat) (f : Nat → Nat → Int) : Array Int :=
  Array.ofFn (n := sz * nn) fun j => f (j.val / nn) (j.val % nn)

/-- store limb `i` = cells `i*nn .. i*nn+nn-1` of `x` to limb `i` of `d` -/
def storeVec (nn : Nat) (h : Heap Int) (d : Var) (x : Array Int) : Heap Int :=
  Heap.forLimbs 0 d.size
    (fun i => Heap.limb0 (Array.ofFn (n := nn) fun c => x.getD (i * nn + c.val) 0) (d.off + i * d.stride)) h

variable {α : Type}

def cstepD (c : Module.Parts α) (nn : Nat) : OpD → CState α → CState α
  | .coeff op, s => { s with heap := cstep nn op s.heap }
  | .dft d a, s => { s with dvec := upd s.dvec d (Module.vecDft c d.size (flat s.heap a) a.size a.stride) }
  | .svpPrepare k a, s =>
      { s with ppol := upd s.ppol k (Module.svpPrepare c (Module.limbOf (flat s.heap a) 0 a.stride nn)) }
  | .svp d k a, s =>
      { s with dvec := upd s.dvec d (Module.svpApply c d.size (s.ppol k) (flat s.heap a) a.size a.stride) }
  | .vmpPrepare m a, s =>
      { s with pmat := upd s.pmat m (Module.vmpPrepare c (flat s.heap a) m.nrows m.ncols) }
  | .vmp d a m, s =>
      let r := Module.vmpApplyDft c d.size (flat s.heap a) a.size a.stride (s.pmat m) m.nrows m.ncols
      { s with dvec := upd s.dvec d r }
  | .vmpDD d a m, s =>
      let r := Module.vmpApplyDftToDft c d.size (s.dvec a) a.size (s.pmat m) m.nrows m.ncols
      { s with dvec := upd s.dvec d r }
  | .idft d a, s => { s with heap := storeVec nn s.heap d (Module.vecIdft c d.size (s.dvec a) a.size) }
  | .smallProduct d a b, s =>
      let r := Module.smallProduct c (Module.limbOf (flat s.heap a) 0 a.stride nn)
        (Module.limbOf (flat s.heap b) 0 b.stride nn)
      { s with heap := storeVec nn s.heap d r }

/-- coefficient `k` of the negacyclic product `a · b` in Z[X]/(X^nn+1) -/
def polyMul (nn : Nat) (a b : Nat → Int) (k : Nat) : Int :=
  sumTo nn fun i => if i ≤ k then a i * b (k - i) else - (a i * b (k + nn - i))

/-- zero-extension of a coefficient function given on `asz` limbs -/
def zext (asz : Nat) (f : Nat → Nat → Int) : Nat → Nat → Int := fun i c => if i < asz then f i c else 0

/-- column `j` of the vector-matrix product: `Σ_{i < min nrows asz} a_i · M[i][j]`, zero for `j ≥ ncols` -/
def vmpVal (nn asz : Nat) (f : Nat → Nat → Int) (M : Val) (nrows ncols : Nat) : Nat → Nat → Int :=
  fun j c => if j < ncols then
      sumTo (min nrows asz) fun i => polyMul nn (f i) (fun t => M.coef (i * ncols + j) t) c
    else 0

def astepD (nn : Nat) : OpD → AState → AState
  | .coeff op, s => { s with env := astep nn op s.env }
  | .dft d a, s =>
      { s with dvec := upd s.dvec d (some (Val.mk nn d.size (ext s.env a))), raw := upd s.raw d (some a.size) }
  | .svpPrepare k a, s => { s with ppol := upd s.ppol k (some (Array.ofFn (n := nn) fun c => ext s.env a 0 c.val)) }
  | .svp d k a, s =>
      let sp := (s.ppol k).getD #[]
      { s with dvec := upd s.dvec d (some (Val.mk nn d.size fun i c => polyMul nn (ext s.env a i) (fun t => sp.getD t 0) c)),
               raw := upd s.raw d none }
  | .vmpPrepare m a, s => { s with pmat := upd s.pmat m (some (Val.mk nn (m.nrows * m.ncols) (ext s.env a))) }
  | .vmp d a m, s =>
      let M := (s.pmat m).getD #[]
      { s with dvec := upd s.dvec d (some (Val.mk nn d.size (vmpVal nn a.size (ext s.env a) M m.nrows m.ncols))),
               raw := upd s.raw d none }
  | .vmpDD d a m, s =>
      let P := (s.dvec a).getD #[]
      let M := (s.pmat m).getD #[]
      let r := Val.mk nn d.size (vmpVal nn a.size (zext a.size fun i t => P.coef i t) M m.nrows m.ncols)
      { s with dvec := upd s.dvec d (some r), raw := upd s.raw d none }
  | .idft d a, s =>
      { s with env := s.env.set d (Val.mk nn d.size (zext a.size fun i c => ((s.dvec a).getD #[]).coef i c)) }
  | .smallProduct d a b, s =>
      { s with env := s.env.set d (Val.mk nn d.size fun _ c => polyMul nn (ext s.env a 0) (ext s.env b 0) c) }

/-- the array `x` (limb stride `asl`) contains `asz` limbs holding the coefficient function `f` -/
def Agree (nn : Nat) (x : Array Int) (asz asl : Nat) (f : Nat → Nat → Int) : Prop :=
  (∀ i, i < asz → i * asl + nn ≤ x.size) ∧ ∀ i c, i < asz → c < nn → x.getD (i * asl + c) 0 = f i c

/-- **What is assumed about the DFT-space functions** (fields named after the C01 / C02 theorems).
    `RepV P sz d`: the `VEC_ZNX_DFT` content `d` (of `sz` limbs) represents the integer polynomial vector `P`
    (exact arithmetic: `dlimb d i = fft (fromZnx P_i)`; binary64: within the C01 error bound); likewise
    `RepS`, `RepM`.  Each `*_budget` is the precision budget of the call on the abstract operands (exact
    arithmetic: `True`; binary64: the C01 magnitude bounds); the budgets of the calls that produce a `VEC_ZNX_DFT`
    receive the limb count `rsz` of the result first.  `vmp_dd_*` is `vmp_apply_dft_to_dft`: its budget also receives
    the static tag `raw` of the vector operand, and its exactness statement may use that a tagged operand is, bit for
    bit, `vec_znx_dft` of the exact limbs (binary64 needs it: products of products are outside the proved budget; exact
    arithmetic does not).  Each `*_exact` says that the module-level model
    function, applied to arrays holding / representing the abstract operands inside the budget, returns an
    object representing the exact result in Z[X]/(X^nn+1) — resp. exactly the integer limbs for the two
    functions that leave DFT space. -/
structure DftOpsSound (c : Module.Parts α) (nn : Nat) where
  /-- the module has dimension `nn` -/
  nn_eq : c.nn = nn
  RepV : Val → Nat → Array α → Prop
  RepS : Array Int → Array α → Prop
  RepM : Val → Nat → Nat → Array α → Prop
  dft_budget : Nat → Nat → (Nat → Nat → Int) → Prop
  svp_prepare_budget : (Nat → Int) → Prop
  svp_budget : Nat → Nat → (Nat → Nat → Int) → Array Int → Prop
  vmp_prepare_budget : Nat → Nat → (Nat → Nat → Int) → Prop
  vmp_budget : Nat → Nat → (Nat → Nat → Int) → Val → Nat → Nat → Prop
  vmp_dd_budget : Nat → Option Nat → Val → Nat → Val → Nat → Nat → Prop
  idft_budget : Val → Nat → Prop
  small_product_budget : (Nat → Int) → (Nat → Int) → Prop
  dft_exact : ∀ (x : Array Int) (asz asl rsz : Nat) (f : Nat → Nat → Int), nn ≤ asl → Agree nn x asz asl f →
    dft_budget rsz asz f → RepV (Val.mk nn rsz (zext asz f)) rsz (Module.vecDft c rsz x asz asl)
  svp_prepare_exact : ∀ (x : Array Int) (f : Nat → Int), (∀ t, t < nn → x.getD t 0 = f t) →
    svp_prepare_budget f → RepS (Array.ofFn (n := nn) fun t => f t.val) (Module.svpPrepare c x)
  svp_exact : ∀ (x : Array Int) (asz asl rsz : Nat) (f : Nat → Nat → Int) (sp : Array Int) (s : Array α),
    nn ≤ asl → Agree nn x asz asl f → RepS sp s → svp_budget rsz asz f sp →
    RepV (Val.mk nn rsz fun i c => polyMul nn (zext asz f i) (fun t => sp.getD t 0) c) rsz
      (Module.svpApply c rsz s x asz asl)
  vmp_prepare_exact : ∀ (x : Array Int) (nrows ncols : Nat) (f : Nat → Nat → Int),
    Agree nn x (nrows * ncols) nn f → vmp_prepare_budget nrows ncols f →
    RepM (Val.mk nn (nrows * ncols) f) nrows ncols (Module.vmpPrepare c x nrows ncols)
  vmp_exact : ∀ (x : Array Int) (asz asl rsz : Nat) (f : Nat → Nat → Int) (M : Val) (pm : Array α)
    (nrows ncols : Nat), nn ≤ asl → Agree nn x asz asl f → RepM M nrows ncols pm →
    vmp_budget rsz asz f M nrows ncols →
    RepV (Val.mk nn rsz (vmpVal nn asz (zext asz f) M nrows ncols)) rsz
      (Module.vmpApplyDft c rsz x asz asl pm nrows ncols)
  vmp_dd_exact : ∀ (P : Val) (asz rsz : Nat) (d : Array α) (M : Val) (pm : Array α) (nrows ncols : Nat)
    (raw : Option Nat), RepV P asz d →
    (∀ az, raw = some az → d = Module.vecDft c asz (flatOf nn asz fun i t => P.coef i t) (min az asz) nn) →
    RepM M nrows ncols pm → vmp_dd_budget rsz raw P asz M nrows ncols →
    RepV (Val.mk nn rsz (vmpVal nn asz (zext asz fun i t => P.coef i t) M nrows ncols)) rsz
      (Module.vmpApplyDftToDft c rsz d asz pm nrows ncols)
  dft_idft_exact : ∀ (P : Val) (sz rsz : Nat) (d : Array α), RepV P sz d → idft_budget P sz →
    ∀ i t, i < rsz → t < nn →
      (Module.vecIdft c rsz d sz).getD (i * nn + t) 0 = zext sz (fun i t => P.coef i t) i t
  small_product_exact : ∀ (a b : Array Int) (fa fb : Nat → Int), (∀ t, t < nn → a.getD t 0 = fa t) →
    (∀ t, t < nn → b.getD t 0 = fb t) → small_product_budget fa fb →
    ∀ t, t < nn → (Module.smallProduct c a b).getD t 0 = polyMul nn fa fb t

/-- well-formedness and budget of one call of a mixed program, on the abstract state.
    `vmpDD d a m` requires `d ≠ a`: `vmp_apply_dft_to_dft` is NOT an in-place function (for `nn < 8` the C code,
    `vector_matrix_product.c` and its avx twin, writes column 0 of `res` and then reads row 0 of `a_dft` again for
    column 1), while `cstepD` computes the result from the old content of `a`. -/
def PreD {c : Module.Parts α} {nn : Nat} (S : DftOpsSound c nn) (vars : List Var) : OpD → AState → Prop
  | .coeff op, s => OpPre nn vars op s.env
  | .dft d a, s => a ∈ vars ∧ S.dft_budget d.size a.size (fun i t => (s.env a).coef i t)
  | .svpPrepare _ a, s => a ∈ vars ∧ 0 < a.size ∧ S.svp_prepare_budget (fun t => (s.env a).coef 0 t)
  | .svp d k a, s => a ∈ vars ∧ ∃ sp, s.ppol k = some sp ∧
      S.svp_budget d.size a.size (fun i t => (s.env a).coef i t) sp
  | .vmpPrepare m a, s => a ∈ vars ∧ a.stride = nn ∧ a.size = m.nrows * m.ncols ∧
      S.vmp_prepare_budget m.nrows m.ncols (fun i t => (s.env a).coef i t)
  | .vmp d a m, s => a ∈ vars ∧ ∃ M, s.pmat m = some M ∧
      S.vmp_budget d.size a.size (fun i t => (s.env a).coef i t) M m.nrows m.ncols
  | .vmpDD d a m, s => d ≠ a ∧ ∃ P M, s.dvec a = some P ∧ s.pmat m = some M ∧
      S.vmp_dd_budget d.size (s.raw a) P a.size M m.nrows m.ncols
  | .idft d a, s => d ∈ vars ∧ ∃ P, s.dvec a = some P ∧ S.idft_budget P a.size
  | .smallProduct d a b, s => d ∈ vars ∧ a ∈ vars ∧ b ∈ vars ∧ d.size = 1 ∧ 0 < a.size ∧ 0 < b.size ∧
      S.small_product_budget (fun t => (s.env a).coef 0 t) (fun t => (s.env b).coef 0 t)

/-- abstraction relation on mixed states; the last conjunct is the provenance of tagged `VEC_ZNX_DFT` objects: a raw
    transform is, bit for bit, `vec_znx_dft` of its exact limbs (true of every module `c`: it only says where the
    object came from) -/
def RD {c : Module.Parts α} {nn : Nat} (S : DftOpsSound c nn) (hsz : Nat) (vars : List Var)
    (a : AState) (s : CState α) : Prop :=
  R nn hsz vars a.env s.heap ∧
  (∀ v P, a.dvec v = some P → S.RepV P v.size (s.dvec v)) ∧
  (∀ k sp, a.ppol k = some sp → S.RepS sp (s.ppol k)) ∧
  (∀ m M, a.pmat m = some M → S.RepM M m.nrows m.ncols (s.pmat m)) ∧
  (∀ v az, a.raw v = some az → ∃ P, a.dvec v = some P ∧
    s.dvec v = Module.vecDft c v.size (flatOf nn v.size fun i t => P.coef i t) (min az v.size) nn)

end Prog
end Spq
