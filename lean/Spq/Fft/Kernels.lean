/-
  Kernels shared by the reim and cplx layouts: the 16-point leaves (reference C and the hand-written
  assembly `reim_fft16_avx_fma.s`, `cplx_fft16_avx_fma.s`, … have the same butterfly structure; the two
  layouts only store the 8 twiddles of a leaf at different table positions) and the radix-4 passes
  (`reim_bitwiddle_fft_*`, `cplx_bitwiddle_fft_*`, `cplx_bisplit_fft_ref`: same 4-double table layout).
-/
import Spq.Fft.Core
namespace Spq.Fft
variable {α : Type} [Inhabited α]

/-- 16-point forward leaf.  `w k` (k < 8) is the k-th twiddle `(re, im)` in the canonical order
`ω, α, β, jβ, γ, jγ, kγ, kjγ` of `cplx_fft16_precomp` / `fill_reim_fft16_omegas`. -/
def fft16K (F : Flav α) (w : Nat → α × α) (off : Nat) (s : RI α) : RI α :=
  let s := iterFrom (fun i s => bf F.ct s (off + i) (off + 8 + i) (w 0).1 (w 0).2) 8 0 s
  let s := iterFrom (fun i s => bf F.ct s (off + i) (off + 4 + i) (w 1).1 (w 1).2) 4 0 s
  let s := iterFrom (fun i s => bf F.cit s (off + 8 + i) (off + 12 + i) (w 1).1 (w 1).2) 4 0 s
  let s := bf F.ct s off (off + 2) (w 2).1 (w 2).2
  let s := bf F.ct s (off + 1) (off + 3) (w 2).1 (w 2).2
  let s := bf F.cit s (off + 4) (off + 6) (w 2).1 (w 2).2
  let s := bf F.cit s (off + 5) (off + 7) (w 2).1 (w 2).2
  let s := bf F.ct s (off + 8) (off + 10) (w 3).1 (w 3).2
  let s := bf F.ct s (off + 9) (off + 11) (w 3).1 (w 3).2
  let s := bf F.cit s (off + 12) (off + 14) (w 3).1 (w 3).2
  let s := bf F.cit s (off + 13) (off + 15) (w 3).1 (w 3).2
  iterFrom (fun q s =>
    let s := bf F.ct s (off + 4 * q) (off + 4 * q + 1) (w (4 + q)).1 (w (4 + q)).2
    bf F.cit s (off + 4 * q + 2) (off + 4 * q + 3) (w (4 + q)).1 (w (4 + q)).2) 4 0 s

/-- 16-point inverse leaf.  `w k` (k < 8): canonical order of `cplx_ifft16_precomp` /
`fill_reim_ifft16_omegas`: `γ̄, jγ̄, kγ̄, kjγ̄, β̄, jβ̄, ᾱ, ω̄`. -/
def ifft16K (F : Flav α) (w : Nat → α × α) (off : Nat) (s : RI α) : RI α :=
  let s := iterFrom (fun q s =>
    let s := bf F.ct s (off + 4 * q) (off + 4 * q + 1) (w q).1 (w q).2
    bf F.cit s (off + 4 * q + 2) (off + 4 * q + 3) (w q).1 (w q).2) 4 0 s
  let s := bf F.ct s off (off + 2) (w 4).1 (w 4).2
  let s := bf F.ct s (off + 1) (off + 3) (w 4).1 (w 4).2
  let s := bf F.cit s (off + 4) (off + 6) (w 4).1 (w 4).2
  let s := bf F.cit s (off + 5) (off + 7) (w 4).1 (w 4).2
  let s := bf F.ct s (off + 8) (off + 10) (w 5).1 (w 5).2
  let s := bf F.ct s (off + 9) (off + 11) (w 5).1 (w 5).2
  let s := bf F.cit s (off + 12) (off + 14) (w 5).1 (w 5).2
  let s := bf F.cit s (off + 13) (off + 15) (w 5).1 (w 5).2
  let s := iterFrom (fun i s => bf F.ct s (off + i) (off + 4 + i) (w 6).1 (w 6).2) 4 0 s
  let s := iterFrom (fun i s => bf F.cit s (off + 8 + i) (off + 12 + i) (w 6).1 (w 6).2) 4 0 s
  iterFrom (fun i s => bf F.ct s (off + i) (off + 8 + i) (w 7).1 (w 7).2) 8 0 s

/-- radix-4 forward pass on the block `[off, off+4h)`; `om = T[t..t+3]` = (first level re, im,
second level re, im).  The reference code runs the two levels as two loops, the AVX2 code fuses
them per index; the butterflies of different `i` touch disjoint cells, so the results coincide. -/
def bitwiddle (F : Flav α) (T : Array α) (t h off : Nat) (s : RI α) : RI α :=
  let s := iterFrom (fun i s =>
    let s := bf F.ct s (off + i) (off + 2 * h + i) T[t]! T[t + 1]!
    bf F.ct s (off + h + i) (off + 3 * h + i) T[t]! T[t + 1]!) h 0 s
  iterFrom (fun i s =>
    let s := bf F.ct s (off + i) (off + h + i) T[t + 2]! T[t + 3]!
    bf F.cit s (off + 2 * h + i) (off + 3 * h + i) T[t + 2]! T[t + 3]!) h 0 s

/-- radix-4 inverse pass (`reim_invbitwiddle_ifft_*`, `cplx_bisplit_fft_ref`) on `[off, off+4h)` -/
def invbitwiddle (F : Flav α) (T : Array α) (t h off : Nat) (s : RI α) : RI α :=
  let s := iterFrom (fun i s =>
    let s := bf F.ct s (off + i) (off + h + i) T[t]! T[t + 1]!
    bf F.cit s (off + 2 * h + i) (off + 3 * h + i) T[t]! T[t + 1]!) h 0 s
  iterFrom (fun i s =>
    let s := bf F.ct s (off + i) (off + 2 * h + i) T[t + 2]! T[t + 3]!
    bf F.ct s (off + h + i) (off + 3 * h + i) T[t + 2]! T[t + 3]!) h 0 s

/-- table positions of the forward 16-point leaf, reim layout -/
@[inline] def reimW16 (T : Array α) (t : Nat) (k : Nat) : α × α :=
  if k < 4 then (T[t + 2 * k]!, T[t + 2 * k + 1]!) else (T[t + 4 + k]!, T[t + 8 + k]!)
/-- table positions of the inverse 16-point leaf, reim layout -/
@[inline] def reimIW16 (T : Array α) (t : Nat) (k : Nat) : α × α :=
  if k < 4 then (T[t + k]!, T[t + 4 + k]!) else (T[t + 2 * k]!, T[t + 2 * k + 1]!)
/-- cplx layout (forward and inverse): the k-th complex of the pack -/
@[inline] def cplxW16 (T : Array α) (t : Nat) (k : Nat) : α × α := (T[t + 2 * k]!, T[t + 2 * k + 1]!)

def fft16 (F : Flav α) (T : Array α) (t off : Nat) (s : RI α) : RI α := fft16K F (reimW16 T t) off s
def ifft16 (F : Flav α) (T : Array α) (t off : Nat) (s : RI α) : RI α := ifft16K F (reimIW16 T t) off s

end Spq.Fft
