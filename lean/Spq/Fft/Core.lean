/-
  FFT / iFFT of spqlios (reim and cplx layouts): arithmetic-polymorphic butterflies and passes.

  The butterfly NETWORK is written once over an arithmetic record `Arith α`; it is executed with
  `α = Nat` (binary64 bit patterns, `Spq.F64`) for the bit-exact tie with the C code, and
  instantiated with a commutative ring in `SpqProofs` for the exactness theorems (C06).

  Butterflies (arguments `ra ia rb ib ωr ωi`, result `(ra', ia', rb', ib')`):
    * reference C (`reim_fft_ref.c`, `cplx_fft_ref.c`; compiled WITHOUT -mfma): `a*b - c*d` is
      mul, mul, sub, in the order of the source expression;
    * FMA flavour (`reim_fft_avx2.c`, the 4/8-point C kernels, the 16-point assembly leaves):
      one product is rounded (`vmulpd`), the other is fused (`vfmsub231pd`/`vfmadd231pd`).
      The `i·ω` butterfly exists in two FMA shapes: "B" (bitwiddle passes of `reim_fft_avx2.c`
      and the assembly: `t = ωi·rb + fl(ωr·ib)`, then `ra ∓ t`) and "N" (4/8-point kernels: the
      ordinary butterfly called with the lane-swapped twiddle `(-ωi, ωr)`).  They differ in the
      sign of an exact zero, so both are modelled.
-/
import Spq.F64
namespace Spq.Fft

structure Arith (α : Type) where
  add : α → α → α
  sub : α → α → α
  mul : α → α → α
  neg : α → α
  /-- `a*b + c`, one rounding -/
  fma : α → α → α → α
  /-- `a*b - c`, one rounding -/
  fms : α → α → α → α

/-- binary64 on bit patterns -/
def f64 : Arith Nat := ⟨F64.add, F64.sub, F64.mul, F64.neg, F64.fma, F64.fms⟩

/-- a butterfly: `ra ia rb ib ωr ωi ↦ (ra', ia', rb', ib')` -/
abbrev Bf (α : Type) := α → α → α → α → α → α → (α × α × α × α)

section bf
variable {α : Type} (A : Arith α)

/-- `reim_ctwiddle` / cplx `ctwiddle`: (a,b) ← (a + ω b, a − ω b) -/
def ctRef : Bf α := fun ra ia rb ib wr wi =>
  let nr := A.sub (A.mul rb wr) (A.mul ib wi)
  let ni := A.add (A.mul rb wi) (A.mul ib wr)
  (A.add ra nr, A.add ia ni, A.sub ra nr, A.sub ia ni)

/-- `reim_citwiddle` / cplx `citwiddle`: (a,b) ← (a + iω b, a − iω b) -/
def citRef : Bf α := fun ra ia rb ib wr wi =>
  let nr := A.sub (A.mul (A.neg rb) wi) (A.mul ib wr)
  let ni := A.sub (A.mul rb wr) (A.mul ib wi)
  (A.add ra nr, A.add ia ni, A.sub ra nr, A.sub ia ni)

/-- FMA butterfly: `vmulpd` + `vfmsub231pd`/`vfmadd231pd` -/
def ctFma : Bf α := fun ra ia rb ib wr wi =>
  let nr := A.fms rb wr (A.mul ib wi)
  let ni := A.fma ib wr (A.mul rb wi)
  (A.add ra nr, A.add ia ni, A.sub ra nr, A.sub ia ni)

/-- FMA `i·ω` butterfly, shape B (bitwiddle passes and assembly leaves) -/
def citFmaB : Bf α := fun ra ia rb ib wr wi =>
  let tr := A.fma wi rb (A.mul wr ib)
  let ti := A.fms wi ib (A.mul wr rb)
  (A.sub ra tr, A.sub ia ti, A.add ra tr, A.add ia ti)

/-- FMA `i·ω` butterfly, shape N (4/8-point kernels): `ctFma` with twiddle `(-ωi, ωr)` -/
def citFmaN : Bf α := fun ra ia rb ib wr wi => ctFma A ra ia rb ib (A.neg wi) wr

/-- `reim_invctwiddle`: (a,b) ← (a + b, (a − b)·ω̄)   (`ω̄` is what the table holds) -/
def ictRef : Bf α := fun ra ia rb ib wr wi =>
  let rd := A.sub ra rb
  let id := A.sub ia ib
  (A.add ra rb, A.add ia ib,
   A.sub (A.mul rd wr) (A.mul id wi), A.add (A.mul rd wi) (A.mul id wr))

/-- `reim_invcitwiddle` -/
def icitRef : Bf α := fun ra ia rb ib wr wi =>
  let rd := A.sub ra rb
  let id := A.sub ia ib
  (A.add ra rb, A.add ia ib,
   A.add (A.mul rd wi) (A.mul id wr), A.add (A.mul (A.neg rd) wr) (A.mul id wi))

def ictFma : Bf α := fun ra ia rb ib wr wi =>
  let rd := A.sub ra rb
  let id := A.sub ia ib
  (A.add ra rb, A.add ia ib, A.fms rd wr (A.mul id wi), A.fma id wr (A.mul rd wi))

def icitFmaB : Bf α := fun ra ia rb ib wr wi =>
  let rd := A.sub ra rb
  let id := A.sub ia ib
  (A.add ra rb, A.add ia ib, A.fma wi rd (A.mul wr id), A.fms wi id (A.mul wr rd))

/-- 4/8-point inverse kernels: `ictFma` with twiddle `(ωi, -ωr)` -/
def icitFmaN : Bf α := fun ra ia rb ib wr wi => ictFma A ra ia rb ib wi (A.neg wr)

end bf

/-- the butterflies one implementation uses: `ct`/`cit` in the big passes and the 16-point leaf,
`ctS`/`citS` in the 4- and 8-point kernels, `ct2` in the 2-point kernel -/
structure Flav (α : Type) where
  ct : Bf α
  cit : Bf α
  ctS : Bf α
  citS : Bf α
  ct2 : Bf α

def fwdRef {α} (A : Arith α) : Flav α := ⟨ctRef A, citRef A, ctRef A, citRef A, ctRef A⟩
/-- `reim_fft_avx2_fma`: m = 2 is dispatched to `reim_fft2_ref` -/
def fwdFma {α} (A : Arith α) : Flav α := ⟨ctFma A, citFmaB A, ctFma A, citFmaN A, ctRef A⟩
def invRef {α} (A : Arith α) : Flav α := ⟨ictRef A, icitRef A, ictRef A, icitRef A, ictRef A⟩
def invFma {α} (A : Arith α) : Flav α := ⟨ictFma A, icitFmaB A, ictFma A, icitFmaN A, ictRef A⟩

/-- split storage: real parts and imaginary parts -/
structure RI (α : Type) where
  re : Array α
  im : Array α

/-- `f 0`, `f 1`, …, `f (n-1)` applied in this order (tail recursive; `i` is the running index) -/
def iterFrom {σ : Type} (f : Nat → σ → σ) : (cnt : Nat) → (i : Nat) → σ → σ
  | 0, _, s => s
  | c + 1, i, s => iterFrom f c (i + 1) (f i s)

variable {α : Type} [Inhabited α]

/-- apply butterfly `f` to cells `a`, `b` -/
@[inline] def bf (f : Bf α) (s : RI α) (a b : Nat) (wr wi : α) : RI α :=
  let r := f s.re[a]! s.im[a]! s.re[b]! s.im[b]! wr wi
  ⟨(s.re.set! a r.1).set! b r.2.2.1, (s.im.set! a r.2.1).set! b r.2.2.2⟩

/-- `reim_twiddle_fft_*` / `reim_invtwiddle_ifft_*`: `h` butterflies `(off+i, off+h+i)` -/
def twPass (f : Bf α) (h off : Nat) (wr wi : α) (s : RI α) : RI α :=
  iterFrom (fun i s => bf f s (off + i) (off + h + i) wr wi) h 0 s

end Spq.Fft
