/-
  reim layout (m real parts then m imaginary parts): `reim_fft_ref.c`, `reim_fft_avx2.c`,
  `reim_fft{4,8}_avx_fma.c`, `reim_fft16_avx_fma.s` and the inverse counterparts.

  The twiddle table is DATA (`T : Array α`, the `powomegas` array of the precomp object);
  `t` is the C pointer `*omg` as an index into `T`.  Every function mirrors one C function; the
  reference and FMA implementations share the loop structure and differ only by the `Flav`.
-/
import Spq.Fft.Kernels
namespace Spq.Fft
variable {α : Type} [Inhabited α]

/-! ### forward leaves -/

/-- `reim_fft2_ref` -/
def fft2 (F : Flav α) (T : Array α) (t off : Nat) (s : RI α) : RI α :=
  bf F.ct2 s off (off + 1) T[t]! T[t + 1]!

/-- `reim_fft4_ref` / `reim_fft4_avx_fma` -/
def fft4 (F : Flav α) (T : Array α) (t off : Nat) (s : RI α) : RI α :=
  let s := bf F.ctS s off (off + 2) T[t]! T[t + 1]!
  let s := bf F.ctS s (off + 1) (off + 3) T[t]! T[t + 1]!
  let s := bf F.ctS s off (off + 1) T[t + 2]! T[t + 3]!
  bf F.citS s (off + 2) (off + 3) T[t + 2]! T[t + 3]!

/-- `reim_fft8_ref` / `reim_fft8_avx_fma` -/
def fft8 (F : Flav α) (T : Array α) (t off : Nat) (s : RI α) : RI α :=
  let s := iterFrom (fun i s => bf F.ctS s (off + i) (off + 4 + i) T[t]! T[t + 1]!) 4 0 s
  let s := bf F.ctS s off (off + 2) T[t + 2]! T[t + 3]!
  let s := bf F.ctS s (off + 1) (off + 3) T[t + 2]! T[t + 3]!
  let s := bf F.citS s (off + 4) (off + 6) T[t + 2]! T[t + 3]!
  let s := bf F.citS s (off + 5) (off + 7) T[t + 2]! T[t + 3]!
  -- om[4],om[5] = re a, re b ; om[6],om[7] = im a, im b
  let s := bf F.ctS s off (off + 1) T[t + 4]! T[t + 6]!
  let s := bf F.citS s (off + 2) (off + 3) T[t + 4]! T[t + 6]!
  let s := bf F.ctS s (off + 4) (off + 5) T[t + 5]! T[t + 7]!
  bf F.citS s (off + 6) (off + 7) T[t + 5]! T[t + 7]!

/-! ### forward passes and drivers -/

/-- the `while (mm > 16)` loop of `reim_fft_bfs_16_*` (`fuel` bounds the number of iterations; callers pass `m`, always enough) -/
def bfsLevels (F : Flav α) (T : Array α) (m off : Nat) :
    (fuel : Nat) → (mm : Nat) → RI α × Nat → RI α × Nat
  | 0, _, st => st
  | fuel + 1, mm, st =>
    if mm > 16 then
      let h := mm / 4
      let st := iterFrom (fun b (st : RI α × Nat) =>
        (bitwiddle F T st.2 h (off + b * mm) st.1, st.2 + 4)) (m / mm) 0 st
      bfsLevels F T m off fuel h st
    else st

/-- `reim_fft_bfs_16_*` on the block `[off, off+m)`, table pointer `t`; returns the new pointer -/
def bfs16 (F : Flav α) (T : Array α) (m off : Nat) (st : RI α × Nat) : RI α × Nat :=
  let st : RI α × Nat × Nat :=
    if m.log2 % 2 != 0 then
      (twPass F.ct (m / 2) off T[st.2]! T[st.2 + 1]! st.1, st.2 + 2, m / 2)
    else (st.1, st.2, m)
  let st2 := bfsLevels F T m off m st.2.2 (st.1, st.2.1)
  iterFrom (fun b (st : RI α × Nat) => (fft16 F T st.2 (off + 16 * b) st.1, st.2 + 16)) (m / 16) 0 st2

/-- `reim_fft_rec_16_*` -/
def rec16 (F : Flav α) (T : Array α) : (fuel : Nat) → (m off : Nat) → RI α × Nat → RI α × Nat
  | 0, m, off, st => bfs16 F T m off st
  | fuel + 1, m, off, st =>
    if m ≤ 2048 then bfs16 F T m off st
    else
      let h := m / 2
      let st := (twPass F.ct h off T[st.2]! T[st.2 + 1]! st.1, st.2 + 2)
      let st := rec16 F T fuel h off st
      rec16 F T fuel h (off + h) st

/-- `reim_fft_ref` / `reim_fft_avx2_fma` on split storage -/
def fftRI (F : Flav α) (m : Nat) (T : Array α) (s : RI α) : RI α :=
  if m ≤ 1 then s
  else if m == 2 then fft2 F T 0 0 s
  else if m == 4 then fft4 F T 0 0 s
  else if m == 8 then fft8 F T 0 0 s
  else if m == 16 then fft16 F T 0 0 s
  else if m ≤ 2048 then (bfs16 F T m 0 (s, 0)).1
  else (rec16 F T m m 0 (s, 0)).1

end Spq.Fft

namespace Spq.Fft
variable {α : Type} [Inhabited α]

/-! ### inverse leaves (`F` holds the inverse butterflies; the table holds conjugated twiddles) -/

/-- `reim_ifft2_ref` -/
def ifft2 (F : Flav α) (T : Array α) (t off : Nat) (s : RI α) : RI α :=
  bf F.ct2 s off (off + 1) T[t]! T[t + 1]!

/-- `reim_ifft4_ref` / `reim_ifft4_avx_fma` -/
def ifft4 (F : Flav α) (T : Array α) (t off : Nat) (s : RI α) : RI α :=
  let s := bf F.ctS s off (off + 1) T[t]! T[t + 1]!
  let s := bf F.citS s (off + 2) (off + 3) T[t]! T[t + 1]!
  let s := bf F.ctS s off (off + 2) T[t + 2]! T[t + 3]!
  bf F.ctS s (off + 1) (off + 3) T[t + 2]! T[t + 3]!

/-- `reim_ifft8_ref` / `reim_ifft8_avx_fma` -/
def ifft8 (F : Flav α) (T : Array α) (t off : Nat) (s : RI α) : RI α :=
  -- om[0],om[1] = re a, re b ; om[2],om[3] = im a, im b
  let s := bf F.ctS s off (off + 1) T[t]! T[t + 2]!
  let s := bf F.citS s (off + 2) (off + 3) T[t]! T[t + 2]!
  let s := bf F.ctS s (off + 4) (off + 5) T[t + 1]! T[t + 3]!
  let s := bf F.citS s (off + 6) (off + 7) T[t + 1]! T[t + 3]!
  let s := bf F.ctS s off (off + 2) T[t + 4]! T[t + 5]!
  let s := bf F.ctS s (off + 1) (off + 3) T[t + 4]! T[t + 5]!
  let s := bf F.citS s (off + 4) (off + 6) T[t + 4]! T[t + 5]!
  let s := bf F.citS s (off + 5) (off + 7) T[t + 4]! T[t + 5]!
  iterFrom (fun i s => bf F.ctS s (off + i) (off + 4 + i) T[t + 6]! T[t + 7]!) 4 0 s

/-! ### inverse passes and drivers -/

/-- the `while (h < ms2)` loop of `reim_ifft_bfs_16_*`; returns the final `h` as third component -/
def ibfsLevels (F : Flav α) (T : Array α) (m off : Nat) :
    (fuel : Nat) → (h : Nat) → RI α × Nat → RI α × Nat × Nat
  | 0, h, st => (st.1, st.2, h)
  | fuel + 1, h, st =>
    if h < m / 2 then
      let mm := h * 4
      let st := iterFrom (fun b (st : RI α × Nat) =>
        (invbitwiddle F T st.2 h (off + b * mm) st.1, st.2 + 4)) (m / mm) 0 st
      ibfsLevels F T m off fuel mm st
    else (st.1, st.2, h)

/-- `reim_ifft_bfs_16_*` -/
def ibfs16 (F : Flav α) (T : Array α) (m off : Nat) (st : RI α × Nat) : RI α × Nat :=
  let st := iterFrom (fun b (st : RI α × Nat) =>
    (ifft16 F T st.2 (off + 16 * b) st.1, st.2 + 16)) (m / 16) 0 st
  let st3 := ibfsLevels F T m off m 16 st
  if m.log2 % 2 != 0 then
    (twPass F.ct st3.2.2 off T[st3.2.1]! T[st3.2.1 + 1]! st3.1, st3.2.1 + 2)
  else (st3.1, st3.2.1)

/-- `reim_ifft_rec_16_*` -/
def irec16 (F : Flav α) (T : Array α) : (fuel : Nat) → (m off : Nat) → RI α × Nat → RI α × Nat
  | 0, m, off, st => ibfs16 F T m off st
  | fuel + 1, m, off, st =>
    if m ≤ 2048 then ibfs16 F T m off st
    else
      let h := m / 2
      let st := irec16 F T fuel h off st
      let st := irec16 F T fuel h (off + h) st
      (twPass F.ct h off T[st.2]! T[st.2 + 1]! st.1, st.2 + 2)

/-- `reim_ifft_ref` / `reim_ifft_avx2_fma` on split storage -/
def ifftRI (F : Flav α) (m : Nat) (T : Array α) (s : RI α) : RI α :=
  if m ≤ 1 then s
  else if m == 2 then ifft2 F T 0 0 s
  else if m == 4 then ifft4 F T 0 0 s
  else if m == 8 then ifft8 F T 0 0 s
  else if m == 16 then ifft16 F T 0 0 s
  else if m ≤ 2048 then (ibfs16 F T m 0 (s, 0)).1
  else (irec16 F T m m 0 (s, 0)).1

/-! ### the API on the flat reim vector (2m cells) -/

def splitRI (m : Nat) (data : Array α) : RI α := ⟨data.extract 0 m, data.extract m (2 * m)⟩
def joinRI (s : RI α) : Array α := s.re ++ s.im

def reimFftA (F : Flav α) (m : Nat) (T data : Array α) : Array α := joinRI (fftRI F m T (splitRI m data))
def reimIfftA (F : Flav α) (m : Nat) (T data : Array α) : Array α := joinRI (ifftRI F m T (splitRI m data))

/-- bit-exact model of `reim_fft` : `flavour` is "ref" (`reim_fft_ref`) or "fma" (`reim_fft_avx2_fma`) -/
def reimFft (flavour : String) (m : Nat) (table data : Array Nat) : Array Nat :=
  reimFftA (if flavour == "fma" then fwdFma f64 else fwdRef f64) m table data

/-- bit-exact model of `reim_ifft` -/
def reimIfft (flavour : String) (m : Nat) (table data : Array Nat) : Array Nat :=
  reimIfftA (if flavour == "fma" then invFma f64 else invRef f64) m table data

end Spq.Fft
