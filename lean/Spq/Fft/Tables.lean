/-
  What the precomputed twiddle tables are MEANT to contain: a transcription of the `fill_*omegas*`
  functions with exact angle arithmetic.

  Angles are counted in units of 1/U of a turn (U = 4m for the top-level call, so that an entry
  with exponent `e` is the real or imaginary part of ζ^e, ζ = exp(2iπ/4m)).  `entry_pwr = 0.25`
  is `U/4`, `x/2.` is `/ 2` (exact on the values that occur: proved where it matters), `+ 0.5` is
  `+ U/2`.  The C computes the same dyadic rationals exactly in binary64.
  The harness stream `ff_tables` checks (a) every entry of the real tables against cosq/sinq of these
  angles, (b) that this file produces the same (kind, exponent) list.
-/
namespace Spq.Fft

/-- kind 0: cos, 1: sin, 2: −sin, 3: −cos of the angle `2π e / U` -/
structure Ent where
  kind : Nat
  e : Nat
deriving Repr, DecidableEq, Inhabited

/-- `fracrevbits(i)·n` for `n` a sufficiently large power of two (same recursion as the C) -/
def frbN (n i : Nat) : Nat :=
  if i = 0 then 0
  else if i = 1 then n / 2
  else if i % 2 = 0 then frbN (n / 2) (i / 2)
  else frbN (n / 2) ((i - 1) / 2) + n / 2
termination_by i
decreasing_by all_goals omega

/-- `exp(2iπx)`: (cos, sin) -/
def eP (x : Nat) : List Ent := [⟨0, x⟩, ⟨1, x⟩]
/-- `exp(−2iπx)`: (cos, −sin) -/
def eM (x : Nat) : List Ent := [⟨0, x⟩, ⟨2, x⟩]
/-- `−exp(2iπx)` -/
def eN (x : Nat) : List Ent := [⟨3, x⟩, ⟨2, x⟩]

/-! ### reim, forward -/

def rFill2 (s : Nat) : List Ent := eP (s / 2)
def rFill4 (s : Nat) : List Ent := eP (s / 2) ++ eP (s / 4)
def rFill8 (U s : Nat) : List Ent :=
  eP (s / 2) ++ eP (s / 4) ++ [⟨0, s / 8⟩, ⟨0, s / 8 + U / 8⟩, ⟨1, s / 8⟩, ⟨1, s / 8 + U / 8⟩]
def gam (U s : Nat) : List Nat := [s / 16, s / 16 + U / 8, s / 16 + U / 16, s / 16 + U / 8 + U / 16]
def rFill16 (U s : Nat) : List Ent :=
  eP (s / 2) ++ eP (s / 4) ++ eP (s / 8) ++ eP (s / 8 + U / 8)
    ++ (gam U s).map (⟨0, ·⟩) ++ (gam U s).map (⟨1, ·⟩)

/-- the radix-4 levels of `fill_reim_fft_bfs_16_omegas` followed by the leaves -/
def rBfsLevels (U m : Nat) : (fuel : Nat) → (mm ss : Nat) → List Ent
  | 0, _, _ => []
  | fuel + 1, mm, ss =>
    if mm > 16 then
      let s := ss / 4
      (List.range (m / mm)).flatMap (fun b =>
        let rs0 := s + frbN U b / 4
        eP (2 * rs0) ++ eP rs0) ++ rBfsLevels U m fuel (mm / 4) s
    else (List.range (m / 16)).flatMap (fun b => rFill16 U (ss + frbN U b))

/-- `fill_reim_fft_bfs_16_omegas(m, entry_pwr)` -/
def rBfs (U m pwr : Nat) : List Ent :=
  if m.log2 % 2 != 0 then eP (pwr / 2) ++ rBfsLevels U m m (m / 2) (pwr / 2)
  else rBfsLevels U m m m pwr

/-- `fill_reim_fft_rec_16_omegas` -/
def rRec (U : Nat) : (fuel : Nat) → (m pwr : Nat) → List Ent
  | 0, m, pwr => rBfs U m pwr
  | fuel + 1, m, pwr =>
    if m ≤ 2048 then rBfs U m pwr
    else eP (pwr / 2) ++ rRec U fuel (m / 2) (pwr / 2) ++ rRec U fuel (m / 2) (pwr / 2 + U / 2)

/-- table of `new_reim_fft_precomp(m)` -/
def reimFftEnts (m : Nat) : List Ent :=
  let U := 4 * m
  if m ≤ 1 then [] else if m == 2 then rFill2 m else if m == 4 then rFill4 m
  else if m == 8 then rFill8 U m else if m == 16 then rFill16 U m
  else if m ≤ 2048 then rBfs U m m else rRec U m m m

/-! ### reim, inverse -/

def riFill2 (s : Nat) : List Ent := eM (s / 2)
def riFill4 (s : Nat) : List Ent := eM (s / 4) ++ eM (s / 2)
def riFill8 (U s : Nat) : List Ent :=
  [⟨0, s / 8⟩, ⟨0, s / 8 + U / 8⟩, ⟨2, s / 8⟩, ⟨2, s / 8 + U / 8⟩] ++ eM (s / 4) ++ eM (s / 2)
def riFill16 (U s : Nat) : List Ent :=
  (gam U s).map (⟨0, ·⟩) ++ (gam U s).map (⟨2, ·⟩)
    ++ eM (s / 8) ++ eM (s / 8 + U / 8) ++ eM (s / 4) ++ eM (s / 2)

/-- the `while (h < ms2)` loop of `fill_reim_ifft_bfs_16_omegas` and the final odd-log entry -/
def riBfsLevels (U m : Nat) : (fuel : Nat) → (h ss : Nat) → List Ent
  | 0, _, _ => []
  | fuel + 1, h, ss =>
    if h < m / 2 then
      (List.range (m / (4 * h))).flatMap (fun b =>
        let rs0 := ss + frbN U b / 4
        eM rs0 ++ eM (2 * rs0)) ++ riBfsLevels U m fuel (4 * h) (ss * 4)
    else if m.log2 % 2 != 0 then eM ss else []

/-- `fill_reim_ifft_bfs_16_omegas(m, entry_pwr)`; `ss = entry_pwr·16/m` -/
def riBfs (U m pwr : Nat) : List Ent :=
  let ss := pwr * 16 / m
  (List.range (m / 16)).flatMap (fun b => riFill16 U (ss + frbN U b)) ++ riBfsLevels U m m 16 ss

def riRec (U : Nat) : (fuel : Nat) → (m pwr : Nat) → List Ent
  | 0, m, pwr => riBfs U m pwr
  | fuel + 1, m, pwr =>
    if m ≤ 2048 then riBfs U m pwr
    else riRec U fuel (m / 2) (pwr / 2) ++ riRec U fuel (m / 2) (pwr / 2 + U / 2) ++ eM (pwr / 2)

/-- table of `new_reim_ifft_precomp(m)` -/
def reimIfftEnts (m : Nat) : List Ent :=
  let U := 4 * m
  if m ≤ 1 then [] else if m == 2 then riFill2 m else if m == 4 then riFill4 m
  else if m == 8 then riFill8 U m else if m == 16 then riFill16 U m
  else if m ≤ 2048 then riBfs U m m else riRec U m m m

/-! ### cplx, forward (`cplx_fft_ref.c`) -/

/-- `cplx_fft16_precomp` -/
def cFill16 (U s : Nat) : List Ent :=
  eP (s / 2) ++ eP (s / 4) ++ eP (s / 8) ++ eP (s / 8 + U / 8) ++ (gam U s).flatMap eP

/-- the twiddle levels of `fill_cplx_fft_omegas_bfs_2` then the `h = 1` entries `(ω, −ω)` -/
def cBfs2Levels (U m : Nat) : (fuel : Nat) → (h pom : Nat) → List Ent
  | 0, _, _ => []
  | fuel + 1, h, pom =>
    if h ≥ 2 then
      (List.range (m / (2 * h))).flatMap (fun i => eP (pom + frbN U i / 2) ++ eP (pom + frbN U i / 2))
        ++ cBfs2Levels U m fuel (h / 2) (pom / 2)
    else (List.range (m / 2)).flatMap (fun i => eP (pom + frbN U i / 2) ++ eN (pom + frbN U i / 2))

def cBfs2 (U m pwr : Nat) : List Ent := cBfs2Levels U m m (m / 2) (pwr / 2)

def cBfs16Levels (U m : Nat) : (fuel : Nat) → (mm ss : Nat) → List Ent
  | 0, _, _ => []
  | fuel + 1, mm, ss =>
    if mm > 16 then
      let pom := ss / 4
      (List.range (m / mm)).flatMap (fun i =>
        let om := pom + frbN U i / 4
        eP (2 * om) ++ eP om) ++ cBfs16Levels U m fuel (mm / 4) pom
    else (List.range (m / 16)).flatMap (fun i => cFill16 U (ss + frbN U i))

/-- `fill_cplx_fft_omegas_bfs_16` -/
def cBfs16 (U m pwr : Nat) : List Ent :=
  if m.log2 % 2 == 1 then eP (pwr / 2) ++ eP (pwr / 2) ++ cBfs16Levels U m m (m / 2) (pwr / 2)
  else cBfs16Levels U m m m pwr

/-- `fill_cplx_fft_omegas_rec_16` -/
def cRec (U : Nat) : (fuel : Nat) → (m pwr : Nat) → List Ent
  | 0, _, _ => []
  | fuel + 1, m, pwr =>
    if m ≤ 1 then [] else if m ≤ 8 then cBfs2 U m pwr else if m ≤ 2048 then cBfs16 U m pwr
    else eP (pwr / 2) ++ eP (pwr / 2) ++ cRec U fuel (m / 2) (pwr / 2) ++ cRec U fuel (m / 2) (pwr / 2 + U / 2)

/-- table of `new_cplx_fft_precomp(m)` -/
def cplxFftEnts (m : Nat) : List Ent :=
  let U := 4 * m
  if m ≤ 8 then cBfs2 U m m else if m ≤ 2048 then cBfs16 U m m else cRec U m m m

/-! ### cplx, inverse (`cplx_ifft_ref.c`) -/

/-- `cplx_ifft16_precomp` -/
def ciFill16 (U s : Nat) : List Ent :=
  (gam U s).flatMap eM ++ eM (s / 8) ++ eM (s / 8 + U / 8) ++ eM (s / 4) ++ eM (s / 2)

/-- the `for (h = 2; h <= m/2; h <<= 1)` loop of `fill_cplx_ifft_omegas_bfs_2` (`pom` already doubled) -/
def ciBfs2Levels (U m : Nat) : (fuel : Nat) → (h pom : Nat) → List Ent
  | 0, _, _ => []
  | fuel + 1, h, pom =>
    if h ≤ m / 2 then
      (List.range (m / (2 * h))).flatMap (fun i => eM (pom + frbN U i / 2) ++ eM (pom + frbN U i / 2))
        ++ ciBfs2Levels U m fuel (h * 2) (pom * 2)
    else []

def ciBfs2 (U m pwr : Nat) : List Ent :=
  (List.range (m / 2)).flatMap (fun i => eM (pwr / m + frbN U i / 2)) ++ ciBfs2Levels U m m 2 (pwr / m * 2)

/-- the `for (; h < m; h <<= 2)` loop of `fill_cplx_ifft_omegas_bfs_16`; the C loop runs `i = 0, 2, 4, …` -/
def ciBfs16Levels (U m : Nat) : (fuel : Nat) → (h p : Nat) → List Ent
  | 0, _, _ => []
  | fuel + 1, h, p =>
    if h < m then
      (List.range (m / (4 * h))).flatMap (fun b => eM (p + frbN U (2 * b) / 2) ++ eM (2 * p + frbN U (2 * b)))
        ++ ciBfs16Levels U m fuel (h * 4) (p * 4)
    else []

/-- `fill_cplx_ifft_omegas_bfs_16` -/
def ciBfs16 (U m pwr : Nat) : List Ent :=
  let p := pwr * 16 / m
  (List.range (m / 16)).flatMap (fun i => ciFill16 U (p + frbN U i)) ++
    (if m.log2 % 2 != 0 then
      (List.range (m / 32)).flatMap (fun i => eM (p + frbN U i / 2)) ++ ciBfs16Levels U m m 32 (p * 2)
    else ciBfs16Levels U m m 16 p)

/-- `fill_cplx_ifft_omegas_rec_16` -/
def ciRec (U : Nat) : (fuel : Nat) → (m pwr : Nat) → List Ent
  | 0, _, _ => []
  | fuel + 1, m, pwr =>
    if m ≤ 1 then [] else if m ≤ 8 then ciBfs2 U m pwr else if m ≤ 2048 then ciBfs16 U m pwr
    else ciRec U fuel (m / 2) (pwr / 2) ++ ciRec U fuel (m / 2) (pwr / 2 + U / 2) ++ eM (pwr / 2) ++ eM (pwr / 2)

/-- table of `new_cplx_ifft_precomp(m)` -/
def cplxIfftEnts (m : Nat) : List Ent := ciRec (4 * m) m m m

/-- the answer to `ff angles <op> <m>`: `kind e` pairs with `e` reduced mod 4m -/
def entsLine (m : Nat) (l : List Ent) : String :=
  " ".intercalate (l.map (fun x => s!"{x.kind} {x.e % (4 * m)}"))

end Spq.Fft
