/-
  cplx layout (m interleaved (re, im) pairs): `cplx_fft_ref.c`, `cplx_ifft_ref.c`, `cplx_common.c`,
  `cplx_fft_avx2_fma.c`, `cplx_ifft_avx2_fma.c`, `cplx_fft16_avx_fma.s`, `cplx_ifft16_avx_fma.s`.

  The model de-interleaves into `RI`, runs the network and re-interleaves; every butterfly acts on
  the same (re, im) cells as the C.  `t` is the table pointer in DOUBLES (one `CPLX` = 2, one
  `D4MEM` = 4).  Twiddle passes store the twiddle twice (`om[0] = om[1]`); the AVX2 code loads both
  copies into one register, so the butterfly of an odd complex index reads the second copy
  (`lanes = true`); the reference code reads the first copy only.
-/
import Spq.Fft.Kernels
namespace Spq.Fft
variable {α : Type} [Inhabited α]

/-- butterfly with two table entries: `ra ia rb ib ωr ωi ω'r ω'i` -/
abbrev Bf4 (α : Type) := α → α → α → α → α → α → α → α → (α × α × α × α)

section bf
variable (A : Arith α) (zero : α)

/-- `cplx_fft_avx2_fma_bfs_2` main loop and `cplx_fft_avx2_fma_rec_16`:
`omim = addsub(0, ωi) = (0 − ωi, 0 + ωi)`, `t1 = b·ωr` rounded, `t2 = fma(b̄, omim, t1)` -/
def ctFmaC : Bf α := fun ra ia rb ib wr wi =>
  let nr := A.fma ib (A.sub zero wi) (A.mul rb wr)
  let ni := A.fma rb (A.add zero wi) (A.mul ib wr)
  (A.add ra nr, A.add ia ni, A.sub ra nr, A.sub ia ni)

/-- same trick in the inverse loops of `cplx_ifft_avx2_fma.c` -/
def ictFmaC : Bf α := fun ra ia rb ib wr wi =>
  let rd := A.sub ra rb
  let id := A.sub ia ib
  (A.add ra rb, A.add ia ib,
   A.fma id (A.sub zero wi) (A.mul rd wr), A.fma rd (A.add zero wi) (A.mul id wr))

/-- last iteration of `cplx_fft_avx2_fma_bfs_2`: the table holds `(ω, −ω)`; both halves are ADDED -/
def lastFma : Bf4 α := fun ra ia rb ib wr wi nwr nwi =>
  (A.add ra (A.fms rb wr (A.mul ib wi)), A.add ia (A.fma ib wr (A.mul rb wi)),
   A.add ra (A.fms rb nwr (A.mul ib nwi)), A.add ia (A.fma ib nwr (A.mul rb nwi)))

end bf

/-- butterflies of one cplx implementation -/
structure CFlav (α : Type) where
  /-- twiddle loops of `bfs_2` and the top passes of `rec_16` -/
  ctTop : Bf α
  lanesTop : Bool
  /-- the odd-log pass of `bfs_16` -/
  ctOdd : Bf α
  lanesOdd : Bool
  /-- `h = 1` iteration of `bfs_2` -/
  last : Bf4 α
  /-- radix-4 passes and 16-point leaves -/
  big : Flav α

def ofBf (f : Bf α) : Bf4 α := fun ra ia rb ib wr wi _ _ => f ra ia rb ib wr wi

def cfwdRef (A : Arith α) : CFlav α := ⟨ctRef A, false, ctRef A, false, ofBf (ctRef A), fwdRef A⟩
def cfwdFma (A : Arith α) (zero : α) : CFlav α :=
  ⟨ctFmaC A zero, true, ctFma A, true, lastFma A, fwdFma A⟩
def cinvRef (A : Arith α) : CFlav α := ⟨ictRef A, false, ictRef A, false, ofBf (ictRef A), invRef A⟩
def cinvFma (A : Arith α) (zero : α) : CFlav α :=
  ⟨ictFmaC A zero, true, ictFmaC A zero, false, ofBf (ictFma A), invFma A⟩

/-- twiddle pass whose twiddle is stored twice at `T[t..t+3]` -/
def twPassL (f : Bf α) (lanes : Bool) (T : Array α) (t h off : Nat) (s : RI α) : RI α :=
  iterFrom (fun i s =>
    let u := if lanes && i % 2 == 1 then t + 2 else t
    bf f s (off + i) (off + h + i) T[u]! T[u + 1]!) h 0 s

/-! ### forward -/

/-- the `for (h = m/2; h >= 2; h >>= 1)` loop of `cplx_fft_*_bfs_2` -/
def cbfs2Levels (F : CFlav α) (T : Array α) (m off : Nat) :
    (fuel : Nat) → (h : Nat) → RI α × Nat → RI α × Nat
  | 0, _, st => st
  | fuel + 1, h, st =>
    if h ≥ 2 then
      let st := iterFrom (fun b (st : RI α × Nat) =>
        (twPassL F.ctTop F.lanesTop T st.2 h (off + b * (2 * h)) st.1, st.2 + 4)) (m / (2 * h)) 0 st
      cbfs2Levels F T m off fuel (h / 2) st
    else st

/-- `cplx_fft_ref_bfs_2` / `cplx_fft_avx2_fma_bfs_2` -/
def cbfs2 (F : CFlav α) (T : Array α) (m off : Nat) (st : RI α × Nat) : RI α × Nat :=
  let st := cbfs2Levels F T m off m (m / 2) st
  iterFrom (fun j (st : RI α × Nat) =>
    let t := st.2
    let s := st.1
    let a := off + 2 * j
    let r := F.last s.re[a]! s.im[a]! s.re[a + 1]! s.im[a + 1]! T[t]! T[t + 1]! T[t + 2]! T[t + 3]!
    (⟨(s.re.set! a r.1).set! (a + 1) r.2.2.1, (s.im.set! a r.2.1).set! (a + 1) r.2.2.2⟩, t + 4))
    (m / 2) 0 st

/-- the `while (mm > 16)` loop of `cplx_fft_*_bfs_16` -/
def cbfsLevels (F : CFlav α) (T : Array α) (m off : Nat) :
    (fuel : Nat) → (mm : Nat) → RI α × Nat → RI α × Nat
  | 0, _, st => st
  | fuel + 1, mm, st =>
    if mm > 16 then
      let h := mm / 4
      let st := iterFrom (fun b (st : RI α × Nat) =>
        (bitwiddle F.big T st.2 h (off + b * mm) st.1, st.2 + 4)) (m / mm) 0 st
      cbfsLevels F T m off fuel h st
    else st

/-- `cplx_fft_ref_bfs_16` / `cplx_fft_avx2_fma_bfs_16` -/
def cbfs16 (F : CFlav α) (T : Array α) (m off : Nat) (st : RI α × Nat) : RI α × Nat :=
  let st : RI α × Nat × Nat :=
    if m.log2 % 2 == 1 then
      (twPassL F.ctOdd F.lanesOdd T st.2 (m / 2) off st.1, st.2 + 4, m / 2)
    else (st.1, st.2, m)
  let st2 := cbfsLevels F T m off m st.2.2 (st.1, st.2.1)
  iterFrom (fun b (st : RI α × Nat) =>
    (fft16K F.big (cplxW16 T st.2) (off + 16 * b) st.1, st.2 + 16)) (m / 16) 0 st2

/-- `cplx_fft_ref_rec_16` / `cplx_fft_avx2_fma_rec_16` -/
def crec16 (F : CFlav α) (T : Array α) : (fuel : Nat) → (m off : Nat) → RI α × Nat → RI α × Nat
  | 0, _, _, st => st
  | fuel + 1, m, off, st =>
    if m ≤ 1 then st
    else if m ≤ 8 then cbfs2 F T m off st
    else if m ≤ 2048 then cbfs16 F T m off st
    else
      let h := m / 2
      let st := (twPassL F.ctTop F.lanesTop T st.2 h off st.1, st.2 + 4)
      let st := crec16 F T fuel h off st
      crec16 F T fuel h (off + h) st

/-- `cplx_fft_ref` / `cplx_fft_avx2_fma` on split storage -/
def cfftRI (F : CFlav α) (m : Nat) (T : Array α) (s : RI α) : RI α :=
  if m ≤ 1 then s
  else if m ≤ 8 then (cbfs2 F T m 0 (s, 0)).1
  else if m ≤ 2048 then (cbfs16 F T m 0 (s, 0)).1
  else (crec16 F T m m 0 (s, 0)).1

end Spq.Fft

namespace Spq.Fft
variable {α : Type} [Inhabited α]

/-! ### inverse (`F` holds the inverse butterflies; `F.last` is the `h = 1` butterfly) -/

/-- the `for (h = 2; h <= m/2; h <<= 1)` loop of `cplx_ifft_*_bfs_2` -/
def cibfs2Levels (F : CFlav α) (T : Array α) (m off : Nat) :
    (fuel : Nat) → (h : Nat) → RI α × Nat → RI α × Nat
  | 0, _, st => st
  | fuel + 1, h, st =>
    if h ≤ m / 2 then
      let st := iterFrom (fun b (st : RI α × Nat) =>
        (twPassL F.ctTop F.lanesTop T st.2 h (off + b * (2 * h)) st.1, st.2 + 4)) (m / (2 * h)) 0 st
      cibfs2Levels F T m off fuel (h * 2) st
    else st

/-- `cplx_ifft_ref_bfs_2` / `cplx_ifft_avx2_fma_bfs_2`: the `h = 1` loop reads ONE complex per pair -/
def cibfs2 (F : CFlav α) (T : Array α) (m off : Nat) (st : RI α × Nat) : RI α × Nat :=
  let st := iterFrom (fun j (st : RI α × Nat) =>
    let t := st.2
    let s := st.1
    let a := off + 2 * j
    let r := F.last s.re[a]! s.im[a]! s.re[a + 1]! s.im[a + 1]! T[t]! T[t + 1]! T[t]! T[t + 1]!
    (⟨(s.re.set! a r.1).set! (a + 1) r.2.2.1, (s.im.set! a r.2.1).set! (a + 1) r.2.2.2⟩, t + 2))
    (m / 2) 0 st
  cibfs2Levels F T m off m 2 st

/-- the `for (; h < m; h <<= 2)` loop of `cplx_ifft_*_bfs_16` -/
def cibfsLevels (F : CFlav α) (T : Array α) (m off : Nat) :
    (fuel : Nat) → (h : Nat) → RI α × Nat → RI α × Nat
  | 0, _, st => st
  | fuel + 1, h, st =>
    if h < m then
      let st := iterFrom (fun b (st : RI α × Nat) =>
        (invbitwiddle F.big T st.2 h (off + b * (4 * h)) st.1, st.2 + 4)) (m / (4 * h)) 0 st
      cibfsLevels F T m off fuel (h * 4) st
    else st

/-- `cplx_ifft_ref_bfs_16` / `cplx_ifft_avx2_fma_bfs_16`: the odd-log pass (h = 16) comes right after
the leaves and stores ONE complex per block -/
def cibfs16 (F : CFlav α) (T : Array α) (m off : Nat) (st : RI α × Nat) : RI α × Nat :=
  let st := iterFrom (fun b (st : RI α × Nat) =>
    (ifft16K F.big (cplxW16 T st.2) (off + 16 * b) st.1, st.2 + 16)) (m / 16) 0 st
  let sth : (RI α × Nat) × Nat :=
    if m.log2 % 2 != 0 then
      (iterFrom (fun b (st : RI α × Nat) =>
        (twPassL F.ctOdd F.lanesOdd T st.2 16 (off + b * 32) st.1, st.2 + 2)) (m / 32) 0 st, 32)
    else (st, 16)
  cibfsLevels F T m off m sth.2 sth.1

/-- `cplx_ifft_ref_rec_16` / `cplx_ifft_avx2_fma_rec_16` -/
def cirec16 (F : CFlav α) (T : Array α) : (fuel : Nat) → (m off : Nat) → RI α × Nat → RI α × Nat
  | 0, _, _, st => st
  | fuel + 1, m, off, st =>
    if m ≤ 1 then st
    else if m ≤ 8 then cibfs2 F T m off st
    else if m ≤ 2048 then cibfs16 F T m off st
    else
      let h := m / 2
      let st := cirec16 F T fuel h off st
      let st := cirec16 F T fuel h (off + h) st
      (twPassL F.ctTop F.lanesTop T st.2 h off st.1, st.2 + 4)

/-- `cplx_ifft_ref` / `cplx_ifft_avx2_fma` on split storage -/
def cifftRI (F : CFlav α) (m : Nat) (T : Array α) (s : RI α) : RI α :=
  if m ≤ 1 then s
  else if m ≤ 8 then (cibfs2 F T m 0 (s, 0)).1
  else if m ≤ 2048 then (cibfs16 F T m 0 (s, 0)).1
  else (cirec16 F T m m 0 (s, 0)).1

/-! ### the API on the interleaved vector (2m cells) -/

def deinterleave (m : Nat) (data : Array α) : RI α :=
  ⟨Array.ofFn (n := m) (fun i => data[2 * i.val]!), Array.ofFn (n := m) (fun i => data[2 * i.val + 1]!)⟩
def interleave (m : Nat) (s : RI α) : Array α :=
  Array.ofFn (n := 2 * m) (fun i => if i.val % 2 == 0 then s.re[i.val / 2]! else s.im[i.val / 2]!)

def cplxFftA (F : CFlav α) (m : Nat) (T data : Array α) : Array α :=
  interleave m (cfftRI F m T (deinterleave m data))
def cplxIfftA (F : CFlav α) (m : Nat) (T data : Array α) : Array α :=
  interleave m (cifftRI F m T (deinterleave m data))

/-- bit-exact model of `cplx_fft`; `new_cplx_fft_precomp` installs `cplx_fft_ref` for m ≤ 4 whatever the CPU -/
def cplxFft (flavour : String) (m : Nat) (table data : Array Nat) : Array Nat :=
  cplxFftA (if flavour == "fma" && m > 4 then cfwdFma f64 0 else cfwdRef f64) m table data

/-- bit-exact model of `cplx_ifft` -/
def cplxIfft (flavour : String) (m : Nat) (table data : Array Nat) : Array Nat :=
  cplxIfftA (if flavour == "fma" && m > 4 then cinvFma f64 0 else cinvRef f64) m table data

end Spq.Fft
