import Spq.Fft.Core
import Spq.Fft.Kernels
import Spq.Fft.Reim
import Spq.Fft.Cplx
import Spq.Fft.Tables
