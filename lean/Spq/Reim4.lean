/-
  Block layouts (reim <-> reim4 <-> cplx) and complex-vector kernels (core Lean only).

  Models, operation for operation, of
    spqlios/reim4/reim4_arithmetic_ref.c, reim4_arithmetic_avx2.c,
    spqlios/reim4/reim4_fftvec_conv_{ref,fma}.c, reim4_fftvec_addmul_{ref,fma}.c,
    spqlios/reim/reim_fftvec_addmul_{ref,fma}.c,
    spqlios/cplx/cplx_fftvec_ref.c, cplx_fftvec_avx2_fma.c (+ the addmul twins of cplx_fft_sse.c and
    cplx_fft_avx512.c).

  Everything is polymorphic in the arithmetic `ar : RArith α`: instantiated with `F64.arith` the
  kernels are bit-exact (the driver family `r4` runs them against the real code), instantiated with
  a commutative ring (`fma a b c = a*b + c` …) they are the objects of the exact-arithmetic theorems
  of C17.

  Conventions
  * A C `double*` argument is an `Array α` whose cell 0 is the pointee; `dst`/`r` is returned
    updated.  Source and destination are distinct arrays (no partial overlap is modelled; the
    pointwise kernels read cell i of every operand before writing cell i, so exact aliasing
    `r == a` behaves like the functional model).
  * Reads outside an array yield `z` (`ar.zero`), writes outside are dropped; the theorems carry the
    in-bounds hypotheses, the harness only makes in-bounds calls (exactly sized heap buffers).
  * The reference files are compiled without `-mfma`: `a*c - b*d` is `sub (mul a c) (mul b d)`
    (three roundings) and `r += re` a further `add`.  The `_avx2/_fma/_sse/_avx512` files use explicit
    fused intrinsics, kept in their exact order.  (Checked on the object code of the -O2 build:
    there is no `_mm256_mul_pd` feeding a plain add/sub in these files, so `-ffp-contract=fast`
    has nothing to fuse; `reim4_fftvec_mul_fma`/`reim_fftvec_mul_fma`/`cplx_fftvec_mul_fma` keep
    their `vmulpd` because it feeds an fmsub/fmadd/fmaddsub *intrinsic*.)
  * Loop counters: pointer-increment loops of the C are written with the closed-form offset
    (`8*j`, `4*blk + i*m` …).  `blk << 2`, `nrows * 2`, `sizea + sizeb` are uint64 operations that
    do not wrap for any size that fits in memory.
-/
import Spq.F64
namespace Spq

/-- the arithmetic the kernels are polymorphic in -/
structure RArith (α : Type) where
  zero : α
  add : α → α → α
  sub : α → α → α
  mul : α → α → α
  /-- `a*b + c` fused (vfmadd) -/
  fma : α → α → α → α
  /-- `a*b - c` fused (vfmsub) -/
  fms : α → α → α → α

namespace F64
/-- binary64 on bit patterns -/
def arith : RArith Nat := { zero := 0, add := add, sub := sub, mul := mul, fma := fma, fms := fms }
end F64

/-- a 256-bit register of four doubles -/
structure V4 (α : Type) where
  x0 : α
  x1 : α
  x2 : α
  x3 : α

namespace V4
variable {α : Type}

def lane (v : V4 α) (l : Nat) : α :=
  match l with
  | 0 => v.x0
  | 1 => v.x1
  | 2 => v.x2
  | _ => v.x3

@[inline] def splat (x : α) : V4 α := ⟨x, x, x, x⟩
/-- `_mm256_loadu_pd(a + o)` -/
@[inline] def load (z : α) (a : Array α) (o : Nat) : V4 α :=
  ⟨a.getD o z, a.getD (o + 1) z, a.getD (o + 2) z, a.getD (o + 3) z⟩
/-- `_mm256_storeu_pd(a + o, v)` -/
@[inline] def store (a : Array α) (o : Nat) (v : V4 α) : Array α :=
  (((a.setIfInBounds o v.x0).setIfInBounds (o + 1) v.x1).setIfInBounds (o + 2) v.x2).setIfInBounds (o + 3) v.x3
@[inline] def map2 (f : α → α → α) (a b : V4 α) : V4 α := ⟨f a.x0 b.x0, f a.x1 b.x1, f a.x2 b.x2, f a.x3 b.x3⟩
@[inline] def map3 (f : α → α → α → α) (a b c : V4 α) : V4 α :=
  ⟨f a.x0 b.x0 c.x0, f a.x1 b.x1 c.x1, f a.x2 b.x2 c.x2, f a.x3 b.x3 c.x3⟩
/-- `_mm256_unpacklo_pd(a, b)` -/
@[inline] def unpacklo (a b : V4 α) : V4 α := ⟨a.x0, b.x0, a.x2, b.x2⟩
/-- `_mm256_unpackhi_pd(a, b)` -/
@[inline] def unpackhi (a b : V4 α) : V4 α := ⟨a.x1, b.x1, a.x3, b.x3⟩
/-- `_mm256_shuffle_pd(a, a, 5)`: swap the two doubles of every 128-bit pair -/
@[inline] def shuf5 (a : V4 α) : V4 α := ⟨a.x1, a.x0, a.x3, a.x2⟩
/-- `_mm256_shuffle_pd(a, a, 15)`: odd element of every pair, twice -/
@[inline] def shuf15 (a : V4 α) : V4 α := ⟨a.x1, a.x1, a.x3, a.x3⟩
/-- `_mm256_shuffle_pd(a, a, 0)`: even element of every pair, twice -/
@[inline] def shuf0 (a : V4 α) : V4 α := ⟨a.x0, a.x0, a.x2, a.x2⟩

@[inline] def add (ar : RArith α) (a b : V4 α) : V4 α := map2 ar.add a b
@[inline] def sub (ar : RArith α) (a b : V4 α) : V4 α := map2 ar.sub a b
@[inline] def mul (ar : RArith α) (a b : V4 α) : V4 α := map2 ar.mul a b
/-- `_mm256_fmadd_pd(a,b,c)` = a*b+c -/
@[inline] def fmadd (ar : RArith α) (a b c : V4 α) : V4 α := map3 ar.fma a b c
/-- `_mm256_fmsub_pd(a,b,c)` = a*b-c -/
@[inline] def fmsub (ar : RArith α) (a b c : V4 α) : V4 α := map3 ar.fms a b c
/-- `_mm256_fmaddsub_pd(a,b,c)`: even lanes a*b-c, odd lanes a*b+c -/
@[inline] def fmaddsub (ar : RArith α) (a b c : V4 α) : V4 α :=
  ⟨ar.fms a.x0 b.x0 c.x0, ar.fma a.x1 b.x1 c.x1, ar.fms a.x2 b.x2 c.x2, ar.fma a.x3 b.x3 c.x3⟩
end V4

namespace Reim4
variable {α : Type}

/-! ### loop combinators -/

/-- `for (k = 0; k < n; ++k) { dst[p k] = P k dst[p k]; dst[q k] = Q k dst[q k]; }` — the shape of
    every scalar (reference) kernel: lane `k` updates one "real" cell and one "imaginary" cell. -/
def lanes (z : α) (n : Nat) (p q : Nat → Nat) (P Q : Nat → α → α) (dst : Array α) : Array α :=
  Nat.fold n (fun k _ acc =>
    let acc := acc.setIfInBounds (p k) (P k (acc.getD (p k) z))
    acc.setIfInBounds (q k) (Q k (acc.getD (q k) z))) dst

/-- `for (j = 0; j < n; ++j) { (x, y) = F j (load(r + p j), load(r + q j)); store(r + p j, x); store(r + q j, y); }`
    — the shape of the SIMD kernels working on a (real, imaginary) pair of registers. -/
def mapV4x2 (z : α) (n : Nat) (p q : Nat → Nat) (F : Nat → V4 α → V4 α → V4 α × V4 α) (r : Array α) : Array α :=
  Nat.fold n (fun j _ r =>
    let xy := F j (V4.load z r (p j)) (V4.load z r (q j))
    V4.store (V4.store r (p j) xy.1) (q j) xy.2) r

/-- `for (j = 0; j < n; ++j) store(r + p j, F j load(r + p j))` — one register per step (interleaved complex) -/
def mapV4 (z : α) (n : Nat) (p : Nat → Nat) (F : Nat → V4 α → V4 α) (r : Array α) : Array α :=
  Nat.fold n (fun j _ r => V4.store r (p j) (F j (V4.load z r (p j)))) r

/-- number of iterations of `do { …; aa += step; } while (aa < aend)` with `aend = aa + total` -/
def doWhileIters (total step : Nat) : Nat := max 1 ((total + step - 1) / step)

/-! ### block extraction / saving  (reim4_arithmetic_ref.c / reim4_arithmetic_avx2.c) -/

/-- four scalar copies `dst[d+k] = src[s+k]` -/
def copy4 (z : α) (dst : Array α) (d : Nat) (src : Array α) (s : Nat) : Array α :=
  (((dst.setIfInBounds d (src.getD s z)).setIfInBounds (d + 1) (src.getD (s + 1) z)).setIfInBounds (d + 2)
    (src.getD (s + 2) z)).setIfInBounds (d + 3) (src.getD (s + 3) z)

/-- `_mm256_storeu_pd(dst + d, _mm256_loadu_pd(src + s))` -/
def vcopy4 (z : α) (dst : Array α) (d : Nat) (src : Array α) (s : Nat) : Array α :=
  V4.store dst d (V4.load z src s)

/-- `reim4_extract_1blk_from_reim_ref(m, blk, dst, src)` -/
def extract1blkFromReimRef (z : α) (m blk : Nat) (dst src : Array α) : Array α :=
  let s := 4 * blk                    -- src_ptr = src + (blk << 2)
  let dst := copy4 z dst 0 src s      -- real parts
  copy4 z dst 4 src (s + m)           -- src_ptr += m; imaginary parts

/-- `reim4_extract_1blk_from_reim_avx` -/
def extract1blkFromReimAvx (z : α) (m blk : Nat) (dst src : Array α) : Array α :=
  let s := 4 * blk
  let dst := vcopy4 z dst 0 src s
  vcopy4 z dst 4 src (s + m)

/-- `reim4_extract_1blk_from_contiguous_reim_ref(m, nrows, blk, dst, src)`:
    `for (i = 0; i < nrows*2; ++i) { copy 4; dst_ptr += 4; src_ptr += m; }` -/
def extract1blkFromContiguousReimRef (z : α) (m nrows blk : Nat) (dst src : Array α) : Array α :=
  Nat.fold (2 * nrows) (fun i _ d => copy4 z d (4 * i) src (4 * blk + i * m)) dst

/-- `reim4_extract_1blk_from_contiguous_reim_avx` -/
def extract1blkFromContiguousReimAvx (z : α) (m nrows blk : Nat) (dst src : Array α) : Array α :=
  Nat.fold (2 * nrows) (fun i _ d => vcopy4 z d (4 * i) src (4 * blk + i * m)) dst

/-- `reim4_extract_1blk_from_contiguous_reim_sl_ref(m, sl, nrows, blk, dst, src)`.
    Per row the source pointer advances by `m` and then by `sl_minus_m = sl - m` (uint64; for
    `sl < m` the wrapped value added to the pointer still lands on `+ sl`), i.e. by `sl`. -/
def extract1blkFromContiguousReimSlRef (z : α) (m sl nrows blk : Nat) (dst src : Array α) : Array α :=
  Nat.fold nrows (fun i _ d =>
    let s := 4 * blk + i * sl
    let d := copy4 z d (8 * i) src s
    copy4 z d (8 * i + 4) src (s + m)) dst

/-- `reim4_extract_1blk_from_contiguous_reim_sl_avx` -/
def extract1blkFromContiguousReimSlAvx (z : α) (m sl nrows blk : Nat) (dst src : Array α) : Array α :=
  Nat.fold nrows (fun i _ d =>
    let s := 4 * blk + i * sl
    let d := vcopy4 z d (8 * i) src s
    vcopy4 z d (8 * i + 4) src (s + m)) dst

/-- `reim4_save_1blk_to_reim_ref(m, blk, dst, src)` -/
def save1blkToReimRef (z : α) (m blk : Nat) (dst src : Array α) : Array α :=
  let d := 4 * blk
  let dst := copy4 z dst d src 0
  copy4 z dst (d + m) src 4

/-- `reim4_save_1blk_to_reim_avx` -/
def save1blkToReimAvx (z : α) (m blk : Nat) (dst src : Array α) : Array α :=
  let d := 4 * blk
  let dst := vcopy4 z dst d src 0
  vcopy4 z dst (d + m) src 4

/-! ### cplx <-> reim4 conversions  (reim4_fftvec_conv_ref.c / reim4_fftvec_conv_fma.c)

  Note the order inside a block: the reference code stores `r0 r2 r1 r3 | i0 i2 i1 i3` (this is what
  `unpacklo/unpackhi` of the two halves produce); `to_cplx` applies the same involution. -/

/-- `reim4_from_cplx_ref` (`m = tables->m`) -/
def fromCplxRef (z : α) (m : Nat) (r x : Array α) : Array α :=
  Nat.fold (m / 4) (fun i _ r =>
    let o := 8 * i
    let r0 := x.getD o z;       let i0 := x.getD (o + 1) z
    let r1 := x.getD (o + 2) z; let i1 := x.getD (o + 3) z
    let r2 := x.getD (o + 4) z; let i2 := x.getD (o + 5) z
    let r3 := x.getD (o + 6) z; let i3 := x.getD (o + 7) z
    V4.store (V4.store r o ⟨r0, r2, r1, r3⟩) (o + 4) ⟨i0, i2, i1, i3⟩) r

/-- `reim4_to_cplx_ref` -/
def toCplxRef (z : α) (m : Nat) (y a : Array α) : Array α :=
  Nat.fold (m / 4) (fun i _ y =>
    let o := 8 * i
    let r0 := a.getD o z;       let r2 := a.getD (o + 1) z
    let r1 := a.getD (o + 2) z; let r3 := a.getD (o + 3) z
    let i0 := a.getD (o + 4) z; let i2 := a.getD (o + 5) z
    let i1 := a.getD (o + 6) z; let i3 := a.getD (o + 7) z
    V4.store (V4.store y o ⟨r0, i0, r1, i1⟩) (o + 4) ⟨r2, i2, r3, i3⟩) y

/-- body shared by `reim4_from_cplx_fma` and `reim4_to_cplx_fma` (the two C functions are the same code):
    `while (r_ptr != r + 2m) { t1 = load(a); t2 = load(a+4); store(r, unpacklo(t1,t2)); store(r+4, unpackhi(t1,t2)); r += 8; a += 8; }`.
    The loop only terminates when `2m` is a multiple of 8: `none` otherwise. -/
def unpackLoopFma (z : α) (m : Nat) (r a : Array α) : Option (Array α) :=
  if m % 4 != 0 then none else
  some (Nat.fold (m / 4) (fun i _ r =>
    let o := 8 * i
    let t1 := V4.load z a o
    let t2 := V4.load z a (o + 4)
    V4.store (V4.store r o (V4.unpacklo t1 t2)) (o + 4) (V4.unpackhi t1 t2)) r)

/-- `reim4_from_cplx_fma` -/
def fromCplxFma (z : α) (m : Nat) (r x : Array α) : Option (Array α) := unpackLoopFma z m r x
/-- `reim4_to_cplx_fma` -/
def toCplxFma (z : α) (m : Nat) (y a : Array α) : Option (Array α) := unpackLoopFma z m y a

/-! ### reim4 block arithmetic (reim4_arithmetic_ref.c) -/

/-- `reim4_zero(dst + d)` -/
def zeroAt (ar : RArith α) (dst : Array α) (d : Nat) : Array α :=
  Nat.fold 8 (fun i _ acc => acc.setIfInBounds (d + i) ar.zero) dst

/-- `reim4_add(dst, u, v)` -/
def add (ar : RArith α) (dst u v : Array α) : Array α :=
  let z := ar.zero
  lanes z 4 (fun k => k) (fun k => k + 4)
    (fun k _ => ar.add (u.getD k z) (v.getD k z))
    (fun k _ => ar.add (u.getD (k + 4) z) (v.getD (k + 4) z)) dst

/-- real part `a*c - b*d` as the reference code computes it: two products, one subtraction -/
@[inline] def reRef (ar : RArith α) (a b c d : α) : α := ar.sub (ar.mul a c) (ar.mul b d)
/-- imaginary part `a*d + b*c` -/
@[inline] def imRef (ar : RArith α) (a b c d : α) : α := ar.add (ar.mul a d) (ar.mul b c)

/-- `reim4_mul(dst, u, v)` -/
def mul (ar : RArith α) (dst u v : Array α) : Array α :=
  let z := ar.zero
  lanes z 4 (fun k => k) (fun k => k + 4)
    (fun k _ => reRef ar (u.getD k z) (u.getD (k + 4) z) (v.getD k z) (v.getD (k + 4) z))
    (fun k _ => imRef ar (u.getD k z) (u.getD (k + 4) z) (v.getD k z) (v.getD (k + 4) z)) dst

/-- `reim4_add_mul(dst + d, u + uo, v + vo)`: `dst[k] += a*c - b*d; dst[k+4] += a*d + b*c` -/
def addMulAt (ar : RArith α) (dst : Array α) (d : Nat) (u : Array α) (uo : Nat) (v : Array α) (vo : Nat) : Array α :=
  let z := ar.zero
  lanes z 4 (fun k => d + k) (fun k => d + k + 4)
    (fun k old => ar.add old (reRef ar (u.getD (uo + k) z) (u.getD (uo + k + 4) z) (v.getD (vo + k) z) (v.getD (vo + k + 4) z)))
    (fun k old => ar.add old (imRef ar (u.getD (uo + k) z) (u.getD (uo + k + 4) z) (v.getD (vo + k) z) (v.getD (vo + k + 4) z))) dst

/-- `reim4_add_mul(dst, u, v)` -/
def addMul (ar : RArith α) (dst u v : Array α) : Array α := addMulAt ar dst 0 u 0 v 0

/-- `reim4_vec_mat1col_product_ref(nrows, dst, u, v)` -/
def vecMat1colProductRef (ar : RArith α) (nrows : Nat) (dst u v : Array α) : Array α :=
  let dst := zeroAt ar dst 0
  Nat.fold nrows (fun i _ dst => addMulAt ar dst 0 u (8 * i) v (8 * i)) dst

/-- one row of `reim4_vec_mat2cols_product_ref`: `double_j = j << 1` with `j = 8i` -/
def vecMat2colsRefStep (ar : RArith α) (u v : Array α) (i : Nat) (dst : Array α) : Array α :=
  let j := 8 * i
  let dst := addMulAt ar dst 0 u j v (2 * j)
  addMulAt ar dst 8 u j v (2 * j + 8)

/-- `reim4_vec_mat2cols_product_ref(nrows, dst, u, v)` -/
def vecMat2colsProductRef (ar : RArith α) (nrows : Nat) (dst u v : Array α) : Array α :=
  let dst := zeroAt ar dst 0
  let dst := zeroAt ar dst 8
  Nat.fold nrows (fun i _ dst => vecMat2colsRefStep ar u v i dst) dst

/-! ### reim4 dot products, AVX2 (reim4_arithmetic_avx2.c) -/

/-- one row of `reim4_vec_mat1col_product_avx2`; state `(re1, re2, im1, im2)` -/
def vecMat1colAvx2Step (ar : RArith α) (u v : Array α) (i : Nat) (s : V4 α × V4 α × V4 α × V4 α) :
    V4 α × V4 α × V4 α × V4 α :=
  let z := ar.zero
  let (re1, re2, im1, im2) := s
  let a := V4.load z u (8 * i)
  let c := V4.load z v (8 * i)
  let re1 := V4.fmadd ar a c re1
  let b := V4.load z u (8 * i + 4)
  let im2 := V4.fmadd ar b c im2
  let d := V4.load z v (8 * i + 4)
  let re2 := V4.fmadd ar b d re2
  let im1 := V4.fmadd ar a d im1
  (re1, re2, im1, im2)

/-- `reim4_vec_mat1col_product_avx2`: four accumulators, combined at the end -/
def vecMat1colProductAvx2 (ar : RArith α) (nrows : Nat) (dst u v : Array α) : Array α :=
  let zero := V4.splat ar.zero
  let acc := Nat.fold nrows (fun i _ s => vecMat1colAvx2Step ar u v i s) (zero, zero, zero, zero)
  let dst := V4.store dst 0 (V4.sub ar acc.1 acc.2.1)
  V4.store dst 4 (V4.add ar acc.2.2.1 acc.2.2.2)

/-- one row of `reim4_vec_mat2cols_product_avx2`; state `(re1, im1, re2, im2)`:
    the alternating-sign trick `re = x*y - re` applied twice per row -/
def vecMat2colsAvx2Step (ar : RArith α) (u v : Array α) (i : Nat) (s : V4 α × V4 α × V4 α × V4 α) :
    V4 α × V4 α × V4 α × V4 α :=
  let z := ar.zero
  let (re1, im1, re2, im2) := s
  let ur := V4.load z u (8 * i)
  let ui := V4.load z u (8 * i + 4)
  let a_r := V4.load z v (16 * i)
  let a_i := V4.load z v (16 * i + 4)
  let b_r := V4.load z v (16 * i + 8)
  let b_i := V4.load z v (16 * i + 12)
  let re1 := V4.fmsub ar ui a_i re1
  let re2 := V4.fmsub ar ui b_i re2
  let im1 := V4.fmadd ar ur a_i im1
  let im2 := V4.fmadd ar ur b_i im2
  let re1 := V4.fmsub ar ur a_r re1
  let re2 := V4.fmsub ar ur b_r re2
  let im1 := V4.fmadd ar ui a_r im1
  let im2 := V4.fmadd ar ui b_r im2
  (re1, im1, re2, im2)

/-- `reim4_vec_mat2cols_product_avx2` -/
def vecMat2colsProductAvx2 (ar : RArith α) (nrows : Nat) (dst u v : Array α) : Array α :=
  let zero := V4.splat ar.zero
  let acc := Nat.fold nrows (fun i _ s => vecMat2colsAvx2Step ar u v i s) (zero, zero, zero, zero)
  let dst := V4.store dst 0 acc.1
  let dst := V4.store dst 4 acc.2.1
  let dst := V4.store dst 8 acc.2.2.1
  V4.store dst 12 acc.2.2.2

/-! ### convolution (reim4_arithmetic_ref.c; the `_avx` twins are declared but not defined) -/

/-- first index of the window of coefficient `k` -/
def convJmin (k sizea : Nat) : Nat := if k ≥ sizea then k + 1 - sizea else 0
/-- end (exclusive) of the window of coefficient `k` -/
def convJmax (k sizeb : Nat) : Nat := if k < sizeb then k + 1 else sizeb

/-- `reim4_convolution_1coeff_ref(k, dest + d, a, sizea, b, sizeb)` -/
def convolution1coeffAt (ar : RArith α) (k : Nat) (dest : Array α) (d : Nat) (a : Array α) (sizea : Nat)
    (b : Array α) (sizeb : Nat) : Array α :=
  let dest := zeroAt ar dest d
  if k ≥ sizea + sizeb then dest else
  let jmin := convJmin k sizea
  let jmax := convJmax k sizeb
  -- for (j = jmin; j < jmax; ++j) reim4_add_mul(dest, a + 8*(k-j), b + 8*j)
  Nat.fold (jmax - jmin) (fun t _ dest => let j := jmin + t; addMulAt ar dest d a (8 * (k - j)) b (8 * j)) dest

def convolution1coeffRef (ar : RArith α) (k : Nat) (dest a : Array α) (sizea : Nat) (b : Array α) (sizeb : Nat) : Array α :=
  convolution1coeffAt ar k dest 0 a sizea b sizeb

/-- `reim4_convolution_2coeff_ref` -/
def convolution2coeffRef (ar : RArith α) (k : Nat) (dest a : Array α) (sizea : Nat) (b : Array α) (sizeb : Nat) : Array α :=
  let dest := convolution1coeffAt ar k dest 0 a sizea b sizeb
  convolution1coeffAt ar (k + 1) dest 8 a sizea b sizeb

/-- `reim4_convolution_ref(dest, dest_size, dest_offset, a, sizea, b, sizeb)` -/
def convolutionRef (ar : RArith α) (dest : Array α) (destSize destOffset : Nat) (a : Array α) (sizea : Nat)
    (b : Array α) (sizeb : Nat) : Array α :=
  Nat.fold destSize (fun k _ dest => convolution1coeffAt ar (k + destOffset) dest (8 * k) a sizea b sizeb) dest

/-! ### pointwise multiply / multiply-accumulate of whole vectors -/

/-- the AVX/FMA multiply of a (re, im) register pair used by `reim4_fftvec_mul_fma` and `reim_fftvec_mul_fma`:
    `t1 = ai*bi; t2 = ar*bi; rr = fmsub(ar, br, t1); ri = fmadd(ai, br, t2)` -/
@[inline] def mulFmaV (ar : RArith α) (a_r a_i b_r b_i : V4 α) : V4 α × V4 α :=
  let t1 := V4.mul ar a_i b_i
  let t2 := V4.mul ar a_r b_i
  (V4.fmsub ar a_r b_r t1, V4.fmadd ar a_i b_r t2)

/-- multiply-accumulate used by `reim4_fftvec_addmul_fma` and `reim_fftvec_addmul_fma`:
    `rr = fmsub(ai, bi, rr); rr = fmsub(ar, br, rr); ri = fmadd(ar, bi, ri); ri = fmadd(ai, br, ri)` -/
@[inline] def addmulFmaV (ar : RArith α) (rr ri a_r a_i b_r b_i : V4 α) : V4 α × V4 α :=
  let rr := V4.fmsub ar a_i b_i rr
  let rr := V4.fmsub ar a_r b_r rr
  let ri := V4.fmadd ar a_r b_i ri
  let ri := V4.fmadd ar a_i b_r ri
  (rr, ri)

/-- `reim4_fftvec_mul_ref` (`m = precomp->m`): `m/4` blocks of 8 -/
def reim4FftvecMulRef (ar : RArith α) (m : Nat) (r a b : Array α) : Array α :=
  let z := ar.zero
  Nat.fold (m / 4) (fun j _ r =>
    let o := 8 * j
    lanes z 4 (fun i => o + i) (fun i => o + i + 4)
      (fun i _ => reRef ar (a.getD (o + i) z) (a.getD (o + i + 4) z) (b.getD (o + i) z) (b.getD (o + i + 4) z))
      (fun i _ => imRef ar (a.getD (o + i) z) (a.getD (o + i + 4) z) (b.getD (o + i) z) (b.getD (o + i + 4) z)) r) r

/-- `reim4_fftvec_addmul_ref` -/
def reim4FftvecAddmulRef (ar : RArith α) (m : Nat) (r a b : Array α) : Array α :=
  let z := ar.zero
  Nat.fold (m / 4) (fun j _ r =>
    let o := 8 * j
    lanes z 4 (fun i => o + i) (fun i => o + i + 4)
      (fun i old => ar.add old (reRef ar (a.getD (o + i) z) (a.getD (o + i + 4) z) (b.getD (o + i) z) (b.getD (o + i + 4) z)))
      (fun i old => ar.add old (imRef ar (a.getD (o + i) z) (a.getD (o + i + 4) z) (b.getD (o + i) z) (b.getD (o + i + 4) z))) r) r

/-- `reim4_fftvec_mul_fma`: `while (r_ptr != r + 2m)`, 8 doubles per step (terminates iff `4 | m`) -/
def reim4FftvecMulFma (ar : RArith α) (m : Nat) (r a b : Array α) : Option (Array α) :=
  let z := ar.zero
  if m % 4 != 0 then none else
  some (mapV4x2 z (m / 4) (fun j => 8 * j) (fun j => 8 * j + 4)
    (fun j _ _ => mulFmaV ar (V4.load z a (8 * j)) (V4.load z a (8 * j + 4)) (V4.load z b (8 * j)) (V4.load z b (8 * j + 4))) r)

/-- `reim4_fftvec_addmul_fma` -/
def reim4FftvecAddmulFma (ar : RArith α) (m : Nat) (r a b : Array α) : Option (Array α) :=
  let z := ar.zero
  if m % 4 != 0 then none else
  some (mapV4x2 z (m / 4) (fun j => 8 * j) (fun j => 8 * j + 4)
    (fun j rr ri => addmulFmaV ar rr ri (V4.load z a (8 * j)) (V4.load z a (8 * j + 4)) (V4.load z b (8 * j)) (V4.load z b (8 * j + 4))) r)

/-- `reim_fftvec_mul_ref`: split layout, real parts in `[0,m)`, imaginary parts in `[m,2m)` -/
def reimFftvecMulRef (ar : RArith α) (m : Nat) (r a b : Array α) : Array α :=
  let z := ar.zero
  lanes z m (fun i => i) (fun i => i + m)
    (fun i _ => reRef ar (a.getD i z) (a.getD (i + m) z) (b.getD i z) (b.getD (i + m) z))
    (fun i _ => imRef ar (a.getD i z) (a.getD (i + m) z) (b.getD i z) (b.getD (i + m) z)) r

/-- `reim_fftvec_addmul_ref` -/
def reimFftvecAddmulRef (ar : RArith α) (m : Nat) (r a b : Array α) : Array α :=
  let z := ar.zero
  lanes z m (fun i => i) (fun i => i + m)
    (fun i old => ar.add old (reRef ar (a.getD i z) (a.getD (i + m) z) (b.getD i z) (b.getD (i + m) z)))
    (fun i old => ar.add old (imRef ar (a.getD i z) (a.getD (i + m) z) (b.getD i z) (b.getD (i + m) z))) r

/-- `reim_fftvec_mul_fma`: `while (rr_ptr != r + m)`, 4 complexes per step (terminates iff `4 | m`) -/
def reimFftvecMulFma (ar : RArith α) (m : Nat) (r a b : Array α) : Option (Array α) :=
  let z := ar.zero
  if m % 4 != 0 then none else
  some (mapV4x2 z (m / 4) (fun j => 4 * j) (fun j => m + 4 * j)
    (fun j _ _ => mulFmaV ar (V4.load z a (4 * j)) (V4.load z a (m + 4 * j)) (V4.load z b (4 * j)) (V4.load z b (m + 4 * j))) r)

/-- `reim_fftvec_addmul_fma` -/
def reimFftvecAddmulFma (ar : RArith α) (m : Nat) (r a b : Array α) : Option (Array α) :=
  let z := ar.zero
  if m % 4 != 0 then none else
  some (mapV4x2 z (m / 4) (fun j => 4 * j) (fun j => m + 4 * j)
    (fun j rr ri => addmulFmaV ar rr ri (V4.load z a (4 * j)) (V4.load z a (m + 4 * j)) (V4.load z b (4 * j)) (V4.load z b (m + 4 * j))) r)

/-- `cplx_fftvec_mul_ref`: interleaved layout `re_i = x[2i]`, `im_i = x[2i+1]` -/
def cplxFftvecMulRef (ar : RArith α) (m : Nat) (r a b : Array α) : Array α :=
  let z := ar.zero
  lanes z m (fun i => 2 * i) (fun i => 2 * i + 1)
    (fun i _ => reRef ar (a.getD (2 * i) z) (a.getD (2 * i + 1) z) (b.getD (2 * i) z) (b.getD (2 * i + 1) z))
    (fun i _ => imRef ar (a.getD (2 * i) z) (a.getD (2 * i + 1) z) (b.getD (2 * i) z) (b.getD (2 * i + 1) z)) r

/-- `cplx_fftvec_addmul_ref` -/
def cplxFftvecAddmulRef (ar : RArith α) (m : Nat) (r a b : Array α) : Array α :=
  let z := ar.zero
  lanes z m (fun i => 2 * i) (fun i => 2 * i + 1)
    (fun i old => ar.add old (reRef ar (a.getD (2 * i) z) (a.getD (2 * i + 1) z) (b.getD (2 * i) z) (b.getD (2 * i + 1) z)))
    (fun i old => ar.add old (imRef ar (a.getD (2 * i) z) (a.getD (2 * i + 1) z) (b.getD (2 * i) z) (b.getD (2 * i + 1) z))) r

/-- one register (two interleaved complexes) of `cplx_fftvec_mul_fma`:
    `bir = shuffle(bri,5); aii = shuffle(ari,15); pro = aii*bir; arr = shuffle(ari,0); res = fmaddsub(arr,bri,pro)` -/
@[inline] def cplxMulV (ar : RArith α) (ari bri : V4 α) : V4 α :=
  let bir := V4.shuf5 bri
  let aii := V4.shuf15 ari
  let pro := V4.mul ar aii bir
  let arr := V4.shuf0 ari
  V4.fmaddsub ar arr bri pro

/-- one register of `cplx_fftvec_addmul_{fma,sse,avx512}`:
    `pro = fmaddsub(aii, bir, rri); res = fmaddsub(arr, bri, pro)` -/
@[inline] def cplxAddmulV (ar : RArith α) (rri ari bri : V4 α) : V4 α :=
  let bir := V4.shuf5 bri
  let aii := V4.shuf15 ari
  let pro := V4.fmaddsub ar aii bir rri
  let arr := V4.shuf0 ari
  V4.fmaddsub ar arr bri pro

/-- `cplx_fftvec_mul_fma`: `do { 4 registers (8 complexes) } while (aa < aa0 + m/2)` -/
def cplxFftvecMulFma (ar : RArith α) (m : Nat) (r a b : Array α) : Array α :=
  let z := ar.zero
  mapV4 z (4 * doWhileIters (m / 2) 4) (fun j => 4 * j)
    (fun j _ => cplxMulV ar (V4.load z a (4 * j)) (V4.load z b (4 * j))) r

/-- the addmul kernels run `iters` steps of `do … while (aa < aend)`, each step handling `vecs`
    ymm-equivalents (2 complexes each).  The 128- and 512-bit `shuffle_pd`/`fmaddsub_pd` act on every
    128-bit pair exactly like the 256-bit ones, so a zmm is two `V4`s and two xmm are one. -/
def cplxFftvecAddmulSimd (ar : RArith α) (vecs iters : Nat) (r a b : Array α) : Array α :=
  let z := ar.zero
  mapV4 z (vecs * iters) (fun j => 4 * j)
    (fun j rri => cplxAddmulV ar rri (V4.load z a (4 * j)) (V4.load z b (4 * j))) r

/-- `cplx_fftvec_addmul_fma`: `aend = aa + m/2` ymm, `aa += 2` (4 complexes per step: needs `m ≥ 4`, `4 | m`) -/
def cplxFftvecAddmulFma (ar : RArith α) (m : Nat) (r a b : Array α) : Array α :=
  cplxFftvecAddmulSimd ar 2 (doWhileIters (m / 2) 2) r a b
/-- `cplx_fftvec_addmul_sse`: `aend = aa + m` xmm, `aa += 2` (2 complexes per step: needs `m ≥ 2`, `2 | m`) -/
def cplxFftvecAddmulSse (ar : RArith α) (m : Nat) (r a b : Array α) : Array α :=
  cplxFftvecAddmulSimd ar 1 (doWhileIters m 2) r a b
/-- `cplx_fftvec_addmul_avx512`: `aend = aa + m/4` zmm, `aa += 2` (8 complexes per step: needs `m ≥ 8`, `8 | m`) -/
def cplxFftvecAddmulAvx512 (ar : RArith α) (m : Nat) (r a b : Array α) : Array α :=
  cplxFftvecAddmulSimd ar 4 (doWhileIters (m / 4) 2) r a b

end Reim4
end Spq
