/-
  The scratch-size and object-size formulas of the public API (core Lean only): `*_tmp_bytes`, `bytes_of_*`.
  Function ids as in Gen/TmpBytes.lean.
-/
namespace Spq.TmpBytes

/-- `fn ty nn a1 a2 a3 a4`; vmp_apply_*: (res_size, a_size, nrows, ncols) -/
def formula (fn ty nn a1 a2 a3 _a4 : Nat) : Nat :=
  match fn with
  | 0 => if ty = 0 then 0 else nn * 4 * 8          -- vec_znx_idft_tmp_bytes (fft64: 0; ntt120: one transform)
  | 1 => nn * 8                                     -- vec_znx_normalize_base2k_tmp_bytes: one carry limb
  | 2 => nn * 8
  | 3 => nn * 8
  | 4 => 2 * nn * 8                                 -- znx_small_single_product_tmp_bytes: two transforms
  | 5 => nn * 8                                     -- bytes_of_svp_ppol
  | 6 => nn * a1 * 8                                -- bytes_of_vec_znx_dft
  | 7 => nn * a1 * 8                                -- bytes_of_vec_znx_big
  | 8 => nn * a1 * a2 * 8                           -- bytes_of_vmp_pmat
  | 9 => nn * 8                                     -- vmp_prepare_contiguous_tmp_bytes
  | 10 => let rows := min a3 a2; rows * nn * 8 + 128 + 64 * rows   -- vmp_apply_dft_tmp_bytes
  | 11 => 128 + 64 * min a3 a2                                      -- vmp_apply_dft_to_dft_tmp_bytes
  | _ => 0

end Spq.TmpBytes
