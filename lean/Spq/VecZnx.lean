/-
  Heap-level model of spqlios/arithmetic/vec_znx.c, vec_znx_avx.c and the int64 ("fft64") big
  wrappers of vec_znx_big.c.  Core Lean only.

  Offsets and strides are in 64-bit cells.  Aliasing is "same offset".
-/
import Spq.Heap
import Spq.Coeffs
namespace Spq
namespace VecZnx
open Heap
variable {α : Type}

/-- `vec_znx_zero_ref` -/
def zero (o : Ops α) (nn : Nat) (h : Heap α) (res rsz rsl : Nat) : Heap α :=
  forLimbs 0 rsz (fun i => limb0 (Coeffs.zero o nn) (res + i * rsl)) h

/-- `vec_znx_copy_ref` -/
def copy (o : Ops α) (nn : Nat) (h : Heap α) (res rsz rsl a asz asl : Nat) : Heap α :=
  let smin := min rsz asz
  h |> forLimbs 0 smin (fun i => limb1 o.zero nn (Coeffs.copy o nn) (res + i * rsl) (a + i * asl))
    |> forLimbs smin rsz (fun i => limb0 (Coeffs.zero o nn) (res + i * rsl))

/-- `vec_znx_negate_ref` / `vec_znx_negate_avx` -/
def negate (o : Ops α) (nn : Nat) (h : Heap α) (res rsz rsl a asz asl : Nat) : Heap α :=
  let smin := min rsz asz
  h |> forLimbs 0 smin (fun i => limb1 o.zero nn (Coeffs.negate o nn) (res + i * rsl) (a + i * asl))
    |> forLimbs smin rsz (fun i => limb0 (Coeffs.zero o nn) (res + i * rsl))

/-- `vec_znx_add_ref` / `vec_znx_add_avx`: three-phase loop, two symmetric branches -/
def add (o : Ops α) (nn : Nat) (h : Heap α) (res rsz rsl a asz asl b bsz bsl : Nat) : Heap α :=
  if asz ≤ bsz then
    let sumIdx := min rsz asz
    let copyIdx := min rsz bsz
    h |> forLimbs 0 sumIdx (fun i => limb2 o.zero nn (Coeffs.add o nn) (res + i * rsl) (a + i * asl) (b + i * bsl))
      |> forLimbs sumIdx copyIdx (fun i => limb1 o.zero nn (Coeffs.copy o nn) (res + i * rsl) (b + i * bsl))
      |> forLimbs copyIdx rsz (fun i => limb0 (Coeffs.zero o nn) (res + i * rsl))
  else
    let sumIdx := min rsz bsz
    let copyIdx := min rsz asz
    h |> forLimbs 0 sumIdx (fun i => limb2 o.zero nn (Coeffs.add o nn) (res + i * rsl) (a + i * asl) (b + i * bsl))
      |> forLimbs sumIdx copyIdx (fun i => limb1 o.zero nn (Coeffs.copy o nn) (res + i * rsl) (a + i * asl))
      |> forLimbs copyIdx rsz (fun i => limb0 (Coeffs.zero o nn) (res + i * rsl))

/-- `vec_znx_sub_ref` / `vec_znx_sub_avx` -/
def sub (o : Ops α) (nn : Nat) (h : Heap α) (res rsz rsl a asz asl b bsz bsl : Nat) : Heap α :=
  if asz ≤ bsz then
    let subIdx := min rsz asz
    let copyIdx := min rsz bsz
    h |> forLimbs 0 subIdx (fun i => limb2 o.zero nn (Coeffs.sub o nn) (res + i * rsl) (a + i * asl) (b + i * bsl))
      |> forLimbs subIdx copyIdx (fun i => limb1 o.zero nn (Coeffs.negate o nn) (res + i * rsl) (b + i * bsl))
      |> forLimbs copyIdx rsz (fun i => limb0 (Coeffs.zero o nn) (res + i * rsl))
  else
    let subIdx := min rsz bsz
    let copyIdx := min rsz asz
    h |> forLimbs 0 subIdx (fun i => limb2 o.zero nn (Coeffs.sub o nn) (res + i * rsl) (a + i * asl) (b + i * bsl))
      |> forLimbs subIdx copyIdx (fun i => limb1 o.zero nn (Coeffs.copy o nn) (res + i * rsl) (a + i * asl))
      |> forLimbs copyIdx rsz (fun i => limb0 (Coeffs.zero o nn) (res + i * rsl))

/-- `vec_znx_rotate_ref`: per-limb pointer-equality test selects the in-place kernel -/
def rotate (o : Ops α) (nn : Nat) (p : Int) (h : Heap α) (res rsz rsl a asz asl : Nat) : Heap α :=
  let e := min rsz asz
  h |> forLimbs 0 e (fun i =>
        if res + i * rsl = a + i * asl then
          limb1 o.zero nn (Coeffs.rotateInplace o nn p) (res + i * rsl) (res + i * rsl)
        else limb1 o.zero nn (Coeffs.rotate o nn p) (res + i * rsl) (a + i * asl))
    |> forLimbs e rsz (fun i => limb0 (Coeffs.zero o nn) (res + i * rsl))

/-- `vec_znx_automorphism_ref` -/
def automorphism (o : Ops α) (nn : Nat) (p : Int) (h : Heap α) (res rsz rsl a asz asl : Nat) : Heap α :=
  let e := min rsz asz
  h |> forLimbs 0 e (fun i =>
        if res + i * rsl = a + i * asl then
          limb1 o.zero nn (Coeffs.automorphismInplace o nn p) (res + i * rsl) (res + i * rsl)
        else fun h => limb1 o.zero nn
              (fun inp => Coeffs.automorphism o nn p inp (h.readLimb o.zero (res + i * rsl) nn))
              (res + i * rsl) (a + i * asl) h)
    |> forLimbs e rsz (fun i => limb0 (Coeffs.zero o nn) (res + i * rsl))

/-- `vec_znx_normalize_base2k_ref` (with the size-0 guards).  The carry vector lives in the
    caller's scratch (`nn` cells = `vec_znx_normalize_base2k_tmp_bytes`); here it is a local value,
    so by construction the result does not depend on prior scratch content. -/
def normalize (nn k : Nat) (h : Heap Int) (res rsz rsl a asz asl : Nat) : Heap Int :=
  if rsz = 0 then h
  else if asz = 0 then forLimbs 0 rsz (fun i => limb0 (Coeffs.zero i64Ops nn) (res + i * rsl)) h
  else
    let e := min rsz asz
    -- carry-only pass over dropped limbs  i = asz-1 .. rsz
    let st : Heap Int × Option (Array Int) :=
      (List.range' rsz (asz - rsz)).reverse.foldl (fun (st : Heap Int × Option (Array Int)) i =>
        let r := Coeffs.znxNormalize nn k (st.1.readLimb 0 (a + i * asl) nn) st.2
        (st.1.touch (a + i * asl) nn, some r.2)) (h, none)
    -- normalise pass  i = e-1 .. 1
    let st := (List.range' 1 (e - 1)).reverse.foldl (fun (st : Heap Int × Option (Array Int)) i =>
        let r := Coeffs.znxNormalize nn k (st.1.readLimb 0 (a + i * asl) nn) st.2
        ((st.1.touch (a + i * asl) nn).writeLimb (res + i * rsl) r.1, some r.2)) st
    -- last limb
    let r := Coeffs.znxNormalize nn k (st.1.readLimb 0 a nn) st.2
    let h := (st.1.touch a nn).writeLimb res r.1
    forLimbs asz rsz (fun i => limb0 (Coeffs.zero i64Ops nn) (res + i * rsl)) h

/-- `fft64_vec_znx_big_normalize_base2k`: a `VEC_ZNX_BIG` (fft64) is an int64 limb vector with stride
    `nn`; the call is forwarded with `a_sl = nn`. -/
def bigNormalize (nn k : Nat) (h : Heap Int) (res rsz rsl a asz : Nat) : Heap Int :=
  normalize nn k h res rsz rsl a asz nn

/-- `fft64_vec_znx_big_range_normalize_base2k`: limbs `begin, begin+step, … < end` of the big vector:
    `a_st = a + nn*begin`, `a_size = (end + step - 1 - begin) / step`, `a_sl = nn*step`.
    Faithful for `step ≥ 1` (C divides by `a_step`) and `begin ≤ end + step - 1` (otherwise the
    `uint64_t` subtraction wraps in C and `a_size` is huge, whereas `Nat` subtraction gives 0). -/
def bigRangeNormalize (nn k : Nat) (h : Heap Int) (res rsz rsl a abegin aend astep : Nat) : Heap Int :=
  normalize nn k h res rsz rsl (a + nn * abegin) ((aend + astep - 1 - abegin) / astep) (nn * astep)

end VecZnx
end Spq
