/-
  Reachability over the extracted call graph (core Lean only): which mutable static-storage objects
  can a call starting at one of `roots` touch?  Indirect calls are over-approximated by "any function
  whose address is taken".  Returns `none` when the fuel does not suffice (never accepted as a proof).
-/
namespace Spq.Globals

structure Graph where
  calls : List (Nat × List Nat)
  indirect : List Nat
  addrTaken : List Nat
  refs : List (Nat × List Nat)

def succs (g : Graph) (f : Nat) : List Nat := (g.calls.lookup f).getD []

/-- worklist closure under direct calls -/
def reach (g : Graph) : Nat → List Nat → List Nat → Option (List Nat)
  | _, [], visited => some visited
  | 0, _ :: _, _ => none
  | fuel + 1, f :: work, visited =>
    if visited.contains f then reach g fuel work visited
    else reach g fuel (succs g f ++ work) (f :: visited)

/-- closure including indirect-call targets: if any reached function contains an indirect call, every
    address-taken function is a possible callee -/
def closure (g : Graph) (fuel : Nat) (roots : List Nat) : Option (List Nat) :=
  match reach g fuel roots [] with
  | none => none
  | some v =>
    if v.any (fun f => g.indirect.contains f) then reach g fuel g.addrTaken v else some v

/-- mutable globals referenced by a set of functions -/
def touched (g : Graph) (fs : List Nat) : List Nat :=
  (fs.flatMap fun f => (g.refs.lookup f).getD []).eraseDups

/-- globals (ids) that a call from `roots` may touch, restricted by a filter on the global id -/
def touchedFrom (g : Graph) (fuel : Nat) (roots : List Nat) (keep : Nat → Bool) : Option (List Nat) :=
  (closure g fuel roots).map fun fs => (touched g fs).filter keep

/-! ### threads as reactive programs over shared memory (sequentially consistent interleavings) -/

inductive Act where
  | read (l : Nat)
  | write (l : Nat) (v : Int)
  | done

/-- a deterministic thread: its next action is a function of the values it has read so far -/
abbrev Prog := List Int → Act

structure Conf where
  shared : Nat → Int
  hist : Nat → List Int      -- per thread: values read so far (most recent last)

def stepThread (progs : Nat → Prog) (c : Conf) (t : Nat) : Conf :=
  match progs t (c.hist t) with
  | .read l => { c with hist := fun u => if u = t then c.hist t ++ [c.shared l] else c.hist u }
  | .write l v => { c with shared := fun k => if k = l then v else c.shared k }
  | .done => c

def runSched (progs : Nat → Prog) (c : Conf) (sched : List Nat) : Conf :=
  sched.foldl (stepThread progs) c

/-- thread `t` running alone for `n` steps -/
def runSolo (progs : Nat → Prog) (c : Conf) (t n : Nat) : Conf :=
  runSched progs c (List.replicate n t)

end Spq.Globals
