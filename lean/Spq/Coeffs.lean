/-
  Model of spqlios/coeffs/coeffs_arithmetic.c (and the AVX twins, which compute the same
  function lane by lane): single-polynomial kernels.  Core Lean only.

  Kernels are polymorphic in the coefficient type through an explicit `Ops` record so the same
  definition serves int64 (wrapping arithmetic, `i64Ops`), binary64 (`F64.ops`) and abstract rings
  in the proofs.
-/
import Spq.Mach
namespace Spq


namespace Coeffs
variable {α : Type}

/-! ### elementwise kernels (`znx_add_i64_ref/avx`, …) -/
def add (o : Ops α) (nn : Nat) (a b : Array α) : Array α :=
  Array.ofFn (n := nn) fun i => o.add (a.getD i o.zero) (b.getD i o.zero)
def sub (o : Ops α) (nn : Nat) (a b : Array α) : Array α :=
  Array.ofFn (n := nn) fun i => o.sub (a.getD i o.zero) (b.getD i o.zero)
def negate (o : Ops α) (nn : Nat) (a : Array α) : Array α :=
  Array.ofFn (n := nn) fun i => o.neg (a.getD i o.zero)
def copy (o : Ops α) (nn : Nat) (a : Array α) : Array α :=
  Array.ofFn (n := nn) fun i => a.getD i o.zero
def zero (o : Ops α) (nn : Nat) : Array α :=
  Array.ofFn (n := nn) fun _ => o.zero

/-! ### out-of-place rotation  `znx_rotate_i64` / `rnx_rotate_f64`
    `a = (-p) & (2nn-1)`; four loops. -/
def rotate (o : Ops α) (nn : Nat) (p : Int) (inp : Array α) : Array α :=
  let a := negMask p (2 * nn)
  Array.ofFn (n := nn) fun j =>
    if a < nn then
      let nma := nn - a
      if j.val < nma then inp.getD (j.val + a) o.zero else o.neg (inp.getD (j.val - nma) o.zero)
    else
      let a' := a - nn
      let nma := nn - a'
      if j.val < nma then o.neg (inp.getD (j.val + a') o.zero) else inp.getD (j.val - nma) o.zero

/-! ### out-of-place `(X^p - 1)` product  `znx_mul_xp_minus_one` / `rnx_mul_xp_minus_one` -/
def mulXpMinusOne (o : Ops α) (nn : Nat) (p : Int) (inp : Array α) : Array α :=
  let a := negMask p (2 * nn)
  Array.ofFn (n := nn) fun j =>
    let x := inp.getD j.val o.zero
    if a < nn then
      let nma := nn - a
      if j.val < nma then o.sub (inp.getD (j.val + a) o.zero) x
      else o.sub (o.neg (inp.getD (j.val - nma) o.zero)) x
    else
      let a' := a - nn
      let nma := nn - a'
      if j.val < nma then o.sub (o.neg (inp.getD (j.val + a') o.zero)) x
      else o.sub (inp.getD (j.val - nma) o.zero) x

/-! ### out-of-place automorphism  `znx_automorphism_i64` / `rnx_automorphism_f64`
    A scatter: `res[0] = in[0]`; for i = 1..nn-1: `a = (a+p) & (2nn-1)`; `res[a] = in[i]` or
    `res[a-nn] = -in[i]`.  `res0` is the prior content of the output buffer (cells the loop does not
    write keep it — this only happens for even `p`, outside the contract). -/
def automStep (o : Ops α) (nn : Nat) (p : Int) (inp : Array α) (st : Nat × Array α) (k : Nat) :
    Nat × Array α :=
  let i := k + 1
  let a := posMask ((st.1 : Int) + p) (2 * nn)
  (a, if a < nn then st.2.setIfInBounds a (inp.getD i o.zero)
      else st.2.setIfInBounds (a - nn) (o.neg (inp.getD i o.zero)))

def automorphism (o : Ops α) (nn : Nat) (p : Int) (inp res0 : Array α) : Array α :=
  ((List.range (nn - 1)).foldl (automStep o nn p inp)
      (0, res0.setIfInBounds 0 (inp.getD 0 o.zero))).2

/-! ### in-place rotation  `znx_rotate_inplace_i64` / `rnx_rotate_inplace_f64`
    and in-place `(X^p-1)` (`sub = true`): follow cycles, carrying one value; leaders `j_start++`. -/

/-- the do-while body; returns the array and the updated modification counter.
    `fuel` bounds the number of iterations (a theorem shows `nn` suffices). -/
def walkCycle (o : Ops α) (nn : Nat) (p : Int) (sub : Bool) (jstart : Nat) :
    Nat → Nat → α → Array α → Nat → Array α × Nat
  | 0, _, _, res, nb => (res, nb)
  | fuel + 1, j, t, res, nb =>
    let newj := posMask ((j : Int) + p) (2 * nn)
    let newjn := newj % nn
    let t2 := res.getD newjn o.zero
    let v := if newj < nn then t else o.neg t
    let v := if sub then o.sub v t2 else v
    let res' := res.setIfInBounds newjn v
    if newjn = jstart then (res', nb + 1) else walkCycle o nn p sub jstart fuel newjn t2 res' (nb + 1)

/-- the outer `while (nb_modif < nn)` loop; `fuel` bounds the number of leaders tried. -/
def walkAll (o : Ops α) (nn : Nat) (p : Int) (sub : Bool) :
    Nat → Nat → Nat → Array α → Array α
  | 0, _, _, res => res
  | fuel + 1, jstart, nb, res =>
    if nb < nn then
      let (res', nb') := walkCycle o nn p sub jstart nn jstart (res.getD jstart o.zero) res nb
      walkAll o nn p sub fuel (jstart + 1) nb' res'
    else res

def rotateInplace (o : Ops α) (nn : Nat) (p : Int) (res : Array α) : Array α :=
  walkAll o nn p false nn 0 0 res
def mulXpMinusOneInplace (o : Ops α) (nn : Nat) (p : Int) (res : Array α) : Array α :=
  walkAll o nn p true nn 0 0 res

/-! ### in-place automorphism  `znx_automorphism_inplace_i64` / `rnx_automorphism_inplace_f64` -/

/-- paired orbit walk (`j` and `nn-j` together), carrying two values -/
def autWalkCycle (o : Ops α) (nn : Nat) (p : Nat) (jstart : Nat) :
    Nat → Nat → α → α → Array α → Nat → Array α × Nat
  | 0, _, _, _, res, nb => (res, nb)
  | fuel + 1, j, t1, t2, res, nb =>
    let newj := (j * p) % (2 * nn)
    let newjn := newj % nn
    let t1a := res.getD newjn o.zero
    let t2a := res.getD (nn - newjn) o.zero
    let res' :=
      if newj < nn then (res.setIfInBounds newjn t1).setIfInBounds (nn - newjn) t2
      else (res.setIfInBounds newjn (o.neg t1)).setIfInBounds (nn - newjn) (o.neg t2)
    if newjn = jstart then (res', nb + 2)
    else autWalkCycle o nn p jstart fuel newjn t1a t2a res' (nb + 2)

def autWalkAll (o : Ops α) (nn : Nat) (p : Nat) (orbSize : Nat) :
    Nat → Nat → Nat → Array α → Array α
  | 0, _, _, res => res
  | fuel + 1, jstart, nb, res =>
    if nb < orbSize then
      let (res', nb') := autWalkCycle o nn p jstart nn jstart (res.getD jstart o.zero)
                            (res.getD (nn - jstart) o.zero) res nb
      autWalkAll o nn p orbSize fuel ((5 * jstart) % nn) nb' res'
    else res

/-- `for (j = lo; j < hi; j += step) body`, as a list of indices -/
def stepRange (lo hi step : Nat) : List Nat :=
  if step = 0 then [] else (List.range ((hi - lo + step - 1) / step)).map (fun t => lo + t * step)

/-- the `for (binval = 1 …; binval < nn; binval <<= 1 …)` loop -/
def autLevels (o : Ops α) (nn : Nat) (p : Nat) :
    Nat → Nat → Nat → Nat → Array α → Array α
  | 0, _, _, _, res => res
  | fuel + 1, binval, vp, orbSize, res =>
    if binval < nn then
      let twoN := 2 * nn
      let m := nn / 2
      if vp = binval then res
      else if (vp + binval) % twoN = 0 then
        let res := (stepRange binval m binval).foldl (fun r j =>
          let tmp := r.getD j o.zero
          let r := r.setIfInBounds j (o.neg (r.getD (nn - j) o.zero))
          r.setIfInBounds (nn - j) (o.neg tmp)) res
        res.setIfInBounds m (o.neg (res.getD m o.zero))
      else if (vp + twoN - binval) % nn = 0 then
        (stepRange binval nn (2 * binval)).foldl (fun r j => r.setIfInBounds j (o.neg (r.getD j o.zero))) res
      else if (vp + binval) % nn = 0 then
        let res := (stepRange binval m (2 * binval)).foldl (fun r j =>
          let tmp := r.getD j o.zero
          let r := r.setIfInBounds j (r.getD (nn - j) o.zero)
          r.setIfInBounds (nn - j) tmp) res
        autLevels o nn p fuel (2 * binval) ((2 * vp) % twoN) (orbSize / 2) res
      else
        let res := autWalkAll o nn p orbSize nn binval 0 res
        autLevels o nn p fuel (2 * binval) ((2 * vp) % twoN) (orbSize / 2) res
    else res

def automorphismInplace (o : Ops α) (nn : Nat) (p : Int) (res : Array α) : Array α :=
  let pm := posMask p (2 * nn)
  autLevels o nn pm 64 1 pm (nn / 2) res

/-! ### base-2^k digit / carry  (`get_base_k_digit`, `get_base_k_carry`, `znx_normalize`) -/

/-- `(x << (64-k)) >> (64-k)` on int64 -/
def digit (x : Int) (k : Nat) : Int := sarS (shlS x (64 - k)) (64 - k)
/-- `(x - digit) >> k` on int64 -/
def carry (x d : Int) (k : Nat) : Int := sarS (subS x d) k

/-- one coefficient of `znx_normalize`: returns `(y, cout)` as the C computes them in the branch
    selected by the presence of `carry_in` (the presence of `out` / `carry_out` only decides which of
    the two values are stored). -/
def normCoef (k : Nat) (x : Int) (cin : Option Int) : Int × Int :=
  match cin with
  | some c =>
    let d := digit x k
    let cr := carry x d k
    let dpc := addS d c
    let y := digit dpc k
    (y, addS cr (carry dpc y k))
  | none =>
    let y := digit x k
    (y, carry x y k)

/-- `znx_normalize(nn, k, out, carry_out, in, carry_in)`; returns the vectors that would be
    stored to `out` and `carry_out` (the caller stores those whose pointer is non-null). -/
def znxNormalize (nn k : Nat) (inp : Array Int) (cin : Option (Array Int)) : Array Int × Array Int :=
  let r := Array.ofFn (n := nn) fun i =>
    normCoef k (inp.getD i 0) (cin.map fun c => c.getD i 0)
  (r.map Prod.fst, r.map Prod.snd)

end Coeffs
end Spq
