import Spq.Drv.Util
import Spq.F64
/- driver family `f6`: soft-float primitives (and, later, the numeric conversions)
     f6 add a b | f6 sub a b | f6 mul a b | f6 fma a b c | f6 ofint x | f6 rint a | f6 trunc a -/
namespace Spq.Drv
open Spq
def handleF6 (args : List String) : Option String :=
  match args with
  | ["add", a, b] => some (toString (F64.add (parseNat a) (parseNat b)))
  | ["sub", a, b] => some (toString (F64.sub (parseNat a) (parseNat b)))
  | ["mul", a, b] => some (toString (F64.mul (parseNat a) (parseNat b)))
  | ["fma", a, b, c] => some (toString (F64.fma (parseNat a) (parseNat b) (parseNat c)))
  | ["ofint", x] => some (toString (F64.ofInt (parseInt x)))
  | ["rint", a] => some (toString (F64.rint (parseNat a)))
  | ["trunc", a] => some (toString (F64.toIntTrunc (parseNat a)))
  | _ => none
end Spq.Drv
