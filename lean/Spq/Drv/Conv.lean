import Spq.Drv.Util
import Spq.F64
import Spq.Conv
/- driver family `f6`: soft-float primitives and the numeric conversions (C14)
     f6 add a b | f6 sub a b | f6 mul a b | f6 div a b | f6 fma a b c | f6 ofint x | f6 rint a | f6 trunc a
   conversions (`k=v` parameters; `variant` ∈ direct names or `api0`/`api1` = through the precomp built with
   the AVX2 feature masked off / on; the answer to an api op starts with the selected function):
     f6 from_znx64      <ref|bnd50|api0|api1>        m= log2bound=            | int64 …      -> patterns
     f6 to_znx64        <ref|bnd50|bnd63|api0|api1>  m= log2bound= div=       | patterns …   -> int64
     f6 to_tnx          <basic|ref|avx|api0|api1>    m= log2overhead= div=    | patterns …   -> patterns
     f6 tnx_precomp     log2overhead= div=                                                   -> add_cst mask_and mask_or sub_cst
     f6 cplx_from_znx32 <ref|avx|api0|api1>          m=                       | int32 …      -> patterns
     f6 cplx_from_tnx32 <ref|avx|api0|api1>          m=                       | int32 …      -> patterns
     f6 cplx_to_tnx32   <ref|avx|api0|api1>          m= log2overhead= div=    | patterns …   -> int32 -/
namespace Spq.Drv
open Spq

/-- value of a `key=value` token -/
def kvNat (s : String) : Nat := parseNat ((s.splitOn "=").getLastD "")

def handleF6 (args : List String) : Option String :=
  let (hd, payload) := splitBar args
  match hd with
  | ["add", a, b] => some (toString (F64.add (parseNat a) (parseNat b)))
  | ["sub", a, b] => some (toString (F64.sub (parseNat a) (parseNat b)))
  | ["mul", a, b] => some (toString (F64.mul (parseNat a) (parseNat b)))
  | ["div", a, b] => some (toString (F64.div (parseNat a) (parseNat b)))
  | ["fma", a, b, c] => some (toString (F64.fma (parseNat a) (parseNat b) (parseNat c)))
  | ["ofint", x] => some (toString (F64.ofInt (parseInt x)))
  | ["rint", a] => some (toString (F64.rint (parseNat a)))
  | ["trunc", a] => some (toString (F64.toIntTrunc (parseNat a)))
  | ["from_znx64", v, m, lb] =>
    let m := kvNat m; let lb := kvNat lb; let x := ints payload
    match v with
    | "ref" => some (joinNats (Conv.fromZnx64Ref m x))
    | "bnd50" => some (joinNats (Conv.fromZnx64Bnd50 m x))
    | "api0" | "api1" =>
      match Conv.initFromZnx64 m lb (v == "api1") with
      | none => some "error"
      | some .ref => some ("reim_from_znx64_ref " ++ joinNats (Conv.fromZnx64Ref m x))
      | some .bnd50 => some ("reim_from_znx64_bnd50_fma " ++ joinNats (Conv.fromZnx64Bnd50 m x))
    | _ => none
  | ["to_znx64", v, m, lb, d] =>
    let m := kvNat m; let lb := kvNat lb; let d := kvNat d; let x := nats payload
    match v with
    | "ref" => some (joinInts (Conv.toZnx64Ref m d x))
    | "bnd50" => some (joinInts (Conv.toZnx64Bnd50 m d x))
    | "bnd63" => some (joinInts (Conv.toZnx64Bnd63 m d x))
    | "bnd63old" => some (joinInts (Conv.toZnx64Bnd63Old m d x))
    | "api0" | "api1" | "api1old" =>     -- api1old: tree without the fix of D7 (offset = divisor/2)
      match Conv.initToZnx64 m d lb (v != "api0") with
      | none => some "error"
      | some .ref => some ("reim_to_znx64_ref " ++ joinInts (Conv.toZnx64Ref m d x))
      | some .bnd50 => some ("reim_to_znx64_avx2_bnd50_fma " ++ joinInts (Conv.toZnx64Bnd50 m d x))
      | some .bnd63 => some ("reim_to_znx64_avx2_bnd63_fma " ++
          joinInts (if v == "api1old" then Conv.toZnx64Bnd63Old m d x else Conv.toZnx64Bnd63 m d x))
    | _ => none
  | ["to_tnx", v, m, lo, d] =>
    let m := kvNat m; let lo := kvNat lo; let d := kvNat d; let x := nats payload
    match v with
    | "basic" => some (joinNats (Conv.toTnxBasicRef m d x))
    | _ =>
      match Conv.initToTnx m d lo (v == "api1") with
      | none => some "error"
      | some p =>
        match v with
        | "ref" => some (joinNats (Conv.toTnxRef p x))
        | "avx" => some (joinNats (Conv.toTnxAvx p x))
        | "api0" | "api1" =>
          some ((if p.useAvx then "reim_to_tnx_avx " else "reim_to_tnx_ref ") ++ joinNats (Conv.toTnx p x))
        | _ => none
  | ["tnx_precomp", lo, d] =>
    match Conv.initToTnx 1 (kvNat d) (kvNat lo) false with
    | none => some "error"
    | some p => some (joinNats #[p.addCst, p.maskAnd, p.maskOr, p.subCst])
  | ["cplx_from_znx32", v, m] =>
    let m := kvNat m; let x := ints payload
    match v with
    | "ref" => some (joinNats (Conv.cplxFromZnx32Ref m x))
    | "avx" => some (joinNats (Conv.cplxFromZnx32Avx m x))
    | "api0" | "api1" =>
      if Conv.initCplxFrom m (v == "api1") then some ("cplx_from_znx32_avx2_fma " ++ joinNats (Conv.cplxFromZnx32Avx m x))
      else some ("cplx_from_znx32_ref " ++ joinNats (Conv.cplxFromZnx32Ref m x))
    | _ => none
  | ["cplx_from_tnx32", v, m] =>
    let m := kvNat m; let x := ints payload
    match v with
    | "ref" => some (joinNats (Conv.cplxFromTnx32Ref m x))
    | "avx" => some (joinNats (Conv.cplxFromTnx32Avx m x))
    | "api0" | "api1" =>
      if Conv.initCplxFrom m (v == "api1") then some ("cplx_from_tnx32_avx2_fma " ++ joinNats (Conv.cplxFromTnx32Avx m x))
      else some ("cplx_from_tnx32_ref " ++ joinNats (Conv.cplxFromTnx32Ref m x))
    | _ => none
  | ["cplx_to_tnx32", v, m, lo, d] =>
    let m := kvNat m; let lo := kvNat lo; let d := kvNat d; let x := nats payload
    match v with
    | "ref" => some (joinInts (Conv.cplxToTnx32Ref m d x))
    | "avx" => some (joinInts (Conv.cplxToTnx32Avx m d x))
    | "api0" | "api1" =>
      match Conv.initCplxToTnx32 m d lo (v == "api1") with
      | none => some "error"
      | some true => some ("cplx_to_tnx32_avx2_fma " ++ joinInts (Conv.cplxToTnx32Avx m d x))
      | some false => some ("cplx_to_tnx32_ref " ++ joinInts (Conv.cplxToTnx32Ref m d x))
    | _ => none
  | _ => none
end Spq.Drv
