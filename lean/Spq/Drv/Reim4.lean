import Spq.Drv.Util
import Spq.Reim4
/-
  driver family `r4` (block layouts and complex-vector kernels, binary64 as 64-bit patterns):

    r4 <op> <variant> <params…> <doff> | dst_0 … | src/u/a_0 … [| v/b_0 …]
    answer: the whole destination buffer after the call (or "diverge")

  The C function receives `dst + doff` (the first `doff` cells are a canary zone in front of the
  pointer, which no kernel can address: the model runs on the rest of the buffer).

    extract   ref|avx  m blk doff              | dst | src
    extractc  ref|avx  m nrows blk doff        | dst | src
    extractsl ref|avx  m sl nrows blk doff     | dst | src
    save      ref|avx  m blk doff              | dst | src
    fromcplx  ref|fma|api  m doff              | dst | src     (api = the dispatching entry point)
    tocplx    ref|fma|api  m doff              | dst | src
    add|mul|addmul ref doff                    | dst | u | v
    mat1col|mat2cols ref|avx2 nrows doff       | dst | u | v
    conv1|conv2 ref k sizea sizeb doff         | dst | a | b
    conv      ref dsize doffset sizea sizeb doff | dst | a | b
    r4mul|r4addmul|remul|readdmul ref|fma m doff | r | a | b
    cxmul     ref|fma m doff                   | r | a | b
    cxaddmul  ref|fma|sse|avx512 m doff        | r | a | b
-/
namespace Spq.Drv
open Spq Spq.Reim4

private def r4run (op variant : String) (ps : Array Nat) (dst s1 s2 : Array Nat) : Option (Option (Array Nat)) :=
  let ar := F64.arith
  let p (i : Nat) : Nat := ps.getD i 0
  match op, variant with
  | "extract", "ref" => some (some (extract1blkFromReimRef 0 (p 0) (p 1) dst s1))
  | "extract", "avx" => some (some (extract1blkFromReimAvx 0 (p 0) (p 1) dst s1))
  | "extractc", "ref" => some (some (extract1blkFromContiguousReimRef 0 (p 0) (p 1) (p 2) dst s1))
  | "extractc", "avx" => some (some (extract1blkFromContiguousReimAvx 0 (p 0) (p 1) (p 2) dst s1))
  | "extractsl", "ref" => some (some (extract1blkFromContiguousReimSlRef 0 (p 0) (p 1) (p 2) (p 3) dst s1))
  | "extractsl", "avx" => some (some (extract1blkFromContiguousReimSlAvx 0 (p 0) (p 1) (p 2) (p 3) dst s1))
  | "save", "ref" => some (some (save1blkToReimRef 0 (p 0) (p 1) dst s1))
  | "save", "avx" => some (some (save1blkToReimAvx 0 (p 0) (p 1) dst s1))
  | "fromcplx", "ref" => some (some (fromCplxRef 0 (p 0) dst s1))
  | "fromcplx", "fma" => some (fromCplxFma 0 (p 0) dst s1)
  | "fromcplx", "api" => some (some (fromCplxRef 0 (p 0) dst s1))   -- dispatch: ref or fma, the same data movement
  | "tocplx", "api" => some (some (toCplxRef 0 (p 0) dst s1))
  | "tocplx", "ref" => some (some (toCplxRef 0 (p 0) dst s1))
  | "tocplx", "fma" => some (toCplxFma 0 (p 0) dst s1)
  | "add", "ref" => some (some (Reim4.add ar dst s1 s2))
  | "mul", "ref" => some (some (Reim4.mul ar dst s1 s2))
  | "addmul", "ref" => some (some (Reim4.addMul ar dst s1 s2))
  | "mat1col", "ref" => some (some (vecMat1colProductRef ar (p 0) dst s1 s2))
  | "mat1col", "avx2" => some (some (vecMat1colProductAvx2 ar (p 0) dst s1 s2))
  | "mat2cols", "ref" => some (some (vecMat2colsProductRef ar (p 0) dst s1 s2))
  | "mat2cols", "avx2" => some (some (vecMat2colsProductAvx2 ar (p 0) dst s1 s2))
  | "conv1", "ref" => some (some (convolution1coeffRef ar (p 0) dst s1 (p 1) s2 (p 2)))
  | "conv2", "ref" => some (some (convolution2coeffRef ar (p 0) dst s1 (p 1) s2 (p 2)))
  | "conv", "ref" => some (some (convolutionRef ar dst (p 0) (p 1) s1 (p 2) s2 (p 3)))
  | "r4mul", "ref" => some (some (reim4FftvecMulRef ar (p 0) dst s1 s2))
  | "r4mul", "fma" => some (reim4FftvecMulFma ar (p 0) dst s1 s2)
  | "r4addmul", "ref" => some (some (reim4FftvecAddmulRef ar (p 0) dst s1 s2))
  | "r4addmul", "fma" => some (reim4FftvecAddmulFma ar (p 0) dst s1 s2)
  | "remul", "ref" => some (some (reimFftvecMulRef ar (p 0) dst s1 s2))
  | "remul", "fma" => some (reimFftvecMulFma ar (p 0) dst s1 s2)
  | "readdmul", "ref" => some (some (reimFftvecAddmulRef ar (p 0) dst s1 s2))
  | "readdmul", "fma" => some (reimFftvecAddmulFma ar (p 0) dst s1 s2)
  | "cxmul", "ref" => some (some (cplxFftvecMulRef ar (p 0) dst s1 s2))
  | "cxmul", "fma" => some (some (cplxFftvecMulFma ar (p 0) dst s1 s2))
  | "cxaddmul", "ref" => some (some (cplxFftvecAddmulRef ar (p 0) dst s1 s2))
  | "cxaddmul", "fma" => some (some (cplxFftvecAddmulFma ar (p 0) dst s1 s2))
  | "cxaddmul", "sse" => some (some (cplxFftvecAddmulSse ar (p 0) dst s1 s2))
  | "cxaddmul", "avx512" => some (some (cplxFftvecAddmulAvx512 ar (p 0) dst s1 s2))
  | _, _ => none

def handleR4 (args : List String) : Option String :=
  let (hd, rest) := splitBar args
  let (b0, rest) := splitBar rest
  let (b1, b2) := splitBar rest
  match hd with
  | op :: variant :: params =>
    let ps := nats params
    if ps.size == 0 then none else
    let doff := ps.back!
    let ps := ps.pop
    let buf := nats b0
    let pre := buf.extract 0 doff
    let dst := buf.extract doff buf.size
    match r4run op variant ps dst (nats b1) (nats b2) with
    | none => none
    | some none => some "diverge"
    | some (some d) => some (joinNats (pre ++ d))
  | _ => none

end Spq.Drv
