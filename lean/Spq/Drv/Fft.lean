import Spq.Drv.Util
import Spq.Fft
/-
  driver family `ff`:
    ff reim_fft|reim_ifft|cplx_fft|cplx_ifft <flavour> <m> | table patterns… | input patterns…
  (binary64 values as the decimal value of their 64-bit pattern); answer: output patterns.
-/
namespace Spq.Drv
open Spq.Fft

def handleFf (args : List String) : Option String :=
  let (hd, rest) := splitBar args
  let (tb, inp) := splitBar rest
  match hd with
  | ["angles", op, ms] =>
    let m := parseNat ms
    match op with
    | "reim_fft" => some (entsLine m (reimFftEnts m))
    | "reim_ifft" => some (entsLine m (reimIfftEnts m))
    | "cplx_fft" => some (entsLine m (cplxFftEnts m))
    | "cplx_ifft" => some (entsLine m (cplxIfftEnts m))
    | _ => none
  | [op, flav, ms] =>
    let m := parseNat ms
    let T := nats tb
    let d := nats inp
    match op with
    | "reim_fft" => some (joinNats (reimFft flav m T d))
    | "reim_ifft" => some (joinNats (reimIfft flav m T d))
    | "cplx_fft" => some (joinNats (cplxFft flav m T d))
    | "cplx_ifft" => some (joinNats (cplxIfft flav m T d))
    | _ => none
  | _ => none
end Spq.Drv
