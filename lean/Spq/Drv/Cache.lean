import Spq.Drv.Util
import Spq.Caches
import Gen.Caches
/- driver family `ca`:   ca prog <function> | m=8,divisor=4607182418800017408 ; m=16,… ; …
   answer: one bit per call — 1 iff the model says a table is (re)built by that call.
   The cache structure of <function> is the one extracted from the C source (Gen.Caches). -/
namespace Spq.Drv
open Spq

def parseCall (s : String) : Caches.Call :=
  (s.splitOn ",").filterMap fun kv =>
    match kv.splitOn "=" with
    | [k, v] => some (k, parseInt v)
    | _ => none

def handleCa (args : List String) : Option String :=
  match args with
  | "prog" :: fn :: "|" :: rest =>
    match Gen.Caches.rows.find? (fun r => r.name == fn) with
    | none => some "unknown-cache"
    | some r =>
      let spec : Caches.Spec := { slotByM := r.slotByM, guard := r.guard, initArgs := r.initArgs }
      let calls := (rest.filter (· != ";")).map parseCall
      some (" ".intercalate ((Caches.rebuilds spec Caches.empty calls).map fun b => if b then "1" else "0"))
  | "nop" :: _ => some "nop"   -- oracle-only case: the tokens after `nop` describe it for the evidence file
  | _ => none
end Spq.Drv
