import Spq.CIR
import Spq.Drv.Util
import Gen.CSrc
/-
  driver family `cs`: run the term GENERATED from the C source (Gen/CSrc.lean) through the CIR interpreter.

    cs <fn> s_0 … s_{k-1} | ptr_0 … ptr_{m-1} | cells of buffer 0 | cells of buffer 1 | …
  answer:
    ok | cells of buffer 0 | cells of buffer 1 | …        (the whole final memory)
    ok = v | cells of buffer 0 | …                         (value-returning function: result, then the memory)
    err <fuel|oob|null|overlap|ub|unsupported>
    bad-op                                                 (unknown function / wrong number of arguments)

  s_i   : scalar arguments in decimal (values of the parameter types);
  ptr_j : `b:off` = cell `off` of buffer `b`, or `null`;
  cells : int64 cells in decimal, binary64 cells as the decimal value of the 64-bit pattern.
-/
namespace Spq.Drv
open Spq Spq.CIR

private def parsePtr (s : String) : Ptr :=
  match s.splitOn ":" with
  | [b, o] => some (parseNat b, parseNat o)
  | _ => none

/-- split at every "|" token -/
private partial def splitBars (xs : List String) : List (List String) :=
  let (a, rest) := splitBar xs
  if rest.isEmpty && !(xs.contains "|") then [a] else a :: splitBars rest

private def errName : Err → String
  | .fuel => "fuel" | .oob => "oob" | .null => "null" | .overlap => "overlap" | .ub => "ub"
  | .unsupported => "unsupported"

def handleCs (args : List String) : Option String :=
  match args with
  | fname :: rest =>
    match Gen.CSrc.all.find? (fun f => f.name == fname) with
    | none => none
    | some fn =>
      match splitBars rest with
      | sc :: ps :: bufs =>
        if sc.length != fn.scalars.length || ps.length != fn.ptrs.length then none
        else
          let mem : Mem := (bufs.map ints).toArray
          match run 1000000000000 fn (sc.map parseInt) (ps.map parsePtr) mem with
          | .ok m =>
            let tail := String.join (m.toList.map fun b => " | " ++ joinInts b)
            match fn.ret with
            | none => some ("ok" ++ tail)
            | some _ =>
              match runVal 1000000000000 fn (sc.map parseInt) (ps.map parsePtr) mem with
              | .ok (some v) => some ("ok = " ++ toString v ++ tail)
              | .ok none => some ("ok" ++ tail)
              | .err e => some ("err " ++ errName e)
          | .err e => some ("err " ++ errName e)
      | _ => none
  | _ => none

end Spq.Drv
