import Spq.Drv.Util
import Spq.Drv.Module
import Spq.ModuleHeap
/-
  driver family `mh` (heap-level model of the FFT64 module entry points, `Spq.ModuleHeap`).
     mh <op> nn fftFma ifftFma fromBnd50 toVar mulFma addmulFma vmpAvx <args…> | fftT | ifftT | arena
  (configuration as in family `md`; `arena` = every 64-bit cell of the arena as a decimal pattern; all
  pointer arguments are cell offsets into the arena, `tb` is the declared scratch size in BYTES)
     dft      res rsz a asz asl
     idft     res rsz adft asz                    (res = adft: in place)
     idfta    res rsz adft asz                    (vec_znx_idft_tmp_a)
     svpprep  ppol pol
     svpapply res rsz ppol a asz asl
     small    res a b tmp tb
     vmpprep  pmat mat nrows ncols tmp tb
     vmpdd    res rsz adft asz pmat nrows ncols tmp tb
     vmpapply res rsz a asz asl pmat nrows ncols tmp tb
  result:  <ok flag 0/1> followed by every arena cell OUTSIDE the scratch area [tmp, tmp + tb/8)
-/
namespace Spq.Drv
open Spq ModuleHeap

/-- the arena without the cells `[lo, lo + n)` -/
def dropRegion (mem : Array Nat) (lo n : Nat) : Array Nat :=
  mem.extract 0 lo ++ mem.extract (lo + n) mem.size

def mhOut (h : Heap Nat) (tmp tb : Nat) : String :=
  (if h.ok then "1 " else "0 ") ++ joinNats (dropRegion h.mem tmp (tb / 8))

def handleMh (args : List String) : Option String :=
  match splitBars args with
  | [hd, ft, it, arena] =>
    match hd with
    | op :: nn :: f1 :: f2 :: f3 :: tv :: f4 :: f5 :: f6 :: rest =>
      let b := fun (s : String) => s == "1"
      let cfg : Module.Cfg := {
        nn := parseNat nn, fftFma := b f1, ifftFma := b f2, fromBnd50 := b f3,
        toVariant := (match tv with | "1" => .bnd50 | "2" => .bnd63 | _ => .ref),
        mulFma := b f4, addmulFma := b f5, vmpAvx := b f6, fftT := nats ft, ifftT := nats it }
      let c := cfg.parts
      let cd := Cells.f64
      let h : Heap Nat := { mem := nats arena }
      match op, rest.map parseNat with
      | "dft", [res, rsz, a, asz, asl] => some (mhOut (vecDft c cd h res rsz a asz asl) 0 0)
      | "idft", [res, rsz, adft, asz] => some (mhOut (vecIdft c cd h res rsz adft asz) 0 0)
      | "idfta", [res, rsz, adft, asz] => some (mhOut (vecIdftTmpA c cd h res rsz adft asz) 0 0)
      | "svpprep", [ppol, pol] => some (mhOut (svpPrepare c cd h ppol pol) 0 0)
      | "svpapply", [res, rsz, ppol, a, asz, asl] => some (mhOut (svpApply c cd h res rsz ppol a asz asl) 0 0)
      | "small", [res, a, bb, tmp, tb] => some (mhOut (smallProduct c cd h res a bb tmp tb) tmp tb)
      | "vmpprep", [pmat, mat, nrows, ncols, tmp, tb] =>
        some (mhOut (vmpPrepare c cd h pmat mat nrows ncols tmp tb) tmp tb)
      | "vmpdd", [res, rsz, adft, asz, pmat, nrows, ncols, tmp, tb] =>
        some (mhOut (vmpApplyDftToDft c cd h res rsz adft asz pmat nrows ncols tmp tb) tmp tb)
      | "vmpapply", [res, rsz, a, asz, asl, pmat, nrows, ncols, tmp, tb] =>
        some (mhOut (vmpApplyDft c cd h res rsz a asz asl pmat nrows ncols tmp tb) tmp tb)
      | _, _ => none
    | _ => none
  | _ => none
end Spq.Drv
