import Spq.Drv.Module
import Spq.Prog
/-
  driver family `pg` (C16: straight-line API programs run with the binary64 module `Cfg.parts`):
     pg nn fftFma ifftFma fromBnd50 toVar mulFma addmulFma vmpAvx | fftT | ifftT | heap cells | ops | dump
  `ops`: calls separated by `;`, a coefficient-space variable is the triple `off size stride`, a `VEC_ZNX_DFT` variable
  the pair `id size`, a `VMP_PMAT` variable the triple `id nrows ncols`:
     add d a b ; sub d a b ; neg d a ; copy d a ; rot p d a ; aut p d a ; norm k d a ;
     dft D a ; svpp k a ; svp D k a ; vmpp M a ; vmp D a M ; vdd D A M ; idft d A ; small d a b
  `dump`: the `VEC_ZNX_DFT` variables (pairs `id size`) whose final content is printed.
  answer:  <ok:0|1> | final heap | patterns of dumped variable 1 | …
-/
namespace Spq.Drv
open Spq Spq.Prog

def splitTok (sep : String) (xs : List String) : List (List String) :=
  let rec go (cur : List String) (acc : List (List String)) : List String → List (List String)
    | [] => (cur.reverse :: acc).reverse
    | h :: t => if h == sep then go [] (cur.reverse :: acc) t else go (h :: cur) acc t
  go [] [] xs

def pgVar (a b c : String) : Var := ⟨parseNat a, parseNat b, parseNat c⟩
def pgD (a b : String) : DVar := ⟨parseNat a, parseNat b⟩
def pgM (a b c : String) : MVar := ⟨parseNat a, parseNat b, parseNat c⟩

def parseOpD : List String → Option OpD
  | ["add", d0, d1, d2, a0, a1, a2, b0, b1, b2] => some (.coeff (.add (pgVar d0 d1 d2) (pgVar a0 a1 a2) (pgVar b0 b1 b2)))
  | ["sub", d0, d1, d2, a0, a1, a2, b0, b1, b2] => some (.coeff (.sub (pgVar d0 d1 d2) (pgVar a0 a1 a2) (pgVar b0 b1 b2)))
  | ["neg", d0, d1, d2, a0, a1, a2] => some (.coeff (.negate (pgVar d0 d1 d2) (pgVar a0 a1 a2)))
  | ["copy", d0, d1, d2, a0, a1, a2] => some (.coeff (.copy (pgVar d0 d1 d2) (pgVar a0 a1 a2)))
  | ["rot", p, d0, d1, d2, a0, a1, a2] => some (.coeff (.rotate (parseInt p) (pgVar d0 d1 d2) (pgVar a0 a1 a2)))
  | ["aut", p, d0, d1, d2, a0, a1, a2] => some (.coeff (.automorphism (parseInt p) (pgVar d0 d1 d2) (pgVar a0 a1 a2)))
  | ["norm", k, d0, d1, d2, a0, a1, a2] => some (.coeff (.normalize (parseNat k) (pgVar d0 d1 d2) (pgVar a0 a1 a2)))
  | ["dft", i, sz, a0, a1, a2] => some (.dft (pgD i sz) (pgVar a0 a1 a2))
  | ["svpp", k, a0, a1, a2] => some (.svpPrepare (parseNat k) (pgVar a0 a1 a2))
  | ["svp", i, sz, k, a0, a1, a2] => some (.svp (pgD i sz) (parseNat k) (pgVar a0 a1 a2))
  | ["vmpp", m, nr, nc, a0, a1, a2] => some (.vmpPrepare (pgM m nr nc) (pgVar a0 a1 a2))
  | ["vmp", i, sz, a0, a1, a2, m, nr, nc] => some (.vmp (pgD i sz) (pgVar a0 a1 a2) (pgM m nr nc))
  | ["vdd", i, sz, j, asz, m, nr, nc] => some (.vmpDD (pgD i sz) (pgD j asz) (pgM m nr nc))
  | ["idft", d0, d1, d2, j, asz] => some (.idft (pgVar d0 d1 d2) (pgD j asz))
  | ["small", d0, d1, d2, a0, a1, a2, b0, b1, b2] =>
      some (.smallProduct (pgVar d0 d1 d2) (pgVar a0 a1 a2) (pgVar b0 b1 b2))
  | _ => none

def parseProg (toks : List String) : Option (List OpD) :=
  ((splitTok ";" toks).filter (· != [])).mapM parseOpD

def pairs : List String → List DVar
  | a :: b :: t => pgD a b :: pairs t
  | _ => []

def handlePg (args : List String) : Option String :=
  match splitBars args with
  | [hd, ft, it, heap, ops, dump] =>
    match hd with
    | [nn, f1, f2, f3, tv, f4, f5, f6] =>
      let b := fun (s : String) => s == "1"
      let cfg : Module.Cfg := {
        nn := parseNat nn, fftFma := b f1, ifftFma := b f2, fromBnd50 := b f3,
        toVariant := (match tv with | "1" => .bnd50 | "2" => .bnd63 | _ => .ref),
        mulFma := b f4, addmulFma := b f5, vmpAvx := b f6, fftT := nats ft, ifftT := nats it }
      match parseProg ops with
      | none => none
      | some prog =>
        let s0 : CState Nat := ⟨⟨ints heap, true⟩, fun _ => #[], fun _ => #[], fun _ => #[]⟩
        let sf := run (cstepD cfg.parts cfg.nn) prog s0
        let dv := (pairs dump).map fun d => " | " ++ joinNats (sf.dvec d)
        some ((if sf.heap.ok then "1" else "0") ++ " | " ++ joinInts sf.heap.mem ++ String.join dv)
    | _ => none
  | _ => none

end Spq.Drv
