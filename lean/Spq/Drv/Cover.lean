import Spq.Drv.Util
import Spq.Drv.Module
import Spq.Cover
/-
  driver family `cv` (kernels covered by `Spq/Cover.lean`; binary64 as 64-bit patterns, `k=v` parameters):

    cv init32 <znx|tnx|totnx> avx2=<0|1> m= lb= div=                 -> error | ref | avx
         (lb = log2bound for znx, log2overhead for totnx; div = pattern of the divisor, totnx only)
    cv kern32 <znx|tnx|totnx> <ref|avx|api|simple> avx2= m= lb= div= | x…  -> abort | error | values
         (the six kernels are NOT_IMPLEMENTED() stubs: the answer is always "abort")
    cv divm <ref|avx> n m alias doff | res… | a…                      -> abort | the whole res buffer
         (alias = 1: the C call is made in place, `a == res + doff`)
    cv cadd|csub2 fma m doff | r… | a… | b…                           -> the whole r buffer
    cv ccopy fma m doff | r… | a…                                     -> the whole r buffer
    cv twiddle <fma|avx512> m doffa doffb | a… | b… | om(4)           -> a buffer | b buffer
    cv bitwiddle <fma|avx512> m slicea doff | a… | om(4)              -> the whole a buffer
    cv twref ref h doff | data… | om(2)                               -> the whole data buffer
    cv bitwref ref h doff | data… | om(4)                             -> the whole data buffer
    cv revbits nbits value | cv ceilto <32|64> size | cv modn nn | cv rangetmp nn     -> one integer
    cv stub <UNDEFINED_…|NOT_IMPLEMENTED_…>                           -> abort

  The C function receives `buf + doff`; the first `doff` cells are a canary zone in front of the pointer.
-/
namespace Spq.Drv
open Spq Spq.Cover

private def kvv (s : String) : Nat := parseNat ((s.splitOn "=").getLastD "")

private def selStr : Option Sel32 → String
  | none => "error"
  | some .ref => "ref"
  | some .avx => "avx"

private def outNats : Option (Array Nat) → String
  | none => "abort"
  | some a => joinNats a
private def outInts : Option (Array Int) → String
  | none => "abort"
  | some a => joinInts a

/-- run `f` on the part of `buf` behind the canary zone of `doff` cells -/
private def onWindow (buf : Array Nat) (doff : Nat) (f : Array Nat → Array Nat) : Array Nat :=
  buf.extract 0 doff ++ f (buf.extract doff buf.size)

def handleCv (args : List String) : Option String :=
  let parts := splitBars args
  let hd := parts.headD []
  let buf (i : Nat) : Array Nat := nats (parts.getD (i + 1) [])
  let ar := F64.arith
  match hd with
  | ["init32", kind, avx2, m, lb, d] =>
    let avx2 := kvv avx2 == 1; let m := kvv m; let lb := kvv lb; let d := kvv d
    match kind with
    | "znx" => some (selStr (initReimFromZnx32 m lb avx2))
    | "tnx" => some (selStr (initReimFromTnx32 m avx2))
    | "totnx" => some (selStr (initReimToTnx32 m d lb avx2))
    | _ => none
  | ["kern32", kind, how, avx2, m, lb, d] =>
    let avx2 := kvv avx2 == 1; let m := kvv m; let lb := kvv lb; let d := kvv d
    let xi := ints (parts.getD 1 [])
    let xn := buf 0
    match kind, how with
    | "znx", "ref" => some (outNats (reimFromZnx32Ref m xi))
    | "znx", "avx" => some (outNats (reimFromZnx32Avx m xi))
    | "znx", "api" => some (match initReimFromZnx32 m lb avx2 with
        | none => "error" | some s => outNats (reimFromZnx32 s m xi))
    | "znx", "simple" => some (outNats (reimFromZnx32Simple m lb avx2 xi))
    | "tnx", "ref" => some (outNats (reimFromTnx32Ref m xi))
    | "tnx", "avx" => some (outNats (reimFromTnx32Avx m xi))
    | "tnx", "api" => some (match initReimFromTnx32 m avx2 with
        | none => "error" | some s => outNats (reimFromTnx32 s m xi))
    | "tnx", "simple" => some (outNats (reimFromTnx32Simple m avx2 xi))
    | "totnx", "ref" => some (outInts (reimToTnx32Ref m d xn))
    | "totnx", "avx" => some (outInts (reimToTnx32Avx m d xn))
    | "totnx", "api" => some (match initReimToTnx32 m d lb avx2 with
        | none => "error" | some s => outInts (reimToTnx32 s m d xn))
    | "totnx", "simple" => some (outInts (reimToTnx32Simple m d lb avx2 xn))
    | _, _ => none
  | ["divm", variant, n, m, alias, doff] =>
    let n := parseNat n; let m := parseNat m; let doff := parseNat doff
    let full := buf 0
    let res := full.extract doff full.size
    let a := if parseNat alias == 1 then res else buf 1
    match variant with
    | "ref" => some (joinNats (full.extract 0 doff ++ rnxDivideByMRef n m res a))
    | "avx" => some (match rnxDivideByMAvx n m res a with
        | none => "abort" | some r => joinNats (full.extract 0 doff ++ r))
    | _ => none
  | ["cadd", "fma", m, doff] =>
    some (joinNats (onWindow (buf 0) (parseNat doff) fun r => cplxFftvecAddFma ar (parseNat m) r (buf 1) (buf 2)))
  | ["csub2", "fma", m, doff] =>
    some (joinNats (onWindow (buf 0) (parseNat doff) fun r => cplxFftvecSub2ToFma ar (parseNat m) r (buf 1) (buf 2)))
  | ["ccopy", "fma", m, doff] =>
    some (joinNats (onWindow (buf 0) (parseNat doff) fun r => cplxFftvecCopyFma ar (parseNat m) r (buf 1)))
  | ["twiddle", variant, m, doffa, doffb] =>
    let m := parseNat m; let da := parseNat doffa; let db := parseNat doffb
    let fa := buf 0; let fb := buf 1
    let a := fa.extract da fa.size; let b := fb.extract db fb.size
    let res : Option (Array Nat × Array Nat) :=
      match variant with
      | "fma" => some (cplxFftvecTwiddleFma ar m a b (buf 2))
      | "avx512" => some (cplxFftvecTwiddleAvx512 ar m a b (buf 2))
      | _ => none
    res.map fun r => joinNats (fa.extract 0 da ++ r.1) ++ " | " ++ joinNats (fb.extract 0 db ++ r.2)
  | ["bitwiddle", variant, m, slicea, doff] =>
    let m := parseNat m; let sl := parseNat slicea
    match variant with
    | "fma" => some (joinNats (onWindow (buf 0) (parseNat doff) fun a => cplxFftvecBitwiddleFma ar m sl a (buf 1)))
    | "avx512" => some (joinNats (onWindow (buf 0) (parseNat doff) fun a => cplxFftvecBitwiddleAvx512 ar m sl a (buf 1)))
    | _ => none
  | ["twref", "ref", h, doff] =>
    some (joinNats (onWindow (buf 0) (parseNat doff) fun d => cplxTwiddleFftRef ar (parseNat h) d (buf 1)))
  | ["bitwref", "ref", h, doff] =>
    some (joinNats (onWindow (buf 0) (parseNat doff) fun d => cplxBitwiddleFftRef F64c.arith (parseNat h) d (buf 1)))
  | ["revbits", nbits, value] => some (toString (revbits (parseNat nbits) (parseNat value)))
  | ["ceilto", "32", size] => some (toString (ceilto32b (parseNat size)))
  | ["ceilto", "64", size] => some (toString (ceilto64b (parseNat size)))
  | ["modn", nn] => some (toString (moduleGetN (parseNat nn)))
  | ["rangetmp", nn] => some (toString (rangeNormalizeTmpBytes (parseNat nn)))
  | ["stub", name] => (callPlaceholder name).map fun r => match r with | none => "abort" | some _ => "returned"
  | _ => none

end Spq.Drv
