import Spq.Q120Ntt
import Spq.Drv.Util
/-
  driver family `qn` (q120 NTT / iNTT):
    qn ntt    <k> <dir> <q0..q3> <w0..w3> <h> <mask> <c0..c3> <nl> {bs half mask reduce q2bs0..3}*nl | lane words (4n, interleaved)
    qn tables <k> <dir> <q0..q3> <w0..w3> <h> <mask> <c0..c3> <nl> {…}*nl
  dir: 0 = forward (q120_ntt_bb_avx2), 1 = inverse (q120_intt_bb_avx2); n = 2^k.
  The per-level metadata and the reduction metadata are the ones read from the real precomp object.
    qn stages <head as ntt> | lane words        (answer: per stage of the plain schedule, the maximum of each lane)
  answer of `ntt`: the 4n raw output words; answer of `tables`: the used prefix of powomega (4 lanes interleaved).
-/
namespace Spq.Drv
open Spq Spq.Q120Ntt

/-- lane `j` of an interleaved vector -/
def lane (v : Array Nat) (j : Nat) : Array Nat :=
  Array.ofFn (n := v.size / 4) fun i => v.getD (4 * i.val + j) 0

def interleave (ls : Array (Array Nat)) : Array Nat :=
  let n := (ls.getD 0 #[]).size
  Array.ofFn (n := 4 * n) fun i => (ls.getD (i.val % 4) #[]).getD (i.val / 4) 0

structure QnHead where
  k : Nat
  dir : Nat
  q : Array Nat
  w : Array Nat
  red : Array Nat      -- h mask c0..c3
  lv : Array Nat       -- 8 per level

def parseHead (hd : Array Nat) : Option QnHead :=
  if hd.size < 17 then none else
  let nl := hd.getD 16 0
  if hd.size != 17 + 8 * nl then none else
  some { k := hd.getD 0 0, dir := hd.getD 1 0, q := hd.extract 2 6, w := hd.extract 6 10,
         red := hd.extract 10 16, lv := hd.extract 17 (17 + 8 * nl) }

def QnHead.levels (H : QnHead) (j : Nat) : Array Level :=
  Array.ofFn (n := H.lv.size / 8) fun l =>
    let b := 8 * l.val
    { bs := H.lv.getD b 0, h := H.lv.getD (b+1) 0, mask := H.lv.getD (b+2) 0, reduce := H.lv.getD (b+3) 0 != 0,
      q2bs := H.lv.getD (b+4+j) 0 }

def QnHead.reduc (H : QnHead) (j : Nat) : Reduc :=
  { h := H.red.getD 0 0, mask := H.red.getD 1 0, cst := H.red.getD (2+j) 0 }

def QnHead.table (H : QnHead) (j : Nat) : Array Nat :=
  if H.k = 0 then #[] else
  if H.dir = 0 then tableFwd (H.q.getD j 0) (H.w.getD j 0) H.k (H.levels j)
  else tableInv (H.q.getD j 0) (H.w.getD j 0) H.k (H.levels j)

def handleQn (args : List String) : Option String :=
  match args with
  | op :: rest =>
    let (hd, payload) := splitBar rest
    match parseHead (nats hd) with
    | none => none
    | some H =>
      match op with
      | "ntt" =>
        let v := (nats payload).map (· % W64)
        let out := (Array.range 4).map fun j =>
          let x := lane v j
          if H.dir = 0 then nttLane H.k (H.levels j) (H.reduc j) (H.table j) x
          else inttLane H.k (H.levels j) (H.reduc j) (H.table j) x
        some (joinNats (interleave out))
      | "stages" =>
        -- per stage, the maximum of each lane: m(stage0,lane0..3) m(stage1,lane0..3) …
        let v := (nats payload).map (· % W64)
        let per := (List.range 4).map fun j =>
          let x := lane v j
          if H.dir = 0 then nttStageMax H.k (H.levels j) (H.reduc j) (H.table j) x
          else inttStageMax H.k (H.levels j) (H.reduc j) (H.table j) x
        let ns := (per.getD 0 []).length
        let out := (List.range ns).flatMap fun st => per.map fun l => l.getD st 0
        some (joinNats out.toArray)
      | "tables" =>
        some (joinNats (interleave ((Array.range 4).map fun j => H.table j)))
      | _ => none
  | _ => none

end Spq.Drv
