/- line-protocol helpers shared by the driver families (core Lean only) -/
namespace Spq.Drv

def parseInt (s : String) : Int := s.toInt?.getD 0
def parseNat (s : String) : Nat := s.toNat?.getD 0

def ints (l : List String) : Array Int := (l.map parseInt).toArray
def nats (l : List String) : Array Nat := (l.map parseNat).toArray

def joinInts (a : Array Int) : String := " ".intercalate (a.toList.map toString)
def joinNats (a : Array Nat) : String := " ".intercalate (a.toList.map toString)

/-- split `xs` at the first "|" token -/
def splitBar (xs : List String) : List String × List String :=
  let a := xs.takeWhile (· != "|")
  (a, (xs.dropWhile (· != "|")).drop 1)

end Spq.Drv
