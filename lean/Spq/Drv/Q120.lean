import Spq.Q120
import Spq.Drv.Util
/-
  driver family `q1` (q120 arithmetic).  Stateless: the constants the real code used (read by the
  harness from the library headers / live precomp objects) are on every op line.

  products (answer: the raw output lanes, 4 / 8 / 16 uint64):
    q1 baa    <ref|avx2> ell h hpow[4]                                  | x (4·ell lanes)  | y (4·ell lanes)
    q1 bbb    <ref|avx2> ell h s1h[4] s2l[4] s2h[4] s3l[4] s3h[4] s4l[4] s4h[4] | x | y
    q1 bbc    <ref|avx2> ell h s2l[4] s2h[4]                            | x (4·ell)        | y (4·ell lanes = layout c as uint64)
    q1 x2bbc1 <ref|avx2> ell h s2l[4] s2h[4]                            | x (8·ell)        | y (8·ell)
    q1 x2bbc2 <ref|avx2> ell h s2l[4] s2h[4]                            | x (8·ell)        | y (16·ell)
  block copies:
    q1 extract  nn blk        | src                -> 8 lanes
    q1 extractc nn nrows blk  | src                -> 8·nrows lanes
    q1 save     nn blk        | dest | src(8)      -> whole dest
  conversions (layout c printed as uint32 words, 8 per element):
    q1 addbbb    nn q[4]        | x | y
    q1 addccc    nn q[4]        | x | y
    q1 cfromb    nn q[4]        | x
    q1 bfromznx  nn q[4]        | int64…
    q1 cfromznx  nn q[4]        | int64…
    q1 btoznx128 nn q[4] crt[4] | x                -> nn signed decimal integers
-/
namespace Spq.Drv
open Spq Spq.Q120

private def tab4 (a : Array Nat) (off : Nat) : Nat → Nat := fun k => a.getD (off + k) 0

private def prod (op v : String) (a : Array Nat) (x y : Array Nat) : Option String :=
  let ell := a.getD 0 0
  let h := a.getD 1 0
  let baa : BaaPrecomp := { h := h, hpow := tab4 a 2 }
  let bbb : BbbPrecomp := { h := h, s1h := tab4 a 2, s2l := tab4 a 6, s2h := tab4 a 10,
                            s3l := tab4 a 14, s3h := tab4 a 18, s4l := tab4 a 22, s4h := tab4 a 26 }
  let bbc : BbcPrecomp := { h := h, s2l := tab4 a 2, s2h := tab4 a 6 }
  match op, v with
  | "baa", "ref" => some (joinNats (baaRef baa ell x y))
  | "baa", "avx2" => some (joinNats (baaAvx baa ell x y))
  | "bbb", "ref" => some (joinNats (bbbRef bbb ell x y))
  | "bbb", "avx2" => some (joinNats (bbbAvx bbb ell x y))
  | "bbc", "ref" => some (joinNats (bbcRef bbc ell x y))
  | "bbc", "avx2" => some (joinNats (bbcAvx bbc ell x y))
  | "x2bbc1", "ref" => some (joinNats (x2Col1Ref bbc ell x y))
  | "x2bbc1", "avx2" => some (joinNats (x2Col1Avx bbc ell x y))
  | "x2bbc2", "ref" => some (joinNats (x2Col2Ref bbc ell x y))
  | "x2bbc2", "avx2" => some (joinNats (x2Col2Avx bbc ell x y))
  | _, _ => none

def handleQ1 (args : List String) : Option String :=
  let (hd, rest) := splitBar args
  let (c1, c2) := splitBar rest
  match hd with
  | [] => none
  | op :: ps =>
    if op == "baa" || op == "bbb" || op == "bbc" || op == "x2bbc1" || op == "x2bbc2" then
      match ps with
      | v :: nums => prod op v (nats nums) (nats c1) (nats c2)
      | [] => none
    else
      let a := nats ps
      let nn := a.getD 0 0
      let p : Q120Params := { q := tab4 a 1, crt := tab4 a 5 }
      match op with
      | "extract" => some (joinNats (extract1blk nn (a.getD 1 0) (nats c1)))
      | "extractc" => some (joinNats (extractContiguous nn (a.getD 1 0) (a.getD 2 0) (nats c1)))
      | "save" => some (joinNats (save1blk nn (a.getD 1 0) (nats c1) (nats c2)))
      | "addbbb" => some (joinNats (addBbb p nn (nats c1) (nats c2)))
      | "addccc" => some (joinNats (addCcc p nn (nats c1) (nats c2)))
      | "cfromb" => some (joinNats (cFromB p nn (nats c1)))
      | "bfromznx" => some (joinNats (bFromZnx64 p nn (ints c1)))
      | "cfromznx" => some (joinNats (cFromZnx64 p nn (ints c1)))
      | "btoznx128" => some (joinInts (bToZnx128Vec p nn (nats c1)))
      | _ => none

end Spq.Drv
