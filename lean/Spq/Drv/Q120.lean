import Spq.Drv.Util
/- driver family stub (filled in by the owner of this family) -/
namespace Spq.Drv
def handleQ1 (_args : List String) : Option String := none
end Spq.Drv
