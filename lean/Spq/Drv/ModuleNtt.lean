import Spq.ModuleNtt
import Spq.Drv.Util
/-
  driver family `mn` (module-level NTT120 transforms, `Spq/ModuleNtt.lean`).  Stateless: every op line carries the
  constants and the metadata of the two live precomp objects of the module (`mod.q120.p_ntt`, `mod.q120.p_intt`);
  the twiddle tables are rebuilt by the model (`tableFwd` / `tableInv`, the tables the `qn_tables` stream compares
  with the real ones).

    mn <op> <p0> <p1> <p2> <k> <q0..q3> <w0..w3> <crt0..crt3> <PRE fwd> <PRE inv> | payload
      PRE = <h> <mask> <c0..c3> <nl> {bs half mask reduce q2bs0..3}*nl          (nl = 0 for k = 0)

    mn dft   res_size a_size a_sl … | int64 coefficients of a          -> the 4·nn·res_size cells of res
    mn idft  res_size a_size 0    … | cells of a_dft                   -> the nn·res_size 128-bit coefficients of res
    mn idfta res_size a_size 0    … | cells of a_dft                   -> coefficients of res " | " cells of a_dft after
    mn idfti res_size a_size 0    … | cells of the shared buffer       -> cells of the shared buffer after
-/
namespace Spq.Drv
open Spq Spq.Q120 Spq.Q120Ntt Spq.ModuleNtt

/-- one `PRE` block starting at `off`: (lane ↦ levels, lane ↦ reduc, next offset) -/
private def parsePre (hd : Array Nat) (off : Nat) : (Nat → Array Level) × (Nat → Reduc) × Nat :=
  let nl := hd.getD (off + 6) 0
  let b0 := off + 7
  (fun j => Array.ofFn (n := nl) fun l =>
      let b := b0 + 8 * l.val
      { bs := hd.getD b 0, h := hd.getD (b+1) 0, mask := hd.getD (b+2) 0, reduce := hd.getD (b+3) 0 != 0,
        q2bs := hd.getD (b+4+j) 0 },
   fun j => { h := hd.getD off 0, mask := hd.getD (off+1) 0, cst := hd.getD (off+2+j) 0 },
   b0 + 8 * nl)

/-- the module description of an op line (tables built once per line) -/
def parseMn (hd : Array Nat) : Option ModPre :=
  if hd.size < 30 then none else
  let k := hd.getD 3 0
  let q := fun j => hd.getD (4 + j) 0
  let w := fun j => hd.getD (8 + j) 0
  let crt := fun j => hd.getD (12 + j) 0
  let (lvF, rdF, o1) := parsePre hd 16
  let (lvI, rdI, o2) := parsePre hd o1
  if hd.size != o2 then none else
  let fwd : Array LanePre := (Array.range 4).map fun j =>
    { levels := lvF j, R := rdF j, tbl := if k = 0 then #[] else tableFwd (q j) (w j) k (lvF j) }
  let inv : Array LanePre := (Array.range 4).map fun j =>
    { levels := lvI j, R := rdI j, tbl := if k = 0 then #[] else tableInv (q j) (w j) k (lvI j) }
  some { k := k, P := { q := q, crt := crt }, fwd := fun j => fwd.getD j default, inv := fun j => inv.getD j default }

def handleMn (args : List String) : Option String :=
  match args with
  | op :: rest =>
    let (hds, payload) := splitBar rest
    let hd := nats hds
    match parseMn hd with
    | none => none
    | some M =>
      let p0 := hd.getD 0 0
      let p1 := hd.getD 1 0
      let p2 := hd.getD 2 0
      match op with
      | "dft" => some (joinNats (vecDft M p0 (ints payload) p1 p2))
      | "idft" => some (joinInts (vecIdft M p0 ((nats payload).map (· % 18446744073709551616)) p1))
      | "idfta" =>
        let r := vecIdftTmpA M p0 ((nats payload).map (· % 18446744073709551616)) p1
        some (joinInts r.1 ++ " | " ++ joinNats r.2)
      | "idfti" => some (joinNats (vecIdftInplace M p0 p1 ((nats payload).map (· % 18446744073709551616))))
      | _ => none
  | _ => none

end Spq.Drv
