import Spq.Drv.Util
import Spq.Module
/-
  driver family `md` (module-level FFT64 pipelines).  Every line starts with the configuration
     md <op> nn fftFma ifftFma fromBnd50 toVar mulFma addmulFma vmpAvx <shape…> | fftT | ifftT | payload…
  (flags 0/1; toVar 0 ref, 1 bnd50, 2 bnd63; tables and DFT-space values are decimal 64-bit patterns)
     small                         | a | b                 ->  product ints
     svp   rsz asz asl             | pol | a               ->  dft patterns | ints after idft
     dft   rsz asz asl             | a                     ->  dft patterns
     vmp   nrows ncols asz asl rsz | mat | a               ->  pmat patterns | apply_dft patterns | ints after idft
-/
namespace Spq.Drv
open Spq

def splitBars (xs : List String) : List (List String) :=
  let rec go (cur : List String) (acc : List (List String)) : List String → List (List String)
    | [] => (cur.reverse :: acc).reverse
    | "|" :: t => go [] (cur.reverse :: acc) t
    | h :: t => go (h :: cur) acc t
  go [] [] xs

def handleMd (args : List String) : Option String :=
  match splitBars args with
  | hd :: ft :: it :: payload =>
    match hd with
    | op :: nn :: f1 :: f2 :: f3 :: tv :: f4 :: f5 :: f6 :: shape =>
      let b := fun (s : String) => s == "1"
      let cfg : Module.Cfg := {
        nn := parseNat nn, fftFma := b f1, ifftFma := b f2, fromBnd50 := b f3,
        toVariant := (match tv with | "1" => .bnd50 | "2" => .bnd63 | _ => .ref),
        mulFma := b f4, addmulFma := b f5, vmpAvx := b f6, fftT := nats ft, ifftT := nats it }
      let c := cfg.parts
      let sh := shape.map parseNat
      match op, sh, payload with
      | "small", _, [a, bb] => some (joinInts (Module.smallProduct c (ints a) (ints bb)))
      | "svp", [rsz, asz, asl], [pol, a] =>
        let d := Module.svpApply c rsz (Module.svpPrepare c (ints pol)) (ints a) asz asl
        some (joinNats d ++ " | " ++ joinInts (Module.vecIdft c rsz d rsz))
      | "dft", [rsz, asz, asl], [a] => some (joinNats (Module.vecDft c rsz (ints a) asz asl))
      | "vmp", [nrows, ncols, asz, asl, rsz], [mat, a] =>
        let pm := Module.vmpPrepare c (ints mat) nrows ncols
        let r := Module.vmpApplyDft c rsz (ints a) asz asl pm nrows ncols
        some (joinNats pm ++ " | " ++ joinNats r ++ " | " ++ joinInts (Module.vecIdft c rsz r rsz))
      | _, _, _ => none
    | _ => none
  | _ => none
end Spq.Drv
