import Spq.Drv.ModuleHeap
import Spq.ModSem
import Gen.CSrc
/-
  driver family `mhs`: the SAME op lines as family `mh` (see Spq/Drv/ModuleHeap.lean), answered by running the term
  GENERATED from the C source of the FFT64 module entry point (Gen/CSrc.lean) through the CIR interpreter, the
  arithmetic kernels being the opaque calls interpreted by `Spq.Src.modSem` (the kernel calls of `Spq.ModuleHeap` on
  the arena = buffer 0).  `module->nn`, `module->m` are passed as the scalars `c.nn`, `c.m`; `tb` is not an argument
  of the C functions (it only selects the scratch cells left out of the answer).
  result:  1 followed by every arena cell outside the scratch area   |   err <name>
-/
namespace Spq.Drv
open Spq Spq.CIR ModuleHeap

/-- cells as non-negative integers (64-bit patterns); int64 in two's complement -/
def cellsInt : Cells Int Nat :=
  { dflt := 0, enc := fun x => (x : Int), dec := Int.toNat, encI := fun z => ((toU z : Nat) : Int),
    decI := fun c => toS c.toNat }

private def errNameM : Err → String
  | .fuel => "fuel" | .oob => "oob" | .null => "null" | .overlap => "overlap" | .ub => "ub"
  | .unsupported => "unsupported"

def mhsRun (c : Module.Parts Nat) (nrows : Nat) (fname : String) (sc : List Nat) (ps : List Nat) (lastNull : Bool)
    (arena : Array Nat) (tmp tb : Nat) : Option String :=
  match Gen.CSrc.all.find? (fun f => f.name == fname) with
  | none => none
  | some fn =>
    let ptrs : List Ptr := ps.map (fun o => some (0, o)) ++ (if lastNull then [none] else [])
    let mem : Mem := #[arena.map fun (x : Nat) => (x : Int)]
    match runK (Spq.Src.modSem c cellsInt 0 nrows) 1000000000000 fn (sc.map fun (x : Nat) => (x : Int)) ptrs mem with
    | .ok m => some ("1 " ++ joinNats (dropRegion ((m.getD 0 #[]).map Int.toNat) tmp (tb / 8)))
    | .err e => some ("err " ++ errNameM e)

def handleMhs (args : List String) : Option String :=
  match splitBars args with
  | [hd, ft, it, arena] =>
    match hd with
    | op :: nn :: f1 :: f2 :: f3 :: tv :: f4 :: f5 :: f6 :: rest =>
      let b := fun (s : String) => s == "1"
      let cfg : Module.Cfg := {
        nn := parseNat nn, fftFma := b f1, ifftFma := b f2, fromBnd50 := b f3,
        toVariant := (match tv with | "1" => .bnd50 | "2" => .bnd63 | _ => .ref),
        mulFma := b f4, addmulFma := b f5, vmpAvx := b f6, fftT := nats ft, ifftT := nats it }
      let c := cfg.parts
      let A := nats arena
      match op, rest.map parseNat with
      | "dft", [res, rsz, a, asz, asl] => mhsRun c 0 "fft64_vec_znx_dft" [c.nn, rsz, asz, asl] [res, a] false A 0 0
      | "idft", [res, rsz, adft, asz] => mhsRun c 0 "fft64_vec_znx_idft" [c.nn, rsz, asz] [res, adft] true A 0 0
      | "idfta", [res, rsz, adft, asz] => mhsRun c 0 "fft64_vec_znx_idft_tmp_a" [c.nn, rsz, asz] [res, adft] false A 0 0
      | "svpprep", [ppol, pol] => mhsRun c 0 "fft64_svp_prepare_ref" [c.nn] [ppol, pol] false A 0 0
      | "svpapply", [res, rsz, ppol, a, asz, asl] =>
        mhsRun c 0 "fft64_svp_apply_dft_ref" [c.nn, rsz, asz, asl] [res, ppol, a] false A 0 0
      | "small", [res, a, bb, tmp, tb] =>
        mhsRun c 0 "fft64_znx_small_single_product" [c.nn] [res, a, bb, tmp] false A tmp tb
      | "vmpprep", [pmat, mat, nrows, ncols, tmp, tb] =>
        mhsRun c nrows "fft64_vmp_prepare_contiguous_ref" [c.nn, c.m, nrows, ncols] [pmat, mat, tmp] false A tmp tb
      | "vmpdd", [res, rsz, adft, asz, pmat, nrows, ncols, tmp, tb] =>
        mhsRun c nrows "fft64_vmp_apply_dft_to_dft_ref" [c.nn, c.m, rsz, asz, nrows, ncols] [res, adft, pmat, tmp] false A tmp tb
      | "vmpapply", [res, rsz, a, asz, asl, pmat, nrows, ncols, tmp, tb] =>
        mhsRun c nrows "fft64_vmp_apply_dft_ref" [c.nn, c.m, rsz, asz, asl, nrows, ncols] [res, a, pmat, tmp] false A tmp tb
      | _, _ => none
    | _ => none
  | _ => none
end Spq.Drv
