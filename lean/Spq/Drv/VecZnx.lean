import Spq.VecZnx
import Spq.F64
import Spq.Drv.Util
/-
  driver family `vz`:
    vz <op> nn p k res rsz rsl a asz asl b bsz bsl | cell_0 … cell_{S-1}
  answer:  <ok:0|1> cell_0 … cell_{S-1}
  ops `big_normalize` (asl ignored) and `range_normalize` (a = base of the big vector, asz = begin,
  asl = end, b = step; bsz, bsl ignored) reuse the same argument slots.
  family `kz` (single-polynomial kernels, int64):
    kz <op> nn p k | in_0 … in_{nn-1} [| second operand]
-/
namespace Spq.Drv
open Spq

def handleVz (args : List String) : Option String :=
  let (hd, cells) := splitBar args
  match hd with
  | [op, nn, p, k, res, rsz, rsl, a, asz, asl, b, bsz, bsl] =>
    let nn := parseNat nn; let p := parseInt p; let k := parseNat k
    let res := parseNat res; let rsz := parseNat rsz; let rsl := parseNat rsl
    let a := parseNat a; let asz := parseNat asz; let asl := parseNat asl
    let b := parseNat b; let bsz := parseNat bsz; let bsl := parseNat bsl
    let h : Heap Int := { mem := ints cells, ok := true }
    let o := i64Ops
    let r : Option (Heap Int) :=
      match op with
      | "zero" => some (VecZnx.zero o nn h res rsz rsl)
      | "copy" => some (VecZnx.copy o nn h res rsz rsl a asz asl)
      | "negate" => some (VecZnx.negate o nn h res rsz rsl a asz asl)
      | "add" => some (VecZnx.add o nn h res rsz rsl a asz asl b bsz bsl)
      | "sub" => some (VecZnx.sub o nn h res rsz rsl a asz asl b bsz bsl)
      | "rotate" => some (VecZnx.rotate o nn p h res rsz rsl a asz asl)
      | "automorphism" => some (VecZnx.automorphism o nn p h res rsz rsl a asz asl)
      | "normalize" => some (VecZnx.normalize nn k h res rsz rsl a asz asl)
      -- big variant: `asl` is ignored (the stride of a VEC_ZNX_BIG is nn)
      | "big_normalize" => some (VecZnx.bigNormalize nn k h res rsz rsl a asz)
      -- range variant: a = base of the big vector, asz = range begin, asl = range end, b = range step
      | "range_normalize" => some (VecZnx.bigRangeNormalize nn k h res rsz rsl a asz asl b)
      | _ => none
    r.map fun h' => (if h'.ok then "1 " else "0 ") ++ joinInts h'.mem
  | _ => none

def handleKz (args : List String) : Option String :=
  let (hd, rest) := splitBar args
  let (c1, c2) := splitBar rest
  match hd with
  | [op, nn, p, k] =>
    let nn := parseNat nn; let p := parseInt p; let k := parseNat k
    let x := if c1 == ["@probe"] then Array.ofFn (n := nn) (fun i => ((i.val + 1 : Nat) : Int)) else ints c1
    let y := ints c2
    let o := i64Ops
    match op with
    | "add" => some (joinInts (Coeffs.add o nn x y))
    | "sub" => some (joinInts (Coeffs.sub o nn x y))
    | "negate" => some (joinInts (Coeffs.negate o nn x))
    | "rotate" => some (joinInts (Coeffs.rotate o nn p x))
    | "rotate_inplace" => some (joinInts (Coeffs.rotateInplace o nn p x))
    | "mulxp" => some (joinInts (Coeffs.mulXpMinusOne o nn p x))
    | "mulxp_inplace" => some (joinInts (Coeffs.mulXpMinusOneInplace o nn p x))
    | "autom" => some (joinInts (Coeffs.automorphism o nn p x y))
    | "autom_inplace" => some (joinInts (Coeffs.automorphismInplace o nn p x))
    | "norm" =>  -- c2 empty = no carry in;  answer: out | cout
      let r := Coeffs.znxNormalize nn k x (if c2.isEmpty then none else some y)
      some (joinInts r.1 ++ " | " ++ joinInts r.2)
    | _ => none
  | _ => none

/-- family `kf`: the double-precision (rnx_*) kernels on binary64 bit patterns:  kf <op> nn p | in… [| res0…] -/
def handleKf (args : List String) : Option String :=
  let (hd, rest) := splitBar args
  let (c1, c2) := splitBar rest
  match hd with
  | [op, nn, p] =>
    let nn := parseNat nn; let p := parseInt p
    let x := nats c1; let y := nats c2
    let o := F64.ops
    match op with
    | "rotate" => some (joinNats (Coeffs.rotate o nn p x))
    | "rotate_inplace" => some (joinNats (Coeffs.rotateInplace o nn p x))
    | "mulxp" => some (joinNats (Coeffs.mulXpMinusOne o nn p x))
    | "mulxp_inplace" => some (joinNats (Coeffs.mulXpMinusOneInplace o nn p x))
    | "autom" => some (joinNats (Coeffs.automorphism o nn p x y))
    | "autom_inplace" => some (joinNats (Coeffs.automorphismInplace o nn p x))
    | _ => none
  | _ => none

end Spq.Drv
