/-
  Model of the module-level NTT120 transforms (spqlios/arithmetic/vec_znx_dft.c):

      ntt120_vec_znx_dft_avx         int64 limbs  -> q120b residues -> q120_ntt_bb_avx2       (VEC_ZNX_DFT)
      ntt120_vec_znx_idft_avx        memcpy to tmp -> q120_intt_bb_avx2 -> q120_b_to_znx128_simple (VEC_ZNX_BIG)
      ntt120_vec_znx_idft_tmp_a_avx  the same without tmp: the inverse transform overwrites the source limb

  Core Lean only.  Everything is built from the model functions of `Spq/Q120.lean` (conversions) and
  `Spq/Q120Ntt.lean` (one 64-bit lane of the NTT / iNTT); this file adds the memory layout:

  * a DFT limb is `4·nn` cells of 64 bits, cell `4·t + j` = lane `j` (prime `q_j`) of coefficient `t`;
    the four lanes of a `__m256i` never interact, so a limb is transformed lane by lane (`lane`, `interleave4`);
  * a big limb is `nn` values of 128 bits = `2·nn` cells (little endian: cell `2t` = low half, `2t+1` = high half);
  * `smin = min(res_size, a_size)` limbs are computed, limbs `smin ≤ i < res_size` of the result are zero-filled
    (`memset`), limb `i` of the int64 source starts at coefficient `i·a_sl`;
  * `nn = 2^k` for every `k ≥ 0`; for `nn = 1` the two q120 drivers return immediately (`if (n == 1) return`), so the
    DFT limb is just the 4 residue words and no table is read;
  * in-place inverse (`res == a_dft`, `vecIdftInplace`): ONE buffer of 64-bit cells.  Step `i` copies cells
    `[4nn·i, 4nn·(i+1))` to tmp, transforms tmp and stores the `nn` 128-bit results on cells `[2nn·i, 2nn·(i+1))`,
    i.e. on top of DFT limbs `⌊i/2⌋ ≤ i` that were consumed in earlier steps (or, for `i = 0`, on the first half of
    the limb just copied).  The final `memset` clears cells `[2nn·smin, 2nn·res_size)`.
  * `_tmp_a` (`vecIdftTmpA`): returns the big vector AND the clobbered DFT buffer (limbs `< smin` hold the raw output
    lanes of the inverse transform, the other limbs are untouched).

  The per-lane precomputation (`LanePre`: level metadata, reduction metadata, twiddle table) is an input; the
  driver builds it from the op line exactly as the `qn` family does (`tableFwd` / `tableInv`).
-/
import Spq.Q120
import Spq.Q120Ntt
namespace Spq.ModuleNtt
open Spq Spq.Q120 Spq.Q120Ntt

/-- one lane of a `q120_ntt_precomp` -/
structure LanePre where
  levels : Array Level
  R : Reduc
  tbl : Array Nat
deriving Inhabited

/-- what an NTT120 `MODULE` of dimension `nn = 2^k` carries: the primes / CRT constants compiled into the
    `_simple` conversions, `mod.q120.p_ntt` and `mod.q120.p_intt` (lane by lane) -/
structure ModPre where
  k : Nat
  P : Q120Params
  fwd : Nat → LanePre
  inv : Nat → LanePre

@[inline] def ModPre.nn (M : ModPre) : Nat := 2 ^ M.k

/-! ### lanes of a limb -/

/-- lane `j` of an interleaved vector of `4·n` cells -/
def lane (v : Array Nat) (j : Nat) : Array Nat :=
  Array.ofFn (n := v.size / 4) fun i => v.getD (4 * i.val + j) 0

@[inline] def pick4 (l0 l1 l2 l3 : Array Nat) (j : Nat) : Array Nat :=
  if j = 0 then l0 else if j = 1 then l1 else if j = 2 then l2 else l3

/-- `4·n` cells, cell `4t + j` = cell `t` of lane `j` -/
def interleave4 (n : Nat) (l0 l1 l2 l3 : Array Nat) : Array Nat :=
  Array.ofFn (n := 4 * n) fun i => (pick4 l0 l1 l2 l3 (i.val % 4)).getD (i.val / 4) 0

/-- `q120_ntt_bb_avx2(module->mod.q120.p_ntt, x)` on a limb of `4·nn` cells -/
def nttCells (M : ModPre) (x : Array Nat) : Array Nat :=
  let t := fun j => nttLane M.k (M.fwd j).levels (M.fwd j).R (M.fwd j).tbl (lane x j)
  interleave4 M.nn (t 0) (t 1) (t 2) (t 3)

/-- `q120_intt_bb_avx2(module->mod.q120.p_intt, x)` on a limb of `4·nn` cells -/
def inttCells (M : ModPre) (x : Array Nat) : Array Nat :=
  let t := fun j => inttLane M.k (M.inv j).levels (M.inv j).R (M.inv j).tbl (lane x j)
  interleave4 M.nn (t 0) (t 1) (t 2) (t 3)

/-! ### reading the operands -/

/-- `len` int64 coefficients starting at coefficient `off` -/
def limbI64 (a : Array Int) (off len : Nat) : Array Int :=
  Array.ofFn (n := len) fun t => a.getD (off + t.val) 0

/-- `len` cells starting at cell `off` (`memcpy(tmp, ta + off, len * 8)`) -/
def cellsAt (buf : Array Nat) (off len : Nat) : Array Nat :=
  Array.ofFn (n := len) fun t => buf.getD (off + t.val) 0

/-! ### one limb -/

/-- `q120_b_from_znx64_simple(nn, res_i, a + i*a_sl); q120_ntt_bb_avx2(p_ntt, res_i)` -/
def dftLimb (M : ModPre) (x : Array Int) : Array Nat :=
  nttCells M (bFromZnx64 M.P M.nn x)

/-- `q120_intt_bb_avx2(p_intt, tmp); q120_b_to_znx128_simple(nn, res_i, tmp)` -/
def idftLimb (M : ModPre) (c : Array Nat) : Array Int :=
  bToZnx128Vec M.P M.nn (inttCells M c)

/-! ### `ntt120_vec_znx_dft_avx` -/

/-- the `4·nn·res_size` cells of `res` after the call -/
def vecDft (M : ModPre) (resSize : Nat) (a : Array Int) (aSize aSl : Nat) : Array Nat :=
  let nn := M.nn
  let smin := min resSize aSize
  let limbs : Array (Array Nat) := Array.ofFn (n := smin) fun i => dftLimb M (limbI64 a (i.val * aSl) nn)
  Array.ofFn (n := 4 * nn * resSize) fun c =>
    if c.val / (4 * nn) < smin then (limbs.getD (c.val / (4 * nn)) #[]).getD (c.val % (4 * nn)) 0 else 0

/-! ### `ntt120_vec_znx_idft_avx`, `res` and `a_dft` disjoint -/

/-- the `nn·res_size` 128-bit coefficients of `res` after the call (`a_dft` is not modified) -/
def vecIdft (M : ModPre) (resSize : Nat) (dft : Array Nat) (aSize : Nat) : Array Int :=
  let nn := M.nn
  let smin := min resSize aSize
  let limbs : Array (Array Int) := Array.ofFn (n := smin) fun i => idftLimb M (cellsAt dft (4 * nn * i.val) (4 * nn))
  Array.ofFn (n := nn * resSize) fun c =>
    if c.val / nn < smin then (limbs.getD (c.val / nn) #[]).getD (c.val % nn) 0 else 0

/-! ### `ntt120_vec_znx_idft_tmp_a_avx` -/

/-- `(res, a_dft)` after the call: limbs `< smin` of `a_dft` hold the raw inverse-transform lanes -/
def vecIdftTmpA (M : ModPre) (resSize : Nat) (dft : Array Nat) (aSize : Nat) : Array Int × Array Nat :=
  let nn := M.nn
  let smin := min resSize aSize
  let tl : Array (Array Nat) := Array.ofFn (n := smin) fun i => inttCells M (cellsAt dft (4 * nn * i.val) (4 * nn))
  let bl : Array (Array Int) := Array.ofFn (n := smin) fun i => bToZnx128Vec M.P nn (tl.getD i.val #[])
  (Array.ofFn (n := nn * resSize) fun c =>
     if c.val / nn < smin then (bl.getD (c.val / nn) #[]).getD (c.val % nn) 0 else 0,
   Array.ofFn (n := dft.size) fun c =>
     if c.val / (4 * nn) < smin then (tl.getD (c.val / (4 * nn)) #[]).getD (c.val % (4 * nn)) 0
     else dft.getD c.val 0)

/-! ### `ntt120_vec_znx_idft_avx` in place (`res == a_dft`): one buffer of 64-bit cells -/

/-- low / high 64-bit cell of an `__int128_t` (two's complement, little endian) -/
def lo128 (z : Int) : Nat := (z % 340282366920938463463374607431768211456).toNat % 18446744073709551616
def hi128 (z : Int) : Nat := (z % 340282366920938463463374607431768211456).toNat / 18446744073709551616

/-- the `__int128_t` stored on cells `2c`, `2c+1` -/
def readBig (buf : Array Nat) (c : Nat) : Int :=
  wrapS128 ((buf.getD (2 * c) 0 + 18446744073709551616 * buf.getD (2 * c + 1) 0 : Nat) : Int)

/-- store the 128-bit values `r` on cells `off, off+1, …, off + 2·|r| - 1` -/
def writeBig (buf : Array Nat) (off : Nat) (r : Array Int) : Array Nat :=
  Array.ofFn (n := buf.size) fun c =>
    if off ≤ c.val ∧ c.val < off + 2 * r.size then
      let z := r.getD ((c.val - off) / 2) 0
      if (c.val - off) % 2 = 0 then lo128 z else hi128 z
    else buf.getD c.val 0

/-- `memset` of `len` cells -/
def zeroCells (buf : Array Nat) (off len : Nat) : Array Nat :=
  Array.ofFn (n := buf.size) fun c => if off ≤ c.val ∧ c.val < off + len then 0 else buf.getD c.val 0

/-- loop body `i`: memcpy limb `i` to tmp, inverse transform, CRT lift, store on cells `[2nn·i, 2nn·(i+1))` -/
def idftInplaceStep (M : ModPre) (buf : Array Nat) (i : Nat) : Array Nat :=
  writeBig buf (2 * M.nn * i) (idftLimb M (cellsAt buf (4 * M.nn * i) (4 * M.nn)))

/-- the buffer after `vec_znx_idft(module, buf, res_size, buf, a_size, tmp)` -/
def vecIdftInplace (M : ModPre) (resSize aSize : Nat) (buf : Array Nat) : Array Nat :=
  let smin := min resSize aSize
  zeroCells ((List.range smin).foldl (idftInplaceStep M) buf) (2 * M.nn * smin) (2 * M.nn * (resSize - smin))

/-- the buffer read as `n` values of 128 bits -/
def bigOf (buf : Array Nat) (n : Nat) : Array Int := Array.ofFn (n := n) fun c => readBig buf c.val

/-- the big vector as cells -/
def cellsOfBig (r : Array Int) : Array Nat :=
  Array.ofFn (n := 2 * r.size) fun c => if c.val % 2 = 0 then lo128 (r.getD (c.val / 2) 0) else hi128 (r.getD (c.val / 2) 0)

end Spq.ModuleNtt
