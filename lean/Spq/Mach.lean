/-
  Machine-integer layer of the model (core Lean only).

  int64 values are mathematical `Int`s in [-2^63, 2^63); every C operation that can wrap is
  modelled by the exact operation followed by `wrapS`.  uint64 values are `Nat`s `< 2^64` with
  `wrapU`.  Theorems then *prove* that no wrap occurs under the hypotheses of the property,
  instead of assuming it.
-/
namespace Spq

/-- 2^64 written as a literal so that `omega` can use it. -/
abbrev P64 : Nat := 18446744073709551616
abbrev P63 : Nat := 9223372036854775808
abbrev P32 : Nat := 4294967296

/-- unsigned 64-bit wrap -/
@[inline] def wrapU (x : Nat) : Nat := x % 18446744073709551616

/-- signed 64-bit (two's complement) wrap of an exact integer -/
@[inline] def wrapS (x : Int) : Int :=
  (x + 9223372036854775808) % 18446744073709551616 - 9223372036854775808

/-- reinterpret int64 as uint64 -/
@[inline] def toU (x : Int) : Nat := (x % 18446744073709551616).toNat

/-- reinterpret uint64 as int64 -/
@[inline] def toS (x : Nat) : Int := wrapS (x : Int)

/-- int64 operations as C executes them on two's-complement hardware -/
@[inline] def addS (a b : Int) : Int := wrapS (a + b)
@[inline] def subS (a b : Int) : Int := wrapS (a - b)
@[inline] def negS (a : Int) : Int := wrapS (-a)

/-- `x << s` on int64 (as compiled: shift of the bit pattern), `s < 64` -/
@[inline] def shlS (x : Int) (s : Nat) : Int := wrapS (x * (2:Int) ^ s)
/-- arithmetic `x >> s` on int64 -/
@[inline] def sarS (x : Int) (s : Nat) : Int := x / (2:Int) ^ s

/-- `(-p) & (2*nn-1)` where `p` is int64, converted to uint64; `nn` a power of two, `2*nn ≤ 2^64` -/
@[inline] def negMask (p : Int) (twoN : Nat) : Nat := ((-p) % (twoN : Int)).toNat
/-- `p & (2*nn-1)` -/
@[inline] def posMask (p : Int) (twoN : Nat) : Nat := (p % (twoN : Int)).toNat

/-- coefficient arithmetic used by the polymorphic kernels -/
structure Ops (α : Type) where
  zero : α
  neg : α → α
  add : α → α → α
  sub : α → α → α

def i64Ops : Ops Int := { zero := 0, neg := negS, add := addS, sub := subS }

def isPow2 (n : Nat) : Bool := n != 0 && (n &&& (n - 1)) == 0

end Spq
