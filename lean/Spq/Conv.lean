/-
  Model of the numeric layout conversions (property C14), core Lean only.

  Sources modelled (read intrinsic by intrinsic):
    spqlios/reim/reim_conversions.c        reim_from_znx64_ref, reim_to_znx64_ref, init_reim_{from,to}_znx64_precomp
    spqlios/reim/reim_conversions_avx.c    reim_from_znx64_bnd50_fma, reim_to_znx64_avx2_bnd50_fma, reim_to_znx64_avx2_bnd63_fma
    spqlios/reim/reim_to_tnx_ref.c         reim_to_tnx_basic_ref, reim_to_tnx_ref, init_reim_to_tnx_precomp
    spqlios/reim/reim_to_tnx_avx.c         reim_to_tnx_avx
    spqlios/cplx/cplx_conversions.c        cplx_from_znx32_ref, cplx_from_tnx32_ref, cplx_to_tnx32_ref, init_cplx_*_precomp
    spqlios/cplx/cplx_conversions_avx2_fma.c  cplx_from_any_fma (znx32 / tnx32), cplx_to_tnx32_avx2_fma

  Conventions: a double is its 64-bit pattern (`Nat < 2^64`, see `Spq/F64.lean`); int64 / int32 values are `Int`s;
  `&`, `|`, `^` on registers are `&&&`, `|||`, `^^^` on the patterns; 64-bit integer adds/subs wrap.
  Every conversion has a *lane* function (one element) and a *vector* function that reproduces the loop
  structure of the C code (4 or 8 lanes per iteration, do-while loops run at least once).
-/
import Spq.F64
namespace Spq
namespace Conv
open F64

/-! ### 64-bit register helpers -/

abbrev SIGN_MASK : Nat := 9223372036854775808       -- 0x8000000000000000
abbrev EXPO_MASK : Nat := 9218868437227405312       -- 0x7FF0000000000000
abbrev MANT_MASK : Nat := 4503599627370495          -- 0x000FFFFFFFFFFFFF
abbrev MANT_MSB  : Nat := 4503599627370496          -- 0x0010000000000000

/-- `_mm256_add_epi64` lane (operands `< 2^64`) -/
@[inline] def add64 (a b : Nat) : Nat := (a + b) % 18446744073709551616
/-- `_mm256_sub_epi64` lane (operands `< 2^64`) -/
@[inline] def sub64 (a b : Nat) : Nat := (a + 18446744073709551616 - b) % 18446744073709551616
/-- `_mm256_sllv_epi64` lane: counts above 63 give 0 -/
@[inline] def sllv64 (a c : Nat) : Nat := if c > 63 then 0 else (a * 2 ^ c) % 18446744073709551616
/-- `_mm256_srlv_epi64` lane: counts above 63 give 0 -/
@[inline] def srlv64 (a c : Nat) : Nat := if c > 63 then 0 else a / 2 ^ c

/-- output of `w`-lane SIMD loop with `iters` iterations: iteration `k` produces lanes `w*k .. w*k+w-1` -/
def chunks {α : Type} (w : Nat) (f : Nat → α) : Nat → Array α
  | 0 => #[]
  | k + 1 => chunks w f k ++ Array.ofFn (n := w) fun i => f (w * k + i.val)

/-- output of a loop whose iteration `k` appends the block `g k` -/
def chunksA {α : Type} (g : Nat → Array α) : Nat → Array α
  | 0 => #[]
  | k + 1 => chunksA g k ++ g k

/-- scalar loop `for i < n` -/
def scalarLoop {α : Type} (n : Nat) (f : Nat → α) : Array α := Array.ofFn (n := n) fun i => f i.val

/-- number of iterations of `do { …; p += w } while (p < end)` over `n` elements -/
def doWhileIters (n w : Nat) : Nat := max 1 ((n + w - 1) / w)

/-! ### constants written in the C sources (`static const double …`) -/

/-- `(double)(INT64_C(1) << 52)` -/
def D_2P52 : Nat := ofInt 4503599627370496
/-- `(double)(INT64_C(3) << 51)` -/
def D_3P51 : Nat := ofInt 6755399441055744
/-- `1.` -/
abbrev D_ONE : Nat := 4607182418800017408
/-- `2.` -/
abbrev D_TWO : Nat := 4611686018427387904
/-- `0.5` -/
abbrev D_HALF : Nat := 4602678819172646912

/-- `is_not_pow2_double` of commons_private.c: tests the low **51** bits only (`0x7FFFFFFFFFFFF`) -/
def isNotPow2Double (d : Nat) : Nat := d &&& 2251799813685247

/-- `m & (m-1)` on uint32 (`m = 0` passes the test, as in C) -/
def notPow2U32 (m : Nat) : Bool := (m &&& ((m + 4294967296 - 1) % 4294967296)) != 0

/-! ### reim_from_znx64 -/

/-- `res[i] = (double)x[i]` -/
def fromZnx64RefLane (x : Int) : Nat := ofInt x

/-- one lane of `reim_from_znx64_bnd50_fma`: `add_epi64(a, 1<<51)`, `or_pd(·, 2^52)`, `sub_pd(·, 3·2^51)`.
    (The soft-float does not model non-finite operands; the only place where the conversions can create one
    from finite inputs is this OR, so the x86 result for an inf/nan operand is written out here.) -/
def fromZnx64Bnd50Lane (x : Int) : Nat :=
  let a := add64 (toU x) 2251799813685248
  let ad := a ||| D_2P52
  -- outside the domain the OR can produce an all-ones exponent: `inf - c = inf`, `nan - c` = the quieted nan
  if expField ad == 2047 then (if fracField ad == 0 then ad else ad ||| 2251799813685248)
  else F64.sub ad D_3P51

def fromZnx64Ref (m : Nat) (x : Array Int) : Array Nat :=
  scalarLoop (2 * m) fun i => fromZnx64RefLane (x.getD i 0)

/-- 4 lanes per iteration, do-while (the C code runs one iteration even when `2m < 4`) -/
def fromZnx64Bnd50 (m : Nat) (x : Array Int) : Array Nat :=
  chunks 4 (fun i => fromZnx64Bnd50Lane (x.getD i 0)) (doWhileIters (2 * m) 4)

inductive FromZnx64Variant | ref | bnd50
  deriving DecidableEq, Repr

/-- `init_reim_from_znx64_precomp`: `none` = `spqlios_error` -/
def initFromZnx64 (m log2bound : Nat) (avx2 : Bool) : Option FromZnx64Variant :=
  if notPow2U32 m then none
  else if log2bound > 50 then none
  else some (if m ≥ 8 && avx2 then .bnd50 else .ref)

/-! ### reim_to_znx64 -/

/-- `r[i] = (int64_t)rint(v[i] * invdiv)` with `invdiv = 1./divisor` -/
def toZnx64RefLane (invdiv x : Nat) : Int := toIntTrunc (rint (mul x invdiv))

def toZnx64Ref (m divisor : Nat) (x : Array Nat) : Array Int :=
  let invdiv := F64.div D_ONE divisor
  scalarLoop (2 * m) fun i => toZnx64RefLane invdiv (x.getD i 0)

/-- `add_cst = divisor * (double)(3<<51)` -/
def bnd50AddCst (divisor : Nat) : Nat := mul divisor D_3P51

/-- one lane of `reim_to_znx64_avx2_bnd50_fma`: `add_pd`, `and_si256(MANTISSA_MASK)`, `sub_epi64(1<<51)` -/
def toZnx64Bnd50Lane (addCst x : Nat) : Int :=
  let a := add x addCst
  let ai := a &&& MANT_MASK
  toS (sub64 ai 2251799813685248)

def toZnx64Bnd50 (m divisor : Nat) (x : Array Nat) : Array Int :=
  let c := bnd50AddCst divisor
  chunks 4 (fun i => toZnx64Bnd50Lane c (x.getD i 0)) (doWhileIters (2 * m) 4)

/-- `divisor_bits = divisor * (double)(1<<52)` -/
def bnd63DiviBits (divisor : Nat) : Nat := mul divisor D_2P52
/-- `0.5 - 0x1p-54`, the predecessor of 1/2 (pattern 0x3FDFFFFFFFFFFFFF; the C constant expression is exact) -/
abbrev D_PRED_HALF : Nat := 4602678819172646911
/-- repaired kernel (fix of D7): `offset = divisor * (0.5 - 0x1p-54)`, i.e. pred(d/2) for `d = 2^j` -/
def bnd63Offset (divisor : Nat) : Nat := mul divisor D_PRED_HALF
/-- the kernel before the fix of D7: `offset = divisor / 2.` -/
def bnd63OffsetOld (divisor : Nat) : Nat := F64.div divisor D_TWO

/-- one lane of `reim_to_znx64_avx2_bnd63_fma` -/
def toZnx64Bnd63Lane (offset diviBits x : Nat) : Int :=
  let asign := x &&& SIGN_MASK
  let a := add x (asign ||| offset)                     -- a += sign(a) * divisor/2
  let signMask := sub64 0 (asign / 9223372036854775808)   -- 0 or 2^64-1
  let a0exp := a &&& EXPO_MASK
  let lsh := sub64 a0exp diviBits / 4503599627370496      -- srli 52
  let rsh := sub64 diviBits a0exp / 4503599627370496
  let a0pos := (a &&& MANT_MASK) ||| MANT_MSB
  let l := sllv64 a0pos lsh
  let r := srlv64 a0pos rsh
  let fin := (l ||| r) ^^^ signMask
  toS (sub64 fin signMask)

def toZnx64Bnd63 (m divisor : Nat) (x : Array Nat) : Array Int :=
  let off := bnd63Offset divisor
  let db := bnd63DiviBits divisor
  chunks 4 (fun i => toZnx64Bnd63Lane off db (x.getD i 0)) (doWhileIters (2 * m) 4)

/-- the vector function before the fix of D7 (kept for the violation theorem and for an unpatched tree) -/
def toZnx64Bnd63Old (m divisor : Nat) (x : Array Nat) : Array Int :=
  let off := bnd63OffsetOld divisor
  let db := bnd63DiviBits divisor
  chunks 4 (fun i => toZnx64Bnd63Lane off db (x.getD i 0)) (doWhileIters (2 * m) 4)

inductive ToZnx64Variant | ref | bnd50 | bnd63
  deriving DecidableEq, Repr

/-- `init_reim_to_znx64_precomp` -/
def initToZnx64 (m divisor log2bound : Nat) (avx2 : Bool) : Option ToZnx64Variant :=
  if notPow2U32 m then none
  else if isNotPow2Double divisor != 0 then none
  else if log2bound > 64 then none
  else some (if avx2 && m ≥ 8 then (if log2bound ≤ 50 then .bnd50 else .bnd63) else .ref)

def toZnx64 (v : ToZnx64Variant) (m divisor : Nat) (x : Array Nat) : Array Int :=
  match v with
  | .ref => toZnx64Ref m divisor x
  | .bnd50 => toZnx64Bnd50 m divisor x
  | .bnd63 => toZnx64Bnd63 m divisor x

/-! ### reim_to_tnx -/

/-- `ri = x/divisor; r = ri - rint(ri)` -/
def toTnxBasicLane (divisor x : Nat) : Nat :=
  let ri := F64.div x divisor
  F64.sub ri (rint ri)

def toTnxBasicRef (m divisor : Nat) (x : Array Nat) : Array Nat :=
  scalarLoop (2 * m) fun i => toTnxBasicLane divisor (x.getD i 0)

structure ToTnxPrecomp where
  m : Nat
  divisor : Nat
  log2overhead : Nat
  addCst : Nat
  maskAnd : Nat
  maskOr : Nat
  subCst : Nat
  useAvx : Bool
  deriving Repr

/-- `0.5 + (double)(UINT64_C(6) << log2overhead)` (the shift is 64-bit since the fix of D4) -/
def tnxOvhCst (log2overhead : Nat) : Nat :=
  add D_HALF (ofNat ((6 * 2 ^ log2overhead) % 18446744073709551616))

/-- `init_reim_to_tnx_precomp`.  `nbits = 50 - log2overhead` is a uint64; for `log2overhead ∈ {51,52}` the
    shifts `1 << nbits` / `-1 << nbits` have a count ≥ 64 (undefined in C; x86 `shl` uses the count mod 64,
    which is what is modelled).  The property only concerns `log2overhead ≤ 48`. -/
def initToTnx (m divisor log2overhead : Nat) (avx2 : Bool) : Option ToTnxPrecomp :=
  if notPow2U32 m then none
  else if isNotPow2Double divisor != 0 then none
  else if log2overhead > 52 then none
  else
    let nbits := ((50 + 18446744073709551616 - log2overhead) % 18446744073709551616) % 64
    let ovh := tnxOvhCst log2overhead
    some { m := m, divisor := divisor, log2overhead := log2overhead
           addCst := mul ovh divisor
           maskAnd := (2 ^ nbits + 18446744073709551616 - 1) % 18446744073709551616
           maskOr := ovh &&& ((18446744073709551615 * 2 ^ nbits) % 18446744073709551616)
           subCst := ovh
           useAvx := avx2 && m ≥ 8 }

/-- the lane computation shared by `reim_to_tnx_ref` (union trick) and `reim_to_tnx_avx` (add/and/or/sub) -/
def toTnxLane (p : ToTnxPrecomp) (x : Nat) : Nat :=
  let cur := add x p.addCst
  let cur := cur &&& p.maskAnd
  let cur := cur ||| p.maskOr
  F64.sub cur p.subCst

def toTnxRef (p : ToTnxPrecomp) (x : Array Nat) : Array Nat :=
  scalarLoop (2 * p.m) fun i => toTnxLane p (x.getD i 0)

/-- `for (i = 0; i < n; i += 8)`: two 4-lane registers per iteration -/
def toTnxAvx (p : ToTnxPrecomp) (x : Array Nat) : Array Nat :=
  chunks 8 (fun i => toTnxLane p (x.getD i 0)) ((2 * p.m + 7) / 8)

def toTnx (p : ToTnxPrecomp) (x : Array Nat) : Array Nat :=
  if p.useAvx then toTnxAvx p x else toTnxRef p x

/-! ### 256-bit registers as 8 × uint32 (lane 0 = least significant) for the cplx kernels -/

structure V8 where
  l0 : Nat
  l1 : Nat
  l2 : Nat
  l3 : Nat
  l4 : Nat
  l5 : Nat
  l6 : Nat
  l7 : Nat
  deriving Repr, DecidableEq

namespace V8
def map (f : Nat → Nat) (a : V8) : V8 := ⟨f a.l0, f a.l1, f a.l2, f a.l3, f a.l4, f a.l5, f a.l6, f a.l7⟩
def splat (c : Nat) : V8 := ⟨c, c, c, c, c, c, c, c⟩
def get (a : V8) (i : Nat) : Nat :=
  match i with
  | 0 => a.l0 | 1 => a.l1 | 2 => a.l2 | 3 => a.l3 | 4 => a.l4 | 5 => a.l5 | 6 => a.l6 | _ => a.l7
def toArray (a : V8) : Array Nat := #[a.l0, a.l1, a.l2, a.l3, a.l4, a.l5, a.l6, a.l7]
/-- `_mm256_add_epi32` -/
def addEpi32 (a b : V8) : V8 :=
  let f (x y : Nat) := (x + y) % 4294967296
  ⟨f a.l0 b.l0, f a.l1 b.l1, f a.l2 b.l2, f a.l3 b.l3, f a.l4 b.l4, f a.l5 b.l5, f a.l6 b.l6, f a.l7 b.l7⟩
/-- `_mm256_xor_si256` -/
def xor (a b : V8) : V8 :=
  ⟨a.l0 ^^^ b.l0, a.l1 ^^^ b.l1, a.l2 ^^^ b.l2, a.l3 ^^^ b.l3, a.l4 ^^^ b.l4, a.l5 ^^^ b.l5, a.l6 ^^^ b.l6, a.l7 ^^^ b.l7⟩
/-- `_mm256_unpacklo_epi32` -/
def unpackloEpi32 (a b : V8) : V8 := ⟨a.l0, b.l0, a.l1, b.l1, a.l4, b.l4, a.l5, b.l5⟩
/-- `_mm256_unpackhi_epi32` -/
def unpackhiEpi32 (a b : V8) : V8 := ⟨a.l2, b.l2, a.l3, b.l3, a.l6, b.l6, a.l7, b.l7⟩
/-- `_mm256_unpacklo_epi64` -/
def unpackloEpi64 (a b : V8) : V8 := ⟨a.l0, a.l1, b.l0, b.l1, a.l4, a.l5, b.l4, b.l5⟩
/-- `_mm256_unpackhi_epi64` -/
def unpackhiEpi64 (a b : V8) : V8 := ⟨a.l2, a.l3, b.l2, b.l3, a.l6, a.l7, b.l6, b.l7⟩
/-- `_mm256_permute2x128_si256(a, b, 0x20)`: low halves of `a` and `b` -/
def perm20 (a b : V8) : V8 := ⟨a.l0, a.l1, a.l2, a.l3, b.l0, b.l1, b.l2, b.l3⟩
/-- `_mm256_permute2x128_si256(a, b, 0x31)`: high halves of `a` and `b` -/
def perm31 (a b : V8) : V8 := ⟨a.l4, a.l5, a.l6, a.l7, b.l4, b.l5, b.l6, b.l7⟩
/-- `_mm256_permutevar8x32_epi32(a, idx)` -/
def permutevar (a idx : V8) : V8 :=
  ⟨a.get (idx.l0 % 8), a.get (idx.l1 % 8), a.get (idx.l2 % 8), a.get (idx.l3 % 8),
   a.get (idx.l4 % 8), a.get (idx.l5 % 8), a.get (idx.l6 % 8), a.get (idx.l7 % 8)⟩
/-- the 64-bit lane `k` (0..3) -/
def q (a : V8) (k : Nat) : Nat :=
  match k with
  | 0 => a.l0 + 4294967296 * a.l1
  | 1 => a.l2 + 4294967296 * a.l3
  | 2 => a.l4 + 4294967296 * a.l5
  | _ => a.l6 + 4294967296 * a.l7
/-- build from four 64-bit lanes -/
def ofQ (q0 q1 q2 q3 : Nat) : V8 :=
  ⟨q0 % 4294967296, q0 / 4294967296 % 4294967296, q1 % 4294967296, q1 / 4294967296 % 4294967296,
   q2 % 4294967296, q2 / 4294967296 % 4294967296, q3 % 4294967296, q3 / 4294967296 % 4294967296⟩
end V8

/-- int32 → its uint32 bit pattern -/
@[inline] def u32 (x : Int) : Nat := (x % 4294967296).toNat
/-- uint32 bit pattern → int32 -/
@[inline] def s32 (x : Nat) : Int := ((x : Int) + 2147483648) % 4294967296 - 2147483648
/-- `(int32_t)v` for an int64 `v` -/
@[inline] def wrap32 (v : Int) : Int := (v + 2147483648) % 4294967296 - 2147483648

/-! ### cplx_from_znx32 / cplx_from_tnx32 -/

/-- `(double)inre[i]` -/
def cplxFromZnx32RefLane (x : Int) : Nat := ofInt x
/-- `1. / (INT64_C(1) << 32)` -/
def D_2M32 : Nat := F64.div D_ONE (ofInt 4294967296)
/-- `((double)inre[i]) * _2p32` -/
def cplxFromTnx32RefLane (x : Int) : Nat := mul (ofInt x) D_2M32

/-- interleaved complex output `out[i] = (f re[i], f im[i])`, `re = x[0..m)`, `im = x[m..2m)` -/
def cplxFromRef (f : Int → Nat) (m : Nat) (x : Array Int) : Array Nat :=
  scalarLoop (2 * m) fun t => f (x.getD (if t % 2 == 0 then t / 2 else m + t / 2) 0)

def cplxFromZnx32Ref (m : Nat) (x : Array Int) : Array Nat := cplxFromRef cplxFromZnx32RefLane m x
def cplxFromTnx32Ref (m : Nat) (x : Array Int) : Array Nat := cplxFromRef cplxFromTnx32RefLane m x

/-- one lane of `cplx_from_any_fma` after the shuffles: the 32-bit input plus `0x80000000` (wrapping) is the
    low word, the constant `C` the high word of a double, from which `R` is subtracted -/
def cplxFromAnyLane (C R : Nat) (x : Int) : Nat :=
  let lo := (u32 x + 2147483648) % 4294967296
  F64.sub (lo + 4294967296 * C) R

/-- constants of `cplx_from_znx32_avx2_fma`: `C = 0x43300000`, `R = 2^31 + 2^52` -/
abbrev ZNX32_C : Nat := 1127219200
def ZNX32_R : Nat := ofInt (2147483648 + 4503599627370496)
/-- constants of `cplx_from_tnx32_avx2_fma`: `C = 0x41300000`, `R = 0.5 + 2^20` -/
abbrev TNX32_C : Nat := 1093664768
def TNX32_R : Nat := add D_HALF (ofInt 1048576)

/-- one iteration of `cplx_from_any_fma`: registers `re`, `im` (8 int32 each) → 4 registers of 4 doubles -/
def cplxFromAnyIter (C R : Nat) (re im : V8) : Array Nat :=
  let S := V8.splat 2147483648
  let Cv := V8.splat C
  let rea := V8.addEpi32 re S
  let ima := V8.addEpi32 im S
  let tmpa := V8.unpackloEpi32 rea ima
  let tmpc := V8.unpackhiEpi32 rea ima
  let cpla := V8.perm20 tmpa tmpc
  let cplc := V8.perm31 tmpa tmpc
  let tmpa := V8.unpackloEpi32 cpla Cv
  let tmpb := V8.unpackhiEpi32 cpla Cv
  let tmpc := V8.unpackloEpi32 cplc Cv
  let tmpd := V8.unpackhiEpi32 cplc Cv
  let cpla := V8.perm20 tmpa tmpb
  let cplb := V8.perm31 tmpa tmpb
  let cplc := V8.perm20 tmpc tmpd
  let cpld := V8.perm31 tmpc tmpd
  -- _mm256_storeu_pd(out[k], _mm256_sub_pd(_mm256_castsi256_pd(cpl?), R)): 4 doubles per register
  #[F64.sub (cpla.q 0) R, F64.sub (cpla.q 1) R, F64.sub (cpla.q 2) R, F64.sub (cpla.q 3) R,
    F64.sub (cplb.q 0) R, F64.sub (cplb.q 1) R, F64.sub (cplb.q 2) R, F64.sub (cplb.q 3) R,
    F64.sub (cplc.q 0) R, F64.sub (cplc.q 1) R, F64.sub (cplc.q 2) R, F64.sub (cplc.q 3) R,
    F64.sub (cpld.q 0) R, F64.sub (cpld.q 1) R, F64.sub (cpld.q 2) R, F64.sub (cpld.q 3) R]

def loadI32x8 (x : Array Int) (off : Nat) : V8 :=
  ⟨u32 (x.getD off 0), u32 (x.getD (off + 1) 0), u32 (x.getD (off + 2) 0), u32 (x.getD (off + 3) 0),
   u32 (x.getD (off + 4) 0), u32 (x.getD (off + 5) 0), u32 (x.getD (off + 6) 0), u32 (x.getD (off + 7) 0)⟩

/-- `cplx_from_any_fma`: `m/8` iterations, each writes 16 doubles (nothing at all is written when `m < 8`) -/
def cplxFromAnyAvx (C R : Nat) (m : Nat) (x : Array Int) : Array Nat :=
  chunksA (fun i => cplxFromAnyIter C R (loadI32x8 x (8 * i)) (loadI32x8 x (m + 8 * i))) (m / 8)

def cplxFromZnx32Avx (m : Nat) (x : Array Int) : Array Nat := cplxFromAnyAvx ZNX32_C ZNX32_R m x
def cplxFromTnx32Avx (m : Nat) (x : Array Int) : Array Nat := cplxFromAnyAvx TNX32_C TNX32_R m x

/-- `init_cplx_from_{znx32,tnx32}_precomp`: no check of `m`; avx variant iff avx2 and `m ≥ 8` -/
def initCplxFrom (m : Nat) (avx2 : Bool) : Bool := avx2 && m ≥ 8

/-! ### cplx_to_tnx32 -/

/-- `factor = 2^32 / divisor` -/
def toTnx32Factor (divisor : Nat) : Nat := F64.div (ofInt 4294967296) divisor
/-- `(int32_t)(int64_t)(rint(in * factor))` -/
def cplxToTnx32RefLane (factor x : Nat) : Int := wrap32 (toIntTrunc (rint (mul x factor)))

/-- split output `r[i] = re(in[i])`, `r[m+i] = im(in[i])` -/
def cplxToTnx32Ref (m divisor : Nat) (x : Array Nat) : Array Int :=
  let f := toTnx32Factor divisor
  scalarLoop (2 * m) fun t => cplxToTnx32RefLane f (x.getD (if t < m then 2 * t else 2 * (t - m) + 1) 0)

/-- `R = (0.5 + (double)(3<<19)) * divisor` -/
def toTnx32R (divisor : Nat) : Nat := mul (add D_HALF (ofInt 1572864)) divisor

/-- one lane of `cplx_to_tnx32_avx2_fma` after the shuffles: low 32 bits of `x + R`, top bit flipped -/
def cplxToTnx32AvxLane (R x : Nat) : Int := s32 ((add x R % 4294967296) ^^^ 2147483648)

/-- `or(and(a, 0xFFFFFFFF), slli_epi64(b, 32))` on one 64-bit lane -/
def mixq (p q : Nat) : Nat := (p &&& 4294967295) ||| ((q * 4294967296) % 18446744073709551616)

/-- one iteration of `cplx_to_tnx32_avx2_fma`: the 16 doubles `d 0 … d 15` (4 registers `cpla..cpld` of 4
    doubles) → (re register, im register) of 8 × uint32 -/
def cplxToTnx32Iter (R : Nat) (d : Nat → Nat) : V8 × V8 :=
  let a (t : Nat) := add (d t) R                 -- _mm256_add_pd(cpl?, R), as 64-bit lanes
  -- icpla = or(and(icpla, MASK), slli(icplb, 32)); icplc likewise from icplc, icpld
  let icpla := V8.ofQ (mixq (a 0) (a 4)) (mixq (a 1) (a 5)) (mixq (a 2) (a 6)) (mixq (a 3) (a 7))
  let icplc := V8.ofQ (mixq (a 8) (a 12)) (mixq (a 9) (a 13)) (mixq (a 10) (a 14)) (mixq (a 11) (a 15))
  let S := V8.splat 2147483648
  let icpla := V8.xor icpla S
  let icplc := V8.xor icplc S
  let re := V8.unpackloEpi64 icpla icplc
  let im := V8.unpackhiEpi64 icpla icplc
  let IDX : V8 := ⟨0, 4, 1, 5, 2, 6, 3, 7⟩       -- _mm256_set_epi32(7,3,6,2,5,1,4,0)
  (V8.permutevar re IDX, V8.permutevar im IDX)

/-- `cplx_to_tnx32_avx2_fma`: `m/8` iterations; output `re[0..m) ++ im[0..m)` (for `m < 8` nothing is written) -/
def cplxToTnx32Avx (m divisor : Nat) (x : Array Nat) : Array Int :=
  let R := toTnx32R divisor
  let it (i : Nat) := cplxToTnx32Iter R (fun t => x.getD (16 * i + t) 0)
  let re := chunksA (fun i => (it i).1.toArray) (m / 8)
  let im := chunksA (fun i => (it i).2.toArray) (m / 8)
  (re ++ im).map s32

/-- `init_cplx_to_tnx32_precomp`: `none` = error; `some true` = avx variant -/
def initCplxToTnx32 (m divisor log2overhead : Nat) (avx2 : Bool) : Option Bool :=
  if isNotPow2Double divisor != 0 then none
  else if notPow2U32 m then none
  else if log2overhead > 52 then none
  else some (avx2 && log2overhead ≤ 18 && m ≥ 8)

end Conv
end Spq
