/-
  Bit-exact IEEE-754 binary64 arithmetic on bit patterns (core Lean only).

  A double is its 64-bit pattern as a `Nat < 2^64`:  `bits = s·2^63 + e·2^52 + f`.
  `decode` gives the exact value `(-1)^neg · m · 2^e`; every operation computes the exact result as
  a scaled integer and rounds once with `pack` (round-to-nearest, ties-to-even — the default
  rounding mode, which the library never changes).  NaN/Inf operands are not modelled (no
  in-domain input of the library produces them); `isFinite` lets callers check.
-/
import Spq.Mach
namespace Spq
namespace F64

abbrev P52 : Nat := 4503599627370496
abbrev P53 : Nat := 9007199254740992
abbrev SIGN : Nat := 9223372036854775808

structure Dec where
  neg : Bool
  m   : Nat      -- mantissa
  e   : Int      -- value = (-1)^neg * m * 2^e

@[inline] def signBit (b : Nat) : Bool := b / 9223372036854775808 % 2 == 1
@[inline] def expField (b : Nat) : Nat := (b / 4503599627370496) % 2048
@[inline] def fracField (b : Nat) : Nat := b % 4503599627370496

@[inline] def decode (b : Nat) : Dec :=
  let ex := expField b
  let fr := fracField b
  if ex == 0 then ⟨signBit b, fr, -1074⟩ else ⟨signBit b, fr + 4503599627370496, (ex : Int) - 1075⟩

@[inline] def isFinite (b : Nat) : Bool := expField b != 2047

/-- round-to-nearest-even packing of `(-1)^neg * M * 2^E` -/
def pack (neg : Bool) (M : Nat) (E : Int) : Nat :=
  let s : Nat := if neg then 9223372036854775808 else 0
  if M == 0 then s else
  let len := M.log2 + 1
  -- choose the shift so that the result has ≤ 53 bits and the exponent is ≥ -1074
  let sh0 : Int := (len : Int) - 53
  let e0 : Int := E + sh0
  let sh : Int := if e0 < -1074 then sh0 + (-1074 - e0) else sh0
  let e1 : Int := E + sh
  let q : Nat :=
    if sh ≤ 0 then M * 2 ^ sh.natAbs
    else
      let k := sh.toNat
      let q0 := M / 2 ^ k
      let r := M % 2 ^ k
      let half := 2 ^ (k - 1)
      if r > half || (r == half && q0 % 2 == 1) then q0 + 1 else q0
  -- q may be 2^53 after rounding
  let qe : Nat × Int := if q == 9007199254740992 then (4503599627370496, e1 + 1) else (q, e1)
  let q := qe.1
  let e1 := qe.2
  if q < 4503599627370496 then
    s + q            -- subnormal (e1 = -1074) or zero
  else
    let ex : Int := e1 + 1075
    if ex ≥ 2047 then s + 2047 * 4503599627370496     -- overflow to infinity
    else s + ex.toNat * 4503599627370496 + (q - 4503599627370496)

def toIntM (d : Dec) : Int := if d.neg then -(d.m : Int) else d.m

/-- pack a signed scaled integer; `zneg` is the sign of an exact-zero result -/
def packSigned (v : Int) (e : Int) (zneg : Bool) : Nat :=
  if v == 0 then (if zneg then 9223372036854775808 else 0)
  else pack (v < 0) v.natAbs e

def add (a b : Nat) : Nat :=
  let x := decode a; let y := decode b
  let e := min x.e y.e
  let v := toIntM x * (2:Int) ^ ((x.e - e).toNat) + toIntM y * (2:Int) ^ ((y.e - e).toNat)
  packSigned v e (x.neg && y.neg)

def neg (a : Nat) : Nat := if a < 9223372036854775808 then a + 9223372036854775808 else a - 9223372036854775808
def sub (a b : Nat) : Nat := add a (neg b)

def mul (a b : Nat) : Nat :=
  let x := decode a; let y := decode b
  pack (x.neg != y.neg) (x.m * y.m) (x.e + y.e)

/-- fused `a*b + c`, one rounding -/
def fma (a b c : Nat) : Nat :=
  let x := decode a; let y := decode b; let z := decode c
  let pe := x.e + y.e
  let pneg := x.neg != y.neg
  let pm : Int := if pneg then -((x.m * y.m : Nat) : Int) else ((x.m * y.m : Nat) : Int)
  let e := min pe z.e
  let v := pm * (2:Int) ^ ((pe - e).toNat) + toIntM z * (2:Int) ^ ((z.e - e).toNat)
  packSigned v e (pneg && z.neg)

/-- `a*b - c` fused (vfmsub) -/
def fms (a b c : Nat) : Nat := fma a b (neg c)
/-- `-(a*b) + c` fused (vfnmadd) -/
def fnma (a b c : Nat) : Nat := fma (neg a) b c

/-- `(double) x` for an int64 (cvtsi2sd): correctly rounded -/
def ofInt (x : Int) : Nat := packSigned x 0 false

/-- exact value as a rational `num / 2^k` is avoided: value scaled to an integer multiple of 2^-1074 -/
def toScaled (a : Nat) : Int :=
  let d := decode a
  toIntM d * (2:Int) ^ ((d.e + 1074).toNat)

/-- `rint` / `nearbyint` in the default rounding mode: nearest integer, ties to even, as a double -/
def rint (a : Nat) : Nat :=
  let d := decode a
  if d.e ≥ 0 then a else
    let k := (-d.e).toNat
    let q0 := d.m / 2 ^ k
    let r := d.m % 2 ^ k
    let half := 2 ^ (k - 1)
    let q := if r > half || (r == half && q0 % 2 == 1) then q0 + 1 else q0
    if q == 0 then (if d.neg then 9223372036854775808 else 0) else pack d.neg q 0

/-- `(int64_t) x` (cvttsd2si): truncation toward zero; out of range gives INT64_MIN ("integer indefinite") -/
def toIntTrunc (a : Nat) : Int :=
  let d := decode a
  let mag : Int := if d.e ≥ 0 then (d.m : Int) * (2:Int) ^ d.e.toNat else ((d.m / 2 ^ ((-d.e).toNat) : Nat) : Int)
  let v := if d.neg then -mag else mag
  if v < -9223372036854775808 || v > 9223372036854775807 then -9223372036854775808 else v

/-- `lrint`/`llrint`/cvtsd2si: round to nearest even then convert -/
def toIntRne (a : Nat) : Int := toIntTrunc (rint a)

def ops : Ops Nat := { zero := 0, neg := neg, add := add, sub := sub }

end F64
end Spq

/-! ### additions for the numeric conversions (C14); appended, nothing above is changed -/
namespace Spq
namespace F64

/-- correctly rounded `a / b` (divsd).  The quotient of the mantissas is computed with 110 extra bits and a
    sticky bit, so the single rounding in `pack` is the IEEE rounding.  `x/0` gives ±inf (not used by the
    library on in-domain inputs); `0/y` gives a signed zero. -/
def div (a b : Nat) : Nat :=
  let x := decode a; let y := decode b
  let s := x.neg != y.neg
  if y.m == 0 then (if s then 9223372036854775808 else 0) + 2047 * 4503599627370496
  else if x.m == 0 then (if s then 9223372036854775808 else 0)
  else
    let n := x.m * 2 ^ 110
    let q := n / y.m
    let r := n % y.m
    pack s (2 * q + (if r == 0 then 0 else 1)) (x.e - y.e - 111)

/-- the pattern of `2^j` for a normal exponent `-1022 ≤ j ≤ 1023` -/
def pow2 (j : Int) : Nat := (j + 1023).toNat * 4503599627370496

/-- `(double) x` for a uint64 (exact below 2^53, correctly rounded above) -/
def ofNat (x : Nat) : Nat := packSigned (x : Int) 0 false

end F64
end Spq
