/-
  Flat word heap for the limb-vector API (core Lean only).

  A pointer is an offset (in 64-bit cells) into `mem`; two arguments alias iff they have the same
  offset.  Every access goes through `readLimb`/`touch`/`writeLimb`; an access outside `mem`
  clears `ok` (the model's notion of an out-of-bounds read or write), and never changes `mem`
  outside the addressed cells.
-/
import Spq.Mach
namespace Spq

structure Heap (α : Type) where
  mem : Array α
  ok : Bool := true

namespace Heap
variable {α : Type}

/-- store `l` at cells `off .. off + l.size - 1` (cells outside `mem` are dropped) -/
def writeArr (mem : Array α) (off : Nat) (l : Array α) : Array α :=
  Nat.fold l.size (fun i _ m => m.setIfInBounds (off + i) l[i]) mem

/-- read `nn` consecutive cells -/
def readLimb (h : Heap α) (d : α) (off nn : Nat) : Array α :=
  Array.ofFn (n := nn) fun i => h.mem.getD (off + i.val) d

/-- record a read of `nn` cells at `off` -/
def touch (h : Heap α) (off nn : Nat) : Heap α :=
  { h with ok := h.ok && decide (off + nn ≤ h.mem.size) }

/-- write a limb -/
def writeLimb (h : Heap α) (off : Nat) (l : Array α) : Heap α :=
  { mem := writeArr h.mem off l, ok := h.ok && decide (off + l.size ≤ h.mem.size) }

/-- `for (i = lo; i < hi; ++i) body(i)` -/
def forLimbs (lo hi : Nat) (f : Nat → Heap α → Heap α) (h : Heap α) : Heap α :=
  (List.range' lo (hi - lo)).foldl (fun h i => f i h) h

/-- `for (i = hi-1; i >= lo; --i) body(i)` (downward loop, signed counter) -/
def forLimbsDown (lo hi : Nat) (f : Nat → Heap α → Heap α) (h : Heap α) : Heap α :=
  (List.range' lo (hi - lo)).reverse.foldl (fun h i => f i h) h

/-- limb kernel with no source -/
def limb0 (k : Array α) (r : Nat) (h : Heap α) : Heap α :=
  h.writeLimb r k
/-- limb kernel with one source -/
def limb1 (d : α) (nn : Nat) (k : Array α → Array α) (r a : Nat) (h : Heap α) : Heap α :=
  (h.touch a nn).writeLimb r (k (h.readLimb d a nn))
/-- limb kernel with two sources -/
def limb2 (d : α) (nn : Nat) (k : Array α → Array α → Array α) (r a b : Nat) (h : Heap α) : Heap α :=
  ((h.touch a nn).touch b nn).writeLimb r (k (h.readLimb d a nn) (h.readLimb d b nn))

end Heap
end Spq
