/-
  Lane-chunked models of coeffs_arithmetic_avx.c (core Lean only): `znx_add_i64_avx`, `znx_sub_i64_avx`,
  `znx_negate_i64_avx`.  For `nn ≤ 2` the code has scalar / 128-bit special cases; otherwise a do-while loop
  processes 4 lanes per iteration until `rr >= rrend`, i.e. `max 1 ⌈nn/4⌉` iterations — it therefore writes
  `4·⌈nn/4⌉` cells, which equals `nn` exactly when `4 ∣ nn` (dimensions are powers of two).
-/
import Spq.Coeffs
namespace Spq.CoeffsAvx
variable {α : Type}

/-- number of cells written by the chunked loop -/
def extent (nn : Nat) : Nat := if nn ≤ 2 then nn else 4 * ((nn + 3) / 4)

/-- one 256-bit step: lanes `4c .. 4c+3` -/
def chunk (f : Nat → α) (c : Nat) : Array α := #[f (4 * c), f (4 * c + 1), f (4 * c + 2), f (4 * c + 3)]

/-- the do-while loop over chunks (or the small special cases) applied to a lane function -/
def run (nn : Nat) (f : Nat → α) : Array α :=
  if nn ≤ 2 then Array.ofFn (n := nn) fun i => f i.val
  else (List.range ((nn + 3) / 4)).foldl (fun acc c => acc ++ chunk f c) #[]

def add (o : Ops α) (nn : Nat) (a b : Array α) : Array α :=
  run nn fun i => o.add (a.getD i o.zero) (b.getD i o.zero)
def sub (o : Ops α) (nn : Nat) (a b : Array α) : Array α :=
  run nn fun i => o.sub (a.getD i o.zero) (b.getD i o.zero)
def negate (o : Ops α) (nn : Nat) (a : Array α) : Array α :=
  run nn fun i => o.neg (a.getD i o.zero)

end Spq.CoeffsAvx
