/-
  Kernels of the library that no other model family covers (core Lean only).

  Sources modelled (read statement by statement / intrinsic by intrinsic):
    spqlios/reim/reim_conversions.c     init_reim_{from_znx32,from_tnx32,to_tnx32}_precomp and the six kernels
                                        reim_{from_znx32,from_tnx32,to_tnx32}_{ref,avx2_fma}, which are all
                                        `NOT_IMPLEMENTED()` stubs (print + `abort()`), and the `_simple` wrappers
    spqlios/coeffs/coeffs_arithmetic.c  rnx_divide_by_m_ref
    spqlios/coeffs/coeffs_arithmetic_avx.c  rnx_divide_by_m_avx
    spqlios/cplx/cplx_fftvec_avx2_fma.c cplx_fftvec_{add,sub2_to,copy,twiddle,bitwiddle}_fma
    spqlios/cplx/cplx_fft_avx512.c      cplx_fftvec_{twiddle,bitwiddle}_avx512 (as repaired by commits 7805316 / 36935af;
                                        the kernels before the repair are kept as `…Avx512Old`, findings D8 / D9)
    spqlios/cplx/cplx_fft_ref.c         ctwiddle, citwiddle, cplx_twiddle_fft_ref, cplx_bitwiddle_fft_ref

  Conventions are those of `Spq/Reim4.lean`: a C `double*` is an `Array α` whose cell 0 is the pointee, reads
  outside an array give `ar.zero`, writes outside are dropped (the harness only makes in-bounds calls), the
  kernels are polymorphic in the arithmetic (`F64.arith`: bit-exact; a commutative ring: exact theorems).
  A process that ends in `abort()` (`NOT_IMPLEMENTED()`, `NOT_SUPPORTED()`) is the result `none`.
-/
import Spq.Reim4
import Spq.Conv
namespace Spq
namespace Cover
open Reim4

/-! ## 1. reim <-> int32 conversions (spqlios/reim/reim_conversions.c) -/

/-- the function pointer a constructor stores -/
inductive Sel32 where
  | ref
  | avx
deriving DecidableEq, Repr

/-- `init_reim_from_znx32_precomp(res, m, log2bound)` with `CPU_SUPPORTS("avx2") = avx2`; `none` = error return -/
def initReimFromZnx32 (m log2bound : Nat) (avx2 : Bool) : Option Sel32 :=
  if Conv.notPow2U32 m then none
  else if log2bound > 32 then none
  else some (if avx2 && decide (m ≥ 8) then .avx else .ref)

/-- `init_reim_from_tnx32_precomp(res, m)` -/
def initReimFromTnx32 (m : Nat) (avx2 : Bool) : Option Sel32 :=
  if Conv.notPow2U32 m then none
  else some (if avx2 && decide (m ≥ 8) then .avx else .ref)

/-- `init_reim_to_tnx32_precomp(res, m, divisor, log2overhead)`; `divisor` is a binary64 pattern -/
def initReimToTnx32 (m divisor log2overhead : Nat) (avx2 : Bool) : Option Sel32 :=
  if Conv.notPow2U32 m then none
  else if Conv.isNotPow2Double divisor != 0 then none
  else if log2overhead > 52 then none
  else some (if avx2 && decide (log2overhead ≤ 18) && decide (m ≥ 8) then .avx else .ref)

/-- `reim_from_znx32_ref`: `{ NOT_IMPLEMENTED(); }` — prints and calls `abort()` for every input -/
def reimFromZnx32Ref (_m : Nat) (_x : Array Int) : Option (Array Nat) := none
/-- `reim_from_znx32_avx2_fma`: `{ NOT_IMPLEMENTED(); }` -/
def reimFromZnx32Avx (_m : Nat) (_x : Array Int) : Option (Array Nat) := none
/-- `reim_from_tnx32_ref`: `{ NOT_IMPLEMENTED(); }` -/
def reimFromTnx32Ref (_m : Nat) (_x : Array Int) : Option (Array Nat) := none
/-- `reim_from_tnx32_avx2_fma`: `{ NOT_IMPLEMENTED(); }` -/
def reimFromTnx32Avx (_m : Nat) (_x : Array Int) : Option (Array Nat) := none
/-- `reim_to_tnx32_ref`: `{ NOT_IMPLEMENTED(); }` -/
def reimToTnx32Ref (_m _divisor : Nat) (_x : Array Nat) : Option (Array Int) := none
/-- `reim_to_tnx32_avx2_fma`: `{ NOT_IMPLEMENTED(); }` -/
def reimToTnx32Avx (_m _divisor : Nat) (_x : Array Nat) : Option (Array Int) := none

/-- `reim_from_znx32(tables, r, a)` = `tables->function(tables, r, a)` -/
def reimFromZnx32 (sel : Sel32) (m : Nat) (x : Array Int) : Option (Array Nat) :=
  match sel with
  | .ref => reimFromZnx32Ref m x
  | .avx => reimFromZnx32Avx m x
/-- `reim_from_tnx32(tables, r, a)` -/
def reimFromTnx32 (sel : Sel32) (m : Nat) (x : Array Int) : Option (Array Nat) :=
  match sel with
  | .ref => reimFromTnx32Ref m x
  | .avx => reimFromTnx32Avx m x
/-- `reim_to_tnx32(tables, r, a)` -/
def reimToTnx32 (sel : Sel32) (m divisor : Nat) (x : Array Nat) : Option (Array Int) :=
  match sel with
  | .ref => reimToTnx32Ref m divisor x
  | .avx => reimToTnx32Avx m divisor x

/-- `reim_from_znx32_simple(m, log2bound, r, x)` for an accepted `m` (a refused `m` dereferences NULL) -/
def reimFromZnx32Simple (m log2bound : Nat) (avx2 : Bool) (x : Array Int) : Option (Array Nat) :=
  (initReimFromZnx32 m log2bound avx2).bind fun s => reimFromZnx32 s m x
/-- `reim_from_tnx32_simple(m, r, x)` -/
def reimFromTnx32Simple (m : Nat) (avx2 : Bool) (x : Array Int) : Option (Array Nat) :=
  (initReimFromTnx32 m avx2).bind fun s => reimFromTnx32 s m x
/-- `reim_to_tnx32_simple(m, divisor, log2overhead, r, x)` -/
def reimToTnx32Simple (m divisor log2overhead : Nat) (avx2 : Bool) (x : Array Nat) : Option (Array Int) :=
  (initReimToTnx32 m divisor log2overhead avx2).bind fun s => reimToTnx32 s m divisor x

/-! ## 2. rnx_divide_by_m (spqlios/coeffs/coeffs_arithmetic{,_avx}.c) -/

/-- `for (i = 0; i < n; ++i) res[i] = f i` -/
def scalarMap {α : Type} (n : Nat) (f : Nat → α) (res : Array α) : Array α :=
  Nat.fold n (fun i _ r => r.setIfInBounds i (f i)) res

/-- `const double invm = 1. / m;` -/
def invM (m : Nat) : Nat := F64.div Conv.D_ONE m

/-- `rnx_divide_by_m_ref(n, m, res, a)`: `res[i] = a[i] * invm` -/
def rnxDivideByMRef (n m : Nat) (res a : Array Nat) : Array Nat :=
  scalarMap n (fun i => F64.mul (a.getD i 0) (invM m)) res

/-- `_mm256_mul_pd(_mm256_loadu_pd(a + o), _mm256_set1_pd(invm))` -/
def mulInvV (invm : Nat) (a : Array Nat) (o : Nat) : V4 Nat :=
  V4.map2 F64.mul (V4.load 0 a o) (V4.splat invm)

/-- `rnx_divide_by_m_avx(n, m, res, a)`: `n < 8`: scalar / 128-bit / 256-bit for `n = 1, 2, 4`, every other
    `n < 8` (including 0) is `NOT_SUPPORTED()` = abort; `n ≥ 8`: `do { 8 doubles } while (aa < a + n)`. -/
def rnxDivideByMAvx (n m : Nat) (res a : Array Nat) : Option (Array Nat) :=
  let invm := invM m
  if n < 8 then
    if n == 1 then some (res.setIfInBounds 0 (F64.mul (a.getD 0 0) invm))
    else if n == 2 then
      some ((res.setIfInBounds 0 (F64.mul (a.getD 0 0) invm)).setIfInBounds 1 (F64.mul (a.getD 1 0) invm))
    else if n == 4 then some (V4.store res 0 (mulInvV invm a 0))
    else none
  else
    some (mapV4 0 (2 * doWhileIters n 8) (fun j => 4 * j) (fun j _ => mulInvV invm a (4 * j)) res)

/-! ## 3. interleaved-complex helper kernels (spqlios/cplx/cplx_fftvec_avx2_fma.c, cplx_fft_avx512.c) -/

/-- `RArith` plus the sign flip (`-x` of C: the sign bit, not `0 - x`) -/
structure CArith (α : Type) extends RArith α where
  neg : α → α

namespace F64c
/-- binary64 on bit patterns -/
def arith : CArith Nat := { toRArith := F64.arith, neg := F64.neg }
end F64c

section cplx
variable {α : Type}

/-- `_mm256_shuffle_pd(a, a, 9)` (= one 256-bit half of `_mm512_shuffle_pd(a, a, 0b10011001)`, the immediate of
    `cplx_fftvec_twiddle_avx512` before its repair): the low pair is swapped, the high pair is left as it is -/
@[inline] def shuf9 (a : V4 α) : V4 α := ⟨a.x1, a.x0, a.x2, a.x3⟩

/-- number of ymm registers handled by `do { step ymm } while (aa < aa0 + total)` -/
def ymmCount (total step : Nat) : Nat := step * doWhileIters total step

/-- `cplx_fftvec_add_fma(m, r, a, b)`: `r = a + b`, 4 ymm (8 complexes) per step, `aend = aa + m/2` -/
def cplxFftvecAddFma (ar : RArith α) (m : Nat) (r a b : Array α) : Array α :=
  let z := ar.zero
  mapV4 z (ymmCount (m / 2) 4) (fun j => 4 * j)
    (fun j _ => V4.add ar (V4.load z a (4 * j)) (V4.load z b (4 * j))) r

/-- `cplx_fftvec_sub2_to_fma(m, r, a, b)`: `r = r - (a + b)` -/
def cplxFftvecSub2ToFma (ar : RArith α) (m : Nat) (r a b : Array α) : Array α :=
  let z := ar.zero
  mapV4 z (ymmCount (m / 2) 4) (fun j => 4 * j)
    (fun j rri => V4.sub ar rri (V4.add ar (V4.load z a (4 * j)) (V4.load z b (4 * j)))) r

/-- `cplx_fftvec_copy_fma(m, r, a)`: `r = a` -/
def cplxFftvecCopyFma (ar : RArith α) (m : Nat) (r a : Array α) : Array α :=
  let z := ar.zero
  mapV4 z (ymmCount (m / 2) 4) (fun j => 4 * j) (fun j _ => V4.load z a (4 * j)) r

/-- `p = _mm256_mul_pd(sh(bri), omii); p = _mm256_fmaddsub_pd(bri, omrr, p)`: with `sh = shuffle 5` this is
    `ω·b` on both complexes of the register (`ω` = (`omrr`, `omii`) lane-wise) -/
@[inline] def twP (ar : RArith α) (sh : V4 α → V4 α) (bri omrr omii : V4 α) : V4 α :=
  V4.fmaddsub ar bri omrr (V4.mul ar (sh bri) omii)

/-- the twiddle loop over `nreg` ymm-equivalents: `a` and `b` are distinct arrays, iteration `j` reads and
    writes cells `4j..4j+3` of both (`bri`, `ari` are loaded before the two stores) -/
def cplxFftvecTwiddleSimd (ar : RArith α) (nreg : Nat) (sh : V4 α → V4 α) (a b om : Array α) : Array α × Array α :=
  let z := ar.zero
  let o := V4.load z om 0
  let omrr := V4.shuf0 o
  let omii := V4.shuf15 o
  (mapV4 z nreg (fun j => 4 * j) (fun j ari => V4.add ar ari (twP ar sh (V4.load z b (4 * j)) omrr omii)) a,
   mapV4 z nreg (fun j => 4 * j) (fun j bri => V4.sub ar (V4.load z a (4 * j)) (twP ar sh bri omrr omii)) b)

/-- `cplx_fftvec_twiddle_fma(precomp, a, b, omg)` (`m = precomp->m`): 4 ymm per step, `aend = aa + m/2`;
    `omg` holds two complexes: `omg[0..1]` multiplies the even-indexed complexes, `omg[2..3]` the odd ones -/
def cplxFftvecTwiddleFma (ar : RArith α) (m : Nat) (a b om : Array α) : Array α × Array α :=
  cplxFftvecTwiddleSimd ar (ymmCount (m / 2) 4) V4.shuf5 a b om

/-- `cplx_fftvec_twiddle_avx512`: 4 zmm (= 8 ymm) per step, `aend = aa + m/4` zmm;
    `om = broadcast_f64x4(omg)`, `omrr/omii = _mm512_shuffle_pd(om, om, 0x00 / 0xFF)` and
    `bir = _mm512_shuffle_pd(bri, bri, 0b01010101)`: on every 256-bit half these are `shuffle 0 / 15 / 5`, i.e. each
    zmm is two ymm of the AVX2 kernel -/
def cplxFftvecTwiddleAvx512 (ar : RArith α) (m : Nat) (a b om : Array α) : Array α × Array α :=
  cplxFftvecTwiddleSimd ar (2 * ymmCount (m / 4) 4) V4.shuf5 a b om

/-- `cplx_fftvec_twiddle_avx512` BEFORE commit 7805316 (finding D8; not reachable from the driver):
    `bir = _mm512_shuffle_pd(bri, bri, 0b10011001)` swapped only the low pair of every 256-bit half (`shuf9`) -/
def cplxFftvecTwiddleAvx512Old (ar : RArith α) (m : Nat) (a b om : Array α) : Array α × Array α :=
  cplxFftvecTwiddleSimd ar (2 * ymmCount (m / 4) 4) shuf9 a b om

/-- the register constants of one ymm of a bitwiddle kernel -/
structure BitwCfg (α : Type) where
  sh : V4 α → V4 α
  om1rr : V4 α
  om1ii : V4 α
  om2rr : V4 α
  om2ii : V4 α
  om3rr : V4 α
  om3ii : V4 α

/-- the body of the bitwiddle template on one ymm of each of the four slices -/
def bitwReg (ar : RArith α) (c : BitwCfg α) (ari bri cri dri : V4 α) : V4 α × V4 α × V4 α × V4 α :=
  let pa := V4.mul ar (c.sh cri) c.om1ii
  let pb := V4.mul ar (c.sh dri) c.om1ii
  let pa := V4.fmaddsub ar cri c.om1rr pa
  let pb := V4.fmaddsub ar dri c.om1rr pb
  let cri := V4.sub ar ari pa
  let dri := V4.sub ar bri pb
  let ari := V4.add ar ari pa
  let bri := V4.add ar bri pb
  let pa := V4.mul ar (c.sh bri) c.om2ii
  let pb := V4.mul ar (c.sh dri) c.om3ii
  let pa := V4.fmaddsub ar bri c.om2rr pa
  let pb := V4.fmaddsub ar dri c.om3rr pb
  let bri := V4.sub ar ari pa
  let dri := V4.sub ar cri pb
  let ari := V4.add ar ari pa
  let cri := V4.add ar cri pb
  (ari, bri, cri, dri)

/-- `for j < n`: load the ymm at `4j` of the four slices (`off` doubles apart), transform, store back -/
def mapV4x4 (z : α) (n off : Nat) (F : Nat → V4 α → V4 α → V4 α → V4 α → V4 α × V4 α × V4 α × V4 α)
    (r : Array α) : Array α :=
  Nat.fold n (fun j _ r =>
    let q := F j (V4.load z r (4 * j)) (V4.load z r (off + 4 * j)) (V4.load z r (2 * off + 4 * j))
      (V4.load z r (3 * off + 4 * j))
    V4.store (V4.store (V4.store (V4.store r (4 * j) q.1) (off + 4 * j) q.2.1) (2 * off + 4 * j) q.2.2.1)
      (3 * off + 4 * j) q.2.2.2) r

/-- constants of `cplx_fftvec_bitwiddle_fma` (as written in the source: `om2rr = om2ii = shuffle(om, 0)`,
    `om3rr = om3ii = shuffle(om, 15)`) -/
def bitwCfgFma (o : V4 α) : BitwCfg α :=
  { sh := V4.shuf5, om1rr := V4.shuf0 o, om1ii := V4.shuf15 o, om2rr := V4.shuf0 o, om2ii := V4.shuf0 o,
    om3rr := V4.shuf15 o, om3ii := V4.shuf15 o }

/-- constants of the upper 256-bit half of a zmm in `cplx_fftvec_bitwiddle_avx512` BEFORE commit 36935af (finding D9):
    the immediates 5 and 15 were 8-bit immediates of `_mm512_shuffle_pd` whose upper nibble is 0, i.e. `shuffle 0`
    on that half -/
def bitwCfgAvx512Hi (o : V4 α) : BitwCfg α :=
  { sh := V4.shuf0, om1rr := V4.shuf0 o, om1ii := V4.shuf0 o, om2rr := V4.shuf0 o, om2ii := V4.shuf0 o,
    om3rr := V4.shuf0 o, om3ii := V4.shuf0 o }

/-- `cplx_fftvec_bitwiddle_fma(precomp, a, slicea, omg)`: slices `a`, `a + OFFSET`, … with
    `OFFSET = slicea / sizeof(double[4])` ymm; one ymm per step, `aend = aa + m/2` -/
def cplxFftvecBitwiddleFma (ar : RArith α) (m slicea : Nat) (a om : Array α) : Array α :=
  let z := ar.zero
  let c := bitwCfgFma (V4.load z om 0)
  mapV4x4 z (ymmCount (m / 2) 1) (4 * (slicea / 32)) (fun _ => bitwReg ar c) a

/-- `cplx_fftvec_bitwiddle_avx512`: `OFFSET = slicea / sizeof(double[8])` zmm; 2 zmm per step,
    `aend = aa + m/4` zmm.  All immediates are 8-bit (`0b01010101`, `0b11111111`, `0`), so both 256-bit halves of
    a zmm carry the constants and the data shuffle of the AVX2 kernel (`bitwCfgFma`) -/
def cplxFftvecBitwiddleAvx512 (ar : RArith α) (m slicea : Nat) (a om : Array α) : Array α :=
  let z := ar.zero
  let c := bitwCfgFma (V4.load z om 0)
  mapV4x4 z (2 * ymmCount (m / 4) 2) (8 * (slicea / 64)) (fun _ => bitwReg ar c) a

/-- `cplx_fftvec_bitwiddle_avx512` BEFORE commit 36935af (finding D9; not reachable from the driver): ymm `j` is the
    lower (`j` even: `bitwCfgFma`) or upper (`j` odd: `bitwCfgAvx512Hi`) half of zmm `j/2` -/
def cplxFftvecBitwiddleAvx512Old (ar : RArith α) (m slicea : Nat) (a om : Array α) : Array α :=
  let z := ar.zero
  let o := V4.load z om 0
  mapV4x4 z (2 * ymmCount (m / 4) 2) (8 * (slicea / 64))
    (fun j => bitwReg ar (if j % 2 == 0 then bitwCfgFma o else bitwCfgAvx512Hi o)) a

/-! ### reference butterflies (spqlios/cplx/cplx_fft_ref.c, compiled without FMA) -/

/-- one butterfly on cells `(ia, ia+1)`, `(ib, ib+1)` of `d`: `(a, b) <- (a + t, a - t)` where `t = T b` -/
@[inline] def butterfly (ar : RArith α) (T : α → α → α × α) (d : Array α) (ia ib : Nat) : Array α :=
  let z := ar.zero
  let a0 := d.getD ia z
  let a1 := d.getD (ia + 1) z
  let t := T (d.getD ib z) (d.getD (ib + 1) z)
  (((d.setIfInBounds ib (ar.sub a0 t.1)).setIfInBounds (ib + 1) (ar.sub a1 t.2)).setIfInBounds ia
    (ar.add a0 t.1)).setIfInBounds (ia + 1) (ar.add a1 t.2)

/-- `ctwiddle`: `re = om0*b0 - om1*b1; im = om0*b1 + om1*b0` -/
@[inline] def ctT (ar : RArith α) (w0 w1 : α) (b0 b1 : α) : α × α :=
  (ar.sub (ar.mul w0 b0) (ar.mul w1 b1), ar.add (ar.mul w0 b1) (ar.mul w1 b0))

/-- `citwiddle`: `re = -om1*b0 - om0*b1; im = -om1*b1 + om0*b0` -/
@[inline] def citT (ar : CArith α) (w0 w1 : α) (b0 b1 : α) : α × α :=
  (ar.sub (ar.mul (ar.neg w1) b0) (ar.mul w0 b1), ar.add (ar.mul (ar.neg w1) b1) (ar.mul w0 b0))

/-- `cplx_twiddle_fft_ref(h, data, powom)`: `ctwiddle(data[i], data[h+i], powom)` for `i < h` -/
def cplxTwiddleFftRef (ar : RArith α) (h : Nat) (data om : Array α) : Array α :=
  let z := ar.zero
  Nat.fold h (fun i _ d => butterfly ar (ctT ar (om.getD 0 z) (om.getD 1 z)) d (2 * i) (2 * (h + i))) data

/-- `cplx_bitwiddle_fft_ref(h, data, powom)`: first `ctwiddle(d0,d2,ω0); ctwiddle(d1,d3,ω0)` for every `i`,
    then `ctwiddle(d0,d1,ω1); citwiddle(d2,d3,ω1)` for every `i` -/
def cplxBitwiddleFftRef (ar : CArith α) (h : Nat) (data om : Array α) : Array α :=
  let z := ar.zero
  let r := ar.toRArith
  let l1 := Nat.fold h (fun i _ d =>
    let d := butterfly r (ctT r (om.getD 0 z) (om.getD 1 z)) d (2 * i) (2 * (2 * h + i))
    butterfly r (ctT r (om.getD 0 z) (om.getD 1 z)) d (2 * (h + i)) (2 * (3 * h + i))) data
  Nat.fold h (fun i _ d =>
    let d := butterfly r (ctT r (om.getD 2 z) (om.getD 3 z)) d (2 * i) (2 * (h + i))
    butterfly r (citT ar (om.getD 2 z) (om.getD 3 z)) d (2 * (2 * h + i)) (2 * (3 * h + i))) l1

end cplx

/-! ## 4. small utilities (spqlios/commons_private.c, arithmetic/module_api.c, arithmetic/vec_znx_big.c) -/

/-- `revbits(nbits, value)` on uint32: `for i < nbits: res = (res << 1) + (value & 1); value >>= 1` -/
def revbits (nbits value : Nat) : Nat :=
  (Nat.fold nbits (fun _ _ (st : Nat × Nat) => ((st.1 * 2 + st.2 % 2) % 4294967296, st.2 / 2)) (0, value % 4294967296)).1

/-- `ceilto32b(size) = (size + 31) & -32` on uint64 (`& -32` clears the five low bits) -/
def ceilto32b (size : Nat) : Nat := (size + 31) % 18446744073709551616 / 32 * 32
/-- `ceilto64b(size) = (size + 63) & -64` on uint64 -/
def ceilto64b (size : Nat) : Nat := (size + 63) % 18446744073709551616 / 64 * 64

/-- `module_get_n(module)` -/
def moduleGetN (nn : Nat) : Nat := nn
/-- `vec_znx_big_range_normalize_base2k_tmp_bytes(module)` (fft64 modules): `nn * sizeof(int64_t)` -/
def rangeNormalizeTmpBytes (nn : Nat) : Nat := nn * 8

/-- the placeholder entry points of commons.c (`UNDEFINED_*`, `NOT_IMPLEMENTED_*`): each body is the macro
    `UNDEFINED()` / `NOT_IMPLEMENTED()`, i.e. a message and `abort()`, whatever the arguments -/
def placeholderStubs : List String :=
  ["UNDEFINED_p_ii", "UNDEFINED_p_uu", "UNDEFINED_dp_pi", "UNDEFINED_vp_pi", "UNDEFINED_vp_pu", "UNDEFINED_v_vpdp",
   "UNDEFINED_v_vpvp", "NOT_IMPLEMENTED_dp_i", "NOT_IMPLEMENTED_vp_i", "NOT_IMPLEMENTED_vp_u", "NOT_IMPLEMENTED_v_dp",
   "NOT_IMPLEMENTED_v_vp", "NOT_IMPLEMENTED_v_idpdpdp", "NOT_IMPLEMENTED_v_uvpcvpcvp", "NOT_IMPLEMENTED_v_uvpvpcvp"]
/-- outcome of calling placeholder `name`: `some none` = the process aborts; `none` = no such function -/
def callPlaceholder (name : String) : Option (Option Unit) := if placeholderStubs.contains name then some none else none

end Cover
end Spq
