/-
  CIR: a small deep-embedded imperative IR for the C subset used by the integer coefficient kernels of
  `spqlios/coeffs/coeffs_arithmetic.c`, with a total fuel-bounded interpreter.  Core Lean only.

  `tools/c2lean.py` translates the C source (clang JSON AST) of each kernel into a term of type `Fn`
  (file `Gen/CSrc.lean`, regenerated on every run); `SpqProofs/Properties/Src.lean` proves that
  executing the generated term equals the hand-written model of `Spq/Coeffs.lean` for all inputs.

  Semantics fixed here (the trusted base of the source tie, see also the header of tools/c2lean.py):
  * values are mathematical `Int`s; every integer type has a range and `Ty.wrap` reduces an exact result
    into it (LP64: `unsigned long`/`uint64_t` = u64, `long`/`int64_t` = i64, `int` = i32, `unsigned` = u32).
    Signed overflow wraps (what the compiled two's-complement code does; `Spq/Mach.lean` `addS/subS/negS`).
  * `double` values are opaque 64-bit patterns (naturals `< 2^64`); negation/addition/subtraction are the
    binary64 operations of `Spq/F64.lean`.
  * memory = array of buffers of 64-bit cells; a pointer parameter is bound to `(buffer, offset)` so two
    parameters may alias (same buffer) exactly or partially.  Every access is bounds-checked (`Err.oob`).
  * scalars live in numbered slots (parameters first, then locals in order of declaration); the translator
    gives every C declaration its own slot, so block scoping/shadowing needs no run-time treatment.
  * expressions have no side effects (the translator accepts `=`, `op=`, `++`, `--` only as statements).
  * loops consume one unit of fuel per iteration; straight-line code consumes none.
  * constructs of the q120 reference sources (`Properties/SrcQ120.lean`): unsigned `%` (`BinOp.mod`, zero divisor
    = `Err.ub`); `&` on signed operands (on the two's-complement patterns); element access through a pointer
    LOCAL (`Expr.pload` / `Stmt.pstore`, the `p[i]` form of a `uint64_t*` view); the uint32 view of a buffer of
    64-bit cells, little endian (`Expr.pload32` / `Stmt.pstore32`: word `o` is half `o % 2` of cell `o / 2`, a
    store is a read-modify-write of the cell, `half32` / `setHalf32`); local arrays (`uint64_t s[8]`) as `len`
    consecutive slots with a bounds-checked index (`Expr.avar` / `Stmt.aset`, out of range = `Err.oob`).
  * opaque calls (`Stmt.extcall name scalars pointers`, the arithmetic kernels of the FFT64 module layer reached
    through a MODULE's precomputation objects): their effect on the memory is the `ExtSem` PARAMETER of the
    interpreter (`execS K`, `execK`, `runK`); `exec` / `run` (all earlier properties) use `ExtSem.none`, under which an
    `extcall` is `Err.unsupported`.  Opaque calls consume no fuel.  `Properties/SrcMod*.lean` instantiate `K` with the
    kernel record of `Spq/ModuleHeap.lean` (`SpqProofs/Lemmas/SrcMod.lean`, `modSem`).
-/
import Spq.Mach
import Spq.F64
namespace Spq.CIR

inductive Ty | u64 | i64 | u32 | i32 | f64
  deriving DecidableEq, Repr, Inhabited

inductive Err
  | fuel         -- the iteration budget was exhausted
  | oob          -- access outside the buffer a pointer is bound to
  | null         -- access through a null pointer
  | overlap      -- memcpy with partially overlapping ranges
  | ub           -- shift amount out of range
  | unsupported  -- ill-typed operation (translator bug) or byte count that is not a multiple of 8
  deriving DecidableEq, Repr, Inhabited

/-- result of a computation -/
inductive R (α : Type) where
  | ok (a : α)
  | err (e : Err)
  deriving Repr, DecidableEq

@[inline] def R.bind {α β : Type} (x : R α) (f : α → R β) : R β :=
  match x with
  | .ok a => f a
  | .err e => .err e

@[simp] theorem R.bind_ok {α β : Type} (a : α) (f : α → R β) : (R.ok a).bind f = f a := rfl
@[simp] theorem R.bind_err {α β : Type} (e : Err) (f : α → R β) : (R.err e : R α).bind f = .err e := rfl

/-- reduce an exact integer into the range of the type -/
@[inline] def Ty.wrap : Ty → Int → Int
  | .u64, x => x % 18446744073709551616
  | .i64, x => wrapS x
  | .u32, x => x % 4294967296
  | .i32, x => (x + 2147483648) % 4294967296 - 2147483648
  | .f64, x => x % 18446744073709551616

def Ty.bits : Ty → Nat
  | .u64 => 64 | .i64 => 64 | .u32 => 32 | .i32 => 32 | .f64 => 64

def Ty.isUnsigned : Ty → Bool
  | .u64 => true | .u32 => true | _ => false

inductive UnOp | neg | bnot | lnot
  deriving DecidableEq, Repr
inductive BinOp | add | sub | mul | band | bor | bxor | shl | shr | lt | le | gt | ge | eq | ne | mod
  deriving DecidableEq, Repr

/-- binary64 operations on patterns stored as `Int` -/
@[inline] def fneg (x : Int) : Int := (F64.neg x.toNat : Nat)
@[inline] def fadd (x y : Int) : Int := (F64.add x.toNat y.toNat : Nat)
@[inline] def fsub (x y : Int) : Int := (F64.sub x.toNat y.toNat : Nat)
@[inline] def fmul (x y : Int) : Int := (F64.mul x.toNat y.toNat : Nat)

/-- coefficient operations on binary64 cells (patterns as `Int`): the `double` instance of the polymorphic
    kernels of `Spq/Coeffs.lean` as the interpreter computes them -/
def f64Ops : Ops Int := { zero := 0, neg := fneg, add := fadd, sub := fsub }

def evalUn (op : UnOp) (ty : Ty) (x : Int) : R Int :=
  match op with
  | .neg => if ty = .f64 then .ok (fneg x) else .ok (ty.wrap (-x))
  | .bnot => if ty = .f64 then .err .unsupported else .ok (ty.wrap (-x - 1))
  | .lnot => .ok (if x = 0 then 1 else 0)

@[inline] def b2i (b : Bool) : Int := if b then 1 else 0

/-- `ty` is the common type of the operands after the usual arithmetic conversions (for shifts: the
    promoted type of the left operand). -/
def evalBin (op : BinOp) (ty : Ty) (x y : Int) : R Int :=
  match op with
  | .add => if ty = .f64 then .ok (fadd x y) else .ok (ty.wrap (x + y))
  | .sub => if ty = .f64 then .ok (fsub x y) else .ok (ty.wrap (x - y))
  | .mul => if ty = .f64 then .ok (fmul x y) else .ok (ty.wrap (x * y))
  | .band =>
    if ty.isUnsigned then .ok ((x.toNat &&& y.toNat : Nat) : Int)
    else if ty = .f64 then .err .unsupported
    -- signed `&`: on the two's-complement bit patterns
    else .ok (ty.wrap (((x % (2:Int) ^ ty.bits).toNat &&& (y % (2:Int) ^ ty.bits).toNat : Nat) : Int))
  | .bor => if ty.isUnsigned then .ok ((x.toNat ||| y.toNat : Nat) : Int) else .err .unsupported
  | .bxor => if ty.isUnsigned then .ok ((x.toNat ^^^ y.toNat : Nat) : Int) else .err .unsupported
  | .shl =>
    if ty = .f64 then .err .unsupported
    else if 0 ≤ y ∧ y < ty.bits then .ok (ty.wrap (x * (2:Int) ^ y.toNat)) else .err .ub
  | .shr =>
    if ty = .f64 then .err .unsupported
    else if 0 ≤ y ∧ y < ty.bits then .ok (x / (2:Int) ^ y.toNat) else .err .ub
  | .lt => if ty = .f64 then .err .unsupported else .ok (b2i (x < y))
  | .le => if ty = .f64 then .err .unsupported else .ok (b2i (x ≤ y))
  | .gt => if ty = .f64 then .err .unsupported else .ok (b2i (x > y))
  | .ge => if ty = .f64 then .err .unsupported else .ok (b2i (x ≥ y))
  | .eq => if ty = .f64 then .err .unsupported else .ok (b2i (x = y))
  | .ne => if ty = .f64 then .err .unsupported else .ok (b2i (x ≠ y))
  -- `%` on unsigned operands (the only use in the translated sources); a zero divisor is undefined behaviour
  | .mod => if ty.isUnsigned then (if y = 0 then .err .ub else .ok (x % y)) else .err .unsupported

/-- base of a pointer expression `base + offset` (offset in 64-bit cells) -/
inductive PBase
  | param (i : Nat)      -- pointer parameter `i`
  | pvar (slot : Nat)    -- pointer local: two slots (buffer index or -1 for null, cell offset)
  | null
  deriving Repr, Inhabited, DecidableEq

inductive Expr
  | lit (v : Int)                               -- literal, already in the range of its type
  | var (slot : Nat)                            -- scalar parameter or local
  | load (ptr : Nat) (idx : Expr)               -- `p[idx]`
  | cast (to : Ty) (e : Expr)                   -- integral conversion
  | un (op : UnOp) (ty : Ty) (e : Expr)
  | bin (op : BinOp) (ty : Ty) (a b : Expr)
  | cond (c a b : Expr)                         -- `c ? a : b`
  | land (a b : Expr)                           -- `a && b` (short circuit)
  | lor (a b : Expr)                            -- `a || b` (short circuit)
  | isNull (ptr : Nat)                          -- `p == 0` for a pointer parameter
  | ptrEq (b1 : PBase) (o1 : Expr) (b2 : PBase) (o2 : Expr)   -- `(b1 + o1) == (b2 + o2)` on pointers
  | ptrLt (b1 : PBase) (o1 : Expr) (b2 : PBase) (o2 : Expr)   -- `(b1 + o1) < (b2 + o2)`, same buffer
  | pload (b : PBase) (o : Expr)                -- `(b + o)[0]`, 64-bit cell, any pointer base
  | pload32 (b : PBase) (o : Expr)              -- `((uint32_t*)b)[o]`: half `o % 2` of cell `b + o / 2` (little endian)
  | avar (base len : Nat) (idx : Expr)          -- element `idx` of a local array held in slots `base … base+len-1`
  deriving Repr, Inhabited

/-- vector expressions of the AVX kernels: `lanes` consecutive 64-bit cells (`__m256i` = 4, `__m128i` = 2) -/
inductive VExpr
  | vload (lanes : Nat) (b : PBase) (o : Expr)   -- `_mm256_loadu_si256(p)` / `_mm_loadu_si128(p)`
  | vadd (a b : VExpr)                           -- `_mm256_add_epi64` / `_mm_add_epi64`: lane-wise, wrapping
  | vsub (a b : VExpr)                           -- `_mm256_sub_epi64` / `_mm_sub_epi64`
  | vset1 (lanes : Nat) (e : Expr)               -- `_mm256_set1_epi64x(e)` / `_mm_set1_epi64x(e)`
  deriving Repr, Inhabited

inductive Stmt
  | skip
  | assign (slot : Nat) (e : Expr)              -- `x = e;` and initialised declarations
  | store (ptr : Nat) (idx e : Expr)            -- `p[idx] = e;`
  | seq (a b : Stmt)
  | ite (c : Expr) (t e : Stmt)
  | while (c : Expr) (body : Stmt)
  | for (init : Stmt) (c : Expr) (inc body : Stmt)
  | doWhile (body : Stmt) (c : Expr)
  | memcpy (dst src : Nat) (bytes : Expr)
  | memset (dst : Nat) (elt : Ty) (val bytes : Expr)
  | passign (slot : Nat) (b : PBase) (o : Expr)  -- pointer local `= b + o`
  | vstore (lanes : Nat) (b : PBase) (o : Expr) (v : VExpr)   -- `_mm256_storeu_si256(p, v)` / `_mm_storeu_si128`
  /-- call of another translated function (`body`, `nslots` of the callee) with scalar arguments `sargs` and
      pointer arguments `base + offset`; the callee runs on a fresh environment and the caller's memory -/
  | call (body : Stmt) (nslots : Nat) (sargs : List Expr) (pargs : List (PBase × Expr))
  | ret                                          -- `return;`
  | cont                                         -- `continue;`
  | pstore (b : PBase) (o e : Expr)              -- `(b + o)[0] = e;`
  | pstore32 (b : PBase) (o e : Expr)            -- `((uint32_t*)b)[o] = e;` (the other half of the cell is kept)
  | aset (base len : Nat) (idx e : Expr)         -- `a[idx] = e;` on a local array
  /-- call of a function the translator keeps OPAQUE (an arithmetic kernel reached through a function pointer or a
      precomputation object of a MODULE: `reim_fft(module->mod.fft64.p_fft, p)`, `reim4_*`, …): its effect on the
      memory is given by the `ExtSem` parameter of the interpreter -/
  | extcall (name : String) (sargs : List Expr) (pargs : List (PBase × Expr))
  deriving Repr, Inhabited

/-- binding of a pointer parameter: `none` = null, `some (b, off)` = cell `off` of buffer `b` -/
abbrev Ptr := Option (Nat × Nat)
abbrev Mem := Array (Array Int)

/-- semantics of the opaque calls (`Stmt.extcall`): name, scalar arguments, pointer arguments, memory ↦ memory.
    A PARAMETER of the interpreter (`execS`, `execK`, `runK`); `exec` / `run` use `ExtSem.none`. -/
abbrev ExtSem := String → List Int → List Ptr → Mem → R Mem
def ExtSem.none : ExtSem := fun _ _ _ _ => .err .unsupported

structure State where
  env : List Int
  mem : Mem

inductive Flow | norm | cont | ret
  deriving DecidableEq, Repr

/-! ### slots -/
def lget : List Int → Nat → Int
  | [], _ => 0
  | x :: _, 0 => x
  | _ :: xs, n + 1 => lget xs n

def lset : List Int → Nat → Int → List Int
  | [], _, _ => []
  | _ :: xs, 0, v => v :: xs
  | x :: xs, n + 1, v => x :: lset xs n v

/-! ### memory -/
@[inline] def buf (m : Mem) (b : Nat) : Array Int := m.getD b #[]

def loadCell (m : Mem) (p : Ptr) (i : Int) : R Int :=
  match p with
  | none => .err .null
  | some (b, off) =>
    let c : Int := (off : Int) + i
    if 0 ≤ c ∧ c < ((buf m b).size : Int) then .ok ((buf m b).getD c.toNat 0) else .err .oob

def storeCell (m : Mem) (p : Ptr) (i : Int) (v : Int) : R Mem :=
  match p with
  | none => .err .null
  | some (b, off) =>
    let c : Int := (off : Int) + i
    if 0 ≤ c ∧ c < ((buf m b).size : Int) then .ok (m.modify b fun a => a.setIfInBounds c.toNat v)
    else .err .oob

/-- `dst` with cells `[od, od+c)` replaced by `src[os .. os+c)` -/
def blit (src : Array Int) (os : Nat) (dst : Array Int) (od c : Nat) : Array Int :=
  Array.ofFn (n := dst.size) fun i =>
    if od ≤ i.val ∧ i.val < od + c then src.getD (os + (i.val - od)) 0 else dst[i]

/-- `dst` with cells `[od, od+c)` replaced by `v` -/
def fill (dst : Array Int) (od c : Nat) (v : Int) : Array Int :=
  Array.ofFn (n := dst.size) fun i => if od ≤ i.val ∧ i.val < od + c then v else dst[i]

def memcpyCells (m : Mem) (d s : Ptr) (bytes : Int) : R Mem :=
  match d, s with
  | some (bd, od), some (bs, os) =>
    if bytes < 0 ∨ bytes % 8 ≠ 0 then .err .unsupported
    else
      let c := (bytes / 8).toNat
      if od + c ≤ (buf m bd).size ∧ os + c ≤ (buf m bs).size then
        if bd = bs ∧ od ≠ os ∧ od < os + c ∧ os < od + c then .err .overlap
        else .ok (m.setIfInBounds bd (blit (buf m bs) os (buf m bd) od c))
      else .err .oob
  | _, _ => .err .null

/-- the 64-bit cell obtained by repeating the byte `val mod 256`, as a value of the element type -/
def memsetPattern (elt : Ty) (val : Int) : Int := elt.wrap ((val % 256) * 72340172838076673)

def memsetCells (m : Mem) (d : Ptr) (elt : Ty) (val bytes : Int) : R Mem :=
  match d with
  | some (bd, od) =>
    if bytes < 0 ∨ bytes % 8 ≠ 0 ∨ elt.bits ≠ 64 then .err .unsupported
    else
      let c := (bytes / 8).toNat
      if od + c ≤ (buf m bd).size then .ok (m.setIfInBounds bd (fill (buf m bd) od c (memsetPattern elt val)))
      else .err .oob
  | none => .err .null

/-! ### expressions -/
/-! ### pointer values -/
/-- a pointer local lives in two consecutive slots -/
def decPtr (env : List Int) (s : Nat) : Ptr :=
  if lget env s < 0 then none else some ((lget env s).toNat, (lget env (s + 1)).toNat)

def encPtr (env : List Int) (s : Nat) (p : Ptr) : List Int :=
  match p with
  | none => lset (lset env s (-1)) (s + 1) 0
  | some (b, o) => lset (lset env s (b : Int)) (s + 1) (o : Int)

/-- value of `base + v` (cells).  Arithmetic on a null pointer keeps it null; leaving the non-negative
    offsets is reported as out of bounds. -/
def ptrAt (Γ : List Ptr) (env : List Int) (b : PBase) (v : Int) : R Ptr :=
  let base : Ptr := match b with
    | .param i => Γ.getD i none
    | .pvar s => decPtr env s
    | .null => none
  match base with
  | none => .ok none
  | some (bf, off) => if 0 ≤ (off : Int) + v then .ok (some (bf, ((off : Int) + v).toNat)) else .err .oob

/-- pointer ordering: defined inside one buffer only -/
def ptrLtVal (p q : Ptr) : R Int :=
  match p, q with
  | some (b1, o1), some (b2, o2) => if b1 = b2 then .ok (b2i (o1 < o2)) else .err .ub
  | _, _ => .err .null

/-- the 32-bit half `h` (0 = low, 1 = high) of a 64-bit cell (any representative of its bit pattern) -/
@[inline] def half32 (c : Int) (h : Int) : Int :=
  if h = 0 then (c % 18446744073709551616) % 4294967296 else (c % 18446744073709551616) / 4294967296

/-- the cell with half `h` replaced by the low 32 bits of `v` -/
@[inline] def setHalf32 (c : Int) (h : Int) (v : Int) : Int :=
  if h = 0 then ((c % 18446744073709551616) / 4294967296) * 4294967296 + v % 4294967296
  else (c % 18446744073709551616) % 4294967296 + (v % 4294967296) * 4294967296

def eval (Γ : List Ptr) (σ : State) : Expr → R Int
  | .lit v => .ok v
  | .var x => .ok (lget σ.env x)
  | .load p i => (eval Γ σ i).bind fun iv => loadCell σ.mem (Γ.getD p none) iv
  | .cast t e => (eval Γ σ e).bind fun v => .ok (t.wrap v)
  | .un op t e => (eval Γ σ e).bind fun v => evalUn op t v
  | .bin op t a b => (eval Γ σ a).bind fun x => (eval Γ σ b).bind fun y => evalBin op t x y
  | .cond c a b => (eval Γ σ c).bind fun cv => if cv ≠ 0 then eval Γ σ a else eval Γ σ b
  | .land a b => (eval Γ σ a).bind fun x =>
      if x = 0 then .ok 0 else (eval Γ σ b).bind fun y => .ok (if y = 0 then 0 else 1)
  | .lor a b => (eval Γ σ a).bind fun x =>
      if x ≠ 0 then .ok 1 else (eval Γ σ b).bind fun y => .ok (if y = 0 then 0 else 1)
  | .isNull p => .ok (if (Γ.getD p none).isNone then 1 else 0)
  | .ptrEq b1 o1 b2 o2 =>
    (eval Γ σ o1).bind fun v1 => (eval Γ σ o2).bind fun v2 =>
      (ptrAt Γ σ.env b1 v1).bind fun p1 => (ptrAt Γ σ.env b2 v2).bind fun p2 => .ok (b2i (p1 = p2))
  | .ptrLt b1 o1 b2 o2 =>
    (eval Γ σ o1).bind fun v1 => (eval Γ σ o2).bind fun v2 =>
      (ptrAt Γ σ.env b1 v1).bind fun p1 => (ptrAt Γ σ.env b2 v2).bind fun p2 => ptrLtVal p1 p2
  | .pload b o => (eval Γ σ o).bind fun v => (ptrAt Γ σ.env b v).bind fun p => loadCell σ.mem p 0
  | .pload32 b o => (eval Γ σ o).bind fun v =>
      if v < 0 then .err .oob
      else (ptrAt Γ σ.env b (v / 2)).bind fun p => (loadCell σ.mem p 0).bind fun c => .ok (half32 c (v % 2))
  | .avar base len idx => (eval Γ σ idx).bind fun v =>
      if 0 ≤ v ∧ v < (len : Int) then .ok (lget σ.env (base + v.toNat)) else .err .oob

/-- condition of `if` / loops -/
def evalB (Γ : List Ptr) (c : Expr) (σ : State) : R Bool :=
  (eval Γ σ c).bind fun v => .ok (decide (v ≠ 0))

/-! ### statements -/
abbrev Out := R (Flow × State)

/-- `while (c) step`: one unit of fuel per iteration; `step` receives the remaining fuel. -/
def loopN (c : State → R Bool) (step : Nat → State → Out) : Nat → State → Out
  | 0, σ =>
    match c σ with
    | .err e => .err e
    | .ok false => .ok (.norm, σ)
    | .ok true => .err .fuel
  | f + 1, σ =>
    match c σ with
    | .err e => .err e
    | .ok false => .ok (.norm, σ)
    | .ok true =>
      match step f σ with
      | .err e => .err e
      | .ok (.ret, σ') => .ok (.ret, σ')
      | .ok (_, σ') => loopN c step f σ'

/-- run `k` after `x` when `x` completes normally or by `continue` -/
@[inline] def thenStep (x : Out) (k : State → Out) : Out :=
  match x with
  | .err e => .err e
  | .ok (.ret, σ) => .ok (.ret, σ)
  | .ok (_, σ) => k σ

/-- `n` consecutive cells at `p + i`, `p + i + 1`, … -/
def loadLanes (m : Mem) (p : Ptr) : Nat → Nat → R (List Int)
  | _, 0 => .ok []
  | i, n + 1 => (loadCell m p (i : Int)).bind fun v => (loadLanes m p (i + 1) n).bind fun vs => .ok (v :: vs)

def storeLanes (m : Mem) (p : Ptr) : Nat → List Int → R Mem
  | _, [] => .ok m
  | i, v :: vs => (storeCell m p (i : Int) v).bind fun m' => storeLanes m' p (i + 1) vs

def zipLanes (f : Int → Int → Int) : List Int → List Int → R (List Int)
  | [], [] => .ok []
  | x :: xs, y :: ys => (zipLanes f xs ys).bind fun r => .ok (f x y :: r)
  | _, _ => .err .unsupported

def evalV (Γ : List Ptr) (σ : State) : VExpr → R (List Int)
  | .vload n b o => (eval Γ σ o).bind fun v => (ptrAt Γ σ.env b v).bind fun p => loadLanes σ.mem p 0 n
  | .vadd a b => (evalV Γ σ a).bind fun x => (evalV Γ σ b).bind fun y => zipLanes addS x y
  | .vsub a b => (evalV Γ σ a).bind fun x => (evalV Γ σ b).bind fun y => zipLanes subS x y
  | .vset1 n e => (eval Γ σ e).bind fun v => .ok (List.replicate n (wrapS v))

def evalList (Γ : List Ptr) (σ : State) : List Expr → R (List Int)
  | [] => .ok []
  | e :: es => (eval Γ σ e).bind fun v => (evalList Γ σ es).bind fun vs => .ok (v :: vs)

def evalPtrs (Γ : List Ptr) (σ : State) : List (PBase × Expr) → R (List Ptr)
  | [] => .ok []
  | (b, o) :: ps => (eval Γ σ o).bind fun v => (ptrAt Γ σ.env b v).bind fun p =>
      (evalPtrs Γ σ ps).bind fun qs => .ok (p :: qs)

/-- result of a call: the callee's final memory, the caller's environment -/
def callRet (σ : State) (x : Out) : Out :=
  match x with
  | .ok (_, σ') => .ok (.norm, { σ with mem := σ'.mem })
  | .err e => .err e

def execS (K : ExtSem) : Stmt → List Ptr → Nat → State → Out
  | .skip, _, _, σ => .ok (.norm, σ)
  | .assign x e, Γ, _, σ => (eval Γ σ e).bind fun v => .ok (.norm, { σ with env := lset σ.env x v })
  | .store p i e, Γ, _, σ =>
    (eval Γ σ i).bind fun iv => (eval Γ σ e).bind fun v =>
      (storeCell σ.mem (Γ.getD p none) iv v).bind fun m => .ok (.norm, { σ with mem := m })
  | .seq a b, Γ, f, σ =>
    match execS K a Γ f σ with
    | .ok (.norm, σ') => execS K b Γ f σ'
    | r => r
  | .ite c t e, Γ, f, σ => (evalB Γ c σ).bind fun b => if b then execS K t Γ f σ else execS K e Γ f σ
  | .while c b, Γ, f, σ => loopN (evalB Γ c) (fun f σ => execS K b Γ f σ) f σ
  | .for i c inc b, Γ, f, σ =>
    match execS K i Γ f σ with
    | .ok (.norm, σ1) =>
      loopN (evalB Γ c) (fun f σ => thenStep (execS K b Γ f σ) fun σ' => execS K inc Γ f σ') f σ1
    | r => r
  | .doWhile b c, Γ, f, σ =>
    thenStep (execS K b Γ f σ) fun σ' => loopN (evalB Γ c) (fun f σ => execS K b Γ f σ) f σ'
  | .memcpy d s n, Γ, _, σ =>
    (eval Γ σ n).bind fun nv =>
      (memcpyCells σ.mem (Γ.getD d none) (Γ.getD s none) nv).bind fun m => .ok (.norm, { σ with mem := m })
  | .memset d t v n, Γ, _, σ =>
    (eval Γ σ v).bind fun vv => (eval Γ σ n).bind fun nv =>
      (memsetCells σ.mem (Γ.getD d none) t vv nv).bind fun m => .ok (.norm, { σ with mem := m })
  | .passign s b o, Γ, _, σ =>
    (eval Γ σ o).bind fun v => (ptrAt Γ σ.env b v).bind fun p => .ok (.norm, { σ with env := encPtr σ.env s p })
  | .vstore n b o v, Γ, _, σ =>
    (eval Γ σ o).bind fun ov => (ptrAt Γ σ.env b ov).bind fun p => (evalV Γ σ v).bind fun vs =>
      if vs.length = n then (storeLanes σ.mem p 0 vs).bind fun m => .ok (.norm, { σ with mem := m })
      else .err .unsupported
  | .call body nslots sargs pargs, Γ, f, σ =>
    (evalList Γ σ sargs).bind fun vs => (evalPtrs Γ σ pargs).bind fun ps =>
      callRet σ (execS K body ps f { env := vs ++ List.replicate (nslots - vs.length) 0, mem := σ.mem })
  | .ret, _, _, σ => .ok (.ret, σ)
  | .cont, _, _, σ => .ok (.cont, σ)
  | .pstore b o e, Γ, _, σ =>
    (eval Γ σ o).bind fun ov => (eval Γ σ e).bind fun v => (ptrAt Γ σ.env b ov).bind fun p =>
      (storeCell σ.mem p 0 v).bind fun m => .ok (.norm, { σ with mem := m })
  | .pstore32 b o e, Γ, _, σ =>
    (eval Γ σ o).bind fun ov => (eval Γ σ e).bind fun v =>
      if ov < 0 then .err .oob
      else (ptrAt Γ σ.env b (ov / 2)).bind fun p => (loadCell σ.mem p 0).bind fun c =>
        (storeCell σ.mem p 0 (setHalf32 c (ov % 2) v)).bind fun m => .ok (.norm, { σ with mem := m })
  | .aset base len idx e, Γ, _, σ =>
    (eval Γ σ idx).bind fun iv => (eval Γ σ e).bind fun v =>
      if 0 ≤ iv ∧ iv < (len : Int) then .ok (.norm, { σ with env := lset σ.env (base + iv.toNat) v })
      else .err .oob
  | .extcall name sargs pargs, Γ, _, σ =>
    (evalList Γ σ sargs).bind fun vs => (evalPtrs Γ σ pargs).bind fun ps =>
      (K name vs ps σ.mem).bind fun m => .ok (.norm, { σ with mem := m })

/-- `exec Γ s fuel σ`: run statement `s` with pointer parameters `Γ` -/
@[reducible] def exec (Γ : List Ptr) (s : Stmt) (f : Nat) (σ : State) : Out := execS ExtSem.none s Γ f σ
/-- the same with a semantics for the opaque calls -/
@[reducible] def execK (K : ExtSem) (Γ : List Ptr) (s : Stmt) (f : Nat) (σ : State) : Out := execS K s Γ f σ

/-! ### functions -/
structure Fn where
  name : String
  /-- types of the scalar parameters, in order (they occupy slots `0 … nscalars-1`) -/
  scalars : List Ty
  /-- element types of the pointer parameters, in order (pointer indices `0 …`) -/
  ptrs : List Ty
  /-- total number of slots (scalar parameters + locals) -/
  nslots : Nat
  body : Stmt
  /-- slot of the result of a value-returning function (`return e;` = `assign ret e; ret`) -/
  ret : Option Nat := none
  deriving Repr, Inhabited

/-- call `fn` with scalar arguments `args` (already values of the parameter types), pointer bindings `Γ`
    and memory `m`; returns the final memory. -/
def memOf : Out → R Mem
  | .ok (_, σ) => .ok σ.mem
  | .err e => .err e

def run (fuel : Nat) (fn : Fn) (args : List Int) (Γ : List Ptr) (m : Mem) : R Mem :=
  memOf (exec Γ fn.body fuel { env := args ++ List.replicate (fn.nslots - args.length) 0, mem := m })

def runK (K : ExtSem) (fuel : Nat) (fn : Fn) (args : List Int) (Γ : List Ptr) (m : Mem) : R Mem :=
  memOf (execK K Γ fn.body fuel { env := args ++ List.replicate (fn.nslots - args.length) 0, mem := m })

/-- the result of a value-returning function (`none`: the function has no result slot) -/
def runVal (fuel : Nat) (fn : Fn) (args : List Int) (Γ : List Ptr) (m : Mem) : R (Option Int) :=
  match exec Γ fn.body fuel { env := args ++ List.replicate (fn.nslots - args.length) 0, mem := m } with
  | .ok (_, σ) => .ok (fn.ret.map fun r => lget σ.env r)
  | .err e => .err e

end Spq.CIR
