/-
  Model of the q120 *arithmetic* (spqlios/q120/q120_arithmetic_{ref,avx2,simple}.c), core Lean only.

  * uint64 lanes are `Nat`s; every C operation that can wrap is followed by an explicit `% 2^64`
    (`add64`, `mul64`), so the model is defined (and bit-exact) on all inputs; the theorems of
    C04/C10 *prove* that no wrap happens on the declared domain.
  * `_mm256_mul_epu32` multiplies the LOW 32 bits of each 64-bit lane: `mulEpu32`.
  * `x & ((1<<H)-1)` / `x >> H` on a 64-bit lane are `x % 2^H` / `x / 2^H` (H < 64).
  * uint32 views of 64-bit lanes (`(uint32_t*)x`, little endian): word 2i = lane % 2^32,
    word 2i+1 = lane / 2^32.
  * the primes, CRT constants, split points `h` and reduced powers of two are PARAMETERS
    (`Q120Params`, `BaaPrecomp`, `BbbPrecomp`, `BbcPrecomp`); the concrete values are read from the
    code on every run (lean/Gen/Q120Consts.lean, lean/Gen/ProdPrecomp.lean).  The floating-point
    search that chooses `h` is not modelled: only its result is used.
  * All product kernels are lane-wise: accumulator lane `j` only ever reads lane `j` of the operands
    (the AVX2 code is SIMD over the 4 lanes, the reference code has an inner `for j < 4`).  The model
    therefore runs one *lane kernel* (`…Lane`, a left fold over the terms of that lane in the order of
    the C loop, with the tuple of accumulators of that lane as state) per output lane.
-/
import Spq.Mach
namespace Spq.Q120

/-- `a + b` on uint64 -/
@[inline] def add64 (a b : Nat) : Nat := (a + b) % 18446744073709551616
/-- `a * b` on uint64 (64×64→64 wrapping multiply of the reference code) -/
@[inline] def mul64 (a b : Nat) : Nat := (a * b) % 18446744073709551616
/-- one lane of `_mm256_mul_epu32`: only the low 32 bits of each operand are used -/
@[inline] def mulEpu32 (a b : Nat) : Nat := (a % 4294967296) * (b % 4294967296)

/-- primes and CRT constants (index = lane 0..3) -/
structure Q120Params where
  q : Nat → Nat
  crt : Nat → Nat

/-- `q120_mat1col_product_baa_precomp` -/
structure BaaPrecomp where
  h : Nat
  hpow : Nat → Nat
/-- `q120_mat1col_product_bbb_precomp` -/
structure BbbPrecomp where
  h : Nat
  s1h : Nat → Nat
  s2l : Nat → Nat
  s2h : Nat → Nat
  s3l : Nat → Nat
  s3h : Nat → Nat
  s4l : Nat → Nat
  s4h : Nat → Nat
/-- `q120_mat1col_product_bbc_precomp` -/
structure BbcPrecomp where
  h : Nat
  s2l : Nat → Nat
  s2h : Nat → Nat

/-- the terms `(x[sx*i+ox], y[sy*i+oy])`, `i < ell`, one lane of a vector-matrix product reads -/
def laneTerms (ell : Nat) (x y : Array Nat) (sx ox sy oy : Nat) : List (Nat × Nat) :=
  (List.range ell).map fun i => (x.getD (sx * i + ox) 0, y.getD (sy * i + oy) 0)

/-! ### a·a → b  (`q120_vec_mat1col_product_baa_{ref,avx2}`) -/

/-- loop body of the reference code, `m = 2^H` -/
def baaRefStep (m : Nat) (s : Nat × Nat) (t : Nat × Nat) : Nat × Nat :=
  let p := mul64 t.1 t.2
  (add64 s.1 (p % m), add64 s.2 (p / m))

def baaRefLane (h hpow : Nat) (l : List (Nat × Nat)) : Nat :=
  let s := l.foldl (baaRefStep (2 ^ h)) (0, 0)
  add64 s.1 (mul64 s.2 hpow)

/-- loop body of the AVX2 code: the product is `_mm256_mul_epu32` -/
def baaAvxStep (m : Nat) (s : Nat × Nat) (t : Nat × Nat) : Nat × Nat :=
  let p := mulEpu32 t.1 t.2
  (add64 s.1 (p % m), add64 s.2 (p / m))

/-- AVX2: the final `acc2 * h_pow_red` is again `_mm256_mul_epu32` -/
def baaAvxLane (h hpow : Nat) (l : List (Nat × Nat)) : Nat :=
  let s := l.foldl (baaAvxStep (2 ^ h)) (0, 0)
  add64 s.1 (mulEpu32 s.2 hpow)

def baaRef (pc : BaaPrecomp) (ell : Nat) (x y : Array Nat) : Array Nat :=
  Array.ofFn (n := 4) fun j' =>
    let j : Nat := j'.val
    baaRefLane pc.h (pc.hpow j) (laneTerms ell x y 4 j 4 j)
def baaAvx (pc : BaaPrecomp) (ell : Nat) (x y : Array Nat) : Array Nat :=
  Array.ofFn (n := 4) fun j' =>
    let j : Nat := j'.val
    baaAvxLane pc.h (pc.hpow j) (laneTerms ell x y 4 j 4 j)

/-! ### b·b → b  (`q120_vec_mat1col_product_bbb_{ref,avx2}`) -/

structure S4 where
  s1 : Nat
  s2 : Nat
  s3 : Nat
  s4 : Nat

def bbbRefStep (s : S4) (t : Nat × Nat) : S4 :=
  let xl := t.1 % 4294967296
  let xh := t.1 / 4294967296
  let yl := t.2 % 4294967296
  let yh := t.2 / 4294967296
  let a := mul64 xl yl
  let b := mul64 xl yh
  let c := mul64 xh yl
  let d := mul64 xh yh
  { s1 := add64 s.s1 (a % 4294967296)
    s2 := add64 s.s2 (add64 (add64 (a / 4294967296) (b % 4294967296)) (c % 4294967296))
    s3 := add64 s.s3 (add64 (add64 (b / 4294967296) (c / 4294967296)) (d % 4294967296))
    s4 := add64 s.s4 (d / 4294967296) }

/-- final recombination of the reference code for lane `j` -/
def bbbRefFinal (pc : BbbPrecomp) (j : Nat) (s : S4) : Nat :=
  let m := 2 ^ pc.h
  let t := s.s1 % m
  let t := add64 t (mul64 (s.s1 / m) (pc.s1h j))
  let t := add64 t (mul64 (s.s2 % m) (pc.s2l j))
  let t := add64 t (mul64 (s.s2 / m) (pc.s2h j))
  let t := add64 t (mul64 (s.s3 % m) (pc.s3l j))
  let t := add64 t (mul64 (s.s3 / m) (pc.s3h j))
  let t := add64 t (mul64 (s.s4 % m) (pc.s4l j))
  add64 t (mul64 (s.s4 / m) (pc.s4h j))

def bbbRefLane (pc : BbbPrecomp) (j : Nat) (l : List (Nat × Nat)) : Nat :=
  bbbRefFinal pc j (l.foldl bbbRefStep ⟨0, 0, 0, 0⟩)

def bbbAvxStep (s : S4) (t : Nat × Nat) : S4 :=
  let xl := t.1 % 4294967296
  let xh := t.1 / 4294967296
  let yl := t.2 % 4294967296
  let yh := t.2 / 4294967296
  let a := mulEpu32 xl yl
  let b := mulEpu32 xl yh
  let c := mulEpu32 xh yl
  let d := mulEpu32 xh yh
  { s1 := add64 s.s1 (a % 4294967296)
    s2 := add64 (add64 (add64 s.s2 (a / 4294967296)) (b % 4294967296)) (c % 4294967296)
    s3 := add64 (add64 (add64 s.s3 (b / 4294967296)) (c / 4294967296)) (d % 4294967296)
    s4 := add64 s.s4 (d / 4294967296) }

def bbbAvxFinal (pc : BbbPrecomp) (j : Nat) (s : S4) : Nat :=
  let m := 2 ^ pc.h
  let t := add64 (s.s1 % m) (mulEpu32 (s.s1 / m) (pc.s1h j))
  let t := add64 t (mulEpu32 (s.s2 % m) (pc.s2l j))
  let t := add64 t (mulEpu32 (s.s2 / m) (pc.s2h j))
  let t := add64 t (mulEpu32 (s.s3 % m) (pc.s3l j))
  let t := add64 t (mulEpu32 (s.s3 / m) (pc.s3h j))
  let t := add64 t (mulEpu32 (s.s4 % m) (pc.s4l j))
  add64 t (mulEpu32 (s.s4 / m) (pc.s4h j))

def bbbAvxLane (pc : BbbPrecomp) (j : Nat) (l : List (Nat × Nat)) : Nat :=
  bbbAvxFinal pc j (l.foldl bbbAvxStep ⟨0, 0, 0, 0⟩)

def bbbRef (pc : BbbPrecomp) (ell : Nat) (x y : Array Nat) : Array Nat :=
  Array.ofFn (n := 4) fun j' =>
    let j : Nat := j'.val
    bbbRefLane pc j (laneTerms ell x y 4 j 4 j)
def bbbAvx (pc : BbbPrecomp) (ell : Nat) (x y : Array Nat) : Array Nat :=
  Array.ofFn (n := 4) fun j' =>
    let j : Nat := j'.val
    bbbAvxLane pc j (laneTerms ell x y 4 j 4 j)

/-! ### b·c → b  (`q120_vec_mat1col_product_bbc_{ref,avx2}`, `q120x2_vec_mat{1col,2cols}_product_bbc_{ref,avx2}`)
  A layout-c element is 8 uint32 `(y0, y1)` per prime; the same memory seen as 4 uint64 lanes has
  `y0 = lane % 2^32`, `y1 = lane / 2^32`.  The term list holds `(x lane, y lane)`. -/

/-- `accum_mul_q120_bc` (reference), one prime: operands are read through a uint32 view -/
def bbcRefStep (s : Nat × Nat) (t : Nat × Nat) : Nat × Nat :=
  let xlo := t.1 % 4294967296
  let xhi := t.1 / 4294967296
  let ylo := t.2 % 4294967296
  let yhi := t.2 / 4294967296
  let xylo := mul64 xlo ylo
  let xyhi := mul64 xhi yhi
  (add64 s.1 (add64 (xylo % 4294967296) (xyhi % 4294967296)),
   add64 s.2 (add64 (xylo / 4294967296) (xyhi / 4294967296)))

/-- `accum_to_q120b` (reference), one prime -/
def bbcRefFinal (pc : BbcPrecomp) (j : Nat) (s : Nat × Nat) : Nat :=
  let m := 2 ^ pc.h
  let t := s.1
  let t := add64 t (mul64 (s.2 % m) (pc.s2l j))
  add64 t (mul64 (s.2 / m) (pc.s2h j))

def bbcRefLane (pc : BbcPrecomp) (j : Nat) (l : List (Nat × Nat)) : Nat :=
  bbcRefFinal pc j (l.foldl bbcRefStep (0, 0))

/-- loop body of `q120_vec_mat1col_product_bbc_avx2` (explicit masks, then `mul_epu32`) -/
def bbcAvxStep (s : Nat × Nat) (t : Nat × Nat) : Nat × Nat :=
  let xl := t.1 % 4294967296
  let xh := t.1 / 4294967296
  let y0 := t.2 % 4294967296
  let y1 := t.2 / 4294967296
  let a := mulEpu32 xl y0
  let b := mulEpu32 xh y1
  (add64 (add64 s.1 (a % 4294967296)) (b % 4294967296),
   add64 (add64 s.2 (a / 4294967296)) (b / 4294967296))

/-- loop body of the two `q120x2_…_bbc_avx2` kernels: the low halves are NOT masked, `mul_epu32`
  is applied to the raw lanes (it ignores their high halves) -/
def bbcAvxX2Step (s : Nat × Nat) (t : Nat × Nat) : Nat × Nat :=
  let a := mulEpu32 t.1 t.2
  let b := mulEpu32 (t.1 / 4294967296) (t.2 / 4294967296)
  (add64 (add64 s.1 (a % 4294967296)) (b % 4294967296),
   add64 (add64 s.2 (a / 4294967296)) (b / 4294967296))

def bbcAvxFinal (pc : BbcPrecomp) (j : Nat) (s : Nat × Nat) : Nat :=
  let m := 2 ^ pc.h
  let t := add64 s.1 (mulEpu32 (s.2 % m) (pc.s2l j))
  add64 t (mulEpu32 (s.2 / m) (pc.s2h j))

def bbcAvxLane (pc : BbcPrecomp) (j : Nat) (l : List (Nat × Nat)) : Nat :=
  bbcAvxFinal pc j (l.foldl bbcAvxStep (0, 0))
def bbcAvxX2Lane (pc : BbcPrecomp) (j : Nat) (l : List (Nat × Nat)) : Nat :=
  bbcAvxFinal pc j (l.foldl bbcAvxX2Step (0, 0))

def bbcRef (pc : BbcPrecomp) (ell : Nat) (x y : Array Nat) : Array Nat :=
  Array.ofFn (n := 4) fun j' =>
    let j : Nat := j'.val
    bbcRefLane pc j (laneTerms ell x y 4 j 4 j)
def bbcAvx (pc : BbcPrecomp) (ell : Nat) (x y : Array Nat) : Array Nat :=
  Array.ofFn (n := 4) fun j' =>
    let j : Nat := j'.val
    bbcAvxLane pc j (laneTerms ell x y 4 j 4 j)

/-- terms of output lane `r` (`r < 8`: block `r/4`, prime `r%4`) of `q120x2_vec_mat1col_product_bbc`:
  row `i` of `x` and of `y` is 2 blocks of 4 lanes -/
def x2Col1Terms (ell : Nat) (x y : Array Nat) (r : Nat) : List (Nat × Nat) :=
  laneTerms ell x y 8 r 8 r
/-- terms of output lane `r` (`r < 16`: result `r/4`, prime `r%4`) of `q120x2_vec_mat2cols_product_bbc`:
  `res[0] = Σ x[i][0]·y[i][0]`, `res[1] = Σ x[i][1]·y[i][1]`, `res[2] = Σ x[i][0]·y[i][2]`,
  `res[3] = Σ x[i][1]·y[i][3]`; a row of `x` is 8 lanes, a row of `y` 16 lanes -/
def x2Col2Terms (ell : Nat) (x y : Array Nat) (r : Nat) : List (Nat × Nat) :=
  laneTerms ell x y 8 (4 * ((r / 4) % 2) + r % 4) 16 r

def x2Col1Ref (pc : BbcPrecomp) (ell : Nat) (x y : Array Nat) : Array Nat :=
  Array.ofFn (n := 8) fun r' =>
    let r : Nat := r'.val
    bbcRefLane pc (r % 4) (x2Col1Terms ell x y r)
def x2Col1Avx (pc : BbcPrecomp) (ell : Nat) (x y : Array Nat) : Array Nat :=
  Array.ofFn (n := 8) fun r' =>
    let r : Nat := r'.val
    bbcAvxX2Lane pc (r % 4) (x2Col1Terms ell x y r)
def x2Col2Ref (pc : BbcPrecomp) (ell : Nat) (x y : Array Nat) : Array Nat :=
  Array.ofFn (n := 16) fun r' =>
    let r : Nat := r'.val
    bbcRefLane pc (r % 4) (x2Col2Terms ell x y r)
def x2Col2Avx (pc : BbcPrecomp) (ell : Nat) (x y : Array Nat) : Array Nat :=
  Array.ofFn (n := 16) fun r' =>
    let r : Nat := r'.val
    bbcAvxX2Lane pc (r % 4) (x2Col2Terms ell x y r)

/-! ### block extract / save (plain copies of 8 lanes; `nn` is only used as the row pitch) -/

/-- `q120x2_extract_1blk_from_q120b_ref(nn, blk, dst, src)`: the new content of `dst[0..8)` -/
def extract1blk (_nn blk : Nat) (src : Array Nat) : Array Nat :=
  Array.ofFn (n := 8) fun i' =>
    let i : Nat := i'.val
    src.getD (8 * blk + i) 0

/-- `q120x2_extract_1blk_from_contiguous_q120b_ref`: `dst[8*row+i] = src[4*nn*row + 8*blk + i]` -/
def extractContiguous (nn nrows blk : Nat) (src : Array Nat) : Array Nat :=
  Array.ofFn (n := 8 * nrows) fun k' =>
    let k : Nat := k'.val
    src.getD (4 * nn * (k / 8) + 8 * blk + k % 8) 0

/-- `q120x2b_save_1blk_to_q120b_ref(nn, blk, dest, src)`: the new content of the whole `dest` -/
def save1blk (_nn blk : Nat) (dest src : Array Nat) : Array Nat :=
  (List.range 8).foldl (fun d i => d.setIfInBounds (8 * blk + i) (src.getD i 0)) dest

/-! ### `_simple` conversions, one q120 element (4 primes) at a time -/

/-- `x % ((uint64_t)Q << 33) + y % ((uint64_t)Q << 33)` -/
def addBbbLane (q x y : Nat) : Nat :=
  let m := (q * 8589934592) % 18446744073709551616
  add64 (x % m) (y % m)

/-- `(uint32_t)(((uint64_t)x + (uint64_t)y) % Q)` on two uint32 words -/
def addCccWord (q x y : Nat) : Nat := (add64 x y % q) % 4294967296

/-- one prime of `q120_c_from_b_simple`: `(x % Q, ((uint64_t)(x % Q) << 32) % Q)` as uint32 words -/
def cFromBLane (q x : Nat) : Nat × Nat :=
  let r0 := (x % q) % 4294967296
  (r0, (mul64 r0 4294967296 % q) % 4294967296)

/-- `OQ[k] = Q - (2^63 % Q)` -/
def oq (q : Nat) : Nat := q - 9223372036854775808 % q

/-- one prime of `q120_b_from_znx64_simple`; `x` is an int64 -/
def bFromZnx64Lane (q : Nat) (x : Int) : Nat :=
  let xu := toU x
  let lo := xu % 9223372036854775808            -- x & MASK_LO
  let hi := xu / 9223372036854775808            -- sign bit (x & MASK_HI) != 0
  add64 lo (if hi != 0 then oq q else 0)

/-- `posmod(x, q)` on int64 -/
def posmod (x q : Int) : Int :=
  let t := Int.tmod x q
  if t < 0 then wrapS (t + q) else t

/-- one prime of `q120_c_from_znx64_simple` -/
def cFromZnx64Lane (q : Nat) (x : Int) : Nat × Nat :=
  let r0 := (posmod x (q : Int) % 4294967296).toNat    -- int64 → uint32 store
  (r0, (mul64 r0 4294967296 % q) % 4294967296)

/-- two's-complement wrap to `__int128_t` -/
@[inline] def wrapS128 (x : Int) : Int :=
  (x + 170141183460469231731687303715884105728) % 340282366920938463463374607431768211456
    - 170141183460469231731687303715884105728
@[inline] def mulS128 (a b : Int) : Int := wrapS128 (a * b)
@[inline] def addS128 (a b : Int) : Int := wrapS128 (a + b)

/-- `Qm1 … Qm4`: product of the three other primes, as `__int128_t` (`(__int128_t)Q2 * Q3 * Q4`, …) -/
def qm0 (p : Q120Params) : Int := mulS128 (mulS128 (p.q 1) (p.q 2)) (p.q 3)
def qm1 (p : Q120Params) : Int := mulS128 (mulS128 (p.q 0) (p.q 2)) (p.q 3)
def qm2 (p : Q120Params) : Int := mulS128 (mulS128 (p.q 0) (p.q 1)) (p.q 3)
def qm3 (p : Q120Params) : Int := mulS128 (mulS128 (p.q 0) (p.q 1)) (p.q 2)

/-- `Q = (__int128_t)Q1 * Q2 * Q3 * Q4` -/
def bigQ (p : Q120Params) : Int := mulS128 (mulS128 (mulS128 (p.q 0) (p.q 1)) (p.q 2)) (p.q 3)

/-- `(((x % Qk) * Qk_CRT_CST) % Qk) * Qmk`: the inner product is a uint64 multiply, the outer one an
  `__int128_t` multiply -/
def crtTerm (q crt : Nat) (qmk : Int) (x : Nat) : Int :=
  mulS128 ((mul64 (x % q) crt % q : Nat) : Int) qmk

/-- one element of `q120_b_to_znx128_simple` -/
def bToZnx128 (p : Q120Params) (x0 x1 x2 x3 : Nat) : Int :=
  let tmp := addS128 0 (crtTerm (p.q 0) (p.crt 0) (qm0 p) x0)
  let tmp := addS128 tmp (crtTerm (p.q 1) (p.crt 1) (qm1 p) x1)
  let tmp := addS128 tmp (crtTerm (p.q 2) (p.crt 2) (qm2 p) x2)
  let tmp := addS128 tmp (crtTerm (p.q 3) (p.crt 3) (qm3 p) x3)
  let tmp := Int.tmod tmp (bigQ p)
  if tmp ≥ Int.tdiv (addS128 (bigQ p) 1) 2 then wrapS128 (tmp - bigQ p) else tmp

/-! vector forms (what the driver runs): `nn` elements -/

def addBbb (p : Q120Params) (nn : Nat) (x y : Array Nat) : Array Nat :=
  Array.ofFn (n := 4 * nn) fun i' =>
    let i : Nat := i'.val
    addBbbLane (p.q (i % 4)) (x.getD i 0) (y.getD i 0)

/-- layout c as uint32 words, 8 per element: word `i` belongs to prime `(i % 8) / 2` -/
def addCcc (p : Q120Params) (nn : Nat) (x y : Array Nat) : Array Nat :=
  Array.ofFn (n := 8 * nn) fun i' =>
    let i : Nat := i'.val
    addCccWord (p.q ((i % 8) / 2)) (x.getD i 0) (y.getD i 0)

/-- output as uint32 words -/
def cFromB (p : Q120Params) (nn : Nat) (x : Array Nat) : Array Nat :=
  Array.ofFn (n := 8 * nn) fun i' =>
    let i : Nat := i'.val
    let r := cFromBLane (p.q ((i % 8) / 2)) (x.getD (i / 2) 0)
    if i % 2 = 0 then r.1 else r.2

def bFromZnx64 (p : Q120Params) (nn : Nat) (x : Array Int) : Array Nat :=
  Array.ofFn (n := 4 * nn) fun i' =>
    let i : Nat := i'.val
    bFromZnx64Lane (p.q (i % 4)) (x.getD (i / 4) 0)

def cFromZnx64 (p : Q120Params) (nn : Nat) (x : Array Int) : Array Nat :=
  Array.ofFn (n := 8 * nn) fun i' =>
    let i : Nat := i'.val
    let r := cFromZnx64Lane (p.q ((i % 8) / 2)) (x.getD (i / 8) 0)
    if i % 2 = 0 then r.1 else r.2

def bToZnx128Vec (p : Q120Params) (nn : Nat) (x : Array Nat) : Array Int :=
  Array.ofFn (n := nn) fun j' =>
    let j : Nat := j'.val
    bToZnx128 p (x.getD (4 * j) 0) (x.getD (4 * j + 1) 0) (x.getD (4 * j + 2) 0) (x.getD (4 * j + 3) 0)

end Spq.Q120
