/-
  Module-level FFT64 pipelines (core Lean only): compositions of the conversion (Spq.Conv), FFT
  (Spq.Fft) and pointwise / reim4 kernels (Spq.Reim4) exactly as
    spqlios/arithmetic/znx_small.c, scalar_vector_product.c, vec_znx_dft.c,
    vector_matrix_product.c, vector_matrix_product_avx.c
  compose them.  Which kernel variant a module uses is decided at creation time by the CPU features; the
  harness reads the installed function pointers back and passes them on the op line (`Cfg`).
  Values in DFT space are binary64 bit patterns (`Nat`).
-/
import Spq.Conv
import Spq.Fft
import Spq.Reim4
namespace Spq
namespace Module
open Spq.Reim4

structure Cfg where
  nn : Nat
  fftFma : Bool          -- reim_fft_avx2_fma installed (else reim_fft_ref)
  ifftFma : Bool
  fromBnd50 : Bool       -- reim_from_znx64_bnd50_fma installed (else plain cast)
  toVariant : Conv.ToZnx64Variant   -- module builds its table with divisor m, log2bound 63
  mulFma : Bool          -- reim_fftvec_mul_fma
  addmulFma : Bool       -- reim_fftvec_addmul_fma
  vmpAvx : Bool          -- fft64_vmp_*_avx
  fftT : Array Nat
  ifftT : Array Nat

def Cfg.m (c : Cfg) : Nat := c.nn / 2

/-- `reim_from_znx64(module->mod.fft64.p_conv, …)` -/
def fromZnx (c : Cfg) (x : Array Int) : Array Nat :=
  if c.fromBnd50 then Conv.fromZnx64Bnd50 c.m x else Conv.fromZnx64Ref c.m x

def fft (c : Cfg) (d : Array Nat) : Array Nat := Fft.reimFft (if c.fftFma then "fma" else "ref") c.m c.fftT d
def ifft (c : Cfg) (d : Array Nat) : Array Nat := Fft.reimIfft (if c.ifftFma then "fma" else "ref") c.m c.ifftT d

/-- `reim_to_znx64(module->mod.fft64.p_reim_to_znx, …)`: divisor = m -/
def toZnx (c : Cfg) (d : Array Nat) : Array Int := Conv.toZnx64 c.toVariant c.m (F64.ofNat c.m) d

/-- `reim_fftvec_mul(module->mod.fft64.mul_fft, r, a, b)` (the result buffer content is irrelevant: every cell is overwritten) -/
def mul (c : Cfg) (a b : Array Nat) : Array Nat :=
  let r := Array.replicate c.nn 0
  if c.mulFma then (reimFftvecMulFma F64.arith c.m r a b).getD r else reimFftvecMulRef F64.arith c.m r a b

/-- `reim_fftvec_addmul(module->mod.fft64.p_addmul, r, a, b)`: r += a*b -/
def addmul (c : Cfg) (r a b : Array Nat) : Array Nat :=
  if c.addmulFma then (reimFftvecAddmulFma F64.arith c.m r a b).getD r else reimFftvecAddmulRef F64.arith c.m r a b

def limbOf (x : Array Int) (i sl nn : Nat) : Array Int := x.extract (i * sl) (i * sl + nn)
def dlimb (x : Array Nat) (i nn : Nat) : Array Nat := x.extract (i * nn) (i * nn + nn)

/-- `fft64_znx_small_single_product` -/
def smallProduct (c : Cfg) (a b : Array Int) : Array Int :=
  toZnx c (ifft c (mul c (fft c (fromZnx c a)) (fft c (fromZnx c b))))

/-- `fft64_vec_znx_dft(res, res_size, a, a_size, a_sl)`: returns `res_size * nn` doubles -/
def vecDft (c : Cfg) (rsz : Nat) (a : Array Int) (asz asl : Nat) : Array Nat :=
  (List.range rsz).foldl (fun acc i =>
    acc ++ (if i < asz then fft c (fromZnx c (limbOf a i asl c.nn)) else Array.replicate c.nn 0)) #[]

/-- `fft64_svp_prepare_ref` -/
def svpPrepare (c : Cfg) (pol : Array Int) : Array Nat := fft c (fromZnx c pol)

/-- `fft64_svp_apply_dft_ref` -/
def svpApply (c : Cfg) (rsz : Nat) (ppol : Array Nat) (a : Array Int) (asz asl : Nat) : Array Nat :=
  (List.range rsz).foldl (fun acc i =>
    acc ++ (if i < asz then mul c (fft c (fromZnx c (limbOf a i asl c.nn))) ppol else Array.replicate c.nn 0)) #[]

/-- `fft64_vec_znx_idft` / `_tmp_a` (the result is the same; they differ in what happens to the source) -/
def vecIdft (c : Cfg) (rsz : Nat) (d : Array Nat) (dsz : Nat) : Array Int :=
  (List.range rsz).foldl (fun acc i =>
    acc ++ (if i < dsz then toZnx c (ifft c (dlimb d i c.nn)) else Array.replicate c.nn 0)) #[]

/-! ### vector-matrix product -/

def writeAt (dst : Array Nat) (off : Nat) (src : Array Nat) : Array Nat :=
  Nat.fold src.size (fun i _ d => d.setIfInBounds (off + i) src[i]) dst

/-- `fft64_vmp_prepare_contiguous_{ref,avx}`: returns the prepared matrix (`nn*nrows*ncols` doubles) -/
def vmpPrepare (c : Cfg) (mat : Array Int) (nrows ncols : Nat) : Array Nat :=
  let nn := c.nn
  let m := c.m
  let pm := Array.replicate (nn * nrows * ncols) 0
  let offset := nrows * ncols * 8
  (List.range nrows).foldl (fun pm row =>
    (List.range ncols).foldl (fun pm col =>
      let t := fft c (fromZnx c (mat.extract ((row * ncols + col) * nn) ((row * ncols + col) * nn + nn)))
      if nn ≥ 8 then
        let start :=
          if col == ncols - 1 && ncols % 2 == 1 then col * nrows * 8 + row * 8
          else (col / 2) * (2 * nrows) * 8 + row * 2 * 8 + (col % 2) * 8
        (List.range (m / 4)).foldl (fun pm blk =>
          writeAt pm (start + blk * offset) (extract1blkFromReimRef 0 m blk (Array.replicate 8 0) t)) pm
      else writeAt pm ((col * nrows + row) * nn) t) pm) pm

/-- `fft64_vmp_apply_dft_to_dft_{ref,avx}`: returns `res_size * nn` doubles -/
def vmpApplyDftToDft (c : Cfg) (rsz : Nat) (adft : Array Nat) (asz : Nat) (pmat : Array Nat) (nrows ncols : Nat) : Array Nat :=
  let nn := c.nn
  let m := c.m
  let rowMax := min nrows asz
  let colMax := min ncols rsz
  let res := Array.replicate (rsz * nn) 0
  let ar := F64.arith
  let prod2 := fun (u v : Array Nat) =>
    if c.vmpAvx then vecMat2colsProductAvx2 ar rowMax (Array.replicate 16 0) u v else vecMat2colsProductRef ar rowMax (Array.replicate 16 0) u v
  let prod1 := fun (u v : Array Nat) =>
    if c.vmpAvx then vecMat1colProductAvx2 ar rowMax (Array.replicate 8 0) u v else vecMat1colProductRef ar rowMax (Array.replicate 8 0) u v
  if nn ≥ 8 then
    (List.range (m / 4)).foldl (fun res blk =>
      let matBlk := blk * (8 * nrows * ncols)
      let ext := extract1blkFromContiguousReimRef 0 m rowMax blk (Array.replicate (8 * rowMax) 0) adft
      -- column pairs
      let save := fun (res : Array Nat) (col : Nat) (o8 : Array Nat) =>
        writeAt (writeAt res (col * nn + 4 * blk) (o8.extract 0 4)) (col * nn + m + 4 * blk) (o8.extract 4 8)
      let res := (List.range (colMax / 2)).foldl (fun res t =>
        let col := 2 * t
        let v0 := matBlk + col * (8 * nrows)
        let out := prod2 ext (pmat.extract v0 (v0 + 16 * nrows))
        save (save res col (out.extract 0 8)) (col + 1) (out.extract 8 16)) res
      if colMax % 2 == 1 then
        let last := colMax - 1
        let v0 := matBlk + last * (8 * nrows)
        let out := if ncols == colMax then prod1 ext (pmat.extract v0 (v0 + 8 * nrows)) else prod2 ext (pmat.extract v0 (v0 + 16 * nrows))
        save res last (out.extract 0 8)
      else res) res
  else
    (List.range colMax).foldl (fun res col =>
      if rowMax == 0 then res   -- zeros (the `row_max == 0` guard)
      else
        let pcol := fun row => pmat.extract ((col * nrows + row) * nn) ((col * nrows + row) * nn + nn)
        let r0 := mul c (dlimb adft 0 nn) (pcol 0)
        let r := (List.range (rowMax - 1)).foldl (fun r k => addmul c r (dlimb adft (k + 1) nn) (pcol (k + 1))) r0
        writeAt res (col * nn) r) res

/-- `fft64_vmp_apply_dft_{ref,avx}` -/
def vmpApplyDft (c : Cfg) (rsz : Nat) (a : Array Int) (asz asl : Nat) (pmat : Array Nat) (nrows ncols : Nat) : Array Nat :=
  let rows := min nrows asz
  vmpApplyDftToDft c rsz (vecDft c rows a asz asl) asz pmat nrows ncols

end Module
end Spq
