/-
  Module-level FFT64 pipelines (core Lean only): compositions of the conversion (Spq.Conv), FFT
  (Spq.Fft) and pointwise / reim4 kernels (Spq.Reim4) exactly as
    spqlios/arithmetic/znx_small.c, scalar_vector_product.c, vec_znx_dft.c,
    vector_matrix_product.c, vector_matrix_product_avx.c
  compose them.  Which kernel variant a module uses is decided at creation time by the CPU features; the
  harness reads the installed function pointers back and passes them on the op line (`Cfg`).
  Values in DFT space are binary64 bit patterns (`Nat`).
-/
import Spq.Conv
import Spq.Fft
import Spq.Reim4
namespace Spq
namespace Module
open Spq.Reim4

/-- the pieces a module is made of, abstract in the DFT-space carrier `α` (binary64 patterns for execution,
    a commutative ring for the exact-arithmetic theorems) -/
structure Parts (α : Type) where
  nn : Nat
  ar : RArith α
  fromZnx : Array Int → Array α        -- int64 coefficients -> DFT-space carrier (conversion)
  fft : Array α → Array α
  ifft : Array α → Array α
  toZnx : Array α → Array Int          -- divide by m and round
  mulFma : Bool
  addmulFma : Bool
  vmpAvx : Bool

variable {α : Type}

def Parts.m (c : Parts α) : Nat := c.nn / 2

/-- `reim_fftvec_mul(module->mod.fft64.mul_fft, r, a, b)` (every cell of the result is overwritten) -/
def mul (c : Parts α) (a b : Array α) : Array α :=
  let r := Array.replicate c.nn c.ar.zero
  if c.mulFma then (reimFftvecMulFma c.ar c.m r a b).getD r else reimFftvecMulRef c.ar c.m r a b

/-- `reim_fftvec_addmul(module->mod.fft64.p_addmul, r, a, b)`: r += a*b -/
def addmul (c : Parts α) (r a b : Array α) : Array α :=
  if c.addmulFma then (reimFftvecAddmulFma c.ar c.m r a b).getD r else reimFftvecAddmulRef c.ar c.m r a b

def limbOf (x : Array Int) (i sl nn : Nat) : Array Int := x.extract (i * sl) (i * sl + nn)
def dlimb (x : Array α) (i nn : Nat) : Array α := x.extract (i * nn) (i * nn + nn)

/-- `fft64_znx_small_single_product` -/
def smallProduct (c : Parts α) (a b : Array Int) : Array Int :=
  c.toZnx (c.ifft (mul c (c.fft (c.fromZnx a)) (c.fft (c.fromZnx b))))

/-- `fft64_vec_znx_dft(res, res_size, a, a_size, a_sl)`: returns `res_size * nn` cells -/
def vecDft (c : Parts α) (rsz : Nat) (a : Array Int) (asz asl : Nat) : Array α :=
  (List.range rsz).foldl (fun acc i =>
    acc ++ (if i < asz then c.fft (c.fromZnx (limbOf a i asl c.nn)) else Array.replicate c.nn c.ar.zero)) #[]

/-- `fft64_svp_prepare_ref` -/
def svpPrepare (c : Parts α) (pol : Array Int) : Array α := c.fft (c.fromZnx pol)

/-- `fft64_svp_apply_dft_ref` -/
def svpApply (c : Parts α) (rsz : Nat) (ppol : Array α) (a : Array Int) (asz asl : Nat) : Array α :=
  (List.range rsz).foldl (fun acc i =>
    acc ++ (if i < asz then mul c (c.fft (c.fromZnx (limbOf a i asl c.nn))) ppol else Array.replicate c.nn c.ar.zero)) #[]

/-- `fft64_vec_znx_idft` / `_tmp_a` (same result; they differ in what happens to the source) -/
def vecIdft (c : Parts α) (rsz : Nat) (d : Array α) (dsz : Nat) : Array Int :=
  (List.range rsz).foldl (fun acc i =>
    acc ++ (if i < dsz then c.toZnx (c.ifft (dlimb d i c.nn)) else Array.replicate c.nn 0)) #[]

/-! ### vector-matrix product -/

def writeAt (dst : Array α) (off : Nat) (src : Array α) : Array α :=
  Nat.fold src.size (fun i _ d => d.setIfInBounds (off + i) src[i]) dst

/-- start offset of (row, col) of block 0 in the prepared layout for `nn ≥ 8`: column pairs interleaved
    row-major, lone last column when `ncols` is odd -/
def pmatStart (nrows ncols row col : Nat) : Nat :=
  if col == ncols - 1 && ncols % 2 == 1 then col * nrows * 8 + row * 8
  else (col / 2) * (2 * nrows) * 8 + row * 2 * 8 + (col % 2) * 8

/-- `fft64_vmp_prepare_contiguous_{ref,avx}`: returns the prepared matrix (`nn*nrows*ncols` cells) -/
def vmpPrepare (c : Parts α) (mat : Array Int) (nrows ncols : Nat) : Array α :=
  let nn := c.nn
  let m := c.m
  let z := c.ar.zero
  let pm := Array.replicate (nn * nrows * ncols) z
  let offset := nrows * ncols * 8
  (List.range nrows).foldl (fun pm row =>
    (List.range ncols).foldl (fun pm col =>
      let t := c.fft (c.fromZnx (mat.extract ((row * ncols + col) * nn) ((row * ncols + col) * nn + nn)))
      if nn ≥ 8 then
        (List.range (m / 4)).foldl (fun pm blk =>
          writeAt pm (pmatStart nrows ncols row col + blk * offset) (extract1blkFromReimRef z m blk (Array.replicate 8 z) t)) pm
      else writeAt pm ((col * nrows + row) * nn) t) pm) pm

/-- `fft64_vmp_apply_dft_to_dft_{ref,avx}`: returns `res_size * nn` cells -/
def vmpApplyDftToDft (c : Parts α) (rsz : Nat) (adft : Array α) (asz : Nat) (pmat : Array α) (nrows ncols : Nat) : Array α :=
  let nn := c.nn
  let m := c.m
  let z := c.ar.zero
  let rowMax := min nrows asz
  let colMax := min ncols rsz
  let res := Array.replicate (rsz * nn) z
  let ar := c.ar
  let prod2 := fun (u v : Array α) =>
    if c.vmpAvx then vecMat2colsProductAvx2 ar rowMax (Array.replicate 16 z) u v else vecMat2colsProductRef ar rowMax (Array.replicate 16 z) u v
  let prod1 := fun (u v : Array α) =>
    if c.vmpAvx then vecMat1colProductAvx2 ar rowMax (Array.replicate 8 z) u v else vecMat1colProductRef ar rowMax (Array.replicate 8 z) u v
  if nn ≥ 8 then
    (List.range (m / 4)).foldl (fun res blk =>
      let matBlk := blk * (8 * nrows * ncols)
      let ext := extract1blkFromContiguousReimRef z m rowMax blk (Array.replicate (8 * rowMax) z) adft
      let save := fun (res : Array α) (col : Nat) (o8 : Array α) =>
        writeAt (writeAt res (col * nn + 4 * blk) (o8.extract 0 4)) (col * nn + m + 4 * blk) (o8.extract 4 8)
      -- column pairs  (`col_i + 1 < col_max`)
      let res := (List.range (colMax / 2)).foldl (fun res t =>
        let col := 2 * t
        let v0 := matBlk + col * (8 * nrows)
        let out := prod2 ext (pmat.extract v0 (v0 + 16 * nrows))
        save (save res col (out.extract 0 8)) (col + 1) (out.extract 8 16)) res
      if colMax % 2 == 1 then
        let last := colMax - 1
        let v0 := matBlk + last * (8 * nrows)
        let out := if ncols == colMax then prod1 ext (pmat.extract v0 (v0 + 8 * nrows)) else prod2 ext (pmat.extract v0 (v0 + 16 * nrows))
        save res last (out.extract 0 8)
      else res) res
  else
    (List.range colMax).foldl (fun res col =>
      if rowMax == 0 then res   -- zeros (the `row_max == 0` guard)
      else
        let pcol := fun row => pmat.extract ((col * nrows + row) * nn) ((col * nrows + row) * nn + nn)
        let r0 := mul c (dlimb adft 0 nn) (pcol 0)
        let r := (List.range (rowMax - 1)).foldl (fun r k => addmul c r (dlimb adft (k + 1) nn) (pcol (k + 1))) r0
        writeAt res (col * nn) r) res

/-- `fft64_vmp_apply_dft_{ref,avx}` -/
def vmpApplyDft (c : Parts α) (rsz : Nat) (a : Array Int) (asz asl : Nat) (pmat : Array α) (nrows ncols : Nat) : Array α :=
  let rows := min nrows asz
  vmpApplyDftToDft c rsz (vecDft c rows a asz asl) asz pmat nrows ncols

/-! ### the binary64 instance: what the library executes -/

structure Cfg where
  nn : Nat
  fftFma : Bool          -- reim_fft_avx2_fma installed (else reim_fft_ref)
  ifftFma : Bool
  fromBnd50 : Bool       -- reim_from_znx64_bnd50_fma installed (else plain cast)
  toVariant : Conv.ToZnx64Variant   -- the module builds its table with divisor m, log2bound 63
  mulFma : Bool          -- reim_fftvec_mul_fma
  addmulFma : Bool       -- reim_fftvec_addmul_fma
  vmpAvx : Bool          -- fft64_vmp_*_avx
  fftT : Array Nat
  ifftT : Array Nat

def Cfg.parts (c : Cfg) : Parts Nat :=
  let m := c.nn / 2
  { nn := c.nn, ar := F64.arith,
    fromZnx := fun x => if c.fromBnd50 then Conv.fromZnx64Bnd50 m x else Conv.fromZnx64Ref m x,
    fft := fun d => Fft.reimFft (if c.fftFma then "fma" else "ref") m c.fftT d,
    ifft := fun d => Fft.reimIfft (if c.ifftFma then "fma" else "ref") m c.ifftT d,
    toZnx := fun d => Conv.toZnx64 c.toVariant m (F64.ofNat m) d,
    mulFma := c.mulFma, addmulFma := c.addmulFma, vmpAvx := c.vmpAvx }

end Module
end Spq
