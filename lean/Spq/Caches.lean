/-
  State-machine model of the `*_simple` convenience functions (core Lean only).

  Every such function keeps a function-local static table (an array indexed by `log2m(m)`, or a
  single thread-local entry), builds it on first use with the constructor arguments `initArgs`, and
  re-builds it when one of the `guard` parameters differs from the value it was built with.  The
  structure (`slotByM`, `guard`, `initArgs`) of each function is *extracted from the C source* on
  every run (`Gen/Caches.lean`); this file gives it an executable semantics.
-/
namespace Spq.Caches

structure Spec where
  slotByM : Bool
  guard : List String
  initArgs : List String

/-- a call: the value of each scalar parameter (doubles as bit patterns) -/
abbrev Call := List (String × Int)

def Call.get (c : Call) (p : String) : Int := (c.lookup p).getD 0

/-- `log2m(m)` for a power of two -/
def ilog2 (m : Int) : Nat := m.toNat.log2

def slotOf (s : Spec) (c : Call) : Nat := if s.slotByM then ilog2 (c.get "m") else 0

/-- slot ↦ the call that built the table stored there -/
abbrev State := Nat → Option Call

def empty : State := fun _ => none

def sameKey (s : Spec) (e c : Call) : Bool := s.guard.all (fun p => e.get p == c.get p)

/-- one call: new state, the call whose arguments built the table that is used, and whether a table was built now -/
def step (s : Spec) (st : State) (c : Call) : State × Call × Bool :=
  let k := slotOf s c
  match st k with
  | some e =>
    if sameKey s e c then (st, e, false)
    else (fun j => if j = k then some c else st j, c, true)
  | none => (fun j => if j = k then some c else st j, c, true)

def run (s : Spec) (st : State) (hist : List Call) : State :=
  hist.foldl (fun st c => (step s st c).1) st

/-- the rebuild bits of a whole program, for the correspondence stream -/
def rebuilds (s : Spec) : State → List Call → List Bool
  | _, [] => []
  | st, c :: cs => let r := step s st c; r.2.2 :: rebuilds s r.1 cs

end Spq.Caches
