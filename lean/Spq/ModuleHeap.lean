/-
  Heap-level model of the FFT64 module entry points (core Lean only):
    spqlios/arithmetic/vec_znx_dft.c            fft64_vec_znx_dft, fft64_vec_znx_idft, fft64_vec_znx_idft_tmp_a
    spqlios/arithmetic/scalar_vector_product.c  fft64_svp_prepare_ref, fft64_svp_apply_dft_ref
    spqlios/arithmetic/znx_small.c              fft64_znx_small_single_product
    spqlios/arithmetic/vector_matrix_product{,_avx}.c
                                                fft64_vmp_prepare_contiguous_{ref,avx}, fft64_vmp_apply_dft_{ref,avx},
                                                fft64_vmp_apply_dft_to_dft_{ref,avx}

  ONE arena of 64-bit cells (`Spq.Heap`: `mem` + the `ok` flag, and-ed at every access).  A C pointer is an
  offset in cells; sizes, strides and matrix shapes are the C arguments; a scratch pointer comes with the byte
  count the caller declares for it (`tb`), and every access to scratch is also checked against that count.

  Cell type `γ`: the arena holds int64 coefficients AND binary64 values.  The model is polymorphic in the
  DFT-space carrier `α` (as `Spq.Module.Parts α`) through a codec `Cells γ α`; what the library executes is
  `Cells.f64 : Cells Nat Nat`: a cell is the `Nat` value of the 64-bit pattern, binary64 cells are their bit
  pattern (as everywhere in `Spq.F64`), int64 cells are two's complement (`toU` / `toS` of `Spq.Mach`).

  The arithmetic kernels (conversions, fft, ifft, pointwise mul/addmul, reim4 extract / dot products) are the
  functional models (`Parts α`, `Spq.Reim4`) applied to slices read from the arena.  What this file models is
  WHERE every kernel call reads and writes, in which order, and the aliasing each call is given:
   * an elementwise kernel (`reim_from_znx64`, `reim_to_znx64`, `reim_fftvec_mul`, `reim_fftvec_addmul`) reads cell
     `i` of its sources before it writes cell `i` of its destination, so "same pointer" and "disjoint" are the two
     situations in which "read everything, then write everything" is what the C code does; a call whose
     destination PARTIALLY overlaps a source clears `ok` (`sameOrDisj`);
   * `memcpy` and the reim4 block kernels need disjoint source and destination (`disj`), else `ok` is cleared;
   * `memset(p, 0, n)` stores all-zero bytes: `enc zero` in a DFT buffer (+0.0), `encI 0` in an integer buffer.
  Reads are over-approximated at the granularity of one limb / one block row (e.g. the block extraction of
  `vmp_apply_dft_to_dft` touches the `row_max` limbs of `a_dft` it picks 8 cells from); writes are exact.
-/
import Spq.Heap
import Spq.Module
import Spq.TmpBytes
namespace Spq
namespace ModuleHeap
open Heap Reim4 Module

/-- how DFT-space values (`α`) and int64 coefficients are stored in a 64-bit cell (`γ`) -/
structure Cells (γ α : Type) where
  dflt : γ                 -- what an out-of-arena read yields in the model (such a read clears `ok`)
  enc : α → γ
  dec : γ → α
  encI : Int → γ
  decI : γ → Int

/-- the library's cells: 64-bit patterns; binary64 by its pattern, int64 in two's complement -/
def Cells.f64 : Cells Nat Nat := { dflt := 0, enc := id, dec := id, encI := toU, decI := toS }

variable {γ α : Type}

/-! ### accesses -/

def guard (b : Bool) (h : Heap γ) : Heap γ := { h with ok := h.ok && b }
/-- record a read of `n` cells at `off` (heap-last form of `Heap.touch`) -/
def tch (off n : Nat) (h : Heap γ) : Heap γ := h.touch off n
/-- an access of `n` cells at relative cell offset `rel` of a scratch area declared with `tb` bytes -/
def scr (tb rel n : Nat) (h : Heap γ) : Heap γ := guard (decide (8 * (rel + n) ≤ tb)) h

def disj (p np q nq : Nat) : Bool := decide (p + np ≤ q) || decide (q + nq ≤ p)
def sameOrDisj (p q n : Nat) : Bool := p == q || disj p n q n

def rdD (cd : Cells γ α) (h : Heap γ) (off n : Nat) : Array α := (h.readLimb cd.dflt off n).map cd.dec
def rdI (cd : Cells γ α) (h : Heap γ) (off n : Nat) : Array Int := (h.readLimb cd.dflt off n).map cd.decI
def wrD (cd : Cells γ α) (off : Nat) (x : Array α) (h : Heap γ) : Heap γ := h.writeLimb off (x.map cd.enc)
def wrI (cd : Cells γ α) (off : Nat) (x : Array Int) (h : Heap γ) : Heap γ := h.writeLimb off (x.map cd.encI)

/-- `for (i = 0; i < n; ++i) body(i)` -/
def loop (n : Nat) (body : Nat → Heap γ → Heap γ) (h : Heap γ) : Heap γ :=
  (List.range n).foldl (fun h i => body i h) h

/-! ### kernel calls -/

/-- `reim_from_znx64(p_conv, dst, src)` -/
def kFromZnx (c : Parts α) (cd : Cells γ α) (dst src : Nat) (h : Heap γ) : Heap γ :=
  h |> tch src c.nn |> guard (sameOrDisj dst src c.nn) |> wrD cd dst (c.fromZnx (rdI cd h src c.nn))

/-- `reim_fft(p_fft, p)` (in place) -/
def kFft (c : Parts α) (cd : Cells γ α) (p : Nat) (h : Heap γ) : Heap γ :=
  h |> tch p c.nn |> wrD cd p (c.fft (rdD cd h p c.nn))

/-- `reim_ifft(p_ifft, p)` (in place) -/
def kIfft (c : Parts α) (cd : Cells γ α) (p : Nat) (h : Heap γ) : Heap γ :=
  h |> tch p c.nn |> wrD cd p (c.ifft (rdD cd h p c.nn))

/-- `reim_to_znx64(p_reim_to_znx, dst, src)` -/
def kToZnx (c : Parts α) (cd : Cells γ α) (dst src : Nat) (h : Heap γ) : Heap γ :=
  h |> tch src c.nn |> guard (sameOrDisj dst src c.nn) |> wrI cd dst (c.toZnx (rdD cd h src c.nn))

/-- `reim_fftvec_mul(mul_fft, r, a, b)` -/
def kMul (c : Parts α) (cd : Cells γ α) (r a b : Nat) (h : Heap γ) : Heap γ :=
  h |> tch a c.nn |> tch b c.nn |> guard (sameOrDisj r a c.nn && sameOrDisj r b c.nn)
    |> wrD cd r (mul c (rdD cd h a c.nn) (rdD cd h b c.nn))

/-- `reim_fftvec_addmul(p_addmul, r, a, b)`: r += a*b -/
def kAddmul (c : Parts α) (cd : Cells γ α) (r a b : Nat) (h : Heap γ) : Heap γ :=
  h |> tch r c.nn |> tch a c.nn |> tch b c.nn |> guard (sameOrDisj r a c.nn && sameOrDisj r b c.nn)
    |> wrD cd r (addmul c (rdD cd h r c.nn) (rdD cd h a c.nn) (rdD cd h b c.nn))

/-- `memset(p, 0, n * sizeof(double))` on a DFT-space buffer -/
def kZeroD (c : Parts α) (cd : Cells γ α) (p n : Nat) (h : Heap γ) : Heap γ :=
  wrD cd p (Array.replicate n c.ar.zero) h

/-- `memset(p, 0, n * sizeof(int64_t))` on an integer buffer -/
def kZeroI (cd : Cells γ α) (p n : Nat) (h : Heap γ) : Heap γ :=
  wrI cd p (Array.replicate n 0) h

/-- `memcpy(dst, src, n * 8)` -/
def kCopy (cd : Cells γ α) (dst src n : Nat) (h : Heap γ) : Heap γ :=
  (h |> tch src n |> guard (disj dst n src n)).writeLimb dst (h.readLimb cd.dflt src n)

/-- `reim4_extract_1blk_from_reim_{ref,avx}(m, blk, dst, src)`: 4 + 4 cells of the limb at `src` to 8 cells at `dst` -/
def kExtract1 (c : Parts α) (cd : Cells γ α) (blk dst src : Nat) (h : Heap γ) : Heap γ :=
  let z := c.ar.zero
  h |> tch src c.nn |> guard (disj dst 8 src c.nn)
    |> wrD cd dst (extract1blkFromReimRef z c.m blk (Array.replicate 8 z) (rdD cd h src c.nn))

/-- `reim4_extract_1blk_from_contiguous_reim_{ref,avx}(m, rows, blk, dst, src)`: block `blk` of `rows` consecutive
    limbs at `src` to `8 * rows` cells at `dst` -/
def kExtractRows (c : Parts α) (cd : Cells γ α) (rows blk dst src : Nat) (h : Heap γ) : Heap γ :=
  let z := c.ar.zero
  h |> tch src (rows * c.nn) |> guard (disj dst (8 * rows) src (rows * c.nn))
    |> wrD cd dst (extract1blkFromContiguousReimRef z c.m rows blk (Array.replicate (8 * rows) z) (rdD cd h src (rows * c.nn)))

/-- the two-column dot product as a function of the extracted block and the matrix slice -/
def prod2 (c : Parts α) (rows : Nat) (u v : Array α) : Array α :=
  let z := c.ar.zero
  if c.vmpAvx then vecMat2colsProductAvx2 c.ar rows (Array.replicate 16 z) u v
  else vecMat2colsProductRef c.ar rows (Array.replicate 16 z) u v
def prod1 (c : Parts α) (rows : Nat) (u v : Array α) : Array α :=
  let z := c.ar.zero
  if c.vmpAvx then vecMat1colProductAvx2 c.ar rows (Array.replicate 8 z) u v
  else vecMat1colProductRef c.ar rows (Array.replicate 8 z) u v

/-- `reim4_vec_mat2cols_product_{ref,avx2}(rows, out, u, v)`: `u` = `8*rows` cells, `v` = a column pair of the
    prepared matrix (`16*nrows` cells, of which the first `16*rows` are used), 16 cells written at `out` -/
def kProd2 (c : Parts α) (cd : Cells γ α) (rows nrows out u v : Nat) (h : Heap γ) : Heap γ :=
  h |> tch u (8 * rows) |> tch v (16 * nrows) |> guard (disj out 16 u (8 * rows) && disj out 16 v (16 * nrows))
    |> wrD cd out (prod2 c rows (rdD cd h u (8 * rows)) (rdD cd h v (16 * nrows)))

/-- `reim4_vec_mat1col_product_{ref,avx2}(rows, out, u, v)`: lone last column (`8*nrows` cells), 8 cells written -/
def kProd1 (c : Parts α) (cd : Cells γ α) (rows nrows out u v : Nat) (h : Heap γ) : Heap γ :=
  h |> tch u (8 * rows) |> tch v (8 * nrows) |> guard (disj out 8 u (8 * rows) && disj out 8 v (8 * nrows))
    |> wrD cd out (prod1 c rows (rdD cd h u (8 * rows)) (rdD cd h v (8 * nrows)))

/-- `reim4_save_1blk_to_reim_{ref,avx}(m, blk, dst, src)`: 8 cells at `src` to the real and imaginary quadruple
    of block `blk` of the limb at `dst` -/
def kSave (c : Parts α) (cd : Cells γ α) (blk dst src : Nat) (h : Heap γ) : Heap γ :=
  let o8 := rdD cd h src 8
  h |> tch src 8 |> guard (disj (dst + 4 * blk) 4 src 8 && disj (dst + c.m + 4 * blk) 4 src 8)
    |> wrD cd (dst + 4 * blk) (o8.extract 0 4) |> wrD cd (dst + c.m + 4 * blk) (o8.extract 4 8)

/-! ### entry points, first group: vec_znx_dft.c, scalar_vector_product.c, znx_small.c -/

/-- `fft64_vec_znx_dft(module, res, res_size, a, a_size, a_sl)`; `res` is a VEC_ZNX_DFT (`res_size * nn` cells,
    limb stride `nn`), `a` an integer limb vector with stride `a_sl` -/
def vecDft (c : Parts α) (cd : Cells γ α) (h : Heap γ) (res rsz a asz asl : Nat) : Heap γ :=
  let nn := c.nn
  let smin := min rsz asz
  h |> loop smin (fun i h => h |> kFromZnx c cd (res + i * nn) (a + i * asl) |> kFft c cd (res + i * nn))
    |> kZeroD c cd (res + smin * nn) ((rsz - smin) * nn)

/-- `fft64_vec_znx_idft(module, res, res_size, a_dft, a_size, tmp)`: `tmp` is unused (`tmp_bytes = 0`);
    `res` is a VEC_ZNX_BIG (`res_size * nn` int64 cells); `res == a_dft` is the in-place case (no copy) -/
def vecIdft (c : Parts α) (cd : Cells γ α) (h : Heap γ) (res rsz adft asz : Nat) : Heap γ :=
  let nn := c.nn
  let smin := min rsz asz
  (if res != adft then kCopy cd res adft (smin * nn) h else h)
    |> loop smin (fun i h => h |> kIfft c cd (res + i * nn) |> kToZnx c cd (res + i * nn) (res + i * nn))
    |> kZeroI cd (res + smin * nn) ((rsz - smin) * nn)

/-- `fft64_vec_znx_idft_tmp_a(module, res, res_size, a_dft, a_size)`: the inverse FFT runs inside `a_dft` -/
def vecIdftTmpA (c : Parts α) (cd : Cells γ α) (h : Heap γ) (res rsz adft asz : Nat) : Heap γ :=
  let nn := c.nn
  let smin := min rsz asz
  h |> loop smin (fun i h => h |> kIfft c cd (adft + i * nn) |> kToZnx c cd (res + i * nn) (adft + i * nn))
    |> kZeroI cd (res + smin * nn) ((rsz - smin) * nn)

/-- `fft64_svp_prepare_ref(module, ppol, pol)` -/
def svpPrepare (c : Parts α) (cd : Cells γ α) (h : Heap γ) (ppol pol : Nat) : Heap γ :=
  h |> kFromZnx c cd ppol pol |> kFft c cd ppol

/-- `fft64_svp_apply_dft_ref(module, res, res_size, ppol, a, a_size, a_sl)` -/
def svpApply (c : Parts α) (cd : Cells γ α) (h : Heap γ) (res rsz ppol a asz asl : Nat) : Heap γ :=
  let nn := c.nn
  let smin := min rsz asz
  h |> loop smin (fun i h =>
        h |> kFromZnx c cd (res + i * nn) (a + i * asl) |> kFft c cd (res + i * nn)
          |> kMul c cd (res + i * nn) (res + i * nn) ppol)
    |> kZeroD c cd (res + smin * nn) ((rsz - smin) * nn)

/-- `fft64_znx_small_single_product(module, res, a, b, tmp)` with `tb` bytes declared at `tmp`:
    `ffta = tmp`, `fftb = tmp + nn` -/
def smallProduct (c : Parts α) (cd : Cells γ α) (h : Heap γ) (res a b tmp tb : Nat) : Heap γ :=
  let nn := c.nn
  let ffta := tmp
  let fftb := tmp + nn
  h |> scr tb 0 nn |> kFromZnx c cd ffta a
    |> scr tb nn nn |> kFromZnx c cd fftb b
    |> scr tb 0 nn |> kFft c cd ffta
    |> scr tb nn nn |> kFft c cd fftb
    |> scr tb 0 (2 * nn) |> kMul c cd ffta ffta fftb
    |> scr tb 0 nn |> kIfft c cd ffta
    |> scr tb 0 nn |> kToZnx c cd res ffta

/-! ### second group: vector_matrix_product.c / vector_matrix_product_avx.c -/

/-- `fft64_vmp_prepare_contiguous_{ref,avx}(module, pmat, mat, nrows, ncols, tmp_space)`.
    `nn ≥ 8`: every entry is transformed in `tmp_space[0, nn)` and scattered block by block;
    `nn < 8`: transformed directly in its slot of `pmat`, `tmp_space` is not accessed. -/
def vmpPrepare (c : Parts α) (cd : Cells γ α) (h : Heap γ) (pmat mat nrows ncols tmp tb : Nat) : Heap γ :=
  let nn := c.nn
  let m := c.m
  let offset := nrows * ncols * 8
  if nn ≥ 8 then
    h |> loop nrows (fun row => loop ncols (fun col h =>
      h |> scr tb 0 nn |> kFromZnx c cd tmp (mat + (row * ncols + col) * nn)
        |> scr tb 0 nn |> kFft c cd tmp
        |> loop (m / 4) (fun blk h =>
            h |> scr tb 0 nn |> kExtract1 c cd blk (pmat + pmatStart nrows ncols row col + blk * offset) tmp)))
  else
    h |> loop nrows (fun row => loop ncols (fun col h =>
      let r := pmat + (col * nrows + row) * nn
      h |> kFromZnx c cd r (mat + (row * ncols + col) * nn) |> kFft c cd r))

/-- `fft64_vmp_apply_dft_to_dft_{ref,avx}(module, res, res_size, a_dft, a_size, pmat, nrows, ncols, tmp_space)`.
    `nn ≥ 8`: `mat2cols_output = tmp_space[0,16)`, `extracted_blk = tmp_space[16, 16 + 8*row_max)`;
    `nn < 8`: `tmp_space` is not accessed. -/
def vmpApplyDftToDft (c : Parts α) (cd : Cells γ α) (h : Heap γ)
    (res rsz adft asz pmat nrows ncols tmp tb : Nat) : Heap γ :=
  let nn := c.nn
  let m := c.m
  let out := tmp
  let ext := tmp + 16
  let rowMax := min nrows asz
  let colMax := min ncols rsz
  (if nn ≥ 8 then
    h |> loop (m / 4) (fun blk h =>
      let matBlk := pmat + blk * (8 * nrows * ncols)
      let h := h |> scr tb 16 (8 * rowMax) |> kExtractRows c cd rowMax blk ext adft
      -- column pairs  (`col_i + 1 < col_max`)
      let h := h |> loop (colMax / 2) (fun t h =>
        let col := 2 * t
        h |> scr tb 0 16 |> scr tb 16 (8 * rowMax) |> kProd2 c cd rowMax nrows out ext (matBlk + col * (8 * nrows))
          |> kSave c cd blk (res + col * nn) out
          |> kSave c cd blk (res + (col + 1) * nn) (out + 8))
      if colMax % 2 == 1 then
        let last := colMax - 1
        let v := matBlk + last * (8 * nrows)
        (if ncols == colMax then h |> scr tb 0 8 |> scr tb 16 (8 * rowMax) |> kProd1 c cd rowMax nrows out ext v
         else h |> scr tb 0 16 |> scr tb 16 (8 * rowMax) |> kProd2 c cd rowMax nrows out ext v)
          |> kSave c cd blk (res + last * nn) out
      else h)
  else
    h |> loop colMax (fun col h =>
      let r := res + col * nn
      let pcol := pmat + col * nrows * nn
      if rowMax == 0 then kZeroD c cd r nn h
      else
        h |> kMul c cd r adft pcol
          |> loop (rowMax - 1) (fun k => kAddmul c cd r (adft + (k + 1) * nn) (pcol + (k + 1) * nn))))
  |> kZeroD c cd (res + colMax * nn) ((rsz - colMax) * nn)

/-- `fft64_vmp_apply_dft_{ref,avx}(module, res, res_size, a, a_size, a_sl, pmat, nrows, ncols, tmp_space)`:
    `a_dft = tmp_space[0, rows*nn)`, the scratch of `apply_dft_to_dft` starts right behind it and gets the
    remaining `tb - 8*rows*nn` bytes -/
def vmpApplyDft (c : Parts α) (cd : Cells γ α) (h : Heap γ)
    (res rsz a asz asl pmat nrows ncols tmp tb : Nat) : Heap γ :=
  let nn := c.nn
  let rows := min nrows asz
  let h := h |> scr tb 0 (rows * nn)
  let h := vecDft c cd h tmp rows a asz asl
  vmpApplyDftToDft c cd h res rsz tmp asz pmat nrows ncols (tmp + rows * nn) (tb - 8 * (rows * nn))

/-! ### the scratch / object sizes in bytes (formulas of `Spq.TmpBytes`, tied to the live library by C11) -/

def smallProductTmpBytes (nn : Nat) : Nat := TmpBytes.formula 4 0 nn 0 0 0 0
def vmpPrepareTmpBytes (nn : Nat) : Nat := TmpBytes.formula 9 0 nn 0 0 0 0
def vmpApplyDftTmpBytes (nn rsz asz nrows ncols : Nat) : Nat := TmpBytes.formula 10 0 nn rsz asz nrows ncols
def vmpApplyDftToDftTmpBytes (nn rsz asz nrows ncols : Nat) : Nat := TmpBytes.formula 11 0 nn rsz asz nrows ncols

end ModuleHeap
end Spq
