/-
  Refinement of the q120 NTT / iNTT model (mixed schedule, wrapped 64-bit arithmetic, model-generated tables)
  by the exact transforms `exNtt`, `exIntt` in `ZMod q`, under the no-wrap certificate; and the exact
  round trip `exIntt (exNtt g) = g`.
-/
import SpqProofs.Lemmas.NttTable

namespace Spq.Q120Ntt

/-! ### the exact transforms -/

/-- level sizes of the forward transform: `2^k, …, 4, 2` -/
def fwdSizes : Nat → List Nat
  | 0 => []
  | k+1 => 2 ^ (k+1) :: fwdSizes k

/-- level sizes of the inverse transform: `2^(l+1), …, 2^(l+c)` -/
def invSizes : (c l : Nat) → List Nat
  | 0, _ => []
  | c+1, l => 2 ^ (l+1) :: invSizes c (l+1)

/-- the levels `(nn, multipliers)` of a size-`2^k` transform with root `w`, in forward order -/
def exLevels {q : Nat} (w : ZMod q) (k : Nat) : List (Nat × (Nat → ZMod q)) :=
  (fwdSizes k).map fun nn => (nn, τLevel w (2 * 2 ^ k) nn)

/-- exact forward transform: twist by `w^i`, then DIF levels `nn = 2^k … 2` with twiddles `w^(j*2n/nn)`
    (output in bit-reversed order) -/
def exNtt {q : Nat} (w : ZMod q) (k : Nat) (g : Nat → ZMod q) : Nat → ZMod q :=
  exFwdAll (exLevels w k) (exTwist (fun i => w ^ i) g)

/-- exact inverse transform: DIT levels `nn = 2 … 2^k` with twiddles `v^(j*2n/nn)`, then twist by `v^i * ninv` -/
def exIntt {q : Nat} (v ninv : ZMod q) (k : Nat) (g : Nat → ZMod q) : Nat → ZMod q :=
  exTwist (fun i => v ^ i * ninv) (exInvAll (exLevels v k) g)

theorem invSizes_snoc (c l : Nat) : invSizes (c+1) l = invSizes c l ++ [2 ^ (l + c + 1)] := by
  induction c generalizing l with
  | zero => simp [invSizes]
  | succ c ih =>
    rw [invSizes, ih (l+1)]
    simp only [invSizes, List.cons_append]
    rw [show l + 1 + c + 1 = l + (c + 1) + 1 by omega]

theorem invSizes_reverse (k : Nat) : (invSizes k 0).reverse = fwdSizes k := by
  induction k with
  | zero => rfl
  | succ k ih => rw [invSizes_snoc, List.reverse_append, ih]; simp [fwdSizes]

theorem fwdSteps_sizes (levels : Array Level) (k idx off : Nat) :
    (fwdSteps levels k idx off).map (·.nn) = fwdSizes k := by
  induction k generalizing idx off with
  | zero => rfl
  | succ k ih => simp only [fwdSteps, List.map_cons, fwdSizes]; rw [ih]

theorem invSteps_sizes (levels : Array Level) (c l off : Nat) :
    (invSteps levels c l off).map (·.nn) = invSizes c l := by
  induction c generalizing l off with
  | zero => rfl
  | succ c ih => simp only [invSteps, List.map_cons, invSizes]; rw [ih]

theorem mem_fwdSizes (k nn : Nat) (h : nn ∈ fwdSizes k) : ∃ a, 1 ≤ a ∧ a ≤ k ∧ nn = 2 ^ a := by
  induction k with
  | zero => cases h
  | succ k ih =>
    rcases List.mem_cons.1 h with h | h
    · exact ⟨k+1, by omega, le_refl _, h⟩
    · obtain ⟨a, h1, h2, h3⟩ := ih h; exact ⟨a, h1, by omega, h3⟩

theorem length_fwdSizes (k : Nat) : (fwdSizes k).length = k := by
  induction k with
  | zero => rfl
  | succ k ih => simp [fwdSizes, ih]

theorem forall₂_map_map {α β : Type} (R : β → β → Prop) (F F' : α → β) (l : List α)
    (h : ∀ x ∈ l, R (F x) (F' x)) : List.Forall₂ R (l.map F) (l.map F') := by
  induction l with
  | nil => exact List.Forall₂.nil
  | cons a l ih =>
    exact List.Forall₂.cons (h a (List.mem_cons_self ..)) (ih fun x hx => h x (List.mem_cons_of_mem _ hx))

/-- **exact round trip**: with `w * v = 1` and `2^k * ninv = 1`, `exIntt ∘ exNtt` is the identity
    (every inverse level undoes the forward level of the same size up to the factor 2) -/
theorem exIntt_exNtt {q : Nat} (w v ninv : ZMod q) (k : Nat) (hwv : w * v = 1) (hn : (2 : ZMod q) ^ k * ninv = 1)
    (g : Nat → ZMod q) : exIntt v ninv k (exNtt w k g) = g := by
  unfold exIntt exNtt
  rw [exInvAll_exFwdAll (exLevels w k) (exLevels v k)]
  · funext i
    simp only [exTwist, exLevels, List.length_map, length_fwdSizes]
    have : w ^ i * v ^ i = 1 := by rw [← mul_pow, hwv, one_pow]
    linear_combination (g i * (2:ZMod q) ^ k * ninv) * this + g i * hn
  · apply forall₂_map_map
    intro nn hnn
    obtain ⟨a, ha1, _, rfl⟩ := mem_fwdSizes k nn hnn
    obtain ⟨b, rfl⟩ : ∃ b, a = b + 1 := ⟨a - 1, by omega⟩
    refine ⟨rfl, ?_, by positivity, fun t => ?_⟩
    · simp only [pow_succ_half]; ring
    · simp only [τLevel]; rw [← mul_pow, hwv, one_pow]

/-! ### the model's level-by-level schedules as `LStep` chains -/

def fwdDescs (k : Nat) (levels : Array Level) : List LDesc :=
  ⟨.twist false, 2 ^ k, levels.getD 0 default⟩ :: (fwdSteps levels k 1 (2 ^ k)).map fun s => ⟨.fwd, s.nn, s.L⟩

def invDescs (k : Nat) (levels : Array Level) : List LDesc :=
  ((invSteps levels k 0 0).map fun s => ⟨.inv, s.nn, s.L⟩) ++
    [⟨.twist (levels.getD k default).reduce, 2 ^ k, levels.getD k default⟩]

def mkFwdL {q : Nat} (tbl : Array Nat) (w : ZMod q) (k : Nat) (s : Step) : LStep q :=
  ⟨⟨.fwd, s.nn, s.L⟩, fun t => rd tbl (s.off + t), τLevel w (2 * 2 ^ k) s.nn⟩

def mkInvL {q : Nat} (tbl : Array Nat) (v : ZMod q) (k : Nat) (s : Step) : LStep q :=
  ⟨⟨.inv, s.nn, s.L⟩, fun t => rd tbl (s.off + t), τLevel v (2 * 2 ^ k) s.nn⟩

def fwdLSteps {q : Nat} (k : Nat) (levels : Array Level) (tbl : Array Nat) (w : ZMod q) : List (LStep q) :=
  ⟨⟨.twist false, 2 ^ k, levels.getD 0 default⟩, fun t => rd tbl t, fun i => w ^ i⟩ ::
    (fwdSteps levels k 1 (2 ^ k)).map (mkFwdL tbl w k)

def invLSteps {q : Nat} (k : Nat) (levels : Array Level) (tbl : Array Nat) (v ninv : ZMod q) : List (LStep q) :=
  (invSteps levels k 0 0).map (mkInvL tbl v k) ++
    [⟨⟨.twist (levels.getD k default).reduce, 2 ^ k, levels.getD k default⟩,
      fun t => rd tbl (2 ^ k - 1 - k + t), fun i => v ^ i * ninv⟩]

theorem fwdLSteps_descs {q : Nat} (k : Nat) (levels : Array Level) (tbl : Array Nat) (w : ZMod q) :
    (fwdLSteps k levels tbl w).map (·.d) = fwdDescs k levels := by
  simp [fwdLSteps, fwdDescs, mkFwdL, Function.comp_def]

theorem invLSteps_descs {q : Nat} (k : Nat) (levels : Array Level) (tbl : Array Nat) (v ninv : ZMod q) :
    (invLSteps k levels tbl v ninv).map (·.d) = invDescs k levels := by
  simp [invLSteps, invDescs, mkInvL, Function.comp_def]

theorem rd_nttPlain {q : Nat} (k : Nat) (hk : k ≠ 0) (levels : Array Level) (R : Reduc) (tbl x : Array Nat)
    (hx : x.size = 2 ^ k) (w : ZMod q) :
    rd (nttPlain k levels R tbl x) = runAll (2 ^ k) R (fwdLSteps k levels tbl w) (rd x) := by
  unfold nttPlain
  rw [if_neg hk, rd_foldl_fwd R tbl (mkFwdL tbl w k) (fun s => ⟨rfl, rfl⟩)]
  simp only [fwdLSteps, runAll, size_pass, hx]
  rw [rd_pass_fun, hx]
  rfl

theorem rd_inttPlain {q : Nat} (k : Nat) (hk : k ≠ 0) (levels : Array Level) (R : Reduc) (tbl x : Array Nat)
    (hx : x.size = 2 ^ k) (v ninv : ZMod q) :
    rd (inttPlain k levels R tbl x) = runAll (2 ^ k) R (invLSteps k levels tbl v ninv) (rd x) := by
  unfold inttPlain
  rw [if_neg hk, rd_pass_fun, rd_foldl_inv R tbl (mkInvL tbl v k) (fun s => ⟨rfl, rfl⟩)]
  simp only [invLSteps, runAll_append, runAll]
  rw [size_foldl_pass (fun s y => invPass R tbl s y) (by simp), hx]
  rfl

theorem exAll_fwd {q : Nat} (tbl : Array Nat) (w : ZMod q) (k : Nat) (l : List Step) (g : Nat → ZMod q) :
    exAll (l.map (mkFwdL tbl w k)) g = exFwdAll (l.map fun s => (s.nn, τLevel w (2 * 2 ^ k) s.nn)) g := by
  induction l generalizing g with
  | nil => rfl
  | cons s l ih => simp only [List.map_cons, exAll, exFwdAll]; exact ih _

theorem exInvAll_snoc {K : Type} [CommRing K] (a : List (Nat × (Nat → K))) (p : Nat × (Nat → K)) (g : Nat → K) :
    exInvAll (a ++ [p]) g = exInvAll a (exInv p.1 p.2 g) := by
  induction a with
  | nil => rfl
  | cons s a ih => simp only [List.cons_append, exInvAll]; rw [ih]

theorem exAll_inv {q : Nat} (tbl : Array Nat) (v : ZMod q) (k : Nat) (l : List Step) (g : Nat → ZMod q) :
    exAll (l.map (mkInvL tbl v k)) g
      = exInvAll (l.reverse.map fun s => (s.nn, τLevel v (2 * 2 ^ k) s.nn)) g := by
  induction l generalizing g with
  | nil => rfl
  | cons s l ih =>
    simp only [List.map_cons, exAll, List.reverse_cons, List.map_append, List.map_nil]
    rw [ih, exInvAll_snoc]
    rfl

theorem exAll_fwdLSteps {q : Nat} (k : Nat) (levels : Array Level) (tbl : Array Nat) (w : ZMod q)
    (g : Nat → ZMod q) : exAll (fwdLSteps k levels tbl w) g = exNtt w k g := by
  simp only [fwdLSteps, exAll, exNtt, exLevels]
  rw [exAll_fwd, ← fwdSteps_sizes levels k 1 (2 ^ k), List.map_map]
  rfl

theorem exAll_invLSteps {q : Nat} (k : Nat) (levels : Array Level) (tbl : Array Nat) (v ninv : ZMod q)
    (g : Nat → ZMod q) : exAll (invLSteps k levels tbl v ninv) g = exIntt v ninv k g := by
  simp only [invLSteps, exAll_append, exAll, exIntt, exLevels]
  rw [exAll_inv, ← invSizes_reverse, ← invSteps_sizes levels k 0 0, ← List.map_reverse, List.map_map]
  rfl

/-! ### refinement of one lane under the certificate -/

theorem dvd_of_mem_fwdLSteps {q : Nat} (k : Nat) (levels : Array Level) (tbl : Array Nat) (w : ZMod q)
    (s : LStep q) (hs : s ∈ fwdLSteps k levels tbl w) : s.d.nn ∣ 2 ^ k := by
  rcases List.mem_cons.1 hs with rfl | hs
  · exact dvd_refl _
  · obtain ⟨t, ht, rfl⟩ := List.mem_map.1 hs
    obtain ⟨a, _, ha, hnn⟩ := mem_fwdSteps _ _ _ _ t ht
    show t.nn ∣ 2 ^ k
    rw [hnn]; exact pow_dvd_pow 2 ha

theorem dvd_of_mem_invLSteps {q : Nat} (k : Nat) (levels : Array Level) (tbl : Array Nat) (v ninv : ZMod q)
    (s : LStep q) (hs : s ∈ invLSteps k levels tbl v ninv) : s.d.nn ∣ 2 ^ k := by
  rcases List.mem_append.1 hs with hs | hs
  · obtain ⟨t, ht, rfl⟩ := List.mem_map.1 hs
    obtain ⟨a, _, ha, hnn⟩ := mem_invSteps _ _ _ _ t ht
    show t.nn ∣ 2 ^ k
    rw [hnn]; exact pow_dvd_pow 2 (by omega)
  · rw [List.mem_singleton] at hs; subst hs; exact dvd_refl _

/-- forward transform of one lane: under the certificate (any metadata), with the model's table, for every
    input lane `< 2^64`: nothing exceeds its word in any pass and every output cell is congruent to the exact
    forward transform -/
theorem nttLane_refines (q Ω k : Nat) (hq : 1 < q) (hk : k ≠ 0) (levels : Array Level) (R : Reduc) (B' : Nat)
    (hcert : certOK q R (fwdDescs k levels) W64 = some B')
    (x : Array Nat) (hx : x.size = 2 ^ k) (hlt : ∀ i < 2 ^ k, rd x i < W64) :
    (nttLane k levels R (tableFwd q Ω k levels) x).size = 2 ^ k ∧
    safeAll (2 ^ k) R (fwdLSteps k levels (tableFwd q Ω k levels) ((omegaN q Ω k : Nat) : ZMod q)) (rd x) ∧
    ∀ i < 2 ^ k, rd (nttLane k levels R (tableFwd q Ω k levels) x) i < B' ∧
      ((rd (nttLane k levels R (tableFwd q Ω k levels) x) i : Nat) : ZMod q)
        = exNtt ((omegaN q Ω k : Nat) : ZMod q) k (fun j => ((rd x j : Nat) : ZMod q)) i := by
  have hplain : nttLane k levels R (tableFwd q Ω k levels) x = nttPlain k levels R (tableFwd q Ω k levels) x :=
    nttLaneS_eq_plain _ k (Nat.min_le_left _ _) levels R _ x hx
  rw [hplain, rd_nttPlain k hk levels R _ x hx ((omegaN q Ω k : Nat) : ZMod q)]
  have hsz : (nttPlain k levels R (tableFwd q Ω k levels) x).size = 2 ^ k := by
    unfold nttPlain; rw [if_neg hk, size_foldl_pass (fun s y => fwdPass R _ s y) (by simp), size_pass, hx]
  obtain ⟨h1, h2⟩ := cert_sound (2 ^ k) R (fwdLSteps k levels (tableFwd q Ω k levels) ((omegaN q Ω k : Nat) : ZMod q))
    W64 B' (by rw [fwdLSteps_descs]; exact hcert) (dvd_of_mem_fwdLSteps k levels _ _)
    (by
      intro s hs
      rcases List.mem_cons.1 hs with rfl | hs
      · exact twSpec_tableFwd_twist q Ω k hq levels
      · obtain ⟨t, ht, rfl⟩ := List.mem_map.1 hs
        exact twSpec_tableFwd_level q Ω k hq levels t ht)
    (rd x) hlt
  refine ⟨hsz, h1, fun i hi => ⟨(h2 i hi).1, ?_⟩⟩
  rw [(h2 i hi).2, exAll_fwdLSteps]

/-- inverse transform of one lane, same statement -/
theorem inttLane_refines (q Ω k : Nat) (hq : 1 < q) (hk : k ≠ 0) (levels : Array Level) (R : Reduc) (B' : Nat)
    (hcert : certOK q R (invDescs k levels) W64 = some B')
    (x : Array Nat) (hx : x.size = 2 ^ k) (hlt : ∀ i < 2 ^ k, rd x i < W64) :
    (inttLane k levels R (tableInv q Ω k levels) x).size = 2 ^ k ∧
    safeAll (2 ^ k) R (invLSteps k levels (tableInv q Ω k levels)
      ((modqPow (omegaN q Ω k) (-1) q : Nat) : ZMod q) ((modqPow (2 ^ k) (-1) q : Nat) : ZMod q)) (rd x) ∧
    ∀ i < 2 ^ k, rd (inttLane k levels R (tableInv q Ω k levels) x) i < B' ∧
      ((rd (inttLane k levels R (tableInv q Ω k levels) x) i : Nat) : ZMod q)
        = exIntt ((modqPow (omegaN q Ω k) (-1) q : Nat) : ZMod q) ((modqPow (2 ^ k) (-1) q : Nat) : ZMod q) k
            (fun j => ((rd x j : Nat) : ZMod q)) i := by
  have hplain : inttLane k levels R (tableInv q Ω k levels) x = inttPlain k levels R (tableInv q Ω k levels) x :=
    inttLaneS_eq_plain _ k (Nat.min_le_left _ _) levels R _ x hx
  rw [hplain, rd_inttPlain k hk levels R _ x hx ((modqPow (omegaN q Ω k) (-1) q : Nat) : ZMod q)
    ((modqPow (2 ^ k) (-1) q : Nat) : ZMod q)]
  have hsz : (inttPlain k levels R (tableInv q Ω k levels) x).size = 2 ^ k := by
    unfold inttPlain; rw [if_neg hk, size_pass, size_foldl_pass (fun s y => invPass R _ s y) (by simp), hx]
  obtain ⟨h1, h2⟩ := cert_sound (2 ^ k) R (invLSteps k levels (tableInv q Ω k levels)
      ((modqPow (omegaN q Ω k) (-1) q : Nat) : ZMod q) ((modqPow (2 ^ k) (-1) q : Nat) : ZMod q))
    W64 B' (by rw [invLSteps_descs]; exact hcert) (dvd_of_mem_invLSteps k levels _ _ _)
    (by
      intro s hs
      rcases List.mem_append.1 hs with hs | hs
      · obtain ⟨t, ht, rfl⟩ := List.mem_map.1 hs
        exact twSpec_tableInv_level q Ω k hq levels t ht
      · rw [List.mem_singleton] at hs; subst hs
        exact twSpec_tableInv_twist q Ω k hq levels)
    (rd x) hlt
  refine ⟨hsz, h1, fun i hi => ⟨(h2 i hi).1, ?_⟩⟩
  rw [(h2 i hi).2, exAll_invLSteps]

end Spq.Q120Ntt
