/-
  Closing C16, continued: the vector-matrix product in DFT space (the column-level facts inside agent I's
  `vmp_exact_aux`, stated before the inverse DFT), `vec_znx_idft`, the small product.
-/
import SpqProofs.Lemmas.ClosedSound
import SpqProofs.Lemmas.ModuleVmpCongr
import SpqProofs.Lemmas.ProgRaw
set_option linter.unusedSectionVars false
namespace Spq.Closed
open Finset Spq Spq.Module Spq.Prog Reim4

variable {R : Type} [CommRing R]

section
variable (c : Parts R) (z : ℕ → Cx R) (ha : ExactArith c) (hd : ExactDft c z) (hl : FromLocal c)
include ha hd

/-- `vmp_prepare_contiguous` + `vmp_apply_dft`, in DFT space: column `j < min ncols rsz` is the DFT of
    `Σ_i a_i · M[i][j]`, the other columns are zero (the proof follows `Module.vmp_exact_aux`) -/
theorem vmp_cols (mat : Array Int) (nrows ncols : ℕ)
    (hmat : ∀ i j, i < nrows → j < ncols → (matEntry mat ncols c.nn i j).size = c.nn)
    (a : Array Int) (asz asl : ℕ) (hlimb : ∀ i, i < min nrows asz → (limbOf a i asl c.nn).size = c.nn) (rsz : ℕ) :
    (vmpApplyDft c rsz a asz asl (vmpPrepare c mat nrows ncols) nrows ncols).size = rsz * c.nn ∧
    ∀ j, j < rsz → dlimb (vmpApplyDft c rsz a asz asl (vmpPrepare c mat nrows ncols) nrows ncols) j c.nn =
      if j < min ncols rsz then
        c.fft (c.fromZnx (isum c.nn (min nrows asz) (fun i => nmul c.nn (limbOf a i asl c.nn) (matEntry mat ncols c.nn i j))))
      else Array.replicate c.nn 0 := by
  have hnn := ha.hnn
  have hra : min nrows asz ≤ asz := Nat.min_le_right _ _
  have hrn : min nrows asz ≤ nrows := Nat.min_le_left _ _
  have hcn : min ncols rsz ≤ ncols := Nat.min_le_left _ _
  have hcr : min ncols rsz ≤ rsz := Nat.min_le_right _ _
  obtain ⟨_, b2⟩ := vecDft_spec c (min nrows asz) a asz asl (fun i => c.fft (c.fromZnx (limbOf a i asl c.nn)))
    (fun i hi => by rw [if_pos (by omega)]) (fun i hi => hd.fft_size _ (hd.fromZnx_size _ (hlimb i hi)))
  have hT : ∀ row col, row < nrows → col < ncols → (matDft c mat ncols row col).size = c.nn :=
    fun row col hr hc => hd.fft_size _ (hd.fromZnx_size _ (hmat row col hr hc))
  have hD : vmpApplyDft c rsz a asz asl (vmpPrepare c mat nrows ncols) nrows ncols =
      vmpApplyDftToDft c rsz (vecDft c (min nrows asz) a asz asl) asz (vmpPrepare c mat nrows ncols) nrows ncols := rfl
  obtain ⟨L1, L2, L3⟩ := vmp_layout_aux c ha mat nrows ncols rsz asz (vecDft c (min nrows asz) a asz asl) (fun _ => hT)
  rw [← hD] at L1 L2 L3
  refine ⟨L1, ?_⟩
  intro j hjr
  have hstep := mul_step j rsz c.nn hjr
  by_cases hj : j < min ncols rsz
  · rw [if_pos hj]
    apply eq_of_cx_reim c.m _ _ (by unfold dlimb; rw [size_extract_of_le _ _ _ (by omega)]; exact hnn)
      (by rw [hd.fft_size _ (hd.fromZnx_size _ (size_isum _ _ _))]; exact hnn)
    intro t ht
    rw [dlimb_cx _ j c.nn c.m t (by omega), L2 j t hj ht,
      ← fft_isum c z ha hd _ _ (fun i _ => size_nmul _ _ _) t ht]
    apply sum_congr rfl
    intro i hi
    have hi := mem_range.1 hi
    rw [← dlimb_cx _ i c.nn c.m t (by omega), b2 i hi, matDft_eq,
      ← (mul_exact c ha _ _).2 t ht, fft_prod c z ha hd _ _ (hlimb i hi) (hmat i j (by omega) (by omega))]
  · rw [if_neg hj]
    unfold dlimb
    apply ext_getD 0 _ _ (by rw [size_extract_of_le _ _ _ (by omega)]; simp)
    intro x
    rw [getD_extract, getD_replicate_zero]
    split
    · exact L3 j x (by omega)
    · rfl

omit ha hd in
/-- `vmp_prepare_contiguous`: the source array itself is the integer matrix -/
theorem vmp_prepare_sound (x : Array Int) (nrows ncols : ℕ) (f : ℕ → ℕ → ℤ)
    (hag : Agree c.nn x (nrows * ncols) c.nn f) :
    RepMx c (Val.mk c.nn (nrows * ncols) f) nrows ncols (vmpPrepare c x nrows ncols) := by
  refine ⟨x, ?_, rfl⟩
  intro i j hi hj
  have hidx : i * ncols + j < nrows * ncols := by
    have := mul_step i nrows ncols hi
    omega
  have e : matEntry x ncols c.nn i j = limbOf x (i * ncols + j) c.nn c.nn := rfl
  rw [e]
  refine ⟨size_limbOf _ _ _ _ (hag.1 _ hidx), ?_⟩
  intro t ht
  rw [limbOf_getD _ _ _ _ _ ht, hag.2 _ t hidx ht, coef_mk _ _ _ _ _ hidx ht]

include hl

/-- `vmp_apply_dft` -/
theorem vmp_sound (x : Array Int) (asz asl rsz : ℕ) (f : ℕ → ℕ → ℤ) (M : Val) (pm : Array R) (nrows ncols : ℕ)
    (hag : Agree c.nn x asz asl f) (hM : RepMx c M nrows ncols pm) :
    RepVx c (Val.mk c.nn rsz (Prog.vmpVal c.nn asz (zext asz f) M nrows ncols)) rsz
      (vmpApplyDft c rsz x asz asl pm nrows ncols) := by
  obtain ⟨mat, hmat, rfl⟩ := hM
  have hra : min nrows asz ≤ asz := Nat.min_le_right _ _
  have hrn : min nrows asz ≤ nrows := Nat.min_le_left _ _
  obtain ⟨s1, s2⟩ := vmp_cols c z ha hd mat nrows ncols (fun i j hi hj => (hmat i j hi hj).1) x asz asl
    (fun i hi => size_limbOf _ _ _ _ (hag.1 i (by omega))) rsz
  refine ⟨s1, ?_⟩
  intro j hj
  rw [s2 j hj]
  by_cases h : j < min ncols rsz
  · rw [if_pos h]
    have hjc : j < ncols := by omega
    apply fft_congr c hl
    intro t ht
    rw [getD_isum _ _ _ _ ht, getD_polyArr _ _ _ ht, coef_mk _ _ _ _ _ hj ht]
    unfold Prog.vmpVal
    rw [if_pos hjc]
    apply progSumTo_congr
    intro i hi
    apply getD_nmul _ _ _ _ _ _ _ t ht
    · intro u hu
      rw [limbOf_getD _ _ _ _ _ hu, hag.2 i u (by omega) hu, zext, if_pos (by omega)]
    · intro u hu
      exact (hmat i j (by omega) hjc).2 u hu
  · rw [if_neg h]
    have hz : c.ar.zero = 0 := by rw [ha.har]; rfl
    rw [← hz]
    apply zero_limb c z ha hd hl
    intro t ht
    rw [coef_mk _ _ _ _ _ hj ht]
    unfold Prog.vmpVal
    rw [if_neg (by omega)]

/-- `vmp_apply_dft_to_dft` of ANY represented vector (raw transform or product: exact arithmetic has no rounding to
    propagate): the object equals `vmp_apply_dft` of the canonical integer vector -/
theorem vmp_dd_sound (P : Val) (asz rsz : ℕ) (d : Array R) (M : Val) (pm : Array R) (nrows ncols : ℕ)
    (hP : RepVx c P asz d) (hM : RepMx c M nrows ncols pm) :
    RepVx c (Val.mk c.nn rsz (Prog.vmpVal c.nn asz (zext asz fun i t => P.coef i t) M nrows ncols)) rsz
      (vmpApplyDftToDft c rsz d asz pm nrows ncols) := by
  have hag : Agree c.nn (flatOf c.nn asz fun i t => P.coef i t) asz c.nn (fun i t => P.coef i t) :=
    agree_flatOf c.nn asz _
  have hV := dft_sound c z ha hd hl _ asz c.nn asz _ hag
  have hsz : ∀ i, i < asz →
      (c.fft (c.fromZnx (limbOf (flatOf c.nn asz fun i t => P.coef i t) i c.nn c.nn))).size = c.nn :=
    fun i hi => hd.fft_size _ (hd.fromZnx_size _ (size_limbOf _ _ _ _ (hag.1 i hi)))
  have e1 := vmpApplyDft_eq c ha.hnn ha.hblk rsz (flatOf c.nn asz fun i t => P.coef i t) asz c.nn pm nrows ncols hsz
  have e2 : vmpApplyDftToDft c rsz d asz pm nrows ncols =
      vmpApplyDftToDft c rsz (vecDft c asz (flatOf c.nn asz fun i t => P.coef i t) asz c.nn) asz pm nrows ncols := by
    have hra : min nrows asz ≤ asz := Nat.min_le_right _ _
    apply vmpApply_congr c ha.hnn ha.hblk
    · intro x hx
      have hn : 0 < c.nn := by
        rcases Nat.eq_zero_or_pos c.nn with q | q
        · rw [q] at hx; omega
        · exact q
      have hi : x / c.nn < min nrows asz := (Nat.div_lt_iff_lt_mul hn).2 hx
      have hia : x / c.nn < asz := by omega
      have e : x = x / c.nn * c.nn + x % c.nn := by rw [Nat.mul_comm]; exact (Nat.div_add_mod x c.nn).symm
      have hk : x % c.nn < c.nn := Nat.mod_lt _ hn
      have hl1 : dlimb d (x / c.nn) c.nn =
          dlimb (vecDft c asz (flatOf c.nn asz fun i t => P.coef i t) asz c.nn) (x / c.nn) c.nn := by
        rw [hP.2 _ hia, hV.2 _ hia]
        apply fft_congr c hl
        intro t ht
        rw [getD_polyArr _ _ _ ht, getD_polyArr _ _ _ ht, coef_mk _ _ _ _ _ hia ht, zext, if_pos hia]
      have g := congrArg (fun v => v.getD (x % c.nn) c.ar.zero) hl1
      simp only [dlimb, getD_extract] at g
      rw [if_pos (by omega), if_pos (by omega), ← e] at g
      exact g
    · rw [hP.1]; exact Nat.mul_le_mul_right _ hra
    · rw [hV.1]; exact Nat.mul_le_mul_right _ hra
  rw [e2, ← e1]
  exact vmp_sound c z ha hd hl _ asz c.nn rsz _ M pm nrows ncols hag hM

omit ha hl in
/-- `vec_znx_idft` of a represented vector returns the integers -/
theorem idft_sound (P : Val) (sz rsz : ℕ) (d : Array R) (h : RepVx c P sz d) (i t : ℕ) (hi : i < rsz) (ht : t < c.nn) :
    (vecIdft c rsz d sz).getD (i * c.nn + t) 0 = zext sz (fun i t => P.coef i t) i t := by
  obtain ⟨_, v⟩ := vecIdft_spec c rsz d sz
    (fun i => if i < sz then polyArr c.nn (P.coef i) else Array.replicate c.nn 0)
    (by
      intro i _
      by_cases hs : i < sz
      · rw [if_pos hs, if_pos hs, h.2 i hs, roundtrip c z hd _ (size_polyArr _ _)]
      · rw [if_neg hs, if_neg hs])
    (by intro i _; split <;> simp)
  have e := congrArg (fun a => a.getD t 0) (v i hi)
  simp only [dlimb, getD_extract] at e
  rw [if_pos (by omega)] at e
  rw [e, zext]
  by_cases hs : i < sz
  · rw [if_pos hs, if_pos hs, getD_polyArr _ _ _ ht]
  · rw [if_neg hs, if_neg hs]; simp [Array.getD_eq_getD_getElem?, ht]

/-- `znx_small_single_product` -/
theorem small_product_sound (a b : Array Int) (fa fb : ℕ → ℤ) (h1 : ∀ t, t < c.nn → a.getD t 0 = fa t)
    (h2 : ∀ t, t < c.nn → b.getD t 0 = fb t) (t : ℕ) (ht : t < c.nn) :
    (smallProduct c a b).getD t 0 = polyMul c.nn fa fb t := by
  have e : smallProduct c a b = smallProduct c (polyArr c.nn fa) (polyArr c.nn fb) := by
    unfold smallProduct
    rw [hl a (polyArr c.nn fa) (fun u hu => by rw [h1 u hu, getD_polyArr _ _ _ hu]),
      hl b (polyArr c.nn fb) (fun u hu => by rw [h2 u hu, getD_polyArr _ _ _ hu])]
  rw [e, smallProduct_exact c z ha hd _ _ (size_polyArr _ _) (size_polyArr _ _)]
  exact getD_nmul _ _ _ _ _ (fun u hu => getD_polyArr _ _ _ hu) (fun u hu => getD_polyArr _ _ _ hu) t ht

/-- **`DftOpsSound` from H1–H4** (all budgets `True`) -/
def dftOpsSound_of_exact : DftOpsSound c c.nn where
  nn_eq := rfl
  RepV := RepVx c
  RepS := RepSx c
  RepM := RepMx c
  dft_budget _ _ _ := True
  svp_prepare_budget _ := True
  svp_budget _ _ _ _ := True
  vmp_prepare_budget _ _ _ := True
  vmp_budget _ _ _ _ _ _ := True
  vmp_dd_budget _ _ _ _ _ _ _ := True
  idft_budget _ _ := True
  small_product_budget _ _ := True
  dft_exact := fun x asz asl rsz f _ hag _ => dft_sound c z ha hd hl x asz asl rsz f hag
  svp_prepare_exact := fun x f hx _ => svp_prepare_sound c hl x f hx
  svp_exact := fun x asz asl rsz f sp s _ hag hs _ => svp_sound c z ha hd hl x asz asl rsz f sp s hag hs
  vmp_prepare_exact := fun x nrows ncols f hag _ => vmp_prepare_sound c x nrows ncols f hag
  vmp_exact := fun x asz asl rsz f M pm nrows ncols _ hag hM _ =>
    vmp_sound c z ha hd hl x asz asl rsz f M pm nrows ncols hag hM
  vmp_dd_exact := fun P asz rsz d M pm nrows ncols _ hP _ hM _ =>
    vmp_dd_sound c z ha hd hl P asz rsz d M pm nrows ncols hP hM
  dft_idft_exact := fun P sz rsz d h _ i t hi ht => idft_sound c z hd P sz rsz d h i t hi ht
  small_product_exact := fun a b fa fb h1 h2 _ t ht => small_product_sound c z ha hd hl a b fa fb h1 h2 t ht

end
end Spq.Closed
