/-
  Helper lemmas for C15 / C12: the cache state machine of the `*_simple` functions.
-/
import Spq.Caches
namespace Spq.Caches

/-- `m` is a power of two (otherwise `log2m` aborts in the real code) -/
def Pow2M (c : Call) : Prop := ∃ a : Nat, c.get "m" = ((2 ^ a : Nat) : Int)

/-- every filled slot holds the call that built it, stored in that call's own slot, with `m` a power of two -/
def Inv (s : Spec) (st : State) : Prop := ∀ k e, st k = some e → slotOf s e = k ∧ Pow2M e

theorem inv_empty (s : Spec) : Inv s empty := by
  intro k e h; simp [empty] at h

theorem sameKey_get (s : Spec) (e c : Call) (h : sameKey s e c = true) (p : String) (hp : p ∈ s.guard) :
    e.get p = c.get p := by
  unfold sameKey at h
  rw [List.all_eq_true] at h
  have := h p hp
  simpa using this

theorem ilog2_pow (a : Nat) : ilog2 ((2 ^ a : Nat) : Int) = a := by
  unfold ilog2
  have : ((2 ^ a : Nat) : Int).toNat = 2 ^ a := Int.toNat_natCast _
  rw [this, Nat.log2_two_pow]

theorem step_inv (s : Spec) (st : State) (c : Call) (hinv : Inv s st) (hc : Pow2M c) :
    Inv s (step s st c).1 := by
  have upd : Inv s (fun j => if j = slotOf s c then some c else st j) := by
    intro k e' h
    by_cases hk : k = slotOf s c
    · simp [hk] at h; subst h; exact ⟨hk.symm, hc⟩
    · simp [hk] at h; exact hinv k e' h
  cases hst : st (slotOf s c) with
  | none => simp only [step, hst]; exact upd
  | some e =>
    by_cases hk : sameKey s e c = true
    · simp only [step, hst, hk, if_true]; exact hinv
    · simp only [step, hst, hk]; exact upd

theorem run_inv (s : Spec) (hist : List Call) (hp : ∀ c ∈ hist, Pow2M c) : ∀ st, Inv s st → Inv s (run s st hist) := by
  induction hist with
  | nil => intro st h; exact h
  | cons c cs ih =>
    intro st h
    simp only [run, List.foldl_cons]
    exact ih (fun c' hc' => hp c' (by simp [hc'])) _ (step_inv s st c h (hp c (by simp)))

/-- the table used by a call was built with the same value of every key parameter -/
theorem step_used (s : Spec) (rel : String → Bool)
    (hkey : ∀ p, p ∈ s.initArgs → rel p = true → p ∈ s.guard ∨ (p = "m" ∧ s.slotByM = true))
    (st : State) (hinv : Inv s st) (c : Call) (hc : Pow2M c) :
    ∀ p, p ∈ s.initArgs → rel p = true → (step s st c).2.1.get p = c.get p := by
  intro p hp hr
  cases hst : st (slotOf s c) with
  | none => simp only [step, hst]
  | some e =>
    by_cases hk : sameKey s e c = true
    · simp only [step, hst, hk, if_true]
      rcases hkey p hp hr with hg | ⟨rfl, hs⟩
      · exact sameKey_get s e c hk p hg
      · -- same slot + powers of two ⇒ same m
        obtain ⟨hslot, a, ha⟩ := hinv _ e hst
        obtain ⟨b, hb⟩ := hc
        have : ilog2 (e.get "m") = ilog2 (c.get "m") := by
          simpa [slotOf, hs] using hslot
        rw [ha, hb, ilog2_pow, ilog2_pow] at this
        rw [ha, hb, this]
    · simp [step, hst, hk]

/-- a call whose slot is filled with a matching key changes nothing (no write to the shared table) -/
theorem step_warm (s : Spec) (st : State) (c e : Call) (he : st (slotOf s c) = some e) (hk : sameKey s e c = true) :
    step s st c = (st, e, false) := by
  simp only [step, he, hk, if_true]

/-- after a call, the same call again finds its slot warm -/
theorem step_then_warm (s : Spec) (st : State) (c : Call) :
    ∃ e, (step s st c).1 (slotOf s c) = some e ∧ sameKey s e c = true := by
  cases hst : st (slotOf s c) with
  | none => simp only [step, hst]; exact ⟨c, by simp, by simp [sameKey]⟩
  | some e =>
    by_cases hk : sameKey s e c = true
    · simp only [step, hst, hk, if_true]; exact ⟨e, rfl, hk⟩
    · simp only [step, hst, hk]; exact ⟨c, by simp, by simp [sameKey]⟩

end Spq.Caches
