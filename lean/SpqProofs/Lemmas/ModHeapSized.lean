/-
  `Sized (Cfg.parts cfg)`: the parts of the library's FFT64 module (bit-exact models of `reim_from_znx64`,
  `reim_fft`, `reim_ifft`, `reim_to_znx64` in the variant the module installed) map `nn`-cell limbs to `nn`-cell
  limbs, whatever the twiddle tables hold — provided `nn = 2m` and, when a 4-lane AVX conversion is installed,
  `4 | nn` (the do-while loops of `reim_from_znx64_bnd50_fma` / `reim_to_znx64_avx2_*` always run a whole number of
  4-lane iterations, at least one; the module installs them for `m ≥ 8` only).
-/
import SpqProofs.Lemmas.ModHeapKern
import SpqProofs.Lemmas.ConvVec
namespace Spq.ModuleHeap
open Spq Fft
variable {α : Type} [Inhabited α]

def Sz (n : Nat) (s : RI α) : Prop := s.re.size = n ∧ s.im.size = n

theorem sz_bf {n : Nat} (f : Bf α) (s : RI α) (a b : Nat) (wr wi : α) (h : Sz n s) : Sz n (bf f s a b wr wi) := by
  unfold bf Sz at *
  simp only [Array.set!_eq_setIfInBounds, Array.size_setIfInBounds]
  exact h

theorem iterFrom_inv {σ : Type} (P : σ → Prop) (f : Nat → σ → σ) (hf : ∀ i s, P s → P (f i s)) :
    ∀ (c i : Nat) (s : σ), P s → P (iterFrom f c i s)
  | 0, _, _, h => h
  | c + 1, i, s, h => iterFrom_inv P f hf c (i + 1) (f i s) (hf i s h)

theorem sz_iter {n : Nat} (f : Nat → RI α → RI α) (hf : ∀ i s, Sz n s → Sz n (f i s)) (c i : Nat) (s : RI α)
    (h : Sz n s) : Sz n (iterFrom f c i s) := iterFrom_inv (Sz n) f hf c i s h

/-- a pass on (state, table pointer) -/
theorem sz_iter2 {n : Nat} (f : Nat → RI α × Nat → RI α × Nat) (hf : ∀ i st, Sz n st.1 → Sz n (f i st).1) (c i : Nat)
    (st : RI α × Nat) (h : Sz n st.1) : Sz n (iterFrom f c i st).1 :=
  iterFrom_inv (fun st => Sz n st.1) f hf c i st h

macro "sz_0" : tactic => `(tactic| (with_reducible assumption))
macro "sz_a" : tactic => `(tactic| (with_reducible refine sz_bf _ _ _ _ _ _ ?_))
macro "sz_b" : tactic => `(tactic| (with_reducible refine sz_iter _ (fun _ _ _ => ?_) _ _ _ ?_))
macro "sz_c" : tactic => `(tactic| (dsimp only))
macro "sz_tac" : tactic => `(tactic| repeat (first | sz_0 | sz_a | sz_b | sz_c))

variable {n : Nat} (F : Flav α) (T : Array α)

theorem sz_twPass (f : Bf α) (h off : Nat) (wr wi : α) (s : RI α) (hs : Sz n s) : Sz n (twPass f h off wr wi s) := by
  unfold twPass; sz_tac

theorem sz_fft2 (t off : Nat) (s : RI α) (hs : Sz n s) : Sz n (fft2 F T t off s) := by unfold fft2; sz_tac
theorem sz_fft4 (t off : Nat) (s : RI α) (hs : Sz n s) : Sz n (fft4 F T t off s) := by unfold fft4; sz_tac
theorem sz_fft8 (t off : Nat) (s : RI α) (hs : Sz n s) : Sz n (fft8 F T t off s) := by unfold fft8; sz_tac
theorem sz_fft16 (t off : Nat) (s : RI α) (hs : Sz n s) : Sz n (fft16 F T t off s) := by unfold fft16 fft16K; sz_tac
theorem sz_ifft2 (t off : Nat) (s : RI α) (hs : Sz n s) : Sz n (ifft2 F T t off s) := by unfold ifft2; sz_tac
theorem sz_ifft4 (t off : Nat) (s : RI α) (hs : Sz n s) : Sz n (ifft4 F T t off s) := by unfold ifft4; sz_tac
theorem sz_ifft8 (t off : Nat) (s : RI α) (hs : Sz n s) : Sz n (ifft8 F T t off s) := by unfold ifft8; sz_tac
theorem sz_ifft16 (t off : Nat) (s : RI α) (hs : Sz n s) : Sz n (ifft16 F T t off s) := by unfold ifft16 ifft16K; sz_tac
theorem sz_bitwiddle (t h off : Nat) (s : RI α) (hs : Sz n s) : Sz n (bitwiddle F T t h off s) := by
  unfold bitwiddle; sz_tac
theorem sz_invbitwiddle (t h off : Nat) (s : RI α) (hs : Sz n s) : Sz n (invbitwiddle F T t h off s) := by
  unfold invbitwiddle; sz_tac

theorem sz_bfsLevels (m off : Nat) : ∀ (fuel mm : Nat) (st : RI α × Nat), Sz n st.1 → Sz n (bfsLevels F T m off fuel mm st).1
  | 0, _, _, h => h
  | fuel + 1, mm, st, h => by
    unfold bfsLevels
    split
    · exact sz_bfsLevels m off fuel _ _ (sz_iter2 _ (fun i st hs => sz_bitwiddle F T _ _ _ _ hs) _ _ _ h)
    · exact h

theorem sz_bfs16 (m off : Nat) (st : RI α × Nat) (h : Sz n st.1) : Sz n (bfs16 F T m off st).1 := by
  unfold bfs16
  dsimp only
  refine sz_iter2 _ (fun i st hs => ?_) _ _ _ ?_
  · exact sz_fft16 F T _ _ _ hs
  · refine sz_bfsLevels F T m off _ _ _ ?_
    dsimp only
    split
    · exact sz_twPass _ _ _ _ _ _ h
    · exact h

theorem sz_rec16 : ∀ (fuel m off : Nat) (st : RI α × Nat), Sz n st.1 → Sz n (rec16 F T fuel m off st).1
  | 0, m, off, st, h => by unfold rec16; exact sz_bfs16 F T m off st h
  | fuel + 1, m, off, st, h => by
    unfold rec16
    split
    · exact sz_bfs16 F T m off st h
    · exact sz_rec16 fuel _ _ _ (sz_rec16 fuel _ _ _ (sz_twPass _ _ _ _ _ _ h))

theorem sz_fftRI (m : Nat) (s : RI α) (h : Sz n s) : Sz n (fftRI F m T s) := by
  unfold fftRI
  split; · exact h
  split; · exact sz_fft2 F T _ _ _ h
  split; · exact sz_fft4 F T _ _ _ h
  split; · exact sz_fft8 F T _ _ _ h
  split; · exact sz_fft16 F T _ _ _ h
  split
  · exact sz_bfs16 F T m 0 (s, 0) h
  · exact sz_rec16 F T m m 0 (s, 0) h

theorem sz_ibfsLevels (m off : Nat) : ∀ (fuel hh : Nat) (st : RI α × Nat), Sz n st.1 → Sz n (ibfsLevels F T m off fuel hh st).1
  | 0, _, _, h => h
  | fuel + 1, hh, st, h => by
    unfold ibfsLevels
    split
    · exact sz_ibfsLevels m off fuel _ _ (sz_iter2 _ (fun i st hs => sz_invbitwiddle F T _ _ _ _ hs) _ _ _ h)
    · exact h

theorem sz_ibfs16 (m off : Nat) (st : RI α × Nat) (h : Sz n st.1) : Sz n (ibfs16 F T m off st).1 := by
  unfold ibfs16
  have h2 : Sz n (iterFrom (fun b (st : RI α × Nat) => (ifft16 F T st.2 (off + 16 * b) st.1, st.2 + 16)) (m / 16) 0 st).1 := by
    refine sz_iter2 _ (fun i st hs => ?_) _ _ _ h
    exact sz_ifft16 F T _ _ _ hs
  have h3 := sz_ibfsLevels F T m off m 16 _ h2
  dsimp only
  split
  · exact sz_twPass _ _ _ _ _ _ h3
  · exact h3

theorem sz_irec16 : ∀ (fuel m off : Nat) (st : RI α × Nat), Sz n st.1 → Sz n (irec16 F T fuel m off st).1
  | 0, m, off, st, h => by unfold irec16; exact sz_ibfs16 F T m off st h
  | fuel + 1, m, off, st, h => by
    unfold irec16
    split
    · exact sz_ibfs16 F T m off st h
    · exact sz_twPass _ _ _ _ _ _ (sz_irec16 fuel _ _ _ (sz_irec16 fuel _ _ _ h))

theorem sz_ifftRI (m : Nat) (s : RI α) (h : Sz n s) : Sz n (ifftRI F m T s) := by
  unfold ifftRI
  split; · exact h
  split; · exact sz_ifft2 F T _ _ _ h
  split; · exact sz_ifft4 F T _ _ _ h
  split; · exact sz_ifft8 F T _ _ _ h
  split; · exact sz_ifft16 F T _ _ _ h
  split
  · exact sz_ibfs16 F T m 0 (s, 0) h
  · exact sz_irec16 F T m m 0 (s, 0) h

theorem sz_splitRI (m : Nat) (d : Array α) (hd : d.size = 2 * m) : Sz m (splitRI m d) := by
  unfold splitRI Sz
  simp only [Array.size_extract]
  omega

theorem size_reimFftA (m : Nat) (d : Array α) (hd : d.size = 2 * m) : (reimFftA F m T d).size = 2 * m := by
  unfold reimFftA joinRI
  obtain ⟨a, b⟩ := sz_fftRI F T m _ (sz_splitRI m d hd)
  rw [Array.size_append, a, b]; omega

theorem size_reimIfftA (m : Nat) (d : Array α) (hd : d.size = 2 * m) : (reimIfftA F m T d).size = 2 * m := by
  unfold reimIfftA joinRI
  obtain ⟨a, b⟩ := sz_ifftRI F T m _ (sz_splitRI m d hd)
  rw [Array.size_append, a, b]; omega

/-- the library's module: `nn = 2m`; a 4-lane conversion kernel only when `4 | nn` -/
theorem sized_cfg (cfg : Module.Cfg) (hnn : cfg.nn = 2 * (cfg.nn / 2))
    (hv : cfg.fromBnd50 = true ∨ cfg.toVariant ≠ Conv.ToZnx64Variant.ref → cfg.nn % 4 = 0 ∧ 0 < cfg.nn) :
    Sized cfg.parts := by
  have e : cfg.parts.nn = cfg.nn := rfl
  refine ⟨?_, ?_, ?_, ?_⟩
  · intro x _
    show (if cfg.fromBnd50 then Conv.fromZnx64Bnd50 (cfg.nn / 2) x else Conv.fromZnx64Ref (cfg.nn / 2) x).size = cfg.nn
    split
    · rename_i hb
      obtain ⟨h4, h0⟩ := hv (Or.inl hb)
      unfold Conv.fromZnx64Bnd50
      rw [Conv.chunks4_size _ _ (by omega) (by omega)]; omega
    · unfold Conv.fromZnx64Ref
      rw [Conv.scalarLoop_size]; omega
  · intro x hx
    show (reimFft _ (cfg.nn / 2) cfg.fftT x).size = cfg.nn
    unfold reimFft
    rw [size_reimFftA _ _ _ _ (by rw [hx, e]; exact hnn)]; omega
  · intro x hx
    show (reimIfft _ (cfg.nn / 2) cfg.ifftT x).size = cfg.nn
    unfold reimIfft
    rw [size_reimIfftA _ _ _ _ (by rw [hx, e]; exact hnn)]; omega
  · intro x _
    show (Conv.toZnx64 cfg.toVariant (cfg.nn / 2) _ x).size = cfg.nn
    unfold Conv.toZnx64
    split
    · unfold Conv.toZnx64Ref
      simp only
      rw [Conv.scalarLoop_size]; omega
    · rename_i hb
      obtain ⟨h4, h0⟩ := hv (Or.inr (by rw [hb]; decide))
      unfold Conv.toZnx64Bnd50
      simp only
      rw [Conv.chunks4_size _ _ (by omega) (by omega)]; omega
    · rename_i hb
      obtain ⟨h4, h0⟩ := hv (Or.inr (by rw [hb]; decide))
      unfold Conv.toZnx64Bnd63
      simp only
      rw [Conv.chunks4_size _ _ (by omega) (by omega)]; omega

end Spq.ModuleHeap
