/-
  Helper lemmas for C12Warm: the warm-up protocol of the `*_simple` convenience functions.

  Part 1 (sequential): for a cache keyed by the dimension alone (`DimOnly`: one slot per `m`, no guard
  parameter) a filled slot is never written again; `Warm s st D` (the slots of the dimensions in `D` are
  filled, each with a table built for that dimension) is established by any history of power-of-two calls
  that contains one call per dimension, is preserved by every step, and makes every later call with a
  dimension in `D` — whatever its other arguments — a no-op on the cache state.
  Part 2 (threads): threads whose atomic actions are convenience calls (the real `step`, which may
  write) on a shared or per-thread cache state; schedule independence from a generic invariant.
-/
import SpqProofs.Lemmas.Caches
namespace Spq.Caches

/-- a cache whose key is the dimension alone: one slot per `m`, no re-initialisation guard -/
def DimOnly (s : Spec) : Prop := s.slotByM = true ∧ s.guard = []

/-- the slot used for dimension `m` -/
def slotOfM (s : Spec) (m : Int) : Nat := if s.slotByM then ilog2 m else 0

theorem slotOf_eq (s : Spec) (c : Call) : slotOf s c = slotOfM s (c.get "m") := rfl

/-- the slots of the dimensions in `D` are filled, each with a table built for that dimension -/
def Warm (s : Spec) (st : State) (D : List Int) : Prop :=
  ∀ m ∈ D, ∃ e, st (slotOfM s m) = some e ∧ e.get "m" = m

/-- the slot a step writes (`none`: the step writes nothing) — see `step_frame` -/
def written (s : Spec) (st : State) (c : Call) : Option Nat :=
  if (step s st c).2.2 then some (slotOf s c) else none

/-- `written` is sound: a step changes no slot other than the one it reports -/
theorem step_frame (s : Spec) (st : State) (c : Call) (k : Nat) (h : written s st c ≠ some k) :
    (step s st c).1 k = st k := by
  unfold written at h
  cases hst : st (slotOf s c) with
  | none =>
    simp only [step, hst] at h ⊢
    have : k ≠ slotOf s c := fun e => h (by simp [e])
    simp [this]
  | some e =>
    by_cases hk : sameKey s e c = true
    · simp only [step, hst, hk, if_true]
    · simp only [step, hst, hk] at h ⊢
      have : k ≠ slotOf s c := fun e => h (by simp [e])
      simp [this]

theorem sameKey_dimOnly (s : Spec) (h : DimOnly s) (e c : Call) : sameKey s e c = true := by
  simp [sameKey, h.2]

/-- a filled slot of a dimension-keyed cache is never written again -/
theorem step_filled (s : Spec) (h : DimOnly s) (st : State) (c : Call) (k : Nat) (e : Call)
    (hk : st k = some e) : (step s st c).1 k = some e := by
  cases hst : st (slotOf s c) with
  | none =>
    have : k ≠ slotOf s c := by intro e'; rw [e', hst] at hk; cases hk
    simp [step, hst, this, hk]
  | some e' => simp only [step, hst, sameKey_dimOnly s h, if_true]; exact hk

theorem run_filled (s : Spec) (h : DimOnly s) (k : Nat) (e : Call) : ∀ (hist : List Call) (st : State),
    st k = some e → run s st hist k = some e := by
  intro hist
  induction hist with
  | nil => intro st hk; exact hk
  | cons c cs ih =>
    intro st hk
    simp only [run, List.foldl_cons]
    exact ih _ (step_filled s h st c k e hk)

/-- `Warm` is preserved by EVERY step (any dimension, any arguments) -/
theorem warm_step (s : Spec) (h : DimOnly s) (st : State) (D : List Int) (c : Call) (hw : Warm s st D) :
    Warm s (step s st c).1 D := fun m hm =>
  let ⟨e, he, hem⟩ := hw m hm
  ⟨e, step_filled s h st c _ e he, hem⟩

theorem warm_run (s : Spec) (h : DimOnly s) (D : List Int) (hist : List Call) (st : State) (hw : Warm s st D) :
    Warm s (run s st hist) D := fun m hm =>
  let ⟨e, he, hem⟩ := hw m hm
  ⟨e, run_filled s h _ e hist st he, hem⟩

theorem run_append (s : Spec) (st : State) (a b : List Call) : run s st (a ++ b) = run s (run s st a) b := by
  simp [run, List.foldl_append]

/-- two power-of-two calls that use the same slot have the same dimension -/
theorem pow2_slot_inj (s : Spec) (hs : s.slotByM = true) (e c : Call) (he : Pow2M e) (hc : Pow2M c)
    (h : slotOf s e = slotOf s c) : e.get "m" = c.get "m" := by
  obtain ⟨a, ha⟩ := he
  obtain ⟨b, hb⟩ := hc
  have : ilog2 (e.get "m") = ilog2 (c.get "m") := by simpa [slotOf, hs] using h
  rw [ha, hb, ilog2_pow, ilog2_pow] at this
  rw [ha, hb, this]

/-- a completed call leaves its slot filled with a table built for its own dimension -/
theorem step_warms (s : Spec) (h : DimOnly s) (st : State) (hinv : Inv s st) (c : Call) (hc : Pow2M c) :
    ∃ e, (step s st c).1 (slotOf s c) = some e ∧ e.get "m" = c.get "m" := by
  obtain ⟨e, he, _⟩ := step_then_warm s st c
  obtain ⟨hslot, hpe⟩ := step_inv s st c hinv hc _ e he
  exact ⟨e, he, pow2_slot_inj s h.1 e c hpe hc hslot⟩

/-- ANY history of power-of-two calls containing at least one call per dimension of `D` establishes `Warm` -/
theorem warm_of_history (s : Spec) (h : DimOnly s) (D : List Int) (hist : List Call) (st : State)
    (hinv : Inv s st) (hp : ∀ c ∈ hist, Pow2M c) (hcov : ∀ m ∈ D, ∃ c ∈ hist, c.get "m" = m) :
    Warm s (run s st hist) D := by
  intro m hm
  obtain ⟨c, hc, hcm⟩ := hcov m hm
  obtain ⟨pre, post, rfl⟩ := List.append_of_mem hc
  have hpre : Inv s (run s st pre) := run_inv s pre (fun c' hc' => hp c' (by simp [hc'])) st hinv
  obtain ⟨e, he, hem⟩ := step_warms s h _ hpre c (hp c hc)
  refine ⟨e, ?_, hem.trans hcm⟩
  rw [run_append]
  simp only [run, List.foldl_cons]
  rw [slotOf_eq, hcm] at he
  exact run_filled s h _ e post _ he

/-- a later call with a warm dimension — ARBITRARY other arguments — rebuilds nothing, leaves the state
    unchanged and uses the table built for its dimension -/
theorem step_of_warm (s : Spec) (h : DimOnly s) (st : State) (D : List Int) (hw : Warm s st D)
    (c : Call) (hc : c.get "m" ∈ D) :
    ∃ e, st (slotOf s c) = some e ∧ e.get "m" = c.get "m" ∧ step s st c = (st, e, false) := by
  obtain ⟨e, he, hem⟩ := hw _ hc
  rw [← slotOf_eq] at he
  exact ⟨e, he, hem, step_warm s st c e he (sameKey_dimOnly s h e c)⟩

theorem written_of_warm (s : Spec) (h : DimOnly s) (st : State) (D : List Int) (hw : Warm s st D)
    (c : Call) (hc : c.get "m" ∈ D) : written s st c = none := by
  obtain ⟨e, _, _, hst⟩ := step_of_warm s h st D hw c hc
  simp [written, hst]

/-- any sequence of calls with warm dimensions: state unchanged, no rebuild at any position -/
theorem run_of_warm (s : Spec) (h : DimOnly s) (st : State) (D : List Int) (hw : Warm s st D) :
    ∀ cs : List Call, (∀ c ∈ cs, c.get "m" ∈ D) →
      run s st cs = st ∧ rebuilds s st cs = List.replicate cs.length false := by
  intro cs
  induction cs with
  | nil => intro _; exact ⟨rfl, rfl⟩
  | cons c cs ih =>
    intro hc
    obtain ⟨e, _, _, hst⟩ := step_of_warm s h st D hw c (hc c (by simp))
    obtain ⟨h1, h2⟩ := ih (fun c' hc' => hc c' (by simp [hc']))
    constructor
    · simp only [run, List.foldl_cons, hst]; exact h1
    · simp only [rebuilds, hst, List.length_cons, List.replicate_succ, h2]

/-! ### threads whose atomic actions are convenience calls (sequentially consistent interleavings)

  Same shape as `Spq.Globals` (`Prog/Conf/stepThread/runSched/runSolo`), but an action is a whole
  call of the cache state machine — executed by the real `step`, which writes a slot when it has to —
  and the cache state is either the one shared object (`tls = false`) or one object per thread
  (`tls = true`, the C `__thread` qualifier). -/

/-- what a call observes: the arguments the table it used was built with, and whether it built it now -/
abbrev Obs := Call × Bool

/-- a deterministic thread: its next call (all arguments) is a function of what it observed so far -/
abbrev CProg := List Obs → Option Call

structure CConf where
  shared : State
  priv : Nat → State
  hist : Nat → List Obs

/-- the cache object thread `t` works on -/
def cacheOf (tls : Bool) (c : CConf) (t : Nat) : State := if tls then c.priv t else c.shared

def stepThread (tls : Bool) (s : Spec) (progs : Nat → CProg) (c : CConf) (t : Nat) : CConf :=
  match progs t (c.hist t) with
  | none => c
  | some call =>
    let r := step s (cacheOf tls c t) call
    { shared := if tls then c.shared else r.1
      priv := fun u => if u = t then (if tls then r.1 else c.priv u) else c.priv u
      hist := fun u => if u = t then c.hist t ++ [(r.2.1, r.2.2)] else c.hist u }

def runSched (tls : Bool) (s : Spec) (progs : Nat → CProg) (c : CConf) (sched : List Nat) : CConf :=
  sched.foldl (stepThread tls s progs) c

def runSolo (tls : Bool) (s : Spec) (progs : Nat → CProg) (c : CConf) (t n : Nat) : CConf :=
  runSched tls s progs c (List.replicate n t)

/-- every call any thread can ever issue has its dimension in `D` (all other arguments are free and may
    depend on what the thread has observed) -/
def CallsIn (progs : Nat → CProg) (D : List Int) : Prop := ∀ t h call, progs t h = some call → call.get "m" ∈ D

theorem stepThread_hist_other (tls : Bool) (s : Spec) (progs : Nat → CProg) (c : CConf) (t u : Nat) (h : u ≠ t) :
    (stepThread tls s progs c t).hist u = c.hist u := by
  unfold stepThread
  split <;> simp [h]

/-- thread-local cache: a step of `t` touches neither the shared object nor another thread's object -/
theorem stepThread_tls (s : Spec) (progs : Nat → CProg) (c : CConf) (t : Nat) :
    (stepThread true s progs c t).shared = c.shared ∧
    ∀ u, u ≠ t → (stepThread true s progs c t).priv u = c.priv u := by
  unfold stepThread
  split
  · exact ⟨rfl, fun _ _ => rfl⟩
  · exact ⟨rfl, fun u hu => by simp [hu]⟩

/-- a step of `t` depends only on the cache object `t` works on and on `t`'s own observations -/
theorem stepThread_congr (tls : Bool) (s : Spec) (progs : Nat → CProg) (c c' : CConf) (t : Nat)
    (hs : cacheOf tls c t = cacheOf tls c' t) (hh : c.hist t = c'.hist t) :
    cacheOf tls (stepThread tls s progs c t) t = cacheOf tls (stepThread tls s progs c' t) t ∧
    (stepThread tls s progs c t).hist t = (stepThread tls s progs c' t).hist t := by
  unfold stepThread
  rw [hh]
  split
  · exact ⟨hs, hh⟩
  · cases tls <;> simp_all [cacheOf]

theorem runSolo_congr (tls : Bool) (s : Spec) (progs : Nat → CProg) (t n : Nat) : ∀ (c c' : CConf),
    cacheOf tls c t = cacheOf tls c' t → c.hist t = c'.hist t →
    cacheOf tls (runSolo tls s progs c t n) t = cacheOf tls (runSolo tls s progs c' t n) t ∧
    (runSolo tls s progs c t n).hist t = (runSolo tls s progs c' t n).hist t := by
  induction n with
  | zero => intro c c' hs hh; exact ⟨hs, hh⟩
  | succ n ih =>
    intro c c' hs hh
    have := stepThread_congr tls s progs c c' t hs hh
    simp only [runSolo, runSched, List.replicate_succ, List.foldl_cons] at *
    exact ih _ _ this.1 this.2

/-- generic schedule independence: under an invariant `Good` that every step preserves and under which a
    step of `t` does not change the cache object of any OTHER thread, every thread ends every
    interleaving with the cache object and the observations of its solo run -/
theorem runSched_view (tls : Bool) (s : Spec) (progs : Nat → CProg) (Good : CConf → Prop)
    (hstep : ∀ c t, Good c → Good (stepThread tls s progs c t))
    (hother : ∀ c t u, Good c → u ≠ t → cacheOf tls (stepThread tls s progs c t) u = cacheOf tls c u)
    (sched : List Nat) : ∀ (c : CConf) (u : Nat), Good c →
      cacheOf tls (runSched tls s progs c sched) u
        = cacheOf tls (runSolo tls s progs c u (sched.count u)) u ∧
      (runSched tls s progs c sched).hist u = (runSolo tls s progs c u (sched.count u)).hist u := by
  induction sched with
  | nil => intro c u _; exact ⟨rfl, rfl⟩
  | cons t sch ih =>
    intro c u hg
    have e : runSched tls s progs c (t :: sch) = runSched tls s progs (stepThread tls s progs c t) sch := by
      simp [runSched]
    rw [e]
    have := ih (stepThread tls s progs c t) u (hstep c t hg)
    rw [this.1, this.2]
    by_cases h : u = t
    · subst h
      simp only [List.count_cons_self]
      simp [runSolo, runSched, List.replicate_succ]
    · have hc : (t :: sch).count u = sch.count u := by
        rw [List.count_cons]; simp [Ne.symm h]
      rw [hc]
      exact runSolo_congr tls s progs u _ _ _ (hother c t u hg h) (stepThread_hist_other tls s progs c t u h)

/-- shared dimension-keyed cache, warm for `D`, calls in `D`: a step of any thread is a no-op on it -/
theorem stepThread_shared_warm (s : Spec) (h : DimOnly s) (progs : Nat → CProg) (D : List Int)
    (hin : CallsIn progs D) (c : CConf) (hw : Warm s c.shared D) (t : Nat) :
    (stepThread false s progs c t).shared = c.shared := by
  unfold stepThread
  split
  · rfl
  · rename_i call hcall
    obtain ⟨e, _, _, hst⟩ := step_of_warm s h c.shared D hw call (hin t _ call hcall)
    simp [cacheOf, hst]

theorem runSched_shared_warm (s : Spec) (h : DimOnly s) (progs : Nat → CProg) (D : List Int)
    (hin : CallsIn progs D) (sched : List Nat) : ∀ c : CConf, Warm s c.shared D →
    (runSched false s progs c sched).shared = c.shared := by
  induction sched with
  | nil => intro c _; rfl
  | cons t sch ih =>
    intro c hw
    have h1 := stepThread_shared_warm s h progs D hin c hw t
    simp only [runSched, List.foldl_cons] at *
    rw [ih _ (h1 ▸ hw), h1]

/-! ### data of the examples of `Properties/C12Warm.lean` -/

/-- warm-up calls for D = {8, 16} … -/
def warmupCalls : List Call := [[("m", 8), ("data", 4096), ("log2bound", 10)], [("m", 16), ("data", 8192), ("log2bound", 10)]]
/-- … then m = 8 with other arguments, then m = 16 with other arguments -/
def laterCalls : List Call := [[("m", 8), ("data", 12288), ("log2bound", 40)], [("m", 16), ("log2bound", 50)]]

theorem warmupCalls_pow2 : ∀ c ∈ warmupCalls, Pow2M c := by
  intro c hc
  simp only [warmupCalls, List.mem_cons, List.not_mem_nil, or_false] at hc
  rcases hc with rfl | rfl
  · exact ⟨3, by decide +kernel⟩
  · exact ⟨4, by decide +kernel⟩

end Spq.Caches
