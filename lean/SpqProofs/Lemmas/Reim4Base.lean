/-
  Base lemmas for the reim4 / complex-vector kernels (C17): single-cell and register stores,
  and the generic loop theorem "iterations with pairwise disjoint footprints".
-/
import Spq.Reim4
namespace Spq
variable {α : Type}

/-! ### one cell -/

theorem getD_setIfInBounds (a : Array α) (j i : Nat) (x z : α) :
    (a.setIfInBounds j x).getD i z = if j = i ∧ i < a.size then x else a.getD i z := by
  simp only [Array.getD_eq_getD_getElem?, Array.getElem?_setIfInBounds]
  by_cases h : j = i
  · subst h
    by_cases h2 : j < a.size <;> simp [h2]
  · simp [h]

theorem getD_of_size_le (a : Array α) (i : Nat) (z : α) (h : a.size ≤ i) : a.getD i z = z := by
  simp [Array.getD_eq_getD_getElem?, Array.getElem?_eq_none h]

namespace V4

/-! ### registers -/

theorem lane_splat (x : α) (l : Nat) : (splat x).lane l = x := by
  rcases l with _ | _ | _ | _ <;> rfl

theorem lane_map2 (f : α → α → α) (a b : V4 α) (l : Nat) :
    (map2 f a b).lane l = f (a.lane l) (b.lane l) := by
  rcases l with _ | _ | _ | _ <;> rfl

theorem lane_map3 (f : α → α → α → α) (a b c : V4 α) (l : Nat) :
    (map3 f a b c).lane l = f (a.lane l) (b.lane l) (c.lane l) := by
  rcases l with _ | _ | _ | _ <;> rfl

theorem lane_load (z : α) (a : Array α) (o l : Nat) (hl : l < 4) : (load z a o).lane l = a.getD (o + l) z := by
  rcases l with _ | _ | _ | _ | l
  · rfl
  · rfl
  · rfl
  · rfl
  · omega

@[simp] theorem size_store (a : Array α) (o : Nat) (v : V4 α) : (store a o v).size = a.size := by
  simp [store]

/-- a register store changes exactly the four addressed cells (those that exist) -/
theorem getD_store (a : Array α) (o : Nat) (v : V4 α) (i : Nat) (z : α) :
    (store a o v).getD i z = if o ≤ i ∧ i < o + 4 ∧ i < a.size then v.lane (i - o) else a.getD i z := by
  unfold store
  simp only [getD_setIfInBounds, Array.size_setIfInBounds]
  by_cases h3 : o + 3 = i
  · subst h3
    by_cases hs : o + 3 < a.size
    · have e : o + 3 - o = 3 := by omega
      simp [hs, e, lane]
    · have : a.size ≤ o + 3 := by omega
      simp [hs, getD_of_size_le a (o + 3) z this]
  by_cases h2 : o + 2 = i
  · subst h2
    by_cases hs : o + 2 < a.size
    · have e : o + 2 - o = 2 := by omega
      simp [hs, e, lane]
    · have : a.size ≤ o + 2 := by omega
      simp [hs, getD_of_size_le a (o + 2) z this]
  by_cases h1 : o + 1 = i
  · subst h1
    by_cases hs : o + 1 < a.size
    · have e : o + 1 - o = 1 := by omega
      simp [hs, e, lane]
    · have : a.size ≤ o + 1 := by omega
      simp [hs, getD_of_size_le a (o + 1) z this]
  by_cases h0 : o = i
  · subst h0
    by_cases hs : o < a.size
    · simp [hs, lane]
    · have : a.size ≤ o := by omega
      simp [hs, getD_of_size_le a o z this]
  · have : ¬ (o ≤ i ∧ i < o + 4 ∧ i < a.size) := by omega
    simp [h3, h2, h1, h0, this]

theorem getD_store_in (a : Array α) (o : Nat) (v : V4 α) (l : Nat) (z : α) (hl : l < 4) (hb : o + 4 ≤ a.size) :
    (store a o v).getD (o + l) z = v.lane l := by
  rw [getD_store]
  have h : o ≤ o + l ∧ o + l < o + 4 ∧ o + l < a.size := by omega
  rw [if_pos h]
  congr 1; omega

theorem getD_store_out (a : Array α) (o : Nat) (v : V4 α) (i : Nat) (z : α) (h : i < o ∨ o + 4 ≤ i) :
    (store a o v).getD i z = a.getD i z := by
  rw [getD_store]
  have : ¬ (o ≤ i ∧ i < o + 4 ∧ i < a.size) := by omega
  rw [if_neg this]

/-- two arrays that agree on a window give the same load -/
theorem load_congr (z : α) (a a' : Array α) (o : Nat) (h : ∀ x, o ≤ x → x < o + 4 → a.getD x z = a'.getD x z) :
    load z a o = load z a' o := by
  unfold load
  rw [h o (by omega) (by omega), h (o + 1) (by omega) (by omega), h (o + 2) (by omega) (by omega),
    h (o + 3) (by omega) (by omega)]

end V4

namespace Reim4

/-! ### the generic loop: iterations with pairwise disjoint footprints

  `foot j x` says that iteration `j` may write cell `x`.  If an iteration leaves the cells outside its
  footprint alone, and what it writes there only depends on what it finds there (and on the size),
  then after the loop every footprint holds what its iteration computes *on the initial array*, and
  every other cell is unchanged. -/
theorem fold_disjoint (z : α) (n : Nat) (body : Nat → Array α → Array α) (foot : Nat → Nat → Prop)
    (hsize : ∀ j r, (body j r).size = r.size)
    (r0 : Array α)
    (hframe : ∀ j, j < n → ∀ r x, r.size = r0.size → ¬ foot j x → (body j r).getD x z = r.getD x z)
    (hlocal : ∀ j, j < n → ∀ r r', r.size = r0.size → r'.size = r0.size → (∀ x, foot j x → r.getD x z = r'.getD x z) →
      ∀ x, foot j x → (body j r).getD x z = (body j r').getD x z)
    (hdisj : ∀ j j' x, j < n → j' < n → j ≠ j' → foot j x → ¬ foot j' x) :
    (Nat.fold n (fun j _ r => body j r) r0).size = r0.size ∧
    (∀ j, j < n → ∀ x, foot j x → (Nat.fold n (fun j _ r => body j r) r0).getD x z = (body j r0).getD x z) ∧
    (∀ x, (∀ j, j < n → ¬ foot j x) → (Nat.fold n (fun j _ r => body j r) r0).getD x z = r0.getD x z) := by
  induction n with
  | zero =>
    refine ⟨rfl, ?_, ?_⟩
    · intro j hj; omega
    · intro x _; rfl
  | succ n ih =>
    have ih' := ih (fun j hj => hframe j (by omega)) (fun j hj => hlocal j (by omega))
      (fun j j' x h1 h2 h3 => hdisj j j' x (by omega) (by omega) h3)
    rw [Nat.fold_succ]
    generalize Nat.fold n (fun j _ r => body j r) r0 = rn at ih'
    obtain ⟨ihs, ihv, ihf⟩ := ih'
    refine ⟨by rw [hsize, ihs], ?_, ?_⟩
    · intro j hj x hx
      by_cases hjn : j = n
      · subst hjn
        apply hlocal j (by omega) rn r0 ihs rfl _ x hx
        intro y hy
        apply ihf
        intro j' hj' hc
        exact hdisj j j' y (by omega) (by omega) (by omega) hy hc
      · have hlt : j < n := by omega
        rw [hframe n (by omega) rn x ihs (hdisj j n x (by omega) (by omega) hjn hx)]
        exact ihv j hlt x hx
    · intro x hx
      rw [hframe n (by omega) rn x ihs (hx n (by omega))]
      exact ihf x (fun j hj => hx j (by omega))

/-! ### `lanes`: scalar loop writing one "real" and one "imaginary" cell per step -/

theorem lanes_size (z : α) (n : Nat) (p q : Nat → Nat) (P Q : Nat → α → α) (dst : Array α) :
    (lanes z n p q P Q dst).size = dst.size := by
  unfold lanes
  induction n with
  | zero => rfl
  | succ n ih => rw [Nat.fold_succ]; simp only [Array.size_setIfInBounds]; exact ih

theorem lanes_spec (z : α) (n : Nat) (p q : Nat → Nat) (P Q : Nat → α → α) (dst : Array α)
    (hp : ∀ k k', k < n → k' < n → k ≠ k' → p k ≠ p k')
    (hq : ∀ k k', k < n → k' < n → k ≠ k' → q k ≠ q k')
    (hpq : ∀ k k', k < n → k' < n → p k ≠ q k')
    (hb : ∀ k, k < n → p k < dst.size ∧ q k < dst.size) :
    (lanes z n p q P Q dst).size = dst.size ∧
    (∀ k, k < n → (lanes z n p q P Q dst).getD (p k) z = P k (dst.getD (p k) z) ∧
                  (lanes z n p q P Q dst).getD (q k) z = Q k (dst.getD (q k) z)) ∧
    (∀ x, (∀ k, k < n → x ≠ p k ∧ x ≠ q k) → (lanes z n p q P Q dst).getD x z = dst.getD x z) := by
  let body : Nat → Array α → Array α := fun k acc =>
    (acc.setIfInBounds (p k) (P k (acc.getD (p k) z))).setIfInBounds (q k)
      (Q k ((acc.setIfInBounds (p k) (P k (acc.getD (p k) z))).getD (q k) z))
  have hfold : lanes z n p q P Q dst = Nat.fold n (fun k _ acc => body k acc) dst := rfl
  have hbody : ∀ k acc x, (body k acc).getD x z =
      if q k = x ∧ x < acc.size then
        Q k (if p k = q k ∧ q k < acc.size then P k (acc.getD (p k) z) else acc.getD (q k) z)
      else if p k = x ∧ x < acc.size then P k (acc.getD (p k) z) else acc.getD x z := by
    intro k acc x
    simp only [body, getD_setIfInBounds, Array.size_setIfInBounds]
  have main := fold_disjoint z n body (fun k x => x = p k ∨ x = q k)
    (by intro j r; simp [body])
    dst
    (by
      intro j _ r x _ hx
      rw [hbody]
      have h1 : ¬ (q j = x ∧ x < r.size) := by intro h; exact hx (Or.inr h.1.symm)
      have h2 : ¬ (p j = x ∧ x < r.size) := by intro h; exact hx (Or.inl h.1.symm)
      rw [if_neg h1, if_neg h2])
    (by
      intro j _ r r' hs hs' h x hx
      rw [hbody, hbody, hs, hs', h (p j) (Or.inl rfl), h (q j) (Or.inr rfl), h x hx])
    (by
      intro j j' x h1 h2 h3 hx hx'
      rcases hx with hx | hx <;> rcases hx' with hx' | hx'
      · exact hp j j' h1 h2 h3 (hx.symm.trans hx')
      · exact hpq j j' h1 h2 (hx.symm.trans hx')
      · exact hpq j' j h2 h1 (hx'.symm.trans hx)
      · exact hq j j' h1 h2 h3 (hx.symm.trans hx'))
  rw [hfold]
  obtain ⟨ms, mv, mf⟩ := main
  refine ⟨ms, ?_, ?_⟩
  · intro k hk
    obtain ⟨hb1, hb2⟩ := hb k hk
    have hne : p k ≠ q k := hpq k k hk hk
    constructor
    · rw [mv k hk (p k) (Or.inl rfl), hbody]
      have h1 : ¬ (q k = p k ∧ p k < dst.size) := by intro h; exact hne h.1.symm
      rw [if_neg h1, if_pos ⟨rfl, hb1⟩]
    · rw [mv k hk (q k) (Or.inr rfl), hbody]
      have h1 : ¬ (p k = q k ∧ q k < dst.size) := by intro h; exact hne h.1
      rw [if_pos ⟨rfl, hb2⟩, if_neg h1]
  · intro x hx
    apply mf
    intro j hj hc
    rcases hc with hc | hc
    · exact (hx j hj).1 hc
    · exact (hx j hj).2 hc

/-! ### `mapV4x2`: SIMD loop on a (real, imaginary) pair of registers per step -/

theorem mapV4x2_spec (z : α) (n : Nat) (p q : Nat → Nat) (F : Nat → V4 α → V4 α → V4 α × V4 α) (r : Array α)
    (hp : ∀ j j', j < n → j' < n → j ≠ j' → p j + 4 ≤ p j' ∨ p j' + 4 ≤ p j)
    (hq : ∀ j j', j < n → j' < n → j ≠ j' → q j + 4 ≤ q j' ∨ q j' + 4 ≤ q j)
    (hpq : ∀ j j', j < n → j' < n → p j + 4 ≤ q j' ∨ q j' + 4 ≤ p j)
    (hb : ∀ j, j < n → p j + 4 ≤ r.size ∧ q j + 4 ≤ r.size) :
    (mapV4x2 z n p q F r).size = r.size ∧
    (∀ j, j < n → ∀ l, l < 4 →
      (mapV4x2 z n p q F r).getD (p j + l) z = (F j (V4.load z r (p j)) (V4.load z r (q j))).1.lane l ∧
      (mapV4x2 z n p q F r).getD (q j + l) z = (F j (V4.load z r (p j)) (V4.load z r (q j))).2.lane l) ∧
    (∀ x, (∀ j, j < n → (x < p j ∨ p j + 4 ≤ x) ∧ (x < q j ∨ q j + 4 ≤ x)) →
      (mapV4x2 z n p q F r).getD x z = r.getD x z) := by
  let body : Nat → Array α → Array α := fun j r =>
    V4.store (V4.store r (p j) (F j (V4.load z r (p j)) (V4.load z r (q j))).1) (q j)
      (F j (V4.load z r (p j)) (V4.load z r (q j))).2
  have hfold : mapV4x2 z n p q F r = Nat.fold n (fun j _ r => body j r) r := rfl
  have hbody : ∀ j r x, (body j r).getD x z =
      if q j ≤ x ∧ x < q j + 4 ∧ x < r.size then (F j (V4.load z r (p j)) (V4.load z r (q j))).2.lane (x - q j)
      else if p j ≤ x ∧ x < p j + 4 ∧ x < r.size then (F j (V4.load z r (p j)) (V4.load z r (q j))).1.lane (x - p j)
      else r.getD x z := by
    intro j r x
    simp only [body, V4.getD_store, V4.size_store]
  have main := fold_disjoint z n body (fun j x => (p j ≤ x ∧ x < p j + 4) ∨ (q j ≤ x ∧ x < q j + 4))
    (by intro j r; simp [body])
    r
    (by
      intro j _ r x _ hx
      rw [hbody]
      have h1 : ¬ (q j ≤ x ∧ x < q j + 4 ∧ x < r.size) := by intro h; exact hx (Or.inr ⟨h.1, h.2.1⟩)
      have h2 : ¬ (p j ≤ x ∧ x < p j + 4 ∧ x < r.size) := by intro h; exact hx (Or.inl ⟨h.1, h.2.1⟩)
      rw [if_neg h1, if_neg h2])
    (by
      intro j _ r r' hs hs' h x hx
      have e1 : V4.load z r (p j) = V4.load z r' (p j) := V4.load_congr z r r' (p j) (fun y h1 h2 => h y (Or.inl ⟨h1, h2⟩))
      have e2 : V4.load z r (q j) = V4.load z r' (q j) := V4.load_congr z r r' (q j) (fun y h1 h2 => h y (Or.inr ⟨h1, h2⟩))
      rw [hbody, hbody, hs, hs', e1, e2, h x hx])
    (by
      intro j j' x h1 h2 h3 hx hx'
      have a := hp j j' h1 h2 h3
      have b := hq j j' h1 h2 h3
      have c := hpq j j' h1 h2
      have d := hpq j' j h2 h1
      omega)
  rw [hfold]
  obtain ⟨ms, mv, mf⟩ := main
  refine ⟨ms, ?_, ?_⟩
  · intro j hj l hl
    obtain ⟨hb1, hb2⟩ := hb j hj
    have hne := hpq j j hj hj
    constructor
    · rw [mv j hj (p j + l) (Or.inl (by omega)), hbody]
      have h1 : ¬ (q j ≤ p j + l ∧ p j + l < q j + 4 ∧ p j + l < r.size) := by omega
      have h2 : p j ≤ p j + l ∧ p j + l < p j + 4 ∧ p j + l < r.size := by omega
      rw [if_neg h1, if_pos h2]
      congr 1; omega
    · rw [mv j hj (q j + l) (Or.inr (by omega)), hbody]
      have h2 : q j ≤ q j + l ∧ q j + l < q j + 4 ∧ q j + l < r.size := by omega
      rw [if_pos h2]
      congr 1; omega
  · intro x hx
    apply mf
    intro j hj hc
    have := hx j hj
    omega

/-! ### `mapV4`: SIMD loop on one register per step -/

theorem mapV4_spec (z : α) (n : Nat) (p : Nat → Nat) (F : Nat → V4 α → V4 α) (r : Array α)
    (hp : ∀ j j', j < n → j' < n → j ≠ j' → p j + 4 ≤ p j' ∨ p j' + 4 ≤ p j)
    (hb : ∀ j, j < n → p j + 4 ≤ r.size) :
    (mapV4 z n p F r).size = r.size ∧
    (∀ j, j < n → ∀ l, l < 4 → (mapV4 z n p F r).getD (p j + l) z = (F j (V4.load z r (p j))).lane l) ∧
    (∀ x, (∀ j, j < n → x < p j ∨ p j + 4 ≤ x) → (mapV4 z n p F r).getD x z = r.getD x z) := by
  let body : Nat → Array α → Array α := fun j r => V4.store r (p j) (F j (V4.load z r (p j)))
  have hfold : mapV4 z n p F r = Nat.fold n (fun j _ r => body j r) r := rfl
  have hbody : ∀ j r x, (body j r).getD x z =
      if p j ≤ x ∧ x < p j + 4 ∧ x < r.size then (F j (V4.load z r (p j))).lane (x - p j) else r.getD x z := by
    intro j r x
    simp only [body, V4.getD_store]
  have main := fold_disjoint z n body (fun j x => p j ≤ x ∧ x < p j + 4)
    (by intro j r; simp [body])
    r
    (by
      intro j _ r x _ hx
      rw [hbody]
      have h2 : ¬ (p j ≤ x ∧ x < p j + 4 ∧ x < r.size) := by intro h; exact hx ⟨h.1, h.2.1⟩
      rw [if_neg h2])
    (by
      intro j _ r r' hs hs' h x hx
      have e1 : V4.load z r (p j) = V4.load z r' (p j) := V4.load_congr z r r' (p j) (fun y h1 h2 => h y ⟨h1, h2⟩)
      rw [hbody, hbody, hs, hs', e1, h x hx])
    (by
      intro j j' x h1 h2 h3 hx hx'
      have a := hp j j' h1 h2 h3
      omega)
  rw [hfold]
  obtain ⟨ms, mv, mf⟩ := main
  refine ⟨ms, ?_, ?_⟩
  · intro j hj l hl
    have hb1 := hb j hj
    rw [mv j hj (p j + l) (by omega), hbody]
    have h2 : p j ≤ p j + l ∧ p j + l < p j + 4 ∧ p j + l < r.size := by omega
    rw [if_pos h2]
    congr 1; omega
  · intro x hx
    apply mf
    intro j hj hc
    have := hx j hj
    omega

end Reim4
end Spq
