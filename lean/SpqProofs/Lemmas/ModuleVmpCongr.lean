/-
  `vmpApplyDftToDft` only reads the first `min nrows asz` rows of its input vector (any carrier, any prepared
  matrix); consequence: `vmp_apply_dft` (which transforms `min nrows asz` rows into scratch) equals
  `vmp_apply_dft_to_dft` of the full `vec_znx_dft` (C02.2).
-/
import SpqProofs.Lemmas.ModuleVec
namespace Spq.Module
open Spq Reim4
variable {α : Type}

theorem foldl_range_congr {β : Type} (f f' : β → Nat → β) (n : Nat) (b : β)
    (h : ∀ i, i < n → ∀ b, f b i = f' b i) : (List.range n).foldl f b = (List.range n).foldl f' b := by
  induction n with
  | zero => rfl
  | succ n ih =>
    rw [List.range_succ, List.foldl_append, List.foldl_append, ih (fun i hi => h i (by omega))]
    exact h n (by omega) _

/-- the extracted block depends only on the first `rowMax` rows of the source -/
theorem extractRows_congr (z : α) (m rowMax blk : Nat) (hb : 4 * blk + 4 ≤ m) (adft adft' : Array α)
    (h : ∀ x, x < rowMax * (2 * m) → adft.getD x z = adft'.getD x z) :
    extract1blkFromContiguousReimRef z m rowMax blk (Array.replicate (8 * rowMax) z) adft =
      extract1blkFromContiguousReimRef z m rowMax blk (Array.replicate (8 * rowMax) z) adft' := by
  have sz : ∀ src : Array α, (extract1blkFromContiguousReimRef z m rowMax blk (Array.replicate (8 * rowMax) z) src).size
      = 8 * rowMax := by
    intro src
    rw [extractC_eq_mapV4]
    obtain ⟨s1, _, _⟩ := mapV4_spec z (2 * rowMax) (fun i => 4 * i) (fun i _ => V4.load z src (4 * blk + i * m))
      (Array.replicate (8 * rowMax) z) (by intro j j' _ _ _; omega) (by intro j hj; simp; omega)
    rw [s1]; simp
  apply ext_getD z _ _ (by rw [sz, sz])
  intro x
  by_cases hx : x < 8 * rowMax
  · have hi : x / 8 < rowMax := by omega
    have hstep := mul_step (x / 8) rowMax (2 * m) hi
    by_cases hk : x % 8 < 4
    · have e : x = 8 * (x / 8) + x % 8 := by omega
      rw [e, (extractRows_get z m rowMax blk _ adft (by simp) (x / 8) (x % 8) hi hk).1,
        (extractRows_get z m rowMax blk _ adft' (by simp) (x / 8) (x % 8) hi hk).1]
      exact h _ (by omega)
    · have e : x = 8 * (x / 8) + 4 + (x % 8 - 4) := by omega
      rw [e, (extractRows_get z m rowMax blk _ adft (by simp) (x / 8) (x % 8 - 4) hi (by omega)).2,
        (extractRows_get z m rowMax blk _ adft' (by simp) (x / 8) (x % 8 - 4) hi (by omega)).2]
      exact h _ (by omega)
  · rw [getD_of_size_le _ _ _ (by rw [sz]; omega), getD_of_size_le _ _ _ (by rw [sz]; omega)]

theorem dlimb_congr (z : α) (nn rowMax k : Nat) (hk : k < rowMax) (adft adft' : Array α)
    (h : ∀ x, x < rowMax * nn → adft.getD x z = adft'.getD x z)
    (hs : rowMax * nn ≤ adft.size) (hs' : rowMax * nn ≤ adft'.size) : dlimb adft k nn = dlimb adft' k nn := by
  have hstep := mul_step k rowMax nn hk
  unfold dlimb
  apply ext_getD z _ _ (by simp; omega)
  intro x
  rw [getD_extract, getD_extract]
  by_cases hx : k * nn + x < k * nn + nn
  · rw [if_pos hx, if_pos hx]; exact h _ (by omega)
  · rw [if_neg hx, if_neg hx]

/-- `vmp_apply_dft_to_dft` reads only the first `min nrows asz` rows of `a_dft` -/
theorem vmpApply_congr (c : Parts α) (hnn : c.nn = 2 * c.m) (hblk : 8 ≤ c.nn → c.m % 4 = 0) (rsz asz nrows ncols : Nat)
    (pmat adft adft' : Array α)
    (h : ∀ x, x < min nrows asz * c.nn → adft.getD x c.ar.zero = adft'.getD x c.ar.zero)
    (hs : min nrows asz * c.nn ≤ adft.size) (hs' : min nrows asz * c.nn ≤ adft'.size) :
    vmpApplyDftToDft c rsz adft asz pmat nrows ncols = vmpApplyDftToDft c rsz adft' asz pmat nrows ncols := by
  unfold vmpApplyDftToDft
  by_cases h8 : 8 ≤ c.nn
  · simp only [ge_iff_le, h8, if_true]
    have hm4 := hblk h8
    apply foldl_range_congr
    intro blk hb res
    rw [extractRows_congr c.ar.zero c.m (min nrows asz) blk (by omega) adft adft' (by rw [← hnn]; exact h)]
  · simp only [ge_iff_le, h8, if_false]
    apply foldl_range_congr
    intro col _ res
    by_cases h0 : (min nrows asz == 0) = true
    · rw [if_pos h0, if_pos h0]
    · rw [if_neg h0, if_neg h0]
      have h0' : 0 < min nrows asz := by
        have : ¬ (min nrows asz = 0) := by simpa using h0
        omega
      rw [dlimb_congr c.ar.zero c.nn (min nrows asz) 0 h0' adft adft' h hs hs']
      refine congrArg (writeAt res (col * c.nn)) ?_
      apply foldl_range_congr
      intro k hk r
      rw [dlimb_congr c.ar.zero c.nn (min nrows asz) (k + 1) (by omega) adft adft' h hs hs']

/-- `fft64_vmp_apply_dft` (DFT of `min nrows asz` rows into scratch, then `apply_dft_to_dft`) equals
    `apply_dft_to_dft` of the whole `vec_znx_dft` of the same vector — as arrays, any carrier, any prepared matrix -/
theorem vmpApplyDft_eq (c : Parts α) (hnn : c.nn = 2 * c.m) (hblk : 8 ≤ c.nn → c.m % 4 = 0) (rsz : Nat) (a : Array Int)
    (asz asl : Nat) (pmat : Array α) (nrows ncols : Nat)
    (hsz : ∀ i, i < asz → (c.fft (c.fromZnx (limbOf a i asl c.nn))).size = c.nn) :
    vmpApplyDft c rsz a asz asl pmat nrows ncols =
      vmpApplyDftToDft c rsz (vecDft c asz a asz asl) asz pmat nrows ncols := by
  unfold vmpApplyDft
  dsimp only
  have hra : min nrows asz ≤ asz := Nat.min_le_right _ _
  obtain ⟨a1, a2⟩ := vecDft_spec c (min nrows asz) a asz asl (fun i => c.fft (c.fromZnx (limbOf a i asl c.nn)))
    (fun i hi => by rw [if_pos (by omega)]) (fun i hi => hsz i (by omega))
  obtain ⟨b1, b2⟩ := vecDft_spec c asz a asz asl (fun i => c.fft (c.fromZnx (limbOf a i asl c.nn)))
    (fun i hi => by rw [if_pos hi]) (fun i hi => hsz i hi)
  apply vmpApply_congr c hnn hblk
  · intro x hx
    have hn : 0 < c.nn := by
      rcases Nat.eq_zero_or_pos c.nn with q | q
      · rw [q] at hx; omega
      · exact q
    have hi : x / c.nn < min nrows asz := (Nat.div_lt_iff_lt_mul hn).2 hx
    have e : x = x / c.nn * c.nn + x % c.nn := by rw [Nat.mul_comm]; exact (Nat.div_add_mod x c.nn).symm
    have hk : x % c.nn < c.nn := Nat.mod_lt _ hn
    have g1 := congrArg (fun v => v.getD (x % c.nn) c.ar.zero) (a2 (x / c.nn) hi)
    have g2 := congrArg (fun v => v.getD (x % c.nn) c.ar.zero) (b2 (x / c.nn) (by omega))
    simp only [dlimb, getD_extract] at g1 g2
    rw [if_pos (by omega), ← e] at g1 g2
    rw [g1, g2]
  · exact Nat.le_of_eq a1.symm
  · rw [b1]; exact Nat.mul_le_mul_right _ hra

end Spq.Module
