/-
  C16, binary64 side, step 3: CANONICAL integer arrays of abstract values, and the congruences of the module-level
  functions that let a program-level budget be stated on the abstract state.
   * `polyArr N (f i)`            : limb `i` of a coefficient function (`Closed.polyArr`);
   * `Prog.flatOf N sz f`         : `sz` limbs, stride `N`, row-major (what `vmp_prepare_contiguous` receives, and the
                                    canonical form of a vector argument; `Spq/Prog.lean`, lemmas in `ProgRaw.lean`);
   * `limbOf_agree`               : every array `x` with `Prog.Agree N x asz asl f` has `limbOf x i asl N = polyArr N (f i)`;
   * `vecDft_congr`, `svpApply_congr`, `vmpPrepare_congr`, `vmpApplyDft_congr`: the module functions (ANY carrier,
     ANY parts) depend on their integer array argument only through the limbs they read.
-/
import SpqProofs.Lemmas.ClosedSound
import SpqProofs.Lemmas.ModuleVmpCongr
import SpqProofs.Lemmas.ProgRaw
set_option linter.unusedSectionVars false
namespace Spq.ProgErr
open Spq Spq.Module Spq.Prog Spq.Closed

/-- an array that holds `f` has the canonical limbs -/
theorem limbOf_agree {N : ℕ} {x : Array Int} {asz asl : ℕ} {f : ℕ → ℕ → ℤ} (hag : Agree N x asz asl f)
    (i : ℕ) (hi : i < asz) : limbOf x i asl N = polyArr N (f i) := by
  have hs : (limbOf x i asl N).size = N := size_limbOf _ _ _ _ (hag.1 i hi)
  apply Array.ext
  · rw [hs, size_polyArr]
  · intro t h1 h2
    rw [hs] at h1
    have e1 := limbOf_getD x i asl N t h1
    have e2 := getD_polyArr N (f i) t h1
    rw [hag.2 i t hi h1] at e1
    simp only [Array.getD_eq_getD_getElem?, Array.getElem?_eq_getElem h2] at e2
    have h1' : t < (limbOf x i asl N).size := by rw [hs]; exact h1
    simp only [Array.getD_eq_getD_getElem?, Array.getElem?_eq_getElem h1'] at e1
    simpa using e1.trans e2.symm

theorem limbOf_flatOf (N sz : ℕ) (f : ℕ → ℕ → ℤ) (i : ℕ) (hi : i < sz) :
    limbOf (flatOf N sz f) i N N = polyArr N (f i) := limbOf_agree (agree_flatOf N sz f) i hi

theorem matEntry_flatOf (N nrows ncols : ℕ) (f : ℕ → ℕ → ℤ) (i j : ℕ) (hi : i < nrows) (hj : j < ncols) :
    matEntry (flatOf N (nrows * ncols) f) ncols N i j = polyArr N (f (i * ncols + j)) := by
  have hidx : i * ncols + j < nrows * ncols := by
    have := Module.mul_step i nrows ncols hi
    omega
  exact limbOf_flatOf N (nrows * ncols) f (i * ncols + j) hidx

theorem matEntry_agree {N nrows ncols : ℕ} {x : Array Int} {f : ℕ → ℕ → ℤ} (hag : Agree N x (nrows * ncols) N f)
    (i j : ℕ) (hi : i < nrows) (hj : j < ncols) : matEntry x ncols N i j = polyArr N (f (i * ncols + j)) := by
  have hidx : i * ncols + j < nrows * ncols := by
    have := Module.mul_step i nrows ncols hi
    omega
  exact limbOf_agree hag (i * ncols + j) hidx

/-! ### congruences (any carrier) -/

variable {α : Type}

theorem vecDft_congr (c : Parts α) (rsz : ℕ) (x x' : Array Int) (asz asl asl' : ℕ)
    (h : ∀ i, i < rsz → i < asz → limbOf x i asl c.nn = limbOf x' i asl' c.nn) :
    vecDft c rsz x asz asl = vecDft c rsz x' asz asl' := by
  unfold vecDft
  apply foldl_range_congr
  intro i hi acc
  by_cases ha : i < asz
  · rw [if_pos ha, if_pos ha, h i hi ha]
  · rw [if_neg ha, if_neg ha]

theorem svpApply_congr (c : Parts α) (rsz : ℕ) (ppol : Array α) (x x' : Array Int) (asz asl asl' : ℕ)
    (h : ∀ i, i < rsz → i < asz → limbOf x i asl c.nn = limbOf x' i asl' c.nn) :
    svpApply c rsz ppol x asz asl = svpApply c rsz ppol x' asz asl' := by
  unfold svpApply
  apply foldl_range_congr
  intro i hi acc
  by_cases ha : i < asz
  · rw [if_pos ha, if_pos ha, h i hi ha]
  · rw [if_neg ha, if_neg ha]

theorem vmpPrepare_congr (c : Parts α) (mat mat' : Array Int) (nrows ncols : ℕ)
    (h : ∀ i j, i < nrows → j < ncols → matEntry mat ncols c.nn i j = matEntry mat' ncols c.nn i j) :
    vmpPrepare c mat nrows ncols = vmpPrepare c mat' nrows ncols := by
  unfold vmpPrepare
  apply foldl_range_congr
  intro row hr pm
  apply foldl_range_congr
  intro col hc pm2
  have e := h row col hr hc
  unfold matEntry at e
  simp only [e]

theorem vmpApplyDft_congr (c : Parts α) (rsz : ℕ) (x x' : Array Int) (asz asl asl' : ℕ) (pm : Array α)
    (nrows ncols : ℕ) (h : ∀ i, i < min nrows asz → limbOf x i asl c.nn = limbOf x' i asl' c.nn) :
    vmpApplyDft c rsz x asz asl pm nrows ncols = vmpApplyDft c rsz x' asz asl' pm nrows ncols := by
  unfold vmpApplyDft
  simp only
  rw [vecDft_congr c (min nrows asz) x x' asz asl asl' (fun i hi _ => h i hi)]

/-- an array holding `f` can be replaced by the canonical one in `vec_znx_dft` -/
theorem vecDft_canon (c : Parts α) (rsz : ℕ) {x : Array Int} {asz asl : ℕ} {f : ℕ → ℕ → ℤ}
    (hag : Agree c.nn x asz asl f) : vecDft c rsz x asz asl = vecDft c rsz (flatOf c.nn asz f) asz c.nn :=
  vecDft_congr c rsz x _ asz asl c.nn (fun i _ ha => by rw [limbOf_agree hag i ha, limbOf_flatOf _ _ _ i ha])

theorem svpApply_canon (c : Parts α) (rsz : ℕ) (ppol : Array α) {x : Array Int} {asz asl : ℕ} {f : ℕ → ℕ → ℤ}
    (hag : Agree c.nn x asz asl f) :
    svpApply c rsz ppol x asz asl = svpApply c rsz ppol (flatOf c.nn asz f) asz c.nn :=
  svpApply_congr c rsz ppol x _ asz asl c.nn (fun i _ ha => by rw [limbOf_agree hag i ha, limbOf_flatOf _ _ _ i ha])

theorem vmpPrepare_canon (c : Parts α) {x : Array Int} (nrows ncols : ℕ) {f : ℕ → ℕ → ℤ}
    (hag : Agree c.nn x (nrows * ncols) c.nn f) :
    vmpPrepare c x nrows ncols = vmpPrepare c (flatOf c.nn (nrows * ncols) f) nrows ncols :=
  vmpPrepare_congr c x _ nrows ncols
    (fun i j hi hj => by rw [matEntry_agree hag i j hi hj, matEntry_flatOf _ _ _ _ i j hi hj])

theorem vmpApplyDft_canon (c : Parts α) (rsz : ℕ) {x : Array Int} {asz asl : ℕ} {f : ℕ → ℕ → ℤ} (pm : Array α)
    (nrows ncols : ℕ) (hag : Agree c.nn x asz asl f) :
    vmpApplyDft c rsz x asz asl pm nrows ncols = vmpApplyDft c rsz (flatOf c.nn asz f) asz c.nn pm nrows ncols :=
  vmpApplyDft_congr c rsz x _ asz asl c.nn pm nrows ncols
    (fun i hi => by
      have ha : i < asz := by omega
      rw [limbOf_agree hag i ha, limbOf_flatOf _ _ _ i ha])

end Spq.ProgErr
