/-
  The decidable predicates of `C04Products.lean` discharged on the constants READ FROM THE CODE
  (lean/Gen/Q120Consts.lean: macros of q120_common.h; lean/Gen/ProdPrecomp.lean: content of the live
  `q120_new_vec_mat1col_product_{baa,bbb,bbc}_precomp()` objects), by kernel evaluation.
  If a change of the primes, of MAX_ELL or of the split-point search breaks a bound, the
  corresponding `…_current` theorem stops compiling.
-/
import SpqProofs.Lemmas.C04Products
import Gen.Q120Consts
import Gen.ProdPrecomp
namespace Spq.Q120

/-- the precomputed objects of the current build -/
def curBaa : BaaPrecomp := ⟨Gen.baa_h, Gen.baa_h_pow_red⟩
def curBbb : BbbPrecomp :=
  ⟨Gen.bbb_h, Gen.bbb_s1h_pow_red, Gen.bbb_s2l_pow_red, Gen.bbb_s2h_pow_red, Gen.bbb_s3l_pow_red,
   Gen.bbb_s3h_pow_red, Gen.bbb_s4l_pow_red, Gen.bbb_s4h_pow_red⟩
def curBbc : BbcPrecomp := ⟨Gen.bbc_h, Gen.bbc_s2l_pow_red, Gen.bbc_s2h_pow_red⟩

theorem baaOK_current : baaOK Gen.q120_max_ell curBaa Gen.q120_q = true := by decide +kernel
theorem baaAvxOK_current : baaAvxOK Gen.q120_max_ell curBaa Gen.q120_q = true := by decide +kernel
theorem bbbOK_current : bbbOK Gen.q120_max_ell curBbb Gen.q120_q = true := by decide +kernel
theorem bbbAvxOK_current : bbbAvxOK Gen.q120_max_ell curBbb Gen.q120_q = true := by decide +kernel
theorem bbcOK_current : bbcOK Gen.q120_max_ell curBbc Gen.q120_q = true := by decide +kernel
theorem bbcAvxOK_current : bbcAvxOK Gen.q120_max_ell curBbc Gen.q120_q = true := by decide +kernel

end Spq.Q120
