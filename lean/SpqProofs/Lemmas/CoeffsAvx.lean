/- the chunked AVX loops compute the reference kernels when 4 ∣ nn or nn ≤ 2 -/
import Spq.CoeffsAvx
namespace Spq.CoeffsAvx
variable {α : Type}

theorem foldl_chunks (f : Nat → α) (n : Nat) :
    (List.range n).foldl (fun acc c => acc ++ chunk f c) #[] = Array.ofFn (n := 4 * n) fun i => f i.val := by
  induction n with
  | zero => simp
  | succ n ih =>
    rw [List.range_succ, List.foldl_append, ih]
    simp only [List.foldl_cons, List.foldl_nil]
    apply Array.ext
    · simp [chunk]; omega
    · intro i h1 h2
      simp only [Array.size_append, Array.size_ofFn] at h1
      rw [Array.getElem_append]
      split
      · rename_i h; simp at h; simp
      · rename_i h
        simp only [Array.size_ofFn, Nat.not_lt] at h
        have hi : i - 4 * n < 4 := by simp [chunk] at h1; omega
        simp only [Array.size_ofFn, Array.getElem_ofFn]
        have : i = 4 * n + (i - 4 * n) := by omega
        rcases (show i - 4 * n = 0 ∨ i - 4 * n = 1 ∨ i - 4 * n = 2 ∨ i - 4 * n = 3 by omega) with e | e | e | e <;>
          simp [chunk, e] <;> congr 1 <;> omega

theorem run_eq (nn : Nat) (f : Nat → α) (h : nn ≤ 2 ∨ 4 ∣ nn) :
    run nn f = Array.ofFn (n := nn) fun i => f i.val := by
  unfold run
  split
  · rfl
  · rename_i h2
    rcases h with h | ⟨k, rfl⟩
    · omega
    · rw [foldl_chunks]
      have : (4 * k + 3) / 4 = k := by omega
      rw [this]

end Spq.CoeffsAvx
