/-
  Window abstraction for the `Spq.CIR` interpreter.

  The kernel theorems (`Properties/SrcElem.lean`, `SrcRot.lean`, `SrcNorm.lean`) are stated for pointers bound to
  the start of exact-size buffers.  The limb-vector wrappers call the kernels with pointers INTO one arena buffer
  (`res + i*res_sl`, …).  This file proves, once for every call-free statement of the IR, that a successful run
  on a "split" memory (one exact-size buffer per distinct window) is simulated by the run on the arena, where
  pointer `p` is bound to `(B, o_p)` instead of `(k_p, 0)`: same flow, same environment, the arena window of
  every pointer holds the content of its split buffer, and cells outside the written windows are unchanged.

  Hypotheses on the windows (`Win`): pointers sharing a split buffer have the same arena offset; the window of
  every WRITTEN pointer is disjoint from the windows of the pointers bound to other split buffers (read-only
  windows may overlap each other arbitrarily).  Which pointers are written is read off the statement
  syntactically (`wrPtrs`).
-/
import SpqProofs.Lemmas.SrcEval
namespace Spq.CIR

/-! ### syntactic classes -/
def Expr.simple : Expr → Bool
  | .lit _ => true
  | .var _ => true
  | .load _ i => i.simple
  | .cast _ e => e.simple
  | .un _ _ e => e.simple
  | .bin _ _ a b => a.simple && b.simple
  | .cond c a b => c.simple && a.simple && b.simple
  | .land a b => a.simple && b.simple
  | .lor a b => a.simple && b.simple
  | .isNull _ => true
  | .ptrEq _ _ _ _ => false
  | .ptrLt _ _ _ _ => false
  | .pload _ _ => false
  | .pload32 _ _ => false
  | .avar _ _ _ => false

/-- no calls, no pointer locals, no pointer comparisons other than with null -/
def Stmt.simple : Stmt → Bool
  | .skip => true
  | .assign _ e => e.simple
  | .store _ i e => i.simple && e.simple
  | .seq a b => a.simple && b.simple
  | .ite c t e => c.simple && t.simple && e.simple
  | .while c b => c.simple && b.simple
  | .for i c inc b => i.simple && c.simple && inc.simple && b.simple
  | .doWhile b c => b.simple && c.simple
  | .memcpy _ _ n => n.simple
  | .memset _ _ v n => v.simple && n.simple
  | .passign _ _ _ => false
  | .vstore _ _ _ _ => false
  | .call _ _ _ _ => false
  | .ret => true
  | .cont => true
  | .pstore _ _ _ => false
  | .pstore32 _ _ _ => false
  | .aset _ _ _ _ => false
  | .extcall _ _ _ => false

/-- pointer parameters a statement may write through -/
def wrPtrs : Stmt → List Nat
  | .store p _ _ => [p]
  | .memcpy d _ _ => [d]
  | .memset d _ _ _ => [d]
  | .seq a b => wrPtrs a ++ wrPtrs b
  | .ite _ t e => wrPtrs t ++ wrPtrs e
  | .while _ b => wrPtrs b
  | .for i _ inc b => wrPtrs i ++ wrPtrs inc ++ wrPtrs b
  | .doWhile b _ => wrPtrs b
  | _ => []

/-! ### the window layout -/
structure Win (B nn : Nat) (Γ Γ' : List Ptr) (wr : List Nat) : Prop where
  /-- pointer `p` is null on both sides, or bound to `(k, 0)` in the split memory and `(B, o)` in the arena -/
  rel : ∀ p, (Γ'.getD p none = none ∧ Γ.getD p none = none) ∨
    ∃ k o, Γ'.getD p none = some (k, 0) ∧ Γ.getD p none = some (B, o)
  cons : ∀ p q k o o', Γ'.getD p none = some (k, 0) → Γ'.getD q none = some (k, 0) →
    Γ.getD p none = some (B, o) → Γ.getD q none = some (B, o') → o = o'
  disj : ∀ p, p ∈ wr → ∀ q k k' o o', Γ'.getD p none = some (k, 0) → Γ'.getD q none = some (k', 0) → k ≠ k' →
    Γ.getD p none = some (B, o) → Γ.getD q none = some (B, o') → o + nn ≤ o' ∨ o' + nn ≤ o

/-- the arena `X` mirrors the split memory `m'` on every window -/
def MR (B nn : Nat) (Γ Γ' : List Ptr) (X : Array Int) (m' : Mem) : Prop :=
  ∀ p k o, Γ'.getD p none = some (k, 0) → Γ.getD p none = some (B, o) →
    (buf m' k).size = nn ∧ o + nn ≤ X.size ∧ ∀ c, c < nn → X.getD (o + c) 0 = (buf m' k).getD c 0

/-- cells outside the windows of the written pointers are those of `X0` -/
def FR (B nn : Nat) (Γ : List Ptr) (wr : List Nat) (X0 X : Array Int) : Prop :=
  X.size = X0.size ∧ ∀ x, (∀ p, p ∈ wr → ∀ o, Γ.getD p none = some (B, o) → x < o ∨ o + nn ≤ x) →
    X.getD x 0 = X0.getD x 0

/-- state relation: same environment; the arena-side memory is `m0` with buffer `B` replaced by `X` -/
def SR (B nn : Nat) (Γ Γ' : List Ptr) (wr : List Nat) (m0 : Mem) (X0 : Array Int) (σ σ' : State) : Prop :=
  σ.env = σ'.env ∧ ∃ X, σ.mem = m0.setIfInBounds B X ∧ MR B nn Γ Γ' X σ'.mem ∧ FR B nn Γ wr X0 X

section sim
variable {B nn : Nat} {Γ Γ' : List Ptr} {wr : List Nat} {m0 : Mem} {X0 : Array Int}

theorem loadCell_sim (hB : B < m0.size) (X : Array Int) (m' : Mem) (p : Nat) (iv v : Int)
    (hW : Win B nn Γ Γ' wr) (hM : MR B nn Γ Γ' X m') (h : loadCell m' (Γ'.getD p none) iv = .ok v) :
    loadCell (m0.setIfInBounds B X) (Γ.getD p none) iv = .ok v := by
  rcases hW.rel p with ⟨h1, _⟩ | ⟨k, o, h1, h2⟩
  · rw [h1] at h; simp [loadCell] at h
  · rw [h1] at h
    rw [h2]
    obtain ⟨hs, hb, hc⟩ := hM p k o h1 h2
    simp only [loadCell] at h ⊢
    split at h
    · rename_i hr
      simp only [R.ok.injEq] at h
      have hr' : (0 : Int) ≤ iv ∧ iv < (nn : Int) := by
        rw [hs] at hr; omega
      have e1 : ((0 : Nat) : Int) + iv = iv := by omega
      rw [buf_set_self m0 B X hB]
      have hin : (0 : Int) ≤ (o : Int) + iv ∧ (o : Int) + iv < (X.size : Int) := by omega
      rw [if_pos hin]
      have e2 : ((o : Int) + iv).toNat = o + iv.toNat := by omega
      rw [e2, hc iv.toNat (by omega), ← h, e1]
    · simp at h

theorem bind_eq_ok {α β : Type} {x : R α} {f : α → R β} {b : β} (h : x.bind f = .ok b) :
    ∃ a, x = .ok a ∧ f a = .ok b := by
  cases x with
  | ok a => exact ⟨a, rfl, h⟩
  | err e => simp [R.bind] at h

theorem isNull_sim (hW : Win B nn Γ Γ' wr) (p : Nat) :
    (Γ.getD p none).isNone = (Γ'.getD p none).isNone := by
  rcases hW.rel p with ⟨h1, h2⟩ | ⟨k, o, h1, h2⟩ <;> rw [h1, h2] <;> rfl

theorem eval_sim (hB : B < m0.size) (hW : Win B nn Γ Γ' wr) (σ σ' : State)
    (hS : SR B nn Γ Γ' wr m0 X0 σ σ') :
    ∀ (e : Expr) (v : Int), e.simple = true → eval Γ' σ' e = .ok v → eval Γ σ e = .ok v := by
  obtain ⟨henv, X, hm, hM, _⟩ := hS
  intro e
  induction e with
  | lit x => intro v _ h; exact h
  | var x => intro v _ h; rw [eval_var] at h ⊢; rw [henv]; exact h
  | load p i ih =>
    intro v hs h
    rw [eval_load] at h ⊢
    obtain ⟨iv, h1, h2⟩ := bind_eq_ok h
    rw [ih iv hs h1, R.bind_ok, hm]
    exact loadCell_sim hB X σ'.mem p iv v hW hM h2
  | cast t e ih =>
    intro v hs h
    rw [eval_cast] at h ⊢
    obtain ⟨x, h1, h2⟩ := bind_eq_ok h
    rw [ih x hs h1]; exact h2
  | un op t e ih =>
    intro v hs h
    rw [eval_un] at h ⊢
    obtain ⟨x, h1, h2⟩ := bind_eq_ok h
    rw [ih x hs h1]; exact h2
  | bin op t a b iha ihb =>
    intro v hs h
    simp only [Expr.simple, Bool.and_eq_true] at hs
    rw [eval_bin] at h ⊢
    obtain ⟨x, h1, h2⟩ := bind_eq_ok h
    obtain ⟨y, h3, h4⟩ := bind_eq_ok h2
    rw [iha x hs.1 h1, R.bind_ok, ihb y hs.2 h3]; exact h4
  | cond c a b ihc iha ihb =>
    intro v hs h
    simp only [Expr.simple, Bool.and_eq_true] at hs
    rw [eval_cond] at h ⊢
    obtain ⟨x, h1, h2⟩ := bind_eq_ok h
    rw [ihc x hs.1.1 h1, R.bind_ok]
    by_cases hx : x ≠ 0
    · rw [if_pos hx] at h2 ⊢; exact iha v hs.1.2 h2
    · rw [if_neg hx] at h2 ⊢; exact ihb v hs.2 h2
  | land a b iha ihb =>
    intro v hs h
    simp only [Expr.simple, Bool.and_eq_true] at hs
    rw [eval_land] at h ⊢
    obtain ⟨x, h1, h2⟩ := bind_eq_ok h
    rw [iha x hs.1 h1, R.bind_ok]
    by_cases hx : x = 0
    · rw [if_pos hx] at h2 ⊢; exact h2
    · rw [if_neg hx] at h2 ⊢
      obtain ⟨y, h3, h4⟩ := bind_eq_ok h2
      rw [ihb y hs.2 h3]; exact h4
  | lor a b iha ihb =>
    intro v hs h
    simp only [Expr.simple, Bool.and_eq_true] at hs
    rw [eval_lor] at h ⊢
    obtain ⟨x, h1, h2⟩ := bind_eq_ok h
    rw [iha x hs.1 h1, R.bind_ok]
    by_cases hx : x ≠ 0
    · rw [if_pos hx] at h2 ⊢; exact h2
    · rw [if_neg hx] at h2 ⊢
      obtain ⟨y, h3, h4⟩ := bind_eq_ok h2
      rw [ihb y hs.2 h3]; exact h4
  | isNull p =>
    intro v _ h
    rw [eval_isNull] at h ⊢
    rw [isNull_sim hW p]; exact h
  | ptrEq _ _ _ _ => intro v hs _; simp [Expr.simple] at hs
  | ptrLt _ _ _ _ => intro v hs _; simp [Expr.simple] at hs
  | pload _ _ => intro v hs _; simp [Expr.simple] at hs
  | pload32 _ _ => intro v hs _; simp [Expr.simple] at hs
  | avar _ _ _ => intro v hs _; simp [Expr.simple] at hs

theorem evalB_sim (hB : B < m0.size) (hW : Win B nn Γ Γ' wr) (σ σ' : State)
    (hS : SR B nn Γ Γ' wr m0 X0 σ σ') (c : Expr) (b : Bool) (hs : c.simple = true)
    (h : evalB Γ' c σ' = .ok b) : evalB Γ c σ = .ok b := by
  rw [evalB_def] at h ⊢
  obtain ⟨v, h1, h2⟩ := bind_eq_ok h
  rw [eval_sim hB hW σ σ' hS c v hs h1]; exact h2

/-! ### cell lemmas -/
theorem getD_setIfInBounds (a : Array Int) (i : Nat) (v : Int) (j : Nat) :
    (a.setIfInBounds i v).getD j 0 = if i = j ∧ i < a.size then v else a.getD j 0 := by
  by_cases hj : j < a.size
  · by_cases hij : i = j
    · subst hij; simp [Array.getD, hj]
    · simp [Array.getD, hj, hij]
  · by_cases hij : i = j
    · subst hij; simp [Array.getD, hj]
    · simp [Array.getD, hj, hij]

theorem getD_blit (src dst : Array Int) (os od c j : Nat) :
    (blit src os dst od c).getD j 0 =
      if od ≤ j ∧ j < od + c ∧ j < dst.size then src.getD (os + (j - od)) 0 else dst.getD j 0 := by
  by_cases hj : j < dst.size
  · by_cases h1 : od ≤ j ∧ j < od + c
    · simp [blit, Array.getD, hj, h1]
    · have : ¬ (od ≤ j ∧ j < od + c ∧ j < dst.size) := fun h => h1 ⟨h.1, h.2.1⟩
      simp [blit, Array.getD, hj, h1, this]
  · have : ¬ (od ≤ j ∧ j < od + c ∧ j < dst.size) := fun h => hj h.2.2
    simp [blit, Array.getD, hj, this]

theorem getD_fill (dst : Array Int) (od c : Nat) (v : Int) (j : Nat) :
    (fill dst od c v).getD j 0 = if od ≤ j ∧ j < od + c ∧ j < dst.size then v else dst.getD j 0 := by
  by_cases hj : j < dst.size
  · by_cases h1 : od ≤ j ∧ j < od + c
    · simp [fill, Array.getD, hj, h1]
    · have : ¬ (od ≤ j ∧ j < od + c ∧ j < dst.size) := fun h => h1 ⟨h.1, h.2.1⟩
      simp [fill, Array.getD, hj, h1, this]
  · have : ¬ (od ≤ j ∧ j < od + c ∧ j < dst.size) := fun h => hj h.2.2
    simp [fill, Array.getD, hj, this]

@[simp] theorem size_blit (src dst : Array Int) (os od c : Nat) : (blit src os dst od c).size = dst.size := by
  simp [blit]
@[simp] theorem size_fill (dst : Array Int) (od c : Nat) (v : Int) : (fill dst od c v).size = dst.size := by
  simp [fill]

/-- a generic "update of the window of a written pointer": if the new arena `X'` and the new split buffer `Y` of
    pointer `p` agree on `p`'s window, `X'` equals `X` outside that window, then the relations are preserved. -/
theorem update_rel (hW : Win B nn Γ Γ' wr) (X X' : Array Int) (m' : Mem) (p k o : Nat) (Y : Array Int)
    (hp : p ∈ wr) (h1 : Γ'.getD p none = some (k, 0)) (h2 : Γ.getD p none = some (B, o))
    (hM : MR B nn Γ Γ' X m') (hF : FR B nn Γ wr X0 X)
    (hsz : X'.size = X.size) (hY : Y.size = nn)
    (hin : ∀ c, c < nn → X'.getD (o + c) 0 = Y.getD c 0)
    (hout : ∀ x, (x < o ∨ o + nn ≤ x) → X'.getD x 0 = X.getD x 0) :
    MR B nn Γ Γ' X' (m'.setIfInBounds k Y) ∧ FR B nn Γ wr X0 X' := by
  by_cases hk : k < m'.size
  case neg =>
    -- the split buffer does not exist: its size `nn` is 0, nothing is stored
    have hn : nn = 0 := by
      have : (buf m' k).size = nn := (hM p k o h1 h2).1
      rw [buf_of_ge m' k (by omega)] at this
      simpa using this.symm
    have hset : m'.setIfInBounds k Y = m' := by
      apply Array.ext
      · simp
      · intro i hi1 hi2
        rw [Array.getElem_setIfInBounds_ne (by simpa using hi1) (by simp at hi1; omega)]
    rw [hset]
    constructor
    · intro q k' o' hq1 hq2
      obtain ⟨hs, hb, _⟩ := hM q k' o' hq1 hq2
      exact ⟨hs, by omega, fun c hc => by omega⟩
    · refine ⟨by rw [hsz]; exact hF.1, ?_⟩
      intro x hx
      rw [hout x (hx p hp o h2)]
      exact hF.2 x hx
  constructor
  · intro q k' o' hq1 hq2
    obtain ⟨hs, hb, hc⟩ := hM q k' o' hq1 hq2
    by_cases hkk : k' = k
    · subst hkk
      have ho : o = o' := hW.cons p q k' o o' h1 hq1 h2 hq2
      subst ho
      rw [buf_set_self m' k' Y hk]
      exact ⟨hY, by omega, hin⟩
    · rw [buf_set_ne m' k k' Y hkk]
      refine ⟨hs, by omega, ?_⟩
      intro c hc'
      have hd := hW.disj p hp q k k' o o' h1 hq1 (Ne.symm hkk) h2 hq2
      rw [hout (o' + c) (by omega)]
      exact hc c hc'
  · refine ⟨by rw [hsz]; exact hF.1, ?_⟩
    intro x hx
    rw [hout x (hx p hp o h2)]
    exact hF.2 x hx

theorem arena_modify (hB : B < m0.size) (X : Array Int) (g : Array Int → Array Int) :
    (m0.setIfInBounds B X).modify B g = m0.setIfInBounds B (g X) := by
  rw [modify_eq_set, buf_set_self m0 B X hB, set_set]

theorem storeCell_sim (hB : B < m0.size) (hW : Win B nn Γ Γ' wr) (X : Array Int) (m' m'' : Mem) (p : Nat)
    (iv v : Int) (hp : p ∈ wr) (hM : MR B nn Γ Γ' X m') (hF : FR B nn Γ wr X0 X)
    (h : storeCell m' (Γ'.getD p none) iv v = .ok m'') :
    ∃ X', storeCell (m0.setIfInBounds B X) (Γ.getD p none) iv v = .ok (m0.setIfInBounds B X') ∧
      MR B nn Γ Γ' X' m'' ∧ FR B nn Γ wr X0 X' := by
  rcases hW.rel p with ⟨h1, _⟩ | ⟨k, o, h1, h2⟩
  · rw [h1] at h; simp [storeCell] at h
  · rw [h1] at h
    rw [h2]
    obtain ⟨hs, hb, hc⟩ := hM p k o h1 h2
    simp only [storeCell] at h ⊢
    split at h
    · rename_i hr
      simp only [R.ok.injEq] at h
      have hr' : (0 : Int) ≤ iv ∧ iv < (nn : Int) := by rw [hs] at hr; omega
      rw [buf_set_self m0 B X hB]
      have hin : (0 : Int) ≤ (o : Int) + iv ∧ (o : Int) + iv < (X.size : Int) := by omega
      rw [if_pos hin, arena_modify hB]
      have e2 : ((o : Int) + iv).toNat = o + iv.toNat := by omega
      have e1 : (((0 : Nat) : Int) + iv).toNat = iv.toNat := by omega
      rw [e2]
      rw [e1, modify_eq_set] at h
      refine ⟨X.setIfInBounds (o + iv.toNat) v, rfl, ?_⟩
      rw [← h]
      apply update_rel hW X _ m' p k o _ hp h1 h2 hM hF (by simp) (by simp [hs])
      · intro c hc'
        rw [getD_setIfInBounds, getD_setIfInBounds, hc c hc']
        by_cases hcc : iv.toNat = c
        · subst hcc
          have : iv.toNat < (buf m' k).size := by omega
          simp [this]; omega
        · have : ¬ (o + iv.toNat = o + c) := by omega
          simp [hcc, this]
      · intro x hx
        rw [getD_setIfInBounds]
        have : ¬ (o + iv.toNat = x) := by omega
        simp [this]
    · simp at h

theorem memcpy_sim (hB : B < m0.size) (hW : Win B nn Γ Γ' wr) (X : Array Int) (m' m'' : Mem) (d s : Nat)
    (nv : Int) (hd : d ∈ wr) (hM : MR B nn Γ Γ' X m') (hF : FR B nn Γ wr X0 X)
    (h : memcpyCells m' (Γ'.getD d none) (Γ'.getD s none) nv = .ok m'') :
    ∃ X', memcpyCells (m0.setIfInBounds B X) (Γ.getD d none) (Γ.getD s none) nv = .ok (m0.setIfInBounds B X') ∧
      MR B nn Γ Γ' X' m'' ∧ FR B nn Γ wr X0 X' := by
  rcases hW.rel d with ⟨h1, _⟩ | ⟨kd, od, hd1, hd2⟩
  · rw [h1] at h; simp [memcpyCells] at h
  rcases hW.rel s with ⟨h1, _⟩ | ⟨ks, os, hs1, hs2⟩
  · rw [hd1, h1] at h; simp [memcpyCells] at h
  rw [hd1, hs1] at h
  rw [hd2, hs2]
  obtain ⟨hsd, hbd, hcd⟩ := hM d kd od hd1 hd2
  obtain ⟨hss, hbs, hcs⟩ := hM s ks os hs1 hs2
  simp only [memcpyCells] at h ⊢
  split at h
  · simp at h
  rename_i hnv
  rw [if_neg hnv]
  simp only [Nat.zero_add, ne_eq, not_true_eq_false, false_and, and_false, if_false] at h
  split at h
  case isFalse => simp at h
  rename_i hbnd
  simp only [R.ok.injEq] at h
  rw [hsd, hss] at hbnd
  rw [buf_set_self m0 B X hB]
  have hbnd' : od + (nv / 8).toNat ≤ X.size ∧ os + (nv / 8).toNat ≤ X.size := by omega
  rw [if_pos hbnd']
  have hov : ¬ (True ∧ od ≠ os ∧ od < os + (nv / 8).toNat ∧ os < od + (nv / 8).toNat) := by
    by_cases hk : kd = ks
    · subst hk
      have := hW.cons d s kd od os hd1 hs1 hd2 hs2
      omega
    · have := hW.disj d hd s kd ks od os hd1 hs1 hk hd2 hs2
      omega
  rw [if_neg hov, set_set]
  refine ⟨blit X os X od (nv / 8).toNat, rfl, ?_⟩
  rw [← h]
  apply update_rel hW X _ m' d kd od _ hd hd1 hd2 hM hF (by simp) (by simp [hsd])
  · intro c hc'
    rw [getD_blit, getD_blit]
    by_cases hcc : c < (nv / 8).toNat
    · have e1 : od ≤ od + c ∧ od + c < od + (nv / 8).toNat ∧ od + c < X.size := by omega
      have e2 : 0 ≤ c ∧ c < 0 + (nv / 8).toNat ∧ c < (buf m' kd).size := by omega
      rw [if_pos e1, if_pos e2]
      have e3 : od + c - od = c := by omega
      rw [e3, hcs c hc']
      simp
    · have e1 : ¬ (od ≤ od + c ∧ od + c < od + (nv / 8).toNat ∧ od + c < X.size) := by omega
      have e2 : ¬ (0 ≤ c ∧ c < 0 + (nv / 8).toNat ∧ c < (buf m' kd).size) := by omega
      rw [if_neg e1, if_neg e2, hcd c hc']
  · intro x hx
    rw [getD_blit]
    have e1 : ¬ (od ≤ x ∧ x < od + (nv / 8).toNat ∧ x < X.size) := by omega
    rw [if_neg e1]

theorem memset_sim (hB : B < m0.size) (hW : Win B nn Γ Γ' wr) (X : Array Int) (m' m'' : Mem) (d : Nat)
    (t : Ty) (vv nv : Int) (hd : d ∈ wr) (hM : MR B nn Γ Γ' X m') (hF : FR B nn Γ wr X0 X)
    (h : memsetCells m' (Γ'.getD d none) t vv nv = .ok m'') :
    ∃ X', memsetCells (m0.setIfInBounds B X) (Γ.getD d none) t vv nv = .ok (m0.setIfInBounds B X') ∧
      MR B nn Γ Γ' X' m'' ∧ FR B nn Γ wr X0 X' := by
  rcases hW.rel d with ⟨h1, _⟩ | ⟨kd, od, hd1, hd2⟩
  · rw [h1] at h; simp [memsetCells] at h
  rw [hd1] at h
  rw [hd2]
  obtain ⟨hsd, hbd, hcd⟩ := hM d kd od hd1 hd2
  simp only [memsetCells] at h ⊢
  split at h
  · simp at h
  rename_i hnv
  rw [if_neg hnv]
  simp only [Nat.zero_add] at h
  split at h
  case isFalse => simp at h
  rename_i hbnd
  simp only [R.ok.injEq] at h
  rw [hsd] at hbnd
  rw [buf_set_self m0 B X hB]
  have hbnd' : od + (nv / 8).toNat ≤ X.size := by omega
  rw [if_pos hbnd', set_set]
  refine ⟨fill X od (nv / 8).toNat (memsetPattern t vv), rfl, ?_⟩
  rw [← h]
  apply update_rel hW X _ m' d kd od _ hd hd1 hd2 hM hF (by simp) (by simp [hsd])
  · intro c hc'
    rw [getD_fill, getD_fill]
    by_cases hcc : c < (nv / 8).toNat
    · have e1 : od ≤ od + c ∧ od + c < od + (nv / 8).toNat ∧ od + c < X.size := by omega
      have e2 : 0 ≤ c ∧ c < 0 + (nv / 8).toNat ∧ c < (buf m' kd).size := by omega
      rw [if_pos e1, if_pos e2]
    · have e1 : ¬ (od ≤ od + c ∧ od + c < od + (nv / 8).toNat ∧ od + c < X.size) := by omega
      have e2 : ¬ (0 ≤ c ∧ c < 0 + (nv / 8).toNat ∧ c < (buf m' kd).size) := by omega
      rw [if_neg e1, if_neg e2, hcd c hc']
  · intro x hx
    rw [getD_fill]
    have e1 : ¬ (od ≤ x ∧ x < od + (nv / 8).toNat ∧ x < X.size) := by omega
    rw [if_neg e1]

/-! ### simulation of statements -/
variable (B nn Γ Γ' wr m0 X0) in
def Sim (A A' : Nat → State → Out) : Prop :=
  ∀ f σ' r', A' f σ' = .ok r' → ∀ σ, SR B nn Γ Γ' wr m0 X0 σ σ' →
    ∃ σ2, A f σ = .ok (r'.1, σ2) ∧ SR B nn Γ Γ' wr m0 X0 σ2 r'.2

theorem sim_seq (A A' C C' : Nat → State → Out) (hA : Sim B nn Γ Γ' wr m0 X0 A A')
    (hC : Sim B nn Γ Γ' wr m0 X0 C C') :
    Sim B nn Γ Γ' wr m0 X0 (fun f σ => seqK (A f σ) (C f)) (fun f σ => seqK (A' f σ) (C' f)) := by
  intro f σ' r' h σ hS
  simp only at h ⊢
  cases ha : A' f σ' with
  | err e => rw [ha] at h; simp [seqK] at h
  | ok r1 =>
    obtain ⟨fl, σ1'⟩ := r1
    obtain ⟨σ1, h1, hS1⟩ := hA f σ' _ ha σ hS
    rw [h1]
    rw [ha] at h
    cases fl with
    | norm => rw [seqK_norm] at h ⊢; exact hC f σ1' r' h σ1 hS1
    | ret => rw [seqK_ret] at h ⊢; cases h; exact ⟨σ1, rfl, hS1⟩
    | cont => rw [seqK_cont] at h ⊢; cases h; exact ⟨σ1, rfl, hS1⟩

theorem sim_thenStep (A A' C C' : Nat → State → Out) (hA : Sim B nn Γ Γ' wr m0 X0 A A')
    (hC : Sim B nn Γ Γ' wr m0 X0 C C') :
    Sim B nn Γ Γ' wr m0 X0 (fun f σ => thenStep (A f σ) fun σ1 => C f σ1)
      (fun f σ => thenStep (A' f σ) fun σ1 => C' f σ1) := by
  intro f σ' r' h σ hS
  simp only at h ⊢
  cases ha : A' f σ' with
  | err e => rw [ha] at h; simp [thenStep] at h
  | ok r1 =>
    obtain ⟨fl, σ1'⟩ := r1
    obtain ⟨σ1, h1, hS1⟩ := hA f σ' _ ha σ hS
    rw [h1]
    rw [ha] at h
    cases fl with
    | norm => exact hC f σ1' r' h σ1 hS1
    | cont => exact hC f σ1' r' h σ1 hS1
    | ret =>
      have : thenStep (R.ok (Flow.ret, σ1')) (fun σ1 => C' f σ1) = .ok (.ret, σ1') := rfl
      rw [this] at h; cases h
      exact ⟨σ1, rfl, hS1⟩

theorem sim_loopN (c c' : State → R Bool) (step step' : Nat → State → Out)
    (hc : ∀ σ σ' b, SR B nn Γ Γ' wr m0 X0 σ σ' → c' σ' = .ok b → c σ = .ok b)
    (hs : Sim B nn Γ Γ' wr m0 X0 step step') :
    Sim B nn Γ Γ' wr m0 X0 (loopN c step) (loopN c' step') := by
  intro f
  induction f with
  | zero =>
    intro σ' r' h σ hS
    simp only [loopN] at h ⊢
    cases hcc : c' σ' with
    | err e => rw [hcc] at h; simp at h
    | ok b =>
      rw [hcc] at h
      rw [hc σ σ' b hS hcc]
      cases b with
      | false => simp only at h ⊢; cases h; exact ⟨σ, rfl, hS⟩
      | true => simp at h
  | succ f ih =>
    intro σ' r' h σ hS
    simp only [loopN] at h ⊢
    cases hcc : c' σ' with
    | err e => rw [hcc] at h; simp at h
    | ok b =>
      rw [hcc] at h
      rw [hc σ σ' b hS hcc]
      cases b with
      | false => simp only at h ⊢; cases h; exact ⟨σ, rfl, hS⟩
      | true =>
        simp only at h ⊢
        cases hst : step' f σ' with
        | err e => rw [hst] at h; simp at h
        | ok r1 =>
          obtain ⟨fl, σ1'⟩ := r1
          obtain ⟨σ1, h1, hS1⟩ := hs f σ' _ hst σ hS
          rw [h1]
          rw [hst] at h
          cases fl with
          | ret => simp only at h ⊢; cases h; exact ⟨σ1, rfl, hS1⟩
          | norm => exact ih σ1' r' h σ1 hS1
          | cont => exact ih σ1' r' h σ1 hS1

theorem mem_of_append_left {a : Nat} {l1 l2 : List Nat} (h : ∀ p, p ∈ l1 ++ l2 → p ∈ wr) : ∀ p, p ∈ l1 → p ∈ wr :=
  fun p hp => h p (List.mem_append_left _ hp)
theorem mem_of_append_right {l1 l2 : List Nat} (h : ∀ p, p ∈ l1 ++ l2 → p ∈ wr) : ∀ p, p ∈ l2 → p ∈ wr :=
  fun p hp => h p (List.mem_append_right _ hp)

/-- every call-free statement run on the split memory is simulated on the arena -/
theorem exec_sim (hB : B < m0.size) (hW : Win B nn Γ Γ' wr) :
    ∀ (s : Stmt), s.simple = true → (∀ p, p ∈ wrPtrs s → p ∈ wr) →
      Sim B nn Γ Γ' wr m0 X0 (exec Γ s) (exec Γ' s)
  | .skip, _, _ => by
    intro f σ' r' h σ hS
    rw [exec_skip] at h ⊢; cases h; exact ⟨σ, rfl, hS⟩
  | .ret, _, _ => by
    intro f σ' r' h σ hS
    cases h; exact ⟨σ, rfl, hS⟩
  | .cont, _, _ => by
    intro f σ' r' h σ hS
    cases h; exact ⟨σ, rfl, hS⟩
  | .passign _ _ _, hs, _ => by simp [Stmt.simple] at hs
  | .vstore _ _ _ _, hs, _ => by simp [Stmt.simple] at hs
  | .call _ _ _ _, hs, _ => by simp [Stmt.simple] at hs
  | .pstore _ _ _, hs, _ => by simp [Stmt.simple] at hs
  | .pstore32 _ _ _, hs, _ => by simp [Stmt.simple] at hs
  | .aset _ _ _ _, hs, _ => by simp [Stmt.simple] at hs
  | .extcall _ _ _, hs, _ => by simp [Stmt.simple] at hs
  | .assign x e, hs, _ => by
    intro f σ' r' h σ hS
    rw [exec_assign] at h ⊢
    obtain ⟨v, h1, h2⟩ := bind_eq_ok h
    rw [eval_sim hB hW σ σ' hS e v hs h1, R.bind_ok]
    cases h2
    obtain ⟨henv, X, hm, hM, hF⟩ := hS
    exact ⟨_, rfl, by simp only [henv], X, hm, hM, hF⟩
  | .store p i e, hs, hw => by
    intro f σ' r' h σ hS
    simp only [Stmt.simple, Bool.and_eq_true] at hs
    rw [exec_store] at h ⊢
    obtain ⟨iv, h1, h2⟩ := bind_eq_ok h
    obtain ⟨v, h3, h4⟩ := bind_eq_ok h2
    obtain ⟨m'', h5, h6⟩ := bind_eq_ok h4
    rw [eval_sim hB hW σ σ' hS i iv hs.1 h1, R.bind_ok, eval_sim hB hW σ σ' hS e v hs.2 h3, R.bind_ok]
    obtain ⟨henv, X, hm, hM, hF⟩ := hS
    obtain ⟨X', hst, hM', hF'⟩ := storeCell_sim hB hW X σ'.mem m'' p iv v (hw p (by simp [wrPtrs])) hM hF h5
    rw [hm, hst, R.bind_ok]
    cases h6
    exact ⟨_, rfl, henv, X', rfl, hM', hF'⟩
  | .memcpy d s0 n, hs, hw => by
    intro f σ' r' h σ hS
    rw [exec_memcpy] at h ⊢
    obtain ⟨nv, h1, h2⟩ := bind_eq_ok h
    obtain ⟨m'', h5, h6⟩ := bind_eq_ok h2
    rw [eval_sim hB hW σ σ' hS n nv hs h1, R.bind_ok]
    obtain ⟨henv, X, hm, hM, hF⟩ := hS
    obtain ⟨X', hst, hM', hF'⟩ := memcpy_sim hB hW X σ'.mem m'' d s0 nv (hw d (by simp [wrPtrs])) hM hF h5
    rw [hm, hst, R.bind_ok]
    cases h6
    exact ⟨_, rfl, henv, X', rfl, hM', hF'⟩
  | .memset d t v n, hs, hw => by
    intro f σ' r' h σ hS
    simp only [Stmt.simple, Bool.and_eq_true] at hs
    rw [exec_memset] at h ⊢
    obtain ⟨vv, h1, h2⟩ := bind_eq_ok h
    obtain ⟨nv, h3, h4⟩ := bind_eq_ok h2
    obtain ⟨m'', h5, h6⟩ := bind_eq_ok h4
    rw [eval_sim hB hW σ σ' hS v vv hs.1 h1, R.bind_ok, eval_sim hB hW σ σ' hS n nv hs.2 h3, R.bind_ok]
    obtain ⟨henv, X, hm, hM, hF⟩ := hS
    obtain ⟨X', hst, hM', hF'⟩ := memset_sim hB hW X σ'.mem m'' d t vv nv (hw d (by simp [wrPtrs])) hM hF h5
    rw [hm, hst, R.bind_ok]
    cases h6
    exact ⟨_, rfl, henv, X', rfl, hM', hF'⟩
  | .seq a b, hs, hw => by
    simp only [Stmt.simple, Bool.and_eq_true] at hs
    simp only [wrPtrs] at hw
    exact sim_seq _ _ _ _ (exec_sim hB hW a hs.1 (mem_of_append_left (a := 0) hw))
      (exec_sim hB hW b hs.2 (mem_of_append_right hw))
  | .ite c t e, hs, hw => by
    simp only [Stmt.simple, Bool.and_eq_true] at hs
    simp only [wrPtrs] at hw
    intro f σ' r' h σ hS
    rw [exec_ite] at h ⊢
    obtain ⟨b, h1, h2⟩ := bind_eq_ok h
    rw [evalB_sim hB hW σ σ' hS c b hs.1.1 h1, R.bind_ok]
    cases b with
    | true => exact exec_sim hB hW t hs.1.2 (mem_of_append_left (a := 0) hw) f σ' r' h2 σ hS
    | false => exact exec_sim hB hW e hs.2 (mem_of_append_right hw) f σ' r' h2 σ hS
  | .while c b, hs, hw => by
    simp only [Stmt.simple, Bool.and_eq_true] at hs
    simp only [wrPtrs] at hw
    exact sim_loopN _ _ _ _ (fun σ σ' bb hS h => evalB_sim hB hW σ σ' hS c bb hs.1 h)
      (exec_sim hB hW b hs.2 hw)
  | .for i c inc b, hs, hw => by
    simp only [Stmt.simple, Bool.and_eq_true] at hs
    simp only [wrPtrs] at hw
    have hi := exec_sim hB hW i hs.1.1.1 (mem_of_append_left (a := 0) (mem_of_append_left (a := 0) hw))
    have hinc := exec_sim hB hW inc hs.1.2 (mem_of_append_right (mem_of_append_left (a := 0) hw))
    have hb := exec_sim hB hW b hs.2 (mem_of_append_right hw)
    have hloop := sim_loopN (B := B) (nn := nn) (Γ := Γ) (Γ' := Γ') (wr := wr) (m0 := m0) (X0 := X0)
      (evalB Γ c) (evalB Γ' c) _ _
      (fun σ σ' bb hS h => evalB_sim hB hW σ σ' hS c bb hs.1.1.2 h) (sim_thenStep _ _ _ _ hb hinc)
    exact sim_seq _ _ _ _ hi hloop
  | .doWhile b c, hs, hw => by
    simp only [Stmt.simple, Bool.and_eq_true] at hs
    simp only [wrPtrs] at hw
    have hb := exec_sim hB hW b hs.1 hw
    exact sim_thenStep _ _ _ _ hb
      (sim_loopN _ _ _ _ (fun σ σ' bb hS h => evalB_sim hB hW σ σ' hS c bb hs.2 h) hb)

end sim
end Spq.CIR
