/-
  C16, binary64 side, products of products, step 2: the cells of one output column of the binary64
  `vmp_apply_dft_to_dft` applied to an ARBITRARY DFT-space operand `adft` (generalises `VmpErr.cell_transfer`, where
  `adft` is the computed transform of an integer vector): if the flag of cell `t` of column `j` holds (flagged run on
  the lifted operand), the cell is finite and its value is a perturbed sum (`PSum`) of the products of the VALUES of
  the cells of `adft` with the values of the forward transforms `stF (M[i][j])` of the matrix entries.
-/
import SpqProofs.Lemmas.VmpErrCol
set_option linter.unusedSectionVars false
namespace Spq.ProgErr2
open Finset Spq Spq.Module Spq.Fft Spq.Fft.Alg Spq.FftErr Spq.F64 Spq.Reim4 Spq.ProdErr Spq.VmpErr

/-- **flag of output cell `p` of `vmp_apply_dft_to_dft` on the DFT-space operand `adft`**: the flagged run on the
    lifted operand and the lifted prepared matrix: every operation that cell `p` depends on had finite operands and an
    exact result that is 0 or in the normal range (`VmpErr.vmpFlag` is the case `adft = vec_znx_dft a`) -/
def vmpFlagD (c : Cfg) (mat : Array Int) (nrows ncols : ℕ) (adft : Array ℕ) (asz rsz p : ℕ) : Prop :=
  ((vmpApplyDftToDft (pOk c) rsz (adft.map lift) asz (vmpPrepare (pOk c) mat nrows ncols) nrows ncols).getD p
    arithOk.zero).2

/-- the output of `vmp_prepare` + `vmp_apply_dft_to_dft` in the binary64 module -/
def vmpResD (c : Cfg) (mat : Array Int) (nrows ncols : ℕ) (adft : Array ℕ) (asz rsz : ℕ) : Array ℕ :=
  vmpApplyDftToDft (Cfg.parts c) rsz adft asz (vmpPrepare (Cfg.parts c) mat nrows ncols) nrows ncols

/-- value of cell `t` of row `i` of the operand -/
def qD (adft : Array ℕ) (N t : ℕ) : ℕ → ℚ := fun i => val (adft.getD (i * N + t) 0)

theorem vmpFlag_eq (c : Cfg) (mat : Array Int) (nrows ncols : ℕ) (a : Array Int) (asz asl rsz p : ℕ) :
    vmpFlag c mat nrows ncols a asz asl rsz p =
      vmpFlagD c mat nrows ncols (vecDft (Cfg.parts c) (min nrows asz) a asz asl) asz rsz p := rfl

theorem vmpRes_eq (c : Cfg) (mat : Array Int) (nrows ncols : ℕ) (a : Array Int) (asz asl rsz : ℕ) :
    vmpRes c mat nrows ncols a asz asl rsz =
      vmpResD c mat nrows ncols (vecDft (Cfg.parts c) (min nrows asz) a asz asl) asz rsz := rfl

/-- **cell transfer, general operand**: flag ⇒ finite and perturbed sum of the products of the cell values -/
theorem cell_transfer_gen (c : Cfg) (k : ℕ) (cN sN cNi sNi : ℕ → ℕ) (h : VCfgOk c k cN sN cNi sNi)
    (mat : Array Int) (nrows ncols : ℕ) (adft : Array ℕ) (asz rsz : ℕ)
    (hM : ∀ i j, i < nrows → j < ncols → Box k (matEntry mat ncols (2 * 2 ^ k) i j))
    (j t : ℕ) (hj : j < min ncols rsz) (ht : t < 2 ^ k) (hpos : k < 2 → 0 < min nrows asz) :
    (vmpFlagD c mat nrows ncols adft asz rsz (j * (2 * 2 ^ k) + t) →
      Fin64 ((vmpResD c mat nrows ncols adft asz rsz).getD (j * (2 * 2 ^ k) + t) 0) ∧
      PSum (min nrows asz)
        (xRe (qD adft (2 * 2 ^ k) t) (qD adft (2 * 2 ^ k) (t + 2 ^ k)) (qM c k cN sN mat ncols j t)
          (qM c k cN sN mat ncols j (t + 2 ^ k)))
        (mRe (qD adft (2 * 2 ^ k) t) (qD adft (2 * 2 ^ k) (t + 2 ^ k)) (qM c k cN sN mat ncols j t)
          (qM c k cN sN mat ncols j (t + 2 ^ k)))
        (1 + gamD (min nrows asz)) (val ((vmpResD c mat nrows ncols adft asz rsz).getD (j * (2 * 2 ^ k) + t) 0))) ∧
    (vmpFlagD c mat nrows ncols adft asz rsz (j * (2 * 2 ^ k) + t + 2 ^ k) →
      Fin64 ((vmpResD c mat nrows ncols adft asz rsz).getD (j * (2 * 2 ^ k) + t + 2 ^ k) 0) ∧
      PSum (min nrows asz)
        (xIm (qD adft (2 * 2 ^ k) t) (qD adft (2 * 2 ^ k) (t + 2 ^ k)) (qM c k cN sN mat ncols j t)
          (qM c k cN sN mat ncols j (t + 2 ^ k)))
        (mIm (qD adft (2 * 2 ^ k) t) (qD adft (2 * 2 ^ k) (t + 2 ^ k)) (qM c k cN sN mat ncols j t)
          (qM c k cN sN mat ncols j (t + 2 ^ k)))
        (1 + gamD (min nrows asz))
        (val ((vmpResD c mat nrows ncols adft asz rsz).getD (j * (2 * 2 ^ k) + t + 2 ^ k) 0))) := by
  have hnn := p_nn c k cN sN cNi sNi h
  have hm := parts_m c k h.cfg.nn
  have hT : ∀ row col, row < nrows → col < ncols → (matDft (Cfg.parts c) mat ncols row col).size = (Cfg.parts c).nn := by
    intro row col hr hc
    rw [matDft_stF c k cN sN cNi sNi h, hnn]
    exact stF_size c k cN sN cNi sNi h.cfg _ (hM row col hr hc)
  -- bit level
  obtain ⟨_, L1, _, _⟩ := vmp_layout_g (Cfg.parts c) (p_hnn c k cN sN cNi sNi h) (p_hblk c k cN sN cNi sNi h)
    (p_hsm c k cN sN cNi sNi h) mat nrows ncols rsz asz adft (fun _ => hT)
  have hpos' : (Cfg.parts c).nn < 8 → 0 < min nrows asz := fun h8 => hpos (nn_lt8 c k cN sN cNi sNi h h8)
  obtain ⟨c1, c2⟩ := L1 j t hj (by rw [hm]; exact ht) hpos'
  -- flagged level
  have hTo : ∀ row col, row < nrows → col < ncols → (matDft (pOk c) mat ncols row col).size = (pOk c).nn := by
    intro row col hr hc
    rw [matDft_pOk, Array.size_map]
    exact hT row col hr hc
  obtain ⟨_, L2, _, _⟩ := vmp_layout_g (pOk c) (p_hnn c k cN sN cNi sNi h) (p_hblk c k cN sN cNi sNi h)
    (p_hsm c k cN sN cNi sNi h) mat nrows ncols rsz asz (adft.map lift) (fun _ => hTo)
  obtain ⟨d1, d2⟩ := L2 j t hj (by show t < (Cfg.parts c).m; rw [hm]; exact ht) hpos'
  have hsm : colKind (Cfg.parts c) ncols rsz j = .sm → 1 ≤ min nrows asz := by
    intro hk
    unfold colKind at hk
    by_cases h8 : 8 ≤ (Cfg.parts c).nn
    · rw [if_pos h8] at hk
      unfold colKind8 at hk
      split at hk
      · have := kind1_ne _ hk; omega
      · have := kind2_ne _ hk; omega
    · exact hpos' (by omega)
  -- transfer
  obtain ⟨t1, t2⟩ := dot_transfer (colKind (Cfg.parts c) ncols rsz j)
    (aRe arithOk.zero (adft.map lift) (pOk c).nn t) (aIm arithOk.zero (adft.map lift) (pOk c).nn (pOk c).m t)
    (bRe (pOk c) mat ncols j t) (bIm (pOk c) mat ncols j t)
    (aRe 0 adft (Cfg.parts c).nn t) (aIm 0 adft (Cfg.parts c).nn (Cfg.parts c).m t)
    (bRe (Cfg.parts c) mat ncols j t) (bIm (Cfg.parts c) mat ncols j t)
    (fun i => val (aRe 0 adft (Cfg.parts c).nn t i)) (fun i => val (aIm 0 adft (Cfg.parts c).nn (Cfg.parts c).m t i))
    (fun i => val (bRe (Cfg.parts c) mat ncols j t i)) (fun i => val (bIm (Cfg.parts c) mat ncols j t i))
    (fun i => rel1_lift adft _) (fun i => rel1_lift adft _)
    (fun i => rel1_lift (matDft (Cfg.parts c) mat ncols i j) _) (fun i => rel1_lift (matDft (Cfg.parts c) mat ncols i j) _)
    (fun i => relQ_lift adft _) (fun i => relQ_lift adft _)
    (fun i => relQ_lift (matDft (Cfg.parts c) mat ncols i j) _) (fun i => relQ_lift (matDft (Cfg.parts c) mat ncols i j) _)
    (min nrows asz)
  obtain ⟨p1, p2⟩ := dot_psum_arG (colKind (Cfg.parts c) ncols rsz j)
    (fun i => val (aRe 0 adft (Cfg.parts c).nn t i)) (fun i => val (aIm 0 adft (Cfg.parts c).nn (Cfg.parts c).m t i))
    (fun i => val (bRe (Cfg.parts c) mat ncols j t i)) (fun i => val (bIm (Cfg.parts c) mat ncols j t i))
    (min nrows asz) hsm
  -- the lane data are the cells of the operand / the transform cells of the matrix
  have eA1 : ∀ i, val (aRe 0 adft (Cfg.parts c).nn t i) = qD adft (2 * 2 ^ k) t i := by
    intro i
    unfold aRe qD
    rw [hnn]
  have eA2 : ∀ i, val (aIm 0 adft (Cfg.parts c).nn (Cfg.parts c).m t i) = qD adft (2 * 2 ^ k) (t + 2 ^ k) i := by
    intro i
    unfold aIm qD
    rw [hnn, hm, Nat.add_assoc]
  have eB1 : ∀ i, val (bRe (Cfg.parts c) mat ncols j t i) = qM c k cN sN mat ncols j t i := by
    intro i
    unfold bRe qM
    rw [matDft_stF c k cN sN cNi sNi h]; rfl
  have eB2 : ∀ i, val (bIm (Cfg.parts c) mat ncols j t i) = qM c k cN sN mat ncols j (t + 2 ^ k) i := by
    intro i
    unfold bIm qM
    rw [matDft_stF c k cN sN cNi sNi h, hm]; rfl
  have q1 := p1.congr (x' := xRe (qD adft (2 * 2 ^ k) t) (qD adft (2 * 2 ^ k) (t + 2 ^ k)) (qM c k cN sN mat ncols j t)
      (qM c k cN sN mat ncols j (t + 2 ^ k)))
    (m' := mRe (qD adft (2 * 2 ^ k) t) (qD adft (2 * 2 ^ k) (t + 2 ^ k)) (qM c k cN sN mat ncols j t)
      (qM c k cN sN mat ncols j (t + 2 ^ k)))
    (fun i _ => by simp only [xRe]; rw [eA1 i, eA2 i, eB1 i, eB2 i])
    (fun i _ => by simp only [mRe]; rw [eA1 i, eA2 i, eB1 i, eB2 i])
  have q2 := p2.congr (x' := xIm (qD adft (2 * 2 ^ k) t) (qD adft (2 * 2 ^ k) (t + 2 ^ k)) (qM c k cN sN mat ncols j t)
      (qM c k cN sN mat ncols j (t + 2 ^ k)))
    (m' := mIm (qD adft (2 * 2 ^ k) t) (qD adft (2 * 2 ^ k) (t + 2 ^ k)) (qM c k cN sN mat ncols j t)
      (qM c k cN sN mat ncols j (t + 2 ^ k)))
    (fun i _ => by simp only [xIm]; rw [eA1 i, eA2 i, eB1 i, eB2 i])
    (fun i _ => by simp only [mIm]; rw [eA1 i, eA2 i, eB1 i, eB2 i])
  rw [hnn] at c1 c2
  rw [hm] at c2
  replace c1 : (vmpResD c mat nrows ncols adft asz rsz).getD (j * (2 * 2 ^ k) + t) 0 =
      colRe (Cfg.parts c) (colKind (Cfg.parts c) ncols rsz j) adft mat ncols (min nrows asz) j t := c1
  replace c2 : (vmpResD c mat nrows ncols adft asz rsz).getD (j * (2 * 2 ^ k) + t + 2 ^ k) 0 =
      colIm (Cfg.parts c) (colKind (Cfg.parts c) ncols rsz j) adft mat ncols (min nrows asz) j t := c2
  have hnn' : (pOk c).nn = 2 * 2 ^ k := hnn
  have hm' : (pOk c).m = 2 ^ k := hm
  rw [hnn'] at d1 d2
  rw [hm'] at d2
  constructor
  · intro hf
    have hf' : (colRe (pOk c) (colKind (pOk c) ncols rsz j) (adft.map lift) mat ncols (min nrows asz) j t).2 := by
      rw [← d1]; exact hf
    obtain ⟨f, e⟩ := t1 hf'
    rw [c1]
    refine ⟨f, ?_⟩
    have e' : val (colRe (Cfg.parts c) (colKind (Cfg.parts c) ncols rsz j) adft mat ncols (min nrows asz) j t) = _ := e
    rw [e']; exact q1
  · intro hf
    have hf' : (colIm (pOk c) (colKind (pOk c) ncols rsz j) (adft.map lift) mat ncols (min nrows asz) j t).2 := by
      rw [← d2]; exact hf
    obtain ⟨f, e⟩ := t2 hf'
    rw [c2]
    refine ⟨f, ?_⟩
    have e' : val (colIm (Cfg.parts c) (colKind (Cfg.parts c) ncols rsz j) adft mat ncols (min nrows asz) j t) = _ := e
    rw [e']; exact q2

end Spq.ProgErr2
