/-
  C16, binary64 side, products of products: the per-limb budgets of `C16Err` (`ProgErr.RtBudget` for dft → idft,
  `ProgErr.ProdBudget` for svp → idft) IMPLY the producer + consumer budgets of the metric theorem, with the same
  hypotheses — the chain theorem covers the single-product dataflows of `C16Err` limb by limb.
-/
import SpqProofs.Lemmas.ProgErr2Bnd
set_option linter.unusedSectionVars false
namespace Spq.ProgErr2
open Finset Spq Spq.Module Spq.FftErr Spq.F64 Spq.ProdErr Spq.VmpErr Spq.ProgErr Spq.Closed Spq.Prog Spq.Fft.Alg
variable {K : Type} [Field K] [LinearOrder K] [IsStrictOrderedRing K]

/-- `c·(k+1)·u·x < 1/2` with `c ≥ 12` ⇒ `x + 1 ≤ 2^50` -/
theorem small_of_budget (k : ℕ) (c : ℚ) (hc : 12 ≤ c) (x : K) (hx0 : 0 ≤ x)
    (h : ((c * (k + 1 : ℚ) * u64 : ℚ) : K) * x < 1 / 2) : x + 1 ≤ 1125899906842624 := by
  have hu : u64 = 1 / 9007199254740992 := by unfold u64; norm_num
  have hq : (12 / 9007199254740992 : ℚ) ≤ c * (k + 1 : ℚ) * u64 := by
    rw [hu]
    have hk0 : (0 : ℚ) ≤ (k : ℚ) := by positivity
    nlinarith
  have hK : ((12 / 9007199254740992 : ℚ) : K) ≤ ((c * (k + 1 : ℚ) * u64 : ℚ) : K) := (Rat.cast_le (K := K)).2 hq
  have e : ((12 / 9007199254740992 : ℚ) : K) = 12 / 9007199254740992 := by push_cast; ring
  rw [e] at hK
  have h2 : (12 / 9007199254740992 : K) * x < 1 / 2 := lt_of_le_of_lt (mul_le_mul_of_nonneg_right hK hx0) h
  linarith

/-- **dft → idft**: `RtBudget` gives the producer budget `ε·na` and the consumer budget of the computed transform -/
theorem metric_of_rtBudget (M : F64Mod K) (a : Array Int) (hb : RtBudget M a) :
    ∃ δ : K, DftLimbBudget M a δ ∧ IdftLimbBudget M (M.parts.fft (M.parts.fromZnx a)) a δ := by
  obtain ⟨hbox, hok, na, hna0, hna, hE⟩ := hb
  refine ⟨eps K M.k * na, ⟨hbox, hok.okF, na, hna0, hna, le_refl _⟩, ?_⟩
  rw [parts_fft M.c M.k M.cN M.sN M.cNi M.sNi M.ok.cfg]
  have hE' : invBudget M na (eps K M.k * na) < 1 / 2 := lt_of_le_of_lt (invBudget_raw_le16 M na hna0) hE
  have hsm := small_of_budget M.k 17 (by norm_num) na hna0 hE
  exact ⟨hok.okI, na, hna0, hna, dom_of_box M a _ na hna0 hna (by linarith) hE', hE'⟩

/-- **svp → idft**: `ProdBudget` gives the producer budget `svpDelta` and the consumer budget of the computed product -/
theorem metric_of_prodBudget (M : F64Mod K) (a b : Array Int) (hb : ProdBudget M a b) :
    ∃ δ : K, SvpLimbBudget M a b δ ∧ IdftLimbBudget M (stM M.c M.k M.cN M.sN a b) (nmul M.N a b) δ := by
  obtain ⟨hA, hB, hok, na, nb, hna0, hnb0, hna, hnb, hnl, hE⟩ := hb
  refine ⟨svpDelta M a b na nb, ⟨hA, hB, MulOk.of_pipe hok, na, nb, hna0, hnb0, hna, hnb, hnl, le_refl _⟩, ?_⟩
  obtain ⟨S, hS⟩ : ∃ S, S = n1 K a M.N * nb + na * n1 K b M.N := ⟨_, rfl⟩
  have hS0 : 0 ≤ S := by
    rw [hS]
    have h1 : (0 : K) ≤ n1 K a M.N := n1_nonneg _ _
    have h2 : (0 : K) ≤ n1 K b M.N := n1_nonneg _ _
    positivity
  obtain ⟨_, hCs, _⟩ := dft_stage M.c M.k M.cN M.sN M.cNi M.sNi M.ok.cfg M.ζ M.hζ M.hI M.hcs a b hA hB hok na nb hna0 hnb0
    hna hnb hnl
  have hP : (0 : K) < 2 ^ M.k := by positivity
  have hn2 : n2sq K (nmul M.N a b) M.N ≤ (S / 2) ^ 2 := by
    rw [V_sum M.k M.ζ M.hζ, ← hS, mul_comm] at hCs
    exact le_of_mul_le_mul_right hCs hP
  have hE' : invBudget M (S / 2) (svpDelta M a b na nb) < 1 / 2 := by
    rw [hS]; exact lt_of_le_of_lt (invBudget_svp_le16 M a b na nb hna0 hnb0) hE
  have hsm := small_of_budget M.k 12 (le_refl _) S hS0 (by rw [hS]; exact hE)
  exact ⟨hok.okI, S / 2, by positivity, hn2,
    dom_of_box M _ _ (S / 2) (by positivity) hn2 (by linarith) hE', hE'⟩

end Spq.ProgErr2
