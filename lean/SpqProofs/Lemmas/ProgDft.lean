/-
  C16 helpers for the DFT-space layer: reading a variable as the flat array the module-level model
  receives, storing a returned limb vector, and the store-update bookkeeping of `Prog.RD`.
-/
import SpqProofs.Lemmas.ProgVals
namespace Spq.Prog
open Spq Heap Spq.C08

variable {α : Type} {nn hsz : Nat} {vars : List Var}

/-! ### reading -/

theorem flat_getD (h : Heap Int) (a : Var) (i c : Nat) (hi : i < a.size) (hc : c < a.stride) :
    (flat h a).getD (i * a.stride + c) 0 = h.mem.getD (a.off + i * a.stride + c) 0 := by
  have h1 : (i + 1) * a.stride ≤ a.size * a.stride := Nat.mul_le_mul_right _ (by omega)
  rw [Nat.succ_mul] at h1
  have h2 : i * a.stride + c < a.size * a.stride := by omega
  simp [flat, Array.getD, h2, Nat.add_assoc]

theorem flat_agree (wf : WF nn hsz vars) {env : Env} {h : Heap Int} (hR : R nn hsz vars env h)
    (a : Var) (ha : a ∈ vars) : Agree nn (flat h a) a.size a.stride (fun i t => (env a).coef i t) := by
  have hst := wf.stride a ha
  refine ⟨fun i hi => ?_, fun i c hi hc => ?_⟩
  · have h1 : (i + 1) * a.stride ≤ a.size * a.stride := Nat.mul_le_mul_right _ (by omega)
    rw [Nat.succ_mul] at h1
    simp only [flat, Array.size_ofFn]
    omega
  · rw [flat_getD h a i c hi (by omega)]
    exact getD_of_R hR a ha i c hi hc

theorem limbOf0_getD (x : Array Int) (sl nn t : Nat) (ht : t < nn) :
    (Module.limbOf x 0 sl nn).getD t 0 = x.getD t 0 := by
  unfold Module.limbOf
  simp only [Array.getD_eq_getD_getElem?, Array.getElem?_extract, Nat.zero_mul, Nat.zero_add, Nat.sub_zero]
  by_cases h : t < x.size
  · have : t < min nn x.size := by omega
    simp [this]
  · have h1 : ¬ t < min nn x.size := by omega
    have h2 : x[t]? = none := by simp; omega
    simp [h1, h2]

theorem flat_limb0 (wf : WF nn hsz vars) {env : Env} {h : Heap Int} (hR : R nn hsz vars env h)
    (a : Var) (ha : a ∈ vars) (hsz0 : 0 < a.size) (t : Nat) (ht : t < nn) :
    (Module.limbOf (flat h a) 0 a.stride nn).getD t 0 = (env a).coef 0 t := by
  rw [limbOf0_getD _ _ _ _ ht]
  have := (flat_agree wf hR a ha).2 0 t hsz0 ht
  simpa using this

/-! ### storing -/

theorem storeVec_spec (h : Heap Int) (d : Var) (x : Array Int) (hsl : nn ≤ d.stride)
    (hres : InBounds nn h.mem.size d.off d.size d.stride) :
    (storeVec nn h d x).mem.size = h.mem.size ∧ (storeVec nn h d x).ok = h.ok ∧
    (∀ i c, i < d.size → c < nn →
      (storeVec nn h d x).mem[d.off + i * d.stride + c]? = some (x.getD (i * nn + c) 0)) ∧
    Frame nn d.off d.size d.stride h.mem (storeVec nn h d x).mem := by
  obtain ⟨e1, e2⟩ := forLimbs_nf 0 d.size
    (fun i => Heap.limb0 (Array.ofFn (n := nn) fun c => x.getD (i * nn + c.val) 0) (d.off + i * d.stride))
    (fun i => d.off + i * d.stride) (fun i _ => Array.ofFn (n := nn) fun c => x.getD (i * nn + c.val) 0)
    (fun i sz => decide (d.off + i * d.stride + nn ≤ sz))
    (fun i _ _ => by
      have := stepNF_limb0 (Array.ofFn (n := nn) fun c => x.getD (i * nn + c.val) 0) (d.off + i * d.stride)
      simpa using this) h
  have g := limbLoop_spec nn (fun i => d.off + i * d.stride)
    (fun i _ => Array.ofFn (n := nn) fun c => x.getD (i * nn + c.val) 0) (fun _ _ => False) 0 d.size h.mem
    (fun i m => by simp) (fun i _ _ m m' _ _ => rfl) (fun i j _ _ _ x hx => hx.elim)
    (fun i j _ hji _ => by
      have : (j + 1) * d.stride ≤ i * d.stride := Nat.mul_le_mul_right _ (by omega)
      rw [Nat.succ_mul] at this
      left; omega)
    (fun i _ hi => hres i (by omega))
  simp only [Nat.sub_zero] at e1 e2
  obtain ⟨g1, g2, g3⟩ := g
  unfold storeVec
  rw [e1, e2]
  refine ⟨g1, ?_, ?_, ?_⟩
  · have : (List.range' 0 d.size).all (fun i => decide (d.off + i * d.stride + nn ≤ h.mem.size)) = true := by
      rw [List.all_eq_true]
      intro i hi
      simp only [List.mem_range'_1] at hi
      simpa using hres i (by omega)
    rw [this, Bool.and_true]
  · intro i c hi hc
    rw [g2 i c (by omega) (by omega) hc]
    simp [hc]
  · intro y hy
    exact g3 y (fun i _ hi => hy i (by omega))

/-! ### store updates -/

theorem upd_same {κ β : Type} [DecidableEq κ] (f : κ → β) (k : κ) (v : β) : upd f k v k = v := by
  simp [upd]
theorem upd_other {κ β : Type} [DecidableEq κ] (f : κ → β) (k j : κ) (v : β) (h : j ≠ k) :
    upd f k v j = f j := by
  simp [upd, h]

/-- the zero-extended coefficient function of a variable, in the two spellings used -/
theorem ext_eq_zext (env : Env) (a : Var) : ext env a = zext a.size (fun i t => (env a).coef i t) := rfl

/-- an initial state without opaque objects -/
theorem RD_init {c : Module.Parts α} (S : DftOpsSound c nn) (env : Env) (s : CState α)
    (hR : R nn hsz vars env s.heap) :
    RD S hsz vars ⟨env, fun _ => none, fun _ => none, fun _ => none, fun _ => none⟩ s := by
  refine ⟨hR, ?_, ?_, ?_, ?_⟩ <;> intro _ _ h <;> cases h

end Spq.Prog
