/-
  C01 rounding budget, step 1: the pointwise complex multiply `reim_fftvec_mul_{ref,fma}` as the module runs it
  (`mulA`), for ANY arithmetic record: cell formulas (`mulA_cells`), simulation between arithmetics, the
  standard-model error of one complex product (`cell_err`:  |ĉ − a·b|² ≤ (3/2·γ₂)²·|a|²·|b|², γ₂ = (1+u)² − 1),
  and the transfer flagged binary64 → (bit-level binary64, guarded rational arithmetic).
-/
import SpqProofs.Lemmas.FftErrSchedIFin
import SpqProofs.Lemmas.Reim4Base
set_option linter.unusedSectionVars false
namespace Spq.ProdErr
open Finset Spq.Reim4 Spq.F64 Spq.FftErr

section generic
variable {α : Type}

/-- `Module.mul`: `reim_fftvec_mul(precomp, r, a, b)` on `m` complexes, `r` fresh -/
def mulA (ar : RArith α) (fma : Bool) (m : ℕ) (a b : Array α) : Array α :=
  let r := Array.replicate (2 * m) ar.zero
  if fma then (reimFftvecMulFma ar m r a b).getD r else reimFftvecMulRef ar m r a b

/-- real part of `(x + iy)(u + iv)` as the selected kernel computes it -/
def cellRe (ar : RArith α) (fma : Bool) (x y u v : α) : α :=
  if fma then ar.fms x u (ar.mul y v) else reRef ar x y u v
/-- imaginary part -/
def cellIm (ar : RArith α) (fma : Bool) (x y u v : α) : α :=
  if fma then ar.fma y u (ar.mul x v) else imRef ar x y u v

theorem mulFmaV_lane' (ar : RArith α) (a_r a_i b_r b_i : V4 α) (l : Nat) :
    (mulFmaV ar a_r a_i b_r b_i).1.lane l = ar.fms (a_r.lane l) (b_r.lane l) (ar.mul (a_i.lane l) (b_i.lane l)) ∧
    (mulFmaV ar a_r a_i b_r b_i).2.lane l = ar.fma (a_i.lane l) (b_r.lane l) (ar.mul (a_r.lane l) (b_i.lane l)) := by
  simp only [mulFmaV, V4.fmsub, V4.fmadd, V4.mul, V4.lane_map3, V4.lane_map2, and_self]

/-- the cells of the product, any arithmetic (FMA kernel: `4 ∣ m`, as installed by the library) -/
theorem mulA_cells (ar : RArith α) (fma : Bool) (m : ℕ) (hm : fma = true → m % 4 = 0) (a b : Array α) :
    (mulA ar fma m a b).size = 2 * m ∧
    ∀ p, p < m →
      (mulA ar fma m a b).getD p ar.zero =
        cellRe ar fma (a.getD p ar.zero) (a.getD (p + m) ar.zero) (b.getD p ar.zero) (b.getD (p + m) ar.zero) ∧
      (mulA ar fma m a b).getD (p + m) ar.zero =
        cellIm ar fma (a.getD p ar.zero) (a.getD (p + m) ar.zero) (b.getD p ar.zero) (b.getD (p + m) ar.zero) := by
  have hr : (Array.replicate (2 * m) ar.zero).size = 2 * m := Array.size_replicate
  cases fma with
  | false =>
    simp only [mulA, Bool.false_eq_true, if_false, cellRe, cellIm]
    unfold reimFftvecMulRef
    obtain ⟨s1, s2, _⟩ := lanes_spec ar.zero m (fun i => i) (fun i => i + m)
      (fun i _ => reRef ar (a.getD i ar.zero) (a.getD (i + m) ar.zero) (b.getD i ar.zero) (b.getD (i + m) ar.zero))
      (fun i _ => imRef ar (a.getD i ar.zero) (a.getD (i + m) ar.zero) (b.getD i ar.zero) (b.getD (i + m) ar.zero))
      (Array.replicate (2 * m) ar.zero)
      (by intro k k' _ _ h; exact h) (by intro k k' _ _ _; omega) (by intro k k' _ _; omega)
      (by intro k hk; rw [hr]; omega)
    exact ⟨by rw [s1, hr], fun p hp => s2 p hp⟩
  | true =>
    have hm4 : m % 4 = 0 := hm rfl
    simp only [mulA, if_true, cellRe, cellIm]
    unfold reimFftvecMulFma
    simp only [hm4, bne_self_eq_false, Bool.false_eq_true, if_false, Option.getD_some]
    obtain ⟨s1, s2, _⟩ := mapV4x2_spec ar.zero (m / 4) (fun j => 4 * j) (fun j => m + 4 * j)
      (fun j _ _ => mulFmaV ar (V4.load ar.zero a (4 * j)) (V4.load ar.zero a (m + 4 * j)) (V4.load ar.zero b (4 * j))
        (V4.load ar.zero b (m + 4 * j)))
      (Array.replicate (2 * m) ar.zero)
      (by intro j j' _ _ _; omega) (by intro j j' _ _ _; omega) (by intro j j' _ _; omega)
      (by intro j hj; rw [hr]; omega)
    refine ⟨by rw [s1, hr], fun p hp => ?_⟩
    have hl : p % 4 < 4 := by omega
    obtain ⟨e1, e2⟩ := s2 (p / 4) (by omega) (p % 4) hl
    obtain ⟨l1, l2⟩ := mulFmaV_lane' ar (V4.load ar.zero a (4 * (p / 4))) (V4.load ar.zero a (m + 4 * (p / 4)))
      (V4.load ar.zero b (4 * (p / 4))) (V4.load ar.zero b (m + 4 * (p / 4))) (p % 4)
    simp only [V4.lane_load _ _ _ _ hl] at l1 l2
    have q0 : 4 * (p / 4) + p % 4 = p := by omega
    have q1 : m + 4 * (p / 4) + p % 4 = p + m := by omega
    simp only [q0, q1] at l1 l2 e1 e2
    exact ⟨by rw [e1, l1], by rw [e2, l2]⟩

variable {β : Type} {R : α → β → Prop} {ar : RArith α} {br : RArith β}

theorem cellRe_sim (h : RArith.Sim R ar br) (fma : Bool) {x x' y y' u u' v v'} (hx : R x x') (hy : R y y')
    (hu : R u u') (hv : R v v') : R (cellRe ar fma x y u v) (cellRe br fma x' y' u' v') := by
  cases fma
  · exact reRef_sim h hx hy hu hv
  · exact h.fms hx hu (h.mul hy hv)

theorem cellIm_sim (h : RArith.Sim R ar br) (fma : Bool) {x x' y y' u u' v v'} (hx : R x x') (hy : R y y')
    (hu : R u u') (hv : R v v') : R (cellIm ar fma x y u v) (cellIm br fma x' y' u' v') := by
  cases fma
  · exact imRef_sim h hx hy hu hv
  · exact h.fma hy hu (h.mul hx hv)

end generic

/-! ### standard-model error of one complex product -/
section err
variable {K : Type} [Field K] [LinearOrder K] [IsStrictOrderedRing K]

/-- **one complex product**: `|ĉ − (x+iy)(u+iv)|² ≤ (3/2·γ₂)²·(x²+y²)·(u²+v²)`, both kernels -/
theorem cell_err (ar : RArith K) (ε : K) (sm : StdModel ar ε) (fma : Bool) (x y u v : K) :
    (cellRe ar fma x y u v - (x * u - y * v)) ^ 2 + (cellIm ar fma x y u v - (x * v + y * u)) ^ 2 ≤
      (3 / 2 * gam ε) ^ 2 * ((x ^ 2 + y ^ 2) * (u ^ 2 + v ^ 2)) := by
  have hu := sm.u_nonneg
  have hr : |cellRe ar fma x y u v - (x * u - y * v)| ≤ gam ε * (|x * u| + |y * v|) := by
    cases fma
    · exact (reRef_err ar ε sm x y u v).1
    · have t1 := fused_err ε (x * u) (y * v) (ar.mul y v) (ar.fms x u (ar.mul y v)) (-1) hu (Or.inr rfl) (sm.mul _ _)
        (by have := sm.fms x u (ar.mul y v)
            rw [show x * u + -1 * ar.mul y v = x * u - ar.mul y v by ring]
            exact this)
      rw [show x * u + -1 * (y * v) = x * u - y * v by ring] at t1
      exact t1
  have hi : |cellIm ar fma x y u v - (x * v + y * u)| ≤ gam ε * (|x * v| + |y * u|) := by
    cases fma
    · exact (imRef_err ar ε sm x y u v).1
    · have t2 := fused_err ε (y * u) (x * v) (ar.mul x v) (ar.fma y u (ar.mul x v)) 1 hu (Or.inl rfl) (sm.mul _ _)
        (by have := sm.fma y u (ar.mul x v)
            rw [one_mul]; exact this)
      rw [one_mul, add_comm (y * u), add_comm |y * u|] at t2
      exact t2
  have hc := cprod_bound (gam ε) _ _ x y u v hr hi
  refine le_trans hc ?_
  have h0 : 0 ≤ gam ε ^ 2 * ((x ^ 2 + y ^ 2) * (u ^ 2 + v ^ 2)) := by positivity
  nlinarith

end err
end Spq.ProdErr
