/-
  Source tie of the FFT64 module layer (`Properties/SrcMod.lean`), infrastructure:
   * unfolding equations of the interpreter with a semantics `K : ExtSem` for the opaque kernel calls (`execK`);
   * `modSem c cd B`: the kernel calls of `Spq/ModuleHeap.lean` (`kFromZnx`, `kFft`, … applied to the arena held in
     buffer `B`) as an `ExtSem`;
   * `ok` is monotone along the model (`Heap.ok` is only ever and-ed), so a final `ok = true` gives `ok = true`
     after every prefix of the model's run: this is what lets the interpreter (which stops at the first failing
     access) be compared with the model (which records the failure in the flag and goes on).
-/
import Spq.ModuleHeap
import Spq.ModSem
import SpqProofs.Lemmas.ModHeapKern
import SpqProofs.Lemmas.SrcVec
import SpqProofs.Lemmas.SrcAvx
namespace Spq.CIR
open Spq Heap ModuleHeap

/-! ### unfolding equations of `execK` (all by `rfl`) -/
section eqs
variable (K : ExtSem) (Γ : List Ptr)
theorem execK_skip (f : Nat) (σ : State) : execK K Γ .skip f σ = .ok (.norm, σ) := rfl
theorem execK_assign (x : Nat) (e : Expr) (f : Nat) (σ : State) :
    execK K Γ (.assign x e) f σ = (eval Γ σ e).bind fun v => .ok (.norm, { σ with env := lset σ.env x v }) := rfl
theorem execK_seq (a b : Stmt) (f : Nat) (σ : State) :
    execK K Γ (.seq a b) f σ = seqK (execK K Γ a f σ) (execK K Γ b f) := rfl
theorem execK_ite (c : Expr) (t e : Stmt) (f : Nat) (σ : State) :
    execK K Γ (.ite c t e) f σ = (evalB Γ c σ).bind fun b => if b then execK K Γ t f σ else execK K Γ e f σ := rfl
theorem execK_for_def (i : Stmt) (c : Expr) (inc b : Stmt) (f : Nat) (σ : State) :
    execK K Γ (.for i c inc b) f σ = (match execK K Γ i f σ with
      | .ok (.norm, σ1) =>
        loopN (evalB Γ c) (fun f σ => thenStep (execK K Γ b f σ) fun σ' => execK K Γ inc f σ') f σ1
      | r => r) := rfl
theorem execK_memcpy (d s : Nat) (n : Expr) (f : Nat) (σ : State) :
    execK K Γ (.memcpy d s n) f σ = (eval Γ σ n).bind fun nv =>
      (memcpyCells σ.mem (Γ.getD d none) (Γ.getD s none) nv).bind fun m => .ok (.norm, { σ with mem := m }) := rfl
theorem execK_memset (d : Nat) (t : Ty) (v n : Expr) (f : Nat) (σ : State) :
    execK K Γ (.memset d t v n) f σ = (eval Γ σ v).bind fun vv => (eval Γ σ n).bind fun nv =>
      (memsetCells σ.mem (Γ.getD d none) t vv nv).bind fun m => .ok (.norm, { σ with mem := m }) := rfl
theorem execK_passign (s : Nat) (b : PBase) (o : Expr) (f : Nat) (σ : State) :
    execK K Γ (.passign s b o) f σ = (eval Γ σ o).bind fun v => (ptrAt Γ σ.env b v).bind fun p =>
      .ok (.norm, { σ with env := encPtr σ.env s p }) := rfl
theorem execK_call (body : Stmt) (nslots : Nat) (sargs : List Expr) (pargs : List (PBase × Expr)) (f : Nat)
    (σ : State) :
    execK K Γ (.call body nslots sargs pargs) f σ = (evalList Γ σ sargs).bind fun vs =>
      (evalPtrs Γ σ pargs).bind fun ps =>
        callRet σ (execK K ps body f { env := vs ++ List.replicate (nslots - vs.length) 0, mem := σ.mem }) := rfl
theorem execK_extcall (name : String) (sargs : List Expr) (pargs : List (PBase × Expr)) (f : Nat) (σ : State) :
    execK K Γ (.extcall name sargs pargs) f σ = (evalList Γ σ sargs).bind fun vs =>
      (evalPtrs Γ σ pargs).bind fun ps => (K name vs ps σ.mem).bind fun m => .ok (.norm, { σ with mem := m }) := rfl
theorem execK_ret (f : Nat) (σ : State) : execK K Γ .ret f σ = .ok (.ret, σ) := rfl
theorem execK_cont (f : Nat) (σ : State) : execK K Γ .cont f σ = .ok (.cont, σ) := rfl
end eqs

theorem callRet_ok (σ : State) (fl : Flow) (σ' : State) :
    callRet σ (.ok (fl, σ')) = .ok (.norm, { σ with mem := σ'.mem }) := rfl

/-- the `for` statement: `init` establishes `S lo`; `body; inc` takes `S k` to `S (k+1)`. -/
theorem execK_for_range (K : ExtSem) (Γ : List Ptr) (init : Stmt) (c : Expr) (inc body : Stmt) (σ0 : State)
    (S : Nat → State) (lo hi fb : Nat) (hlh : lo ≤ hi)
    (hi0 : ∀ f, execK K Γ init f σ0 = .ok (.norm, S lo))
    (hc : ∀ k, lo ≤ k → k < hi → evalB Γ c (S k) = .ok true)
    (hs : ∀ k, lo ≤ k → k < hi → ∀ f, fb ≤ f →
      thenStep (execK K Γ body f (S k)) (fun σ' => execK K Γ inc f σ') = .ok (.norm, S (k + 1)))
    (hx : evalB Γ c (S hi) = .ok false) :
    ∀ f, (hi - lo) + fb ≤ f → execK K Γ (.for init c inc body) f σ0 = .ok (.norm, S hi) := by
  intro f hf
  rw [execK_for_def, hi0 f]
  exact loopN_range (evalB Γ c) _ S lo hi fb hlh hc hs hx f hf

/-- relational form of the counting-loop rule: `I k σ` holds at the loop head after `k` iterations (used when some
    slots hold values left over by inner loops that the proof does not want to name) -/
theorem loopN_up_inv (c : State → R Bool) (step : Nat → State → Out) (I : Nat → State → Prop) (n fb : Nat)
    (hc : ∀ k σ, k < n → I k σ → c σ = .ok true)
    (hs : ∀ k σ, k < n → I k σ → ∀ f, fb ≤ f → ∃ σ', step f σ = .ok (.norm, σ') ∧ I (k + 1) σ')
    (hx : ∀ σ, I n σ → c σ = .ok false) :
    ∀ σ, I 0 σ → ∀ f, n + fb ≤ f → ∃ σ', loopN c step f σ = .ok (.norm, σ') ∧ I n σ' := by
  suffices h : ∀ d j, j + d = n → ∀ σ, I j σ → ∀ f, d + fb ≤ f → ∃ σ', loopN c step f σ = .ok (.norm, σ') ∧ I n σ' by
    intro σ h0 f hf
    exact h n 0 (by omega) σ h0 f hf
  intro d
  induction d with
  | zero =>
    intro j hj σ hI f _
    have : j = n := by omega
    subst this
    refine ⟨σ, ?_, hI⟩
    cases f <;> simp [loopN, hx σ hI]
  | succ d ih =>
    intro j hj σ hI f hf
    obtain ⟨f', rfl⟩ : ∃ f', f = f' + 1 := ⟨f - 1, by omega⟩
    have hjn : j < n := by omega
    obtain ⟨σ1, h1, hI1⟩ := hs j σ hjn hI f' (by omega)
    simp only [loopN, hc j σ hjn hI, h1]
    exact ih (j + 1) (by omega) σ1 hI1 f' (by omega)

theorem execK_for_inv (K : ExtSem) (Γ : List Ptr) (init : Stmt) (c : Expr) (inc body : Stmt) (σ0 : State)
    (I : Nat → State → Prop) (n fb : Nat)
    (hi0 : ∀ f, ∃ σ1, execK K Γ init f σ0 = .ok (.norm, σ1) ∧ I 0 σ1)
    (hc : ∀ k σ, k < n → I k σ → evalB Γ c σ = .ok true)
    (hs : ∀ k σ, k < n → I k σ → ∀ f, fb ≤ f →
      ∃ σ', thenStep (execK K Γ body f σ) (fun σ' => execK K Γ inc f σ') = .ok (.norm, σ') ∧ I (k + 1) σ')
    (hx : ∀ σ, I n σ → evalB Γ c σ = .ok false) :
    ∀ f, n + fb ≤ f → ∃ σ', execK K Γ (.for init c inc body) f σ0 = .ok (.norm, σ') ∧ I n σ' := by
  intro f hf
  obtain ⟨σ1, h1, hI1⟩ := hi0 f
  rw [execK_for_def, h1]
  exact loopN_up_inv (evalB Γ c) _ I n fb hc hs hx σ1 hI1 f hf

theorem memOf_of_exists (x : Out) (M : Mem) (P : State → Prop) (h : ∃ σ', x = .ok (.norm, σ') ∧ P σ')
    (hP : ∀ σ, P σ → σ.mem = M) : memOf x = .ok M := by
  obtain ⟨σ', h1, h2⟩ := h
  rw [h1, ← hP σ' h2]; rfl

theorem thenStep_of_exists (x : Out) (k : State → Out) (P Q : State → Prop)
    (h : ∃ σ1, x = .ok (.norm, σ1) ∧ P σ1) (hk : ∀ σ1, P σ1 → ∃ σ', k σ1 = .ok (.norm, σ') ∧ Q σ') :
    ∃ σ', thenStep x k = .ok (.norm, σ') ∧ Q σ' := by
  obtain ⟨σ1, h1, h2⟩ := h
  rw [h1, thenStep_norm]
  exact hk σ1 h2

theorem exists_weaken (x : Out) (P Q : State → Prop) (h : ∃ σ, x = .ok (.norm, σ) ∧ P σ) (hw : ∀ σ, P σ → Q σ) :
    ∃ σ, x = .ok (.norm, σ) ∧ Q σ := by
  obtain ⟨σ, h1, h2⟩ := h
  exact ⟨σ, h1, hw σ h2⟩

theorem seqK_of_exists (x : Out) (k : State → Out) (P Q : State → Prop)
    (h : ∃ σ1, x = .ok (.norm, σ1) ∧ P σ1) (hk : ∀ σ1, P σ1 → ∃ σ', k σ1 = .ok (.norm, σ') ∧ Q σ') :
    ∃ σ', seqK x k = .ok (.norm, σ') ∧ Q σ' := by
  obtain ⟨σ1, h1, h2⟩ := h
  rw [h1, seqK_norm]
  exact hk σ1 h2

/-- call of a translated function, in terms of `runK` -/
theorem execK_call_run (K : ExtSem) (Γ : List Ptr) (fn : Fn) (sargs : List Expr) (pargs : List (PBase × Expr)) (f : Nat)
    (σ : State) :
    execK K Γ (.call fn.body fn.nslots sargs pargs) f σ = (evalList Γ σ sargs).bind fun vs =>
      (evalPtrs Γ σ pargs).bind fun ps =>
        (runK K f fn vs ps σ.mem).bind fun m => .ok (.norm, { σ with mem := m }) := by
  show (evalList Γ σ sargs).bind (fun vs => (evalPtrs Γ σ pargs).bind fun ps =>
      callRet σ (execK K ps fn.body f { env := vs ++ List.replicate (fn.nslots - vs.length) 0, mem := σ.mem })) = _
  simp only [callRet_eq]
  rfl

/-- the symbolic-execution simp set for `execK` -/
macro "cirk_simp" : tactic =>
  `(tactic| simp only [execK_skip, execK_assign, execK_seq, execK_ite, execK_memcpy, execK_memset, execK_passign,
      execK_call, execK_extcall, execK_ret, execK_cont, callRet_ok,
      eval_ptrEq, evalList_nil, evalList_cons, evalPtrs_nil, evalPtrs_cons,
      eval_lit, eval_var, eval_cast, eval_un, eval_bin, eval_cond, evalB_def, evalUn_lnot,
      R.bind_ok, R.bind_err, thenStep_norm, thenStep_err, seqK_norm, seqK_err,
      evalBin_add_u64, evalBin_sub_u64, evalBin_mul_u64, evalBin_lt_u64, evalBin_le_u64, evalBin_ge_u64,
      evalBin_gt_u64, evalBin_ne_u64, evalBin_eq_u64, evalBin_mod_u64, evalBin_shr_u64, eval_land, wrap_u64, decide_b2i_ne_zero, ite_b2i_ne_zero,
      lget_zero, lget_succ, lset_zero, lset_succ, List.getD_cons_zero, List.getD_cons_succ])

/-- `cirk_simp` with extra rewrite rules in the same pass (pointer facts, `encPtr_some`), so that the environment is
    a list literal before a condition is evaluated on it -/
syntax "cirkx" "[" Lean.Parser.Tactic.simpLemma,* "]" : tactic
macro_rules
  | `(tactic| cirkx [$ts,*]) =>
    `(tactic| simp only [execK_skip, execK_assign, execK_seq, execK_ite, execK_memcpy, execK_memset, execK_passign,
      execK_call, execK_extcall, execK_ret, execK_cont, callRet_ok,
      eval_ptrEq, evalList_nil, evalList_cons, evalPtrs_nil, evalPtrs_cons,
      eval_lit, eval_var, eval_cast, eval_un, eval_bin, eval_cond, evalB_def, evalUn_lnot,
      R.bind_ok, R.bind_err, thenStep_norm, thenStep_err, seqK_norm, seqK_err,
      evalBin_add_u64, evalBin_sub_u64, evalBin_mul_u64, evalBin_lt_u64, evalBin_le_u64, evalBin_ge_u64,
      evalBin_gt_u64, evalBin_ne_u64, evalBin_eq_u64, evalBin_mod_u64, evalBin_shr_u64, eval_land, wrap_u64, decide_b2i_ne_zero, ite_b2i_ne_zero,
      lget_zero, lget_succ, lset_zero, lset_succ, List.getD_cons_zero, List.getD_cons_succ, encPtr_some, $ts,*])

/-- unfold `runK` on a generated function -/
macro "cirk_enter" fn:ident : tactic =>
  `(tactic| simp only [runK, $fn:ident, List.length_cons, List.length_nil, List.replicate, List.cons_append,
      List.nil_append, Nat.reduceSub, Nat.reduceAdd])

end Spq.CIR

namespace Spq.Src
open Spq Spq.CIR Heap ModuleHeap
variable {α : Type}

/-! ### the kernels of `Spq.ModuleHeap` as the semantics of the opaque calls -/

theorem heap_eta (H : Heap Int) (h : H.ok = true) : (⟨H.mem, true⟩ : Heap Int) = H := by
  cases H; simp_all

/-- a kernel call on the arena `m0[B := H.mem]` when the model stays `ok` -/
theorem onArena_ok (B : Nat) (k : Heap Int → Heap Int) (m0 : Mem) (H : Heap Int) (hB : B < m0.size)
    (hH : H.ok = true) (hk : (k H).ok = true) :
    onArena B k (m0.setIfInBounds B H.mem) = .ok (m0.setIfInBounds B (k H).mem) := by
  unfold onArena
  rw [buf_set_self m0 B _ hB, heap_eta H hH, hk, set_set]
  rfl

/-! ### `ok` only decreases -/
variable {γ : Type}

/-- a heap transformer that never sets `ok` back to `true` -/
def OkMono (k : Heap γ → Heap γ) : Prop := ∀ h, (k h).ok = true → h.ok = true

theorem okMono_id : OkMono (fun h : Heap γ => h) := fun _ h => h
theorem okMono_comp {f g : Heap γ → Heap γ} (hf : OkMono f) (hg : OkMono g) : OkMono (fun h => g (f h)) :=
  fun h hk => hf h (hg (f h) hk)
theorem okMono_tch (off n : Nat) : OkMono (tch (γ := γ) off n) := by
  intro h hk; simp [tch, Heap.touch] at hk; exact hk.1
theorem okMono_guard (b : Bool) : OkMono (ModuleHeap.guard (γ := γ) b) := by
  intro h hk; simp [ModuleHeap.guard] at hk; exact hk.1
theorem okMono_scr (tb rel n : Nat) : OkMono (scr (γ := γ) tb rel n) := okMono_guard _
theorem okMono_writeLimb (off : Nat) (l : Array γ) : OkMono (fun h : Heap γ => h.writeLimb off l) := by
  intro h hk; simp [Heap.writeLimb] at hk; exact hk.1
theorem okMono_wrD (cd : Cells γ α) (off : Nat) (x : Array α) : OkMono (wrD cd off x) := okMono_writeLimb _ _
theorem okMono_wrI (cd : Cells γ α) (off : Nat) (x : Array Int) : OkMono (wrI cd off x) := okMono_writeLimb _ _

theorem okMono_kFromZnx (c : Module.Parts α) (cd : Cells γ α) (dst src : Nat) : OkMono (kFromZnx c cd dst src) :=
  fun h hk => okMono_tch _ _ h (okMono_guard _ _ (okMono_wrD cd _ _ _ hk))
theorem okMono_kFft (c : Module.Parts α) (cd : Cells γ α) (p : Nat) : OkMono (kFft c cd p) :=
  fun h hk => okMono_tch _ _ h (okMono_wrD cd _ _ _ hk)
theorem okMono_kIfft (c : Module.Parts α) (cd : Cells γ α) (p : Nat) : OkMono (kIfft c cd p) :=
  fun h hk => okMono_tch _ _ h (okMono_wrD cd _ _ _ hk)
theorem okMono_kToZnx (c : Module.Parts α) (cd : Cells γ α) (dst src : Nat) : OkMono (kToZnx c cd dst src) :=
  fun h hk => okMono_tch _ _ h (okMono_guard _ _ (okMono_wrI cd _ _ _ hk))
theorem okMono_kMul (c : Module.Parts α) (cd : Cells γ α) (r a b : Nat) : OkMono (kMul c cd r a b) :=
  fun h hk => okMono_tch _ _ h (okMono_tch _ _ _ (okMono_guard _ _ (okMono_wrD cd _ _ _ hk)))
theorem okMono_kAddmul (c : Module.Parts α) (cd : Cells γ α) (r a b : Nat) : OkMono (kAddmul c cd r a b) :=
  fun h hk => okMono_tch _ _ h (okMono_tch _ _ _ (okMono_tch _ _ _ (okMono_guard _ _ (okMono_wrD cd _ _ _ hk))))
theorem okMono_kZeroD (c : Module.Parts α) (cd : Cells γ α) (p n : Nat) : OkMono (kZeroD c cd p n) :=
  okMono_wrD cd _ _
theorem okMono_kZeroI (cd : Cells γ α) (p n : Nat) : OkMono (kZeroI cd p n) := okMono_wrI cd _ _
theorem okMono_kCopy (cd : Cells γ α) (dst src n : Nat) : OkMono (kCopy cd dst src n) :=
  fun h hk => okMono_tch _ _ h (okMono_guard _ _ (okMono_writeLimb _ _ _ hk))

theorem okMono_kExtract1 (c : Module.Parts α) (cd : Cells γ α) (blk dst src : Nat) : OkMono (kExtract1 c cd blk dst src) :=
  fun h hk => okMono_tch _ _ h (okMono_guard _ _ (okMono_wrD cd _ _ _ hk))
theorem okMono_kExtractRows (c : Module.Parts α) (cd : Cells γ α) (rows blk dst src : Nat) :
    OkMono (kExtractRows c cd rows blk dst src) :=
  fun h hk => okMono_tch _ _ h (okMono_guard _ _ (okMono_wrD cd _ _ _ hk))
theorem okMono_kProd2 (c : Module.Parts α) (cd : Cells γ α) (rows nrows out u v : Nat) :
    OkMono (kProd2 c cd rows nrows out u v) :=
  fun h hk => okMono_tch _ _ h (okMono_tch _ _ _ (okMono_guard _ _ (okMono_wrD cd _ _ _ hk)))
theorem okMono_kProd1 (c : Module.Parts α) (cd : Cells γ α) (rows nrows out u v : Nat) :
    OkMono (kProd1 c cd rows nrows out u v) :=
  fun h hk => okMono_tch _ _ h (okMono_tch _ _ _ (okMono_guard _ _ (okMono_wrD cd _ _ _ hk)))
theorem okMono_kSave (c : Module.Parts α) (cd : Cells γ α) (blk dst src : Nat) : OkMono (kSave c cd blk dst src) :=
  fun h hk => okMono_tch _ _ h (okMono_guard _ _ (okMono_wrD cd _ _ _ (okMono_wrD cd _ _ _ hk)))

theorem okMono_ite (p : Prop) [Decidable p] {f g : Heap γ → Heap γ} (hf : OkMono f) (hg : OkMono g) :
    OkMono (fun h => if p then f h else g h) := by
  intro h hk
  by_cases hp : p
  · simp only [hp, if_true] at hk; exact hf h hk
  · simp only [hp, if_false] at hk; exact hg h hk

theorem loop_succ (n : Nat) (body : Nat → Heap γ → Heap γ) (h : Heap γ) :
    loop (n + 1) body h = body n (loop n body h) := by
  simp [loop, List.range_succ, List.foldl_append]

theorem okMono_loop (n : Nat) (body : Nat → Heap γ → Heap γ) (hb : ∀ i, OkMono (body i)) : OkMono (loop n body) := by
  induction n with
  | zero => exact fun _ h => h
  | succ n ih => intro h hk; rw [loop_succ] at hk; exact ih h (hb n _ hk)

/-- every prefix of an `ok` loop is `ok` -/
theorem loop_ok_prefix (body : Nat → Heap γ → Heap γ) (hb : ∀ i, OkMono (body i)) (h : Heap γ) :
    ∀ (n k : Nat), k ≤ n → (loop n body h).ok = true → (loop k body h).ok = true := by
  intro n
  induction n with
  | zero => intro k hk hn; have : k = 0 := by omega
            subst this; exact hn
  | succ n ih =>
    intro k hk hn
    by_cases he : k = n + 1
    · subst he; exact hn
    · rw [loop_succ] at hn
      exact ih k (by omega) (hb n _ hn)

/-! ### sizes -/
theorem size_writeLimb (h : Heap γ) (off : Nat) (l : Array γ) : (h.writeLimb off l).mem.size = h.mem.size := by
  simp [Heap.writeLimb]
theorem size_kFromZnx (c : Module.Parts α) (cd : Cells γ α) (dst src : Nat) (h : Heap γ) :
    (kFromZnx c cd dst src h).mem.size = h.mem.size := by simp [kFromZnx, wrD, ModuleHeap.guard, tch, Heap.touch, Heap.writeLimb]
theorem size_kFft (c : Module.Parts α) (cd : Cells γ α) (p : Nat) (h : Heap γ) :
    (kFft c cd p h).mem.size = h.mem.size := by simp [kFft, wrD, tch, Heap.touch, Heap.writeLimb]
theorem size_kIfft (c : Module.Parts α) (cd : Cells γ α) (p : Nat) (h : Heap γ) :
    (kIfft c cd p h).mem.size = h.mem.size := by simp [kIfft, wrD, tch, Heap.touch, Heap.writeLimb]
theorem size_kToZnx (c : Module.Parts α) (cd : Cells γ α) (dst src : Nat) (h : Heap γ) :
    (kToZnx c cd dst src h).mem.size = h.mem.size := by simp [kToZnx, wrI, ModuleHeap.guard, tch, Heap.touch, Heap.writeLimb]
theorem size_kMul (c : Module.Parts α) (cd : Cells γ α) (r a b : Nat) (h : Heap γ) :
    (kMul c cd r a b h).mem.size = h.mem.size := by simp [kMul, wrD, ModuleHeap.guard, tch, Heap.touch, Heap.writeLimb]
theorem size_kAddmul (c : Module.Parts α) (cd : Cells γ α) (r a b : Nat) (h : Heap γ) :
    (kAddmul c cd r a b h).mem.size = h.mem.size := by simp [kAddmul, wrD, ModuleHeap.guard, tch, Heap.touch, Heap.writeLimb]
theorem size_kCopy (cd : Cells γ α) (dst src n : Nat) (h : Heap γ) :
    (kCopy cd dst src n h).mem.size = h.mem.size := by simp [kCopy, ModuleHeap.guard, tch, Heap.touch, Heap.writeLimb]
theorem size_kExtract1 (c : Module.Parts α) (cd : Cells γ α) (blk dst src : Nat) (h : Heap γ) :
    (kExtract1 c cd blk dst src h).mem.size = h.mem.size := by
  simp [kExtract1, wrD, ModuleHeap.guard, tch, Heap.touch, Heap.writeLimb]
theorem size_kExtractRows (c : Module.Parts α) (cd : Cells γ α) (rows blk dst src : Nat) (h : Heap γ) :
    (kExtractRows c cd rows blk dst src h).mem.size = h.mem.size := by
  simp [kExtractRows, wrD, ModuleHeap.guard, tch, Heap.touch, Heap.writeLimb]
theorem size_kProd2 (c : Module.Parts α) (cd : Cells γ α) (rows nrows out u v : Nat) (h : Heap γ) :
    (kProd2 c cd rows nrows out u v h).mem.size = h.mem.size := by
  simp [kProd2, wrD, ModuleHeap.guard, tch, Heap.touch, Heap.writeLimb]
theorem size_kProd1 (c : Module.Parts α) (cd : Cells γ α) (rows nrows out u v : Nat) (h : Heap γ) :
    (kProd1 c cd rows nrows out u v h).mem.size = h.mem.size := by
  simp [kProd1, wrD, ModuleHeap.guard, tch, Heap.touch, Heap.writeLimb]
theorem size_kSave (c : Module.Parts α) (cd : Cells γ α) (blk dst src : Nat) (h : Heap γ) :
    (kSave c cd blk dst src h).mem.size = h.mem.size := by
  simp [kSave, wrD, ModuleHeap.guard, tch, Heap.touch, Heap.writeLimb]
theorem size_scr (tb rel n : Nat) (h : Heap γ) : (scr tb rel n h).mem.size = h.mem.size := rfl
theorem size_kZeroD (c : Module.Parts α) (cd : Cells γ α) (p n : Nat) (h : Heap γ) :
    (kZeroD c cd p n h).mem.size = h.mem.size := by simp [kZeroD, wrD, Heap.writeLimb]
theorem size_loop (n : Nat) (body : Nat → Heap γ → Heap γ) (hb : ∀ i h, (body i h).mem.size = h.mem.size)
    (h : Heap γ) : (loop n body h).mem.size = h.mem.size := by
  induction n with
  | zero => rfl
  | succ n ih => rw [loop_succ, hb, ih]

/-! ### what `ok` says about the addresses -/
theorem tch_bound (off n : Nat) (h : Heap γ) (hk : (tch off n h).ok = true) : off + n ≤ h.mem.size := by
  simp [tch, Heap.touch] at hk; exact hk.2
theorem kFft_bound (c : Module.Parts α) (cd : Cells γ α) (p : Nat) (h : Heap γ) (hk : (kFft c cd p h).ok = true) :
    p + c.nn ≤ h.mem.size := tch_bound p c.nn h (okMono_wrD cd _ _ _ hk)
theorem kIfft_bound (c : Module.Parts α) (cd : Cells γ α) (p : Nat) (h : Heap γ) (hk : (kIfft c cd p h).ok = true) :
    p + c.nn ≤ h.mem.size := tch_bound p c.nn h (okMono_wrD cd _ _ _ hk)
theorem kFromZnx_bound (c : Module.Parts α) (cd : Cells γ α) (dst src : Nat) (h : Heap γ)
    (hk : (kFromZnx c cd dst src h).ok = true) : src + c.nn ≤ h.mem.size :=
  tch_bound src c.nn h (okMono_guard _ _ (okMono_wrD cd _ _ _ hk))
theorem kToZnx_bound (c : Module.Parts α) (cd : Cells γ α) (dst src : Nat) (h : Heap γ)
    (hk : (kToZnx c cd dst src h).ok = true) : src + c.nn ≤ h.mem.size :=
  tch_bound src c.nn h (okMono_guard _ _ (okMono_wrI cd _ _ _ hk))
theorem wr_bound (h : Heap γ) (off : Nat) (l : Array γ) (hk : (h.writeLimb off l).ok = true) :
    off + l.size ≤ h.mem.size := by
  simp [Heap.writeLimb] at hk; exact hk.2
theorem kZeroD_bound (c : Module.Parts α) (cd : Cells γ α) (p n : Nat) (h : Heap γ)
    (hk : (kZeroD c cd p n h).ok = true) : p + n ≤ h.mem.size := by
  have := wr_bound h p _ hk
  simpa using this
theorem kZeroI_bound (cd : Cells γ α) (p n : Nat) (h : Heap γ)
    (hk : (kZeroI cd p n h).ok = true) : p + n ≤ h.mem.size := by
  have := wr_bound h p _ hk
  simpa using this

/-! ### `memset` / `memcpy` on the arena and the model's `kZero*` / `kCopy` -/
theorem getD_eq_getElem (A : Array Int) (i : Nat) (hi : i < A.size) : A[i] = A.getD i 0 := by
  simp [Array.getD, hi]

theorem fill_eq_writeArr (X : Array Int) (od c : Nat) (v : Int) :
    fill X od c v = Heap.writeArr X od (Array.replicate c v) := by
  apply Array.ext
  · simp
  · intro i h1 h2
    rw [getD_eq_getElem _ i h1, getD_eq_getElem _ i h2, getD_fill, getD_writeArr]
    simp only [Array.size_replicate]
    split
    · rename_i h
      simp [Array.getD, show i - od < c by omega]
    · rfl

theorem blit_eq_writeArr (X : Array Int) (os od c : Nat) (d : Int) (hs : os + c ≤ X.size) :
    blit X os X od c = Heap.writeArr X od ((⟨X, true⟩ : Heap Int).readLimb d os c) := by
  apply Array.ext
  · simp
  · intro i h1 h2
    rw [getD_eq_getElem _ i h1, getD_eq_getElem _ i h2, getD_blit, getD_writeArr]
    simp only [Heap.readLimb, Array.size_ofFn]
    split
    · rename_i h
      have h3 : i - od < c := by omega
      have h4 : os + (i - od) < X.size := by omega
      simp [Array.getD, h3, h4]
    · rfl

theorem min_cond (a b : Nat) :
    (if (a : Int) < (b : Int) then (R.ok (a : Int) : R Int) else .ok (b : Int))
      = .ok ((min a b : Nat) : Int) := by
  by_cases h : a < b
  · have : (a : Int) < (b : Int) := by omega
    simp [this, Nat.min_eq_left (Nat.le_of_lt h)]
  · have : ¬ (a : Int) < (b : Int) := by omega
    simp [this, Nat.min_eq_right (Nat.le_of_not_lt h)]

/-- the same for any decidability instance (the one `simp` leaves behind may mention the un-normalised slots) -/
theorem min_cond' (a b : Nat) (inst : Decidable ((a : Int) < (b : Int))) :
    (@ite (R Int) ((a : Int) < (b : Int)) inst (R.ok (a : Int)) (.ok (b : Int))) = .ok ((min a b : Nat) : Int) := by
  by_cases h : a < b
  · have : (a : Int) < (b : Int) := by omega
    simp [this, Nat.min_eq_left (Nat.le_of_lt h)]
  · have : ¬ (a : Int) < (b : Int) := by omega
    simp [this, Nat.min_eq_right (Nat.le_of_not_lt h)]

theorem onArena_ok2 (B : Nat) (k : Heap Int → Heap Int) (m0 : Mem) (M : Array Int) (H : Heap Int) (hB : B < m0.size)
    (hM : H.mem = M) (hH : H.ok = true) (hk : (k H).ok = true) :
    onArena B k (m0.setIfInBounds B M) = .ok (m0.setIfInBounds B (k H).mem) := by
  subst hM; exact onArena_ok B k m0 H hB hH hk

theorem memset_arena (m0 : Mem) (B : Nat) (hB : B < m0.size) (M : Array Int) (p n : Nat) (ty : Ty)
    (hty : ty.bits = 64) (hpat : memsetPattern ty 0 = 0) (hb : p + n ≤ M.size) :
    memsetCells (m0.setIfInBounds B M) (some (B, p)) ty 0 ((8 * n : Nat) : Int)
      = .ok (m0.setIfInBounds B (Heap.writeArr M p (Array.replicate n 0))) := by
  have h1 : ¬ ((((8 * n : Nat) : Int)) < 0 ∨ (((8 * n : Nat) : Int)) % 8 ≠ 0 ∨ ty.bits ≠ 64) := by
    rw [hty]; omega
  have h2 : ((((8 * n : Nat) : Int)) / 8).toNat = n := by omega
  simp only [memsetCells, h1, if_false, h2, buf_set_self m0 B M hB, hb, if_true, hpat, fill_eq_writeArr, set_set]

theorem memcpy_arena (m0 : Mem) (B : Nat) (hB : B < m0.size) (M : Array Int) (d s n : Nat) (dflt : Int)
    (hd : d + n ≤ M.size) (hs : s + n ≤ M.size) (hdj : d + n ≤ s ∨ s + n ≤ d) :
    memcpyCells (m0.setIfInBounds B M) (some (B, d)) (some (B, s)) ((8 * n : Nat) : Int)
      = .ok (m0.setIfInBounds B (Heap.writeArr M d ((⟨M, true⟩ : Heap Int).readLimb dflt s n))) := by
  have h1 : ¬ ((((8 * n : Nat) : Int)) < 0 ∨ (((8 * n : Nat) : Int)) % 8 ≠ 0) := by omega
  have h2 : ((((8 * n : Nat) : Int)) / 8).toNat = n := by omega
  have h3 : ¬ (True ∧ d ≠ s ∧ d < s + n ∧ s < d + n) := by omega
  simp only [memcpyCells, h1, if_false, h2, buf_set_self m0 B M hB, hd, hs, and_self, if_true, h3,
    blit_eq_writeArr M s d n dflt hs, set_set]

theorem kZeroD_mem (c : Module.Parts α) (cd : Cells Int α) (p n : Nat) (h : Heap Int) :
    (kZeroD c cd p n h).mem = Heap.writeArr h.mem p (Array.replicate n (cd.enc c.ar.zero)) := by
  simp [kZeroD, wrD, Heap.writeLimb]
theorem kZeroI_mem (cd : Cells Int α) (p n : Nat) (h : Heap Int) :
    (kZeroI cd p n h).mem = Heap.writeArr h.mem p (Array.replicate n (cd.encI 0)) := by
  simp [kZeroI, wrI, Heap.writeLimb]
theorem kCopy_mem (cd : Cells Int α) (dst src n : Nat) (h : Heap Int) :
    (kCopy cd dst src n h).mem = Heap.writeArr h.mem dst (h.readLimb cd.dflt src n) := by
  simp [kCopy, ModuleHeap.guard, tch, Heap.touch, Heap.writeLimb]
/-- what `kCopy … ok` says: both ranges inside the arena and disjoint -/
theorem kCopy_bound (cd : Cells Int α) (dst src n : Nat) (h : Heap Int) (hk : (kCopy cd dst src n h).ok = true) :
    src + n ≤ h.mem.size ∧ dst + n ≤ h.mem.size ∧ (dst + n ≤ src ∨ src + n ≤ dst) := by
  simp [kCopy, ModuleHeap.guard, tch, Heap.touch, Heap.writeLimb, Heap.readLimb, disj] at hk
  omega
/-- `readLimb` does not look at the flag -/
theorem readLimb_mk (M : Array Int) (b : Bool) (d : Int) (off n : Nat) :
    (⟨M, b⟩ : Heap Int).readLimb d off n = (⟨M, true⟩ : Heap Int).readLimb d off n := rfl

/-- a scratch guard that holds does nothing -/
theorem scr_of_ok (tb rel n : Nat) (h : Heap γ) (hk : (scr tb rel n h).ok = true) : scr tb rel n h = h := by
  have h1 := okMono_scr tb rel n h hk
  simp [scr, ModuleHeap.guard] at hk ⊢
  cases h
  simp_all

/-! ### bounds implied by `ok` for the reim4 kernels -/
theorem wrD_bound (cd : Cells γ α) (off : Nat) (x : Array α) (h : Heap γ) (hk : (wrD cd off x h).ok = true) :
    off + x.size ≤ h.mem.size := by
  have := wr_bound h off _ hk
  simpa using this
theorem wrD_mem_size (cd : Cells γ α) (off : Nat) (x : Array α) (h : Heap γ) : (wrD cd off x h).mem.size = h.mem.size := by
  simp [wrD, Heap.writeLimb]
theorem kExtract1_bound (c : Module.Parts α) (cd : Cells γ α) (blk dst src : Nat) (h : Heap γ)
    (hk : (kExtract1 c cd blk dst src h).ok = true) : dst + 8 ≤ h.mem.size ∧ src + c.nn ≤ h.mem.size := by
  have h1 := wrD_bound cd _ _ _ hk
  have h2 := tch_bound _ _ _ (okMono_guard _ _ (okMono_wrD cd _ _ _ hk))
  rw [size_extract1] at h1
  simp [ModuleHeap.guard, tch, Heap.touch] at h1
  exact ⟨h1, h2⟩
theorem kExtractRows_bound (c : Module.Parts α) (cd : Cells γ α) (rows blk dst src : Nat) (h : Heap γ)
    (hk : (kExtractRows c cd rows blk dst src h).ok = true) :
    dst + 8 * rows ≤ h.mem.size ∧ src + rows * c.nn ≤ h.mem.size := by
  have h1 := wrD_bound cd _ _ _ hk
  have h2 := tch_bound _ _ _ (okMono_guard _ _ (okMono_wrD cd _ _ _ hk))
  rw [size_extractRows] at h1
  simp [ModuleHeap.guard, tch, Heap.touch] at h1
  exact ⟨h1, h2⟩
theorem kProd2_bound (c : Module.Parts α) (cd : Cells γ α) (rows nrows out u v : Nat) (h : Heap γ)
    (hk : (kProd2 c cd rows nrows out u v h).ok = true) :
    out + 16 ≤ h.mem.size ∧ u + 8 * rows ≤ h.mem.size ∧ v + 16 * nrows ≤ h.mem.size := by
  have h1 := wrD_bound cd _ _ _ hk
  have h3 := okMono_guard _ _ (okMono_wrD cd _ _ _ hk)
  have h2 := tch_bound _ _ _ h3
  have h4 := tch_bound _ _ _ (okMono_tch _ _ _ h3)
  rw [size_prod2] at h1
  simp [ModuleHeap.guard, tch, Heap.touch] at h1 h2
  exact ⟨h1, h4, h2⟩
theorem kProd1_bound (c : Module.Parts α) (cd : Cells γ α) (rows nrows out u v : Nat) (h : Heap γ)
    (hk : (kProd1 c cd rows nrows out u v h).ok = true) :
    out + 8 ≤ h.mem.size ∧ u + 8 * rows ≤ h.mem.size ∧ v + 8 * nrows ≤ h.mem.size := by
  have h1 := wrD_bound cd _ _ _ hk
  have h3 := okMono_guard _ _ (okMono_wrD cd _ _ _ hk)
  have h2 := tch_bound _ _ _ h3
  have h4 := tch_bound _ _ _ (okMono_tch _ _ _ h3)
  rw [size_prod1] at h1
  simp [ModuleHeap.guard, tch, Heap.touch] at h1 h2
  exact ⟨h1, h4, h2⟩
theorem kSave_bound (c : Module.Parts α) (cd : Cells γ α) (blk dst src : Nat) (h : Heap γ)
    (hk : (kSave c cd blk dst src h).ok = true) :
    dst + 4 * blk + 4 ≤ h.mem.size ∧ dst + c.m + 4 * blk + 4 ≤ h.mem.size ∧ src + 8 ≤ h.mem.size := by
  have h1 := wrD_bound cd _ _ _ hk
  have h5 := okMono_wrD cd _ _ _ hk
  have h6 := wrD_bound cd _ _ _ h5
  have h2 := tch_bound _ _ _ (okMono_guard _ _ (okMono_wrD cd _ _ _ h5))
  rw [wrD_mem_size] at h1
  simp [ModuleHeap.guard, tch, Heap.touch, rdD, Heap.readLimb] at h1 h6
  exact ⟨h6, h1, h2⟩
theorem kMul_bound (c : Module.Parts α) (cd : Cells γ α) (r a b : Nat) (h : Heap γ)
    (hk : (kMul c cd r a b h).ok = true) : a + c.nn ≤ h.mem.size ∧ b + c.nn ≤ h.mem.size := by
  have h3 := okMono_guard _ _ (okMono_wrD cd _ _ _ hk)
  have h2 := tch_bound _ _ _ h3
  have h4 := tch_bound _ _ _ (okMono_tch _ _ _ h3)
  simp [tch, Heap.touch] at h2
  exact ⟨h4, h2⟩
theorem kAddmul_bound (c : Module.Parts α) (cd : Cells γ α) (r a b : Nat) (h : Heap γ)
    (hk : (kAddmul c cd r a b h).ok = true) :
    r + c.nn ≤ h.mem.size ∧ a + c.nn ≤ h.mem.size ∧ b + c.nn ≤ h.mem.size := by
  have h3 := okMono_guard _ _ (okMono_wrD cd _ _ _ hk)
  have h2 := tch_bound _ _ _ h3
  have h4 := tch_bound _ _ _ (okMono_tch _ _ _ h3)
  have h5 := tch_bound _ _ _ (okMono_tch _ _ _ (okMono_tch _ _ _ h3))
  simp [tch, Heap.touch] at h2 h4
  exact ⟨h5, h4, h2⟩

theorem kMul_bound_r (c : Module.Parts α) (cd : Cells γ α) (r a b : Nat) (h : Heap γ)
    (hk : (kMul c cd r a b h).ok = true) : r + c.nn ≤ h.mem.size := by
  have h1 := wrD_bound cd _ _ _ hk
  rw [ModuleHeap.size_mul] at h1
  simpa [ModuleHeap.guard, tch, Heap.touch] using h1

end Spq.Src
