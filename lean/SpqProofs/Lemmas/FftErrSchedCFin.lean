/-
  C06.4: assembled rounding bound of the forward cplx transform on binary64 (interleaved layout).
-/
import SpqProofs.Lemmas.FftErrSchedCF64
import SpqProofs.Lemmas.FftErrSchedIFin
set_option linter.unusedSectionVars false
namespace Spq.FftErr
open Finset Spq.Fft Spq.Fft.Alg Spq.Fft.RelN Spq.Fft.SimP Spq.Fft.LevelN Spq.Fft.SchedN Spq.Fft.SchedC Spq.Fft.Sim Spq.F64
variable {K : Type} [Field K] [LinearOrder K] [IsStrictOrderedRing K]

/-- input / output cell `j` of an interleaved vector as a complex number over `K` -/
def cellC (v : Array ℕ) (j : ℕ) : Cplx K := toC (((val v[2 * j]! : ℚ) : K), ((val v[2 * j + 1]! : ℚ) : K))

/-- the exact forward transform of the values of the interleaved `data`: output `j` -/
def exactOutC (ζ : Cplx K) (k : ℕ) (data : Array ℕ) (j : ℕ) : Cplx K :=
  sumTo (2 ^ k) (fun i => cellC data i * ζ ^ ((1 + 4 * brev k j) * i))

/-- assembled bound, forward cplx, for four related implementations -/
theorem cfft_err_gen (Fb : CFlav ℕ) (FB : CFlav (ℕ × Prop)) (FQ : CFlav ℚ) (FK : CFlav K)
    (h1 : CFlavSim (fun (x : Nat × Prop) (b : Nat) => x.1 = b) FB Fb) (h2 : CFlavSim RelQ FB FQ)
    (h3 : CFlavSim (fun (q : ℚ) (x : K) => x = (q : K)) FQ FK)
    (hErr : CFwdErrOK FK (((7 / 2 * u64 : ℚ)) : K) (eta ((u64 : ℚ) : K) (((7 / 2 * u64 : ℚ)) : K)))
    (k : ℕ) (ζ : Cplx K) (hζ : nsq ζ = 1) (hI : ζ ^ 2 ^ k = Ic) (cN sN nsN ncN : ℕ → ℕ)
    (hcs : ∀ ℓ d b, ℓ + d + 1 = k → b < 2 ^ ℓ →
      nsq (toC (((val (cN (twE ℓ d b)) : ℚ) : K), ((val (sN (twE ℓ d b)) : ℚ) : K)) - ζ ^ twE ℓ d b) ≤
        (((7 / 2 * u64 : ℚ)) : K) ^ 2)
    (hncs : ∀ ℓ b, ℓ + 1 = k → b < 2 ^ ℓ →
      nsq (toC (((val (ncN (twE ℓ 0 b)) : ℚ) : K), ((val (nsN (twE ℓ 0 b)) : ℚ) : K)) - -ζ ^ twE ℓ 0 b) ≤
        (((7 / 2 * u64 : ℚ)) : K) ^ 2)
    (data : Array ℕ) (hdata : data.size = 2 * 2 ^ k)
    (hok : ∀ p, p < 2 * 2 ^ k →
      ((cplxFftA FB (2 ^ k) ((((cplxFftEnts (2 ^ k)).map (valQ cN sN nsN ncN)).toArray).map lift) (data.map lift))[p]!).2) :
    (∀ p, p < 2 * 2 ^ k →
      Fin64 ((cplxFftA Fb (2 ^ k) ((cplxFftEnts (2 ^ k)).map (valQ cN sN nsN ncN)).toArray data)[p]!)) ∧
    ∑ j ∈ range (2 ^ k),
        nsq (cellC (cplxFftA Fb (2 ^ k) ((cplxFftEnts (2 ^ k)).map (valQ cN sN nsN ncN)).toArray data) j
          - exactOutC ζ k data j) ≤
      ((1 + ((8 * u64 : ℚ) : K)) ^ k - 1) ^ 2 * ∑ j ∈ range (2 ^ k), nsq (exactOutC ζ k data j) := by
  have xf := cfft_transfer (K := K) Fb FB FQ FK h1 h2 h3 k cN sN nsN ncN data hdata hok
  constructor
  · intro p hp
    by_cases h : p % 2 = 0
    · have := (xf (p / 2) (by omega)).1
      rwa [show 2 * (p / 2) = p by omega] at this
    · have := (xf (p / 2) (by omega)).2.1
      rwa [show 2 * (p / 2) + 1 = p by omega] at this
  have hτ0 : (0 : K) ≤ ((7 / 2 * u64 : ℚ) : K) := by
    have : (0 : ℚ) ≤ 7 / 2 * u64 := by unfold u64; positivity
    exact_mod_cast this
  have hu0 : (0 : K) ≤ ((u64 : ℚ) : K) := by
    have : (0 : ℚ) ≤ u64 := by unfold u64; positivity
    exact_mod_cast this
  have hη0 := eta_nonneg hu0 hτ0
  have hζ2 : ζ ^ (2 * 2 ^ k) = -1 := by
    rw [Nat.mul_comm, pow_mul, hI, pow_two, Ic_mul]
    ext <;> simp [Ic, QuadraticAlgebra.re_one, QuadraticAlgebra.im_one]
  have ne := cnetN_err FK (fun e => ((val (cN e) : ℚ) : K)) (fun e => ((val (sN e) : ℚ) : K))
    (fun e => ((val (nsN e) : ℚ) : K)) (fun e => ((val (ncN e) : ℚ) : K)) k ζ _ _ hErr hη0 hζ hI hcs hncs
    (fun p => (((val data[2 * p]! : ℚ) : K), ((val data[2 * p + 1]! : ℚ) : K)))
  have e1 : ∀ j ∈ range (2 ^ k), toC (VN (gNetC FK (fun e => ((val (cN e) : ℚ) : K)) (fun e => ((val (sN e) : ℚ) : K))
      (fun e => ((val (nsN e) : ℚ) : K)) (fun e => ((val (ncN e) : ℚ) : K)) k)
      (fun p => (((val data[2 * p]! : ℚ) : K), ((val data[2 * p + 1]! : ℚ) : K))) k 0 j)
      = cellC (cplxFftA Fb (2 ^ k) ((cplxFftEnts (2 ^ k)).map (valQ cN sN nsN ncN)).toArray data) j := by
    intro j hj
    obtain ⟨_, _, h3, h4⟩ := xf j (mem_range.1 hj)
    unfold cellC toC
    rw [h3, h4]
  have e2 : ∀ j ∈ range (2 ^ k), V ζ (fun p => toC (((val data[2 * p]! : ℚ) : K), ((val data[2 * p + 1]! : ℚ) : K))) k 0 j
      = exactOutC ζ k data j := fun j hj => V_top ζ _ k hζ2 j (mem_range.1 hj)
  have s1 : ∑ j ∈ range (2 ^ k), nsq (toC (VN (gNetC FK (fun e => ((val (cN e) : ℚ) : K)) (fun e => ((val (sN e) : ℚ) : K))
      (fun e => ((val (nsN e) : ℚ) : K)) (fun e => ((val (ncN e) : ℚ) : K)) k)
      (fun p => (((val data[2 * p]! : ℚ) : K), ((val data[2 * p + 1]! : ℚ) : K))) k 0 j)
      - V ζ (fun p => toC (((val data[2 * p]! : ℚ) : K), ((val data[2 * p + 1]! : ℚ) : K))) k 0 j)
      = ∑ j ∈ range (2 ^ k), nsq (cellC (cplxFftA Fb (2 ^ k) ((cplxFftEnts (2 ^ k)).map (valQ cN sN nsN ncN)).toArray data) j
        - exactOutC ζ k data j) := sum_congr rfl (fun j hj => by rw [e1 j hj, e2 j hj])
  have s2 : ∑ j ∈ range (2 ^ k), nsq (V ζ (fun p => toC (((val data[2 * p]! : ℚ) : K), ((val data[2 * p + 1]! : ℚ) : K))) k 0 j)
      = ∑ j ∈ range (2 ^ k), nsq (exactOutC ζ k data j) := sum_congr rfl (fun j hj => by rw [e2 j hj])
  rw [s1, s2] at ne
  refine le_trans ne (mul_le_mul_of_nonneg_right (pow_sub_one_sq_mono _ _ hη0 eta64_le k) ?_)
  exact sum_nonneg (fun j _ => nsq_nonneg _)

/-- the cplx implementation selected by `new_cplx_fft_precomp`: the FMA code only for `m > 4` -/
def cfamB (fma : Bool) (m : ℕ) {α : Type} (A : Arith α) (z : α) : CFlav α :=
  if fma && decide (m > 4) then cfwdFma A z else cfwdRef A

theorem cplxFft_eq (fma : Bool) (m : ℕ) (T data : Array ℕ) :
    cplxFft (if fma then "fma" else "ref") m T data = cplxFftA (cfamB fma m f64 0) m T data := by
  cases fma <;> rfl

theorem tau64_nonneg : (0 : K) ≤ ((7 / 2 * u64 : ℚ) : K) := by
  have : (0 : ℚ) ≤ 7 / 2 * u64 := by unfold u64; positivity
  exact_mod_cast this

/-- assembled bound for the two cplx implementations -/
theorem cfft_err_fam (fma : Bool) (k : ℕ) (ζ : Cplx K) (hζ : nsq ζ = 1) (hI : ζ ^ 2 ^ k = Ic) (cN sN nsN ncN : ℕ → ℕ)
    (hcs : ∀ ℓ d b, ℓ + d + 1 = k → b < 2 ^ ℓ →
      nsq (toC (((val (cN (twE ℓ d b)) : ℚ) : K), ((val (sN (twE ℓ d b)) : ℚ) : K)) - ζ ^ twE ℓ d b) ≤
        (((7 / 2 * u64 : ℚ)) : K) ^ 2)
    (hncs : ∀ ℓ b, ℓ + 1 = k → b < 2 ^ ℓ →
      nsq (toC (((val (ncN (twE ℓ 0 b)) : ℚ) : K), ((val (nsN (twE ℓ 0 b)) : ℚ) : K)) - -ζ ^ twE ℓ 0 b) ≤
        (((7 / 2 * u64 : ℚ)) : K) ^ 2)
    (data : Array ℕ) (hdata : data.size = 2 * 2 ^ k)
    (hok : ∀ p, p < 2 * 2 ^ k →
      ((cplxFftA (cfamB fma (2 ^ k) aOk (lift 0)) (2 ^ k)
        ((((cplxFftEnts (2 ^ k)).map (valQ cN sN nsN ncN)).toArray).map lift) (data.map lift))[p]!).2) :
    (∀ p, p < 2 * 2 ^ k →
      Fin64 ((cplxFftA (cfamB fma (2 ^ k) f64 0) (2 ^ k) ((cplxFftEnts (2 ^ k)).map (valQ cN sN nsN ncN)).toArray data)[p]!)) ∧
    ∑ j ∈ range (2 ^ k),
        nsq (cellC (cplxFftA (cfamB fma (2 ^ k) f64 0) (2 ^ k) ((cplxFftEnts (2 ^ k)).map (valQ cN sN nsN ncN)).toArray data) j
          - exactOutC ζ k data j) ≤
      ((1 + ((8 * u64 : ℚ) : K)) ^ k - 1) ^ 2 * ∑ j ∈ range (2 ^ k), nsq (exactOutC ζ k data j) := by
  unfold cfamB at hok ⊢
  by_cases hc : (fma && decide (2 ^ k > 4)) = true
  · rw [if_pos hc] at hok ⊢
    exact cfft_err_gen (cfwdFma f64 0) (cfwdFma aOk (lift 0)) (cfwdFmaZ aG) (cfwdFmaZ (liftA aG : Arith K))
      (cfwdFma_sim aOk_sim_f64 rfl) cfwdFma_simZ (cfwdFmaZ_sim (liftA_sim (K := K) aG aG_neg))
      (cfwdFmaZ_errOK (liftA aG) _ _ (liftA_fstd aG u64 aG_fstd) tau64_nonneg)
      k ζ hζ hI cN sN nsN ncN hcs hncs data hdata hok
  · rw [if_neg hc] at hok ⊢
    exact cfft_err_gen (cfwdRef f64) (cfwdRef aOk) (cfwdRef aG) (cfwdRef (liftA aG : Arith K))
      (cfwdRef_sim aOk_sim_f64) (cfwdRef_sim aOk_sim_aG) (cfwdRef_sim (liftA_sim (K := K) aG aG_neg))
      (cfwdRef_errOK (liftA aG) _ _ (liftA_fstd aG u64 aG_fstd) tau64_nonneg)
      k ζ hζ hI cN sN nsN ncN hcs hncs data hdata hok

end Spq.FftErr
