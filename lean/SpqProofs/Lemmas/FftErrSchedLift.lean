/-
  C06.4: an arithmetic on ℚ satisfying the standard model (`FStd`) lifted to any ordered field `K ⊇ ℚ` (e.g. ℝ, where
  the exact roots of unity live): on rational operands it is the ℚ-arithmetic, elsewhere it is exact.
-/
import SpqProofs.Lemmas.FftErrInst
import SpqProofs.Lemmas.FftErrSchedRel
import Mathlib.Data.Rat.Cast.Order
set_option linter.unusedSectionVars false
namespace Spq.FftErr
open Spq.Fft Spq.Fft.RelN
variable {K : Type} [Field K] [LinearOrder K] [IsStrictOrderedRing K]

open Classical in
/-- the rational a field element is the image of, if any -/
noncomputable def unc (x : K) : Option ℚ := if h : ∃ q : ℚ, (q : K) = x then some h.choose else none

theorem unc_cast (q : ℚ) : unc (q : K) = some q := by
  unfold unc
  have h : ∃ r : ℚ, (r : K) = (q : K) := ⟨q, rfl⟩
  rw [dif_pos h]
  exact congrArg some (Rat.cast_injective h.choose_spec)

theorem unc_some {x : K} {q : ℚ} (h : unc x = some q) : x = (q : K) := by
  unfold unc at h
  split at h
  · rename_i hx
    have := hx.choose_spec
    rw [Option.some.injEq] at h
    rw [← h, this]
  · exact absurd h (by simp)

/-- the lifted arithmetic -/
noncomputable def liftA (A : Arith ℚ) : Arith K where
  add x y := match unc x, unc y with
    | some q, some r => ((A.add q r : ℚ) : K)
    | _, _ => x + y
  sub x y := match unc x, unc y with
    | some q, some r => ((A.sub q r : ℚ) : K)
    | _, _ => x - y
  mul x y := match unc x, unc y with
    | some q, some r => ((A.mul q r : ℚ) : K)
    | _, _ => x * y
  neg x := -x
  fma x y z := match unc x, unc y, unc z with
    | some q, some r, some t => ((A.fma q r t : ℚ) : K)
    | _, _, _ => x * y + z
  fms x y z := match unc x, unc y, unc z with
    | some q, some r, some t => ((A.fms q r t : ℚ) : K)
    | _, _, _ => x * y - z

/-- rational operands: the lifted operation is the cast of the ℚ operation -/
theorem liftA_sim (A : Arith ℚ) (hneg : ∀ q, A.neg q = -q) :
    ASim (fun (q : ℚ) (x : K) => x = (q : K)) A (liftA A) where
  add := by intro a a' b b' h1 h2; subst h1 h2; simp only [liftA, unc_cast]
  sub := by intro a a' b b' h1 h2; subst h1 h2; simp only [liftA, unc_cast]
  mul := by intro a a' b b' h1 h2; subst h1 h2; simp only [liftA, unc_cast]
  neg := by intro a a' h1; subst h1; simp only [liftA, hneg]; push_cast; ring
  fma := by intro a a' b b' c c' h1 h2 h3; subst h1 h2 h3; simp only [liftA, unc_cast]
  fms := by intro a a' b b' c c' h1 h2 h3; subst h1 h2 h3; simp only [liftA, unc_cast]

theorem cast_bound {u q e : ℚ} (h : |q - e| ≤ u * |e|) : |((q : ℚ) : K) - (e : K)| ≤ (u : K) * |(e : K)| := by
  have := (Rat.cast_le (K := K)).2 h
  push_cast at this
  exact this

/-- the lifted arithmetic satisfies the standard model with the same unit roundoff -/
theorem liftA_fstd (A : Arith ℚ) (u : ℚ) (sm : FStd A u) : FStd (liftA A : Arith K) (u : K) where
  u_nonneg := by exact_mod_cast sm.u_nonneg
  add := by
    intro a b
    simp only [liftA]
    split
    · rename_i q r hq hr
      rw [unc_some hq, unc_some hr]
      have := cast_bound (K := K) (sm.add q r)
      push_cast at this; exact this
    · rw [sub_self, abs_zero]; exact mul_nonneg (by exact_mod_cast sm.u_nonneg) (abs_nonneg _)
  sub := by
    intro a b
    simp only [liftA]
    split
    · rename_i q r hq hr
      rw [unc_some hq, unc_some hr]
      have := cast_bound (K := K) (sm.sub q r)
      push_cast at this; exact this
    · rw [sub_self, abs_zero]; exact mul_nonneg (by exact_mod_cast sm.u_nonneg) (abs_nonneg _)
  mul := by
    intro a b
    simp only [liftA]
    split
    · rename_i q r hq hr
      rw [unc_some hq, unc_some hr]
      have := cast_bound (K := K) (sm.mul q r)
      push_cast at this; exact this
    · rw [sub_self, abs_zero]; exact mul_nonneg (by exact_mod_cast sm.u_nonneg) (abs_nonneg _)
  fma := by
    intro a b c
    simp only [liftA]
    split
    · rename_i q r t hq hr ht
      rw [unc_some hq, unc_some hr, unc_some ht]
      have := cast_bound (K := K) (sm.fma q r t)
      push_cast at this; exact this
    · rw [sub_self, abs_zero]; exact mul_nonneg (by exact_mod_cast sm.u_nonneg) (abs_nonneg _)
  fms := by
    intro a b c
    simp only [liftA]
    split
    · rename_i q r t hq hr ht
      rw [unc_some hq, unc_some hr, unc_some ht]
      have := cast_bound (K := K) (sm.fms q r t)
      push_cast at this; exact this
    · rw [sub_self, abs_zero]; exact mul_nonneg (by exact_mod_cast sm.u_nonneg) (abs_nonneg _)
  neg := fun _ => rfl

end Spq.FftErr
