/-
  C01 rounding budget: a concrete non-trivial instance of every hypothesis of the end-to-end theorems.
  `N = 2` (`k = 0`, `m = 1`), `K = ℚ`, `ζ = i`, `ζi = −i`, all-reference configuration, `a = 1 + 2X`, `b = 3 + 4X`
  (`a·b = −5 + 10X mod X² + 1`).  For `m ≥ 2` the roots `ζ^e` are irrational: `K = ℝ` (`ζ = exp(iπ/2m)`) is needed,
  and the twiddle-accuracy hypotheses are then statements about the stored table (stream `ff_tables`).
-/
import SpqProofs.Lemmas.ProdErrFinal
import SpqProofs.Lemmas.F64StdInt
set_option linter.unusedSectionVars false
namespace Spq.ProdErr
open Finset Spq Spq.Module Spq.Fft Spq.Fft.Alg Spq.Fft.SimP Spq.Fft.LevelN Spq.Fft.SchedN Spq.Fft.RelN Spq.FftErr Spq.F64
  Spq.Reim4 Spq.Conv

/-- the all-reference module of dimension `N = 2` (tables are empty for `m = 1`) -/
def exC : Cfg where
  nn := 2
  fftFma := false
  ifftFma := false
  fromBnd50 := false
  toVariant := ToZnx64Variant.ref
  mulFma := false
  addmulFma := false
  vmpAvx := false
  fftT := #[]
  ifftT := #[]
def z0 : ℕ → ℕ := fun _ => 0

theorem exCfgOk : CfgOk exC 0 z0 z0 z0 z0 := ⟨rfl, rfl, rfl, by decide, by decide, by decide⟩

theorem exA : (Cfg.parts exC).fromZnx #[1, 2] = #[4607182418800017408, 4611686018427387904] := by decide +kernel
theorem exB : (Cfg.parts exC).fromZnx #[3, 4] = #[4613937818241073152, 4616189618054758400] := by decide +kernel
theorem exFA : stF exC 0 z0 z0 #[1, 2] = #[4607182418800017408, 4611686018427387904] := by decide +kernel
theorem exFB : stF exC 0 z0 z0 #[3, 4] = #[4613937818241073152, 4616189618054758400] := by decide +kernel
theorem exM : stM exC 0 z0 z0 #[1, 2] #[3, 4] = #[13840687554816376832, 4621819117588971520] := by decide +kernel

theorem ex_okA : ∀ p, p < 2 * 2 ^ 0 →
    ((reimFftA (famOf exC.fftFma aOk) (2 ^ 0) ((((reimFftEnts (2 ^ 0)).map (valP z0 z0)).toArray).map lift)
      (((Cfg.parts exC).fromZnx #[1, 2]).map lift))[p]!).2 := by
  intro p hp
  rw [exA]
  have : p = 0 ∨ p = 1 := by omega
  rcases this with rfl | rfl <;> simp [reimFftA, fftRI, joinRI, splitRI, lift] <;> decide

theorem ex_okB : ∀ p, p < 2 * 2 ^ 0 →
    ((reimFftA (famOf exC.fftFma aOk) (2 ^ 0) ((((reimFftEnts (2 ^ 0)).map (valP z0 z0)).toArray).map lift)
      (((Cfg.parts exC).fromZnx #[3, 4]).map lift))[p]!).2 := by
  intro p hp
  rw [exB]
  have : p = 0 ∨ p = 1 := by omega
  rcases this with rfl | rfl <;> simp [reimFftA, fftRI, joinRI, splitRI, lift] <;> decide

theorem ex_okI : ∀ p, p < 2 * 2 ^ 0 →
    ((reimIfftA (ifamOf exC.ifftFma aOk) (2 ^ 0) ((((reimIfftEnts (2 ^ 0)).map (valP z0 z0)).toArray).map lift)
      ((stM exC 0 z0 z0 #[1, 2] #[3, 4]).map lift))[p]!).2 := by
  intro p hp
  rw [exM]
  have : p = 0 ∨ p = 1 := by omega
  rcases this with rfl | rfl <;> simp [reimIfftA, ifftRI, joinRI, splitRI, lift] <;> decide

theorem ex_okM : ∀ p, p < 2 * 2 ^ 0 →
    ((mulA arithOk exC.mulFma (2 ^ 0) ((stF exC 0 z0 z0 #[1, 2]).map lift) ((stF exC 0 z0 z0 #[3, 4]).map lift)).getD p
      arithOk.zero).2 := by
  intro p hp
  rw [exFA, exFB]
  obtain ⟨c1, c2⟩ := (mulA_cells arithOk false 1 (by simp)
    ((#[4607182418800017408, 4611686018427387904] : Array ℕ).map lift)
    ((#[4613937818241073152, 4616189618054758400] : Array ℕ).map lift)).2 0 (by omega)
  have g0 : ((#[4607182418800017408, 4611686018427387904] : Array ℕ).map lift).getD 0 arithOk.zero = lift (ofInt 1) :=
    getD_map lift _ 0 0
  have g1 : ((#[4607182418800017408, 4611686018427387904] : Array ℕ).map lift).getD (0 + 1) arithOk.zero = lift (ofInt 2) :=
    getD_map lift _ 1 0
  have g2 : ((#[4613937818241073152, 4616189618054758400] : Array ℕ).map lift).getD 0 arithOk.zero = lift (ofInt 3) :=
    getD_map lift _ 0 0
  have g3 : ((#[4613937818241073152, 4616189618054758400] : Array ℕ).map lift).getD (0 + 1) arithOk.zero = lift (ofInt 4) :=
    getD_map lift _ 1 0
  rw [g0, g1, g2, g3] at c1 c2
  have m1 : F64.mul (ofInt 1) (ofInt 3) = ofInt 3 := by decide +kernel
  have m2 : F64.mul (ofInt 2) (ofInt 4) = ofInt 8 := by decide +kernel
  have m3 : F64.mul (ofInt 1) (ofInt 4) = ofInt 4 := by decide +kernel
  have m4 : F64.mul (ofInt 2) (ofInt 3) = ofInt 6 := by decide +kernel
  have v1 : val (ofInt 1) = ((1 : ℤ) : ℚ) := val_ofInt (by decide)
  have v2 : val (ofInt 2) = ((2 : ℤ) : ℚ) := val_ofInt (by decide)
  have v3 : val (ofInt 3) = ((3 : ℤ) : ℚ) := val_ofInt (by decide)
  have v4 : val (ofInt 4) = ((4 : ℤ) : ℚ) := val_ofInt (by decide)
  have v6 : val (ofInt 6) = ((6 : ℤ) : ℚ) := val_ofInt (by decide)
  have v8 : val (ofInt 8) = ((8 : ℤ) : ℚ) := val_ofInt (by decide)
  have hexp : exC.mulFma = false := rfl
  have h20 : 2 ^ 0 = 1 := rfl
  rw [hexp, h20]
  have : p = 0 ∨ p = 0 + 1 := by omega
  rcases this with rfl | rfl
  · rw [c1]
    simp only [cellRe, Bool.false_eq_true, if_false, reRef, arithOk_sub_snd, arithOk_mul_snd, arithOk_mul_fst, lift_fst,
      lift_snd]
    rw [m1, m2, v1, v2, v3, v4, v8]
    refine ⟨⟨by decide, by decide, ?_⟩, ⟨by decide, by decide, ?_⟩, ?_⟩
    · rw [← Int.cast_mul]; exact normalRange_int _ (by decide)
    · rw [← Int.cast_mul]; exact normalRange_int _ (by decide)
    · rw [← Int.cast_sub]; exact normalRange_int _ (by decide)
  · rw [c2]
    simp only [cellIm, Bool.false_eq_true, if_false, imRef, arithOk_add_snd, arithOk_mul_snd, arithOk_mul_fst, lift_fst,
      lift_snd]
    rw [m3, m4, v1, v2, v3, v4, v6]
    refine ⟨⟨by decide, by decide, ?_⟩, ⟨by decide, by decide, ?_⟩, ?_⟩
    · rw [← Int.cast_mul]; exact normalRange_int _ (by decide)
    · rw [← Int.cast_mul]; exact normalRange_int _ (by decide)
    · rw [← Int.cast_add]; exact normalRange_int _ (by decide)

theorem exPipeOk : PipeOk exC 0 z0 z0 z0 z0 #[1, 2] #[3, 4] := ⟨ex_okA, ex_okB, ex_okM, ex_okI⟩

end Spq.ProdErr
