/-
  C06.4, structural schedule theorem (forward reim): for an ARBITRARY value type and arbitrary butterfly functions
  (no ring laws), `fftRI F m T s` is the level network `VN` whose block `b` of level `ℓ` runs the butterfly
  `gNet F c s k ℓ d b`: the plain butterfly with the stored twiddle of exponent `twE ℓ d b`, or — in the odd blocks of
  the levels where the kernels use the `i·ω` butterfly — the `i·ω` butterfly with the stored twiddle of block `b−1`.
  The schedules (leaves, bfs16, rec16) only decide WHEN a butterfly is executed.
-/
import SpqProofs.Lemmas.FftErrSchedKern
import SpqProofs.Lemmas.FftReimFwd
set_option linter.unusedSectionVars false
set_option linter.unusedSimpArgs false
namespace Spq.Fft.SchedN
open Spq.Fft Spq.Fft.Alg Spq.Fft.View Spq.Fft.Sim Spq.Fft.SimP Spq.Fft.LevelN Spq.Fft.KernN Spq.Fft.Tw
open Spq.Fft.Kern (leafE)
open Spq.Fft.Tab (length_flatMap_const)
open Spq.Fft.Sched (iter_counter)

variable {R : Type} [Inhabited R]

/-- levels (counted from the end, `r = k − ℓ`) whose odd blocks are computed with the `i·ω` butterfly -/
def clv (r : ℕ) : Bool := r ≤ 3 || (5 ≤ r && r ≤ 10 && r % 2 == 1)

/-- the plain / `i·ω` butterfly used for transform size `2^k` (`m = 2`: `ct2`; `m = 4, 8`: the small kernels) -/
def ctK (F : Flav R) (k : ℕ) : Bf R := if k = 1 then F.ct2 else if k ≤ 3 then F.ctS else F.ct
def citK (F : Flav R) (k : ℕ) : Bf R := if k ≤ 3 then F.citS else F.cit

/-- the butterfly of block `b` at level `(ℓ, d)`; `c e`, `s e`: stored cos / sin of exponent `e` -/
def gNet (F : Flav R) (c s : ℕ → R) (k ℓ d b : ℕ) : R × R → R × R → (R × R) × (R × R) :=
  if clv (k - ℓ) && b % 2 == 1 then bfV (citK F k) (c (twE ℓ d (b - 1))) (s (twE ℓ d (b - 1)))
  else bfV (ctK F k) (c (twE ℓ d b)) (s (twE ℓ d b))

theorem gNet_ct (F : Flav R) (c s : ℕ → R) (k ℓ d b : ℕ) (h : clv (k - ℓ) = false ∨ b % 2 = 0) :
    gNet F c s k ℓ d b = bfV (ctK F k) (c (twE ℓ d b)) (s (twE ℓ d b)) := by
  unfold gNet
  rcases h with h | h
  · rw [h]; simp
  · rw [h]; simp

theorem gNet_cit (F : Flav R) (c s : ℕ → R) (k ℓ d b : ℕ) (h : clv (k - ℓ) = true) :
    gNet F c s k ℓ d (2 * b + 1) = bfV (citK F k) (c (twE ℓ d (2 * b))) (s (twE ℓ d (2 * b))) := by
  unfold gNet
  rw [h, show (2 * b + 1) % 2 = 1 by omega, show 2 * b + 1 - 1 = 2 * b by omega]; simp

/-- stored value of a forward table entry (kinds 0 = cos, 1 = sin only) -/
def valP (c s : ℕ → R) (x : Ent) : R := if x.kind = 0 then c x.e else s x.e

/-- the table holds the list `L` from position `t` on -/
def SegP (T : Array R) (t : ℕ) (L : List R) : Prop := ∀ j, j < L.length → T[t + j]! = L[j]!

theorem SegP.left {T : Array R} {t : ℕ} {A B : List R} (h : SegP T t (A ++ B)) : SegP T t A := by
  intro j hj
  have := h j (by simp; omega)
  rw [this]
  simp [List.getElem!_eq_getElem?_getD, List.getElem?_append_left hj]

theorem SegP.right {T : Array R} {t : ℕ} {A B : List R} (h : SegP T t (A ++ B)) : SegP T (t + A.length) B := by
  intro j hj
  have := h (A.length + j) (by simp; omega)
  rw [Nat.add_assoc, this]
  simp [List.getElem!_eq_getElem?_getD, List.getElem?_append_right]

theorem SegP.flatMap {T : Array R} {t : ℕ} (g : ℕ → List R) (len n : ℕ) (hg : ∀ b, (g b).length = len)
    (h : SegP T t ((List.range n).flatMap g)) : ∀ b, b < n → SegP T (t + b * len) (g b) := by
  induction n with
  | zero => intro b hb; omega
  | succ n ih =>
    intro b hb
    rw [List.range_succ, List.flatMap_append] at h
    by_cases hbn : b = n
    · subst hbn
      have := h.right
      rw [length_flatMap_const g len b hg] at this
      simpa using this
    · exact ih h.left b (by omega)

theorem SegP.of_toArray (L : List R) : SegP L.toArray 0 L := by
  intro j hj
  simp [hj]

/-- reading `exp(2iπx)` stored as `(cos, sin)` -/
theorem read_ePN (c s : ℕ → R) (T : Array R) (t x : ℕ) (h : SegP T t ((eP x).map (valP c s))) :
    T[t]! = c x ∧ T[t + 1]! = s x := by
  have h0 := h 0 (by simp [eP])
  have h1 := h 1 (by simp [eP])
  simp only [Nat.add_zero] at h0
  rw [h0, h1]
  simp [eP, valP]

/-- the reim leaf pack read through `reimW16`: stored cos / sin of the eight exponents -/
theorem leaf_readN (c s : ℕ → R) (T : Array R) (t e U : ℕ) (h : SegP T t ((rFill16 U e).map (valP c s))) :
    ∀ q, q < 8 → reimW16 T t q = (c (leafE e U q), s (leafE e U q)) := by
  have hl : ((rFill16 U e).map (valP c s)).length = 16 := by simp [rFill16, eP, gam]
  have g : ∀ j, j < 16 → T[t + j]! = ((rFill16 U e).map (valP c s))[j]! := fun j hj => h j (by omega)
  intro q hq
  have : q = 0 ∨ q = 1 ∨ q = 2 ∨ q = 3 ∨ q = 4 ∨ q = 5 ∨ q = 6 ∨ q = 7 := by omega
  rcases this with rfl | rfl | rfl | rfl | rfl | rfl | rfl | rfl
  · have a := g 0 (by omega); have b := g 1 (by omega)
    simp only [Nat.add_zero] at a
    simp only [reimW16, leafE, Nat.reduceLT, ↓reduceIte, Nat.reduceMul, Nat.reduceAdd, Nat.add_zero, Nat.add_assoc]
    rw [a, b]; simp [rFill16, eP, gam, valP, Nat.add_assoc]
  · have a := g 2 (by omega); have b := g 3 (by omega)
    simp only [reimW16, leafE, Nat.reduceLT, ↓reduceIte, Nat.reduceMul, Nat.reduceAdd, Nat.add_zero, Nat.add_assoc]
    rw [a, b]; simp [rFill16, eP, gam, valP, Nat.add_assoc]
  · have a := g 4 (by omega); have b := g 5 (by omega)
    simp only [reimW16, leafE, Nat.reduceLT, ↓reduceIte, Nat.reduceMul, Nat.reduceAdd, Nat.add_zero, Nat.add_assoc]
    rw [a, b]; simp [rFill16, eP, gam, valP, Nat.add_assoc]
  · have a := g 6 (by omega); have b := g 7 (by omega)
    simp only [reimW16, leafE, Nat.reduceLT, ↓reduceIte, Nat.reduceMul, Nat.reduceAdd, Nat.add_zero, Nat.add_assoc]
    rw [a, b]; simp [rFill16, eP, gam, valP, Nat.add_assoc]
  · have a := g 8 (by omega); have b := g 12 (by omega)
    simp only [reimW16, leafE, Nat.reduceLT, ↓reduceIte, Nat.reduceMul, Nat.reduceAdd, Nat.add_zero, Nat.add_assoc]
    rw [a, b]; simp [rFill16, eP, gam, valP, Nat.add_assoc]
  · have a := g 9 (by omega); have b := g 13 (by omega)
    simp only [reimW16, leafE, Nat.reduceLT, ↓reduceIte, Nat.reduceMul, Nat.reduceAdd, Nat.add_zero, Nat.add_assoc]
    rw [a, b]; simp [rFill16, eP, gam, valP, Nat.add_assoc]
  · have a := g 10 (by omega); have b := g 14 (by omega)
    simp only [reimW16, leafE, Nat.reduceLT, ↓reduceIte, Nat.reduceMul, Nat.reduceAdd, Nat.add_zero, Nat.add_assoc]
    rw [a, b]; simp [rFill16, eP, gam, valP, Nat.add_assoc]
  · have a := g 11 (by omega); have b := g 15 (by omega)
    simp only [reimW16, leafE, Nat.reduceLT, ↓reduceIte, Nat.reduceMul, Nat.reduceAdd, Nat.add_zero, Nat.add_assoc]
    rw [a, b]; simp [rFill16, eP, gam, valP, Nat.add_assoc]

theorem ctK_big (F : Flav R) (k : ℕ) (hk : 4 ≤ k) : ctK F k = F.ct := by
  unfold ctK; rw [if_neg (by omega), if_neg (by omega)]
theorem citK_big (F : Flav R) (k : ℕ) (hk : 4 ≤ k) : citK F k = F.cit := by
  unfold citK; rw [if_neg (by omega)]

variable (F : Flav R) (c s : ℕ → R) (k : ℕ) (a : ℕ → R × R)

/-- one 16-point leaf on block `B` of level `k − 4` -/
theorem leaf_stepN (T : Array R) (t N ℓ B off e : ℕ) (s0 : RI R) (hs : Valid N s0) (hoff : off = 16 * B)
    (hN : off + 16 ≤ N) (hk : k = ℓ + 4) (he : e = 16 * (1 + 4 * brev ℓ B))
    (hT : SegP T t ((rFill16 (4 * 2 ^ k) e).map (valP c s))) :
    AdvN (gNet F c s k) a (prs s0) (prs (fft16 F T t off s0)) ℓ 4 (ℓ + 4) 0 off 16 ∧ Valid N (fft16 F T t off s0) := by
  have hw := leaf_readN c s T t e (4 * 2 ^ k) hT
  obtain ⟨x0, x1, x2, x3, x4, x5, x6, x7⟩ := leaf_exps ℓ B e (4 * 2 ^ k) he (by rw [hk])
  have w0 := hw 0 (by omega); have w1 := hw 1 (by omega); have w2 := hw 2 (by omega)
  have w3 := hw 3 (by omega); have w4 := hw 4 (by omega); have w5 := hw 5 (by omega)
  have w6 := hw 6 (by omega); have w7 := hw 7 (by omega)
  simp only [leafE] at w0 w1 w2 w3 w4 w5 w6 w7
  rw [x0] at w0; rw [x1] at w1; rw [x2] at w2; rw [x3] at w3; rw [x4] at w4; rw [x5] at w5; rw [x6] at w6
  rw [x7] at w7
  have c4 : clv (k - ℓ) = false := by rw [show k - ℓ = 4 by omega]; rfl
  have c3 : clv (k - (ℓ + 1)) = true := by rw [show k - (ℓ + 1) = 3 by omega]; rfl
  have c2 : clv (k - (ℓ + 2)) = true := by rw [show k - (ℓ + 2) = 2 by omega]; rfl
  have c1 : clv (k - (ℓ + 3)) = true := by rw [show k - (ℓ + 3) = 1 by omega]; rfl
  have hct := ctK_big F k (by omega)
  have hcit := citK_big F k (by omega)
  unfold fft16
  apply fft16K_advN (gNet F c s k) a F (reimW16 T t) N ℓ B off s0 hs hoff hN
  · rw [gNet_ct F c s k ℓ 3 B (Or.inl c4), hct, w0]
  · rw [gNet_ct F c s k (ℓ + 1) 2 (2 * B) (Or.inr (by omega)), hct, w1]
  · rw [gNet_cit F c s k (ℓ + 1) 2 B c3, hcit, w1]
  · rw [gNet_ct F c s k (ℓ + 2) 1 (4 * B) (Or.inr (by omega)), hct, w2]
  · rw [show 4 * B + 1 = 2 * (2 * B) + 1 by ring, gNet_cit F c s k (ℓ + 2) 1 (2 * B) c2, hcit, w2,
      show 2 * (2 * B) = 4 * B by ring]
  · rw [gNet_ct F c s k (ℓ + 2) 1 (4 * B + 2) (Or.inr (by omega)), hct, w3]
  · rw [show 4 * B + 3 = 2 * (2 * B + 1) + 1 by ring, gNet_cit F c s k (ℓ + 2) 1 (2 * B + 1) c2, hcit, w3,
      show 2 * (2 * B + 1) = 4 * B + 2 by ring]
  · intro q hq
    rw [gNet_ct F c s k (ℓ + 3) 0 (8 * B + 2 * q) (Or.inr (by omega)), hct]
    have : q = 0 ∨ q = 1 ∨ q = 2 ∨ q = 3 := by omega
    rcases this with rfl | rfl | rfl | rfl
    · rw [w4]; rfl
    · rw [w5]
    · rw [w6]
    · rw [w7]
  · intro q hq
    rw [show 8 * B + 2 * q + 1 = 2 * (4 * B + q) + 1 by ring, gNet_cit F c s k (ℓ + 3) 0 (4 * B + q) c1, hcit,
      show 2 * (4 * B + q) = 8 * B + 2 * q by ring]
    have : q = 0 ∨ q = 1 ∨ q = 2 ∨ q = 3 := by omega
    rcases this with rfl | rfl | rfl | rfl
    · rw [w4]; rfl
    · rw [w5]
    · rw [w6]
    · rw [w7]

/-- the loop over the 16-point leaves -/
theorem leaves_specN (T : Array R) (N ℓ0 j b0 off m' t : ℕ) (s0 : RI R)
    (hs : Valid N s0) (hk : k = ℓ0 + j + 4) (hm : m' = 2 ^ (j + 4)) (hoff : off = m' * b0) (hN : off + m' ≤ N)
    (hT : SegP T t (((List.range (m' / 16)).flatMap
      (fun b => rFill16 (4 * 2 ^ k) (16 * (1 + 4 * brev ℓ0 b0) + frbN (4 * 2 ^ k) b))).map (valP c s))) :
    let r := iterFrom (fun b (st : RI R × ℕ) => (fft16 F T st.2 (off + 16 * b) st.1, st.2 + 16)) (m' / 16) 0 (s0, t)
    AdvN (gNet F c s k) a (prs s0) (prs r.1) (ℓ0 + j) 4 (ℓ0 + j + 4) 0 off m' ∧ Valid N r.1 ∧ r.2 = t + m' := by
  intro r
  have hnb : m' / 16 = 2 ^ j := by rw [hm, pow_add]; norm_num
  have hm16 : m' = 2 ^ j * 16 := by rw [hm, pow_add]; norm_num
  have hr : r = (iterFrom (fun b s => fft16 F T (t + 16 * b) (off + 16 * b) s) (m' / 16) 0 s0, t + 16 * (m' / 16)) :=
    iter_counter (fun b t s => fft16 F T t (off + 16 * b) s) 16 (m' / 16) s0 t
  rw [hr]
  simp only
  rw [List.map_flatMap] at hT
  have hseg := SegP.flatMap (T := T) (t := t) _ 16 (m' / 16) (fun b => by simp [rFill16, eP, gam]) hT
  have sw := sweepN (VN (gNet F c s k) a (ℓ0 + j) 4) (VN (gNet F c s k) a (ℓ0 + j + 4) 0)
    (fun b s => fft16 F T (t + 16 * b) (off + 16 * b) s) N off 16 (m' / 16)
    (fun b s1 hb hs1 => by
      have hb' : b < 2 ^ j := by omega
      have := leaf_stepN F c s k a T (t + 16 * b) N (ℓ0 + j) (b0 * 2 ^ j + b) (off + 16 * b)
        (16 * (1 + 4 * brev ℓ0 b0) + frbN (4 * 2 ^ k) b) s1 hs1
        (by rw [hoff, hm16]; ring) (by omega) hk
        (by
          have := block_entry ℓ0 j 4 b0 b hb'
          rw [← hk] at this
          simpa using this)
        (by
          have := hseg b hb
          rwa [show t + b * 16 = t + 16 * b by ring] at this)
      exact ⟨this.1.of_eq (by ring) rfl, this.2⟩) s0 hs
  refine ⟨sw.1.of_eq rfl (by omega), sw.2, by omega⟩

/-- one radix-4 level of `bfs16` over the whole region -/
theorem r4_specN (T : Array R) (N ℓ0 j e2 b0 off m' mm t : ℕ) (s0 : RI R)
    (hs : Valid N s0) (hk : k = ℓ0 + j + (e2 + 2)) (hm : m' = 2 ^ (j + (e2 + 2))) (hmm : mm = 2 ^ (e2 + 2))
    (he2 : e2 % 2 = 0) (he4 : 4 ≤ e2) (he10 : e2 + 2 ≤ 10)
    (hoff : off = m' * b0) (hN : off + m' ≤ N)
    (hT : SegP T t (((List.range (m' / mm)).flatMap (fun b =>
      eP (2 * (mm * (1 + 4 * brev ℓ0 b0) / 4 + frbN (4 * 2 ^ k) b / 4)) ++
      eP (mm * (1 + 4 * brev ℓ0 b0) / 4 + frbN (4 * 2 ^ k) b / 4))).map (valP c s))) :
    let r := iterFrom (fun b (st : RI R × ℕ) => (bitwiddle F T st.2 (mm / 4) (off + b * mm) st.1, st.2 + 4))
      (m' / mm) 0 (s0, t)
    AdvN (gNet F c s k) a (prs s0) (prs r.1) (ℓ0 + j) (e2 + 2) (ℓ0 + j + 2) e2 off m' ∧ Valid N r.1 ∧
      r.2 = t + 4 * (m' / mm) := by
  intro r
  have hh : mm / 4 = 2 ^ e2 := by rw [hmm, pow_add]; norm_num
  have hmm4 : mm = 4 * 2 ^ e2 := by rw [hmm, pow_add]; ring
  have hnb : m' / mm = 2 ^ j := by
    rw [hm, hmm, pow_add]; exact Nat.mul_div_cancel _ (Nat.two_pow_pos _)
  have hm' : m' = 2 ^ j * mm := by rw [hm, hmm, pow_add]
  have hr : r = (iterFrom (fun b s => bitwiddle F T (t + 4 * b) (mm / 4) (off + b * mm) s) (m' / mm) 0 s0,
      t + 4 * (m' / mm)) :=
    iter_counter (fun b t s => bitwiddle F T t (mm / 4) (off + b * mm) s) 4 (m' / mm) s0 t
  rw [hr]
  simp only
  rw [List.map_flatMap] at hT
  have hseg := SegP.flatMap (T := T) (t := t) _ 4 (m' / mm) (fun b => by simp [eP]) hT
  have hct := ctK_big F k (by omega)
  have hcit := citK_big F k (by omega)
  have cA : clv (k - (ℓ0 + j)) = false := by
    rw [show k - (ℓ0 + j) = e2 + 2 by omega]; unfold clv
    have : (e2 + 2) % 2 = 0 := by omega
    simp [this]; omega
  have cB : clv (k - (ℓ0 + j + 1)) = true := by
    rw [show k - (ℓ0 + j + 1) = e2 + 1 by omega]; unfold clv
    have : (e2 + 1) % 2 = 1 := by omega
    simp [this]; omega
  have sw := sweepN (VN (gNet F c s k) a (ℓ0 + j) (e2 + 2)) (VN (gNet F c s k) a (ℓ0 + j + 2) e2)
    (fun b s => bitwiddle F T (t + 4 * b) (mm / 4) (off + b * mm) s) N off mm (m' / mm)
    (fun b s1 hb hs1 => by
      have hb' : b < 2 ^ j := by omega
      have hsb := hseg b hb
      rw [List.map_append, show t + b * 4 = t + 4 * b by ring] at hsb
      have e := ReimFwd.r4_exps ℓ0 j e2 b0 b k mm hb' hk hmm
      obtain ⟨r0, r1⟩ := read_ePN c s T (t + 4 * b) _ hsb.left
      obtain ⟨r2, r3⟩ := read_ePN c s T (t + 4 * b + 2) _ (by simpa [eP] using hsb.right)
      rw [e.1] at r0 r1
      rw [e.2] at r2 r3
      rw [show t + 4 * b + 2 + 1 = t + 4 * b + 3 by ring] at r3
      have hbm' : b * mm + mm ≤ 2 ^ j * mm := by
        have : (b + 1) * mm ≤ 2 ^ j * mm := Nat.mul_le_mul_right _ hb'
        rw [Nat.add_mul] at this; omega
      have := bitwiddle_advN (gNet F c s k) a F T (t + 4 * b) N (ℓ0 + j) e2 (b0 * 2 ^ j + b) (off + b * mm) (mm / 4)
        s1 hs1 hh (by rw [hh, hoff, hm', hmm4]; ring) (by rw [hh, ← hmm4]; omega)
        (by rw [gNet_ct F c s k (ℓ0 + j) (e2 + 1) _ (Or.inl cA), hct, r0, r1])
        (by rw [gNet_ct F c s k (ℓ0 + j + 1) e2 _ (Or.inr (by omega)), hct, r2, r3])
        (by rw [gNet_cit F c s k (ℓ0 + j + 1) e2 _ cB, hcit, r2, r3])
      rw [show 4 * (mm / 4) = mm by omega] at this
      exact this) s0 hs
  refine ⟨sw.1.of_eq rfl (by rw [hnb, hm']), sw.2, trivial⟩

/-- the `while (mm > 16)` loop of `bfs16`: all radix-4 levels down to blocks of 16 -/
theorem bfsLevels_specN (T : Array R) (N ℓ0 D b0 off m' : ℕ) (hD11 : D ≤ 11)
    (hk : k = ℓ0 + D) (hm : m' = 2 ^ D) (hoff : off = m' * b0) (hN : off + m' ≤ N) :
    ∀ i fuel j mm ss (s0 : RI R) (t : ℕ), j + (4 + 2 * i) = D → mm = 2 ^ (4 + 2 * i) → mm ≤ fuel →
      ss = mm * (1 + 4 * brev ℓ0 b0) → Valid N s0 →
      SegP T t ((rBfsLevels (4 * 2 ^ k) m' fuel mm ss).map (valP c s)) →
      AdvN (gNet F c s k) a (prs s0) (prs (bfsLevels F T m' off fuel mm (s0, t)).1) (ℓ0 + j) (4 + 2 * i)
          (ℓ0 + j + 2 * i) 4 off m' ∧
        Valid N (bfsLevels F T m' off fuel mm (s0, t)).1 ∧
        SegP T (bfsLevels F T m' off fuel mm (s0, t)).2 (((List.range (m' / 16)).flatMap
          (fun b => rFill16 (4 * 2 ^ k) (16 * (1 + 4 * brev ℓ0 b0) + frbN (4 * 2 ^ k) b))).map (valP c s)) ∧
        (bfsLevels F T m' off fuel mm (s0, t)).2 + m' / 16 * 16 = t + (rBfsLevels (4 * 2 ^ k) m' fuel mm ss).length := by
  intro i
  induction i with
  | zero =>
    intro fuel j mm ss s0 t hj hmm hfuel hss hs hT
    have hmm16 : mm = 16 := by rw [hmm]; norm_num
    subst hmm16
    obtain ⟨f, rfl⟩ : ∃ f, fuel = f + 1 := ⟨fuel - 1, by omega⟩
    rw [bfsLevels, if_neg (by omega)]
    rw [rBfsLevels, if_neg (by omega), hss] at hT
    refine ⟨AdvN.cast _ _ (AdvG.id (VN (gNet F c s k) a (ℓ0 + j) 4) (prs s0) off m') (ℓ0 + j) (4 + 2 * 0) (ℓ0 + j + 2 * 0) 4
      rfl rfl rfl rfl, hs, hT, ?_⟩
    rw [rBfsLevels, if_neg (by omega), length_flatMap_const _ 16 _ (fun b => by simp [rFill16, eP, gam])]
  | succ i ih =>
    intro fuel j mm ss s0 t hj hmm hfuel hss hs hT
    obtain ⟨f, rfl⟩ : ∃ f, fuel = f + 1 := ⟨fuel - 1, by
      have : 0 < mm := by rw [hmm]; exact Nat.two_pow_pos _
      omega⟩
    have hmm' : mm = 2 ^ (4 + 2 * i + 2) := by rw [hmm]; congr 1
    have hmm4 : mm = 4 * 2 ^ (4 + 2 * i) := by rw [hmm', pow_add]; ring
    have hgt : mm > 16 := by
      have : 1 ≤ 2 ^ (2 * i) := Nat.one_le_two_pow
      rw [hmm4, pow_add]; omega
    have hq : mm / 4 = 2 ^ (4 + 2 * i) := by omega
    rw [bfsLevels, if_pos hgt]
    have hlenT : (rBfsLevels (4 * 2 ^ k) m' (f + 1) mm ss).length
        = 4 * (m' / mm) + (rBfsLevels (4 * 2 ^ k) m' f (mm / 4) (ss / 4)).length := by
      rw [rBfsLevels, if_pos hgt, List.length_append, length_flatMap_const _ 4 _ (fun b => by simp [eP])]; ring
    rw [rBfsLevels, if_pos hgt, List.map_append, hss] at hT
    have hm2 : m' = 2 ^ (j + (4 + 2 * i + 2)) := by rw [hm, ← hj]; congr 1
    have st := r4_specN F c s k a T N ℓ0 j (4 + 2 * i) b0 off m' mm t s0 hs (by omega) hm2 hmm' (by omega) (by omega) (by omega) hoff hN hT.left
    simp only at st
    obtain ⟨a1, v1, p1⟩ := st
    have hlen : (List.map (valP c s) ((List.range (m' / mm)).flatMap (fun b =>
        eP (2 * (mm * (1 + 4 * brev ℓ0 b0) / 4 + frbN (4 * 2 ^ k) b / 4)) ++
        eP (mm * (1 + 4 * brev ℓ0 b0) / 4 + frbN (4 * 2 ^ k) b / 4)))).length = 4 * (m' / mm) := by
      rw [List.length_map, length_flatMap_const _ 4 _ (fun b => by simp [eP])]; ring
    have hT2 := hT.right
    rw [hlen, ← p1] at hT2
    have hss4 : mm * (1 + 4 * brev ℓ0 b0) / 4 = mm / 4 * (1 + 4 * brev ℓ0 b0) := by
      rw [hmm4, Nat.mul_assoc, Nat.mul_div_cancel_left _ (by omega : 0 < 4), Nat.mul_div_cancel_left _ (by omega : 0 < 4)]
    rw [hss4] at hT2
    have nx := ih f (j + 2) (mm / 4) (mm / 4 * (1 + 4 * brev ℓ0 b0))
      (iterFrom (fun b (st : RI R × ℕ) => (bitwiddle F T st.2 (mm / 4) (off + b * mm) st.1, st.2 + 4))
        (m' / mm) 0 (s0, t)).1
      (iterFrom (fun b (st : RI R × ℕ) => (bitwiddle F T st.2 (mm / 4) (off + b * mm) st.1, st.2 + 4))
        (m' / mm) 0 (s0, t)).2 (by omega) hq (by omega) rfl v1 hT2
    obtain ⟨a2, v2, p2, q2⟩ := nx
    refine ⟨?_, v2, p2, ?_⟩
    swap
    · rw [q2, p1, hlenT, hss, hss4]; ring
    exact (AdvN.cast _ _ a1 (ℓ0 + j) (4 + 2 * (i + 1)) (ℓ0 + (j + 2)) (4 + 2 * i) rfl (by ring) (by ring) rfl).seq
      (AdvN.cast _ _ a2 (ℓ0 + (j + 2)) (4 + 2 * i) (ℓ0 + j + 2 * (i + 1)) 4 rfl rfl (by ring) rfl)


/-- `bfs16`: a region of size `m' = 2^D ≥ 32` whose table is `fill_reim_fft_bfs_16_omegas(m', entry power)` is taken
from level `ℓ0` to the last level -/
theorem bfs16_specN (T : Array R) (N ℓ0 D b0 off m' t : ℕ) (s0 : RI R)
    (hk : k = ℓ0 + D) (hm : m' = 2 ^ D) (hD : 5 ≤ D) (hD11 : D ≤ 11) (hb0 : D = 11 ∨ b0 = 0)
    (hoff : off = m' * b0) (hN : off + m' ≤ N) (hs : Valid N s0)
    (hT : SegP T t ((rBfs (4 * 2 ^ k) m' (m' * (1 + 4 * brev ℓ0 b0))).map (valP c s))) :
    AdvN (gNet F c s k) a (prs s0) (prs (bfs16 F T m' off (s0, t)).1) ℓ0 D k 0 off m' ∧
      Valid N (bfs16 F T m' off (s0, t)).1 ∧
      (bfs16 F T m' off (s0, t)).2 = t + (rBfs (4 * 2 ^ k) m' (m' * (1 + 4 * brev ℓ0 b0))).length := by
  have hlog : m'.log2 = D := by rw [hm]; exact Nat.log2_two_pow
  have h16 : m' / 16 * 16 = m' := by
    have : m' = 2 ^ (D - 4) * 16 := by
      rw [hm, show (16 : ℕ) = 2 ^ 4 by norm_num, ← pow_add 2 (D - 4) 4]; congr 1; omega
    omega
  obtain ⟨i, p, hp, hDi⟩ : ∃ i p, p < 2 ∧ D = 4 + 2 * i + p := ⟨(D - 4) / 2, (D - 4) % 2, by omega, by omega⟩
  unfold bfs16
  rw [rBfs, hlog] at hT
  rw [rBfs, hlog]
  by_cases hodd : D % 2 != 0
  · -- odd log: one twiddle pass first
    have hp1 : p = 1 := by simp at hodd; omega
    subst hp1
    rw [if_pos hodd] at hT ⊢
    rw [if_pos hodd]
    rw [List.map_append] at hT
    have hm2 : m' / 2 = 2 ^ (4 + 2 * i) := by rw [hm, hDi, pow_succ]; omega
    have hmm : m' = 2 * 2 ^ (4 + 2 * i) := by rw [hm, hDi, pow_succ]; ring
    have hpw : m' * (1 + 4 * brev ℓ0 b0) / 2 = m' / 2 * (1 + 4 * brev ℓ0 b0) := by
      rw [hmm, Nat.mul_assoc, Nat.mul_div_cancel_left _ (by omega : 0 < 2), Nat.mul_div_cancel_left _ (by omega : 0 < 2)]
    obtain ⟨w0, w1⟩ := read_ePN c s T t _ hT.left
    have hcl : clv (k - ℓ0) = false ∨ b0 % 2 = 0 := by
      rcases hb0 with h | h
      · left; rw [show k - ℓ0 = 11 by omega]; rfl
      · right; omega
    have s1 := twPass_advN (gNet F c s k) a F.ct N ℓ0 (4 + 2 * i) b0 off T[t]! T[t + 1]! s0 hs (by rw [hoff, hmm])
      (by omega) (by rw [gNet_ct F c s k ℓ0 _ b0 hcl, ctK_big F k (by omega), w0, w1, hpw, hm2, twE])
    rw [← hm2] at s1
    obtain ⟨a1, v1⟩ := s1
    have hT2 := hT.right
    simp only [List.length_map, eP, List.length_cons, List.length_nil] at hT2
    rw [hpw] at hT2
    have s2 := bfsLevels_specN F c s k a T N ℓ0 D b0 off m' hD11 hk hm hoff hN i m' 1 (m' / 2)
      (m' / 2 * (1 + 4 * brev ℓ0 b0)) _ (t + 2) (by omega) hm2 (by omega) rfl v1 hT2
    obtain ⟨a2, v2, p2, q2⟩ := s2
    have s3 := leaves_specN F c s k a T N ℓ0 (2 * i + 1) b0 off m' _ _ v2 (by omega) (by rw [hm, hDi]; congr 1; omega)
      hoff hN p2
    simp only at s3
    obtain ⟨a3, v3, p3⟩ := s3
    refine ⟨?_, v3, ?_⟩
    · have b1 := AdvN.cast _ _ a1 ℓ0 D (ℓ0 + 1) (4 + 2 * i) rfl (by omega) rfl rfl
      have b1' := b1.of_eq rfl (show m' = 2 * (m' / 2) by omega)
      have b2 := AdvN.cast _ _ a2 (ℓ0 + 1) (4 + 2 * i) (ℓ0 + (2 * i + 1)) 4 rfl rfl (by ring) rfl
      have b3 := AdvN.cast _ _ a3 (ℓ0 + (2 * i + 1)) 4 k 0 rfl rfl (by omega) rfl
      exact (b1'.seq b2).seq b3
    · rw [p3, List.length_append, hpw]
      simp only [eP, List.length_cons, List.length_nil]
      omega
  · -- even log
    have hp0 : p = 0 := by simp at hodd; omega
    subst hp0
    rw [if_neg hodd] at hT ⊢
    rw [if_neg hodd]
    have s2 := bfsLevels_specN F c s k a T N ℓ0 D b0 off m' hD11 hk hm hoff hN i m' 0 m'
      (m' * (1 + 4 * brev ℓ0 b0)) s0 t (by omega) (by rw [hm, hDi]; rfl) (by omega) rfl hs hT
    obtain ⟨a2, v2, p2, q2⟩ := s2
    have s3 := leaves_specN F c s k a T N ℓ0 (2 * i) b0 off m' _ _ v2 (by omega) (by rw [hm, hDi]; congr 1; omega)
      hoff hN p2
    simp only at s3
    obtain ⟨a3, v3, p3⟩ := s3
    refine ⟨?_, v3, ?_⟩
    · have b2 := AdvN.cast _ _ a2 ℓ0 D (ℓ0 + 2 * i) 4 (by omega) (by omega) (by ring) rfl
      have b3 := AdvN.cast _ _ a3 (ℓ0 + 2 * i) 4 k 0 rfl rfl (by omega) rfl
      exact b2.seq b3
    · rw [p3]; omega


theorem clv_big (r : ℕ) (h : 11 ≤ r) : clv r = false := by
  unfold clv
  have h1 : ¬ r ≤ 3 := by omega
  have h2 : ¬ r ≤ 10 := by omega
  simp [h1, h2]

/-- `rec16` -/
theorem rec16_specN (T : Array R) (N : ℕ) :
    ∀ fuel D ℓ0 b0 off m' t (s0 : RI R), k = ℓ0 + D → m' = 2 ^ D → 5 ≤ D → (b0 = 0 ∨ 11 ≤ D) → m' ≤ fuel →
      off = m' * b0 → off + m' ≤ N → Valid N s0 →
      SegP T t ((rRec (4 * 2 ^ k) fuel m' (m' * (1 + 4 * brev ℓ0 b0))).map (valP c s)) →
      AdvN (gNet F c s k) a (prs s0) (prs (rec16 F T fuel m' off (s0, t)).1) ℓ0 D k 0 off m' ∧
        Valid N (rec16 F T fuel m' off (s0, t)).1 ∧
        (rec16 F T fuel m' off (s0, t)).2 = t + (rRec (4 * 2 ^ k) fuel m' (m' * (1 + 4 * brev ℓ0 b0))).length := by
  intro fuel
  induction fuel with
  | zero =>
    intro D ℓ0 b0 off m' t s0 hk hm hD hinv hfuel
    have : 0 < m' := by rw [hm]; exact Nat.two_pow_pos _
    omega
  | succ f ih =>
    intro D ℓ0 b0 off m' t s0 hk hm hD hinv hfuel hoff hN hs hT
    rw [rec16]
    rw [rRec] at hT ⊢
    by_cases hle : m' ≤ 2048
    · rw [if_pos hle] at hT ⊢
      rw [if_pos hle]
      have hD11 : D ≤ 11 := by
        by_contra hc
        have : 2 ^ 12 ≤ 2 ^ D := Nat.pow_le_pow_right (by omega) (by omega)
        rw [← hm] at this; omega
      exact bfs16_specN F c s k a T N ℓ0 D b0 off m' t s0 hk hm hD hD11 (by omega) hoff hN hs hT
    · rw [if_neg hle] at hT ⊢
      rw [if_neg hle]
      obtain ⟨D1, rfl⟩ : ∃ D1, D = D1 + 1 := ⟨D - 1, by omega⟩
      have hD1 : 11 ≤ D1 := by
        by_contra hc
        have : D1 + 1 ≤ 11 := by omega
        have : 2 ^ (D1 + 1) ≤ 2 ^ 11 := Nat.pow_le_pow_right (by omega) this
        rw [← hm] at this; omega
      have hmm : m' = 2 * 2 ^ D1 := by rw [hm, pow_succ]; ring
      have hh : m' / 2 = 2 ^ D1 := by omega
      have hpw : m' * (1 + 4 * brev ℓ0 b0) / 2 = m' / 2 * (1 + 4 * brev ℓ0 b0) := by
        rw [hmm, Nat.mul_assoc, Nat.mul_div_cancel_left _ (by omega : 0 < 2),
          Nat.mul_div_cancel_left _ (by omega : 0 < 2)]
      rw [List.map_append, List.map_append] at hT
      obtain ⟨w0, w1⟩ := read_ePN c s T t _ hT.left.left
      have hcl : clv (k - ℓ0) = false := clv_big _ (by omega)
      have s1 := twPass_advN (gNet F c s k) a F.ct N ℓ0 D1 b0 off T[t]! T[t + 1]! s0 hs (by rw [hoff, hmm]) (by omega)
        (by rw [gNet_ct F c s k ℓ0 _ b0 (Or.inl hcl), ctK_big F k (by omega), w0, w1, hpw, hh, twE])
      rw [← hh] at s1
      obtain ⟨a1, v1⟩ := s1
      -- left half
      have hTL := hT.left.right
      rw [show (List.map (valP c s) (eP (m' * (1 + 4 * brev ℓ0 b0) / 2))).length = 2 by simp [eP]] at hTL
      have hpL : m' * (1 + 4 * brev ℓ0 b0) / 2 = m' / 2 * (1 + 4 * brev (ℓ0 + 1) (2 * b0)) := by
        rw [hpw, brev_even]
      rw [hpL] at hTL
      have s2 := ih D1 (ℓ0 + 1) (2 * b0) off (m' / 2) (t + 2) _ (by omega) hh (by omega) (Or.inr hD1) (by omega)
        (by rw [hoff, hh, hmm]; ring) (by omega) v1 hTL
      obtain ⟨a2, v2, p2⟩ := s2
      -- right half
      have hTR := hT.right
      rw [List.length_append, List.length_map, List.length_map,
        show (eP (m' * (1 + 4 * brev ℓ0 b0) / 2)).length = 2 by simp [eP]] at hTR
      have hpR : m' * (1 + 4 * brev ℓ0 b0) / 2 + 4 * 2 ^ k / 2 = m' / 2 * (1 + 4 * brev (ℓ0 + 1) (2 * b0 + 1)) := by
        rw [hpw, brev_odd, hk, hh, pow_add, pow_succ]
        have : 4 * (2 ^ ℓ0 * (2 ^ D1 * 2)) / 2 = 4 * (2 ^ ℓ0 * 2 ^ D1) := by
          rw [show 4 * (2 ^ ℓ0 * (2 ^ D1 * 2)) = 2 * (4 * (2 ^ ℓ0 * 2 ^ D1)) by ring]
          exact Nat.mul_div_cancel_left _ (by omega)
        rw [this]; ring
      rw [hpR, hpL, ← Nat.add_assoc, ← p2] at hTR
      have s3 := ih D1 (ℓ0 + 1) (2 * b0 + 1) (off + m' / 2) (m' / 2) _ _ (by omega) hh (by omega) (Or.inr hD1) (by omega)
        (by rw [hoff, hh, hmm]; ring) (by omega) v2 hTR
      obtain ⟨a3, v3, p3⟩ := s3
      refine ⟨?_, v3, ?_⟩
      · have b1 := (a1.of_eq rfl (show m' = 2 * (m' / 2) by omega))
        have b23 := (a2.par a3).of_eq rfl (show m' = m' / 2 + m' / 2 by omega)
        exact b1.seq b23
      · rw [p3, p2, List.length_append, List.length_append, hpR, hpL]
        simp only [eP, List.length_cons, List.length_nil]
        omega

end Spq.Fft.SchedN
