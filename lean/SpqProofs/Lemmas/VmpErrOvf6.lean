/-
  No-overflow from a magnitude box, step 6: the pointwise product, and the whole `fft64_znx_small_single_product`
  pipeline: `PipeOkU` (the UNDERFLOW-only flags, stage by stage) + the coefficient box `|a_i|, |b_i| < 2^50` + stored
  twiddles bounded by 1 ⇒ `ProdErr.PipeOk` (the full flag hypothesis of `C01Err`), for every `k ≤ 100`.
  Magnitudes: `2^50` → forward `2^(50+3k)` → product `2^(102+6k)` → inverse `2^(102+9k) < 2^1023`.
-/
import SpqProofs.Lemmas.VmpErrOvf5
import SpqProofs.Lemmas.ProdErrPipe
set_option linter.unusedSectionVars false
namespace Spq.VmpErr
open Spq Spq.F64 Spq.Fft Spq.Fft.Alg Spq.Fft.RelN Spq.FftErr Spq.Reim4 Spq.ProdErr Spq.Module

theorem bd_mul {U1 U2 V : ℚ} {x y : ℚ × Prop} (hx : Bd U1 x) (hy : Bd U2 y) (hlt : U1 * U2 < Tov)
    (hV : U1 * U2 * (9 / 8) ≤ V) : Bd V (arithB.mul x y) := by
  obtain ⟨p1, n1, b1⟩ := hx
  obtain ⟨p2, n2, b2⟩ := hy
  have h1 : x.1 * y.1 ≤ U1 * U2 := mul_le_mul b1 b2 n2 (le_trans n1 b1)
  refine ⟨⟨p1, p2, lt_of_le_of_lt h1 hlt⟩, mul_nonneg (mul_nonneg n1 n2) (le_of_lt kap_pos), ?_⟩
  show x.1 * y.1 * kap ≤ V
  exact le_trans (mul_le_mul_of_nonneg_right h1 (le_of_lt kap_pos))
    (scale_le (mul_nonneg (le_trans n1 b1) (le_trans n2 b2)) hV)

theorem bd_fma {U1 U2 U3 V : ℚ} {x y z : ℚ × Prop} (hx : Bd U1 x) (hy : Bd U2 y) (hz : Bd U3 z)
    (hlt : U1 * U2 + U3 < Tov) (hV : (U1 * U2 + U3) * (9 / 8) ≤ V) :
    Bd V (arithB.fma x y z) ∧ Bd V (arithB.fms x y z) := by
  obtain ⟨p1, n1, b1⟩ := hx
  obtain ⟨p2, n2, b2⟩ := hy
  obtain ⟨p3, n3, b3⟩ := hz
  have h1 : x.1 * y.1 ≤ U1 * U2 := mul_le_mul b1 b2 n2 (le_trans n1 b1)
  have h0 : 0 ≤ U1 * U2 + U3 := add_nonneg (mul_nonneg (le_trans n1 b1) (le_trans n2 b2)) (le_trans n3 b3)
  have a1 : Bd V (((x.1 * y.1 + z.1) * kap, x.2 ∧ y.2 ∧ z.2 ∧ x.1 * y.1 + z.1 < Tov) : ℚ × Prop) := by
    refine ⟨⟨p1, p2, p3, by linarith⟩, mul_nonneg (add_nonneg (mul_nonneg n1 n2) n3) (le_of_lt kap_pos), ?_⟩
    show (x.1 * y.1 + z.1) * kap ≤ V
    exact le_trans (mul_le_mul_of_nonneg_right (add_le_add h1 b3) (le_of_lt kap_pos)) (scale_le h0 hV)
  exact ⟨a1, a1⟩

/-- the projections of the product arithmetic (kernel record) -/
theorem sim_fst : RArith.Sim (fun (Z : (ℕ × Prop) × (ℚ × Prop)) (Y : ℕ × Prop) => Z.1 = Y) arithUB arithU where
  zero := rfl
  add := fun h1 h2 => by subst h1 h2; rfl
  sub := fun h1 h2 => by subst h1 h2; rfl
  mul := fun h1 h2 => by subst h1 h2; rfl
  fma := fun h1 h2 h3 => by subst h1 h2 h3; rfl
  fms := fun h1 h2 h3 => by subst h1 h2 h3; rfl

theorem sim_snd : RArith.Sim (fun (Z : (ℕ × Prop) × (ℚ × Prop)) (W : ℚ × Prop) => Z.2 = W) arithUB arithB where
  zero := rfl
  add := fun h1 h2 => by subst h1 h2; rfl
  sub := fun h1 h2 => by subst h1 h2; rfl
  mul := fun h1 h2 => by subst h1 h2; rfl
  fma := fun h1 h2 h3 => by subst h1 h2 h3; rfl
  fms := fun h1 h2 h3 => by subst h1 h2 h3; rfl

/-- one complex product on the bound arithmetic: `≤ 4·Ua·Ub` -/
theorem cell_bd (fma : Bool) (Ua Ub : ℚ) (hUa : 0 ≤ Ua) (hUb : 0 ≤ Ub) (hT : 4 * (Ua * Ub) < Tov)
    (x y u v : ℚ × Prop) (hx : Bd Ua x) (hy : Bd Ua y) (hu : Bd Ub u) (hv : Bd Ub v) :
    Bd (4 * (Ua * Ub)) (cellRe arithB fma x y u v) ∧ Bd (4 * (Ua * Ub)) (cellIm arithB fma x y u v) := by
  have hP : 0 ≤ Ua * Ub := mul_nonneg hUa hUb
  cases fma with
  | false =>
    simp only [cellRe, cellIm, Bool.false_eq_true, if_false, reRef, imRef]
    have m1 := bd_mul (V := 9 / 8 * (Ua * Ub)) hx hu (by linarith) (by linarith)
    have m2 := bd_mul (V := 9 / 8 * (Ua * Ub)) hy hv (by linarith) (by linarith)
    have m3 := bd_mul (V := 9 / 8 * (Ua * Ub)) hx hv (by linarith) (by linarith)
    have m4 := bd_mul (V := 9 / 8 * (Ua * Ub)) hy hu (by linarith) (by linarith)
    exact ⟨bd_sub m1 m2 (by linarith) (by linarith), bd_add m3 m4 (by linarith) (by linarith)⟩
  | true =>
    simp only [cellRe, cellIm, if_true]
    have m1 := bd_mul (V := 9 / 8 * (Ua * Ub)) hy hv (by linarith) (by linarith)
    have m2 := bd_mul (V := 9 / 8 * (Ua * Ub)) hx hv (by linarith) (by linarith)
    exact ⟨(bd_fma hx hu m1 (by linarith) (by linarith)).2, (bd_fma hy hu m2 (by linarith) (by linarith)).1⟩

theorem lift_getD (x : Array ℕ) (i : ℕ) : (x.map lift).getD i (lift 0) = lift (x.getD i 0) := getD_map lift x i 0

/-- **pointwise product**: underflow-only flags + bounds ⇒ full flags, finite outputs bounded by `4·Ua·Ub` -/
theorem mul_no_ovf (fma : Bool) (m : ℕ) (hm : fma = true → m % 4 = 0) (a b : Array ℕ) (Ua Ub : ℚ) (hUa : 0 ≤ Ua)
    (hUb : 0 ≤ Ub) (ha : ∀ p, p < 2 * m → |val (a.getD p 0)| ≤ Ua) (hb : ∀ p, p < 2 * m → |val (b.getD p 0)| ≤ Ub)
    (hT : 4 * (Ua * Ub) < Tov)
    (hokU : ∀ p, p < 2 * m → ((mulA arithU fma m (a.map lift) (b.map lift)).getD p arithU.zero).2) :
    ∀ p, p < 2 * m →
      ((mulA arithOk fma m (a.map lift) (b.map lift)).getD p arithOk.zero).2 ∧
      Fin64 ((mulA F64.arith fma m a b).getD p 0) ∧ |val ((mulA F64.arith fma m a b).getD p 0)| ≤ 4 * (Ua * Ub) := by
  have key : ∀ j, j < m →
      (((mulA arithU fma m (a.map lift) (b.map lift)).getD j arithU.zero).2 →
        ((mulA arithOk fma m (a.map lift) (b.map lift)).getD j arithOk.zero).2 ∧
        Fin64 ((mulA F64.arith fma m a b).getD j 0) ∧ |val ((mulA F64.arith fma m a b).getD j 0)| ≤ 4 * (Ua * Ub)) ∧
      (((mulA arithU fma m (a.map lift) (b.map lift)).getD (j + m) arithU.zero).2 →
        ((mulA arithOk fma m (a.map lift) (b.map lift)).getD (j + m) arithOk.zero).2 ∧
        Fin64 ((mulA F64.arith fma m a b).getD (j + m) 0) ∧
        |val ((mulA F64.arith fma m a b).getD (j + m) 0)| ≤ 4 * (Ua * Ub)) := by
    intro j hj
    obtain ⟨c1, c2⟩ := (mulA_cells arithOk fma m hm (a.map lift) (b.map lift)).2 j hj
    obtain ⟨d1, d2⟩ := (mulA_cells arithU fma m hm (a.map lift) (b.map lift)).2 j hj
    obtain ⟨e1, e2⟩ := (mulA_cells F64.arith fma m hm a b).2 j hj
    have z1 : arithOk.zero = lift 0 := rfl
    have z2 : arithU.zero = lift 0 := rfl
    have z3 : F64.arith.zero = 0 := rfl
    rw [z1] at c1 c2
    rw [z2] at d1 d2
    rw [z3] at e1 e2
    simp only [lift_getD] at c1 c2 d1 d2
    -- the relations
    have rl : ∀ (x : Array ℕ) (i : ℕ) (U : ℚ), 0 ≤ U → |val (x.getD i 0)| ≤ U →
        RlO (lift (x.getD i 0)) (lift (x.getD i 0), (U, True)) := fun x i U hU h => rlO_lift _ U hU (fun _ => h)
    have A1 := rl a j Ua hUa (ha j (by omega))
    have A2 := rl a (j + m) Ua hUa (ha (j + m) (by omega))
    have B1 := rl b j Ub hUb (hb j (by omega))
    have B2 := rl b (j + m) Ub hUb (hb (j + m) (by omega))
    have bdA : Bd Ua ((Ua, True) : ℚ × Prop) := ⟨trivial, hUa, le_refl _⟩
    have bdB : Bd Ub ((Ub, True) : ℚ × Prop) := ⟨trivial, hUb, le_refl _⟩
    obtain ⟨k1, k2⟩ := cell_bd fma Ua Ub hUa hUb hT _ _ _ _ bdA bdA bdB bdB
    have s0 : ∀ (x : Array ℕ) (i : ℕ), (lift (x.getD i 0)).1 = x.getD i 0 := fun _ _ => rfl
    constructor
    · intro hf
      rw [z2, d1] at hf
      have q := cellRe_sim simO fma A1 A2 B1 B2
      have p1 := cellRe_sim sim_fst fma (x := (lift (a.getD j 0), (Ua, True))) (y := (lift (a.getD (j + m) 0), (Ua, True)))
        (u := (lift (b.getD j 0), (Ub, True))) (v := (lift (b.getD (j + m) 0), (Ub, True))) rfl rfl rfl rfl
      have p2 := cellRe_sim sim_snd fma (x := (lift (a.getD j 0), (Ua, True))) (y := (lift (a.getD (j + m) 0), (Ua, True)))
        (u := (lift (b.getD j 0), (Ub, True))) (v := (lift (b.getD (j + m) 0), (Ub, True))) rfl rfl rfl rfl
      have p0 := cellRe_sim arithOk_sim_arith fma (s0 a j) (s0 a (j + m)) (s0 b j) (s0 b (j + m))
      rw [← p1] at hf
      rw [← p2] at k1
      obtain ⟨x1, x2, x3⟩ := q.2.2 hf k1.1
      rw [z1, c1, e1, ← p0]
      exact ⟨x1, x2, le_trans x3 k1.2.2⟩
    · intro hf
      rw [z2, d2] at hf
      have q := cellIm_sim simO fma A1 A2 B1 B2
      have p1 := cellIm_sim sim_fst fma (x := (lift (a.getD j 0), (Ua, True))) (y := (lift (a.getD (j + m) 0), (Ua, True)))
        (u := (lift (b.getD j 0), (Ub, True))) (v := (lift (b.getD (j + m) 0), (Ub, True))) rfl rfl rfl rfl
      have p2 := cellIm_sim sim_snd fma (x := (lift (a.getD j 0), (Ua, True))) (y := (lift (a.getD (j + m) 0), (Ua, True)))
        (u := (lift (b.getD j 0), (Ub, True))) (v := (lift (b.getD (j + m) 0), (Ub, True))) rfl rfl rfl rfl
      have p0 := cellIm_sim arithOk_sim_arith fma (s0 a j) (s0 a (j + m)) (s0 b j) (s0 b (j + m))
      rw [← p1] at hf
      rw [← p2] at k2
      obtain ⟨x1, x2, x3⟩ := q.2.2 hf k2.1
      rw [z1, c2, e2, ← p0]
      exact ⟨x1, x2, le_trans x3 k2.2.2⟩
  intro p hp
  by_cases hlt : p < m
  · exact (key p hlt).1 (hokU p hp)
  · obtain ⟨j, rfl⟩ : ∃ j, p = j + m := ⟨p - m, by omega⟩
    exact (key j (by omega)).2 (hokU (j + m) hp)

end Spq.VmpErr
