/-
  Non-vacuity witness (`k = 2`, `m = 4`, `N = 8`), part 2: the STORED twiddle tables and their accuracy.

  The binary64 patterns below are what `new_reim_fft_precomp(4)` / `new_reim_ifft_precomp(4)` of the library store
  (read from the running library; the same eight patterns open the `m = 8` tables):
     forward  `[cos(π/4), sin(π/4), cos(π/8), sin(π/8)]`   = `[pC4, pS4, pC8, pS8]`
     inverse  `[cos(π/8), −sin(π/8), cos(π/4), −sin(π/4)]` = `[pC8, pNS8, pC4, pNS4]`.
  Measured distance from the exact values, in units of `u = 2^-53`:
     `pC4: +0.435`, `pS4: −0.565` (NOT the correctly rounded `√2/2`: the library evaluates `sin(2π·0.125)`),
     `pC8: −0.159`, `pS8: +0.091`.   Proved here: every component is within `1u`, hence every stored pair is within
  `√2·u < 3.5u` of `ζ^e` as a complex number — `hcs`/`hcsi` in exactly the form required by C06Err/C01Err/C02Err/C16Err.

  The network of `m = 4` uses the exponents `twE 0 1 0 = 2`, `twE 1 0 0 = 1`, `twE 1 0 1 = 5`.  Exponent `5` is NOT in the
  table (`reimFftEnts 4` holds exponents 2 and 1 only): the kernel runs the `i·ω` butterfly with the entry of exponent 1.
  The theorems nevertheless ask `hcs` for it; it is satisfied by the virtual entry `(cN 5, sN 5) = (−sN 1, cN 1)`.
-/
import SpqProofs.Lemmas.ErrWitnessRoot
set_option linter.unusedSectionVars false
namespace Spq.ErrWitness
open Spq.Fft Spq.Fft.Alg Spq.Fft.SchedN Spq.FftErr Spq.F64

/-! ### the stored patterns -/
def pC4 : ℕ := 4604544271217802189   -- 0.70710678118654757
def pS4 : ℕ := 4604544271217802188   -- 0.70710678118654746
def pC8 : ℕ := 4606496786581982534   -- 0.92387953251128674
def pS8 : ℕ := 4600565431771507043   -- 0.38268343236508978
def pNS8 : ℕ := 13823937468626282851 -- −0.38268343236508978
def pNS4 : ℕ := 13827916308072577996 -- −0.70710678118654746
def pNC8 : ℕ := 13829868823436758342 -- −0.92387953251128674 (virtual: exponent 5 of the inverse table)

/-- forward table, by exponent -/
def cN (e : ℕ) : ℕ := if e = 1 then pC8 else if e = 2 then pC4 else if e = 5 then pNS8 else 0
def sN (e : ℕ) : ℕ := if e = 1 then pS8 else if e = 2 then pS4 else if e = 5 then pC8 else 0
/-- inverse table, by exponent (kind 2 entries, `−sin`, are read through `sNi`) -/
def cNi (e : ℕ) : ℕ := if e = 1 then pC8 else if e = 2 then pC4 else if e = 5 then pNS8 else 0
def sNi (e : ℕ) : ℕ := if e = 1 then pNS8 else if e = 2 then pNS4 else if e = 5 then pNC8 else 0

/-- the table the theorems talk about IS the table the library stores for `m = 4` (forward) -/
theorem tabF_lib : ((reimFftEnts (2 ^ 2)).map (valP cN sN)).toArray =
    #[4604544271217802189, 4604544271217802188, 4606496786581982534, 4600565431771507043] := by decide

/-- … and inverse -/
theorem tabI_lib : ((reimIfftEnts (2 ^ 2)).map (valP cNi sNi)).toArray =
    #[4606496786581982534, 13823937468626282851, 4604544271217802189, 13827916308072577996] := by decide

/-! ### exact rational values of the patterns -/

theorem val_pos_pat (b m : ℕ) (e : ℤ) (h : decode b = ⟨false, m, e⟩) : val b = (m : ℚ) * 2 ^ e := by
  rw [val_of_decode h]; simp [sv, sI]

theorem val_neg_pat (b m : ℕ) (e : ℤ) (h : decode b = ⟨true, m, e⟩) : val b = -((m : ℚ) * 2 ^ e) := by
  rw [val_of_decode h]; simp [sv, sI]

theorem val_pC4 : val pC4 = 6369051672525773 / 9007199254740992 := by
  rw [val_pos_pat pC4 6369051672525773 (-53) rfl]; norm_num
theorem val_pS4 : val pS4 = 6369051672525772 / 9007199254740992 := by
  rw [val_pos_pat pS4 6369051672525772 (-53) rfl]; norm_num
theorem val_pC8 : val pC8 = 8321567036706118 / 9007199254740992 := by
  rw [val_pos_pat pC8 8321567036706118 (-53) rfl]; norm_num
theorem val_pS8 : val pS8 = 6893811853601123 / 18014398509481984 := by
  rw [val_pos_pat pS8 6893811853601123 (-54) rfl]; norm_num
theorem val_pNS8 : val pNS8 = -(6893811853601123 / 18014398509481984) := by
  rw [val_neg_pat pNS8 6893811853601123 (-54) rfl]; norm_num
theorem val_pNS4 : val pNS4 = -(6369051672525772 / 9007199254740992) := by
  rw [val_neg_pat pNS4 6369051672525772 (-53) rfl]; norm_num
theorem val_pNC8 : val pNC8 = -(8321567036706118 / 9007199254740992) := by
  rw [val_neg_pat pNC8 8321567036706118 (-53) rfl]; norm_num

/-! ### every stored component is within `1u = 2^-53` of the exact value -/

theorem close_C8 : |(((val pC8 : ℚ)) : ℝ) - Real.cos (Real.pi / 8)| ≤ 1 / 9007199254740992 := by
  rw [val_pC8]
  obtain ⟨h1, h2⟩ := cos8_encl (8321567036706117 / 9007199254740992) (8321567036706119 / 9007199254740992)
    (by norm_num) (by norm_num) (by norm_num) (by norm_num)
  rw [abs_le]; push_cast; constructor <;> linarith

theorem close_S8 : |(((val pS8 : ℚ)) : ℝ) - Real.sin (Real.pi / 8)| ≤ 1 / 9007199254740992 := by
  rw [val_pS8]
  obtain ⟨h1, h2⟩ := sin8_encl (6893811853601121 / 18014398509481984) (6893811853601125 / 18014398509481984)
    (by norm_num) (by norm_num) (by norm_num) (by norm_num)
  rw [abs_le]; push_cast; constructor <;> linarith

theorem close_C4 : |(((val pC4 : ℚ)) : ℝ) - Real.cos (Real.pi / 4)| ≤ 1 / 9007199254740992 := by
  rw [val_pC4, Real.cos_pi_div_four]
  obtain ⟨h1, h2⟩ := cs4_encl (6369051672525772 / 9007199254740992) (6369051672525773 / 9007199254740992)
    (by norm_num) (by norm_num) (by norm_num)
  rw [abs_le]; push_cast; constructor <;> linarith

theorem close_S4 : |(((val pS4 : ℚ)) : ℝ) - Real.sin (Real.pi / 4)| ≤ 1 / 9007199254740992 := by
  rw [val_pS4, Real.sin_pi_div_four]
  obtain ⟨h1, h2⟩ := cs4_encl (6369051672525772 / 9007199254740992) (6369051672525773 / 9007199254740992)
    (by norm_num) (by norm_num) (by norm_num)
  rw [abs_le]; push_cast; constructor <;> linarith

theorem val_neg_cast {a b : ℕ} {q : ℚ} (ha : val a = q) (hb : val b = -q) : ((val b : ℚ) : ℝ) = -((val a : ℚ) : ℝ) := by
  rw [ha, hb]; push_cast; ring

theorem vNS8 : ((val pNS8 : ℚ) : ℝ) = -((val pS8 : ℚ) : ℝ) := val_neg_cast val_pS8 val_pNS8
theorem vNS4 : ((val pNS4 : ℚ) : ℝ) = -((val pS4 : ℚ) : ℝ) := val_neg_cast val_pS4 val_pNS4
theorem vNC8 : ((val pNC8 : ℚ) : ℝ) = -((val pC8 : ℚ) : ℝ) := val_neg_cast val_pC8 val_pNC8

/-- two components within `1u` ⇒ the pair is within `3.5u` as a complex number (`2 ≤ 12.25`) -/
theorem pair_close (C S c s : ℝ) (hc : |C - c| ≤ 1 / 9007199254740992) (hs : |S - s| ≤ 1 / 9007199254740992) :
    nsq (toC (C, S) - (⟨c, s⟩ : Cplx ℝ)) ≤ (((7 / 2 * u64 : ℚ)) : ℝ) ^ 2 := by
  have hu : (((7 / 2 * u64 : ℚ)) : ℝ) = 7 / 2 * (1 / 9007199254740992) := by
    unfold u64; push_cast; norm_num
  rw [hu]
  simp only [nsq, toC, QuadraticAlgebra.re_sub, QuadraticAlgebra.im_sub]
  have h1 : (C - c) ^ 2 ≤ (1 / 9007199254740992) ^ 2 := by
    rw [← sq_abs]; exact pow_le_pow_left₀ (abs_nonneg _) hc 2
  have h2 : (S - s) ^ 2 ≤ (1 / 9007199254740992) ^ 2 := by
    rw [← sq_abs]; exact pow_le_pow_left₀ (abs_nonneg _) hs 2
  nlinarith

theorem abs_neg_sub_neg (a b : ℝ) : |-a - -b| = |a - b| := by
  rw [← abs_neg]; congr 1; ring

/-! ### `hcs`, `hcsi` -/

/-- forward table, per exponent -/
theorem tw1 : nsq (toC (((val (cN 1) : ℚ) : ℝ), ((val (sN 1) : ℚ) : ℝ)) - zeta ^ 1) ≤ (((7 / 2 * u64 : ℚ)) : ℝ) ^ 2 := by
  rw [zeta_pow1]; exact pair_close _ _ _ _ close_C8 close_S8
theorem tw2 : nsq (toC (((val (cN 2) : ℚ) : ℝ), ((val (sN 2) : ℚ) : ℝ)) - zeta ^ 2) ≤ (((7 / 2 * u64 : ℚ)) : ℝ) ^ 2 := by
  rw [zeta_pow2]; exact pair_close _ _ _ _ close_C4 close_S4
theorem tw5 : nsq (toC (((val (cN 5) : ℚ) : ℝ), ((val (sN 5) : ℚ) : ℝ)) - zeta ^ 5) ≤ (((7 / 2 * u64 : ℚ)) : ℝ) ^ 2 := by
  rw [zeta_pow5]
  refine pair_close _ _ _ _ ?_ close_C8
  show |((val pNS8 : ℚ) : ℝ) - _| ≤ _
  rw [vNS8, abs_neg_sub_neg]; exact close_S8

/-- inverse table, per exponent -/
theorem twi1 : nsq (toC (((val (cNi 1) : ℚ) : ℝ), ((val (sNi 1) : ℚ) : ℝ)) - zetai ^ 1) ≤ (((7 / 2 * u64 : ℚ)) : ℝ) ^ 2 := by
  rw [zetai_pow1]
  refine pair_close _ _ _ _ close_C8 ?_
  show |((val pNS8 : ℚ) : ℝ) - _| ≤ _
  rw [vNS8, abs_neg_sub_neg]; exact close_S8
theorem twi2 : nsq (toC (((val (cNi 2) : ℚ) : ℝ), ((val (sNi 2) : ℚ) : ℝ)) - zetai ^ 2) ≤ (((7 / 2 * u64 : ℚ)) : ℝ) ^ 2 := by
  rw [zetai_pow2]
  refine pair_close _ _ _ _ close_C4 ?_
  show |((val pNS4 : ℚ) : ℝ) - _| ≤ _
  rw [vNS4, abs_neg_sub_neg]; exact close_S4
theorem twi5 : nsq (toC (((val (cNi 5) : ℚ) : ℝ), ((val (sNi 5) : ℚ) : ℝ)) - zetai ^ 5) ≤ (((7 / 2 * u64 : ℚ)) : ℝ) ^ 2 := by
  rw [zetai_pow5]
  refine pair_close _ _ _ _ ?_ ?_
  · show |((val pNS8 : ℚ) : ℝ) - _| ≤ _
    rw [vNS8, abs_neg_sub_neg]; exact close_S8
  · show |((val pNC8 : ℚ) : ℝ) - _| ≤ _
    rw [vNC8, abs_neg_sub_neg]; exact close_C8

/-- the exponents of the `m = 4` network -/
theorem twE_cases (ℓ d b : ℕ) (h : ℓ + d + 1 = 2) (hb : b < 2 ^ ℓ) : twE ℓ d b = 2 ∨ twE ℓ d b = 1 ∨ twE ℓ d b = 5 := by
  obtain rfl | rfl : ℓ = 0 ∨ ℓ = 1 := by omega
  · obtain rfl : d = 1 := by omega
    obtain rfl : b = 0 := by simpa using hb
    left; decide
  · obtain rfl : d = 0 := by omega
    obtain rfl | rfl : b = 0 ∨ b = 1 := by norm_num at hb; omega
    · right; left; decide
    · right; right; decide

/-- **`hcs`** for the stored forward table of `m = 4`, in the form the theorems require -/
theorem hcs4 : ∀ ℓ d b, ℓ + d + 1 = 2 → b < 2 ^ ℓ →
    nsq (toC (((val (cN (twE ℓ d b)) : ℚ) : ℝ), ((val (sN (twE ℓ d b)) : ℚ) : ℝ)) - zeta ^ twE ℓ d b) ≤
      (((7 / 2 * u64 : ℚ)) : ℝ) ^ 2 := by
  intro ℓ d b h hb
  rcases twE_cases ℓ d b h hb with e | e | e <;> rw [e]
  exacts [tw2, tw1, tw5]

/-- **`hcsi`** for the stored inverse table of `m = 4` -/
theorem hcsi4 : ∀ ℓ d b, ℓ + d + 1 = 2 → b < 2 ^ ℓ →
    nsq (toC (((val (cNi (twE ℓ d b)) : ℚ) : ℝ), ((val (sNi (twE ℓ d b)) : ℚ) : ℝ)) - zetai ^ twE ℓ d b) ≤
      (((7 / 2 * u64 : ℚ)) : ℝ) ^ 2 := by
  intro ℓ d b h hb
  rcases twE_cases ℓ d b h hb with e | e | e <;> rw [e]
  exacts [twi2, twi1, twi5]

end Spq.ErrWitness
