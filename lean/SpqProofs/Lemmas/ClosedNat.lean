/-
  Closing C01/C02/C16 over the real FFT network, step 1: NATURALITY of the butterfly network.

  The network of `Spq.Fft` (`reimFftA`, `reimIfftA`) is written once over an arithmetic record `Arith α`.
  If `f : A → B` commutes with the arithmetic operations of two records (`ArithHom f X Y`) and maps the
  `Inhabited` default to the default, then running the network over `B` on the `f`-images of the table and the
  data gives the `f`-image of the result over `A`:
      (reimFftA (fwd* X) m T d).map f = reimFftA (fwd* Y) m (T.map f) (d.map f).
  Used with `f = Cx.ofRe : R → Cx R` (reals into complex numbers): the C06 theorems, which are stated over one
  ring containing `I`, become statements about the network run on REAL cells.
-/
import Spq.Fft
set_option linter.unusedSectionVars false
namespace Spq.Closed
open Spq.Fft

variable {A B : Type} [Inhabited A] [Inhabited B]

/-- `f` commutes with the six operations -/
structure ArithHom (f : A → B) (X : Arith A) (Y : Arith B) : Prop where
  add : ∀ a b, f (X.add a b) = Y.add (f a) (f b)
  sub : ∀ a b, f (X.sub a b) = Y.sub (f a) (f b)
  mul : ∀ a b, f (X.mul a b) = Y.mul (f a) (f b)
  neg : ∀ a, f (X.neg a) = Y.neg (f a)
  fma : ∀ a b c, f (X.fma a b c) = Y.fma (f a) (f b) (f c)
  fms : ∀ a b c, f (X.fms a b c) = Y.fms (f a) (f b) (f c)

/-- butterfly `g'` over `B` is the image of butterfly `g` over `A` -/
def BfNat (f : A → B) (g : Bf A) (g' : Bf B) : Prop :=
  ∀ ra ia rb ib wr wi,
    g' (f ra) (f ia) (f rb) (f ib) (f wr) (f wi) =
      (f (g ra ia rb ib wr wi).1, f (g ra ia rb ib wr wi).2.1, f (g ra ia rb ib wr wi).2.2.1,
        f (g ra ia rb ib wr wi).2.2.2)

structure FlavNat (f : A → B) (F : Flav A) (F' : Flav B) : Prop where
  ct : BfNat f F.ct F'.ct
  cit : BfNat f F.cit F'.cit
  ctS : BfNat f F.ctS F'.ctS
  citS : BfNat f F.citS F'.citS
  ct2 : BfNat f F.ct2 F'.ct2

section bfs
variable {f : A → B} {X : Arith A} {Y : Arith B} (h : ArithHom f X Y)
include h

theorem ctRef_nat : BfNat f (ctRef X) (ctRef Y) := by
  intro ra ia rb ib wr wi; simp only [ctRef, h.add, h.sub, h.mul]
theorem citRef_nat : BfNat f (citRef X) (citRef Y) := by
  intro ra ia rb ib wr wi; simp only [citRef, h.add, h.sub, h.mul, h.neg]
theorem ctFma_nat : BfNat f (ctFma X) (ctFma Y) := by
  intro ra ia rb ib wr wi; simp only [ctFma, h.add, h.sub, h.mul, h.fma, h.fms]
theorem citFmaB_nat : BfNat f (citFmaB X) (citFmaB Y) := by
  intro ra ia rb ib wr wi; simp only [citFmaB, h.add, h.sub, h.mul, h.fma, h.fms]
theorem citFmaN_nat : BfNat f (citFmaN X) (citFmaN Y) := by
  intro ra ia rb ib wr wi; simp only [citFmaN, ctFma, h.add, h.sub, h.mul, h.fma, h.fms, h.neg]
theorem ictRef_nat : BfNat f (ictRef X) (ictRef Y) := by
  intro ra ia rb ib wr wi; simp only [ictRef, h.add, h.sub, h.mul]
theorem icitRef_nat : BfNat f (icitRef X) (icitRef Y) := by
  intro ra ia rb ib wr wi; simp only [icitRef, h.add, h.sub, h.mul, h.neg]
theorem ictFma_nat : BfNat f (ictFma X) (ictFma Y) := by
  intro ra ia rb ib wr wi; simp only [ictFma, h.add, h.sub, h.mul, h.fma, h.fms]
theorem icitFmaB_nat : BfNat f (icitFmaB X) (icitFmaB Y) := by
  intro ra ia rb ib wr wi; simp only [icitFmaB, h.add, h.sub, h.mul, h.fma, h.fms]
theorem icitFmaN_nat : BfNat f (icitFmaN X) (icitFmaN Y) := by
  intro ra ia rb ib wr wi; simp only [icitFmaN, ictFma, h.add, h.sub, h.mul, h.fma, h.fms, h.neg]

theorem fwdRef_nat : FlavNat f (fwdRef X) (fwdRef Y) :=
  ⟨ctRef_nat h, citRef_nat h, ctRef_nat h, citRef_nat h, ctRef_nat h⟩
theorem fwdFma_nat : FlavNat f (fwdFma X) (fwdFma Y) :=
  ⟨ctFma_nat h, citFmaB_nat h, ctFma_nat h, citFmaN_nat h, ctRef_nat h⟩
theorem invRef_nat : FlavNat f (invRef X) (invRef Y) :=
  ⟨ictRef_nat h, icitRef_nat h, ictRef_nat h, icitRef_nat h, ictRef_nat h⟩
theorem invFma_nat : FlavNat f (invFma X) (invFma Y) :=
  ⟨ictFma_nat h, icitFmaB_nat h, ictFma_nat h, icitFmaN_nat h, ictRef_nat h⟩
end bfs

/-! ### arrays -/

def mapRI (f : A → B) (s : RI A) : RI B := ⟨s.re.map f, s.im.map f⟩

theorem getElem!_map (f : A → B) (hf : f default = default) (a : Array A) (i : Nat) :
    (a.map f)[i]! = f a[i]! := by
  by_cases hi : i < a.size
  · simp [hi]
  · simp [hi, hf]

theorem map_set! (f : A → B) (a : Array A) (i : Nat) (v : A) :
    (a.set! i v).map f = (a.map f).set! i (f v) := by
  simp [Array.set!]

/-- one butterfly application commutes with `f` -/
theorem bf_congr (f : A → B) (hf : f default = default) {g : Bf A} {g' : Bf B} (hg : BfNat f g g')
    {s : RI A} {s' : RI B} (hs : mapRI f s = s') (a b : Nat) {wr wi : A} {wr' wi' : B}
    (hr : f wr = wr') (hi : f wi = wi') :
    mapRI f (bf g s a b wr wi) = bf g' s' a b wr' wi' := by
  subst hs hr hi
  simp only [bf, mapRI, map_set!, getElem!_map f hf]
  rw [hg s.re[a]! s.im[a]! s.re[b]! s.im[b]! wr wi]

theorem iterFrom_congr {σ τ : Type} (φ : σ → τ) {g : Nat → σ → σ} {g' : Nat → τ → τ}
    (hg : ∀ i s s', φ s = s' → φ (g i s) = g' i s') :
    ∀ (c i : Nat) (s : σ) (s' : τ), φ s = s' → φ (iterFrom g c i s) = iterFrom g' c i s' := by
  intro c
  induction c with
  | zero => intro i s s' h; exact h
  | succ c ih => intro i s s' h; exact ih (i + 1) _ _ (hg i s s' h)

end Spq.Closed
