/-
  Pointwise products of the module (`mul`, `addmul`) in exact arithmetic and the core of C01:
  the DFT of the negacyclic product is the pointwise product of the DFTs.
-/
import SpqProofs.Lemmas.ModuleSpec
import SpqProofs.Properties.C17
namespace Spq.Module
open Finset Spq Reim4
variable {R : Type} [CommRing R]

/-- two vectors of `2m` cells with the same `m` complex entries (split layout) are equal -/
theorem eq_of_cx_reim (m : Nat) (u v : Array R) (hu : u.size = 2 * m) (hv : v.size = 2 * m)
    (h : ∀ j, j < m → cx u j (j + m) = cx v j (j + m)) : u = v := by
  apply ext_getD 0 _ _ (by rw [hu, hv])
  intro x
  by_cases hx : x < 2 * m
  · by_cases h1 : x < m
    · have := congrArg Cx.re (h x h1)
      simpa using this
    · have := congrArg Cx.im (h (x - m) (by omega))
      have e : x - m + m = x := by omega
      simpa [e] using this
  · rw [getD_of_size_le _ _ _ (by omega), getD_of_size_le _ _ _ (by omega)]

/-- `reim_fftvec_mul` of the module, either flavour: `nn` cells, complex `j` is the product -/
theorem mul_exact (c : Parts R) (h : ExactArith c) (a b : Array R) :
    (mul c a b).size = c.nn ∧ ∀ j, j < c.m → cx (mul c a b) j (j + c.m) = cx a j (j + c.m) * cx b j (j + c.m) := by
  obtain ⟨har, hnn, _, _, hmul, _⟩ := h
  have hr : 2 * c.m ≤ (Array.replicate c.nn (0 : R)).size := by simp; omega
  obtain ⟨⟨s1, s2, _⟩, s4⟩ := C17.reim_fftvec_mul_exact c.m (Array.replicate c.nn (0 : R)) a b hr
  have e : mul c a b = reimFftvecMulRef (RArith.ofRing R) c.m (Array.replicate c.nn (0 : R)) a b := by
    unfold mul
    simp only [har, ofRing_zero]
    by_cases hf : c.mulFma = true
    · rw [if_pos hf, s4 (hmul hf)]; rfl
    · rw [if_neg hf]
  rw [e]
  refine ⟨by rw [s1]; simp, ?_⟩
  intro j hj
  exact s2 j hj

/-- `reim_fftvec_addmul` of the module, either flavour -/
theorem addmul_exact (c : Parts R) (h : ExactArith c) (r a b : Array R) (hr : r.size = c.nn) :
    (addmul c r a b).size = c.nn ∧
    ∀ j, j < c.m → cx (addmul c r a b) j (j + c.m) = cx r j (j + c.m) + cx a j (j + c.m) * cx b j (j + c.m) := by
  obtain ⟨har, hnn, _, _, _, haddmul⟩ := h
  have hr' : 2 * c.m ≤ r.size := by omega
  obtain ⟨⟨s1, s2, _⟩, s4⟩ := C17.reim_fftvec_addmul_exact c.m r a b hr'
  have e : addmul c r a b = reimFftvecAddmulRef (RArith.ofRing R) c.m r a b := by
    unfold addmul
    simp only [har]
    by_cases hf : c.addmulFma = true
    · rw [if_pos hf, s4 (haddmul hf)]; rfl
    · rw [if_neg hf]
  rw [e]
  refine ⟨by rw [s1, hr], ?_⟩
  intro j hj
  exact s2 j hj

/-- the embedding `ℤ → R → Cx R` -/
def zcx (R : Type) [CommRing R] : Int →+* Cx R := (Cx.ofRe).comp (Int.castRingHom R)

theorem zcx_apply (n : Int) : zcx R n = Cx.ofRe ((n : Int) : R) := rfl

theorem pow_nn_of_pow_m (w : Cx R) (m : Nat) (h : w ^ m = Cx.I) : w ^ (2 * m) = -1 := by
  rw [Nat.mul_comm, pow_mul, h, pow_two, Cx.I_mul_I]

/-- H1 + H2 + `reim_eval`: complex `j` of the DFT of an integer vector is the evaluation of its `nn`
    coefficients at `z_j` -/
theorem fft_embed (c : Parts R) (z : Nat → Cx R) (ha : ExactArith c) (hd : ExactDft c z)
    (x : Array Int) (hx : x.size = c.nn) (j : Nat) (hj : j < c.m) :
    cx (c.fft (c.fromZnx x)) j (j + c.m) = evalF c.nn (fun k => zcx R (icoef x k)) (z j) := by
  rw [hd.fft_eval _ (hd.fromZnx_size x hx) j hj, ha.hnn, reim_evalF c.m _ (z j) Cx.I (hd.hz j hj)]
  apply sum_congr rfl
  intro k hk
  have hk := mem_range.1 hk
  have hn := ha.hnn
  rw [cx_eq, hd.fromZnx_get x hx k (by omega), hd.fromZnx_get x hx (k + c.m) (by omega)]
  rfl

/-- the DFT of the negacyclic product is the pointwise product of the DFTs (as arrays) -/
theorem fft_prod (c : Parts R) (z : Nat → Cx R) (ha : ExactArith c) (hd : ExactDft c z)
    (a b : Array Int) (hsa : a.size = c.nn) (hsb : b.size = c.nn) :
    mul c (c.fft (c.fromZnx a)) (c.fft (c.fromZnx b)) = c.fft (c.fromZnx (nmul c.nn a b)) := by
  obtain ⟨m1, m2⟩ := mul_exact c ha (c.fft (c.fromZnx a)) (c.fft (c.fromZnx b))
  have hn := ha.hnn
  apply eq_of_cx_reim c.m _ _ (by omega)
    (by rw [hd.fft_size _ (hd.fromZnx_size _ (size_nmul _ _ _))]; exact hn)
  intro j hj
  rw [m2 j hj, fft_embed c z ha hd a hsa j hj, fft_embed c z ha hd b hsb j hj,
    fft_embed c z ha hd _ (size_nmul _ _ _) j hj,
    ← eval_nmulF c.nn _ _ (z j) (by rw [hn]; exact pow_nn_of_pow_m _ _ (hd.hz j hj))]
  unfold evalF
  apply sum_congr rfl
  intro k hk
  simp only []
  rw [icoef_nmul _ _ _ _ (mem_range.1 hk), map_nmulF]

/-- H3 + H4 (+ H1): conversion, DFT, inverse DFT and rounding return the integers -/
theorem roundtrip (c : Parts R) (z : Nat → Cx R) (hd : ExactDft c z) (x : Array Int) (hx : x.size = c.nn) :
    c.toZnx (c.ifft (c.fft (c.fromZnx x))) = x := by
  have hs := hd.fromZnx_size x hx
  apply hd.toZnx_round _ _ (hd.ifft_size _ hs) hx
  intro t ht
  rw [hd.ifft_fft _ hs t ht, hd.fromZnx_get x hx t ht]

/-- `fft64_znx_small_single_product` in exact arithmetic -/
theorem smallProduct_exact (c : Parts R) (z : Nat → Cx R) (ha : ExactArith c) (hd : ExactDft c z)
    (a b : Array Int) (hsa : a.size = c.nn) (hsb : b.size = c.nn) :
    smallProduct c a b = nmul c.nn a b := by
  unfold smallProduct
  rw [fft_prod c z ha hd a b hsa hsb, roundtrip c z hd _ (size_nmul _ _ _)]

end Spq.Module
