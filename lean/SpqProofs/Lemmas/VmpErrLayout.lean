/-
  C02 rounding budget, step 6 (`vmp_layout_f64`, part 1): the layout of `vmpPrepare` / `vmpApplyDftToDft` for an
  ARBITRARY arithmetic record (no ring laws): what the dot-product kernels read from the prepared matrix and from the
  extracted vector block, cell by cell, hence what every kernel output cell is — the scalar recurrence
  `dotRe / dotIm` of `VmpErrDot.lean` applied to `(adft_i[t])_i` and `(fft(M[i][j])[t])_i`.
-/
import SpqProofs.Lemmas.VmpErrCells
import SpqProofs.Lemmas.ModuleVmpApply
namespace Spq.VmpErr
open Spq Spq.Module Spq.Reim4
variable {α : Type}

/-- cell `t` / `t + m` of row `i` of the DFT-space vector (rows of `nn` cells) -/
def aRe (z : α) (adft : Array α) (nn t : ℕ) : ℕ → α := fun i => adft.getD (i * nn + t) z
def aIm (z : α) (adft : Array α) (nn m t : ℕ) : ℕ → α := fun i => adft.getD (i * nn + t + m) z
/-- cell `t` / `t + m` of the DFT of matrix entry `(i, j)` -/
def bRe (c : Parts α) (mat : Array Int) (ncols j t : ℕ) : ℕ → α := fun i => (matDft c mat ncols i j).getD t c.ar.zero
def bIm (c : Parts α) (mat : Array Int) (ncols j t : ℕ) : ℕ → α := fun i => (matDft c mat ncols i j).getD (t + c.m) c.ar.zero

/-- complex `t` of output column `j` as the accumulation order `Kd` computes it from `n` rows -/
def colRe (c : Parts α) (Kd : DotK) (adft : Array α) (mat : Array Int) (ncols n j t : ℕ) : α :=
  dotRe c.ar Kd (aRe c.ar.zero adft c.nn t) (aIm c.ar.zero adft c.nn c.m t) (bRe c mat ncols j t) (bIm c mat ncols j t) n
def colIm (c : Parts α) (Kd : DotK) (adft : Array α) (mat : Array Int) (ncols n j t : ℕ) : α :=
  dotIm c.ar Kd (aRe c.ar.zero adft c.nn t) (aIm c.ar.zero adft c.nn c.m t) (bRe c mat ncols j t) (bIm c mat ncols j t) n

/-- `extracted_blk` -/
def gExt (c : Parts α) (adft : Array α) (n blk : ℕ) : Array α :=
  extract1blkFromContiguousReimRef c.ar.zero c.m n blk (Array.replicate (8 * n) c.ar.zero) adft

theorem gExt_get (c : Parts α) (hnn : c.nn = 2 * c.m) (adft : Array α) (n blk i k : ℕ) (hi : i < n) (hk : k < 4) :
    uRe c.ar.zero (gExt c adft n blk) k i = aRe c.ar.zero adft c.nn (4 * blk + k) i ∧
    uIm c.ar.zero (gExt c adft n blk) k i = aIm c.ar.zero adft c.nn c.m (4 * blk + k) i := by
  obtain ⟨e1, e2⟩ := extractRows_get c.ar.zero c.m n blk (Array.replicate (8 * n) c.ar.zero) adft (by simp) i k hi hk
  unfold uRe uIm aRe aIm gExt
  constructor
  · rw [e1, hnn]; congr 1; omega
  · rw [(by omega : 8 * i + k + 4 = 8 * i + 4 + k), e2, hnn]; congr 1; omega

/-- `mat_blk_start + col_offset`, `w·nrows` cells -/
def gCol (P : Array α) (nrows ncols blk col w : ℕ) : Array α :=
  P.extract (blk * (8 * nrows * ncols) + col * (8 * nrows)) (blk * (8 * nrows * ncols) + col * (8 * nrows) + w * nrows)

theorem col_off (col nrows : ℕ) (he : col % 2 = 0) : col * (8 * nrows) = 16 * (col / 2 * nrows) := by
  have : col = 2 * (col / 2) := by omega
  calc col * (8 * nrows) = (2 * (col / 2)) * (8 * nrows) := by rw [← this]
    _ = 16 * (col / 2 * nrows) := by ring

/-- a column pair (`col` even, `col + 1 < ncols`) as the 2-column kernels read it -/
theorem pair_read_g (c : Parts α) (mat : Array Int) (nrows ncols : ℕ) (h8 : 8 ≤ c.nn) (hnn : c.nn = 2 * c.m)
    (hm4 : c.m % 4 = 0) (col blk i k : ℕ) (he : col % 2 = 0) (hc : col + 1 < ncols) (hb : blk < c.m / 4) (hi : i < nrows)
    (hk : k < 4) :
    vRe c.ar.zero (gCol (vmpPrepare c mat nrows ncols) nrows ncols blk col 16) 16 0 k i = bRe c mat ncols col (4 * blk + k) i ∧
    vIm c.ar.zero (gCol (vmpPrepare c mat nrows ncols) nrows ncols blk col 16) 16 0 k i = bIm c mat ncols col (4 * blk + k) i ∧
    vRe c.ar.zero (gCol (vmpPrepare c mat nrows ncols) nrows ncols blk col 16) 16 8 k i =
      bRe c mat ncols (col + 1) (4 * blk + k) i ∧
    vIm c.ar.zero (gCol (vmpPrepare c mat nrows ncols) nrows ncols blk col 16) 16 8 k i =
      bIm c mat ncols (col + 1) (4 * blk + k) i := by
  obtain ⟨a1, a2⟩ := prepared_cell c mat nrows ncols h8 hnn hm4 i col blk k hi (by omega) hb hk
  obtain ⟨b1, b2⟩ := prepared_cell c mat nrows ncols h8 hnn hm4 i (col + 1) blk k hi hc hb hk
  rw [qslot_pair _ _ _ _ (by omega)] at a1 a2 b1 b2
  have e0 : (col + 1) / 2 = col / 2 := by omega
  rw [e0] at b1 b2
  have e1 : blk * (8 * nrows * ncols) = 8 * (blk * (nrows * ncols)) := by ring
  have e2 := col_off col nrows he
  have e3 : 4 * blk + k + c.m = c.m + 4 * blk + k := by omega
  unfold vRe vIm bRe bIm gCol
  refine ⟨?_, ?_, ?_, ?_⟩
  · rw [getD_extract, if_pos (by omega), ← a1]; congr 1; omega
  · rw [getD_extract, if_pos (by omega), e3, ← a2]; congr 1; omega
  · rw [getD_extract, if_pos (by omega), ← b1]; congr 1; omega
  · rw [getD_extract, if_pos (by omega), e3, ← b2]; congr 1; omega

/-- the lone last column (`ncols` odd, `col = ncols - 1`) as the 1-column kernels read it -/
theorem lone_read_g (c : Parts α) (mat : Array Int) (nrows ncols : ℕ) (h8 : 8 ≤ c.nn) (hnn : c.nn = 2 * c.m)
    (hm4 : c.m % 4 = 0) (col blk i k : ℕ) (hl : col + 1 = ncols ∧ ncols % 2 = 1) (hb : blk < c.m / 4) (hi : i < nrows)
    (hk : k < 4) :
    vRe c.ar.zero (gCol (vmpPrepare c mat nrows ncols) nrows ncols blk col 8) 8 0 k i = bRe c mat ncols col (4 * blk + k) i ∧
    vIm c.ar.zero (gCol (vmpPrepare c mat nrows ncols) nrows ncols blk col 8) 8 0 k i = bIm c mat ncols col (4 * blk + k) i := by
  obtain ⟨a1, a2⟩ := prepared_cell c mat nrows ncols h8 hnn hm4 i col blk k hi (by omega) hb hk
  rw [qslot_lone _ _ _ _ hl] at a1 a2
  have e1 : blk * (8 * nrows * ncols) = 8 * (blk * (nrows * ncols)) := by ring
  have e2 := col_off col nrows (by omega)
  have e3 : 4 * blk + k + c.m = c.m + 4 * blk + k := by omega
  unfold vRe vIm bRe bIm gCol
  refine ⟨?_, ?_⟩
  · rw [getD_extract, if_pos (by omega), ← a1]; congr 1; omega
  · rw [getD_extract, if_pos (by omega), e3, ← a2]; congr 1; omega

/-! ### the kernels in context -/

/-- `reim4_vec_mat2cols_product_{ref,avx2}` into the 16-cell scratch -/
def gProd2 (c : Parts α) (n : ℕ) (u v : Array α) : Array α :=
  if c.vmpAvx then vecMat2colsProductAvx2 c.ar n (Array.replicate 16 c.ar.zero) u v
  else vecMat2colsProductRef c.ar n (Array.replicate 16 c.ar.zero) u v
/-- `reim4_vec_mat1col_product_{ref,avx2}` -/
def gProd1 (c : Parts α) (n : ℕ) (u v : Array α) : Array α :=
  if c.vmpAvx then vecMat1colProductAvx2 c.ar n (Array.replicate 8 c.ar.zero) u v
  else vecMat1colProductRef c.ar n (Array.replicate 8 c.ar.zero) u v

def kind2 (c : Parts α) : DotK := if c.vmpAvx then .av2 else .ref
def kind1 (c : Parts α) : DotK := if c.vmpAvx then .av1 else .ref

theorem kind2_ne (c : Parts α) : kind2 c = .sm → 1 ≤ 0 := by unfold kind2; split <;> intro h <;> cases h
theorem kind1_ne (c : Parts α) : kind1 c = .sm → 1 ≤ 0 := by unfold kind1; split <;> intro h <;> cases h

/-- cells of the 2-column kernel, either flavour -/
theorem gProd2_cells (c : Parts α) (n : ℕ) (u v : Array α) (k : ℕ) (hk : k < 4) :
    (gProd2 c n u v).size = 16 ∧
    (gProd2 c n u v).getD k c.ar.zero =
      dotRe c.ar (kind2 c) (uRe c.ar.zero u k) (uIm c.ar.zero u k) (vRe c.ar.zero v 16 0 k) (vIm c.ar.zero v 16 0 k) n ∧
    (gProd2 c n u v).getD (k + 4) c.ar.zero =
      dotIm c.ar (kind2 c) (uRe c.ar.zero u k) (uIm c.ar.zero u k) (vRe c.ar.zero v 16 0 k) (vIm c.ar.zero v 16 0 k) n ∧
    (gProd2 c n u v).getD (8 + k) c.ar.zero =
      dotRe c.ar (kind2 c) (uRe c.ar.zero u k) (uIm c.ar.zero u k) (vRe c.ar.zero v 16 8 k) (vIm c.ar.zero v 16 8 k) n ∧
    (gProd2 c n u v).getD (8 + k + 4) c.ar.zero =
      dotIm c.ar (kind2 c) (uRe c.ar.zero u k) (uIm c.ar.zero u k) (vRe c.ar.zero v 16 8 k) (vIm c.ar.zero v 16 8 k) n := by
  unfold gProd2 kind2
  cases h : c.vmpAvx
  · simp only [Bool.false_eq_true, if_false, dotRe, dotIm]
    obtain ⟨s, r⟩ := mat2colsRef_cells c.ar n (Array.replicate 16 c.ar.zero) u v (by simp) k hk
    exact ⟨by rw [s]; simp, r⟩
  · simp only [if_true, dotRe, dotIm]
    obtain ⟨s, r⟩ := mat2colsAvx2_cells c.ar n (Array.replicate 16 c.ar.zero) u v (by simp) k hk
    exact ⟨by rw [s]; simp, r⟩

theorem gProd1_cells (c : Parts α) (n : ℕ) (u v : Array α) (k : ℕ) (hk : k < 4) :
    (gProd1 c n u v).size = 8 ∧
    (gProd1 c n u v).getD k c.ar.zero =
      dotRe c.ar (kind1 c) (uRe c.ar.zero u k) (uIm c.ar.zero u k) (vRe c.ar.zero v 8 0 k) (vIm c.ar.zero v 8 0 k) n ∧
    (gProd1 c n u v).getD (k + 4) c.ar.zero =
      dotIm c.ar (kind1 c) (uRe c.ar.zero u k) (uIm c.ar.zero u k) (vRe c.ar.zero v 8 0 k) (vIm c.ar.zero v 8 0 k) n := by
  unfold gProd1 kind1
  cases h : c.vmpAvx
  · simp only [Bool.false_eq_true, if_false, dotRe, dotIm]
    obtain ⟨s, r⟩ := mat1colRef_cells c.ar n (Array.replicate 8 c.ar.zero) u v (by simp) k hk
    exact ⟨by rw [s]; simp, r⟩
  · simp only [if_true, dotRe, dotIm]
    obtain ⟨s, r⟩ := mat1colAvx2_cells' c.ar n (Array.replicate 8 c.ar.zero) u v (by simp) k hk
    exact ⟨by rw [s]; simp, r⟩

end Spq.VmpErr
