/-
  The level loop of the in-place automorphism: invariant, and the four special cases
  (`p·B ≡ B`, `≡ -B`, `≡ B + N`, `≡ N - B` modulo `2N`).
-/
import SpqProofs.Lemmas.CoeffsAutLevel
import SpqProofs.Lemmas.CoeffsAutom
import SpqProofs.Lemmas.CoeffsFold
namespace Spq.Rq
open Spq
variable {α : Type}

/-- exponent of `X^y ↦ X^(y·pm)` modulo `2N` -/
def autE (N pm y : Nat) : Nat := (y * pm) % (2 * N)

theorem autSigma_eq_E (N pm y : Nat) : autSigma N pm y = autE N pm y % N := rfl
theorem autG_eq_E (o : Ops α) (N pm y : Nat) (t : α) :
    autG o N pm y t = if autE N pm y < N then t else o.neg t := rfl

theorem autE_cast (N pm y : Nat) : ((autE N pm y : Nat) : ZMod (2 * N)) = (y : ZMod (2 * N)) * pm := by
  unfold autE; rw [ZMod.natCast_mod, Nat.cast_mul]

theorem autE_lt (N pm y : Nat) (hN : 0 < N) : autE N pm y < 2 * N := Nat.mod_lt _ (by omega)

/-- to compute `autE` it is enough to exhibit a representative `< 2N` -/
theorem autE_eq (N pm y v : Nat) (hN : 0 < N) (hv : v < 2 * N)
    (h : (y : ZMod (2 * N)) * pm = (v : ZMod (2 * N))) : autE N pm y = v :=
  natCast_inj_of_lt (autE_lt N pm y hN) hv (by rw [autE_cast, h])

/-- final state: cell `σ y` holds `± x[y]` for every `y` -/
def AutFin (o : Ops α) (N pm : Nat) (x res : Array α) : Prop :=
  res.size = N ∧
  ∀ y, y < N → res.getD (autSigma N pm y) o.zero = autG o N pm y (x.getD y o.zero)

/-- state at the start of level `b`: classes of valuation `< b` are final, the others untouched -/
def LevelInv (o : Ops α) (N pm b : Nat) (x res : Array α) : Prop :=
  res.size = N ∧
  (∀ y, y < N → y % 2 ^ b ≠ 0 →
      res.getD (autSigma N pm y) o.zero = autG o N pm y (x.getD y o.zero)) ∧
  (∀ y, y < N → y % 2 ^ b = 0 → res.getD y o.zero = x.getD y o.zero)

theorem sigma_mod_ne (t b pm y : Nat) (hb : b ≤ t) (hpm : pm % 2 = 1) (hy : y % 2 ^ b ≠ 0) :
    autSigma (2 ^ t) pm y % 2 ^ b ≠ 0 := by
  unfold autSigma
  have d1 : 2 ^ b ∣ 2 ^ t := Nat.pow_dvd_pow 2 hb
  have d2 : 2 ^ t ∣ 2 * 2 ^ t := ⟨2, by ring⟩
  rw [Nat.mod_mod_of_dvd _ d1, Nat.mod_mod_of_dvd _ (Dvd.dvd.trans d1 d2)]
  intro h
  apply hy
  have hd : 2 ^ b ∣ y * pm := Nat.dvd_of_mod_eq_zero h
  have hc : Nat.Coprime (2 ^ b) pm := by
    apply Nat.Coprime.pow_left
    rw [Nat.coprime_two_left]; exact Nat.odd_iff.2 hpm
  exact Nat.mod_eq_zero_of_dvd (hc.dvd_of_dvd_mul_right hd)

/-- a completed level invariant is the final state -/
theorem LevelInv.fin_of_top (o : Ops α) (t pm : Nat) (x res : Array α)
    (h : LevelInv o (2 ^ t) pm t x res) : AutFin o (2 ^ t) pm x res := by
  obtain ⟨h1, h2, h3⟩ := h
  have hN : 0 < 2 ^ t := Nat.pow_pos (by norm_num)
  refine ⟨h1, ?_⟩
  intro y hy
  rcases Nat.eq_zero_or_pos y with h0 | hpos
  · subst h0
    have := h3 0 hN (by simp)
    simp only [autSigma, autG, Nat.zero_mul, Nat.zero_mod, hN, if_true]
    exact this
  · exact h2 y hy (by rw [Nat.mod_eq_of_lt hy]; omega)

theorem vp_cast (N b pm : Nat) :
    (((2 ^ b * pm) % (2 * N) : Nat) : ZMod (2 * N)) = 2 ^ b * (pm : ZMod (2 * N)) := by
  rw [ZMod.natCast_mod]; push_cast; rfl

/-- multiples of `2^b`: `y·pm = c·(2^b·pm)` -/
theorem mul_cast (N b pm c : Nat) :
    ((2 ^ b * c : Nat) : ZMod (2 * N)) * pm = c * (2 ^ b * (pm : ZMod (2 * N))) := by
  push_cast; ring

theorem odd_mul_N (N c : Nat) (hc : c % 2 = 1) : (c : ZMod (2 * N)) * (N : ZMod (2 * N)) = N := by
  obtain ⟨k, hk⟩ : ∃ k, c = 2 * k + 1 := ⟨c / 2, by omega⟩
  have h0 : ((2 * N : Nat) : ZMod (2 * N)) = 0 := ZMod.natCast_self _
  rw [hk]; push_cast at h0 ⊢
  linear_combination (k : ZMod (2 * N)) * h0

theorem even_mul_N (N c : Nat) (hc : c % 2 = 0) : (c : ZMod (2 * N)) * (N : ZMod (2 * N)) = 0 := by
  obtain ⟨k, hk⟩ : ∃ k, c = 2 * k := ⟨c / 2, by omega⟩
  have h0 : ((2 * N : Nat) : ZMod (2 * N)) = 0 := ZMod.natCast_self _
  rw [hk]; push_cast at h0 ⊢
  linear_combination (k : ZMod (2 * N)) * h0

/-! ### case 1: `pm·B ≡ B (mod 2N)` — identity on all remaining classes -/
theorem case1 (o : Ops α) (t b pm : Nat) (hc : (2 ^ b * pm) % (2 * 2 ^ t) = 2 ^ b)
    (x res : Array α) (h : LevelInv o (2 ^ t) pm b x res) : AutFin o (2 ^ t) pm x res := by
  obtain ⟨h1, h2, h3⟩ := h
  have hN : 0 < 2 ^ t := Nat.pow_pos (by norm_num)
  refine ⟨h1, ?_⟩
  intro y hy
  by_cases c : y % 2 ^ b = 0
  · obtain ⟨k, hk⟩ := Nat.dvd_of_mod_eq_zero c
    have hv := vp_cast (2 ^ t) b pm
    rw [hc] at hv
    have hE : autE (2 ^ t) pm y = y := by
      apply autE_eq _ _ _ _ hN (by omega)
      rw [hk, mul_cast, ← hv]; push_cast; ring
    rw [autSigma_eq_E, autG_eq_E, hE, Nat.mod_eq_of_lt hy, if_pos hy]
    exact h3 y hy c
  · exact h2 y hy c

/-! ### case 3: `pm·B ≡ B + N (mod 2N)` — negate the class, identity above -/
theorem case3 (o : Ops α) (t b pm : Nat) (hb : b < t) (hc : (2 ^ b * pm) % (2 * 2 ^ t) = 2 ^ b + 2 ^ t)
    (hpm : pm % 2 = 1) (x res : Array α) (h : LevelInv o (2 ^ t) pm b x res) :
    AutFin o (2 ^ t) pm x
      ((Coeffs.stepRange (2 ^ b) (2 ^ t) (2 * 2 ^ b)).foldl
        (fun r j => r.setIfInBounds j (o.neg (r.getD j o.zero))) res) := by
  obtain ⟨h1, h2, h3⟩ := h
  have hN : 0 < 2 ^ t := Nat.pow_pos (by norm_num)
  have hB : 0 < 2 ^ b := Nat.pow_pos (by norm_num)
  have hmem : ∀ j, j ∈ Coeffs.stepRange (2 ^ b) (2 ^ t) (2 * 2 ^ b) ↔ (j < 2 ^ t ∧ j % (2 * 2 ^ b) = 2 ^ b) := by
    intro j
    rw [mem_stepRange _ _ _ _ (by omega)]
    constructor
    · rintro ⟨k, rfl, hlt⟩
      exact ⟨hlt, by rw [Nat.add_mul_mod_self_right]; exact Nat.mod_eq_of_lt (by omega)⟩
    · rintro ⟨hlt, hm⟩
      refine ⟨j / (2 * 2 ^ b), ?_, hlt⟩
      have := Nat.div_add_mod j (2 * 2 ^ b)
      rw [hm] at this
      rw [Nat.mul_comm]; omega
  obtain ⟨f1, f2, f3⟩ := fold_single (fun v => o.neg v) o.zero _
    (nodup_stepRange (2 ^ b) (2 ^ t) (2 * 2 ^ b) (by omega)) res
    (fun j hj => by rw [h1]; exact ((hmem j).1 hj).1)
  refine ⟨by rw [f1, h1], ?_⟩
  intro y hy
  by_cases c : y % 2 ^ b = 0
  · obtain ⟨k, hk⟩ := Nat.dvd_of_mod_eq_zero c
    have hv := vp_cast (2 ^ t) b pm
    rw [hc] at hv
    by_cases ck : k % 2 = 1
    · -- y in the class: negated in place
      have hE : autE (2 ^ t) pm y = y + 2 ^ t := by
        apply autE_eq _ _ _ _ hN (by omega)
        rw [hk, mul_cast, ← hv]
        have := odd_mul_N (2 ^ t) k ck
        push_cast at this ⊢
        linear_combination this
      have hym : y ∈ Coeffs.stepRange (2 ^ b) (2 ^ t) (2 * 2 ^ b) := by
        rw [hmem]; refine ⟨hy, ?_⟩
        obtain ⟨q, hq⟩ : ∃ q, k = 2 * q + 1 := ⟨k / 2, by omega⟩
        rw [hk, hq]
        have : 2 ^ b * (2 * q + 1) = 2 ^ b + q * (2 * 2 ^ b) := by ring
        rw [this, Nat.add_mul_mod_self_right]; exact Nat.mod_eq_of_lt (by omega)
      rw [autSigma_eq_E, autG_eq_E, hE, Nat.add_mod_right, Nat.mod_eq_of_lt hy, if_neg (by omega),
        f2 y hym, h3 y hy c]
    · have hE : autE (2 ^ t) pm y = y := by
        apply autE_eq _ _ _ _ hN (by omega)
        rw [hk, mul_cast, ← hv]
        have := even_mul_N (2 ^ t) k (by omega)
        push_cast at this ⊢
        linear_combination this
      have hym : y ∉ Coeffs.stepRange (2 ^ b) (2 ^ t) (2 * 2 ^ b) := by
        rw [hmem]; intro hh
        obtain ⟨q, hq⟩ : ∃ q, k = 2 * q := ⟨k / 2, by omega⟩
        have : y = q * (2 * 2 ^ b) := by rw [hk, hq]; ring
        rw [this, Nat.mul_mod_left] at hh
        omega
      rw [autSigma_eq_E, autG_eq_E, hE, Nat.mod_eq_of_lt hy, if_pos hy, f3 y hym, h3 y hy c]
  · have hs := sigma_mod_ne t b pm y (Nat.le_of_lt hb) hpm c
    have hym : autSigma (2 ^ t) pm y ∉ Coeffs.stepRange (2 ^ b) (2 ^ t) (2 * 2 ^ b) := by
      rw [hmem]; intro hh
      apply hs
      have : autSigma (2 ^ t) pm y % (2 * 2 ^ b) % 2 ^ b = 2 ^ b % 2 ^ b := by rw [hh.2]
      rw [Nat.mod_mod_of_dvd _ ⟨2, by ring⟩, Nat.mod_self] at this
      exact this
    rw [f3 _ hym]
    exact h2 y hy c

theorem mod_zero_lt_two (x m : Nat) (h : x % m = 0) (hx : x < 2 * m) : x = 0 ∨ x = m := by
  rcases Nat.lt_or_ge x m with c | c
  · left; rwa [Nat.mod_eq_of_lt c] at h
  · right
    rw [Nat.mod_eq_sub_mod c, Nat.mod_eq_of_lt (by omega)] at h
    omega

theorem mirror_mod_sum (N y m : Nat) (hd : m ∣ N) (hy : y ≤ N) (hm : 0 < m) :
    (N - y) % m + y % m = 0 ∨ (N - y) % m + y % m = m := by
  apply mod_zero_lt_two
  · rw [← Nat.add_mod, Nat.sub_add_cancel hy]; exact Nat.mod_eq_zero_of_dvd hd
  · have := Nat.mod_lt (N - y) hm
    have := Nat.mod_lt y hm
    omega

/-! ### case 2: `pm·B ≡ -B (mod 2N)` — nega-mirror all remaining classes -/
theorem case2 (o : Ops α) (t b pm : Nat) (hb : b < t)
    (hc : (2 ^ b * pm) % (2 * 2 ^ t) + 2 ^ b = 2 * 2 ^ t)
    (hpm : pm % 2 = 1) (x res : Array α) (h : LevelInv o (2 ^ t) pm b x res) :
    AutFin o (2 ^ t) pm x
      (((Coeffs.stepRange (2 ^ b) (2 ^ t / 2) (2 ^ b)).foldl (fun r j =>
          let tmp := r.getD j o.zero
          let r := r.setIfInBounds j (o.neg (r.getD (2 ^ t - j) o.zero))
          r.setIfInBounds (2 ^ t - j) (o.neg tmp)) res).setIfInBounds (2 ^ t / 2)
        (o.neg (((Coeffs.stepRange (2 ^ b) (2 ^ t / 2) (2 ^ b)).foldl (fun r j =>
          let tmp := r.getD j o.zero
          let r := r.setIfInBounds j (o.neg (r.getD (2 ^ t - j) o.zero))
          r.setIfInBounds (2 ^ t - j) (o.neg tmp)) res).getD (2 ^ t / 2) o.zero))) := by
  obtain ⟨h1, h2, h3⟩ := h
  have hN : 0 < 2 ^ t := Nat.pow_pos (by norm_num)
  have hB : 0 < 2 ^ b := Nat.pow_pos (by norm_num)
  obtain ⟨t', rfl⟩ : ∃ t', t = t' + 1 := ⟨t - 1, by omega⟩
  have hm : 2 ^ (t' + 1) / 2 = 2 ^ t' := by rw [pow_succ]; omega
  have hN2 : 2 ^ (t' + 1) = 2 * 2 ^ t' := by ring
  rw [hm]
  have hBm : 2 ^ b ∣ 2 ^ t' := Nat.pow_dvd_pow 2 (by omega)
  have hBN : 2 ^ b ∣ 2 ^ (t' + 1) := Nat.pow_dvd_pow 2 (by omega)
  have hM : 0 < 2 ^ t' := Nat.pow_pos (by norm_num)
  have hmem : ∀ j, j ∈ Coeffs.stepRange (2 ^ b) (2 ^ t') (2 ^ b) ↔ (0 < j ∧ j < 2 ^ t' ∧ j % 2 ^ b = 0) := by
    intro j
    rw [mem_stepRange _ _ _ _ hB]
    constructor
    · rintro ⟨k, rfl, hlt⟩
      refine ⟨by omega, hlt, ?_⟩
      have : 2 ^ b + k * 2 ^ b = (k + 1) * 2 ^ b := by ring
      rw [this, Nat.mul_mod_left]
    · rintro ⟨h0, hlt, hmd⟩
      obtain ⟨k, hk⟩ := Nat.dvd_of_mod_eq_zero hmd
      have hk0 : 0 < k := by
        rcases Nat.eq_zero_or_pos k with h | h
        · subst h; omega
        · exact h
      refine ⟨k - 1, ?_, hlt⟩
      have : k = (k - 1) + 1 := by omega
      rw [hk]; conv_lhs => rw [this]
      ring
  obtain ⟨f1, f2, f3⟩ := fold_pairs (fun j => 2 ^ (t' + 1) - j) (fun _ v => o.neg v) (fun u _ => o.neg u)
    o.zero _ (nodup_stepRange (2 ^ b) (2 ^ t') (2 ^ b) hB)
    (fun j hj j' hj' => by
      have := (hmem j).1 hj; have := (hmem j').1 hj'; omega)
    (fun j hj j' hj' e => by
      have := (hmem j).1 hj; have := (hmem j').1 hj'; omega)
    res (fun j hj => by have := (hmem j).1 hj; rw [h1]; omega)
  set res1 := (Coeffs.stepRange (2 ^ b) (2 ^ t') (2 ^ b)).foldl (fun r j =>
          let tmp := r.getD j o.zero
          let r := r.setIfInBounds j (o.neg (r.getD (2 ^ (t' + 1) - j) o.zero))
          r.setIfInBounds (2 ^ (t' + 1) - j) (o.neg tmp)) res with hres1
  -- the middle cell is not touched by the loop
  have hmid : res1.getD (2 ^ t') o.zero = res.getD (2 ^ t') o.zero := by
    apply f3; intro j hj; have := (hmem j).1 hj; omega
  refine ⟨by simp [f1, h1], ?_⟩
  intro y hy
  rw [getD_setIfInBounds]
  by_cases c : y % 2 ^ b = 0
  · rcases Nat.eq_zero_or_pos y with y0 | ypos
    · subst y0
      have : autSigma (2 ^ (t' + 1)) pm 0 = 0 := by simp [autSigma]
      rw [this, if_neg (by omega), f3 0 (fun j hj => by have := (hmem j).1 hj; omega), h3 0 hy c]
      simp [autG, hN]
    · obtain ⟨k, hk⟩ := Nat.dvd_of_mod_eq_zero c
      have hv := vp_cast (2 ^ (t' + 1)) b pm
      have hE : autE (2 ^ (t' + 1)) pm y = 2 * 2 ^ (t' + 1) - y := by
        apply autE_eq _ _ _ _ hN (by omega)
        have hc' := congrArg (fun (v : Nat) => (v : ZMod (2 * 2 ^ (t' + 1)))) hc
        simp only [Nat.cast_add, hv, ZMod.natCast_self] at hc'
        rw [Nat.cast_sub (by omega), ZMod.natCast_self]
        rw [hk, mul_cast]
        push_cast at hc' ⊢
        linear_combination (k : ZMod (2 * 2 ^ (t' + 1))) * hc'
      have hsig : autSigma (2 ^ (t' + 1)) pm y = 2 ^ (t' + 1) - y := by
        rw [autSigma_eq_E, hE]
        have : 2 * 2 ^ (t' + 1) - y = (2 ^ (t' + 1) - y) + 2 ^ (t' + 1) := by omega
        rw [this, Nat.add_mod_right, Nat.mod_eq_of_lt (by omega)]
      have hge : ¬ (2 * 2 ^ (t' + 1) - y < 2 ^ (t' + 1)) := by omega
      rw [hsig, autG_eq_E, hE, if_neg hge]
      rcases Nat.lt_trichotomy y (2 ^ t') with ylt | yeq | ygt
      · have hym : y ∈ Coeffs.stepRange (2 ^ b) (2 ^ t') (2 ^ b) := (hmem y).2 ⟨ypos, ylt, c⟩
        have hcn : ¬ (2 ^ t' = 2 ^ (t' + 1) - y ∧ 2 ^ t' < res1.size) := by intro hh; omega
        rw [if_neg hcn, (f2 y hym).2, h3 y hy c]
      · have hcp : (2 ^ t' = 2 ^ (t' + 1) - y ∧ 2 ^ t' < res1.size) := ⟨by omega, by rw [f1, h1]; omega⟩
        rw [if_pos hcp, hmid, ← yeq, h3 y hy c]
      · have hcn : ¬ (2 ^ t' = 2 ^ (t' + 1) - y ∧ 2 ^ t' < res1.size) := by intro hh; omega
        have hjm : 2 ^ (t' + 1) - y ∈ Coeffs.stepRange (2 ^ b) (2 ^ t') (2 ^ b) := by
          rw [hmem]; refine ⟨by omega, by omega, ?_⟩
          have := mirror_mod_sum (2 ^ (t' + 1)) y (2 ^ b) hBN (by omega) hB
          omega
        have hyy : 2 ^ (t' + 1) - (2 ^ (t' + 1) - y) = y := by omega
        rw [if_neg hcn, (f2 _ hjm).1, hyy, h3 y hy c]
  · have hs := sigma_mod_ne (t' + 1) b pm y (by omega) hpm c
    have hne : autSigma (2 ^ (t' + 1)) pm y ≠ 2 ^ t' := by
      intro e; rw [e] at hs; exact hs (Nat.mod_eq_zero_of_dvd hBm)
    rw [if_neg (fun hh => hne hh.1.symm), f3]
    · exact h2 y hy c
    · intro j hj
      have hj' := (hmem j).1 hj
      constructor
      · intro e; rw [e] at hs; exact hs hj'.2.2
      · intro e
        have := mirror_mod_sum (2 ^ (t' + 1)) j (2 ^ b) hBN (by omega) hB
        rw [e] at hs
        omega

/-! ### case 4: `pm·B ≡ N - B (mod 2N)` — mirror the class, continue with the next level -/
theorem case4 (o : Ops α) (t b pm : Nat) (hb : b + 1 < t)
    (hc : (2 ^ b * pm) % (2 * 2 ^ t) + 2 ^ b = 2 ^ t)
    (hpm : pm % 2 = 1) (x res : Array α) (h : LevelInv o (2 ^ t) pm b x res) :
    LevelInv o (2 ^ t) pm (b + 1) x
      ((Coeffs.stepRange (2 ^ b) (2 ^ t / 2) (2 * 2 ^ b)).foldl (fun r j =>
          let tmp := r.getD j o.zero
          let r := r.setIfInBounds j (r.getD (2 ^ t - j) o.zero)
          r.setIfInBounds (2 ^ t - j) tmp) res) := by
  obtain ⟨h1, h2, h3⟩ := h
  have hN : 0 < 2 ^ t := Nat.pow_pos (by norm_num)
  have hB : 0 < 2 ^ b := Nat.pow_pos (by norm_num)
  obtain ⟨t', rfl⟩ : ∃ t', t = t' + 1 := ⟨t - 1, by omega⟩
  have hm : 2 ^ (t' + 1) / 2 = 2 ^ t' := by rw [pow_succ]; omega
  have hN2 : 2 ^ (t' + 1) = 2 * 2 ^ t' := by ring
  rw [hm]
  have hB2 : 2 ^ (b + 1) = 2 * 2 ^ b := by ring
  have hB2m : 2 ^ (b + 1) ∣ 2 ^ t' := Nat.pow_dvd_pow 2 (by omega)
  have hB2N : 2 ^ (b + 1) ∣ 2 ^ (t' + 1) := Nat.pow_dvd_pow 2 (by omega)
  have hBN : 2 ^ b ∣ 2 ^ (t' + 1) := Nat.pow_dvd_pow 2 (by omega)
  have hM : 0 < 2 ^ t' := Nat.pow_pos (by norm_num)
  have hmmod : 2 ^ t' % 2 ^ (b + 1) = 0 := Nat.mod_eq_zero_of_dvd hB2m
  have hmem : ∀ j, j ∈ Coeffs.stepRange (2 ^ b) (2 ^ t') (2 * 2 ^ b) ↔
      (j < 2 ^ t' ∧ j % 2 ^ (b + 1) = 2 ^ b) := by
    intro j
    rw [mem_stepRange _ _ _ _ (by omega), hB2]
    constructor
    · rintro ⟨k, rfl, hlt⟩
      exact ⟨hlt, by rw [Nat.add_mul_mod_self_right]; exact Nat.mod_eq_of_lt (by omega)⟩
    · rintro ⟨hlt, hmd⟩
      refine ⟨j / (2 * 2 ^ b), ?_, hlt⟩
      have := Nat.div_add_mod j (2 * 2 ^ b)
      rw [hmd] at this
      rw [Nat.mul_comm]; omega
  -- a number ≡ B mod 2B is a multiple of B and positive
  have cls_facts : ∀ j, j % 2 ^ (b + 1) = 2 ^ b → 0 < j ∧ j % 2 ^ b = 0 := by
    intro j hj
    constructor
    · rcases Nat.eq_zero_or_pos j with h | h
      · subst h; simp at hj; omega
      · exact h
    · have : j % 2 ^ (b + 1) % 2 ^ b = 2 ^ b % 2 ^ b := by rw [hj]
      rw [Nat.mod_mod_of_dvd _ ⟨2, by ring⟩, Nat.mod_self] at this
      exact this
  obtain ⟨f1, f2, f3⟩ := fold_pairs (fun j => 2 ^ (t' + 1) - j) (fun _ v => v) (fun u _ => u)
    o.zero _ (nodup_stepRange (2 ^ b) (2 ^ t') (2 * 2 ^ b) (by omega))
    (fun j hj j' hj' => by
      have := (hmem j).1 hj; have := (hmem j').1 hj'; omega)
    (fun j hj j' hj' e => by
      have := (hmem j).1 hj; have := (hmem j').1 hj'; omega)
    res (fun j hj => by
      have h' := (hmem j).1 hj; have := (cls_facts j h'.2).1; rw [h1]; omega)
  set res1 := (Coeffs.stepRange (2 ^ b) (2 ^ t') (2 * 2 ^ b)).foldl (fun r j =>
          let tmp := r.getD j o.zero
          let r := r.setIfInBounds j (r.getD (2 ^ (t' + 1) - j) o.zero)
          r.setIfInBounds (2 ^ (t' + 1) - j) tmp) res with hres1
  -- touched cells are ≡ B modulo 2B
  have touched : ∀ z, (∀ j ∈ Coeffs.stepRange (2 ^ b) (2 ^ t') (2 * 2 ^ b), z ≠ j ∧ z ≠ 2 ^ (t' + 1) - j) ∨
      z % 2 ^ (b + 1) = 2 ^ b := by
    intro z
    by_cases cz : z % 2 ^ (b + 1) = 2 ^ b
    · right; exact cz
    · left
      intro j hj
      have hj' := (hmem j).1 hj
      constructor
      · intro e; rw [e] at cz; exact cz hj'.2
      · intro e
        have hjlt := hj'.1
        have hjc := hj'.2
        have := mirror_mod_sum (2 ^ (t' + 1)) j (2 ^ (b + 1)) hB2N (by omega) (by omega)
        rw [e] at cz
        omega
  refine ⟨by rw [f1, h1], ?_, ?_⟩
  · intro y hy c
    by_cases c0 : y % 2 ^ b = 0
    · -- y in the class
      have ycls : y % 2 ^ (b + 1) = 2 ^ b := by
        obtain ⟨k, hk⟩ := Nat.dvd_of_mod_eq_zero c0
        rcases Nat.mod_two_eq_zero_or_one k with hk2 | hk2
        · exfalso; apply c
          obtain ⟨q, hq⟩ : ∃ q, k = 2 * q := ⟨k / 2, by omega⟩
          have : y = q * 2 ^ (b + 1) := by rw [hk, hq, hB2]; ring
          rw [this, Nat.mul_mod_left]
        · obtain ⟨q, hq⟩ : ∃ q, k = 2 * q + 1 := ⟨k / 2, by omega⟩
          have : y = 2 ^ b + q * 2 ^ (b + 1) := by rw [hk, hq, hB2]; ring
          rw [this, Nat.add_mul_mod_self_right]; exact Nat.mod_eq_of_lt (by omega)
      have ypos := (cls_facts y ycls).1
      obtain ⟨k, hk⟩ := Nat.dvd_of_mod_eq_zero c0
      have hkodd : k % 2 = 1 := by
        rcases Nat.mod_two_eq_zero_or_one k with hk2 | hk2
        · exfalso; apply c
          obtain ⟨q, hq⟩ : ∃ q, k = 2 * q := ⟨k / 2, by omega⟩
          have : y = q * 2 ^ (b + 1) := by rw [hk, hq, hB2]; ring
          rw [this, Nat.mul_mod_left]
        · exact hk2
      have hv := vp_cast (2 ^ (t' + 1)) b pm
      have hE : autE (2 ^ (t' + 1)) pm y = 2 ^ (t' + 1) - y := by
        apply autE_eq _ _ _ _ hN (by omega)
        have hc' := congrArg (fun (v : Nat) => (v : ZMod (2 * 2 ^ (t' + 1)))) hc
        simp only [Nat.cast_add, hv] at hc'
        rw [Nat.cast_sub (by omega)]
        rw [hk, mul_cast]
        have ho := odd_mul_N (2 ^ (t' + 1)) k hkodd
        push_cast at hc' ho ⊢
        linear_combination (k : ZMod (2 * 2 ^ (t' + 1))) * hc' + ho
      have hsig : autSigma (2 ^ (t' + 1)) pm y = 2 ^ (t' + 1) - y := by
        rw [autSigma_eq_E, hE, Nat.mod_eq_of_lt (by omega)]
      have hlt : 2 ^ (t' + 1) - y < 2 ^ (t' + 1) := by omega
      rw [hsig, autG_eq_E, hE, if_pos hlt]
      have yne : y ≠ 2 ^ t' := by intro e; rw [e] at ycls; omega
      rcases Nat.lt_or_ge y (2 ^ t') with ylt | yge
      · have hym : y ∈ Coeffs.stepRange (2 ^ b) (2 ^ t') (2 * 2 ^ b) := (hmem y).2 ⟨ylt, ycls⟩
        rw [(f2 y hym).2, h3 y hy c0]
      · have hjm : 2 ^ (t' + 1) - y ∈ Coeffs.stepRange (2 ^ b) (2 ^ t') (2 * 2 ^ b) := by
          rw [hmem]; refine ⟨by omega, ?_⟩
          have := mirror_mod_sum (2 ^ (t' + 1)) y (2 ^ (b + 1)) hB2N (by omega) (by omega)
          omega
        have hyy : 2 ^ (t' + 1) - (2 ^ (t' + 1) - y) = y := by omega
        rw [(f2 _ hjm).1, hyy, h3 y hy c0]
    · have hs := sigma_mod_ne (t' + 1) b pm y (by omega) hpm c0
      rcases touched (autSigma (2 ^ (t' + 1)) pm y) with ht | ht
      · rw [f3 _ ht]; exact h2 y hy c0
      · exact absurd (cls_facts _ ht).2 hs
  · intro y hy c
    rcases touched y with ht | ht
    · rw [f3 _ ht]
      apply h3 y hy
      have : y % 2 ^ (b + 1) % 2 ^ b = 0 % 2 ^ b := by rw [c]
      rw [Nat.mod_mod_of_dvd _ ⟨2, by ring⟩] at this
      simpa using this
    · rw [ht] at c; omega

end Spq.Rq
