/-
  C06.4: transfer from the bit-level forward reim FFT to the structural network over an ordered field `K ⊇ ℚ`:
  if the flags of the flagged run hold (all exact partial results in the normal range, all operands finite), the
  values of the binary64 outputs are the outputs of the network `VN` run with the guarded arithmetic lifted to `K`.
-/
import SpqProofs.Lemmas.FftErrSchedF64
set_option linter.unusedSectionVars false
namespace Spq.FftErr
open Spq.Fft Spq.Fft.Alg Spq.Fft.RelN Spq.Fft.SimP Spq.Fft.LevelN Spq.Fft.SchedN Spq.Fft.Sim Spq.F64
variable {K : Type} [Field K] [LinearOrder K] [IsStrictOrderedRing K]

theorem valP_map {α β : Type} (f : α → β) (c s : ℕ → α) (x : Ent) : f (valP c s x) = valP (fun e => f (c e)) (fun e => f (s e)) x := by
  unfold valP; split <;> rfl

theorem table_map {α β : Type} (f : α → β) (c s : ℕ → α) (L : List Ent) :
    ((L.map (valP c s)).toArray).map f = (L.map (valP (fun e => f (c e)) (fun e => f (s e)))).toArray := by
  rw [List.map_toArray, List.map_map]
  congr 1
  apply List.map_congr_left
  intro x _
  exact valP_map f c s x

/-- a family of implementations (`fwdRef`, `fwdFma`) that respects simulations -/
structure FamOK (Fam : ∀ {α : Type}, Arith α → Flav α) : Prop where
  sim : ∀ {α β : Type} {Rl : α → β → Prop} {A : Arith α} {B : Arith β}, ASim Rl A B → FlavSim Rl (Fam A) (Fam B)

theorem famRef : FamOK (fun {α} A => fwdRef (α := α) A) := ⟨fun h => fwdRef_sim h⟩
theorem famFma : FamOK (fun {α} A => fwdFma (α := α) A) := ⟨fun h => fwdFma_sim h⟩

/-- **transfer** -/
theorem fft_transfer (Fam : ∀ {α : Type}, Arith α → Flav α) (hFam : FamOK Fam) (k : ℕ) (cN sN : ℕ → ℕ)
    (data : Array ℕ) (hdata : data.size = 2 * 2 ^ k)
    (hok : ∀ p, p < 2 * 2 ^ k →
      ((reimFftA (Fam aOk) (2 ^ k) ((((reimFftEnts (2 ^ k)).map (valP cN sN)).toArray).map lift) (data.map lift))[p]!).2)
    (j : ℕ) (hj : j < 2 ^ k) :
    Fin64 ((reimFftA (Fam f64) (2 ^ k) ((reimFftEnts (2 ^ k)).map (valP cN sN)).toArray data)[j]!) ∧
    Fin64 ((reimFftA (Fam f64) (2 ^ k) ((reimFftEnts (2 ^ k)).map (valP cN sN)).toArray data)[2 ^ k + j]!) ∧
    ((val ((reimFftA (Fam f64) (2 ^ k) ((reimFftEnts (2 ^ k)).map (valP cN sN)).toArray data)[j]!) : ℚ) : K) =
      (VN (gNet (Fam (liftA aG : Arith K)) (fun e => ((val (cN e) : ℚ) : K)) (fun e => ((val (sN e) : ℚ) : K)) k)
        (fun p => (((val data[p]! : ℚ) : K), ((val data[2 ^ k + p]! : ℚ) : K))) k 0 j).1 ∧
    ((val ((reimFftA (Fam f64) (2 ^ k) ((reimFftEnts (2 ^ k)).map (valP cN sN)).toArray data)[2 ^ k + j]!) : ℚ) : K) =
      (VN (gNet (Fam (liftA aG : Arith K)) (fun e => ((val (cN e) : ℚ) : K)) (fun e => ((val (sN e) : ℚ) : K)) k)
        (fun p => (((val data[p]! : ℚ) : K), ((val data[2 ^ k + p]! : ℚ) : K))) k 0 j).2 := by
  have hd' : (data.map lift).size = 2 * 2 ^ k := by rw [Array.size_map]; exact hdata
  have hv := splitRI_validN (2 ^ k) data hdata
  have hv' := splitRI_validN (2 ^ k) (data.map lift) hd'
  rw [table_map lift cN sN] at hok
  obtain ⟨st1, vo1⟩ := fftRI_struct (Fam f64) cN sN k (splitRI (2 ^ k) data) hv
  obtain ⟨st2, vo2⟩ := fftRI_struct (Fam aOk) (fun e => lift (cN e)) (fun e => lift (sN e)) k
    (splitRI (2 ^ k) (data.map lift)) hv'
  -- inputs
  have in2 : ∀ p, p < 2 ^ k → prs (splitRI (2 ^ k) (data.map lift)) p = (lift data[p]!, lift data[2 ^ k + p]!) := by
    intro p hp
    show ((splitRI (2 ^ k) (data.map lift)).re[p]!, (splitRI (2 ^ k) (data.map lift)).im[p]!) = _
    rw [splitRI_reN _ _ hd' p hp, splitRI_imN _ _ hd' p hp, getElem!_map lift data p (by omega),
      getElem!_map lift data (2 ^ k + p) (by omega)]
  have in1 : ∀ p, p < 2 ^ k → prs (splitRI (2 ^ k) data) p = (data[p]!, data[2 ^ k + p]!) := by
    intro p hp
    show ((splitRI (2 ^ k) data).re[p]!, (splitRI (2 ^ k) data).im[p]!) = _
    rw [splitRI_reN _ _ hdata p hp, splitRI_imN _ _ hdata p hp]
  -- the three relations between the four networks
  have r1 := VN_rel_on (R2 (fun (x : Nat × Prop) (b : Nat) => x.1 = b)) _ _
    (fun ℓ d b u u' v v' hu hv => gNet_sim (hFam.sim aOk_sim_f64) (fun e => lift (cN e)) (fun e => lift (sN e)) cN sN
      (fun _ => rfl) (fun _ => rfl) k ℓ d b hu hv) k (prs (splitRI (2 ^ k) (data.map lift))) (prs (splitRI (2 ^ k) data))
    (fun p hp => by rw [in2 p hp, in1 p hp]; exact ⟨rfl, rfl⟩) k 0 j (by omega) hj
  have r2 := VN_rel_on (R2 RelQ) _ _
    (fun ℓ d b u u' v v' hu hv => gNet_sim (hFam.sim aOk_sim_aG) (fun e => lift (cN e)) (fun e => lift (sN e))
      (fun e => val (cN e)) (fun e => val (sN e)) (fun _ h => ⟨h, rfl⟩) (fun _ h => ⟨h, rfl⟩) k ℓ d b hu hv) k
    (prs (splitRI (2 ^ k) (data.map lift))) (fun p => (val data[p]!, val data[2 ^ k + p]!))
    (fun p hp => by rw [in2 p hp]; exact ⟨fun h => ⟨h, rfl⟩, fun h => ⟨h, rfl⟩⟩) k 0 j (by omega) hj
  have r3 := VN_rel_on (R2 (fun (q : ℚ) (x : K) => x = (q : K))) _ _
    (fun ℓ d b u u' v v' hu hv => gNet_sim (hFam.sim (liftA_sim (K := K) aG aG_neg)) (fun e => val (cN e))
      (fun e => val (sN e)) (fun e => ((val (cN e) : ℚ) : K)) (fun e => ((val (sN e) : ℚ) : K)) (fun _ => rfl)
      (fun _ => rfl) k ℓ d b hu hv) k (fun p => (val data[p]!, val data[2 ^ k + p]!))
    (fun p => (((val data[p]! : ℚ) : K), ((val data[2 ^ k + p]! : ℚ) : K)))
    (fun p _ => ⟨rfl, rfl⟩) k 0 j (by omega) hj
  -- the flags of the two outputs
  have f1 := hok j (by omega)
  have f2 := hok (2 ^ k + j) (by omega)
  unfold reimFftA at f1 f2 ⊢
  rw [joinRI_reN _ _ vo2 j hj] at f1
  rw [joinRI_imN _ _ vo2 j hj] at f2
  rw [joinRI_reN _ _ vo1 j hj, joinRI_imN _ _ vo1 j hj]
  have e1 := st1 j hj
  have e2 := st2 j hj
  rw [← e1] at r1
  rw [← e2] at r1 r2
  obtain ⟨a1, a2⟩ := r1
  obtain ⟨b1, b2⟩ := r2
  obtain ⟨c1, c2⟩ := r3
  obtain ⟨g1, g2⟩ := b1 f1
  obtain ⟨g3, g4⟩ := b2 f2
  simp only [prs] at a1 a2 g1 g2 g3 g4
  rw [a1] at g1 g2
  rw [a2] at g3 g4
  refine ⟨g1, g3, ?_, ?_⟩
  · rw [g2]; exact c1.symm
  · rw [g4]; exact c2.symm

end Spq.FftErr
