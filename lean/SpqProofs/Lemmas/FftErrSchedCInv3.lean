/-
  C06.4, structural schedule theorem (inverse cplx), part 3: `cibfs16`.
-/
import SpqProofs.Lemmas.FftErrSchedCInv2
set_option linter.unusedSectionVars false
set_option linter.unusedSimpArgs false
namespace Spq.Fft.SchedC
open Spq.Fft Spq.Fft.Alg Spq.Fft.View Spq.Fft.Sim Spq.Fft.SimP Spq.Fft.LevelN Spq.Fft.KernN Spq.Fft.Tw Spq.Fft.SchedN
open Spq.Fft.Tab (length_flatMap_const)
open Spq.Fft.Sched (iter_counter)

variable {R : Type} [Inhabited R]
variable (F : CFlav R) (c s : ℕ → R) (k : ℕ) (y : ℕ → R × R)

/-- `cibfs16` (m' = 2^D, 16 ≤ m' ≤ 2048) -/
theorem cibfs16_specN (hl : F.lanesOdd = false) (T : Array R) (N ℓ0 D b0 off m' t : ℕ) (s0 : RI R)
    (hk : k = ℓ0 + D) (hm : m' = 2 ^ D) (hD : 4 ≤ D) (hD11 : D ≤ 11) (hreg : min k 11 = D)
    (hoff : off = m' * b0) (hN : off + m' ≤ N) (hs : Valid N s0)
    (hT : SegP T t ((ciBfs16 (4 * 2 ^ k) m' (m' * (1 + 4 * brev ℓ0 b0))).map (valP c s))) :
    AdvI k (gNetCI F c s k) y (prs s0) (prs (cibfs16 F T m' off (s0, t)).1) 0 D off m' ∧
      Valid N (cibfs16 F T m' off (s0, t)).1 ∧
      (cibfs16 F T m' off (s0, t)).2 = t + (ciBfs16 (4 * 2 ^ k) m' (m' * (1 + 4 * brev ℓ0 b0))).length := by
  have hlog : m'.log2 = D := by rw [hm]; exact Nat.log2_two_pow
  have hpos : 0 < m' := by rw [hm]; exact Nat.two_pow_pos _
  have h16 : m' / 16 * 16 = m' := by
    have : m' = 2 ^ (D - 4) * 16 := by
      rw [hm, show (16 : ℕ) = 2 ^ 4 by norm_num, ← pow_add 2 (D - 4) 4]; congr 1; omega
    omega
  obtain ⟨i, p, hp, hDi⟩ : ∃ i p, p < 2 ∧ D = 4 + 2 * i + p := ⟨(D - 4) / 2, (D - 4) % 2, by omega, by omega⟩
  have hss : m' * (1 + 4 * brev ℓ0 b0) * 16 / m' = 16 * (1 + 4 * brev ℓ0 b0) := by
    rw [show m' * (1 + 4 * brev ℓ0 b0) * 16 = m' * (16 * (1 + 4 * brev ℓ0 b0)) by ring]
    exact Nat.mul_div_cancel_left _ hpos
  have hlenL : ((List.range (m' / 16)).flatMap (fun b =>
      ciFill16 (4 * 2 ^ k) (16 * (1 + 4 * brev ℓ0 b0) + frbN (4 * 2 ^ k) b))).length = m' := by
    rw [length_flatMap_const _ 16 _ (fun b => by simp [ciFill16, eM, gam]), h16]
  have hfuel : i ≤ m' := by have := @Nat.lt_two_pow_self D; omega
  unfold cibfs16
  rw [ciBfs16, hss, hlog, List.map_append] at hT
  rw [ciBfs16, hss, hlog, List.length_append, hlenL]
  have s1 := icleaves_specN F c s k y T N ℓ0 (2 * i + p) b0 off m' t s0 hs (by omega)
    (by rw [hm, hDi]; congr 1; omega) hoff hN hT.left
  simp only at s1
  obtain ⟨sA, tA, hst⟩ : ∃ sA tA, iterFrom (fun b (st : RI R × ℕ) =>
    (ifft16K F.big (cplxW16 T st.2) (off + 16 * b) st.1, st.2 + 16)) (m' / 16) 0 (s0, t) = (sA, tA) := ⟨_, _, rfl⟩
  rw [hst] at s1
  simp only [hst]
  obtain ⟨a1, v1, p1⟩ := s1
  simp only at a1 v1 p1
  have hT2 := hT.right
  rw [List.length_map, hlenL, ← p1] at hT2
  by_cases hodd : D % 2 != 0
  · have hp1 : p = 1 := by simp at hodd; omega
    subst hp1
    rw [if_pos hodd] at hT2 ⊢
    rw [if_pos hodd]
    rw [List.map_append] at hT2
    have s2 := ciodd_specN F c s k y hl T N ℓ0 (2 * i) b0 off m' tA sA (by omega) (by omega) v1 (by omega)
      (by rw [hm, hDi]; congr 1; omega) hoff hN hT2.left
    simp only at s2
    obtain ⟨sB, tB, hst2⟩ : ∃ sB tB, iterFrom (fun b (st : RI R × ℕ) =>
      (twPassL F.ctOdd F.lanesOdd T st.2 16 (off + b * 32) st.1, st.2 + 2)) (m' / 32) 0 (sA, tA) = (sB, tB) :=
      ⟨_, _, rfl⟩
    rw [hst2] at s2
    simp only [hst2]
    obtain ⟨a2, v2, p2⟩ := s2
    simp only at a2 v2 p2
    have hlenO : (List.map (valP c s) ((List.range (m' / 32)).flatMap (fun i =>
        eM (16 * (1 + 4 * brev ℓ0 b0) + frbN (4 * 2 ^ k) i / 2)))).length = 2 * (m' / 32) := by
      rw [List.length_map, length_flatMap_const _ 2 _ (fun b => by simp [eM])]; ring
    have hT3 := hT2.right
    rw [hlenO, ← p2] at hT3
    have s3 := cibfsLevels_specN F c s k y T N ℓ0 D b0 off m' hD11 hreg hk hm hoff hN i m' 5 32
      (16 * (1 + 4 * brev ℓ0 b0) * 2) sB tB (by omega) (by norm_num) (by omega) (by ring) hfuel v2 hT3
    obtain ⟨a3, v3, p3⟩ := s3
    refine ⟨(a1.seq a2).seq a3, v3, ?_⟩
    rw [p3, p2, p1, List.length_append, length_flatMap_const _ 2 _ (fun b => by simp [eM])]; ring
  · have hp0 : p = 0 := by simp at hodd; omega
    subst hp0
    rw [if_neg hodd] at hT2 ⊢
    rw [if_neg hodd]
    have s3 := cibfsLevels_specN F c s k y T N ℓ0 D b0 off m' hD11 hreg hk hm hoff hN i m' 4 16
      (16 * (1 + 4 * brev ℓ0 b0)) sA tA (by omega) (by norm_num) (by omega) rfl hfuel v1 hT2
    obtain ⟨a3, v3, p3⟩ := s3
    refine ⟨a1.seq a3, v3, ?_⟩
    rw [p3, p1]; ring

end Spq.Fft.SchedC
