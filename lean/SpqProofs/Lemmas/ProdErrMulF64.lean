/-
  C01 rounding budget, step 1b: binary64 instance of the pointwise multiply.  Flagged run (`arithOk`) → the
  bit-level result is finite and its value is the result of the guarded rational arithmetic `arG` (standard model,
  `u = 2^-53`), hence the 2-norm error bound of every complex cell, in any ordered field `K ⊇ ℚ`.
-/
import SpqProofs.Lemmas.ProdErrMul
set_option linter.unusedSectionVars false
namespace Spq.ProdErr
open Finset Spq.Reim4 Spq.F64 Spq.FftErr

theorem arG_zero : arG.zero = 0 := rfl

/-- transfer of one cell of the product: flag ⇒ finite, and value computed by `arG` on the values -/
theorem mul_transfer (fma : Bool) (m : ℕ) (hm : fma = true → m % 4 = 0) (a b : Array ℕ) (p : ℕ) (hp : p < m)
    (hf1 : ((mulA arithOk fma m (a.map lift) (b.map lift)).getD p arithOk.zero).2)
    (hf2 : ((mulA arithOk fma m (a.map lift) (b.map lift)).getD (p + m) arithOk.zero).2) :
    (Fin64 ((mulA F64.arith fma m a b).getD p 0) ∧
      val ((mulA F64.arith fma m a b).getD p 0) =
        cellRe arG fma (val (a.getD p 0)) (val (a.getD (p + m) 0)) (val (b.getD p 0)) (val (b.getD (p + m) 0))) ∧
    (Fin64 ((mulA F64.arith fma m a b).getD (p + m) 0) ∧
      val ((mulA F64.arith fma m a b).getD (p + m) 0) =
        cellIm arG fma (val (a.getD p 0)) (val (a.getD (p + m) 0)) (val (b.getD p 0)) (val (b.getD (p + m) 0))) := by
  obtain ⟨c1, c2⟩ := (mulA_cells arithOk fma m hm (a.map lift) (b.map lift)).2 p hp
  obtain ⟨d1, d2⟩ := (mulA_cells F64.arith fma m hm a b).2 p hp
  have rq : ∀ (x : Array ℕ) i, RelQ ((x.map lift).getD i arithOk.zero) (val (x.getD i 0)) := by
    intro x i
    have := lift_rel_arG x i
    rw [arG_zero, ← val_zero, getD_map] at this
    exact this
  have rb : ∀ (x : Array ℕ) i, ((x.map lift).getD i arithOk.zero).1 = x.getD i 0 := fun x i => lift_rel_arith x i
  have z0 : F64.arith.zero = 0 := rfl
  rw [z0] at d1 d2
  constructor
  · have s1 : (cellRe arithOk fma ((a.map lift).getD p arithOk.zero) ((a.map lift).getD (p + m) arithOk.zero)
        ((b.map lift).getD p arithOk.zero) ((b.map lift).getD (p + m) arithOk.zero)).1 =
        cellRe F64.arith fma (a.getD p 0) (a.getD (p + m) 0) (b.getD p 0) (b.getD (p + m) 0) :=
      cellRe_sim arithOk_sim_arith fma (rb a p) (rb a (p + m)) (rb b p) (rb b (p + m))
    have s2 := cellRe_sim arithOk_sim_arG fma (rq a p) (rq a (p + m)) (rq b p) (rq b (p + m))
    rw [c1] at hf1
    rw [d1]
    generalize cellRe arithOk fma ((a.map lift).getD p arithOk.zero) ((a.map lift).getD (p + m) arithOk.zero)
        ((b.map lift).getD p arithOk.zero) ((b.map lift).getD (p + m) arithOk.zero) = X at s1 s2 hf1
    obtain ⟨h1, h2⟩ := s2 hf1
    rw [s1] at h1 h2
    exact ⟨h1, h2⟩
  · have s1 : (cellIm arithOk fma ((a.map lift).getD p arithOk.zero) ((a.map lift).getD (p + m) arithOk.zero)
        ((b.map lift).getD p arithOk.zero) ((b.map lift).getD (p + m) arithOk.zero)).1 =
        cellIm F64.arith fma (a.getD p 0) (a.getD (p + m) 0) (b.getD p 0) (b.getD (p + m) 0) :=
      cellIm_sim arithOk_sim_arith fma (rb a p) (rb a (p + m)) (rb b p) (rb b (p + m))
    have s2 := cellIm_sim arithOk_sim_arG fma (rq a p) (rq a (p + m)) (rq b p) (rq b (p + m))
    rw [c2] at hf2
    rw [d2]
    generalize cellIm arithOk fma ((a.map lift).getD p arithOk.zero) ((a.map lift).getD (p + m) arithOk.zero)
        ((b.map lift).getD p arithOk.zero) ((b.map lift).getD (p + m) arithOk.zero) = X at s1 s2 hf2
    obtain ⟨h1, h2⟩ := s2 hf2
    rw [s1] at h1 h2
    exact ⟨h1, h2⟩

variable {K : Type} [Field K] [LinearOrder K] [IsStrictOrderedRing K]

/-- complex cell `j` of a reim vector of `m` complexes, as a complex number over `K` -/
def cpl (x : Array ℕ) (m j : ℕ) : Cplx K := toC (((val (x.getD j 0) : ℚ) : K), ((val (x.getD (m + j) 0) : ℚ) : K))

theorem outC_eq_cpl (x : Array ℕ) (k j : ℕ) : (outC x k j : Cplx K) = cpl x (2 ^ k) j := by
  unfold outC cpl
  simp only [getElem!_def, Array.getD_eq_getD_getElem?]
  rfl

/-- the constant of the pointwise product: `μ = 3/2·((1+u)² − 1)`, `u = 2^-53` (`≈ 3u`) -/
def mu64 : ℚ := 3 / 2 * gam u64

theorem mu64_nonneg : 0 ≤ mu64 := by
  unfold mu64; have := gam_nonneg (le_of_lt u64_pos); positivity

/-- **error of one complex cell of the binary64 pointwise product** (both kernels) -/
theorem mul_cell_err (fma : Bool) (m : ℕ) (hm : fma = true → m % 4 = 0) (a b : Array ℕ) (p : ℕ) (hp : p < m)
    (hf1 : ((mulA arithOk fma m (a.map lift) (b.map lift)).getD p arithOk.zero).2)
    (hf2 : ((mulA arithOk fma m (a.map lift) (b.map lift)).getD (p + m) arithOk.zero).2) :
    Fin64 ((mulA F64.arith fma m a b).getD p 0) ∧ Fin64 ((mulA F64.arith fma m a b).getD (p + m) 0) ∧
    nsq (cpl (mulA F64.arith fma m a b) m p - cpl a m p * cpl b m p : Cplx K) ≤
      ((mu64 : ℚ) : K) ^ 2 * (nsq (cpl a m p : Cplx K) * nsq (cpl b m p : Cplx K)) := by
  obtain ⟨⟨f1, v1⟩, ⟨f2, v2⟩⟩ := mul_transfer fma m hm a b p hp hf1 hf2
  refine ⟨f1, f2, ?_⟩
  have hq := cell_err arG u64 arG_stdModel fma (val (a.getD p 0)) (val (a.getD (p + m) 0)) (val (b.getD p 0))
    (val (b.getD (p + m) 0))
  rw [← v1, ← v2] at hq
  have hK := (Rat.cast_le (K := K)).2 hq
  unfold mu64
  simp only [nsq, cpl, toC, QuadraticAlgebra.re_sub, QuadraticAlgebra.im_sub, QuadraticAlgebra.re_mul,
    QuadraticAlgebra.im_mul, Nat.add_comm m p]
  push_cast at hK ⊢
  refine le_trans (le_of_eq ?_) hK
  ring

end Spq.ProdErr
