/-
  Helpers for `vec_znx_normalize_base2k_ref` (`Properties/SrcVecNorm.lean`): windows of an arena with a scratch
  window `[t, t+nn)` that the heap model does not track (`scr`), the downward limb loop as an indexed sequence of
  model states (`seqD`, `List.foldl` over a reversed range), monotonicity of the model's bounds flag.
-/
import SpqProofs.Lemmas.SrcNormKern
import SpqProofs.Lemmas.SrcVec
import SpqProofs.Lemmas.NormHeap
namespace Spq.CIR
open Spq Spq.Norm

theorem ext_getD0 (a b : Array Int) (hs : a.size = b.size) (h : ∀ i, i < a.size → a.getD i 0 = b.getD i 0) :
    a = b := by
  apply Array.ext hs
  intro i h1 h2
  have := h i h1
  simpa [Array.getD, h1, h2] using this

/-! ### windows and `writeArr` -/
theorem win_ext (A A' : Array Int) (o nn : Nat) (h : ∀ c, c < nn → A.getD (o + c) 0 = A'.getD (o + c) 0) :
    win A o nn = win A' o nn := by
  apply ext_getD0 _ _ (by simp)
  intro i hi
  simp only [size_win] at hi
  rw [getD_win _ _ _ _ hi, getD_win _ _ _ _ hi, h i hi]

theorem win_writeArr_disj (M c : Array Int) (t ao nn : Nat) (h : ao + nn ≤ t ∨ t + c.size ≤ ao) :
    win (Heap.writeArr M t c) ao nn = win M ao nn := by
  apply win_ext
  intro i hi
  rw [getD_writeArr, if_neg (by omega)]

theorem win_writeArr_same (M c : Array Int) (t nn : Nat) (hc : c.size = nn) (ht : t + nn ≤ M.size) :
    win (Heap.writeArr M t c) t nn = c := by
  apply ext_getD0 _ _ (by simp [hc])
  intro i hi
  simp only [size_win] at hi
  rw [getD_win _ _ _ _ hi, getD_writeArr, if_pos (by omega)]
  congr 1; omega

theorem writeArr_writeArr_same (M c c' : Array Int) (t : Nat) (h : c.size = c'.size) :
    Heap.writeArr (Heap.writeArr M t c) t c' = Heap.writeArr M t c' := by
  apply ext_getD0 _ _ (by simp)
  intro i _
  simp only [getD_writeArr, Heap.size_writeArr]
  repeat' split
  all_goals first | rfl | (exfalso; omega)

theorem writeArr_comm (M c r : Array Int) (t ro : Nat) (h : ro + r.size ≤ t ∨ t + c.size ≤ ro) :
    Heap.writeArr (Heap.writeArr M t c) ro r = Heap.writeArr (Heap.writeArr M ro r) t c := by
  apply ext_getD0 _ _ (by simp)
  intro i _
  simp only [getD_writeArr, Heap.size_writeArr]
  repeat' split
  all_goals first | rfl | (exfalso; omega)

theorem writeArr_win_self (M : Array Int) (t nn : Nat) (_ht : t + nn ≤ M.size) :
    Heap.writeArr M t (win M t nn) = M := by
  apply ext_getD0 _ _ (by simp)
  intro i _
  rw [getD_writeArr, size_win]
  by_cases h1 : t ≤ i ∧ i < t + nn ∧ i < M.size
  · rw [if_pos h1, getD_win _ _ _ _ (by omega)]; congr 1; omega
  · rw [if_neg h1]

/-! ### downward loops: the model state after `d` iterations from index `top` -/
def seqD {σ : Type} (f : σ → Nat → σ) (top : Nat) (st : σ) : Nat → σ
  | 0 => st
  | d + 1 => f (seqD f top st d) (top - d)

theorem seqD_shift {σ : Type} (f : σ → Nat → σ) (top : Nat) (st : σ) :
    ∀ d, seqD f top st (d + 1) = seqD f (top - 1) (f st top) d := by
  intro d
  induction d with
  | zero => rfl
  | succ d ih =>
    show f (seqD f top st (d + 1)) (top - (d + 1)) = f (seqD f (top - 1) (f st top) d) (top - 1 - d)
    rw [ih]; congr 1; omega

theorem foldl_reverse_range' {σ : Type} (f : σ → Nat → σ) :
    ∀ n lo st, (List.range' lo n).reverse.foldl f st = seqD f (lo + n - 1) st n := by
  intro n
  induction n with
  | zero => intro lo st; rfl
  | succ n ih =>
    intro lo st
    rw [List.range'_concat, List.reverse_append, List.reverse_singleton, List.singleton_append, List.foldl_cons,
      Nat.one_mul, ih, seqD_shift]
    congr 1

end Spq.CIR

namespace Spq.CIR
open Spq Spq.Norm

/-! ### the model states of `VecZnx.normalize` and the arena -/

/-- arena content for the model state `st`: the model heap, the scratch window holding the last carry -/
def scr (t : Nat) (st : NState) : Array Int :=
  match st.2 with
  | none => st.1.mem
  | some c => Heap.writeArr st.1.mem t c

structure NInv (nn sz : Nat) (st : NState) : Prop where
  size : st.1.mem.size = sz
  csize : ∀ c, st.2 = some c → c.size = nn

theorem nstep_snd (nn k res rsz rsl a asl : Nat) (st : NState) (i : Nat) :
    (nstep nn k res rsz rsl a asl st i).2
      = some (Coeffs.znxNormalize nn k (win st.1.mem (a + i * asl) nn) st.2).2 := rfl

theorem nstep_mem_lt (nn k res rsz rsl a asl : Nat) (st : NState) (i : Nat) (h : i < rsz) :
    (nstep nn k res rsz rsl a asl st i).1.mem
      = Heap.writeArr st.1.mem (res + i * rsl) (Coeffs.znxNormalize nn k (win st.1.mem (a + i * asl) nn) st.2).1 := by
  simp only [nstep, if_pos h]; rfl

theorem nstep_mem_ge (nn k res rsz rsl a asl : Nat) (st : NState) (i : Nat) (h : ¬ i < rsz) :
    (nstep nn k res rsz rsl a asl st i).1.mem = st.1.mem := by
  simp only [nstep, if_neg h]; rfl

theorem nstep_ok (nn k res rsz rsl a asl : Nat) (st : NState) (i : Nat)
    (h : (nstep nn k res rsz rsl a asl st i).1.ok = true) :
    st.1.ok = true ∧ a + i * asl + nn ≤ st.1.mem.size ∧ (i < rsz → res + i * rsl + nn ≤ st.1.mem.size) := by
  by_cases hi : i < rsz
  · simp only [nstep, if_pos hi, Heap.writeLimb, Heap.touch, Bool.and_eq_true, decide_eq_true_eq, znx_size1] at h
    exact ⟨h.1.1, h.1.2, fun _ => h.2⟩
  · simp only [nstep, if_neg hi, Heap.touch, Bool.and_eq_true, decide_eq_true_eq] at h
    exact ⟨h.1, h.2, fun hh => absurd hh hi⟩

theorem nstep_inv (nn k res rsz rsl a asl sz : Nat) (st : NState) (i : Nat) (h : NInv nn sz st) :
    NInv nn sz (nstep nn k res rsz rsl a asl st i) := by
  refine ⟨?_, ?_⟩
  · by_cases hi : i < rsz
    · rw [nstep_mem_lt _ _ _ _ _ _ _ _ _ hi, Heap.size_writeArr, h.size]
    · rw [nstep_mem_ge _ _ _ _ _ _ _ _ _ hi, h.size]
  · intro c hc
    rw [nstep_snd] at hc
    cases hc
    exact znx_size2 _ _ _ _

theorem seqD_ok (f : NState → Nat → NState) (hf : ∀ st i, (f st i).1.ok = true → st.1.ok = true) (top : Nat)
    (st : NState) : ∀ n, (seqD f top st n).1.ok = true → ∀ d, d ≤ n → (seqD f top st d).1.ok = true := by
  intro n
  induction n with
  | zero => intro h d hd; have : d = 0 := by omega
            subst this; exact h
  | succ n ih =>
    intro h d hd
    by_cases hdn : d = n + 1
    · subst hdn; exact h
    · exact ih (hf _ _ h) d (by omega)

theorem seqD_inv (nn sz : Nat) (f : NState → Nat → NState) (hf : ∀ st i, NInv nn sz st → NInv nn sz (f st i))
    (top : Nat) (st : NState) (h : NInv nn sz st) : ∀ d, NInv nn sz (seqD f top st d) := by
  intro d
  induction d with
  | zero => exact h
  | succ d ih => exact hf _ _ ih

end Spq.CIR

namespace Spq.CIR
open Spq Spq.Norm

/-! ### one limb step on the arena `scr t st` (results of the lemmas `arena_norm_*`) is the model's step -/
section scrstep
variable (nn k res rsz rsl a asl t sz : Nat)

theorem scr_none (st : NState) (h : st.2 = none) : scr t st = st.1.mem := by
  unfold scr; rw [h]
theorem scr_some (st : NState) (c : Array Int) (h : st.2 = some c) : scr t st = Heap.writeArr st.1.mem t c := by
  unfold scr; rw [h]

theorem size_scr (st : NState) : (scr t st).size = st.1.mem.size := by
  unfold scr; split <;> simp

/-- carry-only step (`out = NULL`), no carry in -/
theorem scr_step_ge_none (st : NState) (i : Nat) (hi : ¬ i < rsz) (h2 : st.2 = none) :
    Heap.writeArr (scr t st) t (Coeffs.znxNormalize nn k (win (scr t st) (a + i * asl) nn) none).2
      = scr t (nstep nn k res rsz rsl a asl st i) := by
  rw [scr_none t st h2, scr_some t _ _ (nstep_snd _ _ _ _ _ _ _ _ _), nstep_mem_ge _ _ _ _ _ _ _ _ _ hi, h2]

/-- carry-only step with carry in -/
theorem scr_step_ge_some (st : NState) (hinv : NInv nn sz st) (i : Nat) (hi : ¬ i < rsz) (c : Array Int)
    (h2 : st.2 = some c) (hat : a + i * asl + nn ≤ t ∨ t + nn ≤ a + i * asl) (ht : t + nn ≤ sz) :
    Heap.writeArr (scr t st) t
        (Coeffs.znxNormalize nn k (win (scr t st) (a + i * asl) nn) (some (win (scr t st) t nn))).2
      = scr t (nstep nn k res rsz rsl a asl st i) := by
  have hc : c.size = nn := hinv.csize c h2
  rw [scr_some t st c h2, scr_some t _ _ (nstep_snd _ _ _ _ _ _ _ _ _), nstep_mem_ge _ _ _ _ _ _ _ _ _ hi, h2,
    win_writeArr_disj _ _ _ _ _ (by omega), win_writeArr_same _ _ _ _ hc (by rw [hinv.size]; exact ht),
    writeArr_writeArr_same _ _ _ _ (by rw [hc, znx_size2])]

/-- normalising step (`out = res_i`), no carry in -/
theorem scr_step_lt_none (st : NState) (i : Nat) (hi : i < rsz) (h2 : st.2 = none) :
    Heap.writeArr (Heap.writeArr (scr t st) (res + i * rsl)
        (Coeffs.znxNormalize nn k (win (scr t st) (a + i * asl) nn) none).1) t
        (Coeffs.znxNormalize nn k (win (scr t st) (a + i * asl) nn) none).2
      = scr t (nstep nn k res rsz rsl a asl st i) := by
  rw [scr_none t st h2, scr_some t _ _ (nstep_snd _ _ _ _ _ _ _ _ _), nstep_mem_lt _ _ _ _ _ _ _ _ _ hi, h2]

theorem scr_step_lt_some (st : NState) (hinv : NInv nn sz st) (i : Nat) (hi : i < rsz) (c : Array Int)
    (h2 : st.2 = some c) (hat : a + i * asl + nn ≤ t ∨ t + nn ≤ a + i * asl)
    (hrt : res + i * rsl + nn ≤ t ∨ t + nn ≤ res + i * rsl) (ht : t + nn ≤ sz) :
    Heap.writeArr (Heap.writeArr (scr t st) (res + i * rsl)
        (Coeffs.znxNormalize nn k (win (scr t st) (a + i * asl) nn) (some (win (scr t st) t nn))).1) t
        (Coeffs.znxNormalize nn k (win (scr t st) (a + i * asl) nn) (some (win (scr t st) t nn))).2
      = scr t (nstep nn k res rsz rsl a asl st i) := by
  have hc : c.size = nn := hinv.csize c h2
  rw [scr_some t st c h2, scr_some t _ _ (nstep_snd _ _ _ _ _ _ _ _ _), nstep_mem_lt _ _ _ _ _ _ _ _ _ hi, h2,
    win_writeArr_disj _ _ _ _ _ (by omega), win_writeArr_same _ _ _ _ hc (by rw [hinv.size]; exact ht),
    writeArr_comm st.1.mem c _ t (res + i * rsl) (by rw [znx_size1, hc]; omega),
    writeArr_writeArr_same _ _ _ _ (by rw [hc, znx_size2])]

/-- last step (`carry_out = NULL`): the scratch keeps the previous carry -/
theorem scr_last_none (st : NState) (i : Nat) (hi : i < rsz) (h2 : st.2 = none) :
    Heap.writeArr (scr t st) (res + i * rsl) (Coeffs.znxNormalize nn k (win (scr t st) (a + i * asl) nn) none).1
      = (nstep nn k res rsz rsl a asl st i).1.mem := by
  rw [scr_none t st h2, nstep_mem_lt _ _ _ _ _ _ _ _ _ hi, h2]

theorem scr_last_some (st : NState) (hinv : NInv nn sz st) (i : Nat) (hi : i < rsz) (c : Array Int)
    (h2 : st.2 = some c) (hat : a + i * asl + nn ≤ t ∨ t + nn ≤ a + i * asl)
    (hrt : res + i * rsl + nn ≤ t ∨ t + nn ≤ res + i * rsl) (ht : t + nn ≤ sz) :
    Heap.writeArr (scr t st) (res + i * rsl)
        (Coeffs.znxNormalize nn k (win (scr t st) (a + i * asl) nn) (some (win (scr t st) t nn))).1
      = Heap.writeArr (nstep nn k res rsz rsl a asl st i).1.mem t c := by
  have hc : c.size = nn := hinv.csize c h2
  rw [scr_some t st c h2, nstep_mem_lt _ _ _ _ _ _ _ _ _ hi, h2,
    win_writeArr_disj _ _ _ _ _ (by omega), win_writeArr_same _ _ _ _ hc (by rw [hinv.size]; exact ht),
    writeArr_comm st.1.mem c _ t (res + i * rsl) (by rw [znx_size1, hc]; omega)]
end scrstep

end Spq.CIR

namespace Spq.CIR
open Spq Spq.Norm Spq.Heap

/-- the zero-extension loop does not see the scratch window -/
theorem forLimbs_zero_scratch (nn res rsl t : Nat) (C : Array Int) (hC : C.size = nn) (lo : Nat) (h : Heap Int) :
    ∀ d, (∀ i, lo ≤ i → i < lo + d → res + i * rsl + nn ≤ t ∨ t + nn ≤ res + i * rsl) →
      (forLimbs lo (lo + d) (fun i => limb0 (Coeffs.zero i64Ops nn) (res + i * rsl)) ⟨writeArr h.mem t C, h.ok⟩).mem
          = writeArr (forLimbs lo (lo + d) (fun i => limb0 (Coeffs.zero i64Ops nn) (res + i * rsl)) h).mem t C ∧
        (forLimbs lo (lo + d) (fun i => limb0 (Coeffs.zero i64Ops nn) (res + i * rsl)) ⟨writeArr h.mem t C, h.ok⟩).ok
          = (forLimbs lo (lo + d) (fun i => limb0 (Coeffs.zero i64Ops nn) (res + i * rsl)) h).ok := by
  intro d
  induction d with
  | zero => intro _; simp only [Nat.add_zero, forLimbs_nil]; trivial
  | succ d ih =>
    intro hdis
    obtain ⟨ih1, ih2⟩ := ih (fun i h1 h2 => hdis i h1 (by omega))
    rw [← Nat.add_assoc, forLimbs_succ lo (lo + d) (by omega), forLimbs_succ lo (lo + d) (by omega)]
    refine ⟨?_, ?_⟩
    · rw [limb0_mem, limb0_mem, ih1, writeArr_comm _ _ _ _ _ (by
        have := hdis (lo + d) (by omega) (by omega)
        rw [size_kzero, hC]; omega)]
    · rw [limb0_ok, limb0_ok, ih1, ih2, size_writeArr]

end Spq.CIR
