/-
  Specification of the ring maps of Z[X]/(X^N+1) used by C09, as closed coefficient formulas over an
  arbitrary coefficient type `α` with operations `o : Ops α` (no algebraic law is assumed here; the
  theorems state exactly the laws they need).

  A *signed index* `e ∈ [0, 2N)` denotes the monomial `X^e`, with `X^(N+i) = -X^i`.
-/
import Spq.Coeffs
namespace Spq.Rq
variable {α : Type}

/-- signed read: coefficient of `X^e` for `e ∈ [0,2nn)`: `a[e]` if `e < nn`, `-a[e-nn]` otherwise -/
def sget (o : Ops α) (nn : Nat) (a : Array α) (e : Nat) : α :=
  if e < nn then a.getD e o.zero else o.neg (a.getD (e - nn) o.zero)

/-- coefficient `k` of `X^p · a`:  `s · a[(k-p) mod N]`, `s = -1` iff `(k-p) mod 2N ≥ N` -/
def rotCoeff (o : Ops α) (nn : Nat) (p : Int) (a : Array α) (k : Nat) : α :=
  let src := (((k : Int) - p) % (nn : Int)).toNat
  if (((k : Int) - p) % (2 * nn : Nat)).toNat < nn then a.getD src o.zero
  else o.neg (a.getD src o.zero)

/-- coefficient `k` of `(X^p - 1) · a = X^p·a - a` -/
def mulXpCoeff (o : Ops α) (nn : Nat) (p : Int) (a : Array α) (k : Nat) : α :=
  o.sub (rotCoeff o nn p a k) (a.getD k o.zero)

/-- exponent (mod 2N) to which the automorphism `X ↦ X^p` sends `X^i` -/
def autExp (nn : Nat) (p : Int) (i : Nat) : Nat := (((i : Int) * p) % (2 * nn : Nat)).toNat

/-- the value the automorphism puts at position `autExp nn p i % nn`: `± a[i]` -/
def autVal (o : Ops α) (nn : Nat) (p : Int) (a : Array α) (i : Nat) : α :=
  if autExp nn p i < nn then a.getD i o.zero else o.neg (a.getD i o.zero)

end Spq.Rq
