/-
  Vector lanes (`__m256i` = 4 cells, `__m128i` = 2 cells): unfolding equations, loads of not-yet-written cells and
  stores in index order on the `fillMem` states, pointer locals advanced by `++`, pointer ordering.
-/
import SpqProofs.Lemmas.SrcVec
import SpqProofs.Lemmas.SrcSim
namespace Spq.CIR
open Spq

theorem exec_vstore (Γ : List Ptr) (n : Nat) (b : PBase) (o : Expr) (v : VExpr) (f : Nat) (σ : State) :
    exec Γ (.vstore n b o v) f σ = (eval Γ σ o).bind fun ov => (ptrAt Γ σ.env b ov).bind fun p =>
      (evalV Γ σ v).bind fun vs =>
        if vs.length = n then (storeLanes σ.mem p 0 vs).bind fun m => .ok (.norm, { σ with mem := m })
        else .err .unsupported := rfl
theorem evalV_vload (Γ : List Ptr) (σ : State) (n : Nat) (b : PBase) (o : Expr) :
    evalV Γ σ (.vload n b o) = (eval Γ σ o).bind fun v => (ptrAt Γ σ.env b v).bind fun p => loadLanes σ.mem p 0 n :=
  rfl
theorem evalV_vadd (Γ : List Ptr) (σ : State) (a b : VExpr) :
    evalV Γ σ (.vadd a b) = (evalV Γ σ a).bind fun x => (evalV Γ σ b).bind fun y => zipLanes addS x y := rfl
theorem evalV_vsub (Γ : List Ptr) (σ : State) (a b : VExpr) :
    evalV Γ σ (.vsub a b) = (evalV Γ σ a).bind fun x => (evalV Γ σ b).bind fun y => zipLanes subS x y := rfl
theorem evalV_vset1 (Γ : List Ptr) (σ : State) (n : Nat) (e : Expr) :
    evalV Γ σ (.vset1 n e) = (eval Γ σ e).bind fun v => .ok (List.replicate n (wrapS v)) := rfl
theorem eval_ptrLt (Γ : List Ptr) (σ : State) (b1 b2 : PBase) (o1 o2 : Expr) :
    eval Γ σ (.ptrLt b1 o1 b2 o2) = (eval Γ σ o1).bind fun v1 => (eval Γ σ o2).bind fun v2 =>
      (ptrAt Γ σ.env b1 v1).bind fun p1 => (ptrAt Γ σ.env b2 v2).bind fun p2 => ptrLtVal p1 p2 := rfl
theorem ptrLtVal_same (b o1 o2 : Nat) : ptrLtVal (some (b, o1)) (some (b, o2)) = .ok (b2i (decide (o1 < o2))) := by
  simp [ptrLtVal]

theorem loadLanes_zero (m : Mem) (p : Ptr) (i : Nat) : loadLanes m p i 0 = .ok [] := rfl
theorem loadLanes_succ (m : Mem) (p : Ptr) (i n : Nat) :
    loadLanes m p i (n + 1) = (loadCell m p (i : Int)).bind fun v => (loadLanes m p (i + 1) n).bind fun vs =>
      .ok (v :: vs) := rfl
theorem storeLanes_nil (m : Mem) (p : Ptr) (i : Nat) : storeLanes m p i [] = .ok m := rfl
theorem storeLanes_cons (m : Mem) (p : Ptr) (i : Nat) (v : Int) (vs : List Int) :
    storeLanes m p i (v :: vs) = (storeCell m p (i : Int) v).bind fun m' => storeLanes m' p (i + 1) vs := rfl
theorem zipLanes_nil (f : Int → Int → Int) : zipLanes f [] [] = .ok [] := rfl
theorem zipLanes_cons (f : Int → Int → Int) (x y : Int) (xs ys : List Int) :
    zipLanes f (x :: xs) (y :: ys) = (zipLanes f xs ys).bind fun r => .ok (f x y :: r) := rfl

/-- lanes `[i, i+n)` of buffer `b` while the result buffer holds `fillTo … k`, `k ≤ i`: the original cells -/
theorem loadLanes_fill (m : Mem) (r b : Nat) (g : Nat → Int) (k : Nat) :
    ∀ (n i : Nat), k ≤ i → i + n ≤ (buf m b).size →
      loadLanes (fillMem m r g k) (some (b, 0)) i n
        = .ok ((List.range n).map fun j => (buf m b).getD (i + j) 0) := by
  intro n
  induction n with
  | zero => intro i _ _; rfl
  | succ n ih =>
    intro i hk hb
    rw [loadLanes_succ, load_fill m r b g k i (by omega) hk, R.bind_ok, ih (i + 1) (by omega) (by omega), R.bind_ok]
    congr 1
    rw [List.range_succ_eq_map, List.map_cons, List.map_map]
    congr 1
    apply List.map_congr_left
    intro j _
    simp only [Function.comp, Nat.succ_eq_add_one]
    congr 1
    omega

/-- storing the lanes `g k, g (k+1), …` at index `k` of the result buffer -/
theorem storeLanes_fill (m : Mem) (r : Nat) (g : Nat → Int) :
    ∀ (vs : List Int) (k : Nat), k + vs.length ≤ (buf m r).size → (∀ j, j < vs.length → vs.getD j 0 = g (k + j)) →
      storeLanes (fillMem m r g k) (some (r, 0)) k vs = .ok (fillMem m r g (k + vs.length)) := by
  intro vs
  induction vs with
  | nil => intro k _ _; rfl
  | cons v vs ih =>
    intro k hb hv
    have h0 : v = g k := by simpa using hv 0 (by simp)
    rw [storeLanes_cons, store_fill m r g k v (by simp at hb; omega) h0, R.bind_ok,
      ih (k + 1) (by simp at hb ⊢; omega) (fun j hj => by
        have := hv (j + 1) (by simp; omega)
        simp only [List.getD_cons_succ] at this
        rw [this]; congr 1; omega)]
    congr 2
    simp; omega

theorem zipLanes_eq (f : Int → Int → Int) :
    ∀ (xs ys : List Int), xs.length = ys.length → zipLanes f xs ys = .ok (List.zipWith f xs ys) := by
  intro xs
  induction xs with
  | nil => intro ys h; cases ys with | nil => rfl | cons y ys => simp at h
  | cons x xs ih =>
    intro ys h
    cases ys with
    | nil => simp at h
    | cons y ys =>
      rw [zipLanes_cons, ih ys (by simpa using h)]
      rfl

theorem getD_zipWith_map_range (f : Int → Int → Int) (F G : Nat → Int) (n j : Nat) (hj : j < n) :
    (List.zipWith f ((List.range n).map F) ((List.range n).map G)).getD j 0 = f (F j) (G j) := by
  simp [List.getD, List.getElem?_zipWith, hj]

theorem length_zipWith_map_range (f : Int → Int → Int) (F G : Nat → Int) (n : Nat) :
    (List.zipWith f ((List.range n).map F) ((List.range n).map G)).length = n := by
  simp

end Spq.CIR

namespace Spq.CIR
theorem ptrAt_param_zero (Γ : List Ptr) (env : List Int) (i bf o : Nat) (h : Γ.getD i none = some (bf, o)) :
    ptrAt Γ env (.param i) 0 = .ok (some (bf, o)) := by
  have := ptrAt_param Γ env i bf o 0 h
  simpa using this

theorem ptrAt_pvar_add (Γ : List Ptr) (env : List Int) (s b o k : Nat) (h1 : lget env s = (b : Int))
    (h2 : lget env (s + 1) = (o : Int)) : ptrAt Γ env (.pvar s) (k : Int) = .ok (some (b, o + k)) := by
  have h3 : ¬ ((b : Int) < 0) := by omega
  simp only [ptrAt, decPtr, h1, h2, h3, if_false, Int.toNat_natCast]
  have h4 : (0 : Int) ≤ (o : Int) + (k : Int) := by omega
  simp only [h4, if_true]
  have h5 : ((o : Int) + (k : Int)).toNat = o + k := by omega
  rw [h5]

/-- the vector loop `do { …; ++rr; … } while (rr < rrend)`: `q` iterations -/
theorem termA_count (q : Nat) : ∀ m k, 1 ≤ m → k + m = q →
    TermA (fun k : Nat => k + 1) (fun k => decide (q ≤ k)) m k := by
  intro m
  induction m with
  | zero => intro k h; omega
  | succ m ih =>
    intro k _ hk
    by_cases h : q ≤ k + 1
    · exact Or.inl (decide_eq_true h)
    · exact Or.inr (ih (k + 1) (by omega) (by omega))

theorem walkA_count (q : Nat) : ∀ m k, 1 ≤ m → k + m = q →
    walkA (fun k : Nat => k + 1) (fun k => decide (q ≤ k)) m k = q := by
  intro m
  induction m with
  | zero => intro k h; omega
  | succ m ih =>
    intro k _ hk
    simp only [walkA]
    by_cases h : q ≤ k + 1
    · rw [if_pos (decide_eq_true h)]; omega
    · rw [if_neg (by simpa using h)]
      exact ih (k + 1) (by omega) (by omega)
theorem loadCell_shift (m : Mem) (b o i : Nat) :
    loadCell m (some (b, o)) (i : Int) = loadCell m (some (b, 0)) ((o + i : Nat) : Int) := by
  simp only [loadCell]
  have : ((0 : Nat) : Int) + ((o + i : Nat) : Int) = (o : Int) + (i : Int) := by omega
  rw [this]
theorem storeCell_shift (m : Mem) (b o i : Nat) (v : Int) :
    storeCell m (some (b, o)) (i : Int) v = storeCell m (some (b, 0)) ((o + i : Nat) : Int) v := by
  simp only [storeCell]
  have : ((0 : Nat) : Int) + ((o + i : Nat) : Int) = (o : Int) + (i : Int) := by omega
  rw [this]
theorem loadLanes_shift (m : Mem) (b o : Nat) : ∀ (n i : Nat),
    loadLanes m (some (b, o)) i n = loadLanes m (some (b, 0)) (o + i) n := by
  intro n
  induction n with
  | zero => intro i; rfl
  | succ n ih => intro i; rw [loadLanes_succ, loadLanes_succ, loadCell_shift, ih (i + 1)]; rfl
theorem storeLanes_shift (b o : Nat) : ∀ (vs : List Int) (m : Mem) (i : Nat),
    storeLanes m (some (b, o)) i vs = storeLanes m (some (b, 0)) (o + i) vs := by
  intro vs
  induction vs with
  | nil => intro m i; rfl
  | cons v vs ih =>
    intro m i
    rw [storeLanes_cons, storeLanes_cons, storeCell_shift]
    congr 1
    funext m'
    exact ih m' (i + 1)
theorem ptrAt_pvar_off (Γ : List Ptr) (env : List Int) (s b o k : Nat) (v : Int) (hv : v = (k : Int))
    (h1 : lget env s = (b : Int)) (h2 : lget env (s + 1) = (o : Int)) :
    ptrAt Γ env (.pvar s) v = .ok (some (b, o + k)) := by
  subst hv; exact ptrAt_pvar_add Γ env s b o k h1 h2
end Spq.CIR

namespace Spq.CIR
theorem subS_zero_left (x : Int) : subS 0 x = negS x := by
  simp only [subS, negS, Int.zero_sub]
theorem wrapS_wrap_zero : wrapS (Ty.i64.wrap 0) = 0 := by decide

theorem getD_zipWith_replicate_map_range (f : Int → Int → Int) (c : Int) (G : Nat → Int) (n j : Nat) (hj : j < n) :
    (List.zipWith f (List.replicate n c) ((List.range n).map G)).getD j 0 = f c (G j) := by
  simp [List.getD, List.getElem?_zipWith, List.getElem?_replicate, hj]

theorem length_zipWith_replicate_map_range (f : Int → Int → Int) (c : Int) (G : Nat → Int) (n : Nat) :
    (List.zipWith f (List.replicate n c) ((List.range n).map G)).length = n := by
  simp
end Spq.CIR
