/-
  C06: the forward reim transform for m = 1, 2, 4, 8, 16 (`reim_fft{2,4,8,16}_*` called directly).
-/
import SpqProofs.Lemmas.FftReimFwd
set_option linter.unusedSectionVars false
set_option linter.unusedSimpArgs false
namespace Spq.Fft.ReimFwd
open Spq.Fft Spq.Fft.Alg Spq.Fft.View Spq.Fft.Level Spq.Fft.Sim Spq.Fft.Tab Spq.Fft.Tw Spq.Fft.Kern Spq.Fft.Sched

variable {R : Type} [CommRing R] [Inhabited R] (X : Ctx R)

/-- one butterfly on adjacent cells = a half-level on a block of 2 -/
theorem pair1_adv (f : Bf R) (wr wi W : R) (hf : Realises X.I f wr wi (fφ W) (fψ W)) (N ℓ b a : ℕ) (s : RI R)
    (hs : Valid N s) (ha : a = 2 * b) (hN : a + 2 ≤ N) (hW : W = X.ζ ^ twE ℓ 0 b) :
    Adv X.ζ X.a (cxs X.I s) (cxs X.I (bf f s a (a + 1) wr wi)) ℓ 1 (ℓ + 1) 0 a 2 ∧
      Valid N (bf f s a (a + 1) wr wi) := by
  have h1 := bf_sim X.I N f wr wi _ _ hf s a (a + 1) hs (by omega) (by omega) (by omega)
  rw [h1.1, G_eq_twG1, hW]
  exact ⟨Adv.tw X.ζ X.a _ ℓ 0 b a (by omega), h1.2⟩

/-- two butterflies `(a, a+2)`, `(a+1, a+3)` = a half-level on a block of 4 -/
theorem pair2_adv (f : Bf R) (wr wi W : R) (hf : Realises X.I f wr wi (fφ W) (fψ W)) (N ℓ b a a1 a2 a3 : ℕ)
    (s : RI R) (hs : Valid N s) (ha : a = 4 * b) (h1 : a1 = a + 1) (h2 : a2 = a + 2) (h3 : a3 = a + 3)
    (hN : a + 4 ≤ N) (hW : W = X.ζ ^ twE ℓ 1 b) :
    Adv X.ζ X.a (cxs X.I s) (cxs X.I (bf f (bf f s a a2 wr wi) a1 a3 wr wi)) ℓ 2 (ℓ + 1) 1 a 4 ∧
      Valid N (bf f (bf f s a a2 wr wi) a1 a3 wr wi) := by
  have e := bf2_sim X.I N f f wr wi wr wi _ _ _ _ hf hf s a a2 a1 a3 hs (by omega) (by omega) (by omega)
    (by omega) (by omega) (by omega)
  rw [e.1, G_G_eq_twG2' _ _ a a1 a2 a3 h1 h2 h3, hW]
  exact ⟨Adv.tw X.ζ X.a _ ℓ 1 b a (by omega), e.2⟩

theorem fftRI_k0 (F : Flav R) (hk : X.k = 0) (T : Array R) (s : RI R) (hs : Valid (2 ^ X.k) s) :
    Adv X.ζ X.a (cxs X.I s) (cxs X.I (fftRI F (2 ^ X.k) T s)) 0 X.k X.k 0 0 (2 ^ X.k) ∧
      Valid (2 ^ X.k) (fftRI F (2 ^ X.k) T s) := by
  rw [hk] at hs ⊢
  simp only [fftRI, pow_zero, Nat.le_refl, ↓reduceIte]
  exact ⟨Adv_id X _ _ _ _ _ _ _ rfl rfl, hs⟩

theorem fftRI_k1 (F : Flav R) (hF : FwdOK X.I F) (hk : X.k = 1) (s : RI R) (hs : Valid (2 ^ X.k) s)
 :
    Adv X.ζ X.a (cxs X.I s)
        (cxs X.I (fftRI F (2 ^ X.k) (((reimFftEnts (2 ^ X.k)).map (val X.c X.s)).toArray) s)) 0 X.k X.k 0 0 (2 ^ X.k) ∧
      Valid (2 ^ X.k) (fftRI F (2 ^ X.k) (((reimFftEnts (2 ^ X.k)).map (val X.c X.s)).toArray) s) := by
  rw [hk] at hs ⊢
  have hT : ((reimFftEnts (2 ^ 1)).map (val X.c X.s)).toArray = #[X.c 1, X.s 1] := by
    simp [reimFftEnts, rFill2, eP, val]
  rw [hT]
  simp only [fftRI, fft2, Nat.reducePow, Nat.reduceLeDiff, ↓reduceIte, BEq.rfl, Nat.zero_add]
  have := pair1_adv X F.ct2 (X.c 1) (X.s 1) _ (hF.ct2 _ _) 2 0 0 0 s hs rfl (by omega)
    (by rw [X.hcs]; rfl)
  exact ⟨by simpa using this.1, this.2⟩

theorem fftRI_k2 (F : Flav R) (hF : FwdOK X.I F) (hk : X.k = 2) (s : RI R) (hs : Valid (2 ^ X.k) s)
 :
    Adv X.ζ X.a (cxs X.I s)
        (cxs X.I (fftRI F (2 ^ X.k) (((reimFftEnts (2 ^ X.k)).map (val X.c X.s)).toArray) s)) 0 X.k X.k 0 0 (2 ^ X.k) ∧
      Valid (2 ^ X.k) (fftRI F (2 ^ X.k) (((reimFftEnts (2 ^ X.k)).map (val X.c X.s)).toArray) s) := by
  have hI4 : X.ζ ^ 4 = X.I := by have := X.hI; rw [hk] at this; simpa using this
  rw [hk] at hs ⊢
  have hT : ((reimFftEnts (2 ^ 2)).map (val X.c X.s)).toArray = #[X.c 2, X.s 2, X.c 1, X.s 1] := by
    simp [reimFftEnts, rFill4, eP, val]
  rw [hT]
  simp only [fftRI, fft4, Nat.reducePow, Nat.reduceLeDiff, ↓reduceIte, Nat.zero_add, Nat.reduceBEq,
    Bool.false_eq_true, BEq.rfl]
  have s1 := pair2_adv X F.ctS (X.c 2) (X.s 2) _ (hF.ctS _ _) 4 0 0 0 1 2 3 s hs rfl rfl rfl rfl (by omega)
    (by rw [X.hcs]; rfl)
  have s2 := pair1_adv X F.ctS (X.c 1) (X.s 1) _ (hF.ctS _ _) 4 1 0 0 _ s1.2 rfl (by omega)
    (by rw [X.hcs]; rfl)
  have s3 := pair1_adv X F.citS (X.c 1) (X.s 1) _ (hF.citS _ _) 4 1 1 2 _ s2.2 rfl (by omega)
    (by rw [X.hcs, show twE 1 0 1 = 4 + 1 by rfl, pow_add, hI4])
  have := s1.1.seq X.ζ X.a ((s2.1.par X.ζ X.a s3.1))
  exact ⟨by simpa using this, s3.2⟩

/-- `reim_fft8_*` on the whole vector (k = 3) -/
theorem fft8_adv (F : Flav R) (hF : FwdOK X.I F) (hk : X.k = 3) (T : Array R) (s : RI R) (hs : Valid 8 s)
    (w0 : T[0]! + X.I * T[0 + 1]! = X.ζ ^ 4) (w1 : T[0 + 2]! + X.I * T[0 + 3]! = X.ζ ^ 2)
    (wa : T[0 + 4]! + X.I * T[0 + 6]! = X.ζ ^ 1) (wb : T[0 + 5]! + X.I * T[0 + 7]! = X.ζ ^ 5) :
    Adv X.ζ X.a (cxs X.I s) (cxs X.I (fft8 F T 0 0 s)) 0 3 3 0 0 8 ∧ Valid 8 (fft8 F T 0 0 s) := by
  have hI8 : X.ζ ^ 8 = X.I := by have := X.hI; rw [hk] at this; simpa using this
  unfold fft8
  have s1 := twPass_adv X F.ctS hF.ctS 8 0 2 0 0 T[0]! T[0 + 1]! s hs rfl (by omega) (by rw [w0]; rfl)
  have s2 := pair2_adv X F.ctS T[0 + 2]! T[0 + 3]! _ (hF.ctS _ _) 8 1 0 0 (0 + 1) (0 + 2) (0 + 3) _ s1.2
    rfl rfl rfl rfl (by omega) (by rw [w1]; rfl)
  have s3 := pair2_adv X F.citS T[0 + 2]! T[0 + 3]! _ (hF.citS _ _) 8 1 1 (0 + 4) (0 + 5) (0 + 6) (0 + 7) _ s2.2
    rfl rfl rfl rfl (by omega) (by rw [w1, show twE 1 1 1 = 8 + 2 by rfl, pow_add, hI8])
  have s4 := pair1_adv X F.ctS T[0 + 4]! T[0 + 6]! _ (hF.ctS _ _) 8 2 0 0 _ s3.2 rfl (by omega) (by rw [wa]; rfl)
  have s5 := pair1_adv X F.citS T[0 + 4]! T[0 + 6]! _ (hF.citS _ _) 8 2 1 (0 + 2) _ s4.2 rfl (by omega)
    (by rw [wa, show twE 2 0 1 = 8 + 1 by rfl, pow_add, hI8])
  have s6 := pair1_adv X F.ctS T[0 + 5]! T[0 + 7]! _ (hF.ctS _ _) 8 2 2 (0 + 4) _ s5.2 rfl (by omega) (by rw [wb]; rfl)
  have s7 := pair1_adv X F.citS T[0 + 5]! T[0 + 7]! _ (hF.citS _ _) 8 2 3 (0 + 6) _ s6.2 rfl (by omega)
    (by rw [wb, show twE 2 0 3 = 8 + 5 by rfl, pow_add, hI8])
  have l2 := s2.1.par X.ζ X.a s3.1
  have l3 := ((s4.1.par X.ζ X.a s5.1).par X.ζ X.a s6.1).par X.ζ X.a s7.1
  exact ⟨(s1.1.seq X.ζ X.a l2).seq X.ζ X.a l3, s7.2⟩

theorem fftRI_k3 (F : Flav R) (hF : FwdOK X.I F) (hk : X.k = 3) (s : RI R) (hs : Valid (2 ^ X.k) s)
 :
    Adv X.ζ X.a (cxs X.I s)
        (cxs X.I (fftRI F (2 ^ X.k) (((reimFftEnts (2 ^ X.k)).map (val X.c X.s)).toArray) s)) 0 X.k X.k 0 0 (2 ^ X.k) ∧
      Valid (2 ^ X.k) (fftRI F (2 ^ X.k) (((reimFftEnts (2 ^ X.k)).map (val X.c X.s)).toArray) s) := by
  have h := fft8_adv X F hF hk (((reimFftEnts (2 ^ 3)).map (val X.c X.s)).toArray)
  rw [hk] at hs ⊢
  have hT : ((reimFftEnts (2 ^ 3)).map (val X.c X.s)).toArray
      = #[X.c 4, X.s 4, X.c 2, X.s 2, X.c 1, X.c 5, X.s 1, X.s 5] := by
    simp [reimFftEnts, rFill8, eP, val]
  rw [hT] at h ⊢
  simp only [fftRI, Nat.reducePow, Nat.reduceLeDiff, ↓reduceIte, Nat.reduceBEq, Bool.false_eq_true, BEq.rfl]
  exact h s hs (by simp [X.hcs]) (by simp [X.hcs]) (by simp [X.hcs]) (by simp [X.hcs])

theorem fftRI_k4 (F : Flav R) (hF : FwdOK X.I F) (hk : X.k = 4) (s : RI R) (hs : Valid (2 ^ X.k) s)
 :
    Adv X.ζ X.a (cxs X.I s)
        (cxs X.I (fftRI F (2 ^ X.k) (((reimFftEnts (2 ^ X.k)).map (val X.c X.s)).toArray) s)) 0 X.k X.k 0 0 (2 ^ X.k) ∧
      Valid (2 ^ X.k) (fftRI F (2 ^ X.k) (((reimFftEnts (2 ^ X.k)).map (val X.c X.s)).toArray) s) := by
  have hE : reimFftEnts (2 ^ X.k) = rFill16 (4 * 2 ^ X.k) 16 := by rw [hk]; rfl
  rw [hE]
  have hseg := Seg.of_toArray ((rFill16 (4 * 2 ^ X.k) 16).map (val X.c X.s))
  obtain ⟨T, hT⟩ : ∃ T, T = ((rFill16 (4 * 2 ^ X.k) 16).map (val X.c X.s)).toArray := ⟨_, rfl⟩
  rw [← hT] at hseg ⊢
  have hw := leaf_read X T 0 16 (4 * 2 ^ X.k) hseg
  have h16 : 2 ^ X.k = 16 := by rw [hk]; rfl
  rw [h16] at hs ⊢
  simp only [fftRI, Nat.reduceLeDiff, ↓reduceIte, Nat.reduceBEq, Bool.false_eq_true, BEq.rfl]
  unfold fft16
  have := fft16K_adv X F hF _ 16 0 0 0 16 s hs rfl (by omega) (by omega) (by simp [brev]) hw
  exact ⟨this.1.cast X.ζ X.a 0 X.k X.k 0 rfl hk (by omega) rfl, this.2⟩

/-- the forward reim transform of every size `2^k` runs the whole level network (both implementations) -/
theorem fftRI_adv (F : Flav R) (hF : FwdOK X.I F) (s : RI R) (hs : Valid (2 ^ X.k) s) :
    Adv X.ζ X.a (cxs X.I s)
        (cxs X.I (fftRI F (2 ^ X.k) (((reimFftEnts (2 ^ X.k)).map (val X.c X.s)).toArray) s)) 0 X.k X.k 0 0 (2 ^ X.k) ∧
      Valid (2 ^ X.k) (fftRI F (2 ^ X.k) (((reimFftEnts (2 ^ X.k)).map (val X.c X.s)).toArray) s) := by
  by_cases h5 : 5 ≤ X.k
  · exact fftRI_big X F hF h5 s hs
  have : X.k = 0 ∨ X.k = 1 ∨ X.k = 2 ∨ X.k = 3 ∨ X.k = 4 := by omega
  rcases this with h | h | h | h | h
  · exact fftRI_k0 X F h _ s hs
  · exact fftRI_k1 X F hF h s hs
  · exact fftRI_k2 X F hF h s hs
  · exact fftRI_k3 X F hF h s hs
  · exact fftRI_k4 X F hF h s hs

/-- … hence computes the evaluations -/
theorem fftRI_all (F : Flav R) (hF : FwdOK X.I F) (s : RI R) (hs : Valid (2 ^ X.k) s)
    (ha : ∀ p, p < 2 ^ X.k → cxs X.I s p = X.a p) (j : ℕ) (hj : j < 2 ^ X.k) :
    cxs X.I (fftRI F (2 ^ X.k) (((reimFftEnts (2 ^ X.k)).map (val X.c X.s)).toArray) s) j
      = sumTo (2 ^ X.k) (fun i => X.a i * X.ζ ^ ((1 + 4 * brev X.k j) * i)) :=
  final_of_adv X _ _ ha (fftRI_adv X F hF s hs).1 j hj

end Spq.Fft.ReimFwd
