/-
  C01 rounding budget, step 5: the exact side.  `pkC x m p = x_p + i·x_{m+p}` (the reim packing of an integer
  polynomial of `2m` coefficients).  The exact forward network `V ζ (pkC x m) k 0 j` is the evaluation of `x` at
  `z_j = ζ^(1 + 4·brev_k j)`, `z_j^N = −1`; hence
    * `V(a)_j · V(b)_j = V(nmul a b)_j`            (negacyclic convolution theorem),
    * `|V(x)_j| ≤ ‖x‖₁`,   `Σ_j |V(x)_j|² = m·‖x‖₂²`.
-/
import SpqProofs.Lemmas.ProdErrNet
import SpqProofs.Lemmas.ModuleSpec
set_option linter.unusedSectionVars false
namespace Spq.ProdErr
open Finset Spq Spq.Module Spq.Fft.Alg Spq.FftErr
variable {K : Type} [Field K] [LinearOrder K] [IsStrictOrderedRing K]

/-- packed complex coefficient `p` of an integer polynomial of `2m` coefficients -/
def pkC (x : Array Int) (m p : ℕ) : Cplx K := toC (((x.getD p 0 : Int) : K), ((x.getD (m + p) 0 : Int) : K))

theorem toC_int (n n' : Int) : (toC (((n : Int) : K), ((n' : Int) : K)) : Cplx K) = (n : Cplx K) + Ic * (n' : Cplx K) := by
  ext <;> simp [toC, Ic, QuadraticAlgebra.re_mul, QuadraticAlgebra.im_mul]

theorem Ic_sq : (Ic : Cplx K) * Ic = -1 := by
  rw [Ic_mul]; ext <;> simp [Ic, QuadraticAlgebra.re_one, QuadraticAlgebra.im_one]

theorem Ic_pow4 : (Ic : Cplx K) ^ 4 = 1 := by
  have : (Ic : Cplx K) ^ 4 = (Ic * Ic) * (Ic * Ic) := by ring
  rw [this, Ic_sq]; ring

/-- the evaluation points: `z^m = i` -/
theorem zpt_pow (k : ℕ) (ζ : Cplx K) (hI : ζ ^ 2 ^ k = Ic) (b : ℕ) : (ζ ^ (1 + 4 * b)) ^ 2 ^ k = Ic := by
  rw [← pow_mul, Nat.mul_comm, pow_mul, hI, pow_add, pow_one, pow_mul, Ic_pow4, one_pow, mul_one]

theorem zeta_neg (k : ℕ) (ζ : Cplx K) (hI : ζ ^ 2 ^ k = Ic) : ζ ^ (2 * 2 ^ k) = -1 := by
  rw [Nat.mul_comm, pow_mul, hI, pow_two, Ic_sq]

/-- the exact network on the packed coefficients = evaluation of the `2m` integer coefficients at `z_j` -/
theorem V_eval (k : ℕ) (ζ : Cplx K) (hI : ζ ^ 2 ^ k = Ic) (x : Array Int) (j : ℕ) (hj : j < 2 ^ k) :
    V ζ (pkC x (2 ^ k)) k 0 j =
      evalF (2 * 2 ^ k) (fun t => ((icoef x t : Int) : Cplx K)) (ζ ^ (1 + 4 * brev k j)) := by
  rw [V_top ζ _ k (zeta_neg k ζ hI) j hj, sumTo_eq_sum',
    reim_evalF (2 ^ k) _ (ζ ^ (1 + 4 * brev k j)) Ic (zpt_pow k ζ hI _)]
  apply sum_congr rfl
  intro p _
  rw [pow_mul]
  congr 1
  unfold pkC icoef
  rw [toC_int, Nat.add_comm p]

/-- the convolution theorem at the points of the network -/
theorem V_prod (k : ℕ) (ζ : Cplx K) (hI : ζ ^ 2 ^ k = Ic) (a b : Array Int) (j : ℕ) (hj : j < 2 ^ k) :
    V ζ (pkC a (2 ^ k)) k 0 j * V ζ (pkC b (2 ^ k)) k 0 j = V ζ (pkC (nmul (2 * 2 ^ k) a b) (2 ^ k)) k 0 j := by
  rw [V_eval k ζ hI a j hj, V_eval k ζ hI b j hj, V_eval k ζ hI _ j hj]
  have hz : (ζ ^ (1 + 4 * brev k j)) ^ (2 * 2 ^ k) = -1 := by
    rw [show 2 * 2 ^ k = 2 ^ k * 2 from Nat.mul_comm _ _, pow_mul, zpt_pow k ζ hI, pow_two, Ic_sq]
  rw [← eval_nmulF (2 * 2 ^ k) _ _ _ hz]
  unfold evalF
  apply sum_congr rfl
  intro t ht
  simp only []
  rw [icoef_nmul _ _ _ _ (mem_range.1 ht)]
  exact congrArg (· * (ζ ^ (1 + 4 * brev k j)) ^ t)
    (map_nmulF (Int.castRingHom (Cplx K)) (2 * 2 ^ k) (icoef a) (icoef b) t).symm

theorem nsq_pkC (x : Array Int) (m p : ℕ) :
    nsq (pkC x m p : Cplx K) = ((x.getD p 0 : Int) : K) ^ 2 + ((x.getD (m + p) 0 : Int) : K) ^ 2 := rfl

/-- `|A(z_j)| ≤ ‖a‖₁` -/
theorem V_sup (k : ℕ) (ζ : Cplx K) (hζ : nsq ζ = 1) (hI : ζ ^ 2 ^ k = Ic) (x : Array Int) (j : ℕ) (hj : j < 2 ^ k) :
    nsq (V ζ (pkC x (2 ^ k)) k 0 j) ≤ (∑ t ∈ range (2 * 2 ^ k), |((x.getD t 0 : Int) : K)|) ^ 2 := by
  rw [V_top ζ _ k (zeta_neg k ζ hI) j hj, sum_halves]
  apply nsq_sumTo_le
  · intro t _; positivity
  · intro t _
    rw [nsq_mul, nsq_pow, hζ, one_pow, mul_one, nsq_pkC]
    have h1 := abs_nonneg ((x.getD t 0 : Int) : K)
    have h2 := abs_nonneg ((x.getD (2 ^ k + t) 0 : Int) : K)
    rw [← sq_abs ((x.getD t 0 : Int) : K), ← sq_abs ((x.getD (2 ^ k + t) 0 : Int) : K)]
    nlinarith

/-- `Σ_j |A(z_j)|² = m·‖a‖₂²` -/
theorem V_sum (k : ℕ) (ζ : Cplx K) (hζ : nsq ζ = 1) (x : Array Int) :
    ∑ j ∈ range (2 ^ k), nsq (V ζ (pkC x (2 ^ k)) k 0 j) =
      2 ^ k * ∑ t ∈ range (2 * 2 ^ k), ((x.getD t 0 : Int) : K) ^ 2 := by
  rw [V_norm ζ hζ _ k k 0 (by omega), sum_halves]
  rfl

end Spq.ProdErr
