/-
  C16, binary64 side, products of products: a concrete instance of every hypothesis of the program-level theorem
  `prog_refines_f64_metric_partial` on a program OUTSIDE `SingleProductDepth`.
  `N = 2` (`k = 0`), `K = ℚ`, `ζ = i`, module `exC`, heap of 8 cells, `x = 1 + 2X`, `y = 3 + 4X`:
      P0 := svp_prepare(y);  M0 := vmp_prepare(y);  D0 := svp_apply_dft(P0, x)          -- D0 = DFT(x·y) = (−5, 10)
      D2 := vmp_apply_dft_to_dft(D0, M0)                                               -- a product of a product
      w := idft(D2)                                                                     -- w = x·y·y = −55 + 10X
  This file: the flags on the concrete operands (accumulation of `(−5 + 10i)·(3 + 4i)`, inverse transform of `(−55, 10)`).
-/
import SpqProofs.Lemmas.ProgErr2Step
import SpqProofs.Lemmas.ProgErrExample2
set_option linter.unusedSectionVars false
namespace Spq.ProgErr2
open Finset Spq Spq.Module Spq.Fft Spq.Fft.Alg Spq.Fft.SimP Spq.Fft.LevelN Spq.Fft.SchedN Spq.Fft.RelN Spq.FftErr Spq.F64
  Spq.Reim4 Spq.Conv Spq.ProdErr Spq.VmpErr Spq.Prog Spq.Closed Spq.ProgErr

/-- the DFT-space object `(−5.0, 10.0)` = `svp_apply_dft(svp_prepare(3 + 4X), 1 + 2X)` -/
def exAd : Array ℕ := #[13840687554816376832, 4621819117588971520]
/-- the DFT-space object `(−55.0, 10.0)` -/
def exAd2 : Array ℕ := #[13856309416023818240, 4621819117588971520]

theorem exAd_eq : exAd = stM exC 0 z0 z0 #[1, 2] #[3, 4] := by rw [exM]; rfl

/-- flags of the reference product `(−5 + 10i)·(3 + 4i)` -/
theorem ex2_okM : ∀ p, p < 2 →
    ((mulA arithOk false 1 (exAd.map lift) ((#[4613937818241073152, 4616189618054758400] : Array ℕ).map lift)).getD p
      arithOk.zero).2 := by
  intro p hp
  obtain ⟨c1, c2⟩ := (mulA_cells arithOk false 1 (by simp) (exAd.map lift)
    ((#[4613937818241073152, 4616189618054758400] : Array ℕ).map lift)).2 0 (by omega)
  have g0 : (exAd.map lift).getD 0 arithOk.zero = lift (ofInt (-5)) := getD_map lift _ 0 0
  have g1 : (exAd.map lift).getD (0 + 1) arithOk.zero = lift (ofInt 10) := getD_map lift _ 1 0
  have g2 : ((#[4613937818241073152, 4616189618054758400] : Array ℕ).map lift).getD 0 arithOk.zero = lift (ofInt 3) :=
    getD_map lift _ 0 0
  have g3 : ((#[4613937818241073152, 4616189618054758400] : Array ℕ).map lift).getD (0 + 1) arithOk.zero = lift (ofInt 4) :=
    getD_map lift _ 1 0
  rw [g0, g1, g2, g3] at c1 c2
  have m1 : F64.mul (ofInt (-5)) (ofInt 3) = ofInt (-15) := by decide +kernel
  have m2 : F64.mul (ofInt 10) (ofInt 4) = ofInt 40 := by decide +kernel
  have m3 : F64.mul (ofInt (-5)) (ofInt 4) = ofInt (-20) := by decide +kernel
  have m4 : F64.mul (ofInt 10) (ofInt 3) = ofInt 30 := by decide +kernel
  have v5 : val (ofInt (-5)) = ((-5 : ℤ) : ℚ) := val_ofInt (by decide)
  have v10 : val (ofInt 10) = ((10 : ℤ) : ℚ) := val_ofInt (by decide)
  have v3 : val (ofInt 3) = ((3 : ℤ) : ℚ) := val_ofInt (by decide)
  have v4 : val (ofInt 4) = ((4 : ℤ) : ℚ) := val_ofInt (by decide)
  have v15 : val (ofInt (-15)) = ((-15 : ℤ) : ℚ) := val_ofInt (by decide)
  have v40 : val (ofInt 40) = ((40 : ℤ) : ℚ) := val_ofInt (by decide)
  have v20 : val (ofInt (-20)) = ((-20 : ℤ) : ℚ) := val_ofInt (by decide)
  have v30 : val (ofInt 30) = ((30 : ℤ) : ℚ) := val_ofInt (by decide)
  have : p = 0 ∨ p = 0 + 1 := by omega
  rcases this with rfl | rfl
  · rw [c1]
    simp only [cellRe, Bool.false_eq_true, if_false, reRef, arithOk_sub_snd, arithOk_mul_snd, arithOk_mul_fst, lift_fst,
      lift_snd]
    rw [m1, m2, v5, v10, v3, v4, v15, v40]
    refine ⟨⟨by decide, by decide, ?_⟩, ⟨by decide, by decide, ?_⟩, ?_⟩
    · rw [← Int.cast_mul]; exact normalRange_int _ (by decide)
    · rw [← Int.cast_mul]; exact normalRange_int _ (by decide)
    · rw [← Int.cast_sub]; exact normalRange_int _ (by decide)
  · rw [c2]
    simp only [cellIm, Bool.false_eq_true, if_false, imRef, arithOk_add_snd, arithOk_mul_snd, arithOk_mul_fst, lift_fst,
      lift_snd]
    rw [m3, m4, v5, v10, v3, v4, v20, v30]
    refine ⟨⟨by decide, by decide, ?_⟩, ⟨by decide, by decide, ?_⟩, ?_⟩
    · rw [← Int.cast_mul]; exact normalRange_int _ (by decide)
    · rw [← Int.cast_mul]; exact normalRange_int _ (by decide)
    · rw [← Int.cast_add]; exact normalRange_int _ (by decide)

/-- the flags of the two cells of the accumulation of `vmp_apply_dft_to_dft` on the concrete operand `(−5, 10)` -/
theorem ex2_okD : ∀ p, p < 2 * 2 ^ 0 → vmpFlagD exC #[3, 4] 1 1 exAd 1 1 (0 * (2 * 2 ^ 0) + p) := by
  have hT : ∀ row col, row < 1 → col < 1 → (matDft (pOk exC) #[3, 4] 1 row col).size = (pOk exC).nn := by
    intro row col hr hc
    have : row = 0 := by omega
    have : col = 0 := by omega
    subst_vars
    rw [matDft_pOk, exMD, Array.size_map]; rfl
  obtain ⟨_, L, _, _⟩ := vmp_layout_g (pOk exC) (by decide) (by decide) (fun _ => ⟨rfl, rfl⟩) #[3, 4] 1 1 1 1
    (exAd.map lift) (fun _ => hT)
  obtain ⟨c1, c2⟩ := L 0 0 (by decide) (by decide) (fun _ => by decide)
  obtain ⟨m1, m2⟩ := (mulA_cells arithOk false 1 (by simp) (exAd.map lift)
    ((#[4613937818241073152, 4616189618054758400] : Array ℕ).map lift)).2 0 (by omega)
  have f1 := ex2_okM 0 (by norm_num)
  have f2 := ex2_okM 1 (by norm_num)
  rw [m1] at f1
  rw [show (1 : ℕ) = 0 + 1 from rfl, m2] at f2
  simp only [cellRe, cellIm, Bool.false_eq_true, if_false] at f1 f2
  intro p hp
  have hp' : p = 0 ∨ p = 1 := by omega
  unfold vmpFlagD
  rcases hp' with rfl | rfl
  · have c1' : (vmpApplyDftToDft (pOk exC) 1 (exAd.map lift) 1 (vmpPrepare (pOk exC) #[3, 4] 1 1) 1 1).getD
        (0 * (2 * 2 ^ 0) + 0) arithOk.zero = _ := c1
    rw [c1']
    change (reRef arithOk ((exAd.map lift).getD 0 arithOk.zero) ((exAd.map lift).getD 1 arithOk.zero)
      ((matDft (pOk exC) #[3, 4] 1 0 0).getD 0 arithOk.zero) ((matDft (pOk exC) #[3, 4] 1 0 0).getD 1 arithOk.zero)).2
    rw [matDft_pOk, exMD]
    exact f1
  · have c2' : (vmpApplyDftToDft (pOk exC) 1 (exAd.map lift) 1 (vmpPrepare (pOk exC) #[3, 4] 1 1) 1 1).getD
        (0 * (2 * 2 ^ 0) + 1) arithOk.zero = _ := c2
    rw [c2']
    change (imRef arithOk ((exAd.map lift).getD 0 arithOk.zero) ((exAd.map lift).getD 1 arithOk.zero)
      ((matDft (pOk exC) #[3, 4] 1 0 0).getD 0 arithOk.zero) ((matDft (pOk exC) #[3, 4] 1 0 0).getD 1 arithOk.zero)).2
    rw [matDft_pOk, exMD]
    exact f2

/-- flags of the inverse transform of the concrete limb `(−55, 10)` -/
theorem ex2_okI : InvOk exC 0 z0 z0 exAd2 := by
  unfold InvOk exAd2
  intro p hp
  have : p = 0 ∨ p = 1 := by omega
  rcases this with rfl | rfl <;> simp [reimIfftA, ifftRI, joinRI, splitRI, lift] <;> decide

end Spq.ProgErr2
