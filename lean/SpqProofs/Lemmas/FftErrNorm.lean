/-
  Square-root-free 2-norm calculus for the FFT rounding-error analysis (C06.4): complex numbers over an ordered
  field `K` (`Cplx K`), squared modulus `nsq`, and the triangle inequality in the form
      Σ‖f‖² ≤ α²·Y  →  Σ‖g‖² ≤ β²·Y  →  Σ‖f+g‖² ≤ (α+β)²·Y
  (so that `‖e‖₂ ≤ η·‖x‖₂` is stated as `Σ‖e‖² ≤ η²·Σ‖x‖²` and no square root is needed; `K = ℚ` or `ℝ`).
-/
import Mathlib.Algebra.QuadraticAlgebra.Defs
import Mathlib.Algebra.Order.Field.Basic
import Mathlib.Algebra.Order.Ring.Abs
import Mathlib.Algebra.Order.BigOperators.Group.Finset
import Mathlib.Algebra.BigOperators.Intervals
import Mathlib.Tactic.Ring
import Mathlib.Tactic.Linarith
import Mathlib.Tactic.Positivity

set_option linter.unusedSectionVars false

namespace Spq.FftErr
open Finset
variable {K : Type} [Field K] [LinearOrder K] [IsStrictOrderedRing K]

/-- complex numbers over `K`: `i² = -1` -/
abbrev Cplx (K : Type) [Field K] := QuadraticAlgebra K (-1) 0

/-- squared modulus -/
def nsq (z : Cplx K) : K := z.re ^ 2 + z.im ^ 2

theorem nsq_nonneg (z : Cplx K) : 0 ≤ nsq z := by unfold nsq; positivity

@[simp] theorem nsq_zero : nsq (0 : Cplx K) = 0 := by simp [nsq]

theorem nsq_neg (z : Cplx K) : nsq (-z) = nsq z := by simp [nsq]

theorem nsq_sub_comm (z w : Cplx K) : nsq (z - w) = nsq (w - z) := by
  rw [← nsq_neg (z - w), neg_sub]

theorem nsq_mul (z w : Cplx K) : nsq (z * w) = nsq z * nsq w := by
  simp only [nsq, QuadraticAlgebra.re_mul, QuadraticAlgebra.im_mul]; ring

theorem nsq_one : nsq (1 : Cplx K) = 1 := by
  simp [nsq, QuadraticAlgebra.re_one, QuadraticAlgebra.im_one]

theorem nsq_pow (z : Cplx K) (n : ℕ) : nsq (z ^ n) = nsq z ^ n := by
  induction n with
  | zero => simp [nsq_one]
  | succ n ih => rw [pow_succ, nsq_mul, ih, pow_succ]

theorem eq_zero_of_nsq {z : Cplx K} (h : nsq z = 0) : z = 0 := by
  unfold nsq at h
  have h1 : z.re ^ 2 = 0 := by nlinarith [sq_nonneg z.re, sq_nonneg z.im]
  have h2 : z.im ^ 2 = 0 := by nlinarith [sq_nonneg z.re, sq_nonneg z.im]
  ext
  · simpa using pow_eq_zero_iff (n := 2) (by norm_num) |>.1 h1
  · simpa using pow_eq_zero_iff (n := 2) (by norm_num) |>.1 h2

/-- `(α+β)(β‖x‖² + α‖y‖²) − αβ‖x+y‖² = ‖βx − αy‖² ≥ 0` -/
theorem nsq_add_weighted (x y : Cplx K) (α β : K) :
    α * β * nsq (x + y) ≤ (α + β) * (β * nsq x + α * nsq y) := by
  simp only [nsq, QuadraticAlgebra.re_add, QuadraticAlgebra.im_add]
  nlinarith [sq_nonneg (β * x.re - α * y.re), sq_nonneg (β * x.im - α * y.im)]

/-- the triangle inequality for `‖·‖₂`, in squared form relative to a common scale `Y` -/
theorem sum_tri {ι : Type} (s : Finset ι) (f g : ι → Cplx K) (α β Y : K) (hα : 0 ≤ α) (hβ : 0 ≤ β)
    (hf : ∑ i ∈ s, nsq (f i) ≤ α ^ 2 * Y) (hg : ∑ i ∈ s, nsq (g i) ≤ β ^ 2 * Y) :
    ∑ i ∈ s, nsq (f i + g i) ≤ (α + β) ^ 2 * Y := by
  rcases eq_or_lt_of_le hα with h0 | hαp
  · -- α = 0: f vanishes on s
    subst h0
    have hz : ∑ i ∈ s, nsq (f i) = 0 :=
      le_antisymm (by simpa using hf) (sum_nonneg (fun i _ => nsq_nonneg _))
    have hfi : ∀ i ∈ s, f i = 0 := fun i hi =>
      eq_zero_of_nsq ((sum_eq_zero_iff_of_nonneg (fun i _ => nsq_nonneg _)).1 hz i hi)
    rw [zero_add]
    calc ∑ i ∈ s, nsq (f i + g i) = ∑ i ∈ s, nsq (g i) :=
          sum_congr rfl (fun i hi => by rw [hfi i hi, zero_add])
      _ ≤ _ := hg
  rcases eq_or_lt_of_le hβ with h0 | hβp
  · subst h0
    have hz : ∑ i ∈ s, nsq (g i) = 0 :=
      le_antisymm (by simpa using hg) (sum_nonneg (fun i _ => nsq_nonneg _))
    have hgi : ∀ i ∈ s, g i = 0 := fun i hi =>
      eq_zero_of_nsq ((sum_eq_zero_iff_of_nonneg (fun i _ => nsq_nonneg _)).1 hz i hi)
    rw [add_zero]
    calc ∑ i ∈ s, nsq (f i + g i) = ∑ i ∈ s, nsq (f i) :=
          sum_congr rfl (fun i hi => by rw [hgi i hi, add_zero])
      _ ≤ _ := hf
  have hab : 0 < α * β := mul_pos hαp hβp
  have h1 : α * β * ∑ i ∈ s, nsq (f i + g i) ≤
      (α + β) * (β * ∑ i ∈ s, nsq (f i) + α * ∑ i ∈ s, nsq (g i)) := by
    rw [mul_sum, mul_sum, mul_sum, ← sum_add_distrib, mul_sum]
    exact sum_le_sum (fun i _ => nsq_add_weighted (f i) (g i) α β)
  have h2 : β * ∑ i ∈ s, nsq (f i) ≤ β * (α ^ 2 * Y) := mul_le_mul_of_nonneg_left hf hβ
  have h3 : α * ∑ i ∈ s, nsq (g i) ≤ α * (β ^ 2 * Y) := mul_le_mul_of_nonneg_left hg hα
  have h4 : (α + β) * (β * ∑ i ∈ s, nsq (f i) + α * ∑ i ∈ s, nsq (g i)) ≤
      (α + β) * (β * (α ^ 2 * Y) + α * (β ^ 2 * Y)) :=
    mul_le_mul_of_nonneg_left (by linarith) (by linarith)
  have h5 : (α + β) * (β * (α ^ 2 * Y) + α * (β ^ 2 * Y)) = α * β * ((α + β) ^ 2 * Y) := by ring
  exact le_of_mul_le_mul_left (by linarith) hab

/-- two-term version -/
theorem pair_tri (x1 x2 y1 y2 : Cplx K) (α β Y : K) (hα : 0 ≤ α) (hβ : 0 ≤ β)
    (hf : nsq x1 + nsq x2 ≤ α ^ 2 * Y) (hg : nsq y1 + nsq y2 ≤ β ^ 2 * Y) :
    nsq (x1 + y1) + nsq (x2 + y2) ≤ (α + β) ^ 2 * Y := by
  have := sum_tri (range 2) (fun i => if i = 0 then x1 else x2) (fun i => if i = 0 then y1 else y2) α β Y hα hβ
    (by simpa [sum_range_succ] using hf) (by simpa [sum_range_succ] using hg)
  simpa [sum_range_succ] using this

/-- one-term version -/
theorem one_tri (x y : Cplx K) (α β Y : K) (hα : 0 ≤ α) (hβ : 0 ≤ β)
    (hf : nsq x ≤ α ^ 2 * Y) (hg : nsq y ≤ β ^ 2 * Y) : nsq (x + y) ≤ (α + β) ^ 2 * Y := by
  have := sum_tri (range 1) (fun _ => x) (fun _ => y) α β Y hα hβ (by simpa using hf) (by simpa using hg)
  simpa using this

end Spq.FftErr
