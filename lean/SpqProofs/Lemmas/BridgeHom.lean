/-
  Bridge, arbitrary `Ops`: if `φ : α → R` carries the operations `o : Ops α` to the operations of a
  commutative ring `R`, the `Ops`-level specification formulas map to the ring formulas.  Instance:
  wrapping int64 arithmetic (`i64Ops`) and `φ = (↑) : ℤ → ZMod 2^64`.
-/
import SpqProofs.Lemmas.BridgeArr
import Mathlib.Data.ZMod.Basic

namespace Spq.Bridge
open Polynomial Finset Spq.Rq

variable {R : Type} [CommRing R] {α : Type}

/-- `φ` is a homomorphism from the operations `o` to the ring operations of `R` -/
structure OpsHom (o : Ops α) (φ : α → R) : Prop where
  zero : φ o.zero = 0
  neg : ∀ x, φ (o.neg x) = - φ x
  add : ∀ x y, φ (o.add x y) = φ x + φ y
  sub : ∀ x y, φ (o.sub x y) = φ x - φ y

/-- an `α`-array read through `φ` as a function -/
def ofArrVia (o : Ops α) (φ : α → R) (a : Array α) : Nat → R := fun i => φ (a.getD i o.zero)

theorem opsHom_id : OpsHom (ringOps R) (fun x : R => x) := ⟨rfl, fun _ => rfl, fun _ _ => rfl, fun _ _ => rfl⟩

theorem rotCoeff_map (o : Ops α) (φ : α → R) (h : OpsHom o φ) (n : Nat) (p : Int) (a : Array α) (k : Nat) :
    φ (rotCoeff o n p a k) = rot n p (ofArrVia o φ a) k := by
  unfold rotCoeff rot ofArrVia
  split_ifs
  · rfl
  · rw [h.neg]

theorem mulXpCoeff_map (o : Ops α) (φ : α → R) (h : OpsHom o φ) (n : Nat) (p : Int) (a : Array α) (k : Nat) :
    φ (mulXpCoeff o n p a k) = mulxp n p (ofArrVia o φ a) k := by
  unfold mulXpCoeff mulxp
  rw [h.sub, rotCoeff_map o φ h]; rfl

theorem autVal_map (o : Ops α) (φ : α → R) (h : OpsHom o φ) (n : Nat) (p : Int) (a : Array α) (i : Nat) :
    φ (autVal o n p a i) = if autExp n p i < n then ofArrVia o φ a i else - ofArrVia o φ a i := by
  unfold autVal ofArrVia
  split_ifs
  · rfl
  · rw [h.neg]

omit [CommRing R] in
theorem ofArrVia_of_getElem? (o : Ops α) (φ : α → R) (r : Array α) (k : Nat) (v : α)
    (h : r[k]? = some v) : ofArrVia o φ r k = φ v := by
  unfold ofArrVia
  rw [Array.getD_eq_getD_getElem?, h]; rfl

/-- the cast `ℤ → ZMod 2^64` forgets the two's-complement wrap -/
theorem cast_wrapS (x : Int) : ((wrapS x : Int) : ZMod P64) = (x : ZMod P64) := by
  unfold wrapS
  have h63 : ((9223372036854775808 : Int) : ZMod P64) + ((9223372036854775808 : Int) : ZMod P64) = 0 := by
    rw [← Int.cast_add]
    exact_mod_cast ZMod.natCast_self P64
  have := ZMod.intCast_mod (x + 9223372036854775808) P64
  rw [Int.cast_sub, show ((18446744073709551616 : Int)) = ((P64 : Nat) : Int) by rfl, this, Int.cast_add]
  ring

/-- wrapping int64 arithmetic is the arithmetic of `ZMod 2^64` -/
theorem opsHom_i64 : OpsHom i64Ops (fun x : Int => (x : ZMod P64)) where
  zero := by show ((0 : Int) : ZMod P64) = 0; simp
  neg x := by show ((negS x : Int) : ZMod P64) = _; unfold negS; rw [cast_wrapS]; simp
  add x y := by show ((addS x y : Int) : ZMod P64) = _; unfold addS; rw [cast_wrapS]; simp
  sub x y := by show ((subS x y : Int) : ZMod P64) = _; unfold subS; rw [cast_wrapS]; simp

theorem toPoly_ofArrVia_of_spec (o : Ops α) (φ : α → R) (n : Nat) (r : Array α) (F : Nat → α)
    (h : ∀ k, k < n → r[k]? = some (F k)) :
    toPoly n (ofArrVia o φ r) = toPoly n (fun k => φ (F k)) :=
  toPoly_congr n _ _ (fun k hk => ofArrVia_of_getElem? o φ r k _ (h k hk))

end Spq.Bridge
