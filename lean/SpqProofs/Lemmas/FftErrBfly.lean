/-
  C06.4 `butterfly_err`: one forward FFT butterfly `(a, b) ↦ (a + ω·b, a − ω·b)` computed by `ctRef` (mul, mul,
  sub/add, then add/sub) or `ctFma` (mul, fused multiply-add, then add/sub) of `Spq/Fft/Core.lean`, in an arithmetic
  satisfying the standard model with unit roundoff `u`, with a stored twiddle `ŵ` such that `|ŵ − ω| ≤ τ`, `|ω| = 1`:
      ‖(â', b̂') − (a', b')‖₂ ≤ η·‖(a', b')‖₂,   η = (1+u)(1+ρ) − 1,  ρ = τ + (3/2)·((1+u)² − 1)·(1+τ)
  (to first order `η ≈ τ + 4u`; recall `‖(a', b')‖₂ = √2·‖(a, b)‖₂`).  Norms are squared (`FftErrNorm`).
-/
import SpqProofs.Lemmas.FftErrNorm
import SpqProofs.Lemmas.Reim4Err
import Spq.Fft.Core

set_option linter.unusedSectionVars false

namespace Spq.FftErr
open Spq.Fft
variable {K : Type} [Field K] [LinearOrder K] [IsStrictOrderedRing K]

/-- the standard model for the arithmetic record of the FFT butterflies -/
structure FStd (A : Arith K) (u : K) : Prop where
  u_nonneg : 0 ≤ u
  add : ∀ a b, |A.add a b - (a + b)| ≤ u * |a + b|
  sub : ∀ a b, |A.sub a b - (a - b)| ≤ u * |a - b|
  mul : ∀ a b, |A.mul a b - a * b| ≤ u * |a * b|
  fma : ∀ a b c, |A.fma a b c - (a * b + c)| ≤ u * |a * b + c|
  fms : ∀ a b c, |A.fms a b c - (a * b - c)| ≤ u * |a * b - c|
  neg : ∀ a, A.neg a = -a

/-- `γ₂ = (1+u)² − 1` -/
def gam (u : K) : K := (1 + u) ^ 2 - 1
/-- error of the computed `ω·b` relative to `|b|` -/
def rho (u τ : K) : K := 3 / 2 * gam u * (1 + τ) + τ
/-- the butterfly constant -/
def eta (u τ : K) : K := u * (1 + rho u τ) + rho u τ

theorem gam_nonneg {u : K} (hu : 0 ≤ u) : 0 ≤ gam u := by unfold gam; nlinarith
theorem rho_nonneg {u τ : K} (hu : 0 ≤ u) (hτ : 0 ≤ τ) : 0 ≤ rho u τ := by
  unfold rho; have := gam_nonneg hu; positivity
theorem eta_nonneg {u τ : K} (hu : 0 ≤ u) (hτ : 0 ≤ τ) : 0 ≤ eta u τ := by
  unfold eta; have := rho_nonneg hu hτ; positivity

theorem eta_eq (u τ : K) : eta u τ = (1 + u) * (1 + rho u τ) - 1 := by unfold eta; ring

/-- fused `T = fl(x + sg·P)`, `P = fl(y)`: two roundings -/
theorem fused_err (u x y P T sg : K) (hu : 0 ≤ u) (hsg : sg = 1 ∨ sg = -1)
    (hP : |P - y| ≤ u * |y|) (hT : |T - (x + sg * P)| ≤ u * |x + sg * P|) :
    |T - (x + sg * y)| ≤ gam u * (|x| + |y|) := by
  have hsgabs : |sg| = 1 := by rcases hsg with h | h <;> simp [h]
  have e1 : |sg * P| = |P| := by rw [abs_mul, hsgabs, one_mul]
  have e3 : |sg * (P - y)| = |P - y| := by rw [abs_mul, hsgabs, one_mul]
  have hPa : |P| ≤ |y| + u * |y| := by
    have : P = (P - y) + y := by ring
    calc |P| = |(P - y) + y| := by rw [← this]
      _ ≤ |P - y| + |y| := abs_add_le _ _
      _ ≤ _ := by linarith
  have h1 : |x + sg * P| ≤ |x| + |P| := by
    calc |x + sg * P| ≤ |x| + |sg * P| := abs_add_le _ _
      _ = _ := by rw [e1]
  have h2 : |T - (x + sg * y)| ≤ |T - (x + sg * P)| + |P - y| := by
    have : T - (x + sg * y) = (T - (x + sg * P)) + sg * (P - y) := by ring
    rw [this]
    calc _ ≤ |T - (x + sg * P)| + |sg * (P - y)| := abs_add_le _ _
      _ = _ := by rw [e3]
  have h3 : u * |x + sg * P| ≤ u * (|x| + (|y| + u * |y|)) := mul_le_mul_of_nonneg_left (by linarith) hu
  have hx := abs_nonneg x
  have hy := abs_nonneg y
  unfold gam
  nlinarith [mul_nonneg hu hx, mul_nonneg (mul_nonneg hu hu) hx]

/-- componentwise product errors give a 2-norm error `≤ γ·√2·|b|·|ŵ|` (squared) -/
theorem cprod_bound (g dr di x1 x2 y1 y2 : K)
    (hr : |dr| ≤ g * (|x1 * y1| + |x2 * y2|)) (hi : |di| ≤ g * (|x1 * y2| + |x2 * y1|)) :
    dr ^ 2 + di ^ 2 ≤ g ^ 2 * (2 * ((x1 ^ 2 + x2 ^ 2) * (y1 ^ 2 + y2 ^ 2))) := by
  simp only [abs_mul] at hr hi
  have a1 := abs_nonneg x1
  have a2 := abs_nonneg x2
  have b1 := abs_nonneg y1
  have b2 := abs_nonneg y2
  have s1 : x1 ^ 2 = |x1| ^ 2 := (sq_abs x1).symm
  have s2 : x2 ^ 2 = |x2| ^ 2 := (sq_abs x2).symm
  have s3 : y1 ^ 2 = |y1| ^ 2 := (sq_abs y1).symm
  have s4 : y2 ^ 2 = |y2| ^ 2 := (sq_abs y2).symm
  rw [s1, s2, s3, s4]
  generalize |x1| = p1 at *
  generalize |x2| = p2 at *
  generalize |y1| = q1 at *
  generalize |y2| = q2 at *
  have hr2 : dr ^ 2 ≤ (g * (p1 * q1 + p2 * q2)) ^ 2 := by
    rw [← sq_abs dr]; exact pow_le_pow_left₀ (abs_nonneg _) hr 2
  have hi2 : di ^ 2 ≤ (g * (p1 * q2 + p2 * q1)) ^ 2 := by
    rw [← sq_abs di]; exact pow_le_pow_left₀ (abs_nonneg _) hi 2
  have key : (p1 * q1 + p2 * q2) ^ 2 + (p1 * q2 + p2 * q1) ^ 2 ≤ 2 * ((p1 ^ 2 + p2 ^ 2) * (q1 ^ 2 + q2 ^ 2)) := by
    nlinarith [sq_nonneg (p1 * q1 - p2 * q2), sq_nonneg (p1 * q2 - p2 * q1)]
  have : (g * (p1 * q1 + p2 * q2)) ^ 2 + (g * (p1 * q2 + p2 * q1)) ^ 2 =
      g ^ 2 * ((p1 * q1 + p2 * q2) ^ 2 + (p1 * q2 + p2 * q1) ^ 2) := by ring
  have hg2 : 0 ≤ g ^ 2 := by positivity
  nlinarith [mul_le_mul_of_nonneg_left key hg2]

/-- componentwise relative error `u` gives 2-norm relative error `u` -/
theorem nsq_comp_err (u : K) (x s : Cplx K) (hr : |x.re - s.re| ≤ u * |s.re|) (hi : |x.im - s.im| ≤ u * |s.im|) :
    nsq (x - s) ≤ u ^ 2 * nsq s := by
  unfold nsq
  simp only [QuadraticAlgebra.re_sub, QuadraticAlgebra.im_sub]
  have h1 : (x.re - s.re) ^ 2 ≤ (u * |s.re|) ^ 2 := by
    rw [← sq_abs (x.re - s.re)]; exact pow_le_pow_left₀ (abs_nonneg _) hr 2
  have h2 : (x.im - s.im) ^ 2 ≤ (u * |s.im|) ^ 2 := by
    rw [← sq_abs (x.im - s.im)]; exact pow_le_pow_left₀ (abs_nonneg _) hi 2
  rw [mul_pow, sq_abs] at h1 h2
  linarith

/-- parallelogram identity for the exact butterfly, `|ω| = 1` -/
theorem bfly_norm (a b w : Cplx K) (hw : nsq w = 1) :
    nsq (a + w * b) + nsq (a - w * b) = 2 * nsq a + 2 * nsq b := by
  have h : nsq (w * b) = nsq b := by rw [nsq_mul, hw, one_mul]
  have : nsq (a + w * b) + nsq (a - w * b) = 2 * nsq a + 2 * nsq (w * b) := by
    simp only [nsq, QuadraticAlgebra.re_add, QuadraticAlgebra.im_add, QuadraticAlgebra.re_sub, QuadraticAlgebra.im_sub]
    ring
  rw [this, h]

/-- the error of the computed product `n̂ ≈ ω·b`: rounding (componentwise bounds with `γ`) and twiddle error `τ` -/
theorem prod_err (u τ : K) (hu : 0 ≤ u) (hτ : 0 ≤ τ) (b wh w : Cplx K) (hw : nsq w = 1) (hτw : nsq (wh - w) ≤ τ ^ 2)
    (nh : Cplx K)
    (hnr : |nh.re - (b.re * wh.re - b.im * wh.im)| ≤ gam u * (|b.re * wh.re| + |b.im * wh.im|))
    (hni : |nh.im - (b.re * wh.im + b.im * wh.re)| ≤ gam u * (|b.re * wh.im| + |b.im * wh.re|)) :
    nsq (nh - w * b) ≤ rho u τ ^ 2 * nsq b := by
  have hg := gam_nonneg hu
  have hb := nsq_nonneg b
  -- |ŵ| ≤ 1 + τ
  have hwh : nsq wh ≤ (1 + τ) ^ 2 := by
    have := one_tri w (wh - w) 1 τ 1 (by norm_num) hτ (by rw [hw]; norm_num) (by linarith)
    rw [show w + (wh - w) = wh by ring, mul_one] at this
    exact this
  -- rounding part
  have h1 : nsq (nh - wh * b) ≤ (3 / 2 * gam u * (1 + τ)) ^ 2 * nsq b := by
    have hc := cprod_bound (gam u) (nh.re - (b.re * wh.re - b.im * wh.im)) (nh.im - (b.re * wh.im + b.im * wh.re))
      b.re b.im wh.re wh.im hnr hni
    have e : nsq (nh - wh * b) = (nh.re - (b.re * wh.re - b.im * wh.im)) ^ 2 + (nh.im - (b.re * wh.im + b.im * wh.re)) ^ 2 := by
      simp only [nsq, QuadraticAlgebra.re_sub, QuadraticAlgebra.im_sub, QuadraticAlgebra.re_mul, QuadraticAlgebra.im_mul]
      ring
    rw [e]
    refine le_trans hc ?_
    have e2 : (b.re ^ 2 + b.im ^ 2) = nsq b := rfl
    have e3 : (wh.re ^ 2 + wh.im ^ 2) = nsq wh := rfl
    rw [e2, e3]
    have hg2 : 0 ≤ gam u ^ 2 := by positivity
    have h5 : nsq b * nsq wh ≤ nsq b * (1 + τ) ^ 2 := mul_le_mul_of_nonneg_left hwh hb
    have h6 : 0 ≤ gam u ^ 2 * (nsq b * (1 + τ) ^ 2) := by positivity
    nlinarith [mul_le_mul_of_nonneg_left h5 hg2]
  -- twiddle part
  have h2 : nsq ((wh - w) * b) ≤ τ ^ 2 * nsq b := by
    rw [nsq_mul]; exact mul_le_mul_of_nonneg_right hτw hb
  have := one_tri (nh - wh * b) ((wh - w) * b) (3 / 2 * gam u * (1 + τ)) τ (nsq b) (by positivity) hτ h1 h2
  rw [show nh - wh * b + (wh - w) * b = nh - w * b by ring] at this
  exact this

/-- **core of `butterfly_err`**: any computed product `n̂` with the componentwise bounds, followed by the two
    rounded additions/subtractions -/
theorem bfly_core (u τ : K) (hu : 0 ≤ u) (hτ : 0 ≤ τ) (a b wh w : Cplx K) (hw : nsq w = 1) (hτw : nsq (wh - w) ≤ τ ^ 2)
    (nh o1 o2 : Cplx K)
    (hnr : |nh.re - (b.re * wh.re - b.im * wh.im)| ≤ gam u * (|b.re * wh.re| + |b.im * wh.im|))
    (hni : |nh.im - (b.re * wh.im + b.im * wh.re)| ≤ gam u * (|b.re * wh.im| + |b.im * wh.re|))
    (h1r : |o1.re - (a.re + nh.re)| ≤ u * |a.re + nh.re|) (h1i : |o1.im - (a.im + nh.im)| ≤ u * |a.im + nh.im|)
    (h2r : |o2.re - (a.re - nh.re)| ≤ u * |a.re - nh.re|) (h2i : |o2.im - (a.im - nh.im)| ≤ u * |a.im - nh.im|) :
    nsq (o1 - (a + w * b)) + nsq (o2 - (a - w * b)) ≤ eta u τ ^ 2 * (nsq (a + w * b) + nsq (a - w * b)) := by
  have hρ := rho_nonneg hu hτ
  have hd := prod_err u τ hu hτ b wh w hw hτw nh hnr hni
  have hY := bfly_norm a b w hw
  generalize hYd : nsq (a + w * b) + nsq (a - w * b) = Y at *
  have ha := nsq_nonneg a
  have hb := nsq_nonneg b
  -- S − O
  have hSO : nsq ((a + nh) - (a + w * b)) + nsq ((a - nh) - (a - w * b)) ≤ rho u τ ^ 2 * Y := by
    rw [show (a + nh) - (a + w * b) = nh - w * b by ring, show (a - nh) - (a - w * b) = -(nh - w * b) by ring, nsq_neg]
    have : 0 ≤ rho u τ ^ 2 := by positivity
    nlinarith [mul_le_mul_of_nonneg_left ha this]
  -- S
  have hS : nsq (a + nh) + nsq (a - nh) ≤ (1 + rho u τ) ^ 2 * Y := by
    have := pair_tri (a + w * b) (a - w * b) ((a + nh) - (a + w * b)) ((a - nh) - (a - w * b)) 1 (rho u τ) Y
      (by norm_num) hρ (by rw [hYd]; linarith) hSO
    rw [show a + w * b + ((a + nh) - (a + w * b)) = a + nh by ring,
      show a - w * b + ((a - nh) - (a - w * b)) = a - nh by ring] at this
    exact this
  -- Ô − S
  have e1 := nsq_comp_err u o1 (a + nh) (by simpa using h1r) (by simpa using h1i)
  have e2 := nsq_comp_err u o2 (a - nh) (by simpa using h2r) (by simpa using h2i)
  have hOS : nsq (o1 - (a + nh)) + nsq (o2 - (a - nh)) ≤ (u * (1 + rho u τ)) ^ 2 * Y := by
    have hu2 : 0 ≤ u ^ 2 := by positivity
    have := mul_le_mul_of_nonneg_left hS hu2
    rw [mul_pow]
    linarith
  have := pair_tri (o1 - (a + nh)) (o2 - (a - nh)) ((a + nh) - (a + w * b)) ((a - nh) - (a - w * b))
    (u * (1 + rho u τ)) (rho u τ) Y (by positivity) hρ hOS hSO
  rw [show o1 - (a + nh) + ((a + nh) - (a + w * b)) = o1 - (a + w * b) by ring,
    show o2 - (a - nh) + ((a - nh) - (a - w * b)) = o2 - (a - w * b) by ring] at this
  exact this

/-! ### the butterflies of `Spq/Fft/Core.lean` on complex values -/

/-- a butterfly of the model acting on complex numbers (real/imaginary parts passed separately, as in the code) -/
def bfC (f : Bf K) (a b w : Cplx K) : Cplx K × Cplx K :=
  (⟨(f a.re a.im b.re b.im w.re w.im).1, (f a.re a.im b.re b.im w.re w.im).2.1⟩,
   ⟨(f a.re a.im b.re b.im w.re w.im).2.2.1, (f a.re a.im b.re b.im w.re w.im).2.2.2⟩)

/-- `g` computes the butterfly `(a, b) ↦ (a + ω·b, a − ω·b)` with 2-norm relative error `η`:
    `‖g(a,b) − (a', b')‖² ≤ η²·‖(a', b')‖²` -/
def BfErrAt (g : Cplx K → Cplx K → Cplx K × Cplx K) (w : Cplx K) (η : K) : Prop :=
  ∀ a b, nsq ((g a b).1 - (a + w * b)) + nsq ((g a b).2 - (a - w * b)) ≤
    η ^ 2 * (nsq (a + w * b) + nsq (a - w * b))

/-- `butterfly_err`, reference flavour (`reim_ctwiddle`, cplx `ctwiddle`: mul, mul, sub / add, then add / sub) -/
theorem butterfly_err_ref (A : Arith K) (u τ : K) (sm : FStd A u) (hτ : 0 ≤ τ) (wh w : Cplx K)
    (hw : nsq w = 1) (hτw : nsq (wh - w) ≤ τ ^ 2) :
    BfErrAt (fun a b => bfC (ctRef A) a b wh) w (eta u τ) := by
  intro a b
  have hu := sm.u_nonneg
  have t1 := (Reim4.term_err u b.re wh.re b.im wh.im (A.mul b.re wh.re) (A.mul b.im wh.im)
    (A.sub (A.mul b.re wh.re) (A.mul b.im wh.im)) (-1) hu (Or.inr rfl) (sm.mul _ _) (sm.mul _ _)
    (by have := sm.sub (A.mul b.re wh.re) (A.mul b.im wh.im)
        rw [show A.mul b.re wh.re + -1 * A.mul b.im wh.im = A.mul b.re wh.re - A.mul b.im wh.im by ring]
        exact this)).1
  rw [show b.re * wh.re + -1 * (b.im * wh.im) = b.re * wh.re - b.im * wh.im by ring] at t1
  have t2 := (Reim4.term_err u b.re wh.im b.im wh.re (A.mul b.re wh.im) (A.mul b.im wh.re)
    (A.add (A.mul b.re wh.im) (A.mul b.im wh.re)) 1 hu (Or.inl rfl) (sm.mul _ _) (sm.mul _ _)
    (by have := sm.add (A.mul b.re wh.im) (A.mul b.im wh.re)
        rw [one_mul]; exact this)).1
  rw [one_mul] at t2
  exact bfly_core u τ hu hτ a b wh w hw hτw
    ⟨A.sub (A.mul b.re wh.re) (A.mul b.im wh.im), A.add (A.mul b.re wh.im) (A.mul b.im wh.re)⟩ _ _
    t1 t2 (sm.add _ _) (sm.add _ _) (sm.sub _ _) (sm.sub _ _)

/-- `butterfly_err`, FMA flavour (`vmulpd` + `vfmsub231pd` / `vfmadd231pd`, then add / sub) -/
theorem butterfly_err_fma (A : Arith K) (u τ : K) (sm : FStd A u) (hτ : 0 ≤ τ) (wh w : Cplx K)
    (hw : nsq w = 1) (hτw : nsq (wh - w) ≤ τ ^ 2) :
    BfErrAt (fun a b => bfC (ctFma A) a b wh) w (eta u τ) := by
  intro a b
  have hu := sm.u_nonneg
  have t1 := fused_err u (b.re * wh.re) (b.im * wh.im) (A.mul b.im wh.im) (A.fms b.re wh.re (A.mul b.im wh.im)) (-1)
    hu (Or.inr rfl) (sm.mul _ _)
    (by have := sm.fms b.re wh.re (A.mul b.im wh.im)
        rw [show b.re * wh.re + -1 * A.mul b.im wh.im = b.re * wh.re - A.mul b.im wh.im by ring]
        exact this)
  rw [show b.re * wh.re + -1 * (b.im * wh.im) = b.re * wh.re - b.im * wh.im by ring] at t1
  have t2 := fused_err u (b.im * wh.re) (b.re * wh.im) (A.mul b.re wh.im) (A.fma b.im wh.re (A.mul b.re wh.im)) 1
    hu (Or.inl rfl) (sm.mul _ _)
    (by have := sm.fma b.im wh.re (A.mul b.re wh.im)
        rw [one_mul]; exact this)
  rw [one_mul, add_comm (b.im * wh.re), add_comm |b.im * wh.re|] at t2
  exact bfly_core u τ hu hτ a b wh w hw hτw
    ⟨A.fms b.re wh.re (A.mul b.im wh.im), A.fma b.im wh.re (A.mul b.re wh.im)⟩ _ _
    t1 t2 (sm.add _ _) (sm.add _ _) (sm.sub _ _) (sm.sub _ _)

/-! ### the `i·ω` butterflies (`citwiddle`): the same bound, for the exact twiddle `i·ω` -/

/-- the imaginary unit -/
def Ic : Cplx K := ⟨0, 1⟩

theorem Ic_mul (z : Cplx K) : Ic * z = ⟨-z.im, z.re⟩ := by
  ext <;> simp [Ic, QuadraticAlgebra.re_mul, QuadraticAlgebra.im_mul]

theorem nsq_Ic_mul (z : Cplx K) : nsq (Ic * z) = nsq z := by
  rw [Ic_mul]; simp only [nsq]; ring

theorem rot_tw {wh w : Cplx K} {τ : K} (hτw : nsq (wh - w) ≤ τ ^ 2) :
    nsq ((⟨-wh.im, wh.re⟩ : Cplx K) - Ic * w) ≤ τ ^ 2 := by
  rw [← Ic_mul, ← mul_sub, nsq_Ic_mul]; exact hτw

/-- `reim_citwiddle` / cplx `citwiddle`, reference flavour -/
theorem butterfly_err_cit_ref (A : Arith K) (u τ : K) (sm : FStd A u) (hτ : 0 ≤ τ) (wh w : Cplx K)
    (hw : nsq w = 1) (hτw : nsq (wh - w) ≤ τ ^ 2) :
    BfErrAt (fun a b => bfC (citRef A) a b wh) (Ic * w) (eta u τ) := by
  intro a b
  have hu := sm.u_nonneg
  have t1 := (Reim4.term_err u (-b.re) wh.im b.im wh.re (A.mul (-b.re) wh.im) (A.mul b.im wh.re)
    (A.sub (A.mul (-b.re) wh.im) (A.mul b.im wh.re)) (-1) hu (Or.inr rfl) (sm.mul _ _) (sm.mul _ _)
    (by have := sm.sub (A.mul (-b.re) wh.im) (A.mul b.im wh.re)
        rw [show A.mul (-b.re) wh.im + -1 * A.mul b.im wh.re = A.mul (-b.re) wh.im - A.mul b.im wh.re by ring]
        exact this)).1
  rw [show -b.re * wh.im + -1 * (b.im * wh.re) = b.re * -wh.im - b.im * wh.re by ring,
    show -b.re * wh.im = b.re * -wh.im by ring] at t1
  have t2 := (Reim4.term_err u b.re wh.re b.im wh.im (A.mul b.re wh.re) (A.mul b.im wh.im)
    (A.sub (A.mul b.re wh.re) (A.mul b.im wh.im)) (-1) hu (Or.inr rfl) (sm.mul _ _) (sm.mul _ _)
    (by have := sm.sub (A.mul b.re wh.re) (A.mul b.im wh.im)
        rw [show A.mul b.re wh.re + -1 * A.mul b.im wh.im = A.mul b.re wh.re - A.mul b.im wh.im by ring]
        exact this)).1
  rw [show b.re * wh.re + -1 * (b.im * wh.im) = b.re * wh.re + b.im * -wh.im by ring,
    show |b.im * wh.im| = |b.im * -wh.im| by rw [mul_neg, abs_neg]] at t2
  have := bfly_core u τ hu hτ a b ⟨-wh.im, wh.re⟩ (Ic * w) (by rw [nsq_Ic_mul]; exact hw) (rot_tw hτw)
    ⟨A.sub (A.mul (-b.re) wh.im) (A.mul b.im wh.re), A.sub (A.mul b.re wh.re) (A.mul b.im wh.im)⟩
    ⟨A.add a.re (A.sub (A.mul (-b.re) wh.im) (A.mul b.im wh.re)), A.add a.im (A.sub (A.mul b.re wh.re) (A.mul b.im wh.im))⟩
    ⟨A.sub a.re (A.sub (A.mul (-b.re) wh.im) (A.mul b.im wh.re)), A.sub a.im (A.sub (A.mul b.re wh.re) (A.mul b.im wh.im))⟩
    t1 t2 (sm.add _ _) (sm.add _ _) (sm.sub _ _) (sm.sub _ _)
  simp only [bfC, citRef, sm.neg]
  exact this

/-- FMA `i·ω` butterfly, shape N (4/8-point kernels): `ctFma` with the twiddle `(-ωi, ωr)` -/
theorem butterfly_err_cit_fmaN (A : Arith K) (u τ : K) (sm : FStd A u) (hτ : 0 ≤ τ) (wh w : Cplx K)
    (hw : nsq w = 1) (hτw : nsq (wh - w) ≤ τ ^ 2) :
    BfErrAt (fun a b => bfC (citFmaN A) a b wh) (Ic * w) (eta u τ) := by
  intro a b
  have := butterfly_err_fma A u τ sm hτ ⟨-wh.im, wh.re⟩ (Ic * w) (by rw [nsq_Ic_mul]; exact hw) (rot_tw hτw) a b
  simp only [bfC, citFmaN, sm.neg] at this ⊢
  exact this

/-- FMA `i·ω` butterfly, shape B (bitwiddle passes of `reim_fft_avx2.c` and the assembly leaves):
    `t = ωi·rb + fl(ωr·ib)`, then `ra ∓ t` -/
theorem butterfly_err_cit_fmaB (A : Arith K) (u τ : K) (sm : FStd A u) (hτ : 0 ≤ τ) (wh w : Cplx K)
    (hw : nsq w = 1) (hτw : nsq (wh - w) ≤ τ ^ 2) :
    BfErrAt (fun a b => bfC (citFmaB A) a b wh) (Ic * w) (eta u τ) := by
  intro a b
  have hu := sm.u_nonneg
  obtain ⟨tr, htr⟩ : ∃ tr, tr = A.fma wh.im b.re (A.mul wh.re b.im) := ⟨_, rfl⟩
  obtain ⟨ti, hti⟩ : ∃ ti, ti = A.fms wh.im b.im (A.mul wh.re b.re) := ⟨_, rfl⟩
  have f1 := fused_err u (wh.im * b.re) (wh.re * b.im) (A.mul wh.re b.im) tr 1
    hu (Or.inl rfl) (sm.mul _ _) (by rw [htr, one_mul]; exact sm.fma _ _ _)
  have f2 := fused_err u (wh.im * b.im) (wh.re * b.re) (A.mul wh.re b.re) ti (-1)
    hu (Or.inr rfl) (sm.mul _ _)
    (by rw [hti, show wh.im * b.im + -1 * A.mul wh.re b.re = wh.im * b.im - A.mul wh.re b.re by ring]
        exact sm.fms _ _ _)
  have t1 : |-tr - (b.re * -wh.im - b.im * wh.re)| ≤ gam u * (|b.re * -wh.im| + |b.im * wh.re|) := by
    rw [show -tr - (b.re * -wh.im - b.im * wh.re) = -(tr - (wh.im * b.re + 1 * (wh.re * b.im))) by ring, abs_neg,
      show b.re * -wh.im = -(wh.im * b.re) by ring, abs_neg, show b.im * wh.re = wh.re * b.im by ring]
    exact f1
  have t2 : |-ti - (b.re * wh.re + b.im * -wh.im)| ≤ gam u * (|b.re * wh.re| + |b.im * -wh.im|) := by
    rw [show -ti - (b.re * wh.re + b.im * -wh.im) = -(ti - (wh.im * b.im + -1 * (wh.re * b.re))) by ring, abs_neg,
      show b.im * -wh.im = -(wh.im * b.im) by ring, abs_neg, show b.re * wh.re = wh.re * b.re by ring,
      add_comm |wh.re * b.re|]
    exact f2
  have s1 : |A.sub a.re tr - (a.re + -tr)| ≤ u * |a.re + -tr| := by
    rw [← sub_eq_add_neg]; exact sm.sub _ _
  have s2 : |A.sub a.im ti - (a.im + -ti)| ≤ u * |a.im + -ti| := by
    rw [← sub_eq_add_neg]; exact sm.sub _ _
  have s3 : |A.add a.re tr - (a.re - -tr)| ≤ u * |a.re - -tr| := by
    rw [sub_neg_eq_add]; exact sm.add _ _
  have s4 : |A.add a.im ti - (a.im - -ti)| ≤ u * |a.im - -ti| := by
    rw [sub_neg_eq_add]; exact sm.add _ _
  have := bfly_core u τ hu hτ a b ⟨-wh.im, wh.re⟩ (Ic * w) (by rw [nsq_Ic_mul]; exact hw) (rot_tw hτw)
    ⟨-tr, -ti⟩ ⟨A.sub a.re tr, A.sub a.im ti⟩ ⟨A.add a.re tr, A.add a.im ti⟩ t1 t2 s1 s2 s3 s4
  simp only [bfC, citFmaB, ← htr, ← hti]
  exact this

end Spq.FftErr
